(* Extract_trees.v — extraction of the tree-based exact-algorithm models (group "trees": acceptance replay of
   mcb_sva_fvs_trees / mcb_sva_iso_trees runs, the deterministic resolution, and the run AS EXECUTED under the recovered
   std::sort arrangement: TreesFloatModel.mcb_sva_trees_go_Z / mcb_sva_trees_order at Z).  ExtrOcamlBasic only; no Extract
   directive of our own. *)
From Coq Require Extraction ExtrOcamlBasic.
From Coq Require Import ZArith.
From Parmcb Require Import TreesModel TreesFloatModel.
Extraction Language OCaml.
Set Extraction Optimize.
Extraction "model.ml"
  Z.add Z.mul Z.opp Z.div_eucl Z.of_nat Z.to_nat Z.compare Z.eqb
  simpleb mcb_sva_trees_replay_Z mcb_sva_trees_accept_Z mcb_sva_trees_first_Z trees_phase_ok
  mcb_sva_trees_go_Z mcb_sva_trees_order.
