(* Extract_ref.v — extraction of the verified reference algorithm and checkers (RefModel.v) to OCaml.
   Uses ExtrOcamlBasic only; nat, positive, Z stay the extracted inductive types.  No Extract
   Constant/Inductive directive of our own.  Run from the directory that should receive model.ml/model.mli. *)
From Coq Require Extraction ExtrOcamlBasic.
From Coq Require Import ZArith.
From Parmcb Require Import GraphModel GF2Model GraphSpec ForestModel SvaModel RefModel.
Extraction Language OCaml.
Set Extraction Optimize.
Extraction "model.ml"
  Z.add Z.mul Z.opp Z.div_eucl Z.of_nat Z.to_nat Z.compare Z.eqb
  simpleb set_of_list weight total_weight create_index
  is_simple_cycle_rawb ref_search ref_mcb opt_weight basis_checkb mcb_check_with mcb_checkb.
