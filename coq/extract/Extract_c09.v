(* Extract_c09.v — extraction of the binary64 instances of the signed-search model and of the tree-based variants
   (SignedFloatModel.v, TreesFloatModel.v; group "c09").
   ExtrOcamlBasic + ExtrOCamlFloats (the ONE extra extraction library of this property: it maps Coq's primitive
   floats PrimFloat.float / add / ltb / ... to the module Float64 of Coq's own kernel, kernel/float64.ml, where
   add x y = x +. y and lt x y = x < y on OCaml's unboxed IEEE-754 doubles; the executable must be linked with
   the ocamlfind package coq-core.kernel).  No directives of our own. *)
From Coq Require Extraction ExtrOcamlBasic ExtrOCamlFloats.
From Coq Require Import ZArith.
From Parmcb Require Import SignedFloatModel TreesFloatModel.
Extraction Language OCaml.
Set Extraction Optimize.
Extraction "model.ml"
  Z.add Z.mul Z.opp Z.div_eucl Z.of_nat Z.to_nat Z.compare Z.eqb
  mcb_sva_signed_F mcb_sva_signed_F_w bidir_F
  sp_node_of sp_first opposite
  tf_sptree tf_sptrees_all tf_horton_cycles tf_fvs_cycles tf_iso_cycles tf_iso_cycles_strict tf_tl_answers
  tf_mcb_sva_trees_first tf_mcb_sva_trees_replay tf_mcb_sva_trees_accept tf_mcb_sva_trees_first_dflt tf_mcb_sva_trees_accept_dflt
  tf_mcb_sva_trees_go tf_lookup_direct tf_mcb_sva_trees_explain.
