(* Extract_c03.v — extraction of the models of the TBB-parallel exact algorithms (group "c03"): the signed variant
   (ParSignedModel) and the TBB lookup of the tree-based variants (ParTreesModel).  ExtrOcamlBasic only. *)
From Coq Require Extraction ExtrOcamlBasic.
From Coq Require Import ZArith.
From Parmcb Require Import ParSignedModel ParTreesModel.
Extraction Language OCaml.
Set Extraction Optimize.
Extraction "model.ml"
  Z.add Z.mul Z.opp Z.div_eucl Z.of_nat Z.to_nat Z.compare Z.eqb
  mcb_sva_signed_tbb_Z sched_of_bits chunks_of exec_order forks size
  mcb_sva_trees_tbb_Z pt_lookup_call_Z pt_build_call_Z.
