(* Extract_c03.v — extraction of the model of the TBB-parallel signed algorithm (group "c03").  ExtrOcamlBasic only. *)
From Coq Require Extraction ExtrOcamlBasic.
From Coq Require Import ZArith.
From Parmcb Require Import ParSignedModel.
Extraction Language OCaml.
Set Extraction Optimize.
Extraction "model.ml"
  Z.add Z.mul Z.opp Z.div_eucl Z.of_nat Z.to_nat Z.compare Z.eqb
  mcb_sva_signed_tbb_Z sched_of_bits chunks_of exec_order forks size.
