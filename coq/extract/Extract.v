(* Extract.v — extraction of the executable models to OCaml for the correspondence check.
   Uses ExtrOcamlBasic only (bool, option, list, prod, unit, sumbool mapped to OCaml's);
   nat, positive, N, Z stay the extracted inductive types.  No Extract Constant/Inductive
   directive of our own. Run from the directory that should receive model.ml/model.mli. *)
From Coq Require Extraction ExtrOcamlBasic.
From Parmcb Require Import GF2Model.
Extraction Language OCaml.
Set Extraction Optimize.
Extraction "model.ml" run_dump.
