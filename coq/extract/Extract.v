(* Extract.v — extraction of the executable models to OCaml for the correspondence check.
   Uses ExtrOcamlBasic only (bool, option, list, prod, unit, sumbool mapped to OCaml's);
   nat, positive, N, Z stay the extracted inductive types.  No Extract Constant/Inductive
   directive of our own. Run from the directory that should receive model.ml/model.mli. *)
From Coq Require Extraction ExtrOcamlBasic.
From Coq Require Import ZArith.
From Parmcb Require Import GF2Model FpModel FpOverflowModel GraphModel ForestModel FvsModel SpannerModel.
Extraction Language OCaml.
Set Extraction Optimize.
Extraction "model.ml"
  Z.add Z.mul Z.opp Z.div_eucl Z.of_nat Z.to_nat Z.compare Z.eqb
  run_dump
  ext_gcd mult_inverse is_prime frun_dump
  ext_gcd_tr mult_inverse_tr is_prime_tr frun_tr_dump tsummary
  simpleb create_index spanning_forest greedy_fvs greedy_fvs_det
  is_bfs_reachable construct_spanner spanner_weights stable_scan merge_scan max_hops.
