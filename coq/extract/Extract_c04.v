(* Extract_c04.v — extraction of the MPI models (group "c04").  ExtrOcamlBasic only. *)
From Coq Require Extraction ExtrOcamlBasic.
From Coq Require Import ZArith.
From Parmcb Require Import MpiModel MpiSignedModel MpiTreesModel.
Extraction Language OCaml.
Set Extraction Optimize.
Extraction "model.ml"
  Z.add Z.mul Z.opp Z.div_eucl Z.of_nat Z.to_nat Z.compare Z.eqb
  mcb_sva_signed_mpi_orig_Z mcb_sva_signed_mpi_fixed_Z boost_reduce_tree rtree_okb
  stride slice_lo slice_len to_sva
  mt_all_pairs_Z mt_local_Z mt_sort_Z mt_rank_lookup_seq_Z mt_rank_accept_tbb_Z mt_trace_run_Z mcb_sva_trees_mpi_seq_Z
  slice indices_to_edges edges_to_indices.
