(* Extract_sva.v — extraction of the exact-algorithm models (group "sva").  ExtrOcamlBasic only. *)
From Coq Require Extraction ExtrOcamlBasic.
From Coq Require Import ZArith.
From Parmcb Require Import SignedZModel.
Extraction Language OCaml.
Set Extraction Optimize.
Extraction "model.ml"
  Z.add Z.mul Z.opp Z.div_eucl Z.of_nat Z.to_nat Z.compare Z.eqb
  mcb_sva_signed_Z bidir_Z.
