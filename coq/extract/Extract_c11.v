(* Extract_c11.v — extraction of the C11 model (DemoModel.v) to OCaml for the correspondence check.
   ExtrOcamlBasic only; no Extract Constant/Inductive directive of our own.  Run from the directory that should
   receive model.ml/model.mli (tools/lib.py: ensure_model("c11")). *)
From Coq Require Extraction ExtrOcamlBasic.
From Coq Require Import ZArith.
From Parmcb Require Import DemoModel.
Extraction Language OCaml.
Set Extraction Optimize.
Extraction "model.ml"
  Z.add Z.mul Z.opp Z.div_eucl Z.of_nat Z.to_nat Z.compare Z.eqb
  default_opts demo_mcb demo_approx demo_stats demo_mpi_orig demo_mpi terminates size_t_of_int.
