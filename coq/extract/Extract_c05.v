(* Extract_c05.v — extraction of the approximate-algorithm models (group "c05": C05 / C06).  ExtrOcamlBasic only. *)
From Coq Require Extraction ExtrOcamlBasic.
From Coq Require Import ZArith.
From Parmcb Require Import SpannerModel DijkstraModel ApproxModel.
Extraction Language OCaml.
Set Extraction Optimize.
Extraction "model.ml"
  Z.add Z.mul Z.opp Z.div_eucl Z.of_nat Z.to_nat Z.compare Z.eqb
  construct_spanner spanner_weights dijkstra approx_run approx_sva_signed_Z approx_sva_given.
