(* Extract_c05.v — extraction of the approximate-algorithm models (group "c05": C05 / C06).  ExtrOcamlBasic only. *)
From Coq Require Extraction ExtrOcamlBasic.
From Coq Require Import ZArith.
From Parmcb Require Import SpannerModel DijkstraModel ApproxModel ApproxTreesModel ApproxParModel.
Extraction Language OCaml.
Set Extraction Optimize.
Extraction "model.ml"
  Z.add Z.mul Z.opp Z.div_eucl Z.of_nat Z.to_nat Z.compare Z.eqb
  construct_spanner spanner_weights merge_scan dijkstra approx_run approx_sva_signed_Z approx_sva_given
  approx_sva_fvs_trees_Z approx_run_tbb approx_sva_signed_tbb_Z approx_sva_given_tbb.
