(* Extract_c10.v — extraction of the DIMACS reader / validator models (group c10) to OCaml.
   Uses ExtrOcamlBasic only; nat, positive, N, Z, Q stay the extracted inductive types.
   No Extract Constant/Inductive directive of our own. *)
From Coq Require Extraction ExtrOcamlBasic.
From Coq Require Import ZArith QArith.
From Parmcb Require Import DimacsModel.
Extraction Language OCaml.
Set Extraction Optimize.
Extraction "model.ml"
  Z.add Z.mul Z.opp Z.div_eucl Z.of_nat Z.to_nat Z.compare Z.eqb
  read read_orig has_loops has_multiple_edges has_non_positive_weights
  print_dimacs layout_ok canonical_layout canonical_fits Qred.
