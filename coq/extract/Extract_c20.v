(* Extract_c20.v — extraction of the C20 model (TbbControlModel.v) to OCaml for the correspondence check.
   ExtrOcamlBasic only; no Extract Constant/Inductive directive of our own.  Run from the directory that should
   receive model.ml/model.mli (tools/lib.py: ensure_model("c20")). *)
From Coq Require Extraction ExtrOcamlBasic.
From Coq Require Import ZArith.
From Parmcb Require Import TbbControlModel.
Extraction Language OCaml.
Set Extraction Optimize.
Extraction "model.ml"
  Z.add Z.mul Z.opp Z.div_eucl Z.of_nat Z.to_nat Z.compare Z.eqb
  prog0 set_concurrency set_concurrency_orig run_trace
  effective_cores demo_knob demo_knob_orig demo_says demo_says_orig demo_algo algo_parallel demo_run demo_mpi_knob.
