(* Extract_c14.v — extraction of the candidate-collection models (C14) to OCaml.
   ExtrOcamlBasic only; no Extract directive of our own. *)
From Coq Require Extraction ExtrOcamlBasic.
From Coq Require Import ZArith.
From Parmcb Require Import GraphModel HeapModel LexSPModel FvsModel CandidatesModel.
Extraction Language OCaml.
Set Extraction Optimize.
Extraction "model.ml"
  Z.add Z.mul Z.opp Z.div_eucl Z.of_nat Z.to_nat Z.compare Z.eqb
  simpleb horton_cycles_Z fvs_cycles_Z iso_cycles_Z.
