(* Extract_c12.v — extraction of the lexicographic shortest-path-tree model (C12) to OCaml.
   ExtrOcamlBasic only; no Extract directive of our own. *)
From Coq Require Extraction ExtrOcamlBasic.
From Coq Require Import ZArith.
From Parmcb Require Import GraphModel HeapModel LexSPModel.
Extraction Language OCaml.
Set Extraction Optimize.
Extraction "model.ml"
  Z.add Z.mul Z.opp Z.div_eucl Z.of_nat Z.to_nat Z.compare Z.eqb
  simpleb opposite sptree_Z sptrees_all_Z sp_node_of sp_first sp_parent.
