(* OptVariantsProofs.v — property C08, clause "the optimum is identical across all exact variants and backends", PREMISE-FREE.

   Properties_C08.C08_variants_agree_modulo_search is about runs of the generic support-vector loop whose per-phase search is
   ASSUMED to return minimum odd cycles (exact_run).  Here the variants are the entry-point MODELS themselves, under any values of
   their oracles, and the premise is discharged by the per-variant theorems

       variant            model                                                         theorem
       VSigned            SignedZModel.mcb_sva_signed_Z                                 C02_signed
       VSignedTbb         ParSignedModel.mcb_sva_signed_tbb_Z                           C03_signed_tbb
       VFvsTrees          TreesModel.mcb_sva_trees_accept_Z TbFvs (accepted runs)       C02_fvs_trees
       VIsoTrees          TreesModel.mcb_sva_trees_accept_Z TbIso (accepted runs)       C02_iso_trees_explicit
       VFvsTreesTbb       ParTreesModel.mcb_sva_trees_tbb_Z wmax TbFvs                  C03_fvs_trees_tbb
       VIsoTreesTbb       ParTreesModel.mcb_sva_trees_tbb_Z wmax TbIso                  C03_iso_trees_tbb
       VSignedMpi         MpiSignedModel.mcb_sva_signed_mpi_fixed_Z / _orig_Z           C04c_result_fixed / _orig_agreeing_orders
       VFvsTreesMpi       MpiTreesModel.mcb_sva_trees_mpi_seq_Z TbFvs                   C04c_result_fvs_trees_mpi
       VIsoTreesMpi       MpiTreesModel.mcb_sva_trees_mpi_seq_Z TbIso                   C04c_result_iso_trees_mpi
       VFvsTreesTbbMpi    MpiTreesTbbModel.mcb_sva_trees_tbb_mpi_Z wmax TbFvs           C04c_result_fvs_trees_tbb_mpi_exact
       VIsoTreesTbbMpi    MpiTreesTbbModel.mcb_sva_trees_tbb_mpi_Z wmax TbIso           C04c_result_iso_trees_tbb_mpi_exact

   [variant_returns v g w x] = "x is a value the model of variant v can return on (g, w)": existential over EVERY oracle of that
   model (and, for the MPI variants, over the number P >= 1 of processes).  The conditions on the oracles are their
   well-formedness only (otherwise the models answer with an explicit bad-oracle value): the BFS root order mentions every
   vertex, greedy_fvs runs to completion under the pick oracle, the reduction trees have the ranks 0..P-1 as leaves, the per-rank
   sort arrangements are what std::sort guarantees, (signed MPI as found) the ranks' pointer orders coincide.  Pointer orders,
   bit streams, insertion orders, arrangements of the TBB lookups and numeric_limits::max are unconstrained.

   Nothing is extracted from this file; final statements: Properties_C08_variants.v. *)
From Coq Require Import ZArith List Bool Arith Lia Permutation Sorted.
From Parmcb Require Import GraphModel GraphSpec McbSpec SvaModel SvaSpec OptSpec ForestModel FvsModel CandidatesModel
     SignedZModel TreesModel ParSignedModel MpiModel MpiSignedModel MpiProofs1 SchedModel ParTreesModel MpiTreesModel
     MpiTreesTbbModel OptProofs OptProofs2 OptProofs4 OptProofs6.
From Parmcb Require Import DemoModel DemoE2E DemoE2E2.
From Parmcb Require Properties_C02 Properties_C02_trees Properties_C03 Properties_C03_trees Properties_C04 Properties_C04_trees
     Properties_C04_trees_tbb Properties_C08 Properties_C13.
Import ListNotations.
Local Open Scope Z_scope.

(* ==================================================================================================================== *)
(* 1. the exact variants and what their models can return                                                               *)
(* ==================================================================================================================== *)

Inductive exact_variant :=
| VSigned | VSignedTbb | VFvsTrees | VIsoTrees | VFvsTreesTbb | VIsoTreesTbb
| VSignedMpi | VFvsTreesMpi | VIsoTreesMpi | VFvsTreesTbbMpi | VIsoTreesTbbMpi.

Definition all_variants : list exact_variant :=
  [VSigned; VSignedTbb; VFvsTrees; VIsoTrees; VFvsTreesTbb; VIsoTreesTbb;
   VSignedMpi; VFvsTreesMpi; VIsoTreesMpi; VFvsTreesTbbMpi; VIsoTreesTbbMpi].

Definition variant_returns (v : exact_variant) (g : graph) (w : list Z) (x : Z) : Prop :=
  match v with
  | VSigned =>          (* mcb_sva_signed: root order, pointer order *)
      exists roots eord cycles sup, covers g roots /\ mcb_sva_signed_Z g w roots eord = SvaOk cycles x sup
  | VSignedTbb =>       (* mcb_sva_signed_tbb: + schedule bit stream, insertion order of the supports *)
      exists roots eord bits perm cycles sup pos,
        covers g roots /\ mcb_sva_signed_tbb_Z g w roots eord bits perm = (SvaOk cycles x sup, pos)
  | VFvsTrees =>        (* mcb_sva_fvs_trees: an accepted run (every resolution of the unstable std::sort) *)
      exists roots picks fvs cycles,
        covers g roots /\ greedy_fvs g picks = FvsOk fvs /\ mcb_sva_trees_accept_Z TbFvs g w roots picks cycles = Some x
  | VIsoTrees =>        (* mcb_sva_iso_trees *)
      exists roots picks cycles, covers g roots /\ mcb_sva_trees_accept_Z TbIso g w roots picks cycles = Some x
  | VFvsTreesTbb =>     (* mcb_sva_fvs_trees_tbb: numeric_limits::max, arrangement of the collection, bit stream *)
      exists wmax roots picks fvs arr bits cycles sup pos,
        covers g roots /\ greedy_fvs g picks = FvsOk fvs /\
        mcb_sva_trees_tbb_Z wmax TbFvs g w roots picks arr bits = (PtRun (SvaOk cycles x sup), pos)
  | VIsoTreesTbb =>     (* mcb_sva_iso_trees_tbb *)
      exists wmax roots picks arr bits cycles sup pos,
        covers g roots /\ mcb_sva_trees_tbb_Z wmax TbIso g w roots picks arr bits = (PtRun (SvaOk cycles x sup), pos)
  | VSignedMpi =>       (* mcb_sva_signed_mpi: P, reduction trees; after the pointer-order fix, or as found with agreeing orders *)
      exists P roots rtree_of cycles sup rest,
        (1 <= P)%nat /\ covers g roots /\ (forall k, rtree_ok P (rtree_of k)) /\
        (mcb_sva_signed_mpi_fixed_Z g w roots P rtree_of = Some (MpiModel.Done (RankOut cycles x sup None :: rest)) \/
         exists eords, (forall r, (r < P)%nat -> nth r eords [] = nth 0%nat eords []) /\
           mcb_sva_signed_mpi_orig_Z g w roots P eords rtree_of = Some (MpiModel.Done (RankOut cycles x sup None :: rest)))
  | VFvsTreesMpi =>     (* mcb_sva_fvs_trees_mpi: P, per-rank sort arrangements, reduction trees *)
      exists P roots picks fvs arr rtree_of cycles sup rest,
        (1 <= P)%nat /\ covers g roots /\ greedy_fvs g picks = FvsOk fvs /\ (forall k, rtree_ok P (rtree_of k)) /\
        mpi_arrs_ok TbFvs g w roots picks P arr /\
        mcb_sva_trees_mpi_seq_Z TbFvs g w roots picks P arr rtree_of
        = MtRun Z (MpiModel.Done (RankOut cycles x sup None :: rest))
  | VIsoTreesMpi =>     (* mcb_sva_iso_trees_mpi *)
      exists P roots picks arr rtree_of cycles sup rest,
        (1 <= P)%nat /\ covers g roots /\ (forall k, rtree_ok P (rtree_of k)) /\ mpi_arrs_ok TbIso g w roots picks P arr /\
        mcb_sva_trees_mpi_seq_Z TbIso g w roots picks P arr rtree_of
        = MtRun Z (MpiModel.Done (RankOut cycles x sup None :: rest))
  | VFvsTreesTbbMpi =>  (* mcb_sva_fvs_trees_tbb_mpi: + numeric_limits::max, per-rank per-phase bit streams *)
      exists P wmax roots picks fvs arr bits rtree_of cycles sup rest,
        (1 <= P)%nat /\ covers g roots /\ greedy_fvs g picks = FvsOk fvs /\ (forall k, rtree_ok P (rtree_of k)) /\
        mpi_arrs_ok TbFvs g w roots picks P arr /\
        mcb_sva_trees_tbb_mpi_Z wmax TbFvs g w roots picks P arr bits rtree_of
        = MtRun Z (MpiModel.Done (RankOut cycles x sup None :: rest))
  | VIsoTreesTbbMpi =>  (* mcb_sva_iso_trees_tbb_mpi *)
      exists P wmax roots picks arr bits rtree_of cycles sup rest,
        (1 <= P)%nat /\ covers g roots /\ (forall k, rtree_ok P (rtree_of k)) /\ mpi_arrs_ok TbIso g w roots picks P arr /\
        mcb_sva_trees_tbb_mpi_Z wmax TbIso g w roots picks P arr bits rtree_of
        = MtRun Z (MpiModel.Done (RankOut cycles x sup None :: rest))
  end.

(* "a variant" in general: any relation between weighted graphs and returned values all of whose values on the exact domain
   are the optimum *)
Definition returns_opt (V : graph -> list Z -> Z -> Prop) : Prop :=
  forall g w x, simple_graph g -> positive_weights g w -> V g w x -> is_opt g w x.
(* ... and that can return a value on every input of the domain *)
Definition total_on_domain (V : graph -> list Z -> Z -> Prop) : Prop :=
  forall g w, simple_graph g -> positive_weights g w -> exists x, V g w x.

(* ==================================================================================================================== *)
(* 2. every model is such a variant                                                                                     *)
(* ==================================================================================================================== *)

Lemma variant_returns_opt : forall v, returns_opt (variant_returns v).
Proof.
  intros v g w x Hs Hw H. destruct v; cbn [variant_returns] in H.
  - apply (can_return_all_exact_opt 0 g w (CallMcb Signed false) x Hs Hw); [discriminate|reflexivity|exact H].
  - apply (can_return_all_exact_opt 0 g w (CallMcb Signed true) x Hs Hw); [discriminate|reflexivity|exact H].
  - apply (can_return_all_exact_opt 0 g w (CallMcb FvsTrees false) x Hs Hw); [discriminate|reflexivity|exact H].
  - apply (can_return_all_exact_opt 0 g w (CallMcb IsoTrees false) x Hs Hw); [discriminate|reflexivity|exact H].
  - apply (can_return_all_exact_opt 0 g w (CallMcb FvsTrees true) x Hs Hw); [discriminate|reflexivity|exact H].
  - apply (can_return_all_exact_opt 0 g w (CallMcb IsoTrees true) x Hs Hw); [discriminate|reflexivity|exact H].
  - destruct H as (P & roots & rt & cycles & sup & rest & HP & Hr & Hrt & E).
    apply (can_return_all_exact_opt P g w (CallMpi Signed) x Hs Hw); [intros _; exact HP|reflexivity|].
    cbn [can_return_all can_return]. exists roots, rt, cycles, sup, rest. split; [exact Hr|]. split; [exact Hrt|exact E].
  - destruct H as (P & roots & picks & fvs & arr & rt & cycles & sup & rest & HP & Hr & Hf & Hrt & Harr & E).
    destruct (Properties_C04_trees.C04c_result_fvs_trees_mpi g w roots picks fvs P arr rt Hs Hw Hr Hf HP Hrt Harr)
      as (fi & cy & t & sp & rs & _ & E' & _ & _ & Hmin & Ht & _).
    rewrite E in E'. inversion E'; subst. apply min_basis_is_opt. exact Hmin.
  - destruct H as (P & roots & picks & arr & rt & cycles & sup & rest & HP & Hr & Hrt & Harr & E).
    destruct (Properties_C04_trees.C04c_result_iso_trees_mpi g w roots picks P arr rt Hs Hw Hr HP Hrt Harr)
      as (fi & cy & t & sp & rs & _ & E' & _ & _ & Hmin & Ht & _).
    rewrite E in E'. inversion E'; subst. apply min_basis_is_opt. exact Hmin.
  - destruct H as (P & wmax & roots & picks & fvs & arr & bits & rt & cycles & sup & rest & HP & Hr & Hf & Hrt & Harr & E).
    apply (can_return_all_exact_opt P g w (CallMpi FvsTrees) x Hs Hw); [intros _; exact HP|reflexivity|].
    cbn [can_return_all]. exists wmax, roots, picks, fvs, arr, bits, rt, cycles, sup, rest.
    split; [exact Hr|]. split; [exact Hf|]. split; [exact Hrt|]. split; [exact Harr|exact E].
  - destruct H as (P & wmax & roots & picks & arr & bits & rt & cycles & sup & rest & HP & Hr & Hrt & Harr & E).
    apply (can_return_all_exact_opt P g w (CallMpi IsoTrees) x Hs Hw); [intros _; exact HP|reflexivity|].
    cbn [can_return_all]. exists wmax, roots, picks, arr, bits, rt, cycles, sup, rest.
    split; [exact Hr|]. split; [exact Hrt|]. split; [exact Harr|exact E].
Qed.

(* every variant returns a value, with every job size P >= 1 for the MPI variants (valid oracles exist; the models are
   total on the domain) *)
Lemma variant_returns_exists_P : forall v P g w, (1 <= P)%nat -> simple_graph g -> positive_weights g w ->
  exists x, variant_returns v g w x.
Proof.
  intros v P g w HP Hs Hw. pose proof (covers_seq g) as Hr.
  assert (Hrt : forall k : nat, rtree_ok P (chain_tree 0 (P - 1))) by (intros _; apply chain_tree_ok; exact HP).
  destruct v; cbn [variant_returns].
  - exact (can_return_all_exists 1 g w (CallMcb Signed false) Hs Hw (le_n 1) eq_refl ltac:(discriminate)).
  - exact (can_return_all_exists 1 g w (CallMcb Signed true) Hs Hw (le_n 1) eq_refl ltac:(discriminate)).
  - exact (can_return_all_exists 1 g w (CallMcb FvsTrees false) Hs Hw (le_n 1) eq_refl ltac:(discriminate)).
  - exact (can_return_all_exists 1 g w (CallMcb IsoTrees false) Hs Hw (le_n 1) eq_refl ltac:(discriminate)).
  - exact (can_return_all_exists 1 g w (CallMcb FvsTrees true) Hs Hw (le_n 1) eq_refl ltac:(discriminate)).
  - exact (can_return_all_exists 1 g w (CallMcb IsoTrees true) Hs Hw (le_n 1) eq_refl ltac:(discriminate)).
  - destruct (can_return_all_exists P g w (CallMpi Signed) Hs Hw HP eq_refl ltac:(discriminate)) as (x & H).
    cbn [can_return_all can_return] in H. destruct H as (roots & rt & cycles & sup & rest & H1 & H2 & H3).
    exists x, P, roots, rt, cycles, sup, rest. split; [exact HP|]. split; [exact H1|]. split; [exact H2|exact H3].
  - destruct (Properties_C13.C13_det_is_a_run g Hs) as (out & _ & Hf & _).
    pose proof (sorted_arrs_ok TbFvs g w (seq 0 (nv g)) out P) as Ha.
    destruct (Properties_C04_trees.C04c_result_fvs_trees_mpi g w (seq 0 (nv g)) out out P _
                (fun _ => chain_tree 0 (P - 1)) Hs Hw Hr Hf HP Hrt Ha) as (fi & cy & t & sp & rs & _ & E & _).
    exists t, P, (seq 0 (nv g)), out, out, (sorted_arrs TbFvs g w (seq 0 (nv g)) out P), (fun _ => chain_tree 0 (P - 1)), cy, sp, rs.
    split; [exact HP|]. split; [exact Hr|]. split; [exact Hf|]. split; [exact Hrt|]. split; [exact Ha|exact E].
  - pose proof (sorted_arrs_ok TbIso g w (seq 0 (nv g)) [] P) as Ha.
    destruct (Properties_C04_trees.C04c_result_iso_trees_mpi g w (seq 0 (nv g)) [] P _
                (fun _ => chain_tree 0 (P - 1)) Hs Hw Hr HP Hrt Ha) as (fi & cy & t & sp & rs & _ & E & _).
    exists t, P, (seq 0 (nv g)), [], (sorted_arrs TbIso g w (seq 0 (nv g)) [] P), (fun _ => chain_tree 0 (P - 1)), cy, sp, rs.
    split; [exact HP|]. split; [exact Hr|]. split; [exact Hrt|]. split; [exact Ha|exact E].
  - destruct (can_return_all_exists P g w (CallMpi FvsTrees) Hs Hw HP eq_refl ltac:(discriminate)) as (x & H).
    cbn [can_return_all] in H.
    destruct H as (wmax & roots & picks & fvs & arr & bits & rt & cycles & sup & rest & H1 & H2 & H3 & H4 & H5).
    exists x, P, wmax, roots, picks, fvs, arr, bits, rt, cycles, sup, rest. repeat (split; [assumption|]). exact H5.
  - destruct (can_return_all_exists P g w (CallMpi IsoTrees) Hs Hw HP eq_refl ltac:(discriminate)) as (x & H).
    cbn [can_return_all] in H.
    destruct H as (wmax & roots & picks & arr & bits & rt & cycles & sup & rest & H1 & H2 & H3 & H4).
    exists x, P, wmax, roots, picks, arr, bits, rt, cycles, sup, rest. repeat (split; [assumption|]). exact H4.
Qed.

Lemma variant_total : forall v, total_on_domain (variant_returns v).
Proof. intros v g w Hs Hw. exact (variant_returns_exists_P v 1 g w (le_n 1) Hs Hw). Qed.

(* ==================================================================================================================== *)
(* 3. all exact variants agree                                                                                          *)
(* ==================================================================================================================== *)

Lemma all_exact_variants_agree : forall g w, simple_graph g -> positive_weights g w ->
  exists x, is_opt g w x /\ (forall y, is_opt g w y -> y = x) /\
            (forall v y, variant_returns v g w y -> y = x) /\ (forall v, exists y, variant_returns v g w y).
Proof.
  intros g w Hs Hw. destruct (opt_exists g w Hs Hw) as (x & Hx). exists x. split; [exact Hx|].
  split; [intros y Hy; exact (Properties_C08.C08_opt_unique g w y x Hy Hx)|].
  split; [|intros v; exact (variant_total v g w Hs Hw)].
  intros v y Hy. exact (Properties_C08.C08_opt_unique g w y x (variant_returns_opt v g w y Hs Hw Hy) Hx).
Qed.

Lemma any_two_variants_agree : forall v1 v2 g w x1 x2, simple_graph g -> positive_weights g w ->
  variant_returns v1 g w x1 -> variant_returns v2 g w x2 -> x1 = x2.
Proof.
  intros v1 v2 g w x1 x2 Hs Hw H1 H2.
  exact (Properties_C08.C08_opt_unique g w x1 x2 (variant_returns_opt v1 g w x1 Hs Hw H1) (variant_returns_opt v2 g w x2 Hs Hw H2)).
Qed.

(* ==================================================================================================================== *)
(* 4. the transformations stay in the exact domain: weights                                                             *)
(* ==================================================================================================================== *)

Lemma pos_isolated k g w : positive_weights g w -> positive_weights (add_isolated k g) w.
Proof. intros H. exact H. Qed.

Lemma pos_relabel f g w : positive_weights g w -> positive_weights (relabel f g) w.
Proof. intros [Hl Hp]. split; [|exact Hp]. unfold ne, relabel; cbn [ge]. rewrite map_length. exact Hl. Qed.

Lemma pos_permute g w sigma : positive_weights g w -> is_edge_perm (ne g) sigma ->
  positive_weights (permute_edges sigma g) (permute_weights sigma w).
Proof.
  intros [Hl Hp] (Hs & _ & Hlt). split.
  - unfold ne, permute_edges, permute_weights; cbn [ge]. rewrite !map_length. reflexivity.
  - unfold permute_weights. rewrite Forall_map, Forall_forall. intros e He.
    rewrite Forall_forall in Hp. apply Hp. apply nth_In. rewrite Hl. apply Hlt. exact He.
Qed.

Lemma pos_union g h wg wh : positive_weights g wg -> positive_weights h wh ->
  positive_weights (disjoint_union g h) (wg ++ wh).
Proof.
  intros [Hl1 Hp1] [Hl2 Hp2]. split.
  - unfold ne, disjoint_union in *; cbn [ge]. rewrite !app_length, map_length. congruence.
  - apply Forall_app. split; assumption.
Qed.

Lemma Forall_set_nth {A} (Q : A -> Prop) (L : list A) : forall i x, Forall Q L -> Q x -> Forall Q (GraphModel.set_nth L i x).
Proof.
  induction L as [|y L IH]; intros i x HL Hx; [destruct i; constructor|].
  inversion HL as [|y' L' Hy HL']; subst. destruct i as [|i]; cbn [GraphModel.set_nth]; constructor; auto.
Qed.

Lemma length_set_nth {A} (L : list A) : forall i x, length (GraphModel.set_nth L i x) = length L.
Proof. induction L as [|y L IH]; intros [|i] x; cbn [GraphModel.set_nth length]; try reflexivity. rewrite IH. reflexivity. Qed.

Lemma pos_subdivide g w e a b : positive_weights g w -> (e < ne g)%nat -> 0 < a -> 0 < b ->
  positive_weights (subdivide e g) (subdivide_weights e a b w).
Proof.
  intros [Hl Hp] He Ha Hb. split.
  - unfold subdivide, subdivide_weights. unfold ends. unfold ne in He.
    destruct (nth_error (ge g) e) as [[s t]|] eqn:E; [|apply nth_error_None in E; lia].
    unfold ne; cbn [ge]. rewrite !app_length, !length_set_nth. cbn [length]. unfold ne in Hl. lia.
  - unfold subdivide_weights. apply Forall_app. split; [apply Forall_set_nth; assumption|repeat constructor; exact Hb].
Qed.

Lemma ne_add_edge n' a b g : ne (add_edge n' a b g) = (ne g + 1)%nat.
Proof. unfold ne, add_edge; cbn [ge]. rewrite app_length. reflexivity. Qed.

Lemma ne_add_pendant u fl g : ne (add_pendant u fl g) = (ne g + 1)%nat.
Proof. unfold add_pendant. destruct fl; apply ne_add_edge. Qed.

Lemma ne_add_pendants us : forall g, ne (add_pendants us g) = (ne g + length us)%nat.
Proof.
  induction us as [|[u fl] r IH]; intros g; cbn [add_pendants length]; [lia|]. rewrite IH, ne_add_pendant. lia.
Qed.

Lemma pos_pendants us g w cs : positive_weights g w -> length cs = length us -> Forall (fun c => 0 < c) cs ->
  positive_weights (add_pendants us g) (w ++ cs).
Proof.
  intros [Hl Hp] Hc Hcs. split; [rewrite app_length, ne_add_pendants; lia|apply Forall_app; split; assumption].
Qed.

Lemma pos_bridge u v g w c : positive_weights g w -> 0 < c -> positive_weights (add_bridge u v g) (w ++ [c]).
Proof.
  intros [Hl Hp] Hc. split; [unfold add_bridge; rewrite app_length, ne_add_edge; cbn [length]; lia|].
  apply Forall_app. split; [exact Hp|repeat constructor; exact Hc].
Qed.

(* ---- the disjoint union of two simple graphs is simple ---- *)

Lemma same_pair_shift n p q :
  same_pair (n + fst p, n + snd p)%nat (n + fst q, n + snd q)%nat = same_pair p q.
Proof.
  unfold same_pair; cbn [fst snd].
  assert (X : forall a b, Nat.eqb (n + a) (n + b) = Nat.eqb a b).
  { intros a b. destruct (Nat.eqb a b) eqn:E; [apply Nat.eqb_eq in E; apply Nat.eqb_eq; lia|
                                                 apply Nat.eqb_neq in E; apply Nat.eqb_neq; lia]. }
  rewrite !X. reflexivity.
Qed.

Lemma simple_union g h : simple_graph g -> simple_graph h -> simple_graph (disjoint_union g h).
Proof.
  unfold simple_graph, simpleb. intros Hg Hh.
  apply andb_true_iff in Hg as [G1 G2]. apply andb_true_iff in Hh as [H1 H2].
  rewrite forallb_forall in G1, H1.
  assert (Gr : forall p, In p (ge g) -> (fst p < nv g /\ snd p < nv g /\ fst p <> snd p)%nat).
  { intros p Hp. specialize (G1 p Hp). apply andb_true_iff in G1 as [G1 Gn]. apply andb_true_iff in G1 as [Ga Gb].
    apply Nat.ltb_lt in Ga, Gb. apply negb_true_iff, Nat.eqb_neq in Gn. auto. }
  assert (Hr : forall p, In p (ge h) -> (fst p < nv h /\ snd p < nv h /\ fst p <> snd p)%nat).
  { intros p Hp. specialize (H1 p Hp). apply andb_true_iff in H1 as [H1 Hn]. apply andb_true_iff in H1 as [Ha Hb].
    apply Nat.ltb_lt in Ha, Hb. apply negb_true_iff, Nat.eqb_neq in Hn. auto. }
  cbn [disjoint_union nv ge]. apply andb_true_iff. split.
  - apply forallb_forall. intros p Hp. apply in_app_or in Hp as [Hp|Hp].
    + destruct (Gr p Hp) as (A & B & C).
      apply andb_true_iff; split; [apply andb_true_iff; split; apply Nat.ltb_lt; lia|apply negb_true_iff, Nat.eqb_neq; exact C].
    + apply in_map_iff in Hp as (q & <- & Hq). destruct (Hr q Hq) as (A & B & C). cbn [fst snd].
      apply andb_true_iff; split; [apply andb_true_iff; split; apply Nat.ltb_lt; lia|apply negb_true_iff, Nat.eqb_neq; lia].
  - apply op_no_parallel_intro. intros i j p q Hij Hi Hj.
    destruct (Nat.lt_ge_cases j (length (ge g))) as [Hjl|Hjl].
    + rewrite nth_error_app1 in Hi, Hj by lia. exact (op_no_parallel_elim _ G2 i j p q Hij Hi Hj).
    + rewrite nth_error_app2 in Hj by lia. rewrite nth_error_map in Hj.
      destruct (nth_error (ge h) (j - length (ge g))) as [q0|] eqn:Eq; [|discriminate].
      cbn [option_map] in Hj. inversion Hj; subst q. clear Hj.
      destruct (Nat.lt_ge_cases i (length (ge g))) as [Hil|Hil].
      * rewrite nth_error_app1 in Hi by lia. apply nth_error_In in Hi. destruct (Gr p Hi) as (A & B & _).
        unfold same_pair; cbn [fst snd].
        assert (E1 : Nat.eqb (fst p) (nv g + fst q0) = false) by (apply Nat.eqb_neq; lia).
        assert (E2 : Nat.eqb (fst p) (nv g + snd q0) = false) by (apply Nat.eqb_neq; lia).
        rewrite E1, E2. reflexivity.
      * rewrite nth_error_app2 in Hi by lia. rewrite nth_error_map in Hi.
        destruct (nth_error (ge h) (i - length (ge g))) as [p0|] eqn:Ep; [|discriminate].
        cbn [option_map] in Hi. inversion Hi; subst p. clear Hi.
        rewrite same_pair_shift. apply (op_no_parallel_elim _ H2 (i - length (ge g)) (j - length (ge g))); [lia|exact Ep|exact Eq].
Qed.

(* ==================================================================================================================== *)
(* 5. every relation between optima is a relation between the values returned by any two variants                      *)
(* ==================================================================================================================== *)

(* the generic transfer: F relates the optima of (g, w) and (g', w'); V answers on the first, V' on the second *)
Lemma variants_respect_relation : forall (V V' : graph -> list Z -> Z -> Prop) (F : Z -> Z) g w g' w' t t',
  returns_opt V -> returns_opt V' ->
  simple_graph g -> positive_weights g w -> simple_graph g' -> positive_weights g' w' ->
  (forall x, is_opt g w x -> is_opt g' w' (F x)) ->
  V g w t -> V' g' w' t' -> t' = F t.
Proof.
  intros V V' F g w g' w' t t' HV HV' Hs Hw Hs' Hw' HF Ht Ht'.
  exact (Properties_C08.C08_opt_unique g' w' t' (F t) (HV' g' w' t' Hs' Hw' Ht') (HF t (HV g w t Hs Hw Ht))).
Qed.

(* the eight metamorphic relations of Properties_C08.v, between the value t a variant V returns on the base graph and the value
   t' a (possibly different) variant V' returns on the transformed graph *)
Definition relations_hold (V V' : graph -> list Z -> Z -> Prop) : Prop :=
  (* scale *)
  (forall g w k t t', simple_graph g -> positive_weights g w -> 0 < k ->
     V g w t -> V' g (scale_weights k w) t' -> t' = k * t) /\
  (* isolated vertices *)
  (forall k g w t t', simple_graph g -> positive_weights g w ->
     V g w t -> V' (add_isolated k g) w t' -> t' = t) /\
  (* vertex renumbering *)
  (forall f f' g w t t', simple_graph g -> positive_weights g w -> perm_on (nv g) f f' ->
     V g w t -> V' (relabel f g) w t' -> t' = t) /\
  (* edge insertion order *)
  (forall g w sigma t t', simple_graph g -> positive_weights g w -> is_edge_perm (ne g) sigma ->
     V g w t -> V' (permute_edges sigma g) (permute_weights sigma w) t' -> t' = t) /\
  (* disjoint union: additive (both summands by V, the union by V') *)
  (forall g h wg wh x y z, simple_graph g -> simple_graph h -> positive_weights g wg -> positive_weights h wh ->
     V g wg x -> V h wh y -> V' (disjoint_union g h) (wg ++ wh) z -> z = x + y) /\
  (* subdivision of an edge *)
  (forall g w e a b t t', simple_graph g -> positive_weights g w -> (e < ne g)%nat -> 0 < a -> 0 < b -> wt w e = a + b ->
     V g w t -> V' (subdivide e g) (subdivide_weights e a b w) t' -> t' = t) /\
  (* pendant edges / pendant trees, any positive weights *)
  (forall us g w cs t t', simple_graph g -> positive_weights g w -> pendants_ok us (nv g) -> length cs = length us ->
     Forall (fun c => 0 < c) cs ->
     V g w t -> V' (add_pendants us g) (w ++ cs) t' -> t' = t) /\
  (* a bridge of any positive weight *)
  (forall g u v w c t t', simple_graph g -> positive_weights g w -> is_bridge_pair g u v -> 0 < c ->
     V g w t -> V' (add_bridge u v g) (w ++ [c]) t' -> t' = t).

Lemma relations_hold_generic : forall V V', returns_opt V -> returns_opt V' -> relations_hold V V'.
Proof.
  intros V V' HV HV'. unfold relations_hold.
  split.
  { intros g w k t t' Hs Hw Hk Ht Ht'.
    apply (variants_respect_relation V V' (Z.mul k) g w g (scale_weights k w) t t' HV HV' Hs Hw Hs
             (op_positive_scale g w k Hk Hw)); [|exact Ht|exact Ht'].
    intros x Hx. apply Properties_C08.C08_scale_any; [lia|exact Hx]. }
  split.
  { intros k g w t t' Hs Hw Ht Ht'.
    apply (variants_respect_relation V V' (fun x => x) g w (add_isolated k g) w t t' HV HV' Hs Hw
             (op_simple_isolated k g Hs) (pos_isolated k g w Hw)); [|exact Ht|exact Ht'].
    intros x Hx. apply Properties_C08.C08_isolated; assumption. }
  split.
  { intros f f' g w t t' Hs Hw Hf Ht Ht'.
    apply (variants_respect_relation V V' (fun x => x) g w (relabel f g) w t t' HV HV' Hs Hw
             (op_simple_relabel f f' g Hs Hf) (pos_relabel f g w Hw)); [|exact Ht|exact Ht'].
    intros x Hx. apply (Properties_C08.C08_relabel f f'); assumption. }
  split.
  { intros g w sigma t t' Hs Hw Hp Ht Ht'.
    apply (variants_respect_relation V V' (fun x => x) g w (permute_edges sigma g) (permute_weights sigma w) t t' HV HV' Hs Hw
             (op_simple_permute_edges g sigma Hs Hp) (pos_permute g w sigma Hw Hp)); [|exact Ht|exact Ht'].
    intros x Hx. apply Properties_C08.C08_edge_order; [exact Hs|exact (proj1 Hw)|exact Hp|exact Hx]. }
  split.
  { intros g h wg wh x y z Hsg Hsh Hwg Hwh Hx Hy Hz.
    pose proof (HV g wg x Hsg Hwg Hx) as Ox. pose proof (HV h wh y Hsh Hwh Hy) as Oy.
    pose proof (HV' _ _ z (simple_union g h Hsg Hsh) (pos_union g h wg wh Hwg Hwh) Hz) as Oz.
    exact (Properties_C08.C08_opt_unique _ _ _ _ Oz (Properties_C08.C08_union g h wg wh x y Hsg Hsh Hwg Hwh Ox Oy)). }
  split.
  { intros g w e a b t t' Hs Hw He Ha Hb Hab Ht Ht'.
    apply (variants_respect_relation V V' (fun x => x) g w (subdivide e g) (subdivide_weights e a b w) t t' HV HV' Hs Hw
             (op_simple_subdivide g e Hs He) (pos_subdivide g w e a b Hw He Ha Hb)); [|exact Ht|exact Ht'].
    intros x Hx. apply Properties_C08.C08_subdivide; assumption. }
  split.
  { intros us g w cs t t' Hs Hw Hok Hl Hcs Ht Ht'.
    apply (variants_respect_relation V V' (fun x => x) g w (add_pendants us g) (w ++ cs) t t' HV HV' Hs Hw
             (op_simple_pendants us g Hs Hok) (pos_pendants us g w cs Hw Hl Hcs)); [|exact Ht|exact Ht'].
    intros x Hx. apply (proj1 (Properties_C08.C08_pendant_tree us g w cs x Hs Hok (proj1 Hw) Hl)). exact Hx. }
  { intros g u v w c t t' Hs Hw Hb Hc Ht Ht'.
    apply (variants_respect_relation V V' (fun x => x) g w (add_bridge u v g) (w ++ [c]) t t' HV HV' Hs Hw
             (op_simple_bridge g u v Hs Hb) (pos_bridge u v g w c Hw Hc)); [|exact Ht|exact Ht'].
    intros x Hx. apply (proj1 (Properties_C08.C08_bridge g u v w c x Hs Hb (proj1 Hw))). exact Hx. }
Qed.

Lemma relations_hold_for_every_variant : forall v v', relations_hold (variant_returns v) (variant_returns v').
Proof. intros v v'. apply relations_hold_generic; apply variant_returns_opt. Qed.
