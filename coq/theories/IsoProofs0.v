(* IsoProofs0.v — shared vocabulary of the sufficiency proof of the ISOMETRIC candidate collection
   (Amaldi–Iuliano–Rizzi 2010 over the lexicographic shortest paths of LexSPModel.v).

   P(x,y) := the unique lc_lexmin walk from x to y (LexSPProofsCons1/2: shortest, lc_LT-least label; reversal
   symmetric, closed under sub-walks; it is the tree walk of the model's tree of x, lc_tree_lexmin).

   iso_cycle_walk g x w   w is a closed walk from x that repeats neither a vertex nor an edge (a simple cycle given
                          with a start vertex and a direction)
   iso_rep g wts x w      w is REPRESENTED from x:  w = P(x,a) ++ e ++ reverse P(x,b)  for an edge e joining a and b
                          (what a Horton candidate (tree of x, edge e) with differing `first` labels is)
   iso_rot_of g x w y w'  (y, w') is (x, w) rotated to start at y (same direction) or that rotation reversed
   iso_isometric g wts x w  every rotation of w is represented (in one of the two directions) from its start vertex

   Basic facts: existence and decidability of P, reversal of a concatenation.  Prefix iso_. *)
From Coq Require Import List Arith Bool Lia ZArith Permutation.
From Parmcb Require Import GraphModel GF2Model GraphSpec GraphLemmas LexSPModel LexSPProofs LexSPProofsDist
     LexSPProofsCons1 LexSPProofsCons2 LexSPProofsCons5.
Import ListNotations.

Definition iso_cycle_walk (g : graph) (x : nat) (w : list (nat * nat)) : Prop :=
  walk g x w x /\ NoDup (wverts w) /\ NoDup (wedges w) /\ w <> [].

Definition iso_rep (g : graph) (wts : list Z) (x : nat) (w : list (nat * nat)) : Prop :=
  exists pa e a b pb, joins g e a b /\ lc_lexmin g wts x pa a /\ lc_lexmin g wts x pb b /\
                      w = pa ++ (e, b) :: lc_rev x pb.

(* (y, w') is the closed walk (x, w) started at y instead (w = w1 ++ w2, w1 from x to y), possibly reversed *)
Definition iso_rot_of (g : graph) (x : nat) (w : list (nat * nat)) (y : nat) (w' : list (nat * nat)) : Prop :=
  exists w1 w2, w = w1 ++ w2 /\ walk g x w1 y /\ (w' = w2 ++ w1 \/ w' = lc_rev y (w2 ++ w1)).

Definition iso_isometric (g : graph) (wts : list Z) (x : nat) (w : list (nat * nat)) : Prop :=
  forall w1 w2 y, w = w1 ++ w2 -> walk g x w1 y ->
    iso_rep g wts y (w2 ++ w1) \/ iso_rep g wts y (lc_rev y (w2 ++ w1)).

Section Basics.
  Variable g : graph.
  Variable wts : list Z.
  Hypothesis Hsg : simple_graph g.
  Hypothesis Hpos : positive_weights g wts.

  (* P(x,y) exists for connected x, y: the tree walk *)
  Lemma iso_lexmin_exists x y : connected g x y -> exists p, lc_lexmin g wts x p y.
  Proof.
    intros [q Hq]. pose proof (gl_walk_start_lt g x q y Hsg Hq) as Hx.
    destruct (lz_C12_dist g wts x Hsg Hpos Hx) as [t [Ht [Hok [Hnode _]]]].
    assert (Hy : sp_node_of Z t y <> None) by (apply Hnode; exists q; exact Hq).
    destruct (sp_node_of Z t y) as [nd|] eqn:End; [|contradiction].
    destruct (c12_chain _ _ _ _ Hok y nd End) as [p [Hp _]].
    exists p. eapply lc_tree_lexmin; eauto.
  Qed.

  Lemma iso_walk_eq_dec (p q : list (nat * nat)) : {p = q} + {p <> q}.
  Proof. decide equality. decide equality; apply Nat.eq_dec. Qed.

  (* a walk is P, or P is another walk *)
  Lemma iso_lexmin_dec x q y : walk g x q y ->
    lc_lexmin g wts x q y \/ exists p, lc_lexmin g wts x p y /\ p <> q.
  Proof.
    intros Hq. destruct (iso_lexmin_exists x y (ex_intro _ q Hq)) as [p Hp].
    destruct (iso_walk_eq_dec p q) as [->|Hne]; [left; exact Hp|right; exists p; auto].
  Qed.

  Lemma iso_lexmin_walk x p y : lc_lexmin g wts x p y -> walk g x p y.
  Proof. intros [[H _] _]. exact H. Qed.

  (* reversal of a concatenation *)
  Lemma iso_rev_app : forall p q x y z, walk g x p y -> walk g y q z ->
    lc_rev x (p ++ q) = lc_rev y q ++ lc_rev x p.
  Proof.
    induction p as [|[e a] p IH]; intros q x y z Hp Hq.
    - inversion Hp; subst. cbn [app lc_rev]. rewrite app_nil_r. reflexivity.
    - inversion Hp as [|? ? ? ? ? Hj Hp']; subst. cbn [app lc_rev].
      rewrite (IH q a y z Hp' Hq), app_assoc. reflexivity.
  Qed.

  (* the reversed closed walk of a representation is the representation with the roles of a and b exchanged *)
  Lemma iso_rep_mirror x pa e a b pb : walk g x pa a -> walk g x pb b -> joins g e a b ->
    lc_rev x (pa ++ (e, b) :: lc_rev x pb) = pb ++ (e, a) :: lc_rev x pa.
  Proof.
    intros Ha Hb Hj.
    pose proof (lc_rev_walk g Hsg pb x b Hb) as Hrb.
    assert (Hw2 : walk g a ((e, b) :: lc_rev x pb) x) by (econstructor; eauto).
    rewrite (iso_rev_app pa ((e, b) :: lc_rev x pb) x a x Ha Hw2).
    cbn [lc_rev]. rewrite (lc_rev_invol g Hsg pb x b Hb), <- app_assoc. reflexivity.
  Qed.

  Lemma iso_rep_rev x w : iso_rep g wts x w -> iso_rep g wts x (lc_rev x w).
  Proof.
    intros (pa & e & a & b & pb & Hj & Ha & Hb & ->).
    rewrite (iso_rep_mirror x pa e a b pb (iso_lexmin_walk _ _ _ Ha) (iso_lexmin_walk _ _ _ Hb) Hj).
    exists pb, e, b, a, pa. split; [apply gl_joins_sym; exact Hj|]. auto.
  Qed.

  (* the closed walk of a representation is a closed walk *)
  Lemma iso_rep_walk x w : iso_rep g wts x w -> walk g x w x.
  Proof.
    intros (pa & e & a & b & pb & Hj & Ha & Hb & ->).
    eapply gl_walk_app; [apply (iso_lexmin_walk _ _ _ Ha)|]. econstructor; [exact Hj|].
    apply (lc_rev_walk g Hsg). apply (iso_lexmin_walk _ _ _ Hb).
  Qed.
End Basics.
