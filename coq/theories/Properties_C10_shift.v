(* Properties_C10_shift.v — read_dimacs_from_file called on a graph that is not empty ADDS the described graph next
   to what is there.  Only statements; each closed by [exact <lemma>] and followed by Print Assumptions.

   Model: DimacsModel.v.  The C++ function keeps its vertex_map and nnodes in locals and only talks to the caller's
   graph through add_vertex / add_edge, so a call on a graph that already has k vertices and the edges e0 is the
   model's loop started in the state (num_vertices = k, vertex_map = {}, nnodes unassigned, edges = e0):
   [read_into strip k e0 s].  [shift_result k e0 r] is the outcome r with every vertex descriptor created by the call
   moved up by k and the caller's edges in front; error outcomes are unchanged.  The statements hold for every byte
   string (no well-formedness needed), every k and e0, and for both the repaired reader ([read], strip_fixed) and the
   reader at the pinned commit ([read_orig], strip_orig).  Counterpart of the second read of harness/c10.cpp
   (a graph with 3 vertices and 2 edges). *)
From Coq Require Import ZArith List Bool QArith Qreduction.
From Parmcb Require Import DimacsModel DimacsScanProofs DimacsProofs DimacsShiftProofs.
Import ListNotations.
Local Open Scope Z_scope.

(* Reading any text into a graph with k vertices and edges e0 gives the outcome of reading it into the empty graph,
   shifted by k vertices, with the caller's edges first. *)
Theorem C10_read_into_nonempty_graph :
  forall (k : Z) (e0 : list wedge) (s : list byte),
  read_into strip_fixed k e0 s = shift_result k e0 (read s) /\
  read_into strip_orig k e0 s = shift_result k e0 (read_orig s).
Proof. exact read_into_shift_both. Qed.
Print Assumptions C10_read_into_nonempty_graph.

(* The same for any newline-stripping function (the only place where the two readers differ). *)
Theorem C10_read_into_nonempty_graph_any_strip :
  forall (strip : list byte -> option (list byte)) (k : Z) (e0 : list wedge) (s : list byte),
  read_into strip k e0 s = shift_result k e0 (read_with strip s).
Proof. exact read_into_shift. Qed.
Print Assumptions C10_read_into_nonempty_graph_any_strip.

(* The undeclared-vertex error is raised in exactly the same cases as on the empty graph. *)
Theorem C10_read_into_throw :
  forall (k : Z) (e0 : list wedge) (s : list byte),
  (read_into strip_fixed k e0 s = RThrow <-> read s = RThrow) /\
  (read_into strip_orig k e0 s = RThrow <-> read_orig s = RThrow).
Proof. exact read_into_throw. Qed.
Print Assumptions C10_read_into_throw.

(* Every outcome class is the same (error, the model's explicit non-values, success). *)
Theorem C10_read_into_outcome_class :
  forall (strip : list byte -> option (list byte)) (k : Z) (e0 : list wedge) (s : list byte),
  (read_into strip k e0 s = RThrow <-> read_with strip s = RThrow) /\
  (read_into strip k e0 s = RUndef <-> read_with strip s = RUndef) /\
  (read_into strip k e0 s = RUnsup <-> read_with strip s = RUnsup) /\
  (read_into strip k e0 s = RNonterm <-> read_with strip s = RNonterm) /\
  (read_into strip k e0 s = RFuel <-> read_with strip s = RFuel) /\
  ((exists g, read_into strip k e0 s = ROk g) <-> (exists g, read_with strip s = ROk g)).
Proof. exact read_into_class. Qed.
Print Assumptions C10_read_into_outcome_class.

(* With C10_roundtrip: every well-formed text read into a graph with k vertices and edges e0 leaves the caller's
   edges in place and adds the described graph on the vertices k, k+1, ... *)
Theorem C10_read_into_roundtrip :
  forall (k : Z) (e0 : list wedge) (l : layout), layout_ok l = true ->
  read_into strip_fixed k e0 (render l) = ROk (fst (denot l) + k, e0 ++ map (shift_edge k) (snd (denot l))).
Proof. exact read_into_render. Qed.
Print Assumptions C10_read_into_roundtrip.

(* The loop fuel is never exhausted either. *)
Theorem C10_read_into_no_fuel :
  forall (k : Z) (e0 : list wedge) (s : list byte),
  read_into strip_fixed k e0 s <> RFuel /\ read_into strip_orig k e0 s <> RFuel.
Proof. exact read_into_no_fuel. Qed.
Print Assumptions C10_read_into_no_fuel.

(* ---- non-vacuity --------------------------------------------------------------------- *)

(* "p edge 3 2\ne 1 2 5\ne 2 3\n" read into the harness's graph shape: 3 vertices, 2 edges *)
Example C10_read_into_nonvacuous :
  let s : list byte := [112; 32; 101; 100; 103; 101; 32; 51; 32; 50; 10;      (* p edge 3 2 *)
                        101; 32; 49; 32; 50; 32; 53; 10;                      (* e 1 2 5    *)
                        101; 32; 50; 32; 51; 10] in                           (* e 2 3      *)
  let e0 : list wedge := [(0, 1, 15 # 2); (1, 2, 1 # 4)] in
  read s = ROk (3, [(0, 1, 5 # 1); (1, 2, 1 # 1)]) /\
  read_into strip_fixed 3 e0 s = ROk (6, e0 ++ [(3, 4, 5 # 1); (4, 5, 1 # 1)]) /\
  read_into strip_orig 3 e0 s = ROk (6, e0 ++ [(3, 4, 5 # 1); (4, 5, 1 # 1)]).
Proof. split; [vm_compute; reflexivity|]. split; vm_compute; reflexivity. Qed.
