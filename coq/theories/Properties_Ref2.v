(* Properties_Ref2.v — COMPLETENESS of the verified checkers of RefModel.v (basis_checkb, mcb_checkb) and
   the dimension theorem for cycle bases.  Together with the soundness theorems of Properties_Ref.v the
   checkers DECIDE "is a cycle basis" / "is a minimum cycle basis": a rejection is a machine-checked proof
   that the family is not a (minimum) cycle basis, so no second oracle is needed to trust a rejection.
   Only statements; each closed by [exact <lemma>] and followed by Print Assumptions.  Proofs: RefProofs6.v.

   Vocabulary: GraphSpec.v (simple_graph, simple_cycle, weight …), McbSpec.v (cycle_basis,
   min_cycle_basis, has_cycle_space_dimension).  A RAW cycle is a list of edge ids in any order, as the
   implementation emits it; set_of_list gives its canonical form (strictly increasing list).
   raw_simple_cycle g l  :=  NoDup l /\ simple_cycle g (set_of_list l)   — exactly the Prop side of
   Ref_simple_cycle_checker_sound / _complete.

   Nothing is left partial: every statement below is proved in full and closed under the global context. *)
From Coq Require Import List Arith Bool ZArith.
From Parmcb Require Import GraphModel GF2Model GraphSpec McbSpec ForestModel SvaModel SvaSpec
  RefModel RefProofs6 Properties_Ref.
Import ListNotations.

(* 1. the dimension theorem: EVERY cycle basis of a simple graph has exactly m - n + c members (so the
      "exactly m - n + c cycles" half of C01 follows from cycle_basis alone) *)
Theorem Ref_cycle_basis_length : forall g B,
  simple_graph g -> cycle_basis g B -> has_cycle_space_dimension g (length B).
Proof. exact rf_cycle_basis_length. Qed.
Print Assumptions Ref_cycle_basis_length.

(* … in the form used by the implementation: the number ForestIndex computes (csd = m + k - n), for every
   admissible root order *)
Theorem Ref_cycle_basis_length_index : forall g roots fi B,
  simple_graph g -> (forall v, v < nv g -> In v roots) -> create_index g roots = Some fi ->
  cycle_basis g B -> length B = fi_csd fi.
Proof. exact rf_cycle_basis_length_index. Qed.
Print Assumptions Ref_cycle_basis_length_index.

(* … hence all cycle bases of a graph have the same number of members *)
Theorem Ref_cycle_bases_equal_length : forall g B B',
  simple_graph g -> cycle_basis g B -> cycle_basis g B' -> length B = length B'.
Proof. exact rf_cycle_bases_equal_length. Qed.
Print Assumptions Ref_cycle_bases_equal_length.

(* 2. the basis checker is complete: duplicate-free raw cycles whose canonical forms are a cycle basis are
      accepted, in whatever order the ids inside a cycle and the cycles themselves are given, for every
      admissible root order *)
Theorem Ref_basis_checkb_complete : forall g roots Cs,
  simple_graph g -> (forall v, v < nv g -> In v roots) ->
  Forall (fun l => NoDup l) Cs -> cycle_basis g (map set_of_list Cs) ->
  basis_checkb g roots Cs = true.
Proof. exact rf_basis_checkb_complete. Qed.
Print Assumptions Ref_basis_checkb_complete.

(* 3. the minimum-cycle-basis checker is complete *)
Theorem Ref_mcb_checkb_complete : forall g wts roots Cs,
  simple_graph g -> positive_weights g wts -> (forall v, v < nv g -> In v roots) ->
  Forall (fun l => NoDup l) Cs -> min_cycle_basis g wts (map set_of_list Cs) ->
  mcb_checkb g wts roots Cs = true.
Proof. exact rf_mcb_checkb_complete. Qed.
Print Assumptions Ref_mcb_checkb_complete.

(* … also in the form the drivers call (the optimum computed once) *)
Theorem Ref_mcb_check_with_complete : forall g wts roots Cs,
  simple_graph g -> positive_weights g wts -> (forall v, v < nv g -> In v roots) ->
  Forall (fun l => NoDup l) Cs -> min_cycle_basis g wts (map set_of_list Cs) ->
  mcb_check_with (opt_weight g wts roots) g wts roots Cs = true.
Proof. exact rf_mcb_check_with_complete. Qed.
Print Assumptions Ref_mcb_check_with_complete.

(* 4. the checkers DECIDE *)
Theorem Ref_basis_checkb_decides : forall g roots Cs,
  simple_graph g -> (forall v, v < nv g -> In v roots) ->
  (basis_checkb g roots Cs = true <->
   Forall (fun l => NoDup l) Cs /\ cycle_basis g (map set_of_list Cs)).
Proof. exact rf_basis_checkb_decides. Qed.
Print Assumptions Ref_basis_checkb_decides.

Theorem Ref_mcb_checkb_decides : forall g wts roots Cs,
  simple_graph g -> positive_weights g wts -> (forall v, v < nv g -> In v roots) ->
  (mcb_checkb g wts roots Cs = true <->
   Forall (fun l => NoDup l) Cs /\ min_cycle_basis g wts (map set_of_list Cs)).
Proof. exact rf_mcb_checkb_decides. Qed.
Print Assumptions Ref_mcb_checkb_decides.

(* … the same with the raw simple-cycle predicate spelt out for every member *)
Theorem Ref_basis_checkb_decides_raw : forall g roots Cs,
  simple_graph g -> (forall v, v < nv g -> In v roots) ->
  (basis_checkb g roots Cs = true <->
   Forall (raw_simple_cycle g) Cs /\ cycle_basis g (map set_of_list Cs)).
Proof. exact rf_basis_checkb_decides_raw. Qed.
Print Assumptions Ref_basis_checkb_decides_raw.

Theorem Ref_mcb_checkb_decides_raw : forall g wts roots Cs,
  simple_graph g -> positive_weights g wts -> (forall v, v < nv g -> In v roots) ->
  (mcb_checkb g wts roots Cs = true <->
   Forall (raw_simple_cycle g) Cs /\ min_cycle_basis g wts (map set_of_list Cs)).
Proof. exact rf_mcb_checkb_decides_raw. Qed.
Print Assumptions Ref_mcb_checkb_decides_raw.

(* 5. a rejection is a proof that the family is NOT a (minimum) cycle basis given as duplicate-free lists *)
Theorem Ref_basis_checkb_reject : forall g roots Cs,
  simple_graph g -> (forall v, v < nv g -> In v roots) ->
  basis_checkb g roots Cs = false ->
  ~ (Forall (fun l => NoDup l) Cs /\ cycle_basis g (map set_of_list Cs)).
Proof. exact rf_basis_checkb_reject. Qed.
Print Assumptions Ref_basis_checkb_reject.

Theorem Ref_mcb_checkb_reject : forall g wts roots Cs,
  simple_graph g -> positive_weights g wts -> (forall v, v < nv g -> In v roots) ->
  mcb_checkb g wts roots Cs = false ->
  ~ (Forall (fun l => NoDup l) Cs /\ min_cycle_basis g wts (map set_of_list Cs)).
Proof. exact rf_mcb_checkb_reject. Qed.
Print Assumptions Ref_mcb_checkb_reject.

(* ---- non-vacuity: K4 with unit weights (Properties_Ref.K4; edges 0:01 1:02 2:03 3:12 4:13 5:23).
   The hypotheses of the completeness theorems are satisfiable: three triangles given in raw order are
   duplicate-free and their canonical forms ARE a minimum cycle basis (derived with the soundness theorem
   from one evaluation of the checker), so the completeness theorem applies — for a DIFFERENT admissible
   root order than the one evaluated.  The basis with a 4-cycle is a cycle basis but not a minimum one; two
   triangles together with their sum (the 4-cycle 0-2-1-3-0 = edges 1,3,4,2) are not a cycle basis; every
   cycle basis of K4 has exactly 3 members. *)
Definition K4_tri : list (list nat) := [[3; 0; 1]; [4; 2; 0]; [1; 5; 2]].
Definition K4_quad : list (list nat) := [[3; 0; 1]; [4; 2; 0]; [5; 0; 2; 3]].
Definition K4_dep : list (list nat) := [[3; 0; 1]; [4; 2; 0]; [1; 3; 4; 2]].

Example Ref2_nonvacuous_hyps :
  simple_graph K4 /\ positive_weights K4 K4w /\ (forall v, v < nv K4 -> In v [3; 1; 0; 2])
  /\ Forall (fun l => NoDup l) K4_tri /\ min_cycle_basis K4 K4w (map set_of_list K4_tri)
  /\ Forall (raw_simple_cycle K4) K4_tri.
Proof.
  destruct Ref_nonvacuous_hyps as (Hs & Hpw & Hr).
  assert (Hc : mcb_checkb K4 K4w [3; 1; 0; 2] K4_tri = true) by (vm_compute; reflexivity).
  apply (Ref_mcb_checkb_decides_raw K4 K4w _ K4_tri Hs Hpw Hr) in Hc as Hraw.
  apply (Ref_mcb_checkb_decides K4 K4w _ K4_tri Hs Hpw Hr) in Hc as (Hnd & Hm).
  repeat (split; [assumption|]). apply Hraw.
Qed.

(* completeness at work: accepted for EVERY admissible root order (not by evaluation) *)
Example Ref2_nonvacuous_complete : forall roots, (forall v, v < nv K4 -> In v roots) ->
  mcb_checkb K4 K4w roots K4_tri = true /\ basis_checkb K4 roots K4_quad = true.
Proof.
  intros roots Hr'. destruct Ref2_nonvacuous_hyps as (Hs & Hpw & Hr & Hnd & Hm & _). split.
  - apply Ref_mcb_checkb_complete; assumption.
  - assert (Hc : basis_checkb K4 [3; 1; 0; 2] K4_quad = true) by (vm_compute; reflexivity).
    apply (Ref_basis_checkb_decides K4 _ K4_quad Hs Hr) in Hc as (Hq1 & Hq2).
    apply Ref_basis_checkb_complete; assumption.
Qed.

(* rejections are proofs: the basis with the 4-cycle is not minimum, the dependent triple (all three members
   are simple cycles, the count is right) is not a basis,
   and every cycle basis of K4 has 3 members *)
Example Ref2_nonvacuous_reject :
  ~ min_cycle_basis K4 K4w (map set_of_list K4_quad)
  /\ ~ cycle_basis K4 (map set_of_list K4_dep)
  /\ (forall B, cycle_basis K4 B -> length B = 3).
Proof.
  destruct Ref_nonvacuous_hyps as (Hs & Hpw & Hr). split; [|split].
  - intros Hm.
    assert (Hc : basis_checkb K4 [3; 1; 0; 2] K4_quad = true) by (vm_compute; reflexivity).
    apply (Ref_basis_checkb_decides K4 _ K4_quad Hs Hr) in Hc as (Hq1 & _).
    apply (Ref_mcb_checkb_reject K4 K4w [3; 1; 0; 2] K4_quad Hs Hpw Hr); [vm_compute; reflexivity|].
    split; assumption.
  - intros Hb.
    apply (Ref_basis_checkb_reject K4 [3; 1; 0; 2] K4_dep Hs Hr); [vm_compute; reflexivity|].
    split; [|exact Hb]. repeat constructor; cbn [In]; intuition discriminate.
  - intros B HB.
    assert (Hci : exists fi, create_index K4 [3; 1; 0; 2] = Some fi /\ fi_csd fi = 3)
      by (eexists; split; vm_compute; reflexivity).
    destruct Hci as (fi & Hci & Hcsd).
    rewrite (Ref_cycle_basis_length_index K4 _ fi B Hs Hr Hci HB). exact Hcsd.
Qed.
