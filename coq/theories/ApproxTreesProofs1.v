(* ApproxTreesProofs1.v — the approximate algorithm with ANY exact phase that is known to return a minimum cycle basis
   of the spanner (generic assembly of ApproxProofsRun / ApproxGlobalProofs4), and its instance for the tree-based
   entry points approx_mcb_sva_fvs_trees / approx_mcb_sva_iso_trees (both instantiate the FVS functor):

     ap_generic_full       for every simple graph with positive weights, k >= 1, every scan order and every exact phase
                           that — on the one spanner the run builds — answers SvaOk with a minimum cycle basis of the
                           spanner, its weight and the right count:  approx_run returns ApproxOk, the emitted family
                           is a cycle basis of the CALLER's graph (m - n + c duplicate-free lists of caller's edge ids),
                           returned value = total weight under the caller's weights, minimum for k = 1, and — for a
                           weight-sorted scan order — at most (2k-1) times the weight of any cycle basis.
     fvs_trees_exact       the exact phase of the tree-based entry points as an ACCEPTED run of TreesModel's
                           mcb_sva_trees (FVS builder) on the spanner: the answer `scycles` is returned iff the
                           acceptance model accepts it (every resolution of std::sort's ties is an accepted run).
     at_fvs_exact_ok       every accepted run on the spanner satisfies the premise of ap_generic_full
                           (TreesProofs5.tf_C01_fvs_trees / tf_C02_fvs_trees: premise-free; the spanner is a simple graph
                           with positive weights), and an accepted run exists.
     at_fvs_full           the premise-free statement behind Properties_C05_trees.v / Properties_C06_trees.v.
   Prefix ap_ (generic) / at_ (trees).  No axioms. *)
From Coq Require Import List Arith Bool Lia ZArith Permutation Sorted.
From Parmcb Require Import GraphModel GF2Model GraphSpec GraphLemmas McbSpec DePinaProofs OptSpec SpannerModel SpannerProofs
  SvaModel FvsModel TreesModel TreesProofs5 ApproxModel ApproxTreesModel ApproxProofs ApproxProofsRun ApproxProofsEdge ApproxGlobalProofs4.
Import ListNotations.

(* ---- generic in the exact phase ---------------------------------------------------------------------------------- *)

Definition exact_ok_on_spanner (exact : graph -> list Z -> sva_result Z) (g : graph) (w : list Z) (k : nat)
           (scan : list nat) : Prop :=
  forall sp, construct_spanner g k scan = SpOk sp ->
    exists cs t sup, exact (sp_graph sp) (spanner_weights w sp) = SvaOk cs t sup
      /\ min_cycle_basis (sp_graph sp) (spanner_weights w sp) cs
      /\ t = total_weight (spanner_weights w sp) cs
      /\ has_cycle_space_dimension (sp_graph sp) (length cs).

Definition approx_full_result (g : graph) (w : list Z) (k : nat) (scan : list nat) (cycles : list (list nat)) (total : Z)
  : Prop :=
  cycle_basis g (map set_of_list cycles) /\ has_cycle_space_dimension g (length cycles)
  /\ Forall (fun c => NoDup c /\ forall e, In e c -> e < ne g) cycles
  /\ total = total_weight w cycles
  /\ (k = 1 -> min_cycle_basis g w (map set_of_list cycles))
  /\ (Sorted (fun a b => (wt w a <= wt w b)%Z) scan ->
        (forall B', cycle_basis g B' -> (total <= Z.of_nat (2 * k - 1) * total_weight w B')%Z)
        /\ (forall x, is_opt g w x -> (x <= total <= Z.of_nat (2 * k - 1) * x)%Z)).

Theorem ap_generic_full exact g w k scan :
  simple_graph g -> positive_weights g w -> 1 <= k -> Permutation scan (seq 0 (ne g)) ->
  exact_ok_on_spanner exact g w k scan ->
  exists cycles total,
    approx_run exact g w k scan = ApproxOk cycles total /\ approx_full_result g w k scan cycles total.
Proof.
  intros Hg Hw Hk HP Hex.
  destruct (ap_run_total exact g w k scan Hg Hw Hk HP) as (cycles & total & Hrun).
  { intros sp Hsp. destruct (Hex sp Hsp) as (cs & t & sup & E & ((Fsc & _) & _) & _ & _).
    destruct (ap_spanner_facts g k scan sp Hg HP Hsp) as (Hsub & HPerm & _).
    exists cs, t, sup. split; [exact E|].
    eapply Forall_impl; [|exact Fsc]. intros C HC.
    apply simple_cycle_in_cycle_space in HC; [|eapply ap_sp_simple; eauto].
    destruct HC as (_ & HB & _). apply Forall_forall. exact HB. }
  exists cycles, total. split; [exact Hrun|].
  assert (H1 : exact_basis_on_spanner exact g w k scan).
  { intros sp cs t sup Hsp Hr. destruct (Hex sp Hsp) as (cs' & t' & sup' & E & (Hb & _) & _ & Hd).
    rewrite E in Hr. injection Hr as <- _ _. split; assumption. }
  assert (H2 : exact_weight_on_spanner exact g w k scan).
  { intros sp cs t sup Hsp Hr. destruct (Hex sp Hsp) as (cs' & t' & sup' & E & _ & Ht & _).
    rewrite E in Hr. injection Hr as <- <- _. exact Ht. }
  assert (H3 : forall sp cs t sup, construct_spanner g k scan = SpOk sp ->
            exact (sp_graph sp) (spanner_weights w sp) = SvaOk cs t sup ->
            min_cycle_basis (sp_graph sp) (spanner_weights w sp) cs /\ t = total_weight (spanner_weights w sp) cs).
  { intros sp cs t sup Hsp Hr. destruct (Hex sp Hsp) as (cs' & t' & sup' & E & Hm & Ht & _).
    rewrite E in Hr. injection Hr as <- <- _. split; assumption. }
  destruct (ap_run_basis exact g w k scan cycles total Hg HP H1 Hrun) as (A & B & C).
  split; [exact A|]. split; [exact B|]. split; [exact C|].
  split; [exact (ap_run_weight exact g w k scan cycles total H2 Hrun)|]. split.
  - intros ->. apply (ap_run_k1_min exact g w scan cycles total Hg HP); [|exact Hrun].
    intros sp cs t sup Hsp Hr. apply (H3 sp cs t sup Hsp Hr).
  - intros HS. split.
    + intros B' HB'. exact (ag_run_global exact g w k scan cycles total B' Hg Hw HP HS H3 Hrun HB').
    + intros x Hx. exact (ag_run_global_opt exact g w k scan cycles total x Hg Hw HP HS H3 Hrun Hx).
Qed.

(* the spanner of a simple graph with positive weights is a simple graph with positive weights on the same vertices *)
Lemma ap_spanner_wf g w k scan sp :
  simple_graph g -> positive_weights g w -> Permutation scan (seq 0 (ne g)) -> construct_spanner g k scan = SpOk sp ->
  simple_graph (sp_graph sp) /\ positive_weights (sp_graph sp) (spanner_weights w sp) /\ nv (sp_graph sp) = nv g.
Proof.
  intros Hg (Hlen & Hpos) HP Hsp.
  destruct (ap_spanner_facts g k scan sp Hg HP Hsp) as (Hsub & HPerm & _).
  split; [eapply ap_sp_simple; eauto|]. split.
  - split; [eapply ap_spanner_weights_length; eauto|eapply ap_spanner_weights_pos; eauto].
  - exact (ap_nv_h g sp Hsub).
Qed.

(* construct_spanner completes on every simple graph *)
Lemma ap_spanner_exists g w k scan :
  simple_graph g -> positive_weights g w -> 1 <= k -> Permutation scan (seq 0 (ne g)) ->
  exists sp, construct_spanner g k scan = SpOk sp.
Proof.
  intros Hg Hw Hk HP.
  destruct (ap_run_total (fun _ _ => SvaOk [] 0%Z []) g w k scan Hg Hw Hk HP) as (cycles & total & Hrun).
  { intros sp _. exists [], 0%Z, []. split; [reflexivity|constructor]. }
  destruct (ap_run_inv _ _ _ _ _ _ _ Hrun) as (sp & _ & _ & _ & _ & _ & _ & Hsp & _). exists sp. exact Hsp.
Qed.

(* ---- the tree-based entry points ----------------------------------------------------------------------------------- *)

(* fvs_trees_exact / approx_sva_fvs_trees_Z: ApproxTreesModel.v *)

Definition fvs_accepted_on_spanner (g : graph) (w : list Z) (k : nat) (scan roots picks : list nat)
           (scycles : list (list nat)) : Prop :=
  forall sp, construct_spanner g k scan = SpOk sp ->
    exists t, mcb_sva_trees_accept_Z TbFvs (sp_graph sp) (spanner_weights w sp) roots picks scycles = Some t.

Definition fvs_picks_complete_on_spanner (g : graph) (k : nat) (scan picks : list nat) : Prop :=
  forall sp, construct_spanner g k scan = SpOk sp -> exists fvs, greedy_fvs (sp_graph sp) picks = FvsOk fvs.

Lemma at_fvs_exact_ok g w k scan roots picks scycles :
  simple_graph g -> positive_weights g w -> Permutation scan (seq 0 (ne g)) ->
  (forall v, v < nv g -> In v roots) ->
  fvs_picks_complete_on_spanner g k scan picks ->
  fvs_accepted_on_spanner g w k scan roots picks scycles ->
  exact_ok_on_spanner (fvs_trees_exact roots picks scycles) g w k scan.
Proof.
  intros Hg Hw HP Hroots Hpicks Hacc sp Hsp.
  destruct (ap_spanner_wf g w k scan sp Hg Hw HP Hsp) as (Hh & Hwh & Hnv).
  assert (Hr : forall v, v < nv (sp_graph sp) -> In v roots) by (intros v Hv; apply Hroots; rewrite <- Hnv; exact Hv).
  destruct (Hpicks sp Hsp) as (fvs & Hfvs). destruct (Hacc sp Hsp) as (t & Ht).
  destruct (tf_C02_fvs_trees _ _ roots picks fvs Hh Hwh Hr Hfvs) as (Hmin & _).
  destruct (tf_C01_fvs_trees _ _ roots picks fvs Hh Hwh Hr Hfvs) as (_ & Hbasis).
  destruct (Hmin scycles t Ht) as (Hm & Htot). destruct (Hbasis scycles t Ht) as (_ & Hdim).
  exists scycles, t, []. unfold fvs_trees_exact. rewrite Ht. auto.
Qed.

Lemma at_fvs_accepted_exists g w k scan roots picks :
  simple_graph g -> positive_weights g w -> 1 <= k -> Permutation scan (seq 0 (ne g)) ->
  (forall v, v < nv g -> In v roots) ->
  fvs_picks_complete_on_spanner g k scan picks ->
  exists scycles, fvs_accepted_on_spanner g w k scan roots picks scycles.
Proof.
  intros Hg Hw Hk HP Hroots Hpicks.
  destruct (ap_spanner_exists g w k scan Hg Hw Hk HP) as (sp & Hsp).
  destruct (ap_spanner_wf g w k scan sp Hg Hw HP Hsp) as (Hh & Hwh & Hnv).
  assert (Hr : forall v, v < nv (sp_graph sp) -> In v roots) by (intros v Hv; apply Hroots; rewrite <- Hnv; exact Hv).
  destruct (Hpicks sp Hsp) as (fvs & Hfvs).
  destruct (tf_C02_fvs_trees _ _ roots picks fvs Hh Hwh Hr Hfvs) as (_ & scycles & t & Ht).
  exists scycles. intros sp' Hsp'. rewrite Hsp in Hsp'. injection Hsp' as <-. exists t. exact Ht.
Qed.

(* premise-free: every run whose exact phase is an accepted run of mcb_sva_fvs_trees on the spanner *)
Theorem at_fvs_full g w k scan roots picks :
  simple_graph g -> positive_weights g w -> 1 <= k -> Permutation scan (seq 0 (ne g)) ->
  (forall v, v < nv g -> In v roots) ->
  fvs_picks_complete_on_spanner g k scan picks ->
  (forall scycles, fvs_accepted_on_spanner g w k scan roots picks scycles ->
     exists cycles total,
       approx_sva_fvs_trees_Z g w k scan roots picks scycles = ApproxOk cycles total
       /\ approx_full_result g w k scan cycles total)
  /\ (exists scycles, fvs_accepted_on_spanner g w k scan roots picks scycles).
Proof.
  intros Hg Hw Hk HP Hroots Hpicks. split.
  - intros scycles Hacc. unfold approx_sva_fvs_trees_Z.
    apply (ap_generic_full _ g w k scan Hg Hw Hk HP).
    exact (at_fvs_exact_ok g w k scan roots picks scycles Hg Hw HP Hroots Hpicks Hacc).
  - exact (at_fvs_accepted_exists g w k scan roots picks Hg Hw Hk HP Hroots Hpicks).
Qed.

(* the three statements of Properties_C05_trees.v / Properties_C06_trees.v, spelled out *)
Theorem at_C05_fvs_trees g w k scan roots picks :
  simple_graph g -> positive_weights g w -> 1 <= k -> Permutation scan (seq 0 (ne g)) ->
  (forall v, v < nv g -> In v roots) ->
  fvs_picks_complete_on_spanner g k scan picks ->
  (forall scycles, fvs_accepted_on_spanner g w k scan roots picks scycles ->
     exists cycles total,
       approx_sva_fvs_trees_Z g w k scan roots picks scycles = ApproxOk cycles total
       /\ cycle_basis g (map set_of_list cycles) /\ has_cycle_space_dimension g (length cycles)
       /\ Forall (fun c => NoDup c /\ forall e, In e c -> e < ne g) cycles
       /\ total = total_weight w cycles)
  /\ (exists scycles, fvs_accepted_on_spanner g w k scan roots picks scycles).
Proof.
  intros Hg Hw Hk HP Hroots Hpicks.
  destruct (at_fvs_full g w k scan roots picks Hg Hw Hk HP Hroots Hpicks) as (H1 & H2). split; [|exact H2].
  intros scycles Hacc. destruct (H1 scycles Hacc) as (cycles & total & Hrun & A & B & C & D & _).
  exists cycles, total. auto.
Qed.

Theorem at_C06_k1_fvs_trees g w scan roots picks :
  simple_graph g -> positive_weights g w -> Permutation scan (seq 0 (ne g)) ->
  (forall v, v < nv g -> In v roots) ->
  fvs_picks_complete_on_spanner g 1 scan picks ->
  (forall scycles, fvs_accepted_on_spanner g w 1 scan roots picks scycles ->
     exists cycles total,
       approx_sva_fvs_trees_Z g w 1 scan roots picks scycles = ApproxOk cycles total
       /\ min_cycle_basis g w (map set_of_list cycles) /\ total = total_weight w cycles)
  /\ (exists scycles, fvs_accepted_on_spanner g w 1 scan roots picks scycles).
Proof.
  intros Hg Hw HP Hroots Hpicks.
  destruct (at_fvs_full g w 1 scan roots picks Hg Hw (le_n 1) HP Hroots Hpicks) as (H1 & H2). split; [|exact H2].
  intros scycles Hacc. destruct (H1 scycles Hacc) as (cycles & total & Hrun & _ & _ & _ & D & E & _).
  exists cycles, total. split; [exact Hrun|]. split; [exact (E eq_refl)|exact D].
Qed.

Theorem at_C06_global_fvs_trees g w k scan roots picks :
  simple_graph g -> positive_weights g w -> 1 <= k -> Permutation scan (seq 0 (ne g)) ->
  Sorted (fun a b => (wt w a <= wt w b)%Z) scan ->
  (forall v, v < nv g -> In v roots) ->
  fvs_picks_complete_on_spanner g k scan picks ->
  (forall scycles, fvs_accepted_on_spanner g w k scan roots picks scycles ->
     exists cycles total,
       approx_sva_fvs_trees_Z g w k scan roots picks scycles = ApproxOk cycles total
       /\ cycle_basis g (map set_of_list cycles)
       /\ total = total_weight w cycles
       /\ (forall B', cycle_basis g B' -> (total <= Z.of_nat (2 * k - 1) * total_weight w B')%Z)
       /\ (forall x, is_opt g w x -> (x <= total <= Z.of_nat (2 * k - 1) * x)%Z))
  /\ (exists scycles, fvs_accepted_on_spanner g w k scan roots picks scycles).
Proof.
  intros Hg Hw Hk HP HS Hroots Hpicks.
  destruct (at_fvs_full g w k scan roots picks Hg Hw Hk HP Hroots Hpicks) as (H1 & H2). split; [|exact H2].
  intros scycles Hacc. destruct (H1 scycles Hacc) as (cycles & total & Hrun & A & _ & _ & D & _ & F).
  destruct (F HS) as (F1 & F2). exists cycles, total. auto.
Qed.

Print Assumptions ap_generic_full.
Print Assumptions at_fvs_full.
