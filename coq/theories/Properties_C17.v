(* Properties_C17.v — SpVecGF2 implements GF(2) vector arithmetic in canonical form.
   Only statements; each closed by [exact <lemma>] and followed by Print Assumptions. *)
From Coq Require Import List Arith Bool.
From Parmcb Require Import GF2Model GF2Proofs.
Import ListNotations.

(* For every history of SpVecGF2 operations whose coordinates lie below a dimension D
   (unit/set/copy/move construction, assignment incl. self-assignment, +, += incl. aliasing,
   clear, and the observers *, *set, size):
   - every observer returns what the dense computation returns;
   - every vector in the resulting store is strictly increasing (canonical form),
     lists exactly the coordinates that are 1 in the dense store, and its size() is the
     number of ones. *)
Theorem C17_histories_refine_dense :
  forall D ops, Forall (op_in_dim D) ops ->
  snd (run empty_store ops) = snd (drun D empty_dstore ops) /\
  forall id,
    sorted (fst (run empty_store ops) id) /\
    (forall i, mem (fst (run empty_store ops) id) i = fst (drun D empty_dstore ops) id i) /\
    length (fst (run empty_store ops) id) = dsize D (fst (drun D empty_dstore ops) id).
Proof. exact spvecgf2_refines_dense. Qed.
Print Assumptions C17_histories_refine_dense.

(* addition is the symmetric difference: membership is the xor of the memberships *)
Theorem C17_add_is_symmetric_difference :
  forall u v i, sorted u -> sorted v -> mem (vadd u v) i = xorb (mem u i) (mem v i).
Proof. exact vadd_mem. Qed.
Print Assumptions C17_add_is_symmetric_difference.

(* the product is the parity of the common coordinates *)
Theorem C17_dot_is_parity_of_intersection :
  forall D u v, sorted u -> sorted v -> Forall (fun i => i < D) u ->
  vdot u v = ddot D (mem u) (mem v).
Proof. exact vdot_dense. Qed.
Print Assumptions C17_dot_is_parity_of_intersection.

(* canonical form: equal dense images mean equal representations *)
Theorem C17_canonical :
  forall u v, sorted u -> sorted v -> (forall i, mem u i = mem v i) -> u = v.
Proof. exact sorted_ext. Qed.
Print Assumptions C17_canonical.

(* non-vacuity: a concrete aliasing-heavy history satisfies the hypothesis and is non-trivial *)
Example C17_nonvacuous :
  let ops := [OUnit 0 3; OSet 1 [5; 3; 9; 3]; OAddAssign 0 1; OAddAssign 0 0; OCopy 2 1;
              OAdd 0 2 1; OUnit 3 9; OAddAssign 1 3; ODot 1 2; OSize 1; OAssign 1 1] in
  Forall (op_in_dim 10) ops /\
  run_dump 4 ops = ([OutBit false; OutNat 2], [[]; [3; 5]; [3; 5; 9]; [9]]).
Proof. split; [repeat constructor | vm_compute; reflexivity]. Qed.
