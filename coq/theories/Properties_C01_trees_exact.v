(* Properties_C01_trees_exact.v — C01 / C02 for the sequential tree-based exact entry points (mcb_sva_fvs_trees,
   mcb_sva_iso_trees; also Horton's builder) about the run AS EXECUTED, exact domain (integer-valued weights).

   Model: TreesFloatModel.v sections TreesGo / TreesRuns instantiated at Z — the builder (ISO builder with the default of
   std::map::operator[]), the arrangement std::sort leaves the candidates in as an explicit oracle `order` (positions of the
   builder's emission order; ts_arrange validates that it is a permutation and non-decreasing in the recorded weight, which is
   exactly the postcondition of std::sort with the comparator a.weight() < b.weight()), the scan that returns the FIRST answering
   candidate, the main loop.  mcb_sva_trees_go_Z is the loop as coded (it goes on after an empty answer), mcb_sva_trees_order_Z
   the same run in the vocabulary of SvaModel (stops with SvaNoCycle k at an empty answer).  `roots` = BFS root order oracle of
   the ForestIndex, `picks` = pick oracle of greedy_fvs (FVS builder only).  The oracles are recovered from the run and the
   implementation is compared with mcb_sva_trees_go_Z cycle by cycle (tools/trees_common.py, harness/c01.cpp).

   trees_order_valid b g wts picks order  :=  ts_arrange validates `order` against the collection the builder returns.
   trees_builder_ready b g picks          :=  for the FVS builder: greedy_fvs completes under the pick oracle (every oracle the
                                              model FvsModel accepts); nothing for Horton's and the isometric builder.

   For EVERY simple graph with positive integer weights, covering roots, ready builder — and EVERY valid order; one exists:
     C01_trees_order_accepted   the run of mcb_sva_trees_order_Z ends SvaOk and its cycles are an ACCEPTED run of the acceptance
                                model of Properties_C01_trees.v / Properties_C02_trees.v (mcb_sva_trees_accept_Z = Some total, the
                                same total): every run the code can make is one of the runs those theorems are about.
     C01_trees_go_is_order      the as-executed model that is compared with the code (mcb_sva_trees_go_Z) makes that same run: every
                                phase finds (no empty cycle is emitted) and the collection as executed IS the collection of the
                                generic model (the default key of std::map::operator[] is never used: C14_iso_total).
     C01_fvs_trees_exact / C01_iso_trees_exact / C01_horton_trees_exact
                                the run ends SvaOk with m - n + c simple cycles forming a cycle basis.
     C02_fvs_trees_exact / C02_iso_trees_exact / C02_horton_trees_exact
                                they form a MINIMUM cycle basis and the accumulated value (what the entry point returns) is its
                                total weight.
     C01_trees_bad_order        an `order` that is not validated is reported (GoBadOrder / TNoCollection), never run.
   Nothing is left _partial. *)
From Coq Require Import List Arith Bool ZArith.
From Parmcb Require Import GraphModel GF2Model GraphSpec McbSpec LexSPModel FvsModel CandidatesModel ForestModel SvaModel
     TreesModel TreesFloatModel TreesOrderProofs TreesOrderProofs2.
Import ListNotations.

Theorem C01_trees_order_accepted :
  forall (b : tbuilder) (g : graph) (wts : list Z) (roots picks : list nat),
    simple_graph g -> positive_weights g wts -> (forall v, v < nv g -> In v roots) -> trees_builder_ready b g picks ->
    (exists order, trees_order_valid b g wts picks order) /\
    forall order, trees_order_valid b g wts picks order ->
      exists cycles total sup,
        mcb_sva_trees_order_Z b g wts roots picks order = TRun (SvaOk cycles total sup) /\
        mcb_sva_trees_accept_Z b g wts roots picks cycles = Some total.
Proof. exact to_order_accepted. Qed.
Print Assumptions C01_trees_order_accepted.

Theorem C01_trees_go_is_order :
  forall (b : tbuilder) (g : graph) (wts : list Z) (roots picks : list nat),
    simple_graph g -> positive_weights g wts -> (forall v, v < nv g -> In v roots) -> trees_builder_ready b g picks ->
    tb_collection_dflt Z 0%Z Z.add Z.ltb b g wts picks = tb_collection Z 0%Z Z.add Z.ltb b g wts picks /\
    forall order, trees_order_valid b g wts picks order ->
      exists phases total sup,
        mcb_sva_trees_go_Z b g wts roots picks order = GoOk phases total sup /\
        Forall (fun p => gp_found p = true) phases /\
        mcb_sva_trees_order_Z b g wts roots picks order = TRun (SvaOk (map gp_cycle phases) total sup).
Proof. exact to_go_is_order. Qed.
Print Assumptions C01_trees_go_is_order.

(* the consequences for the run as executed, per entry point *)
Theorem C01_fvs_trees_exact :
  forall (g : graph) (wts : list Z) (roots picks fvs : list nat),
    simple_graph g -> positive_weights g wts -> (forall v, v < nv g -> In v roots) -> greedy_fvs g picks = FvsOk fvs ->
    (exists order, trees_order_valid TbFvs g wts picks order) /\
    forall order, trees_order_valid TbFvs g wts picks order ->
      exists cycles total sup,
        mcb_sva_trees_order_Z TbFvs g wts roots picks order = TRun (SvaOk cycles total sup) /\
        cycle_basis g cycles /\ has_cycle_space_dimension g (length cycles).
Proof. exact to_C01_fvs_exact. Qed.
Print Assumptions C01_fvs_trees_exact.

Theorem C02_fvs_trees_exact :
  forall (g : graph) (wts : list Z) (roots picks fvs : list nat),
    simple_graph g -> positive_weights g wts -> (forall v, v < nv g -> In v roots) -> greedy_fvs g picks = FvsOk fvs ->
    (exists order, trees_order_valid TbFvs g wts picks order) /\
    forall order, trees_order_valid TbFvs g wts picks order ->
      exists cycles total sup,
        mcb_sva_trees_order_Z TbFvs g wts roots picks order = TRun (SvaOk cycles total sup) /\
        min_cycle_basis g wts cycles /\ total = total_weight wts cycles.
Proof. exact to_C02_fvs_exact. Qed.
Print Assumptions C02_fvs_trees_exact.

Theorem C01_iso_trees_exact :
  forall (g : graph) (wts : list Z) (roots picks : list nat),
    simple_graph g -> positive_weights g wts -> (forall v, v < nv g -> In v roots) ->
    (exists order, trees_order_valid TbIso g wts picks order) /\
    forall order, trees_order_valid TbIso g wts picks order ->
      exists cycles total sup,
        mcb_sva_trees_order_Z TbIso g wts roots picks order = TRun (SvaOk cycles total sup) /\
        cycle_basis g cycles /\ has_cycle_space_dimension g (length cycles).
Proof. exact to_C01_iso_exact. Qed.
Print Assumptions C01_iso_trees_exact.

Theorem C02_iso_trees_exact :
  forall (g : graph) (wts : list Z) (roots picks : list nat),
    simple_graph g -> positive_weights g wts -> (forall v, v < nv g -> In v roots) ->
    (exists order, trees_order_valid TbIso g wts picks order) /\
    forall order, trees_order_valid TbIso g wts picks order ->
      exists cycles total sup,
        mcb_sva_trees_order_Z TbIso g wts roots picks order = TRun (SvaOk cycles total sup) /\
        min_cycle_basis g wts cycles /\ total = total_weight wts cycles.
Proof. exact to_C02_iso_exact. Qed.
Print Assumptions C02_iso_trees_exact.

Theorem C01_horton_trees_exact :
  forall (g : graph) (wts : list Z) (roots picks : list nat),
    simple_graph g -> positive_weights g wts -> (forall v, v < nv g -> In v roots) ->
    (exists order, trees_order_valid TbHorton g wts picks order) /\
    forall order, trees_order_valid TbHorton g wts picks order ->
      exists cycles total sup,
        mcb_sva_trees_order_Z TbHorton g wts roots picks order = TRun (SvaOk cycles total sup) /\
        cycle_basis g cycles /\ has_cycle_space_dimension g (length cycles).
Proof. exact to_C01_horton_exact. Qed.
Print Assumptions C01_horton_trees_exact.

Theorem C02_horton_trees_exact :
  forall (g : graph) (wts : list Z) (roots picks : list nat),
    simple_graph g -> positive_weights g wts -> (forall v, v < nv g -> In v roots) ->
    (exists order, trees_order_valid TbHorton g wts picks order) /\
    forall order, trees_order_valid TbHorton g wts picks order ->
      exists cycles total sup,
        mcb_sva_trees_order_Z TbHorton g wts roots picks order = TRun (SvaOk cycles total sup) /\
        min_cycle_basis g wts cycles /\ total = total_weight wts cycles.
Proof. exact to_C02_horton_exact. Qed.
Print Assumptions C02_horton_trees_exact.

(* what ts_arrange validates: `order` is a permutation of the positions, the arranged vector is a permutation of the collection
   and non-decreasing in the recorded weight — the postcondition of std::sort *)
Theorem C01_trees_arrange_spec :
  forall (cands : list (cand Z)) (order : list nat) (sc : list (cand Z)),
    ts_arrange Z Z.ltb cands order = Some sc ->
    Permutation.Permutation order (seq 0 (length cands)) /\ Permutation.Permutation cands sc /\ ts_nondecr Z Z.ltb sc = true.
Proof. exact (to_arrange_inv Z Z.ltb). Qed.
Print Assumptions C01_trees_arrange_spec.

Theorem C01_trees_bad_order :
  forall b g wts roots picks order trees cands fi,
    create_index g roots = Some fi -> tb_collection_dflt Z 0%Z Z.add Z.ltb b g wts picks = CdOk (trees, cands) ->
    ts_arrange Z Z.ltb cands order = None ->
    mcb_sva_trees_go_Z b g wts roots picks order = GoBadOrder /\ mcb_sva_trees_order_Z b g wts roots picks order = TNoCollection.
Proof. exact to_bad_order. Qed.
Print Assumptions C01_trees_bad_order.

(* ---- non-vacuity: K4 with unit weights and the theta graph of Properties_C02_trees.v; roots, feedback vertex set, arrangement
   and emitted cycles as produced by the real code (harness/c01.cpp) ------------------------------------------------------- *)
Definition c01x_k4 : graph := {| nv := 4; ge := [(0,1);(0,2);(0,3);(1,2);(1,3);(2,3)] |}.
Definition c01x_k4w : list Z := [1;1;1;1;1;1]%Z.
Definition c01x_roots : list nat := [3;0;1;2;3].
Definition c01x_theta : graph := {| nv := 7; ge := [(0,2);(2,1);(0,3);(3,4);(4,1);(0,5);(5,6);(6,1)] |}.
Definition c01x_thetaw : list Z := [2;1;1;1;2;1;1;3]%Z.
Definition c01x_troots : list nat := [6;0;1;2;3;4;5;6].

Definition c01x_found (sg c : list nat) (w : Z) : go_phase Z :=
  {| gp_signed := sg; gp_cycle := c; gp_weight := w; gp_found := true |}.

Example C01_trees_exact_nonvacuous :
  simple_graph c01x_k4 /\ positive_weights c01x_k4 c01x_k4w /\ (forall v, v < nv c01x_k4 -> In v c01x_roots) /\
  greedy_fvs c01x_k4 [3;0] = FvsOk [3;0] /\
  (* the run of the real mcb_sva_fvs_trees: std::sort left the six candidates (all of weight 3) in emission order *)
  trees_order_valid TbFvs c01x_k4 c01x_k4w [3;0] [0;1;2;3;4;5] /\
  mcb_sva_trees_go_Z TbFvs c01x_k4 c01x_k4w c01x_roots [3;0] [0;1;2;3;4;5]
    = GoOk [c01x_found [0] [0;2;4] 3; c01x_found [1] [1;2;5] 3; c01x_found [3] [3;4;5] 3] 9%Z [[0];[1];[2]] /\
  mcb_sva_trees_order_Z TbFvs c01x_k4 c01x_k4w c01x_roots [3;0] [0;1;2;3;4;5]
    = TRun (SvaOk [[0;2;4];[1;2;5];[3;4;5]] 9%Z [[0];[1];[2]]) /\
  (* another arrangement std::sort might have left: a different run (third cycle), equally accepted *)
  trees_order_valid TbFvs c01x_k4 c01x_k4w [3;0] [5;4;3;2;1;0] /\
  mcb_sva_trees_order_Z TbFvs c01x_k4 c01x_k4w c01x_roots [3;0] [5;4;3;2;1;0]
    = TRun (SvaOk [[0;2;4];[1;2;5];[0;1;3]] 9%Z [[0];[1];[2]]) /\
  mcb_sva_trees_accept_Z TbFvs c01x_k4 c01x_k4w c01x_roots [3;0] [[0;2;4];[1;2;5];[0;1;3]] = Some 9%Z /\
  (* not a permutation: reported *)
  mcb_sva_trees_go_Z TbFvs c01x_k4 c01x_k4w c01x_roots [3;0] [0;1;2;3;4;4] = GoBadOrder /\
  (* the real mcb_sva_iso_trees on K4 *)
  mcb_sva_trees_order_Z TbIso c01x_k4 c01x_k4w c01x_roots [] [0;1;2;3]
    = TRun (SvaOk [[0;1;3];[0;2;4];[1;2;5]] 9%Z [[0];[0;1];[1;2]]) /\
  (* the theta graph (cycles 7, 8, 9): the real runs; std::sort permuted the isometric collection; an arrangement that is not
     sorted by weight is reported *)
  mcb_sva_trees_order_Z TbFvs c01x_theta c01x_thetaw c01x_troots [1] [0;1]
    = TRun (SvaOk [[0;1;2;3;4];[0;1;5;6;7]] 15%Z [[0];[0;1]]) /\
  mcb_sva_trees_go_Z TbFvs c01x_theta c01x_thetaw c01x_troots [1] [1;0] = GoBadOrder /\
  mcb_sva_trees_order_Z TbIso c01x_theta c01x_thetaw c01x_troots [] [0;2;1;3]
    = TRun (SvaOk [[0;1;2;3;4];[0;1;5;6;7]] 15%Z [[0];[0;1]]).
Proof.
  split; [reflexivity|]. split; [split; [reflexivity|repeat constructor]|].
  split; [intros v Hv; cbn in Hv; unfold c01x_roots; repeat (destruct v as [|v]; [cbn; tauto|]); cbn in Hv; exfalso; apply (Nat.nlt_0_r v); do 4 apply Nat.succ_lt_mono in Hv; exact Hv|].
  split; [vm_compute; reflexivity|].
  split; [eexists _, _, _; split; vm_compute; reflexivity|].
  split; [vm_compute; reflexivity|]. split; [vm_compute; reflexivity|].
  split; [eexists _, _, _; split; vm_compute; reflexivity|].
  repeat split; vm_compute; reflexivity.
Qed.
