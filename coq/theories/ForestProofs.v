(* ForestProofs.v — the BFS spanning forest and the ForestIndex built on it (property C16).

   Structure:
   1. [Inv g reps r f]: the invariant of the BFS state (reached r, forest f, roots used reps);
      it is preserved by emitting an edge to an unreached vertex ([Inv_add]) and by starting a
      new tree at an unreached vertex of a closed reached set ([Inv_new_root]).
      Acyclicity is maintained incrementally: every emitted edge is pendant at its new endpoint
      (gl_acyclic_add_leaf), which is the leaf argument of Appendix B1 in inductive form.
   2. scan_out / bfs_loop / forest_outer never fail and preserve the invariant; the fuel S (nv g)
      suffices because |queue| + nv g < fuel + |reached| is preserved.
   3. Consequences for spanning_forest: acyclic, spanning, component count.
   4. number_edges / create_index: totality, bijection, csd arithmetic, on-forest flag. *)
From Coq Require Import List Arith Bool Lia Sorted.
From Parmcb Require Import GraphModel GraphSpec GraphLemmas ForestModel.
Import ListNotations.

(* all neighbours of v are in r *)
Definition nbrs_in (g : graph) (v : nat) (r : list nat) : Prop :=
  forall e w, joins g e v w -> In w r.

Lemma nbrs_in_mono g v r r' : incl r r' -> nbrs_in g v r -> nbrs_in g v r'.
Proof. intros Hi H e w Hj. apply Hi. eapply H; eauto. Qed.

(* ---- 1. the invariant ----------------------------------------------------------- *)

Record Inv (g : graph) (reps r f : list nat) : Prop := {
  inv_r_nodup : NoDup r;
  inv_r_lt : forall v, In v r -> v < nv g;
  inv_f_nodup : NoDup f;
  inv_f_lt : forall e, In e f -> e < ne g;
  inv_f_ends : forall e v, In e f -> incident g e v = true -> In v r;
  inv_acyclic : acyclic_edges g f;
  inv_count : length f + length reps = length r;
  inv_reps_nodup : NoDup reps;
  inv_reps_r : incl reps r;
  inv_conn : forall v, In v r -> exists rep, In rep reps /\ connected_in g f rep v;
  inv_sep : forall a b, In a reps -> In b reps -> a <> b -> ~ connected g a b
}.

Lemma Inv_init g : Inv g [] [] [].
Proof.
  constructor.
  - constructor.
  - intros ? [].
  - constructor.
  - intros ? [].
  - intros ? ? [].
  - apply gl_acyclic_nil.
  - reflexivity.
  - constructor.
  - intros ? [].
  - intros ? [].
  - intros ? ? [].
Qed.

Lemma Inv_r_length g reps r f : Inv g reps r f -> length r <= nv g.
Proof.
  intros HI. rewrite <- (seq_length (nv g) 0). apply NoDup_incl_length; [apply HI|].
  intros v Hv. apply in_seq. apply (inv_r_lt _ _ _ _ HI) in Hv. lia.
Qed.

(* emit edge e from the reached vertex u to the unreached vertex w *)
Lemma Inv_add g reps r f u w e :
  simple_graph g -> Inv g reps r f -> In u r -> ~ In w r -> joins g e u w ->
  Inv g reps (w :: r) (f ++ [e]).
Proof.
  intros Hs HI Hu Hw Hj.
  destruct (gl_simple_joins g e u w Hs Hj) as (Hun & Hwn & Huw).
  assert (Hef : ~ In e f).
  { intros Hin. apply Hw. apply (inv_f_ends _ _ _ _ HI e w Hin).
    apply gl_incident_joins. exists u. apply gl_joins_sym; exact Hj. }
  constructor.
  - constructor; [exact Hw|apply HI].
  - intros v [<-|Hv]; [exact Hwn|apply (inv_r_lt _ _ _ _ HI); exact Hv].
  - apply gl_NoDup_app; [apply HI|repeat constructor; intros []|].
    intros x Hx [<-|[]]. contradiction.
  - intros x Hx. apply in_app_iff in Hx as [Hx|[<-|[]]].
    + apply (inv_f_lt _ _ _ _ HI); exact Hx.
    + eapply gl_joins_lt; eauto.
  - intros x v Hx Hinc. apply in_app_iff in Hx as [Hx|[<-|[]]].
    + right. eapply inv_f_ends; eauto.
    + destruct (gl_joins_incident g e u w v Hj Hinc) as [-> | ->]; [right; exact Hu|left; reflexivity].
  - apply (gl_acyclic_add_leaf g f (f ++ [e]) e w).
    + apply HI.
    + intros e' He'. destruct (incident g e' w) eqn:E; auto.
      exfalso. apply Hw. eapply inv_f_ends; eauto.
    + apply gl_incident_joins. exists u. apply gl_joins_sym; exact Hj.
    + intros x Hx. apply in_app_iff in Hx as [Hx|[<-|[]]]; auto.
  - rewrite app_length. cbn [length]. pose proof (inv_count _ _ _ _ HI). lia.
  - apply HI.
  - intros x Hx. right. apply (inv_reps_r _ _ _ _ HI); exact Hx.
  - intros v [<-|Hv].
    + destruct (inv_conn _ _ _ _ HI u Hu) as (rep & Hrep & Hc). exists rep. split; auto.
      eapply gl_connected_in_trans.
      * eapply gl_connected_in_mono; [|exact Hc]. apply incl_appl, incl_refl.
      * eapply (gl_connected_in_step g _ e); eauto. apply in_app_iff; right; left; reflexivity.
    + destruct (inv_conn _ _ _ _ HI v Hv) as (rep & Hrep & Hc). exists rep. split; auto.
      eapply gl_connected_in_mono; [|exact Hc]. apply incl_appl, incl_refl.
  - apply HI.
Qed.

(* start a new tree at the unreached vertex v; the reached set is closed under adjacency *)
Lemma Inv_new_root g reps r f v :
  simple_graph g -> Inv g reps r f -> (forall x, In x r -> nbrs_in g x r) ->
  v < nv g -> ~ In v r -> Inv g (v :: reps) (v :: r) f.
Proof.
  intros Hs HI Hcl Hv Hnin.
  assert (Hwalk : forall x y, In x r -> connected g x y -> In y r).
  { intros x y Hx [p Hp].
    apply (gl_closed_walk g (fun z => In z r)) with (x := x) (p := p); auto.
    intros a e b Ha Hj. eapply Hcl; eauto. }
  constructor.
  - constructor; [exact Hnin|apply HI].
  - intros x [<-|Hx]; [exact Hv|apply (inv_r_lt _ _ _ _ HI); exact Hx].
  - apply HI.
  - apply HI.
  - intros e x He Hinc. right. eapply inv_f_ends; eauto.
  - apply HI.
  - cbn [length]. pose proof (inv_count _ _ _ _ HI). lia.
  - constructor; [|apply HI]. intros Hin. apply Hnin. apply (inv_reps_r _ _ _ _ HI); exact Hin.
  - intros x [<-|Hx]; [left; reflexivity|right; apply (inv_reps_r _ _ _ _ HI); exact Hx].
  - intros x [<-|Hx].
    + exists v. split; [left; reflexivity|apply gl_connected_in_refl; exact Hv].
    + destruct (inv_conn _ _ _ _ HI x Hx) as (rep & Hrep & Hc). exists rep. split; [right|]; auto.
  - intros a b [<-|Ha] [<-|Hb] Hab Hc.
    + congruence.
    + apply Hnin. apply (Hwalk b); [apply (inv_reps_r _ _ _ _ HI); exact Hb|].
      apply gl_connected_sym; auto.
    + apply Hnin. apply (Hwalk a); [apply (inv_reps_r _ _ _ _ HI); exact Ha|exact Hc].
    + exact (inv_sep _ _ _ _ HI a b Ha Hb Hab Hc).
Qed.

(* ---- 2. the loops --------------------------------------------------------------- *)

Lemma scan_step_eq u r q f e w :
  scan_step u (r, q, f) (e, w) =
  if Nat.eqb w u || memb w r then (r, q, f) else (w :: r, q ++ [w], f ++ [e]).
Proof. cbn [scan_step]. destruct (Nat.eqb w u); cbn [orb]; [reflexivity|]. destruct (memb w r); reflexivity. Qed.

Lemma scan_out_ok g reps u : simple_graph g -> forall oes r q f,
  Inv g reps r f -> In u r -> incl q r ->
  (forall e w, In (e, w) oes -> joins g e u w) ->
  exists r' q' f', scan_out u oes (r, q, f) = (r', q', f')
    /\ Inv g reps r' f' /\ incl r r' /\ incl q' r'
    /\ (forall e w, In (e, w) oes -> In w r')
    /\ (forall v, In v r' -> In v r \/ In v q')
    /\ incl q q'
    /\ length q' + length r = length q + length r'.
Proof.
  intros Hs. induction oes as [|[e w] oes IH]; intros r q f HI Hu Hq Hj.
  - exists r, q, f. cbn [scan_out fold_left].
    split; [reflexivity|]. split; [exact HI|]. split; [apply incl_refl|]. split; [exact Hq|].
    split; [intros ? ? []|]. split; [auto|]. split; [apply incl_refl|reflexivity].
  - unfold scan_out. cbn [fold_left]. rewrite scan_step_eq. fold (scan_out u oes).
    assert (Hj' : forall e0 w0, In (e0, w0) oes -> joins g e0 u w0)
      by (intros; apply Hj; right; auto).
    destruct (Nat.eqb w u || memb w r) eqn:E.
    + assert (Hw : In w r).
      { apply orb_true_iff in E as [E|E]; [apply Nat.eqb_eq in E; subst; exact Hu|].
        apply gl_memb_In; exact E. }
      destruct (IH r q f HI Hu Hq Hj') as (r' & q' & f' & Eq & HI' & Hrr & Hqr & Hcov & Hnew & Hqq & Hlen).
      exists r', q', f'. split; [exact Eq|]. split; [exact HI'|]. split; [exact Hrr|].
      split; [exact Hqr|]. split; [|auto].
      intros e0 w0 [H|H]; [inversion H; subst; apply Hrr; exact Hw|eapply Hcov; eauto].
    + apply orb_false_iff in E as [_ E]. apply gl_memb_false in E.
      assert (HI1 : Inv g reps (w :: r) (f ++ [e])).
      { apply (Inv_add g reps r f u w e); auto. apply Hj; left; reflexivity. }
      destruct (IH (w :: r) (q ++ [w]) (f ++ [e]) HI1) as
          (r' & q' & f' & Eq & HI' & Hrr & Hqr & Hcov & Hnew & Hqq & Hlen); auto.
      { right; exact Hu. }
      { intros x Hx. apply in_app_iff in Hx as [Hx|[<-|[]]]; [right; apply Hq; exact Hx|left; reflexivity]. }
      exists r', q', f'. split; [exact Eq|]. split; [exact HI'|].
      split; [intros x Hx; apply Hrr; right; exact Hx|].
      split; [exact Hqr|].
      split.
      { intros e0 w0 [H|H]; [inversion H; subst; apply Hrr; left; reflexivity|eapply Hcov; eauto]. }
      split.
      { intros v Hv. destruct (Hnew v Hv) as [[<-|H]|H]; auto.
        right. apply Hqq. apply in_app_iff; right; left; reflexivity. }
      split; [intros x Hx; apply Hqq; apply in_app_iff; left; exact Hx|].
      rewrite app_length in Hlen. cbn [length] in Hlen. lia.
Qed.

Lemma bfs_loop_ok g reps : simple_graph g -> forall fuel r q f,
  Inv g reps r f -> incl q r ->
  (forall v, In v r -> In v q \/ nbrs_in g v r) ->
  length q + nv g < fuel + length r ->
  exists r' f', bfs_loop fuel g r q f = Some (r', f')
    /\ Inv g reps r' f' /\ (forall v, In v r' -> nbrs_in g v r') /\ incl r r'.
Proof.
  intros Hs. induction fuel as [|fuel IH]; intros r q f HI Hq Hpend Hfuel.
  - pose proof (Inv_r_length _ _ _ _ HI). lia.
  - cbn [bfs_loop]. destruct q as [|u q].
    + exists r, f. split; [reflexivity|]. split; [exact HI|]. split; [|apply incl_refl].
      intros v Hv. destruct (Hpend v Hv) as [[]|H]; exact H.
    + assert (Hu : In u r) by (apply Hq; left; reflexivity).
      destruct (scan_out_ok g reps u Hs (out_edges g u) r q f HI Hu) as
          (r' & q' & f' & Eq & HI' & Hrr & Hqr & Hcov & Hnew & Hqq & Hlen).
      { intros x Hx; apply Hq; right; exact Hx. }
      { intros e w H. apply gl_out_edges_joins; exact H. }
      rewrite Eq.
      destruct (IH r' q' f' HI' Hqr) as (r2 & f2 & E2 & HI2 & Hcl & Hr2).
      * intros v Hv. destruct (Hnew v Hv) as [Hvr|Hvq]; [|left; exact Hvq].
        destruct (Hpend v Hvr) as [[<-|Hvq]|Hn].
        -- right. intros e w Hj. apply (Hcov e). apply gl_out_edges_joins; exact Hj.
        -- left. apply Hqq; exact Hvq.
        -- right. exact (nbrs_in_mono g v r r' Hrr Hn).
      * cbn [length] in Hfuel. lia.
      * exists r2, f2. split; [exact E2|]. split; [exact HI2|]. split; [exact Hcl|].
        eapply incl_tran; eauto.
Qed.

Lemma forest_outer_ok g : simple_graph g -> forall roots reps r f,
  Inv g reps r f -> (forall v, In v r -> nbrs_in g v r) ->
  exists r' f' reps', forest_outer g roots r f (length reps) = Some (r', f', length reps')
    /\ Inv g reps' r' f' /\ (forall v, In v r' -> nbrs_in g v r') /\ incl r r'
    /\ (forall v, In v roots -> v < nv g -> In v r').
Proof.
  intros Hs. induction roots as [|v roots IH]; intros reps r f HI Hcl.
  - exists r, f, reps. cbn [forest_outer]. split; [reflexivity|]. split; [exact HI|].
    split; [exact Hcl|]. split; [apply incl_refl|intros ? []].
  - cbn [forest_outer]. destruct (negb (v <? nv g) || memb v r) eqn:E.
    + destruct (IH reps r f HI Hcl) as (r' & f' & reps' & Eq & HI' & Hcl' & Hrr & Hcov).
      exists r', f', reps'. split; [exact Eq|]. split; [exact HI'|]. split; [exact Hcl'|].
      split; [exact Hrr|].
      intros x [<-|Hx] Hlt; [|auto].
      apply orb_true_iff in E as [E|E].
      * apply negb_true_iff, Nat.ltb_ge in E. lia.
      * apply Hrr. apply gl_memb_In; exact E.
    + apply orb_false_iff in E as [E1 E2].
      apply negb_false_iff, Nat.ltb_lt in E1. apply gl_memb_false in E2.
      assert (HI1 : Inv g (v :: reps) (v :: r) f) by (apply Inv_new_root; auto).
      destruct (bfs_loop_ok g (v :: reps) Hs (S (nv g)) (v :: r) [v] f HI1) as
          (r1 & f1 & E1' & HI1' & Hcl1 & Hr1).
      { intros x [<-|[]]; left; reflexivity. }
      { intros x [<-|Hx]; [left; left; reflexivity|].
        right. eapply nbrs_in_mono; [|apply Hcl; exact Hx]. apply incl_tl, incl_refl. }
      { cbn [length]. lia. }
      rewrite E1'.
      destruct (IH (v :: reps) r1 f1 HI1' Hcl1) as (r' & f' & reps' & Eq & HI' & Hcl' & Hrr & Hcov).
      exists r', f', reps'. cbn [length] in Eq. split; [exact Eq|]. split; [exact HI'|].
      split; [exact Hcl'|]. split.
      * intros x Hx. apply Hrr, Hr1. right; exact Hx.
      * intros x [<-|Hx] Hlt; [|auto]. apply Hrr, Hr1. left; reflexivity.
Qed.

(* ---- 3. spanning_forest --------------------------------------------------------- *)

(* whatever spanning_forest returns satisfies the invariant with a closed, full reached set *)
Lemma spanning_forest_inv g roots F k :
  simple_graph g -> spanning_forest g roots = Some (F, k) ->
  exists reps r, Inv g reps r F /\ length reps = k /\ length r = nv g
    /\ (forall v, In v r -> nbrs_in g v r).
Proof.
  intros Hs. unfold spanning_forest.
  destruct (forest_outer_ok g Hs roots [] [] [] (Inv_init g)) as
      (r' & f' & reps' & Eq & HI' & Hcl' & _ & _); [intros ? []|].
  cbn [length] in Eq. rewrite Eq.
  destruct (Nat.eqb_spec (length r') (nv g)) as [Hlen|]; [|discriminate].
  intros H; inversion H; subst. exists reps', r'. auto.
Qed.

Lemma full_reached g reps r f : Inv g reps r f -> length r = nv g -> forall v, v < nv g -> In v r.
Proof.
  intros HI Hlen v Hv.
  apply (NoDup_length_incl (l := r) (l' := seq 0 (nv g))).
  - apply HI.
  - rewrite seq_length; lia.
  - intros x Hx. apply in_seq. apply (inv_r_lt _ _ _ _ HI) in Hx. lia.
  - apply in_seq; lia.
Qed.

(* totality: with an oracle that mentions every vertex the model does not fail *)
Lemma spanning_forest_total g roots :
  simple_graph g -> (forall v, v < nv g -> In v roots) ->
  exists F k, spanning_forest g roots = Some (F, k).
Proof.
  intros Hs Hroots. unfold spanning_forest.
  destruct (forest_outer_ok g Hs roots [] [] [] (Inv_init g)) as
      (r' & f' & reps' & Eq & HI' & _ & _ & Hcov); [intros ? []|].
  cbn [length] in Eq. rewrite Eq.
  assert (Hlen : length r' = nv g).
  { apply Nat.le_antisymm; [eapply Inv_r_length; eauto|].
    rewrite <- (seq_length (nv g) 0). apply NoDup_incl_length; [apply seq_NoDup|].
    intros v Hv. apply in_seq in Hv. apply Hcov; [apply Hroots|]; lia. }
  rewrite Hlen, Nat.eqb_refl. eauto.
Qed.

(* H_inj: the forest contains no non-empty even-degree subset *)
Theorem forest_no_even_subset g roots F k :
  simple_graph g -> spanning_forest g roots = Some (F, k) -> acyclic_edges g F.
Proof.
  intros Hs H. destruct (spanning_forest_inv g roots F k Hs H) as (reps & r & HI & _).
  apply HI.
Qed.

Lemma forest_edges_valid g roots F k :
  simple_graph g -> spanning_forest g roots = Some (F, k) ->
  NoDup F /\ (forall e, In e F -> e < ne g) /\ length F + k = nv g.
Proof.
  intros Hs H. destruct (spanning_forest_inv g roots F k Hs H) as (reps & r & HI & Hk & Hr & _).
  split; [apply HI|]. split; [apply HI|]. pose proof (inv_count _ _ _ _ HI). lia.
Qed.

(* the forest connects whatever the graph connects *)
Theorem forest_spans g roots F k :
  simple_graph g -> spanning_forest g roots = Some (F, k) ->
  forall x y, connected g x y -> connected_in g F x y.
Proof.
  intros Hs H x y Hxy.
  destruct (spanning_forest_inv g roots F k Hs H) as (reps & r & HI & Hk & Hr & Hcl).
  assert (Hx : In x r).
  { apply (full_reached g reps r F HI Hr). destruct Hxy as [p Hp]. eapply gl_walk_start_lt; eauto. }
  assert (Hy : In y r).
  { apply (full_reached g reps r F HI Hr). destruct Hxy as [p Hp]. eapply gl_walk_end_lt; eauto. }
  destruct (inv_conn _ _ _ _ HI x Hx) as (a & Ha & Hax).
  destruct (inv_conn _ _ _ _ HI y Hy) as (b & Hb & Hby).
  destruct (Nat.eq_dec a b) as [->|Hab].
  - eapply gl_connected_in_trans; [apply gl_connected_in_sym; eauto|exact Hby].
  - exfalso. apply (inv_sep _ _ _ _ HI a b Ha Hb Hab).
    eapply gl_connected_trans; [eapply gl_connected_in_connected; eauto|].
    eapply gl_connected_trans; [exact Hxy|].
    apply gl_connected_sym; auto. eapply gl_connected_in_connected; eauto.
Qed.

(* the return value is the number of connected components *)
Theorem forest_components g roots F k :
  simple_graph g -> spanning_forest g roots = Some (F, k) -> n_components g k.
Proof.
  intros Hs H.
  destruct (spanning_forest_inv g roots F k Hs H) as (reps & r & HI & Hk & Hr & Hcl).
  exists reps. split; [exact Hk|]. split; [apply HI|]. split; [|split].
  - intros a Ha. apply (inv_r_lt _ _ _ _ HI). apply (inv_reps_r _ _ _ _ HI); exact Ha.
  - apply HI.
  - intros v Hv. destruct (inv_conn _ _ _ _ HI v (full_reached g reps r F HI Hr v Hv)) as (a & Ha & Hc).
    exists a. split; auto. eapply gl_connected_in_connected; eauto.
Qed.

(* ---- 4. number_edges and create_index ------------------------------------------- *)

Lemma number_edges_nth F : forall es low high j e,
  nth_error es j = Some e ->
  nth_error (number_edges F es low high) j =
  Some (if memb e F then high + length (filter (fun x => memb x F) (firstn j es))
        else low + length (filter (fun x => negb (memb x F)) (firstn j es))).
Proof.
  induction es as [|y es IH]; intros low high j e Hn.
  - destruct j; discriminate.
  - destruct j as [|j]; cbn [nth_error] in Hn.
    + inversion Hn; subst. cbn [number_edges firstn filter length].
      destruct (memb e F); cbn [nth_error]; f_equal; lia.
    + cbn [number_edges firstn filter]. destruct (memb y F) eqn:Ey; cbn [negb nth_error length];
        rewrite (IH _ _ j e Hn); destruct (memb e F); f_equal; lia.
Qed.

Section Index.
  Variable F : list nat.
  Variable m : nat.
  Let es := seq 0 m.
  Let nonf := filter (fun e => negb (memb e F)) es.
  Let onf := filter (fun e => memb e F) es.
  Let csd := length nonf.
  Let idx := number_edges F es 0 csd.
  Let rev := nonf ++ onf.

  Lemma index_len : length rev = m.
  Proof.
    unfold rev, nonf, onf. rewrite app_length, gl_filter_length_split. apply seq_length.
  Qed.

  Lemma index_rev_nodup : NoDup rev.
  Proof.
    unfold rev, nonf, onf. apply gl_NoDup_app; try (apply NoDup_filter, seq_NoDup).
    intros x Hx Hy. apply filter_In in Hx as [_ Hx]. apply filter_In in Hy as [_ Hy].
    rewrite Hy in Hx. discriminate.
  Qed.

  (* forward lookup, with the side of csd it lands on *)
  Lemma index_fwd e : e < m ->
    exists i, nth_error idx e = Some i /\ i < m /\ nth_error rev i = Some e
              /\ (i <? csd) = negb (memb e F).
  Proof.
    intros He.
    assert (Hn : nth_error es e = Some e) by (unfold es; rewrite gl_seq_nth_error; auto).
    unfold idx. rewrite (number_edges_nth F es 0 csd e e Hn).
    assert (Hbound : forall i, nth_error rev i = Some e -> i < m).
    { intros i Hi. rewrite <- index_len. apply nth_error_Some. rewrite Hi; discriminate. }
    destruct (memb e F) eqn:Em.
    - eexists; split; [reflexivity|].
      assert (Hr : nth_error rev (csd + length (filter (fun x => memb x F) (firstn e es))) = Some e).
      { unfold rev. rewrite nth_error_app2 by (fold csd; lia). fold csd.
        replace (csd + _ - csd) with (length (filter (fun x => memb x F) (firstn e es))) by lia.
        unfold onf. apply gl_filter_nth_error; auto. }
      split; [apply Hbound; exact Hr|]. split; [exact Hr|].
      cbn [negb]. apply Nat.ltb_ge. lia.
    - eexists; split; [reflexivity|].
      assert (Hr' : nth_error nonf (length (filter (fun x => negb (memb x F)) (firstn e es))) = Some e).
      { unfold nonf. apply gl_filter_nth_error; auto. rewrite Em; reflexivity. }
      assert (Hlt : length (filter (fun x => negb (memb x F)) (firstn e es)) < csd).
      { unfold csd. apply nth_error_Some. rewrite Hr'; discriminate. }
      assert (Hr : nth_error rev (0 + length (filter (fun x => negb (memb x F)) (firstn e es))) = Some e).
      { unfold rev. cbn [Nat.add]. rewrite nth_error_app1 by exact Hlt. exact Hr'. }
      split; [apply Hbound; exact Hr|]. split; [exact Hr|].
      cbn [negb Nat.add]. apply Nat.ltb_lt. exact Hlt.
  Qed.

  Lemma index_bwd i : i < m ->
    exists e, nth_error rev i = Some e /\ e < m /\ nth_error idx e = Some i.
  Proof.
    intros Hi. destruct (nth_error rev i) as [e|] eqn:E.
    2:{ apply nth_error_None in E. rewrite index_len in E. lia. }
    exists e. split; [reflexivity|].
    assert (He : e < m).
    { apply nth_error_In in E. unfold rev, nonf, onf in E.
      apply in_app_iff in E as [E|E]; apply filter_In in E as [E _]; apply in_seq in E; lia. }
    split; [exact He|].
    destruct (index_fwd e He) as (i' & Hidx & Hi' & Hrev & _).
    rewrite Hidx. f_equal.
    pose proof index_rev_nodup as Hnd. rewrite NoDup_nth_error in Hnd.
    apply Hnd; [rewrite index_len; exact Hi'|]. rewrite Hrev, E. reflexivity.
  Qed.
End Index.

(* the forest edges listed in edge order have as many elements as the forest *)
Lemma onf_length F m : NoDup F -> (forall e, In e F -> e < m) ->
  length (filter (fun e => memb e F) (seq 0 m)) = length F.
Proof.
  intros Hnd Hlt. apply Nat.le_antisymm.
  - apply NoDup_incl_length; [apply NoDup_filter, seq_NoDup|].
    intros e He. apply filter_In in He as [_ He]. apply gl_memb_In; exact He.
  - apply NoDup_incl_length; [exact Hnd|].
    intros e He. apply filter_In. split; [apply in_seq; apply Hlt in He; lia|apply gl_memb_In; exact He].
Qed.

Definition forest_flag (fi : forest_index) (e : nat) : bool :=
  match fi_on_forest fi e with Some true => true | _ => false end.

(* the main statement about create_index, relative to the result of spanning_forest *)
Theorem create_index_ok g roots :
  simple_graph g -> (forall v, v < nv g -> In v roots) ->
  exists F k fi, spanning_forest g roots = Some (F, k) /\ create_index g roots = Some fi
  /\ fi_n fi = nv g /\ fi_m fi = ne g /\ fi_k fi = k
  /\ (forall e, e < ne g -> exists i, fi_index fi e = Some i /\ i < ne g /\ fi_edge fi i = Some e)
  /\ (forall i, i < ne g -> exists e, fi_edge fi i = Some e /\ e < ne g /\ fi_index fi e = Some i)
  /\ fi_csd fi + nv g = ne g + k
  /\ (forall e i, fi_index fi e = Some i -> fi_on_forest fi e = Some (negb (i <? fi_csd fi)))
  /\ filter (forest_flag fi) (seq 0 (ne g)) = filter (fun e => memb e F) (seq 0 (ne g)).
Proof.
  intros Hs Hroots.
  destruct (spanning_forest_total g roots Hs Hroots) as (F & k & Hsf).
  destruct (forest_edges_valid g roots F k Hs Hsf) as (Hnd & Hlt & Hcount).
  pose proof (onf_length F (ne g) Hnd Hlt) as Honf.
  pose proof (gl_filter_length_split (fun e => memb e F) (seq 0 (ne g))) as Hsplit.
  rewrite seq_length, Honf in Hsplit.
  set (nonf := filter (fun e => negb (memb e F)) (seq 0 (ne g))) in *.
  assert (Hcsd : ne g + k - nv g = length nonf) by lia.
  exists F, k. unfold create_index. rewrite Hsf.
  destruct (Nat.ltb_spec (ne g + k) (nv g)) as [Hbad|_]; [lia|].
  fold nonf. rewrite Hcsd, Nat.eqb_refl.
  eexists. split; [reflexivity|]. split; [reflexivity|].
  unfold fi_index, fi_edge, fi_on_forest; cbn [fi_n fi_m fi_k fi_csd fi_idx fi_rev].
  split; [reflexivity|]. split; [reflexivity|]. split; [reflexivity|].
  split.
  { intros e He. destruct (index_fwd F (ne g) e He) as (i & H1 & H2 & H3 & _). eauto. }
  split.
  { intros i Hi. exact (index_bwd F (ne g) i Hi). }
  split; [lia|].
  split.
  { intros e i Hi. unfold fi_index; cbn [fi_idx]. rewrite Hi. reflexivity. }
  apply filter_ext_in. intros e He. apply in_seq in He.
  destruct (index_fwd F (ne g) e) as (i & H1 & _ & _ & H4); [lia|].
  unfold forest_flag, fi_on_forest, fi_index; cbn [fi_idx fi_csd].
  fold nonf in H1, H4. rewrite H1, H4. destruct (memb e F); reflexivity.
Qed.

(* the on-forest edges in edge order form a spanning forest *)
Lemma onf_spanning_forest g roots F k :
  simple_graph g -> spanning_forest g roots = Some (F, k) ->
  spanning_forest_of g (filter (fun e => memb e F) (seq 0 (ne g))).
Proof.
  intros Hs Hsf. split; [apply NoDup_filter, seq_NoDup|]. split; [|split].
  - intros e He. apply filter_In in He as [He _]. apply in_seq in He; lia.
  - eapply gl_acyclic_incl; [|eapply forest_no_even_subset; eauto].
    intros e He. apply filter_In in He as [_ He]. apply gl_memb_In; exact He.
  - intros x y Hxy. destruct (forest_spans g roots F k Hs Hsf x y Hxy) as (p & Hp & Hi).
    exists p. split; [exact Hp|]. intros e He. apply filter_In. split.
    + apply in_seq. pose proof (gl_walk_edges_lt g x p y Hp e He). lia.
    + apply gl_memb_In. apply Hi; exact He.
Qed.

(* C16 in one piece *)
Theorem create_index_correct g roots :
  simple_graph g -> (forall v, v < nv g -> In v roots) ->
  exists fi, create_index g roots = Some fi
  /\ fi_n fi = nv g /\ fi_m fi = ne g
  /\ (forall e, e < ne g -> exists i, fi_index fi e = Some i /\ i < ne g /\ fi_edge fi i = Some e)
  /\ (forall i, i < ne g -> exists e, fi_edge fi i = Some e /\ e < ne g /\ fi_index fi e = Some i)
  /\ n_components g (fi_k fi)
  /\ fi_csd fi + nv g = ne g + fi_k fi
  /\ (forall e i, fi_index fi e = Some i -> fi_on_forest fi e = Some (negb (i <? fi_csd fi)))
  /\ spanning_forest_of g
       (filter (fun e => match fi_on_forest fi e with Some true => true | _ => false end)
               (seq 0 (ne g))).
Proof.
  intros Hs Hroots.
  destruct (create_index_ok g roots Hs Hroots) as
      (F & k & fi & Hsf & Hci & Hn & Hm & Hk & Hfwd & Hbwd & Hcsd & Hon & Hflt).
  exists fi. rewrite Hk. repeat (split; [assumption|]).
  split; [eapply forest_components; eauto|].
  split; [assumption|]. split; [assumption|].
  change (spanning_forest_of g (filter (forest_flag fi) (seq 0 (ne g)))).
  rewrite Hflt. eapply onf_spanning_forest; eauto.
Qed.
