(* OptSpec.v — specification vocabulary of property C08: "the optimum" of a weighted graph and the
   transformations under which it is claimed to be invariant / additive / homogeneous.
   Definitions and statements only (statements as `Definition … : Prop`); proofs are in OptProofs.v.

   A weighted graph is a pair (g, w): GraphModel.graph and a list of weights indexed by edge id
   (GraphSpec.wt).  Edge ids are positions in `ge g`, so a transformation that keeps the edge list
   in place keeps edge sets (GF(2) vectors, cycles, bases) literally unchanged. *)
From Coq Require Import List Arith Bool ZArith.
From Parmcb Require Export McbSpec SvaSpec.
Import ListNotations.

(* x is the weight of a minimum cycle basis of (g, w) *)
Definition is_opt (g : graph) (w : list Z) (x : Z) : Prop :=
  exists B, min_cycle_basis g w B /\ total_weight w B = x.

(* every endpoint of every edge is a vertex (part of simple_graph) *)
Definition ends_in_range (g : graph) : Prop :=
  forall e s t, ends g e = Some (s, t) -> s < nv g /\ t < nv g.

(* ---- vertex renumbering -------------------------------------------------------------------- *)

(* f is a permutation of the vertices 0..n-1 with inverse f' *)
Definition perm_on (n : nat) (f f' : nat -> nat) : Prop :=
  forall v, v < n -> f v < n /\ f' v < n /\ f' (f v) = v /\ f (f' v) = v.

(* edge ids (and therefore weights, cycles, bases) stay; endpoints are renamed *)
Definition relabel (f : nat -> nat) (g : graph) : graph :=
  {| nv := nv g; ge := map (fun st => (f (fst st), f (snd st))) (ge g) |}.

(* the same with the permutation given as a list together with its inverse list: vertex v becomes nth v l v;
   perm_listb is the executable check that l' inverts l on 0..n-1 and both stay below n *)
Definition perm_fun (l : list nat) (v : nat) : nat := nth v l v.
Definition perm_listb (n : nat) (l l' : list nat) : bool :=
  forallb (fun v => Nat.ltb (perm_fun l v) n && Nat.ltb (perm_fun l' v) n
                    && Nat.eqb (perm_fun l' (perm_fun l v)) v && Nat.eqb (perm_fun l (perm_fun l' v)) v) (seq 0 n).

(* ---- isolated vertices --------------------------------------------------------------------- *)

Definition add_isolated (k : nat) (g : graph) : graph := {| nv := nv g + k; ge := ge g |}.

(* ---- one more edge, appended last (its id is ne g, its weight is appended to w) -------------- *)

Definition add_edge (n' : nat) (a b : nat) (g : graph) : graph := {| nv := n'; ge := ge g ++ [(a, b)] |}.

(* pendant edge: a NEW vertex (number nv g) attached to the old vertex u, in either orientation *)
Definition add_pendant (u : nat) (flip : bool) (g : graph) : graph :=
  if flip then add_edge (nv g + 1) (nv g) u g else add_edge (nv g + 1) u (nv g) g.

(* a pendant tree is grown one pendant edge at a time: attachment points (and orientations) in order;
   the i-th new vertex may be attached to an earlier new vertex *)
Fixpoint add_pendants (us : list (nat * bool)) (g : graph) : graph :=
  match us with
  | [] => g
  | (u, fl) :: r => add_pendants r (add_pendant u fl g)
  end.

(* every attachment point exists when its pendant edge is added (n = number of vertices so far) *)
Fixpoint pendants_ok (us : list (nat * bool)) (n : nat) : Prop :=
  match us with
  | [] => True
  | (u, _) :: r => u < n /\ pendants_ok r (n + 1)
  end.

(* bridge: a new edge between two old vertices that were not connected *)
Definition add_bridge (u v : nat) (g : graph) : graph := add_edge (nv g) u v g.
Definition is_bridge_pair (g : graph) (u v : nat) : Prop :=
  u < nv g /\ v < nv g /\ ~ connected g u v.

(* ---- scaling ---------------------------------------------------------------------------------- *)

Definition scale_weights (k : Z) (w : list Z) : list Z := map (Z.mul k) w.

(* ---- exact runs --------------------------------------------------------------------------------- *)

(* what one exact run is (SvaSpec): simple graph, positive weights, any BFS root order, any admissible
   selection rule, a per-phase search that returns minimum odd cycles (for canonical witnesses), and the
   support-vector loop ends normally with the value `total` *)
Definition exact_run (g : graph) (wts : list Z) (total : Z) : Prop :=
  exists roots fi select search cycles sup,
    simple_graph g /\ positive_weights g wts /\
    (forall v, v < nv g -> In v roots) /\ create_index g roots = Some fi /\
    select_ok (fi_csd fi) select /\ search_min_c g wts fi search /\
    sva_run Z 0%Z Z.add select search fi = SvaOk cycles total sup.

(* ---- edge reordering, disjoint union, subdivision (definitions; statements below) ----------------- *)

(* sigma is a list: position i of the new edge list holds the old edge  nth i sigma *)
Definition permute_edges (sigma : list nat) (g : graph) : graph :=
  {| nv := nv g; ge := map (fun e => nth e (ge g) (0, 0)) sigma |}.
Definition permute_weights (sigma : list nat) (w : list Z) : list Z := map (fun e => nth e w 0%Z) sigma.
Definition is_edge_perm (m : nat) (sigma : list nat) : Prop :=
  length sigma = m /\ NoDup sigma /\ forall e, In e sigma -> e < m.

(* g ⊎ h: the vertices of h are shifted by nv g, its edges follow those of g *)
Definition disjoint_union (g h : graph) : graph :=
  {| nv := nv g + nv h;
     ge := ge g ++ map (fun st => (nv g + fst st, nv g + snd st)) (ge h) |}.

(* edge e = (s, t) of weight a + b becomes (s, x) of weight a (same id) and (x, t) of weight b (new last id),
   x = nv g the new vertex *)
Definition subdivide (e : nat) (g : graph) : graph :=
  match ends g e with
  | Some (s, t) => {| nv := nv g + 1; ge := GraphModel.set_nth (ge g) e (s, nv g) ++ [(nv g, t)] |}
  | None => g
  end.
Definition subdivide_weights (e : nat) (a b : Z) (w : list Z) : list Z := GraphModel.set_nth w e a ++ [b].

(* Statements of the three remaining relations.  All three are proved: OptProofs4.v (edge order), OptProofs5.v
   (disjoint union), OptProofs6.v (subdivision); theorems C08_edge_order, C08_union, C08_subdivide of
   Properties_C08.v. *)
Definition C08_edge_order_statement : Prop :=
  forall g w sigma x, simple_graph g -> length w = ne g -> is_edge_perm (ne g) sigma ->
    is_opt g w x -> is_opt (permute_edges sigma g) (permute_weights sigma w) x.

Definition C08_union_statement : Prop :=
  forall g h wg wh x y, simple_graph g -> simple_graph h -> positive_weights g wg -> positive_weights h wh ->
    is_opt g wg x -> is_opt h wh y -> is_opt (disjoint_union g h) (wg ++ wh) (x + y)%Z.

Definition C08_subdivide_statement : Prop :=
  forall g w e a b x, simple_graph g -> positive_weights g w -> e < ne g ->
    (0 < a)%Z -> (0 < b)%Z -> wt w e = (a + b)%Z ->
    is_opt g w x -> is_opt (subdivide e g) (subdivide_weights e a b w) x.
