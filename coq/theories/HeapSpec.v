(* HeapSpec.v — specification of the 4-ary indirect heap of HeapModel.v as a priority queue.
   Definitions and statements only (`Definition …_stmt : Prop`); the proofs are in HeapProofs.v
   (theorems `heap_top_min`, `heap_push_correct`, `heap_pop_correct`, `heap_update_correct`,
   `heap_update_absent`, each of type `…_stmt`), plus `klt_strict_weak_order` for the keys of SignedModel.v. *)
From Coq Require Import List Arith Bool Permutation.
From Parmcb Require Export HeapModel.
Import ListNotations.

Section HeapSpec.
  Variable K : Type.
  Variable kltb : K -> K -> bool.

  (* a <= b  :=  not (b < a) *)
  Definition kle (a b : K) : Prop := kltb b a = false.

  (* strict weak order: irreflexive, transitive, and the induced `kle` is transitive
     (negative transitivity).  Totality of `kle` follows from asymmetry. *)
  Record strict_weak_order : Prop := {
    swo_irrefl : forall a, kltb a a = false;
    swo_trans : forall a b c, kltb a b = true -> kltb b c = true -> kltb a c = true;
    swo_le_trans : forall a b c, kle a b -> kle b c -> kle a c
  }.

  (* heap order: the values are pairwise distinct (indirect heap: index_in_heap is a function of the value)
     and no child is strictly smaller than its parent. *)
  Definition heap_ok (key : nat -> K) (data : list nat) : Prop :=
    NoDup data /\
    forall i, 0 < i < length data ->
      kltb (key (nth i data 0)) (key (nth (hparent i) data 0)) = false.

  Definition heap_top_min_stmt : Prop :=
    forall (key : nat -> K) (data : list nat) (u : nat),
      strict_weak_order -> heap_ok key data -> heap_top data = Some u ->
      In u data /\ forall v, In v data -> kltb (key v) (key u) = false.

  Definition heap_push_stmt : Prop :=
    forall (key : nat -> K) (data : list nat) (v : nat),
      strict_weak_order -> heap_ok key data -> ~ In v data ->
      heap_ok key (heap_push K kltb key data v) /\
      Permutation (v :: data) (heap_push K kltb key data v).

  Definition heap_pop_stmt : Prop :=
    forall (key : nat -> K) (data : list nat) (u : nat),
      strict_weak_order -> heap_ok key data -> heap_top data = Some u ->
      heap_ok key (heap_pop K kltb key data) /\
      Permutation data (u :: heap_pop K kltb key data).

  (* decrease-key: the indirect heap reads the NEW keys `key'`, which differ from the keys `key` under which
     the heap was ordered only at `v`, where the new key is not larger. *)
  Definition heap_update_stmt : Prop :=
    forall (key key' : nat -> K) (data : list nat) (v : nat),
      strict_weak_order -> heap_ok key data -> In v data ->
      (forall x, x <> v -> key' x = key x) ->
      kltb (key v) (key' v) = false ->
      exists d', heap_update K kltb key' data v = Some d' /\ heap_ok key' d' /\ Permutation data d'.

  Definition heap_update_absent_stmt : Prop :=
    forall (key : nat -> K) (data : list nat) (v : nat),
      ~ In v data -> heap_update K kltb key data v = None.
End HeapSpec.
