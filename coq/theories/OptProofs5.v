(* OptProofs5.v — lemmas for property C08, part 5: the optimum is additive over disjoint unions.
   U = disjoint_union g h keeps the edges of g (ids < ne g, vertices < nv g) and appends those of h shifted by
   (ne g, nv g).  Every element of the cycle space of U splits into a low part (an element of the cycle space of g)
   and a high part (a shifted element of the cycle space of h); every simple cycle of U lies on one side; a basis of
   g followed by a shifted basis of h is a basis of U; the two sides of any basis of U are bases of g and h.
   Names carry the prefix op_.  No axioms. *)
From Coq Require Import List Arith Bool ZArith Lia Sorted.
From Parmcb Require Import GraphModel GF2Model GF2Proofs GraphSpec GraphLemmas GF2Lin McbSpec DePinaSpec DePinaProofs
     OptSpec OptProofs OptProofs4.
Import ListNotations.

(* ---- shifting vectors ------------------------------------------------------------------------------------- *)

Definition op_sh (k : nat) (Z : vec) : vec := map (Nat.add k) Z.
Definition op_hi (k : nat) (Z : vec) : vec := filter (fun i => k <=? i) Z.
Definition op_down (k : nat) (Z : vec) : vec := map (fun i => i - k) (op_hi k Z).

Lemma op_sorted_map_mono (f : nat -> nat) Z : (forall a b, a < b -> f a < f b) -> sorted Z -> sorted (map f Z).
Proof.
  intros Hf. induction Z as [|x Z IH]; intros HS; [apply sorted_nil|].
  apply sorted_inv in HS as [HS Hx]. cbn [map]. apply sorted_cons; [apply IH; exact HS|].
  rewrite Forall_forall in *. intros y Hy. apply in_map_iff in Hy as (z & <- & Hz). apply Hf, Hx, Hz.
Qed.

Lemma op_sh_sorted k Z : sorted Z -> sorted (op_sh k Z).
Proof. apply op_sorted_map_mono. intros; lia. Qed.

Lemma op_hi_sorted k Z : sorted Z -> sorted (op_hi k Z).
Proof. apply filter_sorted. Qed.

Lemma op_sorted_map_mono_on (f : nat -> nat) (P : nat -> Prop) Z :
  (forall a b, P a -> P b -> a < b -> f a < f b) -> (forall a, In a Z -> P a) -> sorted Z -> sorted (map f Z).
Proof.
  intros Hf. induction Z as [|x Z IH]; intros HP HS; [apply sorted_nil|].
  apply sorted_inv in HS as [HS Hx]. cbn [map]. apply sorted_cons.
  - apply IH; [|exact HS]. intros a Ha. apply HP. right. exact Ha.
  - rewrite Forall_forall in *. intros y Hy. apply in_map_iff in Hy as (z & <- & Hz).
    apply Hf; [apply HP; left; reflexivity|apply HP; right; exact Hz|apply Hx, Hz].
Qed.

Lemma op_down_sorted k Z : sorted Z -> sorted (op_down k Z).
Proof.
  intros HS. unfold op_down. apply (op_sorted_map_mono_on _ (fun a => k <= a)).
  - intros a b Ha Hb Hab. lia.
  - intros a Ha. apply filter_In in Ha as [_ Ha]. apply Nat.leb_le in Ha. exact Ha.
  - apply op_hi_sorted. exact HS.
Qed.

Lemma op_sh_In k Z i : In i (op_sh k Z) <-> k <= i /\ In (i - k) Z.
Proof.
  unfold op_sh. rewrite in_map_iff. split.
  - intros (e & <- & He). split; [lia|]. replace (k + e - k) with e by lia. exact He.
  - intros (Hk & Hi). exists (i - k). split; [lia|exact Hi].
Qed.

Lemma op_sh_mem k Z i : mem (op_sh k Z) i = (k <=? i) && mem Z (i - k).
Proof.
  apply Bool.eq_iff_eq_true. rewrite andb_true_iff, Nat.leb_le, !mem_In. apply op_sh_In.
Qed.

Lemma op_down_In k Z j : In j (op_down k Z) <-> In (k + j) Z.
Proof.
  unfold op_down, op_hi. rewrite in_map_iff. split.
  - intros (i & <- & Hi). apply filter_In in Hi as [Hi Hk]. apply Nat.leb_le in Hk.
    replace (k + (i - k)) with i by lia. exact Hi.
  - intros H. exists (k + j). split; [lia|]. apply filter_In. split; [exact H|apply Nat.leb_le; lia].
Qed.

Lemma op_down_mem k Z j : mem (op_down k Z) j = mem Z (k + j).
Proof. apply Bool.eq_iff_eq_true. rewrite !mem_In. apply op_down_In. Qed.

Lemma op_hi_mem k Z i : mem (op_hi k Z) i = mem Z i && (k <=? i).
Proof. unfold op_hi. apply mem_filter. Qed.

Lemma op_sh_add k a b : sorted a -> sorted b -> op_sh k (vadd a b) = vadd (op_sh k a) (op_sh k b).
Proof.
  intros Ha Hb. apply sorted_ext; auto using op_sh_sorted, vadd_sorted.
  intros i. rewrite vadd_mem, !op_sh_mem, vadd_mem by auto using op_sh_sorted.
  destruct (k <=? i); reflexivity.
Qed.

Lemma op_sh_down k Z : sorted Z -> op_sh k (op_down k Z) = op_hi k Z.
Proof.
  intros HS. apply sorted_ext; auto using op_sh_sorted, op_down_sorted, op_hi_sorted.
  intros i. rewrite op_sh_mem, op_down_mem, op_hi_mem. destruct (Nat.leb_spec k i) as [H|H]; cbn [andb].
  - replace (k + (i - k)) with i by lia. rewrite andb_true_r. reflexivity.
  - rewrite andb_false_r. reflexivity.
Qed.

Lemma op_down_sh k Z : op_down k (op_sh k Z) = Z.
Proof.
  unfold op_down, op_hi, op_sh. induction Z as [|x Z IH]; [reflexivity|].
  cbn [map filter]. destruct (Nat.leb_spec k (k + x)) as [_|H]; [|lia]. cbn [map]. rewrite IH. f_equal. lia.
Qed.

Lemma op_split_lo_hi k Z : sorted Z -> Z = vadd (res k Z) (op_hi k Z).
Proof.
  intros HS. apply sorted_ext; auto using vadd_sorted, res_sorted, op_hi_sorted.
  intros i. rewrite vadd_mem, res_mem, op_hi_mem by auto using res_sorted, op_hi_sorted.
  destruct (mem Z i); cbn [andb]; [|reflexivity].
  destruct (Nat.ltb_spec i k), (Nat.leb_spec k i); try lia; reflexivity.
Qed.

Lemma op_res_sh k Z : res k (op_sh k Z) = [].
Proof.
  unfold res, op_sh. induction Z as [|x Z IH]; [reflexivity|]. cbn [map filter].
  destruct (Nat.ltb_spec (k + x) k); [lia|exact IH].
Qed.

Lemma op_hi_bounded_nil k Z : (forall e, In e Z -> e < k) -> op_hi k Z = [].
Proof.
  intros HB. unfold op_hi. induction Z as [|x Z IH]; [reflexivity|]. cbn [filter].
  destruct (Nat.leb_spec k x) as [H|H].
  - specialize (HB x (or_introl eq_refl)). lia.
  - apply IH. intros e He. apply HB. right. exact He.
Qed.

Lemma op_res_bounded_id k Z : (forall e, In e Z -> e < k) -> res k Z = Z.
Proof. intros HB. apply res_id. unfold bounded. rewrite Forall_forall. exact HB. Qed.

(* partition of a count by a predicate *)
Lemma op_filter_split_length (f : nat -> bool) k Z :
  length (filter f Z) = length (filter f (res k Z)) + length (filter f (op_hi k Z)).
Proof.
  unfold res, op_hi. induction Z as [|x Z IH]; [reflexivity|]. cbn [filter].
  destruct (Nat.ltb_spec x k), (Nat.leb_spec k x); try lia; cbn [filter]; destruct (f x); cbn [length]; lia.
Qed.

Lemma op_filter_none_length {A} (f : A -> bool) l : (forall x, In x l -> f x = false) -> length (filter f l) = 0.
Proof.
  induction l as [|x l IH]; intros H; [reflexivity|]. cbn [filter]. rewrite (H x) by (left; reflexivity).
  apply IH. intros y Hy. apply H. right. exact Hy.
Qed.

(* ---- moving a simple cycle along a vertex map and an edge map ------------------------------------------------- *)

Definition op_mapw2 (rho phi : nat -> nat) (p : list (nat * nat)) : list (nat * nat) :=
  map (fun ey => (rho (fst ey), phi (snd ey))) p.

Lemma op_mapw2_edges rho phi p : wedges (op_mapw2 rho phi p) = map rho (wedges p).
Proof. unfold wedges, op_mapw2. rewrite !map_map. reflexivity. Qed.

Lemma op_mapw2_verts rho phi p : wverts (op_mapw2 rho phi p) = map phi (wverts p).
Proof. unfold wverts, op_mapw2. rewrite !map_map. reflexivity. Qed.

Lemma op_walk_map2 (rho phi : nat -> nat) g g' x p z :
  (forall e a b, In e (wedges p) -> joins g e a b -> joins g' (rho e) (phi a) (phi b)) ->
  phi z < nv g' -> walk g x p z -> walk g' (phi x) (op_mapw2 rho phi p) (phi z).
Proof.
  intros Hj Hz Hw. induction Hw as [x Hx|x e y p z Hxy Hw IH].
  - constructor. exact Hz.
  - cbn [op_mapw2 map fst snd]. econstructor.
    + apply Hj; [left; reflexivity|exact Hxy].
    + apply IH; [|exact Hz]. intros e' a b He'. apply Hj. right. exact He'.
Qed.

Lemma op_simple_cycle_map2 (rho phi : nat -> nat) g g' C C' :
  (forall e a b, In e C -> joins g e a b -> joins g' (rho e) (phi a) (phi b) /\ phi a < nv g') ->
  (forall e e' a b a' b', In e C -> In e' C -> joins g e a b -> joins g e' a' b' -> phi a = phi a' -> a = a') ->
  (forall e e', In e C -> In e' C -> rho e = rho e' -> e = e') ->
  sorted C' -> (forall i, In i C' <-> exists e, In e C /\ rho e = i) ->
  simple_cycle g C -> simple_cycle g' C'.
Proof.
  intros Hj Hinj Hrinj HS' HC' (Hne & HS & x & p & Hw & Hnde & Hndv & HE).
  assert (Hp : p <> []).
  { intros ->. destruct C as [|c C]; [congruence|]. destruct (HE c) as [H _]. apply H. left; reflexivity. }
  split; [|split; [exact HS'|]].
  - destruct C as [|c C]; [congruence|]. intros E.
    assert (Hin : In (rho c) C') by (apply HC'; exists c; split; [left; reflexivity|reflexivity]).
    rewrite E in Hin. destruct Hin.
  - exists (phi x), (op_mapw2 rho phi p). rewrite op_mapw2_edges, op_mapw2_verts.
    assert (Hx : phi x < nv g').
    { destruct (op_walk_first g x p x Hw Hp) as (e & y & He & Hxy).
      apply (Hj e x y); [apply HE; exact He|exact Hxy]. }
    split; [|split; [|split]].
    + apply (op_walk_map2 rho phi g g' x p x); [|exact Hx|exact Hw].
      intros e a b He Hab. apply (Hj e a b); [apply HE; exact He|exact Hab].
    + apply op_NoDup_map_inj; [|exact Hnde]. intros a b Ha Hb. apply Hrinj; apply HE; assumption.
    + apply op_NoDup_map_inj; [|exact Hndv]. intros a b Ha Hb Hab.
      destruct (op_walk_verts_endpoint g x p x Hw a Ha) as (e & a2 & He & Hea).
      destruct (op_walk_verts_endpoint g x p x Hw b Hb) as (e' & b2 & He' & Heb).
      apply (Hinj e e' a a2 b b2); auto; apply HE; assumption.
    + intros i. rewrite HC', in_map_iff. split; intros (e & H1 & H2).
      * exists e. split; [exact H2|apply HE; exact H1].
      * exists e. split; [apply HE; exact H2|exact H1].
Qed.

(* ---- masks restricted to / extended from a sub-family ------------------------------------------------------------ *)

Fixpoint op_sel (c : vec -> bool) (m : list bool) (B : list vec) : list bool :=
  match m, B with
  | b :: m', C :: B' => if c C then b :: op_sel c m' B' else op_sel c m' B'
  | _, _ => []
  end.

Fixpoint op_ext (c : vec -> bool) (mc : list bool) (B : list vec) : list bool :=
  match B with
  | [] => []
  | C :: B' =>
      if c C then match mc with
                  | b :: mc' => b :: op_ext c mc' B'
                  | [] => false :: op_ext c [] B'
                  end
      else false :: op_ext c mc B'
  end.

Definition op_not (c : vec -> bool) (C : vec) : bool := negb (c C).

Lemma op_sel_length c : forall m B, length m = length B -> length (op_sel c m B) = length (filter c B).
Proof.
  induction m as [|b m IH]; intros B Hl; destruct B as [|C B]; try discriminate; [reflexivity|].
  injection Hl as Hl. cbn [op_sel filter]. destruct (c C); cbn [length]; rewrite IH by exact Hl; reflexivity.
Qed.

Lemma op_Forall_filter {A} (P : A -> Prop) (f : A -> bool) l : Forall P l -> Forall P (filter f l).
Proof. rewrite !Forall_forall. intros H x Hx. apply filter_In in Hx as [Hx _]. apply H. exact Hx. Qed.

Lemma op_comb_split c : forall m B, Forall sorted B ->
  comb m B = vadd (comb (op_sel c m B) (filter c B)) (comb (op_sel (op_not c) m B) (filter (op_not c) B)).
Proof.
  induction m as [|b m IH]; intros B HB; [destruct B; reflexivity|].
  destruct B as [|C B]; [reflexivity|]. inversion HB as [|? ? HC HB']; subst.
  pose proof (comb_sorted (op_sel c m B) _ (op_Forall_filter sorted c B HB')) as S1.
  pose proof (comb_sorted (op_sel (op_not c) m B) _ (op_Forall_filter sorted (op_not c) B HB')) as S2.
  assert (En : op_not c C = negb (c C)) by reflexivity.
  cbn [op_sel filter]. rewrite En. destruct (c C); cbn [negb comb]; rewrite (IH B HB'); destruct b; try reflexivity; vext.
Qed.

Lemma op_ext_length c : forall B mc, length (op_ext c mc B) = length B.
Proof.
  induction B as [|C B IH]; intros mc; [reflexivity|]. cbn [op_ext].
  destruct (c C); [destruct mc|]; cbn [length]; rewrite IH; reflexivity.
Qed.

Lemma op_sel_ext c : forall B mc, length mc = length (filter c B) -> op_sel c (op_ext c mc B) B = mc.
Proof.
  induction B as [|C B IH]; intros mc Hl; cbn [filter] in Hl.
  - destruct mc; [reflexivity|discriminate].
  - cbn [op_ext]. destruct (c C) eqn:E.
    + destruct mc as [|b mc]; [discriminate|]. injection Hl as Hl. cbn [op_sel]. rewrite E, IH by exact Hl. reflexivity.
    + cbn [op_sel]. rewrite E. apply IH. exact Hl.
Qed.

Lemma op_sel_ext_neg c : forall B mc, forallb negb (op_sel (op_not c) (op_ext c mc B) B) = true.
Proof.
  induction B as [|C B IH]; intros mc; [reflexivity|]. cbn [op_ext].
  assert (En : op_not c C = negb (c C)) by reflexivity.
  destruct (c C) eqn:E.
  - destruct mc as [|b mc]; cbn [op_sel]; rewrite En; cbn [negb]; apply IH.
  - cbn [op_sel]. rewrite En. cbn [negb forallb andb]. apply IH.
Qed.

Lemma op_ext_allfalse c : forall B mc, length mc = length (filter c B) ->
  forallb negb (op_ext c mc B) = true -> forallb negb mc = true.
Proof.
  induction B as [|C B IH]; intros mc Hl H; cbn [filter] in Hl.
  - destruct mc; [reflexivity|discriminate].
  - cbn [op_ext] in H. destruct (c C).
    + destruct mc as [|b mc]; [discriminate|]. injection Hl as Hl. cbn [forallb] in *.
      apply andb_true_iff in H as [H1 H2]. rewrite H1. cbn [andb]. apply IH; assumption.
    + cbn [forallb negb andb] in H. apply IH; assumption.
Qed.

Lemma op_indep_filter c B : Forall sorted B -> indep B -> indep (filter c B).
Proof.
  intros HB Hi mc Hl Hc. apply (op_ext_allfalse c B mc Hl). apply Hi; [apply op_ext_length|].
  rewrite (op_comb_split c _ B HB), op_sel_ext by exact Hl. rewrite Hc.
  rewrite (comb_allfalse _ _ (op_sel_ext_neg c B mc)). reflexivity.
Qed.

Lemma op_comb_sh k m : forall B, Forall sorted B -> comb m (map (op_sh k) B) = op_sh k (comb m B).
Proof.
  induction m as [|b m IH]; intros B HB; [reflexivity|]. destruct B as [|C B]; [reflexivity|].
  inversion HB as [|? ? HC HB']; subst. cbn [map comb]. rewrite IH by exact HB'.
  destruct b; [|reflexivity]. symmetry. apply op_sh_add; auto using comb_sorted.
Qed.

Lemma op_sh_nil_inv k Z : op_sh k Z = [] -> Z = [].
Proof. destruct Z; [reflexivity|discriminate]. Qed.

Lemma op_sh_inj k a b : op_sh k a = op_sh k b -> a = b.
Proof. intros E. rewrite <- (op_down_sh k a), <- (op_down_sh k b), E. reflexivity. Qed.

Lemma op_hi_id k Z : (forall e, In e Z -> k <= e) -> op_hi k Z = Z.
Proof.
  intros HB. unfold op_hi. induction Z as [|x Z IH]; [reflexivity|]. cbn [filter].
  destruct (Nat.leb_spec k x) as [H|H].
  - f_equal. apply IH. intros e He. apply HB. right. exact He.
  - specialize (HB x (or_introl eq_refl)). lia.
Qed.

Lemma op_simple_cycles_sorted g B : Forall (simple_cycle g) B -> Forall sorted B.
Proof. apply Forall_impl. intros C HC. apply HC. Qed.

Lemma op_total_weight_app w A B : total_weight w (A ++ B) = (total_weight w A + total_weight w B)%Z.
Proof.
  induction A as [|C A IH]; unfold total_weight in *; cbn [app map fold_right]; [reflexivity|]. rewrite IH. lia.
Qed.

(* ---- the graph U = g ⊎ h ---------------------------------------------------------------------------------------- *)

Section Union.
  Variables g h : graph.
  Hypothesis Hsg : simple_graph g.
  Hypothesis Hsh : simple_graph h.

  Let U := disjoint_union g h.
  Let ng := nv g.
  Let mg := ne g.

  Definition op_shp (st : nat * nat) : nat * nat := (nv g + fst st, nv g + snd st).

  Lemma op_union_ne : ne U = ne g + ne h.
  Proof. unfold ne, U, disjoint_union. cbn [ge]. rewrite app_length, map_length. reflexivity. Qed.

  Lemma op_union_ends_lo e : e < ne g -> ends U e = ends g e.
  Proof. intros He. unfold ends, U, disjoint_union. cbn [ge]. apply nth_error_app1. exact He. Qed.

  Lemma op_union_ends_hi e : ends U (ne g + e) = option_map op_shp (ends h e).
  Proof.
    unfold ends, U, disjoint_union. cbn [ge]. rewrite nth_error_app2 by (unfold ne; lia).
    replace (ne g + e - length (ge g)) with e by (unfold ne; lia). apply nth_error_map.
  Qed.

  Lemma op_union_joins_lo e a b : e < ne g -> (joins U e a b <-> joins g e a b).
  Proof. intros He. unfold joins. rewrite op_union_ends_lo by exact He. reflexivity. Qed.

  Lemma op_union_joins_hi e a b : joins h e a b -> joins U (ne g + e) (nv g + a) (nv g + b).
  Proof.
    unfold joins. rewrite op_union_ends_hi. intros [H|H]; rewrite H; cbn [option_map op_shp fst snd]; auto.
  Qed.

  (* an edge of U is an edge of g (both ends below nv g) or a shifted edge of h (both ends from nv g on) *)
  Lemma op_union_joins_cases e a b : joins U e a b ->
    (e < ne g /\ joins g e a b /\ a < nv g /\ b < nv g) \/
    (ne g <= e /\ nv g <= a /\ nv g <= b /\ joins h (e - ne g) (a - nv g) (b - nv g)).
  Proof.
    intros Hj. destruct (Nat.lt_ge_cases e (ne g)) as [He|He].
    - left. apply op_union_joins_lo in Hj; [|exact He]. split; [exact He|]. split; [exact Hj|].
      destruct (gl_simple_joins g e a b Hsg Hj) as (Ha & Hb & _). split; assumption.
    - right. replace e with (ne g + (e - ne g)) in Hj by lia. unfold joins in Hj.
      rewrite op_union_ends_hi in Hj. unfold joins.
      destruct (ends h (e - ne g)) as [[s t]|]; cbn [option_map op_shp fst snd] in Hj; [|destruct Hj; discriminate].
      destruct Hj as [Hj|Hj]; inversion Hj; subst a b; replace (nv g + s - nv g) with s by lia;
        replace (nv g + t - nv g) with t by lia; repeat split; auto; lia.
  Qed.

  Lemma op_union_incident_lo e v : e < ne g -> incident U e v = incident g e v.
  Proof. intros He. unfold incident. rewrite op_union_ends_lo by exact He. reflexivity. Qed.

  Lemma op_union_incident_lo_high e v : e < ne g -> nv g <= v -> incident U e v = false.
  Proof.
    intros He Hv. rewrite op_union_incident_lo by exact He.
    apply op_incident_out_of_range; [apply op_simple_ends_in_range; exact Hsg|exact Hv].
  Qed.

  Lemma op_union_incident_hi e v : incident U (ne g + e) (nv g + v) = incident h e v.
  Proof.
    unfold incident. rewrite op_union_ends_hi. destruct (ends h e) as [[s t]|]; [|reflexivity].
    cbn [option_map op_shp fst snd].
    f_equal; [destruct (Nat.eqb_spec s v), (Nat.eqb_spec (nv g + s) (nv g + v))|
              destruct (Nat.eqb_spec t v), (Nat.eqb_spec (nv g + t) (nv g + v))]; try reflexivity; lia.
  Qed.

  Lemma op_union_incident_hi_low e v : v < nv g -> incident U (ne g + e) v = false.
  Proof.
    intros Hv. unfold incident. rewrite op_union_ends_hi. destruct (ends h e) as [[s t]|]; [|reflexivity].
    cbn [option_map op_shp fst snd].
    destruct (Nat.eqb_spec (nv g + s) v); [lia|]. destruct (Nat.eqb_spec (nv g + t) v); [lia|]. reflexivity.
  Qed.

  (* ---- the cycle space of U --------------------------------------------------------------------------------- *)

  Lemma op_union_deg_lo Z v : v < nv g -> deg_in U Z v = deg_in g (res (ne g) Z) v.
  Proof.
    intros Hv. unfold deg_in. rewrite (op_filter_split_length _ (ne g) Z).
    rewrite (op_filter_none_length _ (op_hi (ne g) Z)).
    - rewrite Nat.add_0_r. f_equal. apply filter_ext_in. intros e He.
      apply filter_In in He as [_ He]. apply Nat.ltb_lt in He. apply op_union_incident_lo. exact He.
    - intros e He. apply filter_In in He as [_ He]. apply Nat.leb_le in He.
      replace e with (ne g + (e - ne g)) by lia. apply op_union_incident_hi_low. exact Hv.
  Qed.

  Lemma op_union_deg_hi Z v : deg_in U Z (nv g + v) = deg_in h (op_down (ne g) Z) v.
  Proof.
    unfold deg_in. rewrite (op_filter_split_length _ (ne g) Z).
    rewrite (op_filter_none_length _ (res (ne g) Z)).
    - cbn [plus]. unfold op_down. rewrite op_filter_map_length.
      f_equal. apply filter_ext_in. intros e He. apply filter_In in He as [_ He]. apply Nat.leb_le in He.
      replace e with (ne g + (e - ne g)) at 1 by lia. apply op_union_incident_hi.
    - intros e He. apply filter_In in He as [_ He]. apply Nat.ltb_lt in He.
      apply op_union_incident_lo_high; [exact He|lia].
  Qed.

  Lemma op_union_cs_lo Z : in_cycle_space U Z -> in_cycle_space g (res (ne g) Z).
  Proof.
    intros (HS & HB & HE). split; [apply res_sorted; exact HS|]. split.
    - intros e He. apply filter_In in He as [_ He]. apply Nat.ltb_lt in He. exact He.
    - intros v. destruct (Nat.lt_ge_cases v (nv g)) as [Hv|Hv].
      + rewrite <- op_union_deg_lo by exact Hv. apply HE.
      + rewrite op_deg_in_out_of_range; [reflexivity|apply op_simple_ends_in_range; exact Hsg|exact Hv].
  Qed.

  Lemma op_union_cs_hi Z : in_cycle_space U Z -> in_cycle_space h (op_down (ne g) Z).
  Proof.
    intros (HS & HB & HE). split; [apply op_down_sorted; exact HS|]. split.
    - intros j Hj. apply op_down_In in Hj. specialize (HB _ Hj). rewrite op_union_ne in HB. lia.
    - intros v. rewrite <- op_union_deg_hi. apply HE.
  Qed.

  Lemma op_union_cs_from_lo A : in_cycle_space g A -> in_cycle_space U A.
  Proof.
    apply op_in_cycle_space_id.
    - intros e _ He. rewrite op_union_ne. lia.
    - intros e v _ He. apply op_union_incident_lo. exact He.
  Qed.

  Lemma op_union_cs_from_hi D : in_cycle_space h D -> in_cycle_space U (op_sh (ne g) D).
  Proof.
    intros (HS & HB & HE). split; [apply op_sh_sorted; exact HS|]. split.
    - intros i Hi. apply op_sh_In in Hi as [Hk Hi]. specialize (HB _ Hi). rewrite op_union_ne. lia.
    - intros v. destruct (Nat.lt_ge_cases v (nv g)) as [Hv|Hv].
      + rewrite op_union_deg_lo by exact Hv. rewrite op_res_sh. reflexivity.
      + replace v with (nv g + (v - nv g)) by lia. rewrite op_union_deg_hi, op_down_sh. apply HE.
  Qed.

  (* ---- the simple cycles of U ------------------------------------------------------------------------------- *)

  Lemma op_union_sc_from_lo C : simple_cycle g C -> simple_cycle U C.
  Proof.
    apply op_simple_cycle_id. intros e a b _ Hab.
    assert (He : e < ne g) by (eapply gl_joins_lt; eauto).
    split; [apply op_union_joins_lo; assumption|].
    destruct (gl_simple_joins g e a b Hsg Hab) as (Ha & _). unfold U, disjoint_union. cbn [nv]. lia.
  Qed.

  Lemma op_union_sc_from_hi D : simple_cycle h D -> simple_cycle U (op_sh (ne g) D).
  Proof.
    intros HD. apply (op_simple_cycle_map2 (Nat.add (ne g)) (Nat.add (nv g)) h U D); [| | | | |exact HD].
    - intros e a b _ Hab. split; [apply op_union_joins_hi; exact Hab|].
      destruct (gl_simple_joins h e a b Hsh Hab) as (Ha & _). unfold U, disjoint_union. cbn [nv]. lia.
    - intros; lia.
    - intros; lia.
    - apply op_sh_sorted. apply HD.
    - intros i. unfold op_sh. rewrite in_map_iff. split; intros (e & H1 & H2); exists e; auto.
  Qed.

  Lemma op_union_walk_lo x p z : walk U x p z -> x < nv g -> forall e, In e (wedges p) -> e < ne g.
  Proof.
    induction 1 as [x Hx|x e y p z Hxy Hw IH]; intros Hlt e' He'; [destruct He'|].
    destruct (op_union_joins_cases e x y Hxy) as [(He & _ & _ & Hy)|(_ & Hge & _)]; [|lia].
    destruct He' as [<-|He']; [exact He|]. apply IH; assumption.
  Qed.

  Lemma op_union_walk_hi x p z : walk U x p z -> nv g <= x -> forall e, In e (wedges p) -> ne g <= e.
  Proof.
    induction 1 as [x Hx|x e y p z Hxy Hw IH]; intros Hge e' He'; [destruct He'|].
    destruct (op_union_joins_cases e x y Hxy) as [(_ & _ & Hlt & _)|(He & _ & Hy & _)]; [lia|].
    destruct He' as [<-|He']; [exact He|]. apply IH; assumption.
  Qed.

  Lemma op_union_sc_cases C : simple_cycle U C ->
    (simple_cycle g C /\ forall e, In e C -> e < ne g) \/
    (simple_cycle h (op_down (ne g) C) /\ forall e, In e C -> ne g <= e).
  Proof.
    intros HC. pose proof HC as (_ & HS & x & p & Hw & _ & _ & HE).
    destruct (Nat.lt_ge_cases x (nv g)) as [Hx|Hx].
    - left. assert (HB : forall e, In e C -> e < ne g).
      { intros e He. apply (op_union_walk_lo x p x Hw Hx). apply HE. exact He. }
      split; [|exact HB]. revert HC. apply op_simple_cycle_id. intros e a b He Hab.
      apply op_union_joins_lo in Hab; [|apply HB; exact He]. split; [exact Hab|].
      apply (gl_simple_joins g e a b Hsg Hab).
    - right. assert (HB : forall e, In e C -> ne g <= e).
      { intros e He. apply (op_union_walk_hi x p x Hw Hx). apply HE. exact He. }
      split; [|exact HB].
      apply (op_simple_cycle_map2 (fun e => e - ne g) (fun v => v - nv g) U h C); [| | | | |exact HC].
      + intros e a b He Hab. specialize (HB e He).
        destruct (op_union_joins_cases e a b Hab) as [(Hlt & _)|(_ & Ha & Hb & Hj)]; [lia|].
        split; [exact Hj|]. apply (gl_simple_joins h _ _ _ Hsh Hj).
      + intros e e' a b a' b' He He' Hab Hab' E.
        pose proof (HB e He). pose proof (HB e' He').
        destruct (op_union_joins_cases e a b Hab) as [(Hlt & _)|(_ & Ha & _)]; [lia|].
        destruct (op_union_joins_cases e' a' b' Hab') as [(Hlt & _)|(_ & Ha' & _)]; [lia|]. lia.
      + intros e e' He He' E. pose proof (HB e He). pose proof (HB e' He'). lia.
      + apply op_down_sorted. exact HS.
      + intros j. rewrite op_down_In. split.
        * intros Hj. exists (ne g + j). split; [exact Hj|lia].
        * intros (e & He & <-). pose proof (HB e He). replace (ne g + (e - ne g)) with e by lia. exact He.
  Qed.

  (* ---- a basis of g followed by a shifted basis of h is a basis of U --------------------------------------------- *)

  Lemma op_cs_bounded gg Z : in_cycle_space gg Z -> forall e, In e Z -> e < ne gg.
  Proof. intros (_ & HB & _). exact HB. Qed.

  Lemma op_union_basis Bg Bh : cycle_basis g Bg -> cycle_basis h Bh ->
    cycle_basis U (Bg ++ map (op_sh (ne g)) Bh).
  Proof.
    intros (HBg & Hig & Hspg) (HBh & Hih & Hsph).
    pose proof (op_simple_cycles_sorted g Bg HBg) as HSg. pose proof (op_simple_cycles_sorted h Bh HBh) as HSh.
    assert (HSh' : Forall sorted (map (op_sh (ne g)) Bh)).
    { rewrite Forall_forall in *. intros C HC. apply in_map_iff in HC as (D & <- & HD). apply op_sh_sorted, HSh, HD. }
    assert (HVg : Forall (in_cycle_space g) Bg).
    { eapply Forall_impl; [|exact HBg]. intros C HC. apply simple_cycle_in_cycle_space; assumption. }
    split; [|split].
    - apply Forall_app. split.
      + eapply Forall_impl; [|exact HBg]. exact op_union_sc_from_lo.
      + rewrite Forall_forall in *. intros C HC. apply in_map_iff in HC as (D & <- & HD).
        apply op_union_sc_from_hi, HBh, HD.
    - intros m Hl Hc. rewrite app_length, map_length in Hl.
      rewrite <- (firstn_skipn (length Bg) m) in Hc |- *.
      assert (Hl1 : length (firstn (length Bg) m) = length Bg) by (rewrite firstn_length; lia).
      assert (Hl2 : length (skipn (length Bg) m) = length Bh) by (rewrite skipn_length; lia).
      rewrite comb_app in Hc by assumption. rewrite op_comb_sh in Hc by exact HSh.
      pose proof (comb_sorted (firstn (length Bg) m) Bg HSg) as SX.
      pose proof (comb_sorted (skipn (length Bg) m) Bh HSh) as SY.
      apply vadd_eq_nil in Hc; [|exact SX|apply op_sh_sorted; exact SY].
      assert (HX : comb (firstn (length Bg) m) Bg = []).
      { destruct (comb (firstn (length Bg) m) Bg) as [|i X] eqn:EX; [reflexivity|exfalso].
        assert (Hi1 : i < ne g).
        { apply (op_cs_bounded g (i :: X)); [rewrite <- EX; apply op_comb_cs; exact HVg|left; reflexivity]. }
        assert (Hi2 : In i (op_sh (ne g) (comb (skipn (length Bg) m) Bh))) by (rewrite <- Hc; left; reflexivity).
        apply op_sh_In in Hi2 as [Hi2 _]. lia. }
      rewrite HX in Hc. symmetry in Hc. apply op_sh_nil_inv in Hc.
      rewrite forallb_app. rewrite (Hig _ Hl1 HX), (Hih _ Hl2 Hc). reflexivity.
    - intros Z HZ. pose proof HZ as (HS & _).
      destruct (Hspg _ (op_union_cs_lo Z HZ)) as (m1 & Hl1 & Hm1).
      destruct (Hsph _ (op_union_cs_hi Z HZ)) as (m2 & Hl2 & Hm2).
      exists (m1 ++ m2). split; [rewrite !app_length, map_length; lia|].
      rewrite comb_app by assumption. rewrite op_comb_sh by exact HSh.
      rewrite Hm1, Hm2, op_sh_down by exact HS. symmetry. apply op_split_lo_hi. exact HS.
  Qed.

  (* ---- the two sides of a basis of U -------------------------------------------------------------------------------- *)

  (* which side a non-empty canonical edge set starts on *)
  Definition op_lo_side (C : vec) : bool := match C with [] => true | e :: _ => e <? ne g end.

  Lemma op_union_side C : simple_cycle U C ->
    (op_lo_side C = true /\ simple_cycle g C /\ (forall e, In e C -> e < ne g)) \/
    (op_lo_side C = false /\ simple_cycle h (op_down (ne g) C) /\ (forall e, In e C -> ne g <= e)).
  Proof.
    intros HC. pose proof HC as (Hne & _). destruct C as [|c C]; [congruence|].
    destruct (op_union_sc_cases _ HC) as [(H1 & H2)|(H1 & H2)]; [left|right]; (split; [|split; assumption]);
      cbn [op_lo_side]; specialize (H2 c (or_introl eq_refl)).
    - apply Nat.ltb_lt. exact H2.
    - apply Nat.ltb_ge. exact H2.
  Qed.

  Lemma op_union_sides B' : cycle_basis U B' ->
    cycle_basis g (filter op_lo_side B') /\
    cycle_basis h (map (op_down (ne g)) (filter (op_not op_lo_side) B')).
  Proof.
    intros (HB & Hi & Hsp). pose proof (op_simple_cycles_sorted U B' HB) as HS.
    set (BG := filter op_lo_side B'). set (BHs := filter (op_not op_lo_side) B').
    assert (HG : forall C, In C BG -> simple_cycle g C /\ (forall e, In e C -> e < ne g)).
    { intros C HC. apply filter_In in HC as [HC Hc]. rewrite Forall_forall in HB.
      destruct (op_union_side C (HB C HC)) as [(_ & H1 & H2)|(Hc' & _)]; [auto|congruence]. }
    assert (HH : forall C, In C BHs -> simple_cycle h (op_down (ne g) C) /\ op_sh (ne g) (op_down (ne g) C) = C).
    { intros C HC. apply filter_In in HC as [HC Hc]. unfold op_not in Hc. apply negb_true_iff in Hc.
      rewrite Forall_forall in HB.
      destruct (op_union_side C (HB C HC)) as [(Hc' & _)|(_ & H1 & H2)]; [congruence|].
      split; [exact H1|]. rewrite op_sh_down by (apply (HB C HC)). apply op_hi_id. exact H2. }
    assert (EH : map (op_sh (ne g)) (map (op_down (ne g)) BHs) = BHs).
    { rewrite map_map. rewrite <- (map_id BHs) at 2. apply map_ext_in. intros C HC. apply (HH C HC). }
    assert (HSG : Forall sorted BG) by (apply op_Forall_filter; exact HS).
    assert (HSH : Forall sorted (map (op_down (ne g)) BHs)).
    { rewrite Forall_forall. intros D HD. apply in_map_iff in HD as (C & <- & HC). apply (HH C HC). }
    assert (HBG : Forall (bounded (ne g)) BG).
    { rewrite Forall_forall. intros C HC. unfold bounded. rewrite Forall_forall. apply (HG C HC). }
    (* a combination of B' splits into its two sides *)
    assert (Hsplit : forall m, length m = length B' ->
              comb m B' = vadd (comb (op_sel op_lo_side m B') BG)
                               (op_sh (ne g) (comb (op_sel (op_not op_lo_side) m B') (map (op_down (ne g)) BHs)))).
    { intros m Hl. rewrite (op_comb_split op_lo_side m B' HS). fold BG BHs. f_equal.
      rewrite <- op_comb_sh by exact HSH. rewrite EH. reflexivity. }
    split; split; [|split| |split].
    - rewrite Forall_forall. intros C HC. apply (HG C HC).
    - apply op_indep_filter; assumption.
    - intros Z HZ. destruct (Hsp Z (op_union_cs_from_lo Z HZ)) as (m & Hl & Hm).
      exists (op_sel op_lo_side m B'). split; [apply op_sel_length; exact Hl|].
      rewrite (Hsplit m Hl) in Hm.
      pose proof (comb_sorted (op_sel op_lo_side m B') BG HSG) as SX.
      pose proof (comb_sorted (op_sel (op_not op_lo_side) m B') _ HSH) as SY.
      assert (E : res (ne g) Z = Z) by (apply op_res_bounded_id; apply (op_cs_bounded g Z HZ)).
      rewrite <- E, <- Hm. rewrite res_add by (auto using op_sh_sorted). rewrite op_res_sh, vadd_nil_r.
      symmetry. apply res_id. apply comb_bounded; assumption.
    - rewrite Forall_forall. intros D HD. apply in_map_iff in HD as (C & <- & HC). apply (HH C HC).
    - intros m Hl Hc. rewrite map_length in Hl.
      apply (op_indep_filter (op_not op_lo_side) B' HS Hi m Hl). fold BHs.
      rewrite <- EH, op_comb_sh by exact HSH. rewrite Hc. reflexivity.
    - intros D HD. destruct (Hsp _ (op_union_cs_from_hi D HD)) as (m & Hl & Hm).
      exists (op_sel (op_not op_lo_side) m B'). split.
      + rewrite map_length. apply op_sel_length. exact Hl.
      + rewrite (Hsplit m Hl) in Hm.
        pose proof (comb_sorted (op_sel op_lo_side m B') BG HSG) as SX.
        pose proof (comb_sorted (op_sel (op_not op_lo_side) m B') _ HSH) as SY.
        assert (EX : comb (op_sel op_lo_side m B') BG = []).
        { assert (E : res (ne g) (op_sh (ne g) D) = []) by apply op_res_sh.
          rewrite <- Hm in E. rewrite res_add in E by (auto using op_sh_sorted).
          rewrite op_res_sh, vadd_nil_r in E. rewrite res_id in E; [exact E|]. apply comb_bounded; assumption. }
        rewrite EX, vadd_nil_l in Hm. apply op_sh_inj in Hm. exact Hm.
  Qed.

  (* ---- weights ----------------------------------------------------------------------------------------------------- *)

  Variables wg wh : list Z.
  Hypothesis Hlg : length wg = ne g.

  Lemma op_union_weight_lo C : (forall e, In e C -> e < ne g) -> weight (wg ++ wh) C = weight wg C.
  Proof. intros HB. apply op_weight_ext. intros e He. unfold wt. apply app_nth1. rewrite Hlg. apply HB. exact He. Qed.

  Lemma op_union_wt_hi e : wt (wg ++ wh) (ne g + e) = wt wh e.
  Proof. unfold wt. rewrite app_nth2 by lia. f_equal. lia. Qed.

  Lemma op_union_weight_sh D : weight (wg ++ wh) (op_sh (ne g) D) = weight wh D.
  Proof.
    induction D as [|e D IH]; [reflexivity|]. unfold weight, op_sh in *. cbn [map fold_right].
    rewrite IH, op_union_wt_hi. reflexivity.
  Qed.

  Lemma op_union_total_sides B' : Forall (simple_cycle U) B' ->
    total_weight (wg ++ wh) B' =
    (total_weight wg (filter op_lo_side B') + total_weight wh (map (op_down (ne g)) (filter (op_not op_lo_side) B')))%Z.
  Proof.
    induction B' as [|C B' IH]; intros HB; [reflexivity|]. inversion HB as [|? ? HC HB']; subst.
    specialize (IH HB'). cbn [filter]. unfold op_not at 1.
    destruct (op_union_side C HC) as [(Hc & _ & Hb)|(Hc & _ & Hb)]; rewrite Hc; cbn [negb map];
      unfold total_weight in *; cbn [map fold_right]; rewrite IH.
    - rewrite (op_union_weight_lo C Hb). lia.
    - assert (E : op_sh (ne g) (op_down (ne g) C) = C).
      { rewrite op_sh_down by apply HC. apply op_hi_id. exact Hb. }
      rewrite <- E at 1. rewrite op_union_weight_sh. lia.
  Qed.

  Lemma op_is_opt_union x y : is_opt g wg x -> is_opt h wh y -> is_opt U (wg ++ wh) (x + y)%Z.
  Proof.
    intros (Bg & (HBg & Hmg) & <-) (Bh & (HBh & Hmh) & <-).
    exists (Bg ++ map (op_sh (ne g)) Bh). split; [split|].
    - apply op_union_basis; assumption.
    - intros B' HB'. destruct (op_union_sides B' HB') as (HG & HH).
      rewrite (op_union_total_sides B') by apply HB'.
      rewrite op_total_weight_app.
      assert (E1 : total_weight (wg ++ wh) Bg = total_weight wg Bg).
      { apply op_total_weight_ext. intros C e HC He. unfold wt. apply app_nth1. rewrite Hlg.
        destruct HBg as (HF & _). rewrite Forall_forall in HF. eapply op_simple_cycle_edges_lt; eauto. }
      assert (E2 : total_weight (wg ++ wh) (map (op_sh (ne g)) Bh) = total_weight wh Bh).
      { apply op_total_weight_map. intros C _. apply op_union_weight_sh. }
      rewrite E1, E2. pose proof (Hmg _ HG). pose proof (Hmh _ HH). lia.
    - rewrite op_total_weight_app. f_equal.
      + apply op_total_weight_ext. intros C e HC He. unfold wt. apply app_nth1. rewrite Hlg.
        destruct HBg as (HF & _). rewrite Forall_forall in HF. eapply op_simple_cycle_edges_lt; eauto.
      + apply op_total_weight_map. intros C _. apply op_union_weight_sh.
  Qed.
End Union.

Lemma op_is_opt_union_stmt : C08_union_statement.
Proof.
  intros g h wg wh x y Hsg Hsh [Hlg _] _. apply op_is_opt_union; assumption.
Qed.
