(* Properties_C06_trees.v — C06 for the tree-based approximate entry points, PREMISE-FREE
   (approx_mcb_sva_fvs_trees, approx_mcb_sva_iso_trees — both instantiate the FVS functor; model and oracles as in
   Properties_C05_trees.v).  Only statements; each closed by [exact <lemma>] and followed by Print Assumptions.

     C06_k1_fvs_trees      k = 1, every simple graph with positive integer weights, every scan order, every root order and
                           every complete run of greedy_fvs on the spanner: every run of the model whose exact phase is an
                           accepted run of mcb_sva_fvs_trees on the spanner returns ApproxOk, the emitted family is a
                           MINIMUM cycle basis of the caller's graph and the returned value is its weight; such a run exists.
     C06_global_fvs_trees  k >= 1 and a weight-sorted scan order (what std::sort produces): the emitted family is a cycle
                           basis of the caller's graph, returned value = its total weight under the caller's weights,
                           returned value <= (2k-1) * w(B') for EVERY cycle basis B' of the caller's graph, and
                           opt <= returned value <= (2k-1) * opt for the optimum (OptSpec.is_opt); such a run exists.
   k = 0 is rejected for every exact phase: Properties_C06.C06_k0 / C06_k0_never_emits (generic in `exact`).
   The premises of C06_k1_min_modulo_exact / C06_global_any_basis / C06_global_opt (the exact phase returns a minimum cycle
   basis of the spanner with its weight) are discharged by Properties_C02_trees.C02_fvs_trees on the spanner. *)
From Coq Require Import List Arith Bool ZArith Permutation Sorted Lia.
From Parmcb Require Import GraphModel GF2Model GraphSpec McbSpec OptSpec SpannerModel SvaModel FvsModel TreesModel
  ApproxModel ApproxTreesModel ApproxTreesProofs1.
Import ListNotations.

Theorem C06_k1_fvs_trees :
  forall g w scan roots picks,
    simple_graph g -> positive_weights g w -> Permutation scan (seq 0 (ne g)) ->
    (forall v, v < nv g -> In v roots) ->
    (forall sp, construct_spanner g 1 scan = SpOk sp -> exists fvs, greedy_fvs (sp_graph sp) picks = FvsOk fvs) ->
    (forall scycles,
       (forall sp, construct_spanner g 1 scan = SpOk sp ->
          exists t, mcb_sva_trees_accept_Z TbFvs (sp_graph sp) (spanner_weights w sp) roots picks scycles = Some t) ->
       exists cycles total,
         approx_sva_fvs_trees_Z g w 1 scan roots picks scycles = ApproxOk cycles total
         /\ min_cycle_basis g w (map set_of_list cycles) /\ total = total_weight w cycles)
    /\ (exists scycles,
          forall sp, construct_spanner g 1 scan = SpOk sp ->
            exists t, mcb_sva_trees_accept_Z TbFvs (sp_graph sp) (spanner_weights w sp) roots picks scycles = Some t).
Proof. exact at_C06_k1_fvs_trees. Qed.
Print Assumptions C06_k1_fvs_trees.

Theorem C06_global_fvs_trees :
  forall g w k scan roots picks,
    simple_graph g -> positive_weights g w -> 1 <= k -> Permutation scan (seq 0 (ne g)) ->
    Sorted (fun a b => (wt w a <= wt w b)%Z) scan ->
    (forall v, v < nv g -> In v roots) ->
    (forall sp, construct_spanner g k scan = SpOk sp -> exists fvs, greedy_fvs (sp_graph sp) picks = FvsOk fvs) ->
    (forall scycles,
       (forall sp, construct_spanner g k scan = SpOk sp ->
          exists t, mcb_sva_trees_accept_Z TbFvs (sp_graph sp) (spanner_weights w sp) roots picks scycles = Some t) ->
       exists cycles total,
         approx_sva_fvs_trees_Z g w k scan roots picks scycles = ApproxOk cycles total
         /\ cycle_basis g (map set_of_list cycles)
         /\ total = total_weight w cycles
         /\ (forall B', cycle_basis g B' -> (total <= Z.of_nat (2 * k - 1) * total_weight w B')%Z)
         /\ (forall x, is_opt g w x -> (x <= total <= Z.of_nat (2 * k - 1) * x)%Z))
    /\ (exists scycles,
          forall sp, construct_spanner g k scan = SpOk sp ->
            exists t, mcb_sva_trees_accept_Z TbFvs (sp_graph sp) (spanner_weights w sp) roots picks scycles = Some t).
Proof. exact at_C06_global_fvs_trees. Qed.
Print Assumptions C06_global_fvs_trees.

(* non-vacuity of the global guarantee: the graph of C05_fvs_trees_nonvacuous with k = 2 (three edges dropped): the
   hypotheses of C06_global_fvs_trees hold (weight-sorted scan order included), the accepted exact-phase answer is the
   5-cycle, the model returns 24, hence  opt <= 24 <= 3 * opt. *)
Example C06_global_fvs_trees_nonvacuous :
  let g := {| nv := 9; ge := [(0,1); (0,2); (0,3); (1,2); (1,3); (2,3); (3,4);
                               (4,5); (5,6); (6,7); (7,8); (8,4)] |} in
  let w := [1; 1; 2; 2; 2; 3; 1; 1; 1; 1; 1; 5]%Z in
  let scan := [6; 0; 1; 10; 7; 8; 9; 3; 2; 4; 5; 11] in
  let roots := [4; 0; 1; 2; 3; 5; 6; 7; 8] in
  simple_graph g /\ positive_weights g w /\ Permutation scan (seq 0 (ne g))
  /\ Sorted (fun a b => (wt w a <= wt w b)%Z) scan
  /\ (forall v, v < nv g -> In v roots)
  /\ (forall sp, construct_spanner g 2 scan = SpOk sp -> exists fvs, greedy_fvs (sp_graph sp) [4] = FvsOk fvs)
  /\ (forall sp, construct_spanner g 2 scan = SpOk sp ->
        exists t, mcb_sva_trees_accept_Z TbFvs (sp_graph sp) (spanner_weights w sp) roots [4] [[3;4;5;6;8]] = Some t)
  /\ approx_sva_fvs_trees_Z g w 2 scan roots [4] [[3;4;5;6;8]]
     = ApproxOk [[10; 7; 8; 9; 11]; [1; 0; 3]; [2; 0; 4]; [2; 1; 5]] 24%Z
  /\ (forall x, is_opt g w x -> (x <= 24 <= 3 * x)%Z).
Proof.
  cbv zeta.
  match goal with |- ?A /\ ?B /\ ?C /\ ?D /\ ?E /\ ?F /\ ?G /\ ?H /\ ?I =>
    assert (HA : A) by (vm_compute; reflexivity);
    assert (HB : B) by (split; [reflexivity|repeat constructor]);
    assert (HC : C) by (apply SpannerProofs.scan_perm_check; vm_compute; reflexivity);
    assert (HD : D) by (repeat (first [apply Z.leb_le; vm_compute; reflexivity | constructor]));
    assert (HE : E) by (intros v Hv; do 9 (destruct v as [|v]; [cbn [In]; tauto|]); exfalso; cbn [nv] in Hv; lia);
    assert (HF : F);
    [|assert (HG : G); [|assert (HH : H) by (vm_compute; reflexivity)]]
  end.
  - intros sp Hsp.
    match type of Hsp with ?l = _ => eassert (E : l = _) by (vm_compute; reflexivity) end.
    pose proof (eq_trans (eq_sym Hsp) E) as E1. injection E1 as ->. clear Hsp E.
    eexists. vm_compute. reflexivity.
  - intros sp Hsp.
    match type of Hsp with ?l = _ => eassert (E : l = _) by (vm_compute; reflexivity) end.
    pose proof (eq_trans (eq_sym Hsp) E) as E1. injection E1 as ->. clear Hsp E.
    eexists. vm_compute. reflexivity.
  - repeat (split; [assumption|]).
    match type of HH with approx_sva_fvs_trees_Z ?g ?w _ ?scan ?roots ?picks ?sc = _ =>
      destruct (C06_global_fvs_trees g w 2 scan roots picks HA HB (le_S _ _ (le_n 1)) HC HD HE HF) as (Hall & _);
      destruct (Hall sc HG) as (cycles & total & Hrun & _ & _ & _ & Hopt)
    end.
    rewrite HH in Hrun. injection Hrun as <- <-. exact Hopt.
Qed.
