(* TreesProofs4.v — SUFFICIENCY of Horton's collection and of the FVS collection (DESIGN Appendix B7), exact domain:
   for every signed edge set sg and every odd simple cycle D there is a candidate of the collection that is odd w.r.t. sg
   and no heavier than D.

   Proof.  Take a closed walk of D that starts at a root x of the collection (Horton: any vertex of D; FVS: a vertex of D
   in the feedback vertex set — it exists because deleting the set leaves no cycle), x = v_0, v_1, ..., v_r = x, and the
   model's shortest-path tree T at x with tree parities pi(v) = parity of the signed edges on the tree walk of v.
   (a) telescoping: xor over the steps (v_i, e_i, v_i+1) of  pi(v_i) + [e_i signed] + pi(v_i+1)  equals
       pi(x) + pi(x) + parity(D) = 1, so some step has an odd closed walk  Z = T(v_i) + e_i + reversed T(v_i+1);
   (b) weight(Z) = d(v_i) + w(e_i) + d(v_i+1) <= weight(D): tree walks are shortest (C12_dist) and the two parts of D
       before and after the step are walks from x to v_i and (reversed) from x to v_i+1;
   (c) e_i is not a tree edge (else Z would use every edge twice: even).  If first(v_i) <> first(v_i+1), then
       (x, e_i) IS a candidate of create_candidate_cycles, its cycle is Z: odd, weight <= weight(D).  Otherwise both
       tree walks start with the same edge; dropping it twice leaves an odd closed walk that is STRICTLY lighter,
       the shortcut lemma (RefProofs1) extracts from it an odd simple cycle D' with weight(D') < weight(D), and the
       claim follows for D' by induction on the weight (instead of choosing D minimum up front).
   Prefix ts_. *)
From Coq Require Import List Arith Bool Lia ZArith Permutation.
From Parmcb Require Import GraphModel GraphSpec GraphLemmas GF2Model GF2Proofs HeapModel LexSPModel LexSPProofsHeap
     LexSPProofs LexSPProofsDist FvsModel FvsProofs CandidatesModel CandidatesProofs CandidatesProofsZ DePinaProofs
     RefModel RefProofs1 RefProofs2 RefProofs4 RefProofs5 TreesModel TreesProofs1 TreesProofs2 TreesProofs3.
Import ListNotations.

(* ---- (a) telescoping along a walk ------------------------------------------------------------------------------- *)
Lemma ts_step_exists g sg (pi : nat -> bool) : simple_graph g -> forall p y z, walk g y p z ->
  xorb (xorb (pi y) (pi z)) (oddb sg (wedges p)) = true ->
  exists p1 e a b p2, p = p1 ++ (e, b) :: p2 /\ walk g y p1 a /\ joins g e a b /\ walk g b p2 z /\
                      xorb (xorb (pi a) (memb e sg)) (pi b) = true.
Proof.
  intros Hs p y z Hw. induction Hw as [x Hx|x e y p z Hj Hw IH]; intros Hodd.
  - cbn [wedges map] in Hodd. rewrite rf_oddb_nil, xorb_false_r, xorb_nilpotent in Hodd. discriminate.
  - destruct (xorb (xorb (pi x) (memb e sg)) (pi y)) eqn:Et.
    + exists [], e, x, y, p. cbn [app]. split; [reflexivity|]. split; [constructor; apply (gl_simple_joins g e x y Hs Hj)|].
      split; [exact Hj|]. split; [exact Hw|exact Et].
    + cbn [wedges map fst] in Hodd. fold (wedges p) in Hodd. rewrite rf_oddb_cons in Hodd.
      destruct IH as (p1 & e' & a & b & p2 & -> & H1 & H2 & H3 & H4).
      { destruct (pi x), (pi y), (pi z), (memb e sg), (oddb sg (wedges p)); cbn in *; congruence. }
      exists ((e, y) :: p1), e', a, b, p2. cbn [app]. split; [reflexivity|]. split; [econstructor; eauto|]. auto.
Qed.

(* ---- the cycle of a candidate through the two tree walks --------------------------------------------------------- *)
Lemma ts_c14_parity_weight g wts sg t c C a b pa pb :
  simple_graph g -> lx_tree_spec Z 0%Z Z.add g wts (st_src t) t -> c14_cycle g wts t c C ->
  ends g (c_edge c) = Some (a, b) ->
  lx_twalk Z g (st_nodes t) (st_src t) pa a -> lx_twalk Z g (st_nodes t) (st_src t) pb b ->
  oddb sg C = xorb (xorb (oddb sg (wedges pa)) (memb (c_edge c) sg)) (oddb sg (wedges pb)) /\
  weight wts C = (weight wts (wedges pa) + wt wts (c_edge c) + weight wts (wedges pb))%Z.
Proof.
  intros Hsg Hspec [a' [b' [pa' [pb' [He' [Hpa' [Hpb' [_ [_ [_ [_ [_ [HndE [_ [HC [Hsc _]]]]]]]]]]]]]]]] He Hpa Hpb.
  rewrite He in He'. injection He' as <- <-. unfold c12_twalk in *.
  destruct (ts_root _ _ _ _ _ _ _ Hspec) as [ndr [Hr1 [Hr2 _]]].
  pose proof (lx_twalk_unique Z g (st_nodes t) (st_src t) ndr Hr1 Hr2 _ _ Hpa _ Hpa') as <-.
  pose proof (lx_twalk_unique Z g (st_nodes t) (st_src t) ndr Hr1 Hr2 _ _ Hpb _ Hpb') as <-.
  set (s := st_src t) in *. set (e := c_edge c) in *.
  assert (HedP : wedges (pa ++ (e, b) :: cz_rev s pb) = wedges pa ++ e :: rev (wedges pb)).
  { unfold wedges. rewrite map_app. cbn [map fst]. fold (wedges (cz_rev s pb)). rewrite cz_rev_wedges. reflexivity. }
  rewrite HedP in HndE.
  assert (Hperm : Permutation C (wedges pa ++ e :: rev (wedges pb))).
  { apply NoDup_Permutation; [apply gl_sorted_NoDup; apply Hsc|exact HndE|]. intros y. rewrite HC, HedP. reflexivity. }
  split.
  - rewrite (rf_oddb_perm sg _ _ Hperm), rf_oddb_app, rf_oddb_cons.
    rewrite (rf_oddb_perm sg (rev (wedges pb)) (wedges pb)) by (apply Permutation_sym, Permutation_rev).
    destruct (oddb sg (wedges pa)), (oddb sg (wedges pb)), (memb e sg); reflexivity.
  - rewrite (rf_weight_perm wts _ _ Hperm), rf_weight_app, rf_weight_cons.
    rewrite (rf_weight_perm wts (rev (wedges pb)) (wedges pb)) by (apply Permutation_sym, Permutation_rev). lia.
Qed.

(* ---- (c) one tree: the step is a candidate, or a strictly lighter odd closed walk exists ------------------------- *)
Section Tree.
  Variable g : graph.
  Variable wts : list Z.
  Variable sg : list nat.
  Variable x : nat.
  Variable t : sp_tree Z.
  Variable i : nat.
  Hypothesis Hsg : simple_graph g.
  Hypothesis Hpos : positive_weights g wts.
  Hypothesis Hspec : lx_tree_spec Z 0%Z Z.add g wts x t.

  Notation twalk := (lx_twalk Z g (st_nodes t) x).

  Lemma ts_uniq p v p' : twalk p v -> twalk p' v -> p = p'.
  Proof.
    destruct (ts_root _ _ _ _ _ _ _ Hspec) as [ndr [Hr1 [Hr2 _]]]. intros H H'.
    eapply lx_twalk_unique; eauto.
  Qed.

  (* a tree edge between a and b: one tree walk extends the other, the closed walk uses every edge twice *)
  Lemma ts_tree_edge_even e a b pa pb : In e (cd_tree_edges Z t) -> joins g e a b -> twalk pa a -> twalk pb b ->
    xorb (xorb (oddb sg (wedges pa)) (memb e sg)) (oddb sg (wedges pb)) = false.
  Proof.
    intros Hin Hj Hpa Hpb. unfold cd_tree_edges in Hin. apply in_flat_map in Hin as [o [Ho He]].
    destruct o as [nd|]; [|destruct He]. destruct (sn_pred nd) as [e'|] eqn:Ep; [|destruct He].
    destruct He as [->|[]]. apply (In_nth _ _ None) in Ho as [y [_ Hy]].
    assert (Hys : y <> x).
    { intros ->. destruct (ts_root _ _ _ _ _ _ _ Hspec) as [ndr [Hr1 [Hr2 _]]]. unfold sp_node_of in Hr1.
      rewrite Hy in Hr1. injection Hr1 as <-. congruence. }
    destruct (ts_nonroot _ _ _ _ _ _ _ Hspec y nd Hy Hys) as [e' [u [Hp' [Hou _]]]].
    rewrite Ep in Hp'. injection Hp' as <-.
    pose proof (lx_opposite_joins g e y u Hou) as Hj'.
    destruct (rf_joins_fun g e a b u y Hj Hj') as [[-> ->]|[-> ->]].
    - (* a = parent, b = child *)
      assert (Hpb' : twalk (pa ++ [(e, y)]) y) by (eapply ltw_snoc; eauto).
      rewrite (ts_uniq _ _ _ Hpb Hpb'), tq_wedges_snoc, tq_oddb_snoc.
      destruct (oddb sg (wedges pa)), (memb e sg); reflexivity.
    - assert (Hpa' : twalk (pb ++ [(e, y)]) y) by (eapply ltw_snoc; eauto).
      rewrite (ts_uniq _ _ _ Hpa Hpa'), tq_wedges_snoc, tq_oddb_snoc.
      destruct (oddb sg (wedges pb)), (memb e sg); reflexivity.
  Qed.

  Lemma ts_first_ne_root v : v <> x -> sp_node_of Z t v <> None -> sp_first Z t v <> x.
  Proof.
    intros Hv Hn. destruct (ts_first _ _ _ _ _ _ _ Hspec v Hv Hn) as [e [q Hq]].
    apply lx_twalk_front in Hq as [[Hc _]|[e' [c [q' [nd [Heq [_ [_ [Ho _]]]]]]]]]; [discriminate|].
    injection Heq as <- <- <-. apply lx_opposite_joins in Ho.
    destruct (gl_simple_joins g e x (sp_first Z t v) Hsg Ho) as (_ & _ & Hne). auto.
  Qed.

  (* a non-root vertex: its tree walk starts with the predecessor edge of first(v), followed by a tree walk from first(v) *)
  Lemma ts_walk_split v p : v <> x -> twalk p v ->
    exists e q nd, p = (e, sp_first Z t v) :: q /\ nth (sp_first Z t v) (st_nodes t) None = Some nd /\
                   sn_pred nd = Some e /\ joins g e x (sp_first Z t v) /\
                   lx_twalk Z g (st_nodes t) (sp_first Z t v) q v.
  Proof.
    intros Hv Hp. pose proof (lx_twalk_end _ _ _ _ _ _ Hp) as Hn.
    destruct (ts_first _ _ _ _ _ _ _ Hspec v Hv Hn) as [e [q Hq]].
    rewrite (ts_uniq _ _ _ Hp Hq).
    apply lx_twalk_front in Hq as [[Hc _]|[e' [c [q' [nd [Heq [Hnd [Hpr [Ho Hq']]]]]]]]]; [discriminate|].
    injection Heq as <- <- <-. exists e, q, nd. repeat (split; [auto|]); auto. apply lx_opposite_joins. exact Ho.
  Qed.

  Theorem ts_candidate_or_lighter e a b pa pb :
    ends g e = Some (a, b) -> twalk pa a -> twalk pb b ->
    xorb (xorb (oddb sg (wedges pa)) (memb e sg)) (oddb sg (wedges pb)) = true ->
    (exists cd, cd_is_cand Z 0%Z Z.add g wts i t cd /\ c_edge cd = e) \/
    (exists f q, walk g f q f /\ oddb sg (wedges q) = true /\
                 (weight wts (wedges q) < weight wts (wedges pa) + wt wts e + weight wts (wedges pb))%Z).
  Proof.
    intros He Hpa Hpb Hodd.
    assert (Hj : joins g e a b) by (left; exact He).
    destruct (gl_simple_joins g e a b Hsg Hj) as (_ & _ & Hab).
    pose proof (lx_twalk_end _ _ _ _ _ _ Hpa) as Hna. pose proof (lx_twalk_end _ _ _ _ _ _ Hpb) as Hnb.
    destruct (memb e (cd_tree_edges Z t)) eqn:Em.
    { apply gl_memb_In in Em. rewrite (ts_tree_edge_even e a b pa pb Em Hj Hpa Hpb) in Hodd. discriminate. }
    destruct (Nat.eq_dec (sp_first Z t a) (sp_first Z t b)) as [Hf|Hf].
    - right.
      assert (Hax : a <> x).
      { intros ->. rewrite (ts_first_root _ _ _ _ _ _ _ Hspec) in Hf.
        apply (ts_first_ne_root b); [auto|exact Hnb|auto]. }
      assert (Hbx : b <> x).
      { intros ->. rewrite (ts_first_root _ _ _ _ _ _ _ Hspec) in Hf.
        apply (ts_first_ne_root a); [auto|exact Hna|auto]. }
      destruct (ts_walk_split a pa Hax Hpa) as (ea & qa & nda & -> & Hnda & Hpra & Hja & Hqa).
      destruct (ts_walk_split b pb Hbx Hpb) as (eb & qb & ndb & -> & Hndb & Hprb & Hjb & Hqb).
      rewrite <- Hf in *. rewrite Hnda in Hndb. injection Hndb as <-. rewrite Hpra in Hprb. injection Hprb as <-.
      set (f := sp_first Z t a) in *.
      pose proof (ts_len _ _ _ _ _ _ _ Hspec) as Hlen.
      pose proof (lx_twalk_walk Z g (st_nodes t) f qa a Hlen Hqa) as Hwa.
      pose proof (lx_twalk_walk Z g (st_nodes t) f qb b Hlen Hqb) as Hwb.
      exists f, (qa ++ (e, b) :: cz_rev f qb).
      assert (Hed : wedges (qa ++ (e, b) :: cz_rev f qb) = wedges qa ++ e :: rev (wedges qb)).
      { unfold wedges. rewrite map_app. cbn [map fst]. fold (wedges (cz_rev f qb)). rewrite cz_rev_wedges. reflexivity. }
      split; [|split].
      + eapply gl_walk_app; [exact Hwa|]. econstructor; [exact Hj|]. apply cz_rev_walk; assumption.
      + rewrite Hed, rf_oddb_app, rf_oddb_cons.
        rewrite (rf_oddb_perm sg (rev (wedges qb)) (wedges qb)) by (apply Permutation_sym, Permutation_rev).
        cbn [wedges map fst] in Hodd. fold (wedges qa) (wedges qb) in Hodd. rewrite !rf_oddb_cons in Hodd.
        destruct (oddb sg (wedges qa)), (oddb sg (wedges qb)), (memb e sg), (memb ea sg); cbn in *; congruence.
      + rewrite Hed, rf_weight_app, rf_weight_cons.
        rewrite (rf_weight_perm wts (rev (wedges qb)) (wedges qb)) by (apply Permutation_sym, Permutation_rev).
        cbn [wedges map fst]. fold (wedges qa) (wedges qb). rewrite !rf_weight_cons.
        pose proof (lz_wt_pos g wts ea Hpos (gl_joins_lt g ea _ _ Hja)). lia.
    - left. unfold sp_node_of in Hna, Hnb.
      destruct (nth a (st_nodes t) None) as [nda|] eqn:Ea; [|contradiction].
      destruct (nth b (st_nodes t) None) as [ndb|] eqn:Eb; [|contradiction].
      exists {| c_tree := i; c_edge := e; c_weight := (lx_wt Z 0%Z wts e + sn_weight nda + sn_weight ndb)%Z |}.
      split; [|reflexivity]. split; [reflexivity|]. cbn [c_edge c_weight].
      exists a, b, nda, ndb. unfold sp_node_of. auto 10.
  Qed.
End Tree.

(* ---- the collection built from a list of roots that meets every cycle ------------------------------------------- *)
Section Suff.
  Variable g : graph.
  Variable wts : list Z.
  Variable roots : list nat.
  Variable trees : list (sp_tree Z).
  Variable cands : list (cand Z).
  Hypothesis Hsg : simple_graph g.
  Hypothesis Hpos : positive_weights g wts.
  Hypothesis Hcr : cycles_of_roots Z 0%Z Z.add Z.ltb g wts roots = CdOk (trees, cands).
  (* every simple cycle has a closed walk that starts at a root *)
  Hypothesis Hhit : forall D, simple_cycle g D -> exists x p, In x roots /\ walk g x p x /\ Permutation (wedges p) D.

  Lemma ts_root_tree x : In x roots -> exists i t, nth_error trees i = Some t /\ sptree_Z g wts x = LxOk t.
  Proof.
    intros Hx. apply cd_cycles_of_roots_inv in Hcr as [F2 _]. apply In_nth_error in Hx as [i Hi].
    destruct (proj1 (cd_Forall2_nth _ _ _ F2 i) x Hi) as [t [Ht Hst]]. exists i, t. auto.
  Qed.

  (* one application of (a)-(c) to an odd closed walk through a root *)
  Lemma ts_walk_step sg x p : In x roots -> walk g x p x -> oddb sg (wedges p) = true ->
    (exists c t C, In c cands /\ nth_error trees (c_tree c) = Some t /\ c14_cycle g wts t c C /\
                   oddb sg C = true /\ (weight wts C <= weight wts (wedges p))%Z) \/
    (exists f q, walk g f q f /\ oddb sg (wedges q) = true /\ (weight wts (wedges q) < weight wts (wedges p))%Z).
  Proof.
    intros Hx Hw Hodd. destruct (ts_root_tree x Hx) as [i [t [Hti Hst]]].
    pose proof (gl_walk_start_lt g x p x Hsg Hw) as Hxlt.
    destruct (lz_C12_dist g wts x Hsg Hpos Hxlt) as [t' [Hst' [_ [Hnode Hdist]]]].
    rewrite Hst in Hst'. injection Hst' as <-.
    pose proof (lx_sptree_spec Z 0%Z Z.add Z.ltb g wts x t Hst) as Hspec.
    pose proof (ts_src _ _ _ _ _ _ _ Hspec) as Hsrc.
    destruct (tq_update_parities Z 0%Z Z.add g wts x t Hspec sg) as [par [_ [_ Hpar]]].
    destruct (ts_step_exists g sg (fun v => nth v par false) Hsg p x x Hw) as (p1 & e & a & b & p2 & -> & Hw1 & Hj & Hw2 & Hterm).
    { rewrite xorb_nilpotent, xorb_false_l. exact Hodd. }
    (* nodes and tree walks of a and b *)
    assert (Hca : connected g x a) by (exists p1; exact Hw1).
    assert (Hwb : walk g x (p1 ++ [(e, b)]) b).
    { eapply gl_walk_app; [exact Hw1|]. econstructor; [exact Hj|]. constructor. apply (gl_simple_joins g e a b Hsg Hj). }
    assert (Hcb : connected g x b) by (exists (p1 ++ [(e, b)]); exact Hwb).
    apply Hnode in Hca. apply Hnode in Hcb.
    destruct (ts_chain _ _ _ _ _ _ _ Hspec a Hca) as [pa Hpa]. destruct (ts_chain _ _ _ _ _ _ _ Hspec b Hcb) as [pb Hpb].
    rewrite (Hpar a pa Hpa), (Hpar b pb Hpb) in Hterm.
    destruct (sp_node_of Z t a) as [nda|] eqn:Ea; [|contradiction].
    destruct (sp_node_of Z t b) as [ndb|] eqn:Eb; [|contradiction].
    (* (b) weights *)
    assert (Hwa_eq : sn_weight nda = weight wts (wedges pa)).
    { rewrite (ts_weight _ _ _ _ _ _ _ Hspec a nda pa Ea Hpa), lz_wsum_sum, lz_sum_weight. reflexivity. }
    assert (Hwb_eq : sn_weight ndb = weight wts (wedges pb)).
    { rewrite (ts_weight _ _ _ _ _ _ _ Hspec b ndb pb Eb Hpb), lz_wsum_sum, lz_sum_weight. reflexivity. }
    pose proof (Hdist a nda p1 Ea Hw1) as Hda.
    pose proof (Hdist b ndb (cz_rev b p2) Eb (cz_rev_walk g b p2 x Hsg Hw2)) as Hdb.
    rewrite cz_rev_wedges in Hdb.
    rewrite (rf_weight_perm wts (rev (wedges p2)) (wedges p2)) in Hdb by (apply Permutation_sym, Permutation_rev).
    assert (Hwp : weight wts (wedges (p1 ++ (e, b) :: p2)) = (weight wts (wedges p1) + wt wts e + weight wts (wedges p2))%Z).
    { rewrite rf_wedges_app. cbn [wedges map fst]. fold (wedges p2). rewrite rf_weight_app, rf_weight_cons. lia. }
    assert (Hbound : (weight wts (wedges pa) + wt wts e + weight wts (wedges pb) <= weight wts (wedges (p1 ++ (e, b) :: p2)))%Z) by lia.
    (* (c) in the orientation of the edge *)
    assert (Hcase : forall a0 b0 pa0 pb0, ends g e = Some (a0, b0) ->
              lx_twalk Z g (st_nodes t) x pa0 a0 -> lx_twalk Z g (st_nodes t) x pb0 b0 ->
              xorb (xorb (oddb sg (wedges pa0)) (memb e sg)) (oddb sg (wedges pb0)) = true ->
              (weight wts (wedges pa0) + wt wts e + weight wts (wedges pb0) <= weight wts (wedges (p1 ++ (e, b) :: p2)))%Z ->
              (exists c t C, In c cands /\ nth_error trees (c_tree c) = Some t /\ c14_cycle g wts t c C /\
                   oddb sg C = true /\ (weight wts C <= weight wts (wedges (p1 ++ (e, b) :: p2)))%Z) \/
              (exists f q, walk g f q f /\ oddb sg (wedges q) = true /\
                           (weight wts (wedges q) < weight wts (wedges (p1 ++ (e, b) :: p2)))%Z)).
    { intros a0 b0 pa0 pb0 He Hpa0 Hpb0 Ht0 Hb0.
      destruct (ts_candidate_or_lighter g wts sg x t i Hsg Hpos Hspec e a0 b0 pa0 pb0 He Hpa0 Hpb0 Ht0)
        as [[cd [Hcd Hce]]|[f [q [Hq1 [Hq2 Hq3]]]]].
      - left. pose proof Hcd as [Hci _].
        assert (Hin : In cd cands).
        { pose proof Hcr as Hcr'. apply cd_cycles_of_roots_inv in Hcr' as [_ ->]. apply cd_cycles_of_trees_In.
          exists t. rewrite Hci. auto. }
        destruct (cz_roots_sound g wts roots trees cands Hsg Hpos Hcr cd Hin) as [t'' [C [Ht'' [_ HC]]]].
        rewrite Hci, Hti in Ht''. injection Ht'' as <-.
        assert (Hspec' : lx_tree_spec Z 0%Z Z.add g wts (st_src t) t) by (rewrite Hsrc; exact Hspec).
        rewrite <- Hsrc in Hpa0, Hpb0. rewrite <- Hce in He.
        destruct (ts_c14_parity_weight g wts sg t cd C a0 b0 pa0 pb0 Hsg Hspec' HC He Hpa0 Hpb0) as [Ho Hwt].
        rewrite Hce in Ho, Hwt. exists cd, t, C. rewrite Hci. repeat (split; [auto|]).
        + rewrite Ho. exact Ht0.
        + lia.
      - right. exists f, q. repeat (split; [auto|]). lia. }
    destruct Hj as [He|He].
    - apply (Hcase a b pa pb He Hpa Hpb Hterm Hbound).
    - apply (Hcase b a pb pa He Hpb Hpa); [|lia].
      destruct (oddb sg (wedges pa)), (oddb sg (wedges pb)), (memb e sg); cbn in *; congruence.
  Qed.

  (* induction on the weight: every odd simple cycle is dominated by an odd candidate *)
  Lemma ts_dominated_ind sg : forall n D, simple_cycle g D -> oddb sg D = true -> (weight wts D < Z.of_nat n)%Z ->
    tr_dominated g wts trees cands sg D.
  Proof.
    induction n as [|n IH]; intros D HD Ho Hn.
    - pose proof (rf_weight_nonneg g wts D Hpos). lia.
    - destruct (Hhit D HD) as (x & p & Hx & Hw & Hperm).
      assert (HoP : oddb sg (wedges p) = true) by (rewrite (rf_oddb_perm sg _ _ Hperm); exact Ho).
      assert (HwP : weight wts (wedges p) = weight wts D) by (apply rf_weight_perm; exact Hperm).
      destruct (ts_walk_step sg x p Hx Hw HoP) as [(c & t & C & H1 & H2 & H3 & H4 & H5)|(f & q & Hq1 & Hq2 & Hq3)].
      + exists c, t, C. repeat (split; [assumption|]). lia.
      + destruct (rf_shortcut_simple_cycle g wts sg Hsg Hpos q f Hq1 Hq2) as (p' & _ & HD' & Ho' & Hw').
        destruct (IH _ HD' Ho') as (c & t & C & H1 & H2 & H3 & H4 & H5); [lia|].
        exists c, t, C. repeat (split; [assumption|]). lia.
  Qed.

  Theorem ts_roots_sufficient : collection_sufficient_all g wts trees cands.
  Proof.
    intros sg D HD Ho. apply (ts_dominated_ind sg (S (Z.to_nat (weight wts D))) D HD Ho).
    pose proof (rf_weight_nonneg g wts D Hpos). lia.
  Qed.
End Suff.

(* ---- the roots of Horton's collection and of the FVS collection meet every cycle -------------------------------- *)

Lemma ts_rotate g x p v : simple_graph g -> walk g x p x -> In v (wverts p) ->
  exists p', walk g v p' v /\ Permutation (wedges p') (wedges p).
Proof.
  intros Hs Hw Hv. unfold wverts in Hv. apply in_map_iff in Hv as [[e v'] [Hv' Hin]]. cbn [snd] in Hv'. subst v'.
  apply in_split in Hin as [p1 [p2 ->]].
  change (p1 ++ (e, v) :: p2) with (p1 ++ [(e, v)] ++ p2) in Hw. rewrite app_assoc in Hw.
  destruct (rf_walk_app_inv g Hs _ _ _ _ Hw) as (y & Hw1 & Hw2).
  assert (y = v) by (eapply rf_walk_last; exact Hw1). subst y.
  exists (p2 ++ (p1 ++ [(e, v)])). split; [eapply gl_walk_app; eauto|].
  unfold wedges. rewrite !map_app. cbn [map fst]. rewrite Permutation_app_comm, <- app_assoc. reflexivity.
Qed.

Lemma ts_simple_cycle_walk g D : simple_cycle g D ->
  exists x p, walk g x p x /\ p <> [] /\ Permutation (wedges p) D.
Proof.
  intros (Hne & Hsd & x & p & Hw & Hnd & _ & HE). exists x, p. split; [exact Hw|]. split.
  - intros ->. destruct D as [|e D]; [congruence|]. destruct (proj1 (HE e) (or_introl eq_refl)).
  - apply NoDup_Permutation; [exact Hnd|apply gl_sorted_NoDup; exact Hsd|]. intros e. symmetry. apply HE.
Qed.

Lemma ts_hit_all g : simple_graph g ->
  forall D, simple_cycle g D -> exists x p, In x (seq 0 (nv g)) /\ walk g x p x /\ Permutation (wedges p) D.
Proof.
  intros Hs D HD. destruct (ts_simple_cycle_walk g D HD) as (x & p & Hw & _ & Hperm).
  exists x, p. split; [|auto]. apply in_seq. pose proof (gl_walk_start_lt g x p x Hs Hw). lia.
Qed.

Lemma ts_hit_fvs g fvs : simple_graph g -> feedback_vertex_set g fvs ->
  forall D, simple_cycle g D -> exists x p, In x fvs /\ walk g x p x /\ Permutation (wedges p) D.
Proof.
  intros Hs (_ & _ & Hac) D HD.
  destruct (ts_simple_cycle_walk g D HD) as (x & p & Hw & Hpne & Hperm).
  pose proof (simple_cycle_in_cycle_space g D Hs HD) as (HDs & HDv & HDe).
  destruct HD as (HDne & _).
  set (bad := fun e => match ends g e with Some (s, t) => memb s fvs || memb t fvs | None => true end).
  destruct (existsb bad D) eqn:Eb.
  - apply existsb_exists in Eb as [e [HeD Hbad]]. unfold bad in Hbad.
    destruct (ends g e) as [[s t]|] eqn:Ee.
    + assert (Hj : joins g e s t) by (left; exact Ee).
      assert (HeP : In e (wedges p)) by (eapply Permutation_in; [apply Permutation_sym; exact Hperm|exact HeD]).
      destruct (rf_walk_edge_ends g e s t Hj p x x Hw HeP) as [Hs1 Ht1].
      assert (Hx : In x (wverts p)) by (eapply rf_walk_end_in; eauto).
      assert (Hv : exists v, In v fvs /\ In v (wverts p)).
      { apply orb_true_iff in Hbad as [Hm|Hm]; apply gl_memb_In in Hm.
        - exists s. split; [exact Hm|]. destruct Hs1 as [<-|H]; assumption.
        - exists t. split; [exact Hm|]. destruct Ht1 as [<-|H]; assumption. }
      destruct Hv as [v [Hvf Hvp]]. destruct (ts_rotate g x p v Hs Hw Hvp) as [p' [Hw' Hp']].
      exists v, p'. split; [exact Hvf|]. split; [exact Hw'|]. eapply Permutation_trans; eauto.
    + exfalso. unfold ends in Ee. apply nth_error_None in Ee. specialize (HDv e HeD). unfold ne in HDv. lia.
  - exfalso. apply (Hac D HDs HDne); [|exact HDe].
    intros e HeD. unfold surviving_edges. apply filter_In. split; [apply in_seq; specialize (HDv e HeD); lia|].
    assert (Hb : bad e = false).
    { destruct (bad e) eqn:E; [|reflexivity]. assert (existsb bad D = true) by (apply existsb_exists; eauto). congruence. }
    unfold bad in Hb. destruct (ends g e) as [[s t]|]; [|discriminate].
    apply orb_false_iff in Hb as [-> ->]. reflexivity.
Qed.

(* ---- the two sufficiency theorems ---------------------------------------------------------------------------------- *)

Theorem horton_sufficient g wts trees cands : simple_graph g -> positive_weights g wts ->
  horton_cycles_Z g wts = CdOk (trees, cands) -> collection_sufficient_all g wts trees cands.
Proof.
  intros Hsg Hpos H. apply (ts_roots_sufficient g wts (seq 0 (nv g)) trees cands Hsg Hpos H). apply ts_hit_all. exact Hsg.
Qed.

Theorem fvs_sufficient g wts picks trees cands : simple_graph g -> positive_weights g wts ->
  fvs_cycles_Z g wts picks = CdOk (trees, cands) -> collection_sufficient_all g wts trees cands.
Proof.
  intros Hsg Hpos H. unfold fvs_cycles_Z, fvs_cycles in H. destruct (greedy_fvs g picks) as [fvs| | |] eqn:Ef; try discriminate.
  destruct (greedy_fvs_correct g picks fvs Hsg Ef) as [_ Hfvs].
  apply (ts_roots_sufficient g wts fvs trees cands Hsg Hpos H). apply ts_hit_fvs; assumption.
Qed.

(* STATED, NOT PROVED (needs the theory of isometric cycles over consistent shortest paths): the isometric collection *)
Definition iso_sufficient_statement : Prop :=
  forall g wts trees cands, simple_graph g -> positive_weights g wts ->
    iso_cycles_Z g wts = CdOk (trees, cands) -> collection_sufficient_all g wts trees cands.

Print Assumptions horton_sufficient.
Print Assumptions fvs_sufficient.
