(* TreesProofs4.v — SUFFICIENCY of Horton's collection and of the FVS collection (DESIGN Appendix B7), exact domain:
   for every signed edge set sg and every odd simple cycle D there is a candidate of the collection that is odd w.r.t. sg
   and no heavier than D.

   Proof.  Take a closed walk of D that starts at a root x of the collection (Horton: any vertex of D; FVS: a vertex of D
   in the feedback vertex set — it exists because deleting the set leaves no cycle), x = v_0, v_1, ..., v_r = x, and the
   model's shortest-path tree T at x with tree parities pi(v) = parity of the signed edges on the tree walk of v.
   (a) telescoping: xor over the steps (v_i, e_i, v_i+1) of  pi(v_i) + [e_i signed] + pi(v_i+1)  equals
       pi(x) + pi(x) + parity(D) = 1, so some step has an odd closed walk  Z = T(v_i) + e_i + reversed T(v_i+1);
   (b) weight(Z) = d(v_i) + w(e_i) + d(v_i+1) <= weight(D): tree walks are shortest (C12_dist) and the two parts of D
       before and after the step are walks from x to v_i and (reversed) from x to v_i+1;
   (c) e_i is not a tree edge (else Z would use every edge twice: even).  If first(v_i) <> first(v_i+1), then
       (x, e_i) IS a candidate of create_candidate_cycles, its cycle is Z: odd, weight <= weight(D).  Otherwise both
       tree walks start with the same edge; dropping it twice leaves an odd closed walk that is STRICTLY lighter,
       the shortcut lemma (RefProofs1) extracts from it an odd simple cycle D' with weight(D') < weight(D), and the
       claim follows for D' by induction on the weight (instead of choosing D minimum up front).
   Prefix ts_. *)
From Coq Require Import List Arith Bool Lia ZArith Permutation.
From Parmcb Require Import GraphModel GraphSpec GraphLemmas GF2Model GF2Proofs HeapModel LexSPModel LexSPProofsHeap
     LexSPProofs LexSPProofsDist FvsModel FvsProofs CandidatesModel CandidatesProofs CandidatesProofsZ DePinaProofs
     RefModel RefProofs1 RefProofs2 RefProofs4 RefProofs5 TreesModel TreesProofs1 TreesProofs2 TreesProofs3.
Import ListNotations.

(* ---- (a) telescoping along a walk ------------------------------------------------------------------------------- *)
Lemma ts_step_exists g sg (pi : nat -> bool) : simple_graph g -> forall p y z, walk g y p z ->
  xorb (xorb (pi y) (pi z)) (oddb sg (wedges p)) = true ->
  exists p1 e a b p2, p = p1 ++ (e, b) :: p2 /\ walk g y p1 a /\ joins g e a b /\ walk g b p2 z /\
                      xorb (xorb (pi a) (memb e sg)) (pi b) = true.
Proof.
  intros Hs p y z Hw. induction Hw as [x Hx|x e y p z Hj Hw IH]; intros Hodd.
  - cbn [wedges map] in Hodd. rewrite rf_oddb_nil, xorb_false_r, xorb_nilpotent in Hodd. discriminate.
  - destruct (xorb (xorb (pi x) (memb e sg)) (pi y)) eqn:Et.
    + exists [], e, x, y, p. cbn [app]. split; [reflexivity|]. split; [constructor; apply (gl_simple_joins g e x y Hs Hj)|].
      split; [exact Hj|]. split; [exact Hw|exact Et].
    + cbn [wedges map fst] in Hodd. fold (wedges p) in Hodd. rewrite rf_oddb_cons in Hodd.
      destruct IH as (p1 & e' & a & b & p2 & -> & H1 & H2 & H3 & H4).
      { destruct (pi x), (pi y), (pi z), (memb e sg), (oddb sg (wedges p)); cbn in *; congruence. }
      exists ((e, y) :: p1), e', a, b, p2. cbn [app]. split; [reflexivity|]. split; [econstructor; eauto|]. auto.
Qed.
