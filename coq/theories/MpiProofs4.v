(* MpiProofs4.v — the end-to-end statements about mcb_sva_signed_mpi (model: MpiSignedModel.v):
     mpi_signed_no_deadlock   (C04b)  for every P >= 1, every per-rank order, every reduction tree over valid ranks
     mpi_signed_min           (C04c)  agreeing orders + search premise => rank 0 holds a minimum cycle basis
     mpi_signed_fixed_min             the fixed code: no condition on layouts at all
     mpi_signed_layout_refuted (D8)   a concrete graph, P = 2, two different pointer orders: the code as found
                                      returns a basis that is strictly heavier than the sequential answer. *)
From Coq Require Import List Arith Bool ZArith Lia Permutation.
From Parmcb Require Import GraphSpec GraphLemmas GF2Proofs McbSpec ForestProofs DePinaProofs SvaSpec SvaProofs SignedModel SignedZModel
  RefModel RefProofs1 RefProofs2 RefProofs3 RefProofs4
  MpiModel MpiSignedModel MpiProofs1 MpiProofs2 MpiProofs3.
Import ListNotations.

Definition units (fi : forest_index) : list vec := map (fun i => [i]) (seq 0 (fi_csd fi)).

(* a rank that returned without emitting a cycle (weight 0, supports untouched) *)
Definition silent {W} (w0 : W) (fi : forest_index) (x : rank_result W) : Prop := x = RankOut [] w0 (units fi) None.

Section NoDeadlock.
  Variable W : Type.
  Variable w0 : W.
  Variable wadd : W -> W -> W.
  Variable wltb : W -> W -> bool.

  Theorem mpi_signed_no_deadlock g wts roots P ord rtree_of fi :
    1 <= P -> (forall k r, In r (rleaves (rtree_of k)) -> r < P) ->
    create_index g roots = Some fi ->
    exists r0 rest,
      mcb_sva_signed_mpi_gen W w0 wadd wltb g wts roots P ord rtree_of = Some (Done (r0 :: rest))
      /\ length rest = P - 1 /\ Forall (silent w0 fi) rest
      /\ to_sva W r0 = sva_run W w0 wadd select_none
                         (glob_search W wltb fi (signed_act W w0 wadd wltb g wts P (ord fi) fi) P rtree_of) fi.
  Proof.
    intros HP Htree Hci. unfold mcb_sva_signed_mpi_gen. rewrite Hci. unfold signed_prog.
    rewrite (spmd_plain_run W w0 wadd wltb fi _ P rtree_of HP); [|intros r k Sv _; apply signed_act_uniform|exact Htree].
    rewrite (seq_P P HP). cbn [map]. eexists; eexists. split; [reflexivity|].
    split; [rewrite map_length, seq_length; reflexivity|]. split.
    - apply Forall_forall. intros x Hx. apply in_map_iff in Hx as (r & <- & Hr). apply in_seq in Hr.
      unfold rank_state. destruct (Nat.eqb_spec r 0); [lia|]. reflexivity.
    - cbn [rank_state Nat.eqb]. apply spmd_plain_rank0.
  Qed.
End NoDeadlock.

Section Min.
  Variables (g : graph) (wts : list Z) (roots : list nat).
  Hypothesis Hs : simple_graph g.
  Hypothesis Hpw : positive_weights g wts.
  Hypothesis Hr : forall v, v < nv g -> In v roots.
  Variable P : nat.
  Variable ord : forest_index -> nat -> nat -> nat.
  Variable rtree_of : nat -> rtree.
  Hypothesis HP : 1 <= P.
  Hypothesis Htree : forall k, rtree_ok P (rtree_of k).
  (* the ranks agree on the order of the signed edges *)
  Hypothesis Hagree : forall fi r e, r < P -> ord fi r e = ord fi 0 e.
  (* the per-index search premise, for the common order *)
  Hypothesis Hprem : forall fi Sv, create_index g roots = Some fi -> canonical_witness fi Sv ->
                       signed_phase_premise g wts fi Sv (ord fi 0).

  Theorem mpi_signed_min :
    exists fi cycles total sup rest,
      create_index g roots = Some fi
      /\ mcb_sva_signed_mpi_gen Z 0%Z Z.add Z.ltb g wts roots P ord rtree_of
         = Some (Done (RankOut cycles total sup None :: rest))
      /\ length rest = P - 1 /\ Forall (silent 0%Z fi) rest
      /\ min_cycle_basis g wts cycles /\ total = total_weight wts cycles
      /\ has_cycle_space_dimension g (length cycles).
  Proof.
    destruct (create_index_correct g roots Hs Hr) as (fi & Hci & _).
    assert (Htree' : forall k r, In r (rleaves (rtree_of k)) -> r < P)
      by (intros k r; apply rtree_ok_lt, Htree).
    destruct (mpi_signed_no_deadlock Z 0%Z Z.add Z.ltb g wts roots P ord rtree_of fi HP Htree' Hci)
      as (r0 & rest & Erun & Hlen & Hsil & Esva).
    set (search := glob_search Z Z.ltb fi (signed_act Z 0%Z Z.add Z.ltb g wts P (ord fi) fi) P rtree_of) in *.
    assert (Hmin : search_min_c g wts fi search).
    { intros k Sv c w HS E.
      apply (signed_glob_min g wts roots fi Hs Hr Hci Sv P (ord fi) rtree_of HP (Hagree fi) Htree
               (Hprem fi Sv Hci HS) k c w E). }
    assert (Htot : search_total fi search).
    { intros k Sv SS Sne Sb.
      destruct (rf_odd_cycle_exists g roots fi Sv Hs Hr Hci SS Sne Sb) as (D & HD & HoD).
      destruct (rf_simple_cycle_edges g D HD) as (SD & VD).
      apply (signed_glob_total g wts fi Sv P (ord fi) rtree_of HP (Hagree fi) Htree
               (Hprem fi Sv Hci (conj SS (conj Sne Sb))) k D HD).
      unfold oddS. rewrite (rf_bridge g roots fi Sv D Hs Hr Hci SS Sb SD VD). exact HoD. }
    pose proof (search_min_c_sound g wts fi search Hs Hmin) as Hsnd.
    destruct (sva_generic_total_c g roots fi Z 0%Z Z.add select_none search Hs Hr Hci
                (select_none_ok (fi_csd fi)) Hsnd Htot) as (cycles & total & sup & Hrun).
    destruct (sva_generic_min_c g wts roots fi select_none search cycles total sup Hs Hpw Hr Hci
                (select_none_ok (fi_csd fi)) Hmin Hrun) as (Hmcb & Hw & Hdim).
    rewrite Hrun in Esva.
    assert (E0 : r0 = RankOut cycles total sup None).
    { destruct r0 as [cy tw sp [[[|] kk]|]|kk]; cbn [to_sva] in Esva; try discriminate.
      injection Esva as -> -> ->. reflexivity. }
    subst r0. exists fi, cycles, total, sup, rest. repeat (split; [assumption|]). assumption.
  Qed.
End Min.

(* the fixed code: every rank sorts by forest index, so the ranks agree whatever their heaps look like *)
Theorem mpi_signed_fixed_min g wts roots P rtree_of :
  simple_graph g -> positive_weights g wts -> (forall v, v < nv g -> In v roots) ->
  1 <= P -> (forall k, rtree_ok P (rtree_of k)) ->
  (forall fi Sv, create_index g roots = Some fi -> canonical_witness fi Sv ->
     signed_phase_premise g wts fi Sv (fun e => nth e (fi_idx fi) 0)) ->
  exists fi cycles total sup rest,
    create_index g roots = Some fi
    /\ mcb_sva_signed_mpi_fixed_Z g wts roots P rtree_of = Some (Done (RankOut cycles total sup None :: rest))
    /\ length rest = P - 1 /\ Forall (silent 0%Z fi) rest
    /\ min_cycle_basis g wts cycles /\ total = total_weight wts cycles
    /\ has_cycle_space_dimension g (length cycles).
Proof.
  intros Hs Hpw Hr HP Htree Hprem. unfold mcb_sva_signed_mpi_fixed_Z.
  apply (mpi_signed_min g wts roots Hs Hpw Hr P ord_fixed rtree_of HP Htree).
  - intros fi r e _. reflexivity.
  - exact Hprem.
Qed.

(* the code as found, when the pointer orders happen to coincide *)
Theorem mpi_signed_orig_min g wts roots P eords rtree_of :
  simple_graph g -> positive_weights g wts -> (forall v, v < nv g -> In v roots) ->
  1 <= P -> (forall k, rtree_ok P (rtree_of k)) ->
  (forall r, r < P -> nth r eords [] = nth 0 eords []) ->
  (forall fi Sv, create_index g roots = Some fi -> canonical_witness fi Sv ->
     signed_phase_premise g wts fi Sv (fun e => nth e (nth 0 eords []) 0)) ->
  exists fi cycles total sup rest,
    create_index g roots = Some fi
    /\ mcb_sva_signed_mpi_orig_Z g wts roots P eords rtree_of = Some (Done (RankOut cycles total sup None :: rest))
    /\ length rest = P - 1 /\ Forall (silent 0%Z fi) rest
    /\ min_cycle_basis g wts cycles /\ total = total_weight wts cycles
    /\ has_cycle_space_dimension g (length cycles).
Proof.
  intros Hs Hpw Hr HP Htree Hag Hprem. unfold mcb_sva_signed_mpi_orig_Z.
  apply (mpi_signed_min g wts roots Hs Hpw Hr P (ord_orig eords) rtree_of HP Htree).
  - intros fi r e HrP. unfold ord_orig. rewrite (Hag r HrP). reflexivity.
  - exact Hprem.
Qed.

(* ---- the trees variants: no deadlock (C04b) -------------------------------------------------------- *)
Theorem mpi_trees_no_deadlock (W : Type) (w0 : W) (wadd : W -> W -> W) (wltb : W -> W -> bool)
        (fi : forest_index) (P : nat) (rtree_of : nat -> rtree)
        (cands : list (nat * nat)) (lookup : list (nat * nat) -> nat -> vec -> lres W) :
  1 <= P -> (forall k r, In r (rleaves (rtree_of k)) -> r < P) ->
  exists r0 rest,
    run_spmd W wltb fi P rtree_of (spmd_trees W w0 wadd fi P cands lookup) = Done (r0 :: rest)
    /\ length rest = P - 1 /\ Forall (silent w0 fi) rest
    /\ to_sva W r0 = sva_run W w0 wadd select_none
                       (glob_search W wltb fi (trees_act W P cands lookup) P rtree_of) fi.
Proof.
  intros HP Htree.
  rewrite (spmd_trees_run W w0 wadd wltb fi P rtree_of cands lookup HP Htree).
  rewrite (seq_P P HP). cbn [map]. eexists; eexists. split; [reflexivity|].
  split; [rewrite map_length, seq_length; reflexivity|]. split.
  - apply Forall_forall. intros x Hx. apply in_map_iff in Hx as (r & <- & Hr). apply in_seq in Hr.
    unfold rank_state. destruct (Nat.eqb_spec r 0); [lia|]. reflexivity.
  - cbn [rank_state Nat.eqb]. apply spmd_plain_rank0.
Qed.

(* ---- D8: a concrete refutation of layout independence for the code as found ----------------------- *)
Definition d8_g : graph := {| nv := 4; ge := [(0, 1); (0, 2); (0, 3); (1, 3); (2, 3)] |}.
Definition d8_w : list Z := [1; 1; 3; 4; 1]%Z.
Definition d8_roots : list nat := [0; 1; 2; 3].
Definition d8_eord0 : list nat := [0; 1; 2; 3; 4].      (* rank 0: edge nodes in insertion order *)
Definition d8_eord1 : list nat := [3; 0; 4; 2; 1].      (* rank 1: a different heap *)
Definition d8_cycles : list (list nat) := [[0; 1; 3; 4]; [0; 2; 3]].

Lemma d8_simple : simple_graph d8_g.
Proof. reflexivity. Qed.
Lemma d8_pos : positive_weights d8_g d8_w.
Proof. split; [reflexivity|]. repeat constructor. Qed.
Lemma d8_roots_cover : forall v, v < nv d8_g -> In v d8_roots.
Proof. intros v Hv. cbn in *. lia. Qed.

Lemma d8_run_orig : exists sup rest,
  mcb_sva_signed_mpi_orig_Z d8_g d8_w d8_roots 2 [d8_eord0; d8_eord1] (fun _ => boost_reduce_tree 2)
  = Some (Done (RankOut d8_cycles 15%Z sup None :: rest)).
Proof. eexists; eexists. vm_compute. reflexivity. Qed.

Lemma d8_run_same_orders : exists cycles sup rest,
  mcb_sva_signed_mpi_orig_Z d8_g d8_w d8_roots 2 [d8_eord0; d8_eord0] (fun _ => boost_reduce_tree 2)
  = Some (Done (RankOut cycles 12%Z sup None :: rest)).
Proof. eexists; eexists; eexists. vm_compute. reflexivity. Qed.

Lemma d8_run_fixed : exists cycles sup rest,
  mcb_sva_signed_mpi_fixed_Z d8_g d8_w d8_roots 2 (fun _ => boost_reduce_tree 2)
  = Some (Done (RankOut cycles 12%Z sup None :: rest)).
Proof. eexists; eexists; eexists. vm_compute. reflexivity. Qed.

Lemma d8_sequential : exists cycles sup, mcb_sva_signed_Z d8_g d8_w d8_roots d8_eord0 = SvaOk cycles 12%Z sup.
Proof. eexists; eexists. vm_compute. reflexivity. Qed.

Lemma d8_not_min : ~ min_cycle_basis d8_g d8_w d8_cycles.
Proof.
  intros (_ & Hmin).
  destruct (ref_mcb d8_g d8_w d8_roots) as [B w sup| | |] eqn:E; try (vm_compute in E; discriminate).
  destruct (rf_ref_mcb_correct_from sva_generic_min d8_g d8_w d8_roots B w sup d8_simple d8_pos d8_roots_cover E)
    as ((HB & _) & Hw & _).
  specialize (Hmin B HB). rewrite <- Hw in Hmin.
  vm_compute in E. injection E as _ <- _. vm_compute in Hmin. apply Hmin. reflexivity.
Qed.

Theorem mpi_signed_layout_refuted :
  exists g wts roots eord0 eord1 cycles total sup rest,
    simple_graph g /\ positive_weights g wts /\ (forall v, v < nv g -> In v roots)
    /\ Permutation eord0 (seq 0 (ne g)) /\ Permutation eord1 (seq 0 (ne g)) /\ eord0 <> eord1
    /\ rtree_ok 2 (boost_reduce_tree 2)
    /\ mcb_sva_signed_mpi_orig_Z g wts roots 2 [eord0; eord1] (fun _ => boost_reduce_tree 2)
       = Some (Done (RankOut cycles total sup None :: rest))
    /\ ~ min_cycle_basis g wts cycles
    /\ (exists cycles' sup', mcb_sva_signed_Z g wts roots eord0 = SvaOk cycles' 12%Z sup' /\ (12 < total)%Z).
Proof.
  destruct d8_run_orig as (sup & rest & E). destruct d8_sequential as (cy' & sup' & E').
  exists d8_g, d8_w, d8_roots, d8_eord0, d8_eord1, d8_cycles, 15%Z, sup, rest.
  split; [exact d8_simple|]. split; [exact d8_pos|]. split; [exact d8_roots_cover|].
  split; [apply Permutation_refl|]. split.
  { apply rtree_okb_ok with (P := 5) (t := fold_right (fun r t => RNode (RLeaf r) t) (RLeaf 1) [3; 0; 4; 2]).
    reflexivity. }
  split; [discriminate|]. split; [apply rtree_okb_ok; reflexivity|]. split; [exact E|].
  split; [exact d8_not_min|]. exists cy', sup'. split; [exact E'|lia].
Qed.

(* ---- the search premise is satisfiable: the weighted triangle (its only witness is S = {0}, so only the
   |S| = 1 shortcut is exercised; the premise is discharged with the verified reference search) --------- *)
Definition tri_g : graph := {| nv := 3; ge := [(0, 1); (1, 2); (0, 2)] |}.
Definition tri_w : list Z := [2; 3; 4]%Z.
Definition tri_roots : list nat := [0; 1; 2].

Lemma tri_simple : simple_graph tri_g.
Proof. reflexivity. Qed.
Lemma tri_pos : positive_weights tri_g tri_w.
Proof. split; [reflexivity|]. repeat constructor. Qed.
Lemma tri_roots_cover : forall v, v < nv tri_g -> In v tri_roots.
Proof. intros v Hv. cbn in *. lia. Qed.

Definition tri_fi : forest_index :=
  {| fi_n := 3; fi_m := 3; fi_k := 1; fi_csd := 1; fi_idx := [1; 0; 2]; fi_rev := [1; 0; 2] |}.
Lemma tri_index : create_index tri_g tri_roots = Some tri_fi.
Proof. vm_compute. reflexivity. Qed.

(* the only canonical witness is {0}; the triangle (weight 9) is a candidate and no odd simple cycle is lighter *)
Lemma tri_facts : forall Sv, canonical_witness tri_fi Sv ->
  Sv = [0] /\ cand_ok tri_g tri_w tri_fi Sv ([0; 1; 2], 9%Z)
  /\ forall D, simple_cycle tri_g D -> oddS tri_fi Sv D -> (9 <= weight tri_w D)%Z.
Proof.
  intros Sv (SS & Sne & Sb).
  assert (ESv : Sv = [0]).
  { change (fi_csd tri_fi) with 1 in Sb. destruct Sv as [|a [|b r]]; [congruence| |].
    - specialize (Sb a (or_introl eq_refl)). f_equal. lia.
    - exfalso. pose proof (Sb a (or_introl eq_refl)). pose proof (Sb b (or_intror (or_introl eq_refl))).
      inversion SS as [|? ? _ Hlt]; subst. inversion Hlt; subst. lia. }
  subst Sv. split; [reflexivity|].
  destruct (rf_is_simple_cycle_rawb_sound tri_g [0; 1; 2] eq_refl) as (_ & Hsc).
  change (set_of_list [0; 1; 2]) with [0; 1; 2] in Hsc.
  split.
  - split; [reflexivity|]. split; [apply simple_cycle_in_cycle_space; [exact tri_simple|exact Hsc]|].
    split; [reflexivity|left; exact Hsc].
  - intros D HD HoD.
    destruct (rf_ref_search_correct tri_g tri_w (indices_to_edges tri_fi [0]) [0; 1; 2] 9%Z tri_simple tri_pos eq_refl)
      as ((_ & _ & Hmin) & _).
    change (weight tri_w [0; 1; 2]) with 9%Z in Hmin. apply Hmin; [exact HD|].
    destruct (rf_simple_cycle_edges tri_g D HD) as (SD & VD).
    unfold odd_in. rewrite <- (rf_bridge tri_g tri_roots tri_fi [0] D tri_simple tri_roots_cover tri_index);
      [exact HoD| | |exact SD|exact VD].
    + repeat constructor.
    + intros i [<-|[]]. cbn. lia.
Qed.

Lemma tri_premise : forall fi Sv, create_index tri_g tri_roots = Some fi -> canonical_witness fi Sv ->
  signed_phase_premise tri_g tri_w fi Sv (fun e => nth e (fi_idx fi) 0).
Proof.
  intros fi Sv Hci HS. rewrite tri_index in Hci. injection Hci as <-.
  destruct (tri_facts Sv HS) as (-> & Hc & Hmin).
  unfold signed_phase_premise, single_premise.
  eexists. split; [vm_compute; reflexivity|]. cbv beta iota. split; [exact Hc|exact Hmin].
Qed.

(* … and the premise of the tree variants: one candidate (the triangle seen from vertex 0), a lookup that reports it
   for every non-empty piece *)
Definition tri_cands : list (nat * nat) := [(0, 0)].
Definition tri_lookup (chunk : list (nat * nat)) (_ : nat) (_ : vec) : lres Z :=
  match chunk with [] => Some None | _ => Some (Some ([0; 1; 2], 9%Z)) end.
