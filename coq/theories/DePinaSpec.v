(* DePinaSpec.v — the abstract (coordinate-free) content of de Pina's support-vector scheme.
   A run of the scheme produces witnesses S_0..S_{N-1} (as used in their phase) and cycles
   C_0..C_{N-1} of a GF(2) space V ("inV") with  <S_k, C_k> = 1  and  <S_k, C_j> = 0 for j < k
   (the support update keeps every later witness orthogonal to every earlier cycle).  If the witnesses
   are non-degenerate on V (no non-zero element of V is orthogonal to all of them), the cycles form a
   basis of V; if in addition every C_k has minimum weight among the elements of a class `cls`
   ("simple cycles") that are odd w.r.t. S_k, the total weight is at most that of ANY spanning family
   taken from `cls`.  The pairing is an arbitrary function that is linear in its second argument on V,
   so no coordinate system is fixed here (the models pair a witness over forest-index coordinates with a
   cycle given as a set of edge ids).  Statements only; proofs in DePinaProofs.v. *)
From Coq Require Import List Arith Bool ZArith.
From Parmcb Require Export McbSpec.
Import ListNotations.

Section Abstract.
  Variable inV : vec -> Prop.
  Variable pair : vec -> vec -> bool.

  Definition subspace : Prop :=
    (forall Z, inV Z -> sorted Z) /\ inV [] /\ (forall a b, inV a -> inV b -> inV (vadd a b)).

  Definition pair_linear : Prop :=
    (forall S, pair S [] = false) /\
    (forall S a b, inV a -> inV b -> pair S (vadd a b) = xorb (pair S a) (pair S b)).

  Definition triangular (Ss Cs : list vec) : Prop :=
    length Ss = length Cs /\
    (forall k, k < length Cs -> pair (nth k Ss []) (nth k Cs []) = true) /\
    (forall j k, j < k -> k < length Cs -> pair (nth k Ss []) (nth j Cs []) = false).

  Definition nondegenerate (Ss : list vec) : Prop :=
    forall Y, inV Y -> (forall k, k < length Ss -> pair (nth k Ss []) Y = false) -> Y = [].
End Abstract.

Definition depina_basis_stmt : Prop :=
  forall (inV : vec -> Prop) (pair : vec -> vec -> bool) (Ss Cs : list vec),
    subspace inV -> pair_linear inV pair -> Forall inV Cs ->
    triangular pair Ss Cs -> nondegenerate inV pair Ss ->
    indep Cs /\ spans inV Cs.

Definition depina_min_stmt : Prop :=
  forall (inV : vec -> Prop) (pair : vec -> vec -> bool) (cls : vec -> Prop) (w : list Z)
         (Ss Cs B' : list vec),
    subspace inV -> pair_linear inV pair -> Forall inV Cs -> triangular pair Ss Cs ->
    (forall k D, k < length Cs -> cls D -> inV D -> pair (nth k Ss []) D = true ->
                 (weight w (nth k Cs []) <= weight w D)%Z) ->
    Forall cls B' -> Forall inV B' -> spans inV B' ->
    (forall D, In D B' -> (0 <= weight w D)%Z) ->
    (total_weight w Cs <= total_weight w B')%Z.
