(* SvaModel.v — the support-vector loop shared by every exact entry point
     include/parmcb/parmcb_sva_signed.hpp      (mcb_sva_signed: with the sparsest-support swap)
     include/parmcb/parmcb_sva_trees.hpp       (_mcb_sva_trees: no swap)
   generic in the weight type and in the per-phase search.  Definitions only.

   Supports are vectors over forest-index coordinates 0..csd-1 (SpVecGF2<size_t>); cycles are edge
   sets; convert_edges translates between the two through the ForestIndex.  A cycle is kept as the
   strictly increasing list of its edge ids (the canonical form of the std::set<Edge> the C++ holds —
   the C++ iterates that set in pointer order, which no consumer of the emitted list may rely on). *)
From Parmcb Require Export GraphModel ForestModel GF2Model.

(* convert_edges(std::set<Edge>, ..., forest_index): edge ids -> index set *)
Definition edges_to_indices (fi : forest_index) (c : list nat) : vec :=
  set_of_list (map (fun e => nth e (fi_idx fi) 0) c).
(* convert_edges(SpVecGF2, ..., forest_index): index vector -> edge ids, as a sorted edge set *)
Definition indices_to_edges (fi : forest_index) (s : vec) : list nat :=
  set_of_list (map (fun i => nth i (fi_rev fi) 0) s).

(* the sparsest-support heuristic of mcb_sva_signed: scan r = k+1 .. csd-1 with the early exit *)
Fixpoint min_support (sup : list vec) (cur : nat) (rs : list nat) : nat :=
  match rs with
  | [] => cur
  | r :: rs' =>
      let cur' := if Nat.ltb (length (nth r sup [])) (length (nth cur sup [])) then r else cur in
      if Nat.ltb (length (nth cur' sup [])) 5 then cur' else min_support sup cur' rs'
  end.
Definition select_min_support (csd k : nat) (sup : list vec) : nat :=
  min_support sup k (seq (S k) (csd - S k)).
Definition select_none (k : nat) (sup : list vec) : nat := k.

Definition swap_nth (sup : list vec) (a b : nat) : list vec :=
  let x := nth a sup [] in let y := nth b sup [] in set_nth (set_nth sup a y) b x.

(* for l = k+1 .. csd-1: if (support[l] * cyclek == 1) support[l] += support[k] *)
Definition update_supports (sup : list vec) (k : nat) (cyclek : vec) : list vec :=
  let Sk := nth k sup [] in
  map (fun lS => if Nat.ltb k (fst lS) && vdot (snd lS) cyclek then vadd (snd lS) Sk else snd lS)
      (combine (seq 0 (length sup)) sup).

Section Sva.
  Variable W : Type.
  Variable w0 : W.
  Variable wadd : W -> W -> W.

  Inductive phase_result :=
  | PFound (cycle : list nat) (w : W)     (* cycle = strictly increasing list of edge ids *)
  | PNone                                  (* assert(std::get<2>(best)) would fail / empty answer *)
  | PError.                                (* fuel / broken invariant inside the search model *)

  Inductive sva_result :=
  | SvaOk (cycles : list (list nat)) (weight : W) (supports : list vec)
  | SvaNoIndex                    (* ForestIndex failed (never on simple graphs, C16) *)
  | SvaNoCycle (k : nat)
  | SvaError (k : nat).

  Variable select : nat -> list vec -> nat.          (* which support is moved to position k *)
  Variable search : nat -> vec -> phase_result.      (* phase k, witness S_k (index coordinates) *)

  Fixpoint sva_phases (fi : forest_index) (ks : list nat) (sup : list vec)
           (acc : list (list nat)) (total : W) : sva_result :=
    match ks with
    | [] => SvaOk (rev acc) total sup
    | k :: ks' =>
        let ms := select k sup in
        let S1 := if Nat.eqb ms k then sup else swap_nth sup k ms in
        match search k (nth k S1 []) with
        | PError => SvaError k
        | PNone => SvaNoCycle k
        | PFound c w =>
            let cyclek := edges_to_indices fi c in
            sva_phases fi ks' (update_supports S1 k cyclek) (c :: acc) (wadd total w)
        end
    end.

  Definition sva_run (fi : forest_index) : sva_result :=
    let csd := fi_csd fi in
    sva_phases fi (seq 0 csd) (map (fun i => [i]) (seq 0 csd)) [] w0.
End Sva.

Arguments PFound {W}. Arguments PNone {W}. Arguments PError {W}.
Arguments SvaOk {W}. Arguments SvaNoIndex {W}. Arguments SvaNoCycle {W}. Arguments SvaError {W}.
