(* CandidatesModel.v — executable model of the candidate-cycle collections:
     include/parmcb/sptrees.hpp        SPTree::create_candidate_cycles, CandidateCycle
     include/parmcb/detail/cycles.hpp  HortonCyclesBuilder, FVSCyclesBuilder, ISOCyclesBuilder
   on top of LexSPModel.v (the trees) and FvsModel.v (greedy_fvs, pick oracle).  Generic in the weight type.
   Definitions only; proofs in CandidatesProofs.v.

   * A candidate is (tree id, edge id, weight); the tree id is the position of its tree in the builder's
     `trees` vector (Horton / ISO: tree i has source i; FVS: tree i has source fvs[i]).
   * std::set<Edge> tree_edges and std::map<pair<size_t, Edge>, vertex> cycle_to_vertex are used for membership /
     lookup only (never iterated), so the pointer order of edge descriptors does not matter.
   * cycle_to_vertex[key] on a missing key silently inserts vertex 0 in the C++; here it is the explicit error
     CdInconsistent.  Null tree nodes that the C++ would dereference are CdTreeErr.
   * boost::connected_components is used as an equivalence only (is_bad_component / is_in_output are indexed by
     component): the model computes the components by depth-first search with an explicit stack and names a
     component by the vertex the search started from; CdFuel if the (sufficient) fuel runs out.
   * cycle weight = weight(e) + node(source(e))->weight() + node(target(e))->weight(), added in this order with
     `wadd` (plain + in the C++; the exact domain has no numeric_limits::max). *)
From Parmcb Require Export GraphModel LexSPModel FvsModel.

Inductive cd_result (A : Type) : Type :=
| CdOk (a : A)
| CdTreeErr          (* a shortest-path tree failed, or a missing tree / tree node was needed *)
| CdFvsErr           (* greedy_fvs model did not complete under the given picks *)
| CdInconsistent     (* cycle_to_vertex lookup of a missing key *)
| CdFuel.
Arguments CdOk {A} a.
Arguments CdTreeErr {A}.
Arguments CdFvsErr {A}.
Arguments CdInconsistent {A}.
Arguments CdFuel {A}.

Fixpoint cd_enum {A} (i : nat) (l : list A) : list (nat * A) :=
  match l with [] => [] | x :: r => (i, x) :: cd_enum (S i) r end.

Section Cand.
  Variable W : Type.
  Variable w0 : W.
  Variable wadd : W -> W -> W.
  Variable wltb : W -> W -> bool.

  (* CandidateCycle *)
  Record cand := { c_tree : nat; c_edge : nat; c_weight : W }.

  (* "collect tree edges" *)
  Definition cd_tree_edges (t : sp_tree W) : list nat :=
    flat_map (fun o => match o with
                       | Some nd => match sn_pred nd with Some e => [e] | None => [] end
                       | None => []
                       end) (st_nodes t).

  (* body of the loop over the edges in create_candidate_cycles: e = (a, b) with source a, target b *)
  Definition cd_of_edge (wts : list W) (id : nat) (t : sp_tree W) (tes : list nat) (eab : nat * (nat * nat))
    : list cand :=
    let '(e, (a, b)) := eab in
    if memb e tes then []
    else match sp_node_of W t a with
         | None => []
         | Some v =>
             match sp_node_of W t b with
             | None => []
             | Some u =>
                 if Nat.eqb (sp_first W t a) (sp_first W t b) then []
                 else [{| c_tree := id; c_edge := e;
                          c_weight := wadd (wadd (lx_wt W w0 wts e) (sn_weight v)) (sn_weight u) |}]
             end
         end.

  (* SPTree::create_candidate_cycles() over boost::edges(g) *)
  Definition create_candidate_cycles (g : graph) (wts : list W) (id : nat) (t : sp_tree W) : list cand :=
    flat_map (cd_of_edge wts id t (cd_tree_edges t)) (cd_enum 0 (ge g)).

  (* trees.emplace_back(trees.size(), g, ..., v) for the given roots, then the candidates of every tree in order *)
  Definition cd_cycles_of_trees (g : graph) (wts : list W) (trees : list (sp_tree W)) : list cand :=
    flat_map (fun it => create_candidate_cycles g wts (fst it) (snd it)) (cd_enum 0 trees).

  Definition cd_trees (g : graph) (wts : list W) (roots : list nat) : cd_result (list (sp_tree W)) :=
    match lx_all W w0 wadd wltb g wts roots with
    | LxOk ts => CdOk ts
    | _ => CdTreeErr
    end.

  Definition cycles_of_roots (g : graph) (wts : list W) (roots : list nat)
    : cd_result (list (sp_tree W) * list cand) :=
    match cd_trees g wts roots with
    | CdOk ts => CdOk (ts, cd_cycles_of_trees g wts ts)
    | CdTreeErr => CdTreeErr | CdFvsErr => CdFvsErr | CdInconsistent => CdInconsistent | CdFuel => CdFuel
    end.

  (* HortonCyclesBuilder *)
  Definition horton_cycles (g : graph) (wts : list W) : cd_result (list (sp_tree W) * list cand) :=
    cycles_of_roots g wts (seq 0 (nv g)).

  (* FVSCyclesBuilder; `picks` is the oracle of FvsModel.greedy_fvs (= the emitted feedback vertex set) *)
  Definition fvs_cycles (g : graph) (wts : list W) (picks : list nat) : cd_result (list (sp_tree W) * list cand) :=
    match greedy_fvs g picks with
    | FvsOk fvs => cycles_of_roots g wts fvs
    | _ => CdFvsErr
    end.

  (* ---- ISOCyclesBuilder ---------------------------------------------------------------- *)

  (* cycle_to_vertex[(tree, e)]: the vertex of the cycle graph carrying that key (the last one assigned) *)
  Fixpoint cd_lookup (tree e : nat) (cv : list cand) (i : nat) (found : option nat) : option nat :=
    match cv with
    | [] => found
    | c :: r => cd_lookup tree e r (S i)
                          (if Nat.eqb (c_tree c) tree && Nat.eqb (c_edge c) e then Some i else found)
    end.

  Inductive cd_link := LinkNone | LinkTo (j : nat) | LinkBad.

  (* the body of the second loop over the vertices of cycles_g for the vertex carrying (tree, e) *)
  Definition cd_link_of (g : graph) (trees : list (sp_tree W)) (cv : list cand) (c : cand) : cd_result cd_link :=
    match nth_error trees (c_tree c), ends g (c_edge c) with
    | Some tree_x, Some (u, v) =>
        let e := c_edge c in
        let x := st_src tree_x in
        if Nat.eqb (sp_first W tree_x u) (sp_first W tree_x v) then CdOk LinkNone
        else if Nat.eqb x u then
          match cd_lookup v e cv 0 None with Some j => CdOk (LinkTo j) | None => CdInconsistent end
        else
          let xprime := sp_first W tree_x u in
          match nth_error trees xprime with
          | None => CdTreeErr
          | Some tree_xprime =>
              if Nat.eqb x (sp_first W tree_xprime v) then
                match cd_lookup xprime e cv 0 None with Some j => CdOk (LinkTo j) | None => CdInconsistent end
              else
                match nth_error trees v with
                | None => CdTreeErr
                | Some tree_v =>
                    if Nat.eqb u (sp_first W tree_v xprime) then
                      match sp_node_of W tree_x xprime with
                      | Some nd =>
                          match sn_pred nd with
                          | Some pe =>
                              match cd_lookup v pe cv 0 None with
                              | Some j => CdOk (LinkTo j) | None => CdInconsistent end
                          | None => CdInconsistent      (* Edge() of a node without predecessor: no such key *)
                          end
                      | None => CdTreeErr
                      end
                    else CdOk LinkBad
                end
          end
    | _, _ => CdTreeErr
    end.

  Fixpoint cd_links (g : graph) (trees : list (sp_tree W)) (cv : list cand) (todo : list cand)
    : cd_result (list cd_link) :=
    match todo with
    | [] => CdOk []
    | c :: r =>
        match cd_link_of g trees cv c with
        | CdOk l =>
            match cd_links g trees cv r with
            | CdOk ls => CdOk (l :: ls)
            | err => err
            end
        | CdTreeErr => CdTreeErr | CdFvsErr => CdFvsErr | CdInconsistent => CdInconsistent | CdFuel => CdFuel
        end
    end.

  (* adjacency lists of cycles_g: add_edge(i, j) appends j to i's list and i to j's *)
  Definition cd_add_edge (adj : list (list nat)) (i j : nat) : list (list nat) :=
    let adj1 := set_nth adj i (nth i adj [] ++ [j]) in
    set_nth adj1 j (nth j adj1 [] ++ [i]).

  Fixpoint cd_adj (links : list cd_link) (i : nat) (adj : list (list nat)) : list (list nat) :=
    match links with
    | [] => adj
    | LinkTo j :: r => cd_adj r (S i) (cd_add_edge adj i j)
    | _ :: r => cd_adj r (S i) adj
    end.

  (* depth-first search from the stack; comp[v] = Some c once v is assigned to component c *)
  Fixpoint cd_dfs (fuel : nat) (adj : list (list nat)) (c : nat) (stack : list nat) (comp : list (option nat))
    : option (list (option nat)) :=
    match stack with
    | [] => Some comp
    | v :: rest =>
        match fuel with
        | O => None
        | S fuel' =>
            match nth v comp None with
            | Some _ => cd_dfs fuel' adj c rest comp
            | None => cd_dfs fuel' adj c (nth v adj [] ++ rest) (set_nth comp v (Some c))
            end
        end
    end.

  Fixpoint cd_components (fuel : nat) (adj : list (list nat)) (vs : list nat) (comp : list (option nat))
    : option (list (option nat)) :=
    match vs with
    | [] => Some comp
    | v :: r =>
        match nth v comp None with
        | Some _ => cd_components fuel adj r comp
        | None =>
            match cd_dfs fuel adj v [v] comp with
            | Some comp' => cd_components fuel adj r comp'
            | None => None
            end
        end
    end.

  (* the output loop: first vertex of every component that contains no bad vertex *)
  Fixpoint cd_iso_out (g : graph) (wts : list W) (trees : list (sp_tree W)) (comp : list (option nat))
           (badc : list bool) (vs : list (nat * cand)) (inout : list bool) : cd_result (list cand) :=
    match vs with
    | [] => CdOk []
    | (i, c) :: r =>
        match nth i comp None with
        | None => CdFuel                                   (* every vertex has a component *)
        | Some k =>
            if negb (nth k badc false) && negb (nth k inout false) then
              match nth_error trees (c_tree c), ends g (c_edge c) with
              | Some tree_v, Some (a, b) =>
                  match sp_node_of W tree_v a, sp_node_of W tree_v b with
                  | Some nv', Some nu =>
                      match cd_iso_out g wts trees comp badc r (set_nth inout k true) with
                      | CdOk out =>
                          CdOk ({| c_tree := c_tree c; c_edge := c_edge c;
                                   c_weight := wadd (wadd (lx_wt W w0 wts (c_edge c)) (sn_weight nv')) (sn_weight nu) |}
                                  :: out)
                      | err => err
                      end
                  | _, _ => cd_iso_out g wts trees comp badc r inout      (* nullptr: continue *)
                  end
              | _, _ => CdTreeErr
              end
            else cd_iso_out g wts trees comp badc r inout
        end
    end.

  Definition cd_is_circuit (g : graph) (trees : list (sp_tree W)) (c : cand) : bool :=
    match nth_error trees (c_tree c), ends g (c_edge c) with
    | Some tree_x, Some (u, v) => negb (Nat.eqb (sp_first W tree_x u) (sp_first W tree_x v))
    | _, _ => false
    end.

  Fixpoint cd_mark_bad (links : list cd_link) (i : nat) (comp : list (option nat)) (badc : list bool) : list bool :=
    match links with
    | [] => badc
    | LinkBad :: r =>
        cd_mark_bad r (S i) comp (match nth i comp None with Some k => set_nth badc k true | None => badc end)
    | _ :: r => cd_mark_bad r (S i) comp badc
    end.

  Definition iso_cycles (g : graph) (wts : list W) : cd_result (list (sp_tree W) * list cand) :=
    match horton_cycles g wts with
    | CdOk (trees, allcycles) =>
        let cv := filter (cd_is_circuit g trees) allcycles in
        match cd_links g trees cv cv with
        | CdOk links =>
            let nvs := length cv in
            let adj := cd_adj links 0 (map (fun _ => []) (seq 0 nvs)) in
            match cd_components (2 * nvs + 2 * nvs + 1) adj (seq 0 nvs) (map (fun _ => None) (seq 0 nvs)) with
            | Some comp =>
                let badc := cd_mark_bad links 0 comp (map (fun _ => false) (seq 0 nvs)) in
                match cd_iso_out g wts trees comp badc (cd_enum 0 cv) (map (fun _ => false) (seq 0 nvs)) with
                | CdOk out => CdOk (trees, out)
                | CdTreeErr => CdTreeErr | CdFvsErr => CdFvsErr | CdInconsistent => CdInconsistent | CdFuel => CdFuel
                end
            | None => CdFuel
            end
        | CdTreeErr => CdTreeErr | CdFvsErr => CdFvsErr | CdInconsistent => CdInconsistent | CdFuel => CdFuel
        end
    | CdTreeErr => CdTreeErr | CdFvsErr => CdFvsErr | CdInconsistent => CdInconsistent | CdFuel => CdFuel
    end.
End Cand.

Arguments c_tree {W}.  Arguments c_edge {W}.  Arguments c_weight {W}.

(* the exact-domain instances *)
Definition horton_cycles_Z := horton_cycles Z 0%Z Z.add Z.ltb.
Definition fvs_cycles_Z := fvs_cycles Z 0%Z Z.add Z.ltb.
Definition iso_cycles_Z := iso_cycles Z 0%Z Z.add Z.ltb.
