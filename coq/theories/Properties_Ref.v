(* Properties_Ref.v — the verified reference minimum-cycle-basis algorithm and the verified boolean
   checkers of RefModel.v (DESIGN.md §4 rows OddRef and Checkers).  Only statements; each closed by
   [exact <lemma>] and followed by Print Assumptions.  The end theorems about ref_mcb / basis_checkb /
   mcb_checkb are proved in RefProofs3/4.v in `_from` form (the generic statements of SvaSpec.v as
   explicit premises) and closed here with the theorems of SvaProofs.v.

   Vocabulary: GraphSpec.v (simple_graph, simple_cycle, weight …), McbSpec.v (cycle_basis,
   min_cycle_basis, min_odd_cycle, has_cycle_space_dimension), SvaSpec.v (pairing, search_min …).
   odd_in sg D  :=  an odd number of the edges of D belongs to sg.

   Completeness of basis_checkb / mcb_checkb (a rejected family is not a (minimum) basis) and the invariance of
   dimension are proved in RefProofs6.v and stated in Properties_Ref2.v. *)
From Coq Require Import List Arith Bool ZArith.
From Parmcb Require Import GraphModel GF2Model GraphSpec McbSpec ForestModel SvaModel SvaSpec SvaProofs
  RefModel RefProofs1 RefProofs2 RefProofs3 RefProofs4 RefProofs5.
Import ListNotations.

(* 1. the raw simple-cycle checker is sound: an accepted list of edge ids (any order) is duplicate-free
      and its canonical form is a simple cycle *)
Theorem Ref_simple_cycle_checker_sound : forall g l,
  is_simple_cycle_rawb g l = true -> NoDup l /\ simple_cycle g (set_of_list l).
Proof. exact rf_is_simple_cycle_rawb_sound. Qed.
Print Assumptions Ref_simple_cycle_checker_sound.

(* … and complete on simple graphs: a duplicate-free list whose set is a simple cycle is accepted, in
   whatever order the ids are given *)
Theorem Ref_simple_cycle_checker_complete : forall g l,
  simple_graph g -> NoDup l -> simple_cycle g (set_of_list l) -> is_simple_cycle_rawb g l = true.
Proof. exact rf_is_simple_cycle_rawb_complete. Qed.
Print Assumptions Ref_simple_cycle_checker_complete.

(* 2. OddRef: whatever ref_search returns is a minimum-weight simple cycle among those containing an odd
      number of signed edges, reported with its weight *)
Theorem Ref_search_correct : forall g wts sg c w,
  simple_graph g -> positive_weights g wts -> ref_search g wts sg = PFound c w ->
  min_odd_cycle g wts (odd_in sg) c /\ w = weight wts c.
Proof. exact rf_ref_search_correct. Qed.
Print Assumptions Ref_search_correct.

(* … it never reports an internal error … *)
Theorem Ref_search_no_error : forall g wts sg,
  simple_graph g -> positive_weights g wts -> ref_search g wts sg <> PError.
Proof. exact rf_ref_search_no_error. Qed.
Print Assumptions Ref_search_no_error.

(* … and finds a cycle whenever an odd simple cycle exists (so PNone means: there is none) *)
Theorem Ref_search_total : forall g wts sg D,
  simple_graph g -> positive_weights g wts -> simple_cycle g D -> odd_in sg D ->
  exists c w, ref_search g wts sg = PFound c w.
Proof. exact rf_ref_search_total. Qed.
Print Assumptions Ref_search_total.

(* the bridge to the pairing of the support-vector scheme: for a canonical witness S over the coordinates
   0..csd-1 and any canonical set D of edge ids, <S, D> = 1 iff D has an odd number of edges in
   indices_to_edges fi S (through the ForestIndex bijection, C16) *)
Theorem Ref_pairing_bridge : forall g roots fi S D,
  simple_graph g -> (forall v, v < nv g -> In v roots) -> create_index g roots = Some fi ->
  sorted S -> (forall i, In i S -> i < fi_csd fi) ->
  sorted D -> (forall e, In e D -> e < ne g) ->
  pairing fi S D = oddb (indices_to_edges fi S) D.
Proof. exact rf_bridge. Qed.
Print Assumptions Ref_pairing_bridge.

(* ref_phase is an instance of SvaSpec.search_min (for EVERY witness: a non-canonical one is rejected) *)
Theorem Ref_phase_search_min : forall g wts roots fi,
  simple_graph g -> positive_weights g wts -> (forall v, v < nv g -> In v roots) ->
  create_index g roots = Some fi -> search_min g wts fi (ref_phase g wts fi).
Proof. exact rf_ref_phase_min. Qed.
Print Assumptions Ref_phase_search_min.

(* … and of search_total: every non-zero canonical witness has an odd simple cycle (a fundamental cycle) *)
Theorem Ref_phase_search_total : forall g wts roots fi,
  simple_graph g -> positive_weights g wts -> (forall v, v < nv g -> In v roots) ->
  create_index g roots = Some fi -> search_total fi (ref_phase g wts fi).
Proof. exact rf_ref_phase_total. Qed.
Print Assumptions Ref_phase_search_total.

(* 3. the reference algorithm returns a minimum cycle basis, its total weight, m - n + c cycles *)
Theorem Ref_mcb_correct : forall g wts roots B w sup,
  simple_graph g -> positive_weights g wts -> (forall v, v < nv g -> In v roots) ->
  ref_mcb g wts roots = SvaOk B w sup ->
  min_cycle_basis g wts B /\ w = total_weight wts B /\ has_cycle_space_dimension g (length B).
Proof. exact (rf_ref_mcb_correct_from sva_generic_min). Qed.
Print Assumptions Ref_mcb_correct.

(* … and always succeeds *)
Theorem Ref_mcb_total : forall g wts roots,
  simple_graph g -> positive_weights g wts -> (forall v, v < nv g -> In v roots) ->
  exists B w sup, ref_mcb g wts roots = SvaOk B w sup.
Proof. exact (rf_ref_mcb_total_from sva_generic_total). Qed.
Print Assumptions Ref_mcb_total.

(* the optimum: opt_weight is the total weight of EVERY minimum cycle basis, and one exists *)
Theorem Ref_opt_weight : forall g wts roots x,
  simple_graph g -> positive_weights g wts -> (forall v, v < nv g -> In v roots) ->
  opt_weight g wts roots = Some x ->
  (forall B, min_cycle_basis g wts B -> total_weight wts B = x)
  /\ (exists B, min_cycle_basis g wts B /\ total_weight wts B = x).
Proof. exact (rf_opt_weight_from sva_generic_min). Qed.
Print Assumptions Ref_opt_weight.

Theorem Ref_opt_weight_total : forall g wts roots,
  simple_graph g -> positive_weights g wts -> (forall v, v < nv g -> In v roots) ->
  exists x, opt_weight g wts roots = Some x.
Proof. exact (rf_opt_weight_total_from sva_generic_total). Qed.
Print Assumptions Ref_opt_weight_total.

(* 4. the basis checker is sound: an accepted family of raw cycles consists of duplicate-free lists whose
      canonical forms are a cycle basis with m - n + c members *)
Theorem Ref_basis_checkb_sound : forall g roots Cs,
  simple_graph g -> (forall v, v < nv g -> In v roots) ->
  basis_checkb g roots Cs = true ->
  Forall (fun l => NoDup l) Cs /\ cycle_basis g (map set_of_list Cs)
  /\ has_cycle_space_dimension g (length Cs).
Proof. exact (rf_basis_checkb_sound_from sva_generic_basis). Qed.
Print Assumptions Ref_basis_checkb_sound.

(* 5. the minimum-cycle-basis checker is sound *)
Theorem Ref_mcb_checkb_sound : forall g wts roots Cs,
  simple_graph g -> positive_weights g wts -> (forall v, v < nv g -> In v roots) ->
  mcb_checkb g wts roots Cs = true ->
  min_cycle_basis g wts (map set_of_list Cs) /\ has_cycle_space_dimension g (length Cs).
Proof. exact (rf_mcb_checkb_sound_from sva_generic_basis sva_generic_min). Qed.
Print Assumptions Ref_mcb_checkb_sound.

(* ---- non-vacuity: K4 with unit weights (edges 0:01 1:02 2:03 3:12 4:13 5:23).  The cycle space has
   dimension 3; the minimum cycle bases are the triples of triangles (weight 9, many ties); the hypotheses
   of the theorems hold; the checkers accept a minimum basis given in raw order, reject a basis containing
   a 4-cycle as non-minimum (but accept it as a basis), reject a dependent family, and the simple-cycle
   checker rejects a path, a list with a repeated edge and an out-of-range id. *)
Definition K4 : graph := {| nv := 4; ge := [(0, 1); (0, 2); (0, 3); (1, 2); (1, 3); (2, 3)] |}.
Definition K4w : list Z := [1; 1; 1; 1; 1; 1]%Z.

Example Ref_nonvacuous_hyps :
  simple_graph K4 /\ positive_weights K4 K4w /\ (forall v, v < nv K4 -> In v [3; 1; 0; 2]).
Proof.
  split; [reflexivity|]. split.
  - split; [reflexivity|]. repeat constructor.
  - intros v Hv. cbn [nv K4] in Hv.
    do 4 (destruct v as [|v]; [cbn [In]; tauto|]).
    exfalso. do 4 apply Nat.succ_lt_mono in Hv. inversion Hv.
Qed.

Example Ref_nonvacuous_opt :
  opt_weight K4 K4w [3; 1; 0; 2] = Some 9%Z
  /\ exists B sup, ref_mcb K4 K4w [3; 1; 0; 2] = SvaOk B 9%Z sup /\ length B = 3
                   /\ Forall (fun c => length c = 3) B.
Proof.
  split; [vm_compute; reflexivity|]. eexists; eexists. split; [vm_compute; reflexivity|].
  split; [reflexivity|]. repeat constructor.
Qed.

Example Ref_nonvacuous_checks :
  (* a minimum basis, raw order *)
  mcb_checkb K4 K4w [0; 1; 2; 3] [[3; 0; 1]; [4; 2; 0]; [1; 5; 2]] = true
  (* a basis that is not minimum: 4-cycle 0-1-2-3-0 = edges 0,3,5,2 *)
  /\ basis_checkb K4 [0; 1; 2; 3] [[3; 0; 1]; [4; 2; 0]; [5; 0; 2; 3]] = true
  /\ mcb_checkb K4 K4w [0; 1; 2; 3] [[3; 0; 1]; [4; 2; 0]; [5; 0; 2; 3]] = false
  (* dependent: the fourth triangle is the sum of the other three; too few; too many *)
  /\ basis_checkb K4 [0; 1; 2; 3] [[3; 0; 1]; [4; 2; 0]; [0; 1; 3]] = false
  /\ basis_checkb K4 [0; 1; 2; 3] [[3; 0; 1]; [4; 2; 0]] = false
  /\ basis_checkb K4 [0; 1; 2; 3] [[3; 0; 1]; [4; 2; 0]; [1; 5; 2]; [3; 4; 5]] = false
  (* the simple-cycle checker *)
  /\ is_simple_cycle_rawb K4 [5; 0; 2; 3] = true
  /\ is_simple_cycle_rawb K4 [0; 3] = false
  /\ is_simple_cycle_rawb K4 [0; 3; 1; 0] = false
  /\ is_simple_cycle_rawb K4 [0; 3; 7] = false
  /\ is_simple_cycle_rawb K4 [] = false
  (* the odd-cycle search: signed edges {1, 5}: triangle 1,2,5 has both (even); a lightest odd one is found *)
  /\ (exists c, ref_search K4 K4w [1; 5] = PFound c 3%Z)
  /\ ref_search K4 K4w [] = PNone.
Proof. vm_compute. repeat split; try reflexivity. eexists; reflexivity. Qed.
