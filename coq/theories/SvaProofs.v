(* SvaProofs.v — proofs of the three statements of SvaSpec.v about the support-vector loop of
   SvaModel.v (sva_run / sva_phases), for ANY per-phase search and ANY selection rule:

     sva_generic_basis : sva_generic_basis_stmt   the emitted cycles are a basis of the cycle space,
                                                  triangular w.r.t. the final supports, which are
                                                  non-degenerate on the cycle space
     sva_generic_min   : sva_generic_min_stmt     with a minimum-odd-cycle search: a minimum cycle basis
     sva_generic_total : sva_generic_total_stmt   with a total search: the loop ends in SvaOk

   and the versions sva_generic_{basis,min,total}_c whose search premises are only required for
   CANONICAL witnesses (sorted, non-zero, inside the coordinate range; sva_inv_row shows nothing else
   ever reaches the search) — the three statements above are their corollaries.  Also
   select_min_support_ok / select_none_ok for the two selection rules of SvaModel.v.

   Reusable pieces: e2i_mem / e2i_vadd (edges_to_indices is additive on valid edge sets),
   vdot_add_r_any (vdot is additive in its right argument for ANY left argument, canonical or not),
   pairing_linear_cs, nondegenerate_of_units / nondegenerate_of_orth, the loop invariant sva_inv with
   sva_inv_init / sva_inv_swap / sva_inv_update / sva_inv_step, sva_phases_inv, sva_phases_total.

   The invariant is mask-free.  Instead of "the supports span the units and are independent" it
   carries the two dual facts, which are preserved by row swaps and row additions without any
   bookkeeping of linear combinations:
     inv_orthc  no non-zero vector on the coordinates < csd is orthogonal to every support
                (equivalent to: the supports span the units; see nondegenerate_of_units)
     inv_surj   every target bit pattern t is realised: some v has <S_i, v> = t i for all i < csd
                (implies independence; used to show that no support is the zero vector)
   No axioms. *)
From Coq Require Import List Arith Bool ZArith Lia Sorted.
From Parmcb Require Import GraphModel GF2Model GF2Proofs GraphSpec GraphLemmas GF2Lin McbSpec DePinaSpec
     ForestModel ForestProofs SvaModel SvaSpec DePinaProofs.
Import ListNotations.

(* ---- vdot with an arbitrary (possibly non-canonical) left argument ------------------------
   The merge loop only ever counts the left-to-right maxima of its left argument, so for every u
   there is a canonical u' with the same products against canonical vectors. *)

Lemma vdot_filter_gt x u v : sorted u -> sorted v -> Forall (lt x) v ->
  vdot (filter (fun j => x <? j) u) v = vdot u v.
Proof.
  intros Hu Hv Hx. rewrite (vdot_sym _ v), (vdot_sym u v).
  rewrite !vdot_par by auto using filter_sorted.
  apply xsum_ext. intros j Hj. rewrite mem_filter.
  rewrite Forall_forall in Hx. apply Hx in Hj.
  destruct (Nat.ltb_spec x j); [apply andb_true_r|lia].
Qed.

Lemma vdot_norm u : exists u', sorted u' /\ forall v, sorted v -> vdot u v = vdot u' v.
Proof.
  induction u as [|x u IH].
  - exists []. split; [apply sorted_nil|reflexivity].
  - destruct IH as (u' & Su' & E). exists (x :: filter (fun j => x <? j) u'). split.
    + apply sorted_cons; [apply filter_sorted; exact Su'|].
      rewrite Forall_forall. intros j Hj. apply filter_In in Hj as [_ Hj]. apply Nat.ltb_lt; exact Hj.
    + intros v Hv. induction v as [|y v IHv]; [rewrite !vdot_nil_r; reflexivity|].
      pose proof (sorted_inv _ _ Hv) as [Hv' Hy]. rewrite !vdot_cons.
      destruct (Nat.compare_spec x y) as [Heq|Hlt|Hgt].
      * subst y. rewrite vdot_filter_gt by auto. f_equal. apply E; exact Hv'.
      * rewrite vdot_filter_gt; [apply E; exact Hv|exact Su'|exact Hv|].
        constructor; [exact Hlt|]. eapply Forall_impl; [|exact Hy]. cbn beta. intros a Ha. lia.
      * apply IHv; exact Hv'.
Qed.

Lemma vdot_add_r_any c a b : sorted a -> sorted b ->
  vdot c (vadd a b) = xorb (vdot c a) (vdot c b).
Proof.
  intros Ha Hb. destruct (vdot_norm c) as (c' & Sc & E).
  rewrite !E by auto using vadd_sorted. apply vdot_add_r; auto.
Qed.

(* ---- the list operations of the loop ------------------------------------------------------- *)

Lemma set_nth_same A : @GraphModel.set_nth A = @GF2Lin.set_nth A.
Proof. reflexivity. Qed.

Lemma swap_nth_length sup a b : length (swap_nth sup a b) = length sup.
Proof. unfold swap_nth. rewrite !set_nth_same, !set_nth_length. reflexivity. Qed.

Lemma nth_swap_nth sup a b l : a < length sup -> b < length sup ->
  nth l (swap_nth sup a b) [] =
  if l =? b then nth a sup [] else if l =? a then nth b sup [] else nth l sup [].
Proof.
  intros Ha Hb. unfold swap_nth. rewrite !set_nth_same.
  rewrite nth_set_nth by (rewrite set_nth_length; exact Hb).
  destruct (l =? b); [reflexivity|]. rewrite nth_set_nth by exact Ha. reflexivity.
Qed.

Lemma update_supports_length sup k cy : length (update_supports sup k cy) = length sup.
Proof. unfold update_supports. rewrite map_length, combine_length, seq_length. lia. Qed.

Lemma nth_update_supports sup k cy l : l < length sup ->
  nth l (update_supports sup k cy) [] =
  if (k <? l) && vdot (nth l sup []) cy then vadd (nth l sup []) (nth k sup []) else nth l sup [].
Proof.
  intros Hl. unfold update_supports.
  match goal with |- nth l (map ?f ?L) [] = _ =>
    rewrite (nth_indep (map f L) [] (f (0, []))) by (rewrite map_length, combine_length, seq_length; lia);
    rewrite (map_nth f L (0, []) l)
  end.
  rewrite combine_nth by apply seq_length. rewrite seq_nth by lia. cbn [fst snd plus]. reflexivity.
Qed.

Lemma nth_units N i : i < N -> nth i (map (fun i => [i]) (seq 0 N)) [] = [i].
Proof.
  intros Hi. rewrite (nth_indep _ [] ((fun i => [i]) 0)) by (rewrite map_length, seq_length; lia).
  rewrite (map_nth (fun i => [i])). rewrite seq_nth by lia. reflexivity.
Qed.

Lemma sorted_seq a n : sorted (seq a n).
Proof.
  revert a. induction n as [|n IH]; intros a; [apply sorted_nil|].
  cbn [seq]. apply sorted_cons; [apply IH|]. rewrite Forall_forall. intros j Hj.
  apply in_seq in Hj. lia.
Qed.

Lemma total_weight_app w A B : total_weight w (A ++ B) = (total_weight w A + total_weight w B)%Z.
Proof.
  unfold total_weight. induction A as [|C A IH]; cbn [app map fold_right]; [lia|]. rewrite IH. lia.
Qed.

(* ---- the forest index as a coordinate system ---------------------------------------------- *)

Definition idx (fi : forest_index) (e : nat) : nat := nth e (fi_idx fi) 0.
Definition redge (fi : forest_index) (i : nat) : nat := nth i (fi_rev fi) 0.

Lemma e2i_eq fi c : edges_to_indices fi c = set_of_list (map (idx fi) c).
Proof. reflexivity. Qed.

Lemma e2i_sorted fi c : sorted (edges_to_indices fi c).
Proof. apply set_of_list_sorted. Qed.

Lemma e2i_mem_In fi c i : mem (edges_to_indices fi c) i = true <-> exists e, In e c /\ idx fi e = i.
Proof.
  rewrite e2i_eq, set_of_list_mem. unfold dset. rewrite existsb_exists. split.
  - intros (j & Hj & E). apply Nat.eqb_eq in E. subst j.
    apply in_map_iff in Hj as (e & He & Hin). exists e. auto.
  - intros (e & He & <-). exists (idx fi e). split; [apply in_map; exact He|apply Nat.eqb_refl].
Qed.

Lemma pairing_add_l fi a b C : sorted a -> sorted b ->
  pairing fi (vadd a b) C = xorb (pairing fi a C) (pairing fi b C).
Proof. intros Ha Hb. unfold pairing. apply vdot_add_l; auto using e2i_sorted. Qed.

Section Index.
  Variables (g : graph) (roots : list nat) (fi : forest_index).
  Hypothesis Hs : simple_graph g.
  Hypothesis Hr : forall v, v < nv g -> In v roots.
  Hypothesis Hci : create_index g roots = Some fi.

  Local Notation N := (fi_csd fi).
  Local Notation forest :=
    (filter (fun e => match fi_on_forest fi e with Some true => true | _ => false end) (seq 0 (ne g))).

  (* what C16 (create_index_correct) says about THIS index *)
  Lemma ci_facts :
    (forall e, e < ne g -> fi_index fi e = Some (idx fi e) /\ idx fi e < ne g /\ redge fi (idx fi e) = e)
    /\ (forall i, i < ne g -> redge fi i < ne g /\ idx fi (redge fi i) = i)
    /\ n_components g (fi_k fi) /\ N + nv g = ne g + fi_k fi
    /\ spanning_forest_of g forest.
  Proof.
    destruct (create_index_correct g roots Hs Hr) as (fi' & E & _ & _ & Hf & Hb & Hc & Hd & _ & Hsf).
    rewrite Hci in E. injection E as <-.
    split; [|split; [|auto]].
    - intros e He. destruct (Hf e He) as (i & Hi & Hlt & Hrev). unfold fi_index, fi_edge in *.
      assert (Ei : idx fi e = i) by (apply nth_error_nth; exact Hi).
      rewrite Ei. split; [exact Hi|]. split; [exact Hlt|]. apply nth_error_nth; exact Hrev.
    - intros i Hi. destruct (Hb i Hi) as (e & He & Hlt & Hidx). unfold fi_index, fi_edge in *.
      assert (Ee : redge fi i = e) by (apply nth_error_nth; exact He).
      rewrite Ee. split; [exact Hlt|]. apply nth_error_nth; exact Hidx.
  Qed.

  Definition valid_edges (a : list nat) : Prop := forall e, In e a -> e < ne g.

  Lemma e2i_mem a i : valid_edges a ->
    mem (edges_to_indices fi a) i = (i <? ne g) && mem a (redge fi i).
  Proof.
    intros Ha. destruct ci_facts as (Hf & Hb & _).
    apply eq_true_iff_eq. rewrite e2i_mem_In, andb_true_iff, Nat.ltb_lt, mem_In. split.
    - intros (e & He & <-). destruct (Hf e (Ha e He)) as (_ & Hlt & Hrev).
      split; [exact Hlt|]. rewrite Hrev. exact He.
    - intros (Hi & Hin). exists (redge fi i). split; [exact Hin|]. apply Hb; exact Hi.
  Qed.

  Lemma valid_vadd a b : sorted a -> sorted b -> valid_edges a -> valid_edges b -> valid_edges (vadd a b).
  Proof.
    intros Sa Sb Ha Hb e He. apply mem_In in He. rewrite vadd_mem in He by assumption.
    destruct (mem a e) eqn:Ma; [apply Ha, mem_In; exact Ma|].
    destruct (mem b e) eqn:Mb; [apply Hb, mem_In; exact Mb|discriminate].
  Qed.

  (* statement (a): on valid edge sets the coordinate change is additive *)
  Lemma e2i_vadd a b : sorted a -> sorted b -> valid_edges a -> valid_edges b ->
    edges_to_indices fi (vadd a b) = vadd (edges_to_indices fi a) (edges_to_indices fi b).
  Proof.
    intros Sa Sb Ha Hb. apply sorted_ext; auto using e2i_sorted, vadd_sorted.
    intros i. rewrite vadd_mem by apply e2i_sorted.
    rewrite !e2i_mem by auto using valid_vadd. rewrite vadd_mem by assumption.
    destruct (i <? ne g), (mem a (redge fi i)), (mem b (redge fi i)); reflexivity.
  Qed.

  Lemma pairing_linear_cs : pair_linear (in_cycle_space g) (pairing fi).
  Proof.
    split.
    - intros S. unfold pairing. apply vdot_nil_r.
    - intros S a b (Sa & Va & _) (Sb & Vb & _). unfold pairing.
      rewrite e2i_vadd by assumption. apply vdot_add_r_any; apply e2i_sorted.
  Qed.

  (* an element of the cycle space without coordinates below csd lives on the forest: it is zero *)
  Lemma cs_no_low_coordinates Y : in_cycle_space g Y ->
    (forall i, i < N -> mem (edges_to_indices fi Y) i = false) -> Y = [].
  Proof.
    intros (SY & VY & EY) Hlow. destruct ci_facts as (Hf & _ & _ & _ & Hsf).
    assert (Hge : forall e, In e Y -> N <= idx fi e).
    { intros e He. destruct (Nat.le_gt_cases N (idx fi e)) as [Hle|Hlt]; [exact Hle|exfalso].
      specialize (Hlow _ Hlt).
      assert (Ht : mem (edges_to_indices fi Y) (idx fi e) = true)
        by (apply e2i_mem_In; exists e; auto).
      rewrite Ht in Hlow. discriminate. }
    destruct Y as [|e Y']; [reflexivity|exfalso].
    destruct Hsf as (_ & _ & Hac & _). apply (Hac (e :: Y')); [exact SY|discriminate| |exact EY].
    intros e' He'. apply filter_In. split; [apply in_seq; specialize (VY e' He'); lia|].
    unfold fi_on_forest. destruct (Hf e' (VY e' He')) as (-> & _).
    specialize (Hge e' He'). destruct (Nat.ltb_spec (idx fi e') N); [lia|reflexivity].
  Qed.

  (* statement (c), in the mask-free form carried by the invariant ... *)
  Lemma nondegenerate_of_orth sup :
    (forall i, i < length sup -> sorted (nth i sup []) /\ bounded N (nth i sup [])) ->
    (forall v, sorted v -> bounded N v ->
               (forall i, i < length sup -> vdot (nth i sup []) v = false) -> v = []) ->
    nondegenerate (in_cycle_space g) (pairing fi) sup.
  Proof.
    intros Hsb Ho Y HY Horth. apply cs_no_low_coordinates; [exact HY|].
    assert (Hres : res N (edges_to_indices fi Y) = []).
    { apply Ho; [apply res_sorted, e2i_sorted|apply res_bounded|].
      intros i Hi. destruct (Hsb i Hi) as [Si Bi].
      rewrite <- vdot_res by auto using e2i_sorted. apply Horth; exact Hi. }
    intros i Hi. pose proof (res_mem N (edges_to_indices fi Y) i) as M. rewrite Hres in M.
    apply Nat.ltb_lt in Hi. rewrite Hi, andb_true_r in M. rewrite <- M. reflexivity.
  Qed.

  (* ... and in the form "the units are combinations of the supports" *)
  Lemma nondegenerate_of_units sup : Forall sorted sup ->
    (forall i, i < N -> inspan sup [i]) ->
    nondegenerate (in_cycle_space g) (pairing fi) sup.
  Proof.
    intros Hsup Hun Y HY Horth. apply cs_no_low_coordinates; [exact HY|].
    intros i Hi. destruct (Hun i Hi) as (m & _ & Em).
    rewrite <- vdot_unit_l by apply e2i_sorted. rewrite <- Em, vdot_sym.
    apply vdot_comb_orth; [apply e2i_sorted|exact Hsup|].
    rewrite Forall_forall. intros C HC. apply (In_nth _ _ []) in HC as (k & Hk & <-).
    rewrite vdot_sym. apply Horth; exact Hk.
  Qed.

  (* the orthogonal-complement condition follows from the span condition *)
  Lemma orthc_of_units sup : Forall sorted sup -> (forall i, i < N -> inspan sup [i]) ->
    forall v, sorted v -> bounded N v ->
              (forall i, i < length sup -> vdot (nth i sup []) v = false) -> v = [].
  Proof.
    intros Hsup Hun v Sv Bv Horth. apply mem_nil_eq. intros i.
    destruct (Nat.lt_ge_cases i N) as [Hi|Hi].
    - destruct (Hun i Hi) as (m & _ & Em).
      rewrite <- vdot_unit_l by exact Sv. rewrite <- Em, vdot_sym.
      apply vdot_comb_orth; [exact Sv|exact Hsup|].
      rewrite Forall_forall. intros C HC. apply (In_nth _ _ []) in HC as (k & Hk & <-).
      rewrite vdot_sym. apply Horth; exact Hk.
    - destruct (mem v i) eqn:E; [|reflexivity]. apply mem_In in E.
      unfold bounded in Bv. rewrite Forall_forall in Bv. apply Bv in E. lia.
  Qed.

  (* ---- the loop ------------------------------------------------------------------------------ *)
  Section Loop.
    Variable W : Type.
    Variable wadd : W -> W -> W.
    Variable select : nat -> list vec -> nat.
    Variable search : nat -> vec -> phase_result W.

    (* state at the start of phase k: supports `sup`, cycles found so far `Cs` (C_0 .. C_{k-1}) *)
    Record sva_inv (k : nat) (sup Cs : list vec) : Prop := {
      inv_k : k <= N;
      inv_len : length sup = N;
      inv_lenC : length Cs = k;
      inv_sorted : forall i, i < N -> sorted (nth i sup []);
      inv_bounded : forall i, i < N -> bounded N (nth i sup []);
      inv_orthc : forall v, sorted v -> bounded N v ->
                            (forall i, i < N -> vdot (nth i sup []) v = false) -> v = [];
      inv_surj : forall t : nat -> bool,
                 exists v, sorted v /\ forall i, i < N -> vdot (nth i sup []) v = t i;
      (* the first k supports are final: phase j ran on S_j and returned C_j *)
      inv_found : forall j, j < k -> exists w, search j (nth j sup []) = PFound (nth j Cs []) w;
      (* every support is orthogonal to the earlier cycles found so far *)
      inv_low : forall i j, i < j -> i < k -> j < N ->
                            pairing fi (nth j sup []) (nth i Cs []) = false
    }.

    Lemma sva_inv_init : sva_inv 0 (map (fun i => [i]) (seq 0 N)) [].
    Proof.
      split.
      - lia.
      - rewrite map_length, seq_length. reflexivity.
      - reflexivity.
      - intros i Hi. rewrite nth_units by exact Hi. apply sorted_single.
      - intros i Hi. rewrite nth_units by exact Hi. constructor; [exact Hi|constructor].
      - intros v Sv Bv Hv. apply mem_nil_eq. intros i.
        destruct (Nat.lt_ge_cases i N) as [Hi|Hi].
        + specialize (Hv i Hi). rewrite nth_units, vdot_unit_l in Hv by assumption. exact Hv.
        + destruct (mem v i) eqn:E; [|reflexivity]. apply mem_In in E.
          unfold bounded in Bv. rewrite Forall_forall in Bv. apply Bv in E. lia.
      - intros t. exists (filter t (seq 0 N)).
        split; [apply filter_sorted, sorted_seq|].
        intros i Hi. rewrite nth_units by exact Hi.
        rewrite vdot_unit_l by apply filter_sorted, sorted_seq. rewrite mem_filter.
        assert (Hm : mem (seq 0 N) i = true) by (apply mem_In, in_seq; lia).
        rewrite Hm. reflexivity.
      - intros j Hj. lia.
      - intros i j _ Hi. lia.
    Qed.

    (* swapping two supports at positions >= k *)
    Lemma sva_inv_swap k sup Cs b : sva_inv k sup Cs -> k < N -> k <= b < N ->
      sva_inv k (swap_nth sup k b) Cs.
    Proof.
      intros I Hk Hb. destruct I as [Ik Il Ic Iso Ibd Ior Isu Ifo Ilo].
      set (sg := fun i => if i =? b then k else if i =? k then b else i).
      assert (Hnth : forall i, nth i (swap_nth sup k b) [] = nth (sg i) sup []).
      { intros i. rewrite nth_swap_nth by lia. unfold sg.
        destruct (i =? b); [reflexivity|]. destruct (i =? k); reflexivity. }
      assert (Hsg : forall i, i < N -> sg i < N).
      { intros i Hi. unfold sg. destruct (i =? b); [lia|]. destruct (i =? k); lia. }
      assert (Hsgge : forall i, i < k -> sg i = i).
      { intros i Hi. unfold sg. destruct (Nat.eqb_spec i b); [lia|].
        destruct (Nat.eqb_spec i k); [lia|reflexivity]. }
      assert (Hsgle : forall i, k <= i -> k <= sg i).
      { intros i Hi. unfold sg. destruct (i =? b); [lia|]. destruct (i =? k); lia. }
      assert (Hinv : forall i, sg (sg i) = i).
      { intros i. unfold sg.
        destruct (Nat.eqb_spec i b) as [Eib|Nib].
        - destruct (Nat.eqb_spec k b) as [Ekb|Nkb]; [lia|]. rewrite Nat.eqb_refl. lia.
        - destruct (Nat.eqb_spec i k) as [Eik|Nik].
          + rewrite Nat.eqb_refl. lia.
          + destruct (Nat.eqb_spec i b); [lia|]. destruct (Nat.eqb_spec i k); [lia|reflexivity]. }
      split.
      - exact Ik.
      - rewrite swap_nth_length. exact Il.
      - exact Ic.
      - intros i Hi. rewrite Hnth. apply Iso, Hsg, Hi.
      - intros i Hi. rewrite Hnth. apply Ibd, Hsg, Hi.
      - intros v Sv Bv Hv. apply Ior; [exact Sv|exact Bv|]. intros i Hi.
        replace (nth i sup []) with (nth (sg i) (swap_nth sup k b) [])
          by (rewrite Hnth, Hinv; reflexivity).
        apply Hv, Hsg, Hi.
      - intros t. destruct (Isu (fun i => t (sg i))) as (v & Sv & Hv). exists v.
        split; [exact Sv|]. intros i Hi. rewrite Hnth, Hv by (apply Hsg; exact Hi).
        rewrite Hinv. reflexivity.
      - intros j Hj. rewrite Hnth, Hsgge by exact Hj. apply Ifo; exact Hj.
      - intros i j Hij Hik Hj. rewrite Hnth. apply Ilo; [|exact Hik|apply Hsg; exact Hj].
        destruct (Nat.lt_ge_cases j k) as [Hjk|Hjk]; [rewrite Hsgge by exact Hjk; exact Hij|].
        specialize (Hsgle j Hjk). lia.
    Qed.

    (* every support is a legal witness: canonical, inside the coordinate range, non-zero *)
    Lemma sva_inv_row k sup Cs i : sva_inv k sup Cs -> i < N ->
      canonical_witness fi (nth i sup []).
    Proof.
      intros I Hi. split; [apply (inv_sorted _ _ _ I); exact Hi|]. split.
      - intros E. destruct (inv_surj _ _ _ I (fun l => l =? i)) as (v & _ & Hv).
        specialize (Hv i Hi). rewrite E, vdot_nil_l, Nat.eqb_refl in Hv. discriminate.
      - pose proof (inv_bounded _ _ _ I i Hi) as B. unfold bounded in B.
        rewrite Forall_forall in B. exact B.
    Qed.

    Hypothesis Hsnd : search_sound_c g fi search.

    (* phase k found c for the support at position k; the later supports are made orthogonal to c *)
    Lemma sva_inv_update k sup Cs c w : sva_inv k sup Cs -> k < N ->
      search k (nth k sup []) = PFound c w ->
      sva_inv (S k) (update_supports sup k (edges_to_indices fi c)) (Cs ++ [c]).
    Proof.
      intros I Hk Hsr. pose proof (sva_inv_row k sup Cs k I Hk) as Hcan.
      destruct I as [Ik Il Ic Iso Ibd Ior Isu Ifo Ilo].
      destruct (Hsnd k _ c w Hcan Hsr) as [Hcs Hodd].
      set (cy := edges_to_indices fi c) in *.
      set (cond := fun l => (k <? l) && vdot (nth l sup []) cy).
      assert (Hnth : forall l, l < N -> nth l (update_supports sup k cy) [] =
                if cond l then vadd (nth l sup []) (nth k sup []) else nth l sup []).
      { intros l Hl. apply nth_update_supports. lia. }
      assert (Hck : cond k = false) by (unfold cond; rewrite Nat.ltb_irrefl; reflexivity).
      assert (Hcle : forall l, l <= k -> cond l = false).
      { intros l Hl. unfold cond. destruct (Nat.ltb_spec k l); [lia|reflexivity]. }
      pose proof (Iso k Hk) as Sk.
      split.
      - lia.
      - rewrite update_supports_length. exact Il.
      - rewrite app_length. cbn [length]. lia.
      - intros i Hi. rewrite Hnth by exact Hi. destruct (cond i); auto using vadd_sorted.
      - intros i Hi. rewrite Hnth by exact Hi. destruct (cond i); auto using vadd_bounded.
      - intros v Sv Bv Hv. apply Ior; [exact Sv|exact Bv|].
        assert (Hkv : vdot (nth k sup []) v = false).
        { specialize (Hv k Hk). rewrite Hnth, Hck in Hv by exact Hk. exact Hv. }
        intros i Hi. specialize (Hv i Hi). rewrite Hnth in Hv by exact Hi.
        destruct (cond i); [|exact Hv].
        rewrite vdot_add_l in Hv by auto. rewrite Hkv, xorb_false_r in Hv. exact Hv.
      - intros t.
        destruct (Isu (fun l => if cond l then xorb (t l) (t k) else t l)) as (v & Sv & Hv).
        exists v. split; [exact Sv|]. intros i Hi. rewrite Hnth by exact Hi.
        destruct (cond i) eqn:Ec.
        + rewrite vdot_add_l by auto. rewrite (Hv i Hi), (Hv k Hk), Ec, Hck.
          destruct (t i), (t k); reflexivity.
        + rewrite (Hv i Hi), Ec. reflexivity.
      - intros j Hj. rewrite Hnth, Hcle by lia.
        destruct (Nat.eq_dec j k) as [Ejk|Njk].
        + subst j. rewrite app_nth2 by lia. rewrite Ic, Nat.sub_diag. cbn [nth].
          exists w. exact Hsr.
        + rewrite app_nth1 by lia. apply Ifo. lia.
      - intros i j Hij Hik Hj. rewrite Hnth by exact Hj.
        destruct (Nat.eq_dec i k) as [Eik|Nik].
        + subst i. rewrite app_nth2 by lia. rewrite Ic, Nat.sub_diag. cbn [nth].
          unfold cond. destruct (Nat.ltb_spec k j); [|lia]. cbn [andb].
          destruct (vdot (nth j sup []) cy) eqn:E.
          * rewrite pairing_add_l by auto. rewrite Hodd. unfold pairing. fold cy. rewrite E. reflexivity.
          * exact E.
        + rewrite app_nth1 by lia. destruct (cond j).
          * rewrite pairing_add_l by auto. rewrite (Ilo i j), (Ilo i k) by lia. reflexivity.
          * apply Ilo; lia.
    Qed.

    Hypothesis Hsel : select_ok N select.

    (* the supports after the optional swap of phase k *)
    Definition swapped (k : nat) (sup : list vec) : list vec :=
      if select k sup =? k then sup else swap_nth sup k (select k sup).

    Lemma sva_inv_swapped k sup Cs : sva_inv k sup Cs -> k < N -> sva_inv k (swapped k sup) Cs.
    Proof.
      intros I Hk. unfold swapped. destruct (select k sup =? k); [exact I|].
      apply sva_inv_swap; [exact I|exact Hk|]. apply Hsel; [exact Hk|apply (inv_len _ _ _ I)].
    Qed.

    (* one whole phase *)
    Lemma sva_inv_step k sup Cs c w : sva_inv k sup Cs -> k < N ->
      search k (nth k (swapped k sup) []) = PFound c w ->
      sva_inv (S k) (update_supports (swapped k sup) k (edges_to_indices fi c)) (Cs ++ [c]).
    Proof.
      intros I Hk Hsr. eapply sva_inv_update; [apply sva_inv_swapped; assumption|exact Hk|exact Hsr].
    Qed.

    Lemma sva_phases_unfold k ks sup acc total :
      sva_phases W wadd select search fi (k :: ks) sup acc total =
      match search k (nth k (swapped k sup) []) with
      | PError => SvaError k
      | PNone => SvaNoCycle k
      | PFound c w =>
          sva_phases W wadd select search fi ks
            (update_supports (swapped k sup) k (edges_to_indices fi c)) (c :: acc) (wadd total w)
      end.
    Proof. reflexivity. Qed.

    (* the invariant holds at the end of a successful run *)
    Lemma sva_phases_inv : forall n k sup acc total cycles tot supf,
      k + n = N -> sva_inv k sup (rev acc) ->
      sva_phases W wadd select search fi (seq k n) sup acc total = SvaOk cycles tot supf ->
      sva_inv N supf cycles.
    Proof.
      induction n as [|n IH]; intros k sup acc total cycles tot supf Hkn I Hrun.
      - cbn [seq sva_phases] in Hrun. injection Hrun as <- _ <-.
        replace N with k by lia. exact I.
      - cbn [seq] in Hrun. rewrite sva_phases_unfold in Hrun.
        destruct (search k (nth k (swapped k sup) [])) as [c w| |] eqn:Hsr; try discriminate.
        apply (IH (S k) _ _ _ _ _ _ ltac:(lia)) in Hrun; [exact Hrun|].
        cbn [rev]. apply (sva_inv_step k sup (rev acc) c w); [exact I|lia|exact Hsr].
    Qed.

    (* a total search makes the run total *)
    Lemma sva_phases_total : search_total fi search ->
      forall n k sup acc total, k + n = N -> sva_inv k sup (rev acc) ->
      exists cycles tot supf,
        sva_phases W wadd select search fi (seq k n) sup acc total = SvaOk cycles tot supf.
    Proof.
      intros Htot. induction n as [|n IH]; intros k sup acc total Hkn I.
      - cbn [seq sva_phases]. eauto.
      - cbn [seq]. rewrite sva_phases_unfold.
        assert (Hk : k < N) by lia.
        pose proof (sva_inv_swapped k sup (rev acc) I Hk) as I1.
        destruct (sva_inv_row k _ _ k I1 Hk) as (Sk & Nk & Bk).
        destruct (Htot k _ Sk Nk Bk) as (c & w & Hsr). rewrite Hsr.
        apply IH; [lia|]. cbn [rev]. apply (sva_inv_step k sup (rev acc) c w); assumption.
    Qed.

    (* what the final invariant says in the vocabulary of DePinaSpec / McbSpec *)
    Lemma sva_inv_final sup Cs : sva_inv N sup Cs ->
      length Cs = N /\ has_cycle_space_dimension g (length Cs)
      /\ Forall (in_cycle_space g) Cs
      /\ triangular (pairing fi) sup Cs
      /\ nondegenerate (in_cycle_space g) (pairing fi) sup.
    Proof.
      intros I. pose proof (inv_len _ _ _ I) as Il. pose proof (inv_lenC _ _ _ I) as Ic.
      destruct ci_facts as (_ & _ & Hcomp & Hdim & _).
      split; [exact Ic|]. split; [|split; [|split]].
      - exists (fi_k fi). rewrite Ic. split; assumption.
      - rewrite Forall_forall. intros C HC. apply (In_nth _ _ []) in HC as (j & Hj & <-).
        assert (Hj' : j < N) by (rewrite <- Ic; exact Hj).
        destruct (inv_found _ _ _ I j Hj') as (w & Hsr).
        apply (Hsnd _ _ _ _ (sva_inv_row _ _ _ j I Hj') Hsr).
      - split; [congruence|]. rewrite Ic. split.
        + intros j Hj. destruct (inv_found _ _ _ I j Hj) as (w & Hsr).
          apply (Hsnd _ _ _ _ (sva_inv_row _ _ _ j I Hj) Hsr).
        + intros i j Hij Hj. apply (inv_low _ _ _ I); lia.
      - assert (Hlt : forall i, i < length sup -> i < N) by (intros i Hi; rewrite <- Il; exact Hi).
        assert (Hgt : forall i, i < N -> i < length sup) by (intros i Hi; rewrite Il; exact Hi).
        apply nondegenerate_of_orth.
        + intros i Hi. apply Hlt in Hi.
          split; [apply (inv_sorted _ _ _ I)|apply (inv_bounded _ _ _ I)]; exact Hi.
        + intros v Sv Bv Hv. apply (inv_orthc _ _ _ I v Sv Bv). intros i Hi. apply Hv, Hgt, Hi.
    Qed.
  End Loop.
End Index.

(* ---- the accumulated weight ----------------------------------------------------------------- *)

Lemma sva_phases_weight g wts select (search : nat -> vec -> phase_result Z) fi :
  select_ok (fi_csd fi) select -> search_sound_c g fi search ->
  (forall k S c w, canonical_witness fi S -> search k S = PFound c w -> w = weight wts c) ->
  forall n k sup acc total cycles tot supf,
    k + n = fi_csd fi -> sva_inv fi Z search k sup (rev acc) ->
    sva_phases Z Z.add select search fi (seq k n) sup acc total = SvaOk cycles tot supf ->
    total = total_weight wts (rev acc) -> tot = total_weight wts cycles.
Proof.
  intros Hsel Hsnd Hw. induction n as [|n IH]; intros k sup acc total cycles tot supf Hkn I Hrun Htot.
  - cbn [seq sva_phases] in Hrun. injection Hrun as <- <- _. exact Htot.
  - cbn [seq] in Hrun. rewrite sva_phases_unfold in Hrun.
    assert (Hk : k < fi_csd fi) by lia.
    pose proof (sva_inv_swapped fi Z select search Hsel k sup (rev acc) I Hk) as I1.
    pose proof (sva_inv_row fi Z search k _ _ k I1 Hk) as Hcan.
    destruct (search k (nth k (swapped select k sup) [])) as [c w| |] eqn:Hsr; try discriminate.
    apply (IH (S k)) in Hrun; [exact Hrun|lia| |].
    + cbn [rev]. apply (sva_inv_step g fi Z select search Hsnd Hsel k sup (rev acc) c w); assumption.
    + cbn [rev]. rewrite total_weight_app.
      rewrite (Hw _ _ _ _ Hcan Hsr), Htot. unfold total_weight at 3. cbn [map fold_right]. lia.
Qed.

(* ---- the selection rules of the entry points ------------------------------------------------- *)

Lemma min_support_range sup lo hi : forall rs cur,
  lo <= cur < hi -> (forall r, In r rs -> lo <= r < hi) -> lo <= min_support sup cur rs < hi.
Proof.
  induction rs as [|r rs IH]; intros cur Hc Hrs; [exact Hc|].
  cbn [min_support].
  assert (Hr : lo <= r < hi) by (apply Hrs; left; reflexivity).
  assert (Hc' : lo <= (if length (nth r sup []) <? length (nth cur sup []) then r else cur) < hi)
    by (destruct (length (nth r sup []) <? length (nth cur sup [])); assumption).
  match goal with |- context [if ?b then _ else min_support _ _ _] => destruct b end; [exact Hc'|].
  apply IH; [exact Hc'|]. intros r' Hr'. apply Hrs. right. exact Hr'.
Qed.

Lemma select_min_support_ok : forall csd, select_ok csd (select_min_support csd).
Proof.
  intros csd k sup Hk _. unfold select_min_support. apply min_support_range; [lia|].
  intros r Hr. apply in_seq in Hr. lia.
Qed.

Lemma select_none_ok : forall csd, select_ok csd select_none.
Proof. intros csd k sup Hk _. unfold select_none. lia. Qed.

(* ---- the statements of SvaSpec.v -------------------------------------------------------------- *)

Lemma search_sound_weaken g fi W (search : nat -> vec -> phase_result W) :
  search_sound g fi search -> search_sound_c g fi search.
Proof. intros H k S c w _ E. exact (H k S c w E). Qed.

Lemma search_min_weaken g wts fi search : search_min g wts fi search -> search_min_c g wts fi search.
Proof. intros H k S c w _ E. exact (H k S c w E). Qed.

Lemma search_min_c_sound g wts fi search : simple_graph g ->
  search_min_c g wts fi search -> search_sound_c g fi search.
Proof.
  intros Hs Hmin k S c w HS E. destruct (Hmin k S c w HS E) as [(Hsc & Hodd & _) _].
  split; [apply simple_cycle_in_cycle_space; assumption|exact Hodd].
Qed.

Lemma sva_run_inv g fi W w0 wadd select search cycles total sup :
  select_ok (fi_csd fi) select -> search_sound_c g fi search ->
  sva_run W w0 wadd select search fi = SvaOk cycles total sup ->
  sva_inv fi W search (fi_csd fi) sup cycles.
Proof.
  intros Hsel Hsnd Hrun. unfold sva_run in Hrun.
  eapply (sva_phases_inv g fi W wadd select search Hsnd Hsel (fi_csd fi) 0);
    [reflexivity| |exact Hrun].
  cbn [rev]. apply sva_inv_init.
Qed.

Theorem sva_generic_basis_c : sva_generic_basis_c_stmt.
Proof.
  intros g roots fi W w0 wadd select search cycles total sup Hs Hr Hci Hsel Hsnd Hrun.
  pose proof (sva_run_inv g fi W w0 wadd select search cycles total sup Hsel Hsnd Hrun) as I.
  destruct (sva_inv_final g roots fi Hs Hr Hci W search Hsnd sup cycles I) as (Hl & Hd & HV & HT & Hnd).
  destruct (depina_basis (in_cycle_space g) (pairing fi) sup cycles
              (cycle_space_subspace g) (pairing_linear_cs g roots fi Hs Hr Hci) HV HT Hnd) as (Hin & Hsp).
  repeat (split; [assumption|]). exact Hsp.
Qed.

Theorem sva_generic_min_c : sva_generic_min_c_stmt.
Proof.
  intros g wts roots fi select search cycles total sup Hs Hpw Hr Hci Hsel Hmin Hrun.
  pose proof (search_min_c_sound g wts fi search Hs Hmin) as Hsnd.
  pose proof (sva_run_inv g fi Z 0%Z Z.add select search cycles total sup Hsel Hsnd Hrun) as I.
  destruct (sva_inv_final g roots fi Hs Hr Hci Z search Hsnd sup cycles I) as (Hl & Hd & HV & HT & Hnd).
  destruct HT as (HTl & HTd & HTlow).
  split; [|split; [|exact Hd]].
  - apply depina_min_basis_moc with (pair := pairing fi) (Ss := sup); auto.
    + apply (pairing_linear_cs g roots fi Hs Hr Hci).
    + intros k Hk. assert (Hk' : k < fi_csd fi) by (rewrite <- Hl; exact Hk).
      destruct (inv_found _ _ _ _ _ _ I k Hk') as (w & Hsr).
      apply (Hmin _ _ _ _ (sva_inv_row _ _ _ _ _ _ k I Hk') Hsr).
  - unfold sva_run in Hrun.
    assert (Hw : forall k S c w, canonical_witness fi S -> search k S = PFound c w -> w = weight wts c)
      by (intros k S c w HS Hsr; apply (Hmin _ _ _ _ HS Hsr)).
    exact (sva_phases_weight g wts select search fi Hsel Hsnd Hw (fi_csd fi) 0 _ [] 0%Z cycles total sup
             eq_refl (sva_inv_init fi Z search) Hrun eq_refl).
Qed.

Theorem sva_generic_total_c : sva_generic_total_c_stmt.
Proof.
  intros g roots fi W w0 wadd select search Hs Hr Hci Hsel Hsnd Htot. unfold sva_run.
  apply (sva_phases_total g fi W wadd select search Hsnd Hsel Htot (fi_csd fi) 0);
    [reflexivity|].
  cbn [rev]. apply sva_inv_init.
Qed.

(* the statements with premises over ALL witnesses are corollaries *)
Theorem sva_generic_basis : sva_generic_basis_stmt.
Proof.
  intros g roots fi W w0 wadd select search cycles total sup Hs Hr Hci Hsel Hsnd Hrun.
  apply (sva_generic_basis_c g roots fi W w0 wadd select search cycles total sup); auto using search_sound_weaken.
Qed.

Theorem sva_generic_min : sva_generic_min_stmt.
Proof.
  intros g wts roots fi select search cycles total sup Hs Hpw Hr Hci Hsel Hmin Hrun.
  apply (sva_generic_min_c g wts roots fi select search cycles total sup); auto using search_min_weaken.
Qed.

Theorem sva_generic_total : sva_generic_total_stmt.
Proof.
  intros g roots fi W w0 wadd select search Hs Hr Hci Hsel Hsnd Htot.
  apply (sva_generic_total_c g roots fi W w0 wadd select search); auto using search_sound_weaken.
Qed.

Print Assumptions sva_generic_basis_c.
Print Assumptions sva_generic_min_c.
Print Assumptions sva_generic_total_c.
Print Assumptions sva_generic_basis.
Print Assumptions sva_generic_min.
Print Assumptions sva_generic_total.
