(* MpiTreesProofs2.v — one phase on one rank of the MPI tree variants, exact domain (Z, positive weights).
   For a rank that received the serialised pairs of a sub-list cs of rank 0's sound collection (trees0, cands0):
     mv_local_ok        its rebuilt collection (ts, L) is again a sound collection (trees_collection_ok), and the candidates
                        of L and cs correspond one to one: same tree, same edge, same recorded weight, hence the same cycle
     mv_local_min       what a local lookup may answer: not-found when no local candidate is odd, otherwise the cycle of an
                        odd local candidate with its true weight, no odd local candidate being lighter
     mv_seq_lookup      the sequential lookup (first answering candidate of ANY valid sort arrangement) answers so
     mv_tbb_lookup      so does every answer accepted by mt_min_accept (the TBB flavour, every schedule)
     mv_acc_ok          such an answer is a minimum, in the sense of MpiProofs3.acc_ok, over the positions of cs in cands0,
                        with  opt i = the answer weight of rank 0's i-th candidate  (None if it is not odd)
     mv_complete        sufficiency of the collection makes `opt` complete: every odd simple cycle is dominated.
   Prefix mv_. *)
From Coq Require Import List Arith Bool Lia ZArith Permutation.
From Parmcb Require Import GraphModel GraphSpec GraphLemmas GF2Model GF2Proofs McbSpec ForestModel ForestProofs
     LexSPModel LexSPProofs DePinaProofs CandidatesModel CandidatesProofs CandidatesProofsZ SvaModel SvaSpec SvaProofs
     RefModel RefProofs2 RefProofs3 TreesModel TreesProofs1 TreesProofs2 TreesProofs3
     MpiModel MpiProofs1 MpiProofs3 MpiTreesModel MpiTreesProofs1.
Import ListNotations.

(* ---- the sort arrangement ------------------------------------------------------------------------------------------- *)
Lemma mv_all_some {A} : forall (l : list (option A)) s, mt_all_some l = Some s -> l = map Some s.
Proof.
  induction l as [|[a|] l IH]; intros s H; cbn [mt_all_some] in H; try discriminate.
  - injection H as <-. reflexivity.
  - destruct (mt_all_some l) as [s'|]; [|discriminate]. injection H as <-. cbn [map]. f_equal. apply IH. reflexivity.
Qed.

Lemma mv_nth_error_seq {A} (l : list A) : map (nth_error l) (seq 0 (length l)) = map Some l.
Proof.
  assert (H : forall k (pre : list A), length pre = k ->
                map (nth_error (pre ++ l)) (seq k (length l)) = map Some l).
  { induction l as [|x l IH]; intros k pre Hk; [reflexivity|]. cbn [length seq map]. f_equal.
    - rewrite nth_error_app2 by lia. rewrite Hk, Nat.sub_diag. reflexivity.
    - replace (pre ++ x :: l) with ((pre ++ [x]) ++ l) by (rewrite <- app_assoc; reflexivity).
      apply IH. rewrite app_length. cbn [length]. lia. }
  exact (H 0 [] eq_refl).
Qed.

Lemma mv_map_some_inj {A} : forall (a b : list A), map Some a = map Some b -> a = b.
Proof.
  induction a as [|x a IH]; intros [|y b] H; cbn [map] in H; try discriminate; [reflexivity|].
  injection H as -> H. f_equal. apply IH; exact H.
Qed.

Lemma mv_sort_spec l arr s : mt_sort Z Z.ltb l arr = MtOk s -> Permutation s l /\ mt_sortedb Z Z.ltb s = true.
Proof.
  unfold mt_sort. destruct (list_eq_dec Nat.eq_dec (sort_nat arr) (seq 0 (length l))) as [E|]; [|discriminate].
  destruct (mt_all_some (mt_arrange Z l arr)) as [s'|] eqn:Ea; [|discriminate].
  destruct (mt_sortedb Z Z.ltb s') eqn:Es; [|discriminate]. intros [= <-]. split; [|exact Es].
  apply mv_all_some in Ea. unfold mt_arrange in Ea.
  assert (Hp : Permutation (map Some l) (map Some s')).
  { rewrite <- Ea, <- mv_nth_error_seq. apply Permutation_map. rewrite <- E. apply Permutation_sym, sort_nat_perm. }
  apply Permutation_map_inv in Hp as (l3 & E3 & Hp3). apply mv_map_some_inj in E3. subst l3.
  exact Hp3.
Qed.

Lemma mv_sorted_app pre c post : mt_sortedb Z Z.ltb (pre ++ c :: post) = true ->
  forall d, In d post -> (c_weight c <= c_weight d)%Z.
Proof.
  induction pre as [|p pre IH]; cbn [app mt_sortedb]; intros H d Hd; apply andb_true_iff in H as [H1 H2].
  - rewrite forallb_forall in H1. specialize (H1 d Hd). apply negb_true_iff, Z.ltb_ge in H1. exact H1.
  - apply IH; assumption.
Qed.

(* the cycle of a candidate depends on the candidate's edge and recorded weight only *)
Lemma mv_c14_transfer g wts t (c c' : cand Z) C :
  c_edge c' = c_edge c -> c_weight c' = c_weight c -> c14_cycle g wts t c C -> c14_cycle g wts t c' C.
Proof. intros He Hw H. unfold c14_cycle in *. rewrite He, Hw. exact H. Qed.

Lemma mv_slice_map {A B} (f : A -> B) P r (l : list A) : slice P r (map f l) = map f (slice P r l).
Proof. unfold slice. rewrite map_length, skipn_map, firstn_map. reflexivity. Qed.

Lemma mv_nth_error_firstn {A} : forall n (l : list A) j, j < n -> nth_error (firstn n l) j = nth_error l j.
Proof.
  induction n as [|n IH]; intros l j Hj; [lia|]. destruct l as [|x l]; [destruct j; reflexivity|].
  destruct j as [|j]; [reflexivity|]. cbn [firstn nth_error]. apply IH. lia.
Qed.

Lemma mv_nth_error_skipn {A} : forall n (l : list A) j, nth_error (skipn n l) j = nth_error l (n + j).
Proof.
  induction n as [|n IH]; intros l j; [reflexivity|]. destruct l as [|x l]; [destruct j; reflexivity|].
  cbn [skipn Nat.add nth_error]. apply IH.
Qed.

Lemma mv_slice_In {A} P r (l : list A) c :
  In c (slice P r l) <-> exists i, in_slice (length l) P r i /\ nth_error l i = Some c.
Proof.
  unfold slice, in_slice. set (lo := slice_lo (length l) P r). set (len := slice_len (length l) P r). split.
  - intros H. apply In_nth_error in H as [j Hj].
    assert (Hjl : j < len).
    { assert (Hlt : j < length (firstn len (skipn lo l))) by (apply nth_error_Some; rewrite Hj; discriminate).
      rewrite firstn_length in Hlt. lia. }
    rewrite mv_nth_error_firstn in Hj by exact Hjl. rewrite mv_nth_error_skipn in Hj.
    exists (lo + j). split; [lia|exact Hj].
  - intros (i & Hi & Hn). apply (nth_error_In _ (i - lo)).
    rewrite mv_nth_error_firstn by lia. rewrite mv_nth_error_skipn. replace (lo + (i - lo)) with i by lia. exact Hn.
Qed.

Section Rank.
  Variables (g : graph) (wts : list Z) (roots : list nat) (fi : forest_index).
  Hypothesis Hsg : simple_graph g.
  Hypothesis Hpos : positive_weights g wts.
  Hypothesis Hr : forall v, v < nv g -> In v roots.
  Hypothesis Hci : create_index g roots = Some fi.

  (* rank 0's collection *)
  Variables (trees0 : list (sp_tree Z)) (cands0 : list (cand Z)).
  Hypothesis Hcol0 : trees_collection_ok g wts trees0 cands0.
  Hypothesis Hcands0 : forall c, In c cands0 ->
    exists t, nth_error trees0 (c_tree c) = Some t /\ cd_is_cand Z 0%Z Z.add g wts (c_tree c) t c.

  Notation ser := (mu_ser Z fi trees0).

  (* lc (in the rank's vector, tree vector ts) and c (in rank 0's) are the same candidate *)
  Definition mv_same (ts : list (sp_tree Z)) (lc c : cand Z) : Prop :=
    exists t, nth_error ts (c_tree lc) = Some t /\ nth_error trees0 (c_tree c) = Some t /\
              c_edge lc = c_edge c /\ c_weight lc = c_weight c.

  Lemma mv_key_same ts lc c :
    Forall (fun t => sptree_Z g wts (st_src t) = LxOk t) ts -> In c cands0 ->
    mu_key Z ts lc = mu_key Z trees0 c -> mv_same ts lc c.
  Proof.
    intros Hts Hc Hk. unfold mu_key in Hk. injection Hk as Hroot He Hw.
    destruct (Hcands0 c Hc) as [t0 [Ht0 _]]. unfold cd_root in Hroot. rewrite Ht0 in Hroot.
    destruct (nth_error ts (c_tree lc)) as [t|] eqn:Et; [|discriminate]. cbn [option_map] in Hroot.
    injection Hroot as Hsrc.
    assert (Ht : sptree_Z g wts (st_src t) = LxOk t).
    { rewrite Forall_forall in Hts. apply Hts. eapply nth_error_In; eauto. }
    assert (Ht0' : sptree_Z g wts (st_src t0) = LxOk t0).
    { destruct Hcol0 as [HF _]. rewrite Forall_forall in HF. apply HF. eapply nth_error_In; eauto. }
    rewrite Hsrc, Ht0' in Ht. injection Ht as <-. exists t0. auto.
  Qed.

  Section Chunk.
    Variable cs : list (cand Z).
    Hypothesis Hincl : incl cs cands0.
    Variables (ts : list (sp_tree Z)) (L : list (cand Z)).
    Hypothesis Hloc : mt_local_Z g wts fi (map ser cs) = MtOk (ts, L).

    Lemma mv_local_facts :
      Forall (fun t => sptree_Z g wts (st_src t) = LxOk t) ts /\
      Permutation (map (mu_key Z ts) L) (map (mu_key Z trees0) cs).
    Proof.
      destruct Hcol0 as [HF _].
      destruct (mu_local Z 0%Z Z.add Z.ltb g wts roots fi Hsg Hr Hci trees0 cands0 HF Hcands0 cs Hincl)
        as (ts' & L' & Hl & H1 & H2 & _).
      unfold mt_local_Z in Hloc. rewrite Hl in Hloc. injection Hloc as <- <-. auto.
    Qed.

    Lemma mv_to_global lc : In lc L -> exists c, In c cs /\ mv_same ts lc c.
    Proof.
      intros Hlc. destruct mv_local_facts as [Hts Hp].
      assert (Hk : In (mu_key Z ts lc) (map (mu_key Z trees0) cs)).
      { apply (Permutation_in _ Hp). apply in_map. exact Hlc. }
      apply in_map_iff in Hk as [c [Ek Hc]]. exists c. split; [exact Hc|].
      apply mv_key_same; [exact Hts|apply Hincl; exact Hc|symmetry; exact Ek].
    Qed.

    Lemma mv_to_local c : In c cs -> exists lc, In lc L /\ mv_same ts lc c.
    Proof.
      intros Hc. destruct mv_local_facts as [Hts Hp].
      assert (Hk : In (mu_key Z trees0 c) (map (mu_key Z ts) L)).
      { apply (Permutation_in _ (Permutation_sym Hp)). apply in_map. exact Hc. }
      apply in_map_iff in Hk as [lc [Ek Hlc]]. exists lc. split; [exact Hlc|].
      apply mv_key_same; [exact Hts|apply Hincl; exact Hc|exact Ek].
    Qed.

    (* the rank's collection is sound *)
    Lemma mv_local_ok : trees_collection_ok g wts ts L.
    Proof.
      destruct mv_local_facts as [Hts _]. split; [exact Hts|].
      intros lc Hlc. destruct (mv_to_global lc Hlc) as [c [Hc [t [Ht [Ht0 [He Hw]]]]]].
      destruct Hcol0 as [_ Hs0]. destruct (Hs0 c (Hincl c Hc)) as [t' [C [Ht' [Hsp HC]]]].
      rewrite Ht0 in Ht'. injection Ht' as <-. exists t, C. split; [exact Ht|]. split; [exact Hsp|].
      eapply mv_c14_transfer; eauto.
    Qed.

    Lemma mv_trees_spec : forall i t, nth_error ts i = Some t -> lx_tree_spec Z 0%Z Z.add g wts (st_src t) t.
    Proof. apply (tb_sound_trees_ok g wts). apply mv_local_ok. Qed.

    (* ---- what a local lookup may answer ---------------------------------------------------------------- *)
    Definition mv_local_min (sg : list nat) (b : option (list nat * Z)) : Prop :=
      match b with
      | None => forall lc t C, In lc L -> nth_error ts (c_tree lc) = Some t -> c14_cycle g wts t lc C -> oddb sg C = false
      | Some (C, w) =>
          (exists lc t, In lc L /\ nth_error ts (c_tree lc) = Some t /\ c14_cycle g wts t lc C /\
                        oddb sg C = true /\ w = weight wts C)
          /\ forall d t' C', In d L -> nth_error ts (c_tree d) = Some t' -> c14_cycle g wts t' d C' ->
                             oddb sg C' = true -> (w <= weight wts C')%Z
      end.

    Lemma mv_cycle_unique lc t C C' : nth_error ts (c_tree lc) = Some t ->
      c14_cycle g wts t lc C -> c14_cycle g wts t lc C' -> C = C'.
    Proof. intros Ht. apply tr_c14_cycle_unique. eapply mv_trees_spec; eauto. Qed.

    Lemma mv_c14_weight t (c : cand Z) C : c14_cycle g wts t c C -> c_weight c = weight wts C.
    Proof. intros [_ [_ [_ [_ [_ [_ [_ [_ [_ [_ [_ [_ [_ [_ [_ [_ H]]]]]]]]]]]]]]]]. exact H. Qed.

    (* the sorted scan *)
    Lemma mv_scan pars sg :
      (forall i t, nth_error ts i = Some t -> update_parities Z g t sg = TrOk (nth i pars [])) ->
      forall sorted, (forall lc, In lc sorted -> In lc L) ->
      exists b, mt_scan Z 0%Z Z.add g wts ts pars sg sorted = TrOk b /\
        match b with
        | None => forall lc t C, In lc sorted -> nth_error ts (c_tree lc) = Some t -> c14_cycle g wts t lc C ->
                                 oddb sg C = false
        | Some (C, w) =>
            exists pre lc post t, sorted = pre ++ lc :: post /\ nth_error ts (c_tree lc) = Some t /\
              c14_cycle g wts t lc C /\ oddb sg C = true /\ w = weight wts C /\
              forall d t' C', In d pre -> nth_error ts (c_tree d) = Some t' -> c14_cycle g wts t' d C' ->
                              oddb sg C' = false
        end.
    Proof.
      intros Hpars. induction sorted as [|c sorted IH]; intros Hin.
      - exists None. split; [reflexivity|]. intros lc t C [].
      - destruct mv_local_ok as [_ Hsound].
        destruct (Hsound c (Hin c (or_introl eq_refl))) as [t [C [Ht [_ HC]]]].
        pose proof (tb_build_ok g wts Hsg ts pars sg c t C _ Ht (mv_trees_spec _ _ Ht) HC eq_refl (Hpars _ _ Ht)) as Hb.
        cbn [mt_scan]. rewrite Hb. destruct (oddb sg C) eqn:Eo.
        + exists (Some (C, weight wts C)). split; [reflexivity|]. exists [], c, sorted, t.
          split; [reflexivity|]. repeat (split; [assumption || reflexivity|]). intros d t' C' [].
        + destruct (IH (fun lc H => Hin lc (or_intror H))) as [b [Eb Hbs]]. exists b. split; [exact Eb|].
          destruct b as [[C1 w1]|].
          * destruct Hbs as (pre & lc & post & t1 & -> & Ht1 & HC1 & Ho1 & Hw1 & Hpre).
            exists (c :: pre), lc, post, t1. split; [reflexivity|]. repeat (split; [assumption|]).
            intros d t' C' [<-|Hd] Ht' HC'; [|eapply Hpre; eauto].
            rewrite Ht in Ht'. injection Ht' as <-. rewrite <- (mv_cycle_unique c t C C' Ht HC HC'). exact Eo.
          * intros lc t' C' [<-|Hlc] Ht' HC'; [|eapply Hbs; eauto].
            rewrite Ht in Ht'. injection Ht' as <-. rewrite <- (mv_cycle_unique c t C C' Ht HC HC'). exact Eo.
    Qed.

    (* sequential flavour: the first answering candidate of any valid arrangement *)
    Lemma mv_seq_lookup arr sorted sg : mt_sort_Z L arr = MtOk sorted ->
      exists b, mt_lookup_seq Z 0%Z Z.add g wts ts sorted sg = TrOk b /\ mv_local_min sg b.
    Proof.
      intros Hsort. destruct (mv_sort_spec L arr sorted Hsort) as [Hperm Hsorted].
      destruct (tb_tp_all_ok g wts sg ts mv_trees_spec) as [pars [Hp Hn]].
      destruct (mv_scan pars sg Hn sorted (fun lc H => Permutation_in lc Hperm H)) as [b [Eb Hb]].
      exists b. unfold mt_lookup_seq. rewrite Hp. split; [exact Eb|].
      destruct b as [[C w]|]; cbn [mv_local_min].
      - destruct Hb as (pre & lc & post & t & -> & Ht & HC & Ho & Hw & Hpre). split.
        + exists lc, t. split; [apply (Permutation_in _ Hperm); apply in_or_app; right; left; reflexivity|auto].
        + intros d t' C' Hd Ht' HC' Ho'. apply (Permutation_in _ (Permutation_sym Hperm)) in Hd.
          apply in_app_or in Hd as [Hd|[<-|Hd]].
          * rewrite (Hpre d t' C' Hd Ht' HC') in Ho'. discriminate.
          * rewrite Ht in Ht'. injection Ht' as <-. rewrite (mv_cycle_unique lc t C' C Ht HC' HC). lia.
          * pose proof (mv_sorted_app pre lc post Hsorted d Hd) as Hle.
            rewrite (mv_c14_weight _ _ _ HC), (mv_c14_weight _ _ _ HC') in Hle. lia.
      - intros lc t C Hlc. apply Hb. apply (Permutation_in _ (Permutation_sym Hperm)). exact Hlc.
    Qed.

    (* TBB flavour: every answer accepted by mt_min_accept *)
    Lemma mv_tbb_lookup sg b :
      (exists l, tl_answers_Z g wts ts L sg = TrOk l /\ mt_min_accept Z Z.ltb l b = true) -> mv_local_min sg b.
    Proof.
      intros (l & Hl & Hacc). destruct mv_local_ok as [HF Hsound].
      destruct (tb_answers_ok g wts Hsg ts L sg HF Hsound) as [l' [Hl' [Hm Hf]]].
      rewrite Hl in Hl'. injection Hl' as <-. rewrite Forall_forall in Hf.
      assert (Hentry : forall d t C, In d L -> nth_error ts (c_tree d) = Some t -> c14_cycle g wts t d C ->
                exists x, In x l /\ fst x = d /\ snd x = if oddb sg C then TcFound C (weight wts C) else TcNot).
      { intros d t C Hd Ht HC. rewrite <- Hm in Hd. apply in_map_iff in Hd as [x [<- Hx]]. exists x.
        split; [exact Hx|]. split; [reflexivity|]. destruct (Hf x Hx) as [t' [C' [Ht' [HC' Hs]]]].
        rewrite Ht in Ht'. injection Ht' as <-. rewrite (mv_cycle_unique _ t C C' Ht HC HC'). exact Hs. }
      destruct b as [[cy w]|]; cbn [mt_min_accept mv_local_min] in *.
      - apply andb_true_iff in Hacc as [Hex Hall]. apply existsb_exists in Hex as [x [Hx Hxs]].
        destruct (Hf x Hx) as [t [C [Ht [HC Hs]]]]. rewrite Hs in Hxs.
        destruct (oddb sg C) eqn:Eo; [|discriminate].
        apply andb_true_iff in Hxs as [Hxs H3]. apply andb_true_iff in Hxs as [H1 H2].
        apply tb_list_eqb_eq in H1. subst cy. apply negb_true_iff, Z.ltb_ge in H2. apply negb_true_iff, Z.ltb_ge in H3.
        assert (w = weight wts C) by lia. subst w. split.
        + exists (fst x), t. split; [rewrite <- Hm; apply in_map; exact Hx|auto].
        + intros d t' C' Hd Ht' HC' Ho'. destruct (Hentry d t' C' Hd Ht' HC') as [y [Hy [_ Hys]]].
          rewrite Ho' in Hys. rewrite forallb_forall in Hall. specialize (Hall y Hy). rewrite Hys in Hall.
          apply negb_true_iff, Z.ltb_ge in Hall. exact Hall.
      - intros lc t C Hlc Ht HC. destruct (Hentry lc t C Hlc Ht HC) as [y [Hy [_ Hys]]].
        rewrite forallb_forall in Hacc. specialize (Hacc y Hy). unfold tl_found in Hacc. rewrite Hys in Hacc.
        destruct (oddb sg C); [discriminate|reflexivity].
    Qed.
  End Chunk.

  (* ---- rank 0's answers as the per-index optimum of MpiProofs3 ------------------------------------------------------ *)
  Variable Sv : vec.
  Hypothesis HSv : canonical_witness fi Sv.
  Notation sg := (indices_to_edges fi Sv).

  Variable l0 : list (cand Z * tc_answer Z).
  Hypothesis Hl0 : map fst l0 = cands0.
  Hypothesis Hl0ok : Forall (tl_entry_ok g wts trees0 sg) l0.

  Definition mv_opt (i : nat) : option Z :=
    match nth_error l0 i with Some (_, TcFound _ w) => Some w | _ => None end.

  Lemma mv_trees0_spec : forall i t, nth_error trees0 i = Some t -> lx_tree_spec Z 0%Z Z.add g wts (st_src t) t.
  Proof. apply (tb_sound_trees_ok g wts). apply Hcol0. Qed.

  (* the entry of rank 0's i-th candidate *)
  Lemma mv_entry i c t C : nth_error cands0 i = Some c -> nth_error trees0 (c_tree c) = Some t ->
    c14_cycle g wts t c C -> mv_opt i = if oddb sg C then Some (weight wts C) else None.
  Proof.
    intros Hn Ht HC. rewrite <- Hl0 in Hn. rewrite nth_error_map in Hn.
    destruct (nth_error l0 i) as [x|] eqn:Ex; [|discriminate]. cbn [option_map] in Hn. injection Hn as Hx.
    unfold mv_opt. rewrite Ex. rewrite Forall_forall in Hl0ok.
    destruct (Hl0ok x (nth_error_In _ _ Ex)) as [t' [C' [Ht' [HC' Hs]]]]. rewrite Hx in *.
    rewrite Ht in Ht'. injection Ht' as <-.
    rewrite <- (tr_c14_cycle_unique g wts t c C C' (mv_trees0_spec _ _ Ht) HC HC') in Hs.
    destruct x as [c' a]. cbn [snd] in Hs. rewrite Hs. destruct (oddb sg C); reflexivity.
  Qed.

  Lemma mv_c14_simple t (c : cand Z) C : c14_cycle g wts t c C -> simple_cycle g C.
  Proof. intros [_ [_ [_ [_ [_ [_ [_ [_ [_ [_ [_ [_ [_ [_ [_ [H _]]]]]]]]]]]]]]]]. exact H. Qed.

  Lemma mv_bridge D : simple_cycle g D -> pairing fi Sv D = oddb sg D.
  Proof. intros HD. eapply tr_bridge; eauto. Qed.

  (* a local minimum over the candidates of cs is a minimum over their positions *)
  Lemma mv_acc_ok cs ts L (inr : nat -> Prop) b :
    (forall c, In c cs <-> exists i, inr i /\ nth_error cands0 i = Some c) ->
    mt_local_Z g wts fi (map ser cs) = MtOk (ts, L) ->
    mv_local_min ts L sg b -> acc_ok g wts fi Sv mv_opt inr b.
  Proof.
    intros Hcs Hloc Hmin.
    assert (Hincl : incl cs cands0).
    { intros c Hc. apply Hcs in Hc as (i & _ & Hn). eapply nth_error_In; eauto. }
    destruct Hcol0 as [_ Hs0].
    (* a candidate of cs, its tree and cycle, and its twin in L *)
    assert (Htwin : forall c, In c cs -> exists t C lc,
              nth_error trees0 (c_tree c) = Some t /\ c14_cycle g wts t c C /\
              In lc L /\ nth_error ts (c_tree lc) = Some t /\ c14_cycle g wts t lc C).
    { intros c Hc. destruct (Hs0 c (Hincl c Hc)) as [t [C [Ht [_ HC]]]].
      destruct (mv_to_local cs Hincl ts L Hloc c Hc) as [lc [Hlc [t' [Hlt [Ht' [He Hw]]]]]].
      rewrite Ht in Ht'. injection Ht' as <-. exists t, C, lc. repeat (split; [assumption|]).
      eapply mv_c14_transfer; eauto. }
    destruct b as [[C w]|]; cbn [acc_ok mv_local_min] in *.
    - destruct Hmin as [(lc & t & Hlc & Ht & HC & Ho & Hw) Hle].
      pose proof (mv_c14_simple _ _ _ HC) as Hsimple. split; [|split].
      + unfold cand_ok. cbn [fst snd]. split; [exact Hw|]. split; [apply simple_cycle_in_cycle_space; [exact Hsg|exact Hsimple]|].
        split; [unfold oddS; rewrite mv_bridge by exact Hsimple; exact Ho|left; exact Hsimple].
      + destruct (mv_to_global cs Hincl ts L Hloc lc Hlc) as [c [Hc [t' [Hlt [Ht0 [He Hwc]]]]]].
        rewrite Ht in Hlt. injection Hlt as <-.
        destruct (proj1 (Hcs c) Hc) as (i & Hi & Hn). exists i. split; [exact Hi|]. cbn [snd].
        assert (HCc : c14_cycle g wts t c C) by (eapply mv_c14_transfer; [symmetry; exact He|symmetry; exact Hwc|exact HC]).
        rewrite (mv_entry i c t C Hn Ht0 HCc), Ho, Hw. reflexivity.
      + cbn [snd]. intros i o Hi Eo. unfold mv_opt in Eo.
        destruct (nth_error l0 i) as [[c a]|] eqn:Ex; [|discriminate].
        assert (Hn : nth_error cands0 i = Some c).
        { rewrite <- Hl0, nth_error_map, Ex. reflexivity. }
        assert (Hc : In c cs) by (apply Hcs; eauto).
        destruct (Htwin c Hc) as (t2 & Cc & lc2 & Ht2 & HCc & Hlc2 & Hlt2 & HClc2).
        pose proof (mv_entry i c t2 Cc Hn Ht2 HCc) as E. unfold mv_opt in E. rewrite Ex in E.
        destruct a as [c' w'|]; [|discriminate]. injection Eo as <-.
        destruct (oddb sg Cc) eqn:Eod; [|discriminate]. injection E as ->.
        apply (Hle lc2 t2 Cc Hlc2 Hlt2 HClc2 Eod).
    - intros i Hi. unfold mv_opt. destruct (nth_error l0 i) as [[c a]|] eqn:Ex; [|reflexivity].
      assert (Hn : nth_error cands0 i = Some c).
      { rewrite <- Hl0, nth_error_map, Ex. reflexivity. }
      assert (Hc : In c cs) by (apply Hcs; eauto).
      destruct (Htwin c Hc) as (t & Cc & lc & Ht & HCc & Hlc & Hlt & HClc).
      pose proof (mv_entry i c t Cc Hn Ht HCc) as E. unfold mv_opt in E. rewrite Ex in E.
      rewrite (Hmin lc t Cc Hlc Hlt HClc) in E. exact E.
  Qed.

  (* sufficiency of rank 0's collection = completeness of opt *)
  Lemma mv_complete : collection_sufficient g wts fi trees0 cands0 ->
    complete g wts fi Sv mv_opt (length cands0).
  Proof.
    intros Hsuf D HD HoD. unfold oddS in HoD. rewrite mv_bridge in HoD by exact HD.
    destruct (Hsuf Sv HSv D HD HoD) as (cd & t & C & Hcd & Ht & HC & Ho & Hle).
    apply In_nth_error in Hcd as [i Hn]. exists i, (weight wts C).
    split; [apply nth_error_Some; rewrite Hn; discriminate|].
    split; [rewrite (mv_entry i cd t C Hn Ht HC), Ho; reflexivity|exact Hle].
  Qed.
End Rank.
