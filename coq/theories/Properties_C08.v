(* Properties_C08.v — the reported optimum depends only on the weighted graph.
   Statements about the SPECIFICATION  is_opt g w x  (x is the weight of a minimum cycle basis of (g, w);
   OptSpec.v), each closed by [exact <lemma>] and followed by Print Assumptions.

   Theorems:   uniqueness, scaling by 2^j (any factor >= 0), isolated vertices, vertex renumbering, edge
               reordering, pendant edges / pendant trees, bridges (and: a bridge lies in no element of the cycle
               space), additivity over disjoint unions, subdivision of an edge into two edges of the same total
               weight, agreement of any two exact runs of the support-vector loop and transport of every relation
               to returned values.  Every relation of the property text is a theorem here; the metamorphic runs of
               tools/props/c08.py check the same relations on the implementation. *)
From Coq Require Import List Arith Bool ZArith Lia.
From Parmcb Require Import McbSpec SvaSpec OptSpec OptProofs OptProofs2 OptProofs3 OptProofs4 OptProofs5 OptProofs6.
Import ListNotations.

(* (a) "the optimum" is a function of the weighted graph *)
Theorem C08_opt_unique : forall g w x y, is_opt g w x -> is_opt g w y -> x = y.
Proof. exact op_opt_unique. Qed.
Print Assumptions C08_opt_unique.

(* (b) multiplying all weights by 2^j multiplies the optimum by exactly 2^j (cycle bases do not depend on weights) *)
Theorem C08_scale : forall g w (j : nat) x,
  is_opt g w x -> is_opt g (map (Z.mul (2 ^ Z.of_nat j)) w) (2 ^ Z.of_nat j * x)%Z.
Proof. exact op_is_opt_scale_pow2. Qed.
Print Assumptions C08_scale.

Theorem C08_scale_any : forall g w k x, (0 <= k)%Z -> is_opt g w x -> is_opt g (scale_weights k w) (k * x)%Z.
Proof. exact op_is_opt_scale. Qed.
Print Assumptions C08_scale_any.

(* (c) isolated vertices *)
Theorem C08_isolated : forall k g w x, simple_graph g -> is_opt g w x -> is_opt (add_isolated k g) w x.
Proof. exact op_is_opt_isolated. Qed.
Print Assumptions C08_isolated.

Theorem C08_isolated_inv : forall k g w x, simple_graph g -> is_opt (add_isolated k g) w x -> is_opt g w x.
Proof. exact op_is_opt_isolated_inv. Qed.
Print Assumptions C08_isolated_inv.

(* (d) renumbering the vertices by a permutation f of 0..nv-1 (inverse f'); edge ids, hence weights, stay *)
Theorem C08_relabel : forall f f' g w x, simple_graph g -> perm_on (nv g) f f' ->
  is_opt g w x -> is_opt (relabel f g) w x.
Proof. exact op_is_opt_relabel. Qed.
Print Assumptions C08_relabel.

Theorem C08_relabel_inv : forall f f' g w x, simple_graph g -> perm_on (nv g) f f' ->
  is_opt (relabel f g) w x -> is_opt g w x.
Proof. exact op_is_opt_relabel_inv. Qed.
Print Assumptions C08_relabel_inv.

(* the permutation as a list l with inverse list l' (checked by the executable perm_listb) *)
Theorem C08_relabel_list : forall l l' g w x, simple_graph g -> perm_listb (nv g) l l' = true ->
  is_opt g w x -> is_opt (relabel (perm_fun l) g) w x.
Proof. exact op_is_opt_relabel_list. Qed.
Print Assumptions C08_relabel_list.

(* (f, first part) the order in which the edges were inserted: position i of the new edge list holds the old edge
   nth i sigma; cycles and bases are the same edge sets under the renaming of the ids, weights move along *)
Theorem C08_edge_order : forall g w sigma x, simple_graph g -> length w = ne g -> is_edge_perm (ne g) sigma ->
  is_opt g w x -> is_opt (permute_edges sigma g) (permute_weights sigma w) x.
Proof. exact op_is_opt_edge_order. Qed.
Print Assumptions C08_edge_order.

(* (f, second part) additive over disjoint unions: g's edges keep their ids, h's follow (vertices and ids shifted) *)
Theorem C08_union : forall g h wg wh x y,
  simple_graph g -> simple_graph h -> positive_weights g wg -> positive_weights h wh ->
  is_opt g wg x -> is_opt h wh y -> is_opt (disjoint_union g h) (wg ++ wh) (x + y)%Z.
Proof. exact op_is_opt_union_stmt. Qed.
Print Assumptions C08_union.

(* (f, third part) subdividing edge e = (s, t) of weight a + b into e = (s, x) of weight a and a new last edge
   (x, t) of weight b, x a new vertex: the cycle spaces are isomorphic, simple cycles and weights correspond *)
Theorem C08_subdivide : forall g w e a b x, simple_graph g -> positive_weights g w -> e < ne g ->
  (0 < a)%Z -> (0 < b)%Z -> wt w e = (a + b)%Z ->
  is_opt g w x -> is_opt (subdivide e g) (subdivide_weights e a b w) x.
Proof. exact op_is_opt_subdivide. Qed.
Print Assumptions C08_subdivide.

(* (e) a pendant edge (new vertex nv g attached to u, either orientation, any weight c) … *)
Theorem C08_pendant : forall u fl g w c x, simple_graph g -> u < nv g -> length w = ne g ->
  (is_opt g w x <-> is_opt (add_pendant u fl g) (w ++ [c]) x).
Proof. exact op_is_opt_pendant. Qed.
Print Assumptions C08_pendant.

(* … a whole pendant tree, grown edge by edge … *)
Theorem C08_pendant_tree : forall us g w cs x,
  simple_graph g -> pendants_ok us (nv g) -> length w = ne g -> length cs = length us ->
  (is_opt g w x <-> is_opt (add_pendants us g) (w ++ cs) x).
Proof. exact op_is_opt_pendants. Qed.
Print Assumptions C08_pendant_tree.

(* … and a bridge: an edge between two vertices that were not connected lies in no element of the cycle space
   (cut argument), so cycle bases and the optimum are unchanged *)
Theorem C08_bridge_in_no_cycle : forall g u v, simple_graph g -> is_bridge_pair g u v ->
  forall Z, in_cycle_space (add_bridge u v g) Z -> ~ In (ne g) Z.
Proof. exact op_bridge_unused. Qed.
Print Assumptions C08_bridge_in_no_cycle.

Theorem C08_bridge : forall g u v w c x, simple_graph g -> is_bridge_pair g u v -> length w = ne g ->
  (is_opt g w x <-> is_opt (add_bridge u v g) (w ++ [c]) x).
Proof. exact op_is_opt_bridge. Qed.
Print Assumptions C08_bridge.

(* the transformations stay inside the exact domain (so the theorems compose) *)
Theorem C08_domain_preserved : forall g, simple_graph g ->
  (forall k, simple_graph (add_isolated k g)) /\
  (forall f f', perm_on (nv g) f f' -> simple_graph (relabel f g)) /\
  (forall sigma, is_edge_perm (ne g) sigma -> simple_graph (permute_edges sigma g)) /\
  (forall e, e < ne g -> simple_graph (subdivide e g)) /\
  (forall us, pendants_ok us (nv g) -> simple_graph (add_pendants us g)) /\
  (forall u v, is_bridge_pair g u v -> simple_graph (add_bridge u v g)) /\
  (forall w k, (0 < k)%Z -> positive_weights g w -> positive_weights g (scale_weights k w)).
Proof.
  intros g Hs. split; [intros k; apply op_simple_isolated; exact Hs|].
  split; [intros f f'; apply op_simple_relabel; exact Hs|].
  split; [intros sigma; apply op_simple_permute_edges; exact Hs|].
  split; [intros e; apply op_simple_subdivide; exact Hs|].
  split; [intros us; apply op_simple_pendants; exact Hs|].
  split; [intros u v; apply op_simple_bridge; exact Hs|].
  intros w k. apply op_positive_scale.
Qed.
Print Assumptions C08_domain_preserved.

(* (g) every exact run (any BFS root order, any admissible selection rule, any per-phase search that returns a
   minimum odd cycle) returns the optimum; hence any two exact variants/backends agree (given C02 for each: its
   search is a minimum search), … *)
Theorem C08_run_returns_opt : forall g wts total, exact_run g wts total -> is_opt g wts total.
Proof. exact op_run_is_opt. Qed.
Print Assumptions C08_run_returns_opt.

Theorem C08_variants_agree_modulo_search : forall g wts t1 t2,
  exact_run g wts t1 -> exact_run g wts t2 -> t1 = t2.
Proof. exact op_variants_agree. Qed.
Print Assumptions C08_variants_agree_modulo_search.

(* … and every relation between optima (F = identity, 2^j *, …) is a relation between returned values *)
Theorem C08_runs_respect_relation : forall (F : Z -> Z) g w g' w' t t',
  (forall x, is_opt g w x -> is_opt g' w' (F x)) ->
  exact_run g w t -> exact_run g' w' t' -> t' = F t.
Proof. exact op_runs_respect_relation. Qed.
Print Assumptions C08_runs_respect_relation.

(* ---- non-vacuity: the triangle 0-1-2 with weights 3, 4, 5 (optimum 12, worked out by hand in OptProofs3.v) ---- *)

Example C08_opt_nonvacuous : is_opt op_tri op_tri_w 12%Z /\ simple_graph op_tri /\ positive_weights op_tri op_tri_w.
Proof. split; [exact op_tri_opt|]. split; [exact op_tri_simple|exact op_tri_positive]. Qed.

Example C08_scale_nonvacuous : is_opt op_tri [12; 16; 20]%Z 48%Z.
Proof. exact (C08_scale op_tri op_tri_w 2 12%Z op_tri_opt). Qed.

Example C08_isolated_nonvacuous : is_opt {| nv := 5; ge := [(0, 1); (1, 2); (2, 0)] |} [3; 4; 5]%Z 12%Z.
Proof. exact (C08_isolated 2 op_tri op_tri_w 12%Z op_tri_simple op_tri_opt). Qed.

(* vertex v becomes nth v [1;2;0] *)
Example C08_relabel_nonvacuous : is_opt {| nv := 3; ge := [(1, 2); (2, 0); (0, 1)] |} [3; 4; 5]%Z 12%Z.
Proof. exact (C08_relabel_list [1; 2; 0] [2; 0; 1] op_tri op_tri_w 12%Z op_tri_simple eq_refl op_tri_opt). Qed.

(* edges inserted in the order 2, 0, 1 *)
Example C08_edge_order_nonvacuous : is_opt {| nv := 3; ge := [(2, 0); (0, 1); (1, 2)] |} [5; 3; 4]%Z 12%Z.
Proof.
  assert (HP : is_edge_perm (ne op_tri) [2; 0; 1]).
  { split; [reflexivity|]. split; [repeat constructor; cbn; intuition lia|]. cbn. intros e He. intuition lia. }
  exact (C08_edge_order op_tri op_tri_w [2; 0; 1] 12%Z op_tri_simple eq_refl HP op_tri_opt).
Qed.

(* two triangles: 0-1-2 (weights 3,4,5) and 3-4-5 (weights 6,8,10) *)
Example C08_union_nonvacuous :
  is_opt {| nv := 6; ge := [(0, 1); (1, 2); (2, 0); (3, 4); (4, 5); (5, 3)] |} [3; 4; 5; 6; 8; 10]%Z 36%Z.
Proof.
  assert (H2 : is_opt op_tri [6; 8; 10]%Z 24%Z) by exact (C08_scale op_tri op_tri_w 1 12%Z op_tri_opt).
  assert (Hp2 : positive_weights op_tri [6; 8; 10]%Z) by (split; [reflexivity|repeat constructor]).
  exact (C08_union op_tri op_tri op_tri_w [6; 8; 10]%Z 12%Z 24%Z op_tri_simple op_tri_simple op_tri_positive Hp2 op_tri_opt H2).
Qed.

(* edge 1 = (1,2) of weight 4 becomes (1,3) of weight 1 and (3,2) of weight 3 *)
Example C08_subdivide_nonvacuous : is_opt {| nv := 4; ge := [(0, 1); (1, 3); (2, 0); (3, 2)] |} [3; 1; 5; 3]%Z 12%Z.
Proof.
  assert (He : 1 < ne op_tri) by (cbn; lia).
  exact (C08_subdivide op_tri op_tri_w 1 1%Z 3%Z 12%Z op_tri_simple op_tri_positive He eq_refl eq_refl eq_refl op_tri_opt).
Qed.

(* a pendant path 1-3-4 (second edge written as (4,3)) with weights 7 and 9 *)
Example C08_pendant_nonvacuous :
  is_opt {| nv := 5; ge := [(0, 1); (1, 2); (2, 0); (1, 3); (4, 3)] |} [3; 4; 5; 7; 9]%Z 12%Z.
Proof.
  assert (Hok : pendants_ok [(1, false); (3, true)] (nv op_tri)) by (cbn; lia).
  apply (proj1 (C08_pendant_tree _ op_tri op_tri_w [7; 9]%Z 12%Z op_tri_simple Hok eq_refl eq_refl)).
  exact op_tri_opt.
Qed.

(* the triangle plus the isolated vertex 3, then the bridge 0-3 of weight 8 *)
Example C08_bridge_nonvacuous :
  is_bridge_pair (add_isolated 1 op_tri) 0 3 /\
  is_opt {| nv := 4; ge := [(0, 1); (1, 2); (2, 0); (0, 3)] |} [3; 4; 5; 8]%Z 12%Z.
Proof.
  assert (Hb : is_bridge_pair (add_isolated 1 op_tri) 0 3).
  { split; [cbn; lia|]. split; [cbn; lia|]. intros (p & Hp).
    assert (H : 3 < 3); [|lia].
    apply (GraphLemmas.gl_closed_walk (add_isolated 1 op_tri) (fun v => v < 3)) with (x := 0) (p := p); [|exact Hp|lia].
    intros v e w' _ Hj.
    destruct (op_joins_in_range op_tri e v w' (op_simple_ends_in_range _ op_tri_simple) Hj) as [_ H]. exact H. }
  split; [exact Hb|].
  apply (proj1 (C08_bridge (add_isolated 1 op_tri) 0 3 op_tri_w 8%Z 12%Z
                  (op_simple_isolated 1 op_tri op_tri_simple) Hb eq_refl)).
  exact (C08_isolated 1 op_tri op_tri_w 12%Z op_tri_simple op_tri_opt).
Qed.

(* an exact run on the triangle exists and returns 12; a run on the scaled triangle returns 4 * 12 *)
Example C08_run_nonvacuous : exact_run op_tri op_tri_w 12%Z.
Proof. exact op_tri_run. Qed.

Example C08_relation_nonvacuous : forall t', exact_run op_tri [12; 16; 20]%Z t' -> t' = 48%Z.
Proof.
  intros t' H.
  exact (C08_runs_respect_relation (Z.mul 4) op_tri op_tri_w op_tri [12; 16; 20]%Z 12%Z t'
           (fun x Hx => C08_scale op_tri op_tri_w 2 x Hx) op_tri_run H).
Qed.
