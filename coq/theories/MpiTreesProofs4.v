(* MpiTreesProofs4.v — the phase-by-phase trace MpiTreesModel.mt_trace_run (what tools/props/c04.py compares with every rank's
   reported local minima and with rank 0's emission) IS the run of the SPMD program: for every weight type, every family of local
   lookups, P >= 1 and reduction trees over valid ranks, rank 0 of run_spmd (spmd_trees_ranked ...) emits exactly the cycles the
   trace's reductions deliver, in phase order, and returns the sum of their weights.  Prefix mx_. *)
From Coq Require Import List Arith Bool Lia.
From Parmcb Require Import GraphModel GF2Model ForestModel SvaModel MpiModel MpiProofs1 MpiProofs2 MpiProofs4
     MpiTreesModel MpiTreesProofs3.
Import ListNotations.

Section Trace.
  Variable W : Type.
  Variable w0 : W.
  Variable wadd : W -> W -> W.
  Variable wltb : W -> W -> bool.
  Variable fi : forest_index.
  Variable P : nat.
  Variable rtree_of : nat -> rtree.
  Variable cands : list (nat * nat).
  Variable lookup : nat -> list (nat * nat) -> nat -> vec -> lres W.
  Hypothesis HP : 1 <= P.
  Hypothesis Htree : forall k r, In r (rleaves (rtree_of k)) -> r < P.

  Notation local := (fun r k Sv => lookup r (slice P r cands) k Sv).
  Notation act := (mw_act W P cands lookup).
  Notation trace := (mt_trace W wltb fi P rtree_of local).

  (* the cycles rank 0 emits / the value it accumulates, read off a trace *)
  Definition mx_emitted (tr : list (vec * list (lres W) * lres W)) : list (list nat) :=
    map (fun x => match snd x with Some (Some (c, _)) => c | _ => [] end) tr.
  Definition mx_total (tr : list (vec * list (lres W) * lres W)) (t0 : W) : W :=
    fold_left (fun t x => match snd x with Some (Some (_, w)) => wadd t w | _ => t end) tr t0.

  Lemma mx_glob k Sv :
    glob W wltb fi act P rtree_of k Sv
    = match reval (payload W) (mpi_min W wltb) (map (encode W fi) (map (fun r => local r k Sv) (seq 0 P))) (rtree_of k) with
      | Some x => decode W fi x
      | None => None
      end.
  Proof. unfold glob. cbn [mw_act]. rewrite map_map. reflexivity. Qed.

  Lemma mx_phases0 : forall ks st,
    st_acc W (phases0 W wadd wltb fi act P rtree_of ks st) = rev (mx_emitted (trace ks (st_sup W st))) ++ st_acc W st
    /\ st_total W (phases0 W wadd wltb fi act P rtree_of ks st) = mx_total (trace ks (st_sup W st)) (st_total W st).
  Proof.
    induction ks as [|k ks IH]; intros st; [split; reflexivity|].
    cbn [phases0 mt_trace]. rewrite mx_glob.
    set (gl := match reval _ _ _ _ with Some x => decode W fi x | None => None end).
    destruct (IH (bookkeep W wadd fi 0 k gl st)) as [IH1 IH2]. rewrite IH1, IH2.
    unfold bookkeep. cbn [Nat.eqb mx_emitted mx_total map fold_left snd rev].
    destruct gl as [[[c w]|]|]; cbn [st_sup st_acc st_total]; (split; [rewrite <- app_assoc; reflexivity|reflexivity]).
  Qed.

  Theorem mx_trace_run :
    exists sup fail rest,
      run_spmd W wltb fi P rtree_of (spmd_trees_ranked W w0 wadd fi P cands lookup)
      = Done (RankOut (mx_emitted (mt_trace_run W wltb fi P rtree_of local))
                      (mx_total (mt_trace_run W wltb fi P rtree_of local) w0) sup fail :: rest)
      /\ length rest = P - 1 /\ Forall (silent w0 fi) rest.
  Proof.
    rewrite (mw_ranked_run W w0 wadd wltb fi P rtree_of cands lookup HP Htree).
    rewrite (seq_P P HP). cbn [map rank_state Nat.eqb].
    set (st := phases0 W wadd wltb fi act P rtree_of (seq 0 (fi_csd fi)) (init_state W w0 fi)).
    destruct (mx_phases0 (seq 0 (fi_csd fi)) (init_state W w0 fi)) as [H1 H2]. fold st in H1, H2.
    exists (st_sup W st), (st_fail W st). eexists. split; [|split].
    - unfold finish. rewrite H1, H2. cbn [init_state st_acc st_total st_sup]. rewrite app_nil_r, rev_involutive.
      unfold mt_trace_run. reflexivity.
    - rewrite map_length, seq_length. reflexivity.
    - apply Forall_forall. intros x Hx. apply in_map_iff in Hx as (r & <- & Hr). apply in_seq in Hr.
      unfold rank_state. destruct (Nat.eqb_spec r 0); [lia|]. reflexivity.
  Qed.
End Trace.
