(* OverflowTreesProofs6.v — C07, clause "overflows a signed integer", part 6: the TBB and MPI flavours of mcb_sva_signed
   (ParSignedModel.v, MpiSignedModel.v).  They run the searches of the sequential variant; what has to be checked is that
   every call satisfies the hypotheses of C07_overflow_search: valid end vertices with different signed ids and a weight
   limit that is absent or <= S (it is the weight of the running minimum of the accumulator the TBB body / the rank's loop
   happens to hold — a cycle found before, whatever the schedule).   B = 2S + 2wmax.
     ovt_reduce_rule          an invariant of the accumulator kept by the body on the indices of the range and by the join,
                              and true of the identity, bounds the trace of eval_reduce for EVERY schedule tree
     ovt_par_find_tr          OddCycleFinder::find: every sum of every search in [0, B], w' = w + w(se) in [0, S];
                              the answer's weight in [0, S]
     ovt_overflow_signed_tbb  mcb_sva_signed_tbb, every bit stream and push permutation: all sums in [0, B] or running totals
                              in [0, total]; total = weight of every minimum cycle basis <= N * S
     ovt_mpi_local_tr         MPI: the local search of every rank in every phase (single-edge shortcut, hidden-edge slice,
                              vertex slice), every world size and sort key: all sums in [0, B], the local answer in [0, S]
   No axioms. *)
From Coq Require Import List Arith Bool ZArith Lia Permutation.
From Parmcb Require Import GraphModel GF2Model GraphSpec GraphLemmas McbSpec ForestModel SvaModel SignedModel SignedZModel
     SchedModel SchedProofs ParSignedModel ParSignedProofs MpiModel MpiSignedModel RefProofs1
     OverflowProofs1 OverflowProofs3 OverflowProofs4 OverflowTreesModel.
Import ListNotations.

Local Open Scope Z_scope.

(* ---- the rule for traced reductions ------------------------------------------------------------------------------- *)

Section Rule.
  Variable A : Type.
  Variable body_tr : nat -> A -> A * list Z.
  Variable join : A -> A -> A.
  Variable ident : A.
  Variable Good : A -> Prop.
  Variable Pv : Z -> Prop.
  Variable hi : nat.
  Hypothesis Hbody : forall i a, (i < hi)%nat -> Good a -> Forall Pv (snd (body_tr i a)) /\ Good (fst (body_tr i a)).
  Hypothesis Hjoin : forall a b, Good a -> Good b -> Good (join a b).
  Hypothesis Hident : Good ident.

  Lemma ovt_chunk_rule : forall is acc, (forall i, In i is -> (i < hi)%nat) -> Good acc ->
    Forall Pv (snd (run_chunk_tr A body_tr is acc)) /\ Good (fst (run_chunk_tr A body_tr is acc)).
  Proof.
    induction is as [|i is IH]; intros acc Hi Hacc; cbn [run_chunk_tr fst snd]; [split; [constructor|exact Hacc]|].
    destruct (Hbody i acc (Hi i (or_introl eq_refl)) Hacc) as [H1 H2].
    destruct (IH _ (fun j Hj => Hi j (or_intror Hj)) H2) as [H3 H4]. split; [apply Forall_app; split; assumption|exact H4].
  Qed.

  Lemma ovt_reduce_rule : forall t lo acc, (lo + size t <= hi)%nat -> Good acc ->
    Forall Pv (snd (eval_reduce_tr A body_tr join ident t lo acc))
    /\ Good (fst (eval_reduce_tr A body_tr join ident t lo acc)).
  Proof.
    induction t as [len|rf a IHa b IHb|rf a IHa b IHb]; intros lo acc Hsz Hacc; cbn [eval_reduce_tr fst snd size] in *.
    - apply ovt_chunk_rule; [|exact Hacc]. intros i Hi. apply in_seq in Hi. lia.
    - destruct (IHa lo acc ltac:(lia) Hacc) as [H1 H2]. destruct (IHb (lo + size a)%nat _ ltac:(lia) H2) as [H3 H4].
      split; [apply Forall_app; split; assumption|exact H4].
    - destruct (IHa lo acc ltac:(lia) Hacc) as [H1 H2]. destruct (IHb (lo + size a)%nat ident ltac:(lia) Hident) as [H3 H4].
      split; [apply Forall_app; split; assumption|apply Hjoin; assumption].
  Qed.
End Rule.

Lemma ovt_firstn_incl {A : Type} n (l : list A) : incl (firstn n l) l.
Proof. intros x Hx. rewrite <- (firstn_skipn n l). apply in_or_app. left; exact Hx. Qed.

Lemma ovt_skipn_incl {A : Type} n (l : list A) : incl (skipn n l) l.
Proof. intros x Hx. rewrite <- (firstn_skipn n l). apply in_or_app. right; exact Hx. Qed.

Section Signed.
  Variables (g : graph) (wts : list Z).
  Hypothesis Hs : simple_graph g.
  Hypothesis Hpw : positive_weights g wts.
  Local Notation S := (wsum g wts).
  Local Notation inB := (inrange (2 * wsum g wts + 2 * wmax wts)).
  Local Notation goodbest := (goodbest g wts).

  Definition ovt_goodacc (acc : racc Z) : Prop := match acc with Some best => goodbest best | None => True end.

  Lemma ovt_goodbest_none : goodbest None.
  Proof. intros c w E. discriminate. Qed.

  Lemma ovt_inS_inB v : 0 <= v <= S -> inB v.
  Proof. unfold inrange. pose proof (ov_wsum_nonneg g wts Hpw). pose proof (ov_wmax_nonneg wts). lia. Qed.

  (* w' = w + w(se) for a cycle found with se hidden *)
  Lemma ovt_hidden_sum c w se : w = weight wts c -> NoDup c -> (forall e, In e c -> (e < ne g)%nat) ->
    ~ In se c -> (se < ne g)%nat -> 0 <= w + wtof Z 0 wts se <= S.
  Proof.
    intros Ew Hnd Hlt Hse Hsen. change (wtof Z 0 wts se) with (wt wts se).
    pose proof (ov_weight_nodup_le g wts (se :: c) Hpw) as Hle. rewrite rf_weight_cons in Hle.
    pose proof (rf_wt_nonneg g wts se Hpw). pose proof (rf_weight_nonneg g wts c Hpw). split; [lia|]. rewrite Ew.
    rewrite Z.add_comm. apply Hle.
    - constructor; assumption.
    - intros e [<-|He]; [exact Hsen|apply Hlt; exact He].
  Qed.

  (* ---- the bodies of the TBB reductions ---------------------------------------------------------------------------- *)

  Lemma ovt_all_vertices_step_tr signed i acc : (i < nv g)%nat -> ovt_goodacc acc ->
    Forall inB (snd (all_vertices_step_tr g wts signed i acc)) /\ ovt_goodacc (fst (all_vertices_step_tr g wts signed i acc)).
  Proof.
    intros Hi Hacc. unfold all_vertices_step_tr. destruct acc as [best|]; [|split; [constructor|exact I]].
    cbv zeta. cbn [fst snd]. cbn [ovt_goodacc] in Hacc.
    assert (Hne : signed_id (nv g) i true <> signed_id (nv g) i false) by (unfold signed_id; lia).
    destruct (ov_phase_search g wts Hs Hpw signed [] false best i true i false Hacc Hi Hi Hne) as [Hv Hf]. cbv zeta in Hv, Hf.
    split; [exact Hv|].
    match goal with |- context [fst (bidirectional_tr ?x1 ?x2 ?x3 ?x4 ?x5)] =>
      destruct (fst (bidirectional_tr x1 x2 x3 x4 x5)) as [c w| |] eqn:E end; cbn [ovt_goodacc]; try exact I; [|exact Hacc].
    destruct (Hf c w eq_refl) as (_ & _ & _ & Hw). apply ov_goodbest_update; assumption.
  Qed.

  (* a search with a hidden edge se = (sv, su), then w' *)
  Lemma ovt_hidden_search signed hidden best se sv su : goodbest best -> ends g se = Some (sv, su) ->
    let P := {| sp_g := g; sp_wts := wts; sp_signed := signed; sp_hidden := hidden;
                sp_use_hidden := true; sp_limit := limit_of Z best |} in
    Forall inB (snd (bidirectional_tr P sv true su true))
    /\ forall c w, fst (bidirectional_tr P sv true su true) = Found Z c w -> memb se c = false ->
         0 <= w + wtof Z 0 wts se <= S.
  Proof.
    intros Hb Ee P.
    destruct (gl_simple_ends g se sv su Hs Ee) as (Hsv & Hsu & Hneq).
    assert (Hne : signed_id (nv g) sv true <> signed_id (nv g) su true) by (unfold signed_id; exact Hneq).
    destruct (ov_phase_search g wts Hs Hpw signed hidden true best sv true su true Hb Hsv Hsu Hne) as [Hv Hf].
    cbv zeta in Hv, Hf. split; [exact Hv|]. intros c w E Em. destruct (Hf c w E) as (Ew & Hnd & Hlt & _).
    apply gl_memb_false in Em. apply (ovt_hidden_sum c w se Ew Hnd Hlt Em). eapply gl_ends_lt. exact Ee.
  Qed.

  Lemma ovt_par_hidden_step_tr signed sev i acc : ovt_goodacc acc ->
    Forall inB (snd (par_hidden_step_tr g wts signed sev i acc))
    /\ ovt_goodacc (fst (par_hidden_step_tr g wts signed sev i acc)).
  Proof.
    intros Hacc. unfold par_hidden_step_tr. destruct acc as [best|]; [|split; [constructor|exact I]].
    cbn [ovt_goodacc] in Hacc.
    destruct (nth_error sev i) as [se|]; [|split; [constructor|exact I]].
    destruct (ends g se) as [[sv su]|] eqn:Ee; [|split; [constructor|exact I]]. cbv zeta.
    destruct (ovt_hidden_search signed (skipn i sev) best se sv su Hacc Ee) as [Hv Hf]. cbv zeta in Hv, Hf.
    match goal with |- context [fst (bidirectional_tr ?x1 ?x2 ?x3 ?x4 ?x5)] =>
      destruct (fst (bidirectional_tr x1 x2 x3 x4 x5)) as [c w| |] eqn:E end; cbn [fst snd ovt_goodacc];
      try (split; [exact Hv|]; try exact I; exact Hacc).
    destruct (memb se c) eqn:Em; cbn [fst snd ovt_goodacc]; [split; [exact Hv|exact Hacc]|].
    pose proof (Hf c w eq_refl Em) as Hw'. split.
    - apply Forall_app. split; [exact Hv|]. constructor; [apply ovt_inS_inB; exact Hw'|constructor].
    - apply ov_goodbest_update; assumption.
  Qed.

  Lemma ovt_find_single_edge_tr se :
    Forall inB (snd (find_single_edge_tr g wts se)) /\ ovt_goodacc (fst (find_single_edge_tr g wts se)).
  Proof.
    unfold find_single_edge_tr. destruct (ends g se) as [[sv su]|] eqn:Ee; [|split; [constructor|exact I]]. cbv zeta.
    destruct (ovt_hidden_search [] [se] None se sv su ovt_goodbest_none Ee) as [Hv Hf]. cbv zeta in Hv, Hf.
    change (limit_of Z None) with (@None Z) in Hv, Hf.
    match goal with |- context [fst (bidirectional_tr ?x1 ?x2 ?x3 ?x4 ?x5)] =>
      destruct (fst (bidirectional_tr x1 x2 x3 x4 x5)) as [c w| |] eqn:E end; cbn [fst snd ovt_goodacc];
      try (split; [exact Hv|]; try exact I; exact ovt_goodbest_none).
    destruct (memb se c) eqn:Em; cbn [fst snd ovt_goodacc]; [split; [exact Hv|exact ovt_goodbest_none]|].
    pose proof (Hf c w eq_refl Em) as Hw'. split.
    - apply Forall_app. split; [exact Hv|]. constructor; [apply ovt_inS_inB; exact Hw'|constructor].
    - intros c' w' E'. injection E' as _ <-. exact Hw'.
  Qed.

  Lemma ovt_join_good a b : ovt_goodacc a -> ovt_goodacc b -> ovt_goodacc (join_err Z Z.ltb a b).
  Proof.
    intros Ha Hb. destruct a as [x|], b as [y|]; cbn [join_err ovt_goodacc] in *; try exact I.
    unfold cycle_min. destruct x as [[c1 w1]|], y as [[c2 w2]|]; try assumption.
    destruct (negb (Z.ltb w2 w1)); assumption.
  Qed.

  Lemma ovt_par_find_tr eord bits fi Sv pos :
    Forall inB (snd (par_find_tr eord bits g wts fi Sv pos))
    /\ ovt_goodacc (fst (fst (par_find_tr eord bits g wts fi Sv pos))).
  Proof.
    unfold par_find_tr. cbv zeta.
    assert (Hgen : forall signed,
      let r := if Nat.leb (nv g) (length signed)
               then let (t, pos') := sched_of_bits bits pos (nv g) in
                    let r := eval_reduce_tr (racc Z) (all_vertices_step_tr g wts signed) (join_err Z Z.ltb) (ident_err Z)
                                            t 0%nat (ident_err Z) in (fst r, pos', snd r)
               else let (t, pos') := sched_of_bits bits pos (length (sort_eord eord signed)) in
                    let r := eval_reduce_tr (racc Z) (par_hidden_step_tr g wts signed (sort_eord eord signed))
                                            (join_err Z Z.ltb) (ident_err Z) t 0%nat (ident_err Z) in (fst r, pos', snd r) in
      Forall inB (snd r) /\ ovt_goodacc (fst (fst r))).
    { intros signed. cbv zeta. destruct (Nat.leb (nv g) (length signed)).
      - pose proof (sched_of_bits_size bits pos (nv g)) as Hsz.
        destruct (sched_of_bits bits pos (nv g)) as [t pos']. cbn [fst snd] in Hsz |- *.
        apply (ovt_reduce_rule (racc Z) _ _ _ ovt_goodacc inB (nv g)).
        + intros i a Hi Ha. apply ovt_all_vertices_step_tr; assumption.
        + exact ovt_join_good.
        + exact ovt_goodbest_none.
        + lia.
        + exact ovt_goodbest_none.
      - destruct (sched_of_bits bits pos (length (sort_eord eord signed))) as [t pos'] eqn:Esch. cbn [fst snd].
        pose proof (sched_of_bits_size bits pos (length (sort_eord eord signed))) as Hsz. rewrite Esch in Hsz. cbn [fst] in Hsz.
        apply (ovt_reduce_rule (racc Z) _ _ _ ovt_goodacc inB (length (sort_eord eord signed))).
        + intros i a _ Ha. apply ovt_par_hidden_step_tr; assumption.
        + exact ovt_join_good.
        + exact ovt_goodbest_none.
        + lia.
        + exact ovt_goodbest_none. }
    destruct (indices_to_edges fi Sv) as [|se [|se2 rest]]; [apply Hgen| |apply Hgen].
    cbn [fst snd]. apply ovt_find_single_edge_tr.
  Qed.

  (* ---- the phase loop --------------------------------------------------------------------------------------------- *)

  Lemma ovt_par_phases_tr eord bits fi : forall ks sup pos acc total j, 0 <= total <= Z.of_nat j * S ->
    Forall (fun v => inB v \/ 0 <= v <= Z.of_nat (j + length ks) * S)
           (snd (par_phases_tr eord bits g wts fi ks sup pos acc total))
    /\ forall cycles T sup' p,
         fst (par_phases_tr eord bits g wts fi ks sup pos acc total) = (SvaOk cycles T sup', p) ->
         total <= T
         /\ Forall (fun v => inB v \/ total <= v <= T) (snd (par_phases_tr eord bits g wts fi ks sup pos acc total)).
  Proof.
    pose proof (ov_wsum_nonneg g wts Hpw) as HS0.
    induction ks as [|k ks IH]; intros sup pos acc total j Ht.
    - cbn [par_phases_tr fst snd]. split; [constructor|]. intros cycles T sup' p E. injection E as _ <- _ _.
      split; [lia|constructor].
    - cbn [par_phases_tr]. cbv zeta.
      match goal with |- context [par_find_tr ?a1 ?a2 ?a3 ?a4 ?a5 ?a6 ?a7] =>
        destruct (ovt_par_find_tr a1 a2 a5 a6 a7) as [Hv Hw];
        destruct (par_find_tr a1 a2 a3 a4 a5 a6 a7) as [[r pos1] tr] end.
      cbn [fst snd] in Hv, Hw.
      assert (Hv' : forall Q : Z -> Prop, Forall (fun v => inB v \/ Q v) tr).
      { intros Q. eapply Forall_impl; [|exact Hv]. cbv beta. intros v H. left. exact H. }
      destruct r as [[[c w]|]|]; cbn [fst snd]; try (split; [apply Hv'|discriminate]).
      cbn [ovt_goodacc] in Hw. specialize (Hw c w eq_refl).
      assert (Ht' : 0 <= total + w <= Z.of_nat (Datatypes.S j) * S) by lia.
      destruct (sched_of_bits bits pos1 (fi_csd fi - Datatypes.S k)) as [t pos2].
      match goal with |- context [par_phases_tr ?a1 ?a2 ?a3 ?a4 ?a5 ?a6 ?a7 ?a8 ?a9 ?a10] =>
        specialize (IH a7 a8 a9 a10 (Datatypes.S j) Ht');
        destruct (par_phases_tr a1 a2 a3 a4 a5 a6 a7 a8 a9 a10) as [[r' pos'] tr'] end.
      cbn [fst snd] in IH |- *. destruct IH as [IH1 IH2]. split.
      + apply Forall_app. split; [apply Hv'|]. constructor; [right; cbn [length]; nia|].
        eapply Forall_impl; [|exact IH1]. cbv beta. intros v [H|H]; [left; exact H|right]. cbn [length].
        replace (j + Datatypes.S (length ks))%nat with (Datatypes.S j + length ks)%nat by lia. exact H.
      + intros cycles T sup' p E. destruct (IH2 cycles T sup' p E) as [Hm Hf]. split; [lia|].
        apply Forall_app. split; [apply Hv'|]. constructor; [right; lia|].
        eapply Forall_impl; [|exact Hf]. cbv beta. intros v [H|H]; [left; exact H|right; lia].
  Qed.

  (* ---- MPI: the local searches ------------------------------------------------------------------------------------- *)

  Definition ovt_goodlres (x : lres Z) : Prop := match x with Some best => goodbest best | None => True end.

  Lemma ovt_mpi_hidden_step_tr signed ses best : goodbest best ->
    Forall inB (snd (mpi_hidden_step_tr g wts signed ses best)) /\ ovt_goodlres (fst (mpi_hidden_step_tr g wts signed ses best)).
  Proof.
    intros Hb. unfold mpi_hidden_step_tr. destruct ses as [|se ses']; [split; [constructor|exact Hb]|].
    destruct (ends g se) as [[sv su]|] eqn:Ee; [|split; [constructor|exact I]]. cbv zeta.
    destruct (ovt_hidden_search signed (se :: ses') best se sv su Hb Ee) as [Hv Hf]. cbv zeta in Hv, Hf.
    match goal with |- context [fst (bidirectional_tr ?x1 ?x2 ?x3 ?x4 ?x5)] =>
      destruct (fst (bidirectional_tr x1 x2 x3 x4 x5)) as [c w| |] eqn:E end; cbn [fst snd ovt_goodlres];
      try (split; [exact Hv|]; try exact I; exact Hb).
    destruct (memb se c) eqn:Em; cbn [fst snd ovt_goodlres]; [split; [exact Hv|exact Hb]|].
    pose proof (Hf c w eq_refl Em) as Hw'. split.
    - apply Forall_app. split; [exact Hv|]. constructor; [apply ovt_inS_inB; exact Hw'|constructor].
    - apply ov_goodbest_update; assumption.
  Qed.

  Lemma ovt_mpi_hidden_slice_tr signed : forall cnt ses best, goodbest best ->
    Forall inB (snd (mpi_hidden_slice_tr g wts signed ses cnt best))
    /\ ovt_goodlres (fst (mpi_hidden_slice_tr g wts signed ses cnt best)).
  Proof.
    induction cnt as [|cnt IH]; intros ses best Hb; cbn [mpi_hidden_slice_tr]; [split; [constructor|exact Hb]|].
    destruct ses as [|se ses']; [split; [constructor|exact Hb]|]. cbv zeta.
    destruct (ovt_mpi_hidden_step_tr signed (se :: ses') best Hb) as [H1 H2].
    destruct (fst (mpi_hidden_step_tr g wts signed (se :: ses') best)) as [best'|]; cbn [fst snd]; [|split; [exact H1|exact I]].
    cbn [ovt_goodlres] in H2. destruct (IH ses' best' H2) as [H3 H4]. split; [apply Forall_app; split; assumption|exact H4].
  Qed.

  Lemma ovt_mpi_single_search_tr signed :
    Forall inB (snd (mpi_single_search_tr g wts signed)) /\ ovt_goodlres (fst (mpi_single_search_tr g wts signed)).
  Proof.
    unfold mpi_single_search_tr. destruct signed as [|se rest]; [split; [constructor|exact ovt_goodbest_none]|].
    destruct (ends g se) as [[sv su]|] eqn:Ee; [|split; [constructor|exact I]]. cbv zeta.
    destruct (ovt_hidden_search [] (se :: rest) None se sv su ovt_goodbest_none Ee) as [Hv Hf]. cbv zeta in Hv, Hf.
    change (limit_of Z None) with (@None Z) in Hv, Hf.
    match goal with |- context [fst (bidirectional_tr ?x1 ?x2 ?x3 ?x4 ?x5)] =>
      destruct (fst (bidirectional_tr x1 x2 x3 x4 x5)) as [c w| |] eqn:E end; cbn [fst snd ovt_goodlres];
      try (split; [exact Hv|]; try exact I; exact ovt_goodbest_none).
    destruct (memb se c) eqn:Em; cbn [fst snd ovt_goodlres]; [split; [exact Hv|exact ovt_goodbest_none]|].
    pose proof (Hf c w eq_refl Em) as Hw'. split.
    - apply Forall_app. split; [exact Hv|]. constructor; [apply ovt_inS_inB; exact Hw'|constructor].
    - intros c' w' E'. injection E' as _ <-. exact Hw'.
  Qed.

  Theorem ovt_mpi_local_tr P ord fi r Sv :
    fst (mpi_signed_local_tr g wts P ord fi r Sv) = mpi_signed_local g wts P ord fi r Sv
    /\ Forall inB (snd (mpi_signed_local_tr g wts P ord fi r Sv))
    /\ forall c w, fst (mpi_signed_local_tr g wts P ord fi r Sv) = Some (Some (c, w)) -> 0 <= w <= S.
  Proof.
    split; [apply ovt_mpi_local_erase|].
    assert (H : Forall inB (snd (mpi_signed_local_tr g wts P ord fi r Sv))
                /\ ovt_goodlres (fst (mpi_signed_local_tr g wts P ord fi r Sv))).
    { unfold mpi_signed_local_tr. cbv zeta. destruct (Nat.eqb (length (indices_to_edges fi Sv)) 1).
      - destruct (Nat.eqb r 0); [apply ovt_mpi_single_search_tr|split; [constructor|exact ovt_goodbest_none]].
      - destruct (Nat.ltb (length (indices_to_edges fi Sv)) (nv g)).
        + apply ovt_mpi_hidden_slice_tr. exact ovt_goodbest_none.
        + cbn [fst snd].
          destruct (ov_all_vertices_tr g wts Hs Hpw (indices_to_edges fi Sv) (slice P r (seq 0 (nv g))) None) as [H1 H2].
          * intros v Hv. unfold slice in Hv. apply ovt_firstn_incl, ovt_skipn_incl in Hv. apply in_seq in Hv. lia.
          * exact ovt_goodbest_none.
          * split; [exact H1|]. destruct (fst (all_vertices_tr g wts (indices_to_edges fi Sv) (slice P r (seq 0 (nv g))) None))
              as [res|]; [|exact I]. cbn [ovt_goodlres]. apply H2. reflexivity. }
    destruct H as [H1 H2]. split; [exact H1|]. intros c w E. rewrite E in H2. cbn [ovt_goodlres] in H2.
    apply (H2 c w eq_refl).
  Qed.
End Signed.

(* ---- mcb_sva_signed_tbb --------------------------------------------------------------------------------------------- *)

Theorem ovt_overflow_signed_tbb : forall (g : graph) (wts : list Z) (roots eord : list nat) (bits : list bool) (perm : list nat),
  simple_graph g -> positive_weights g wts -> (forall v, (v < nv g)%nat -> In v roots) ->
  exists cycles total sup pos,
    mcb_sva_signed_tbb_Z g wts roots eord bits perm = (SvaOk cycles total sup, pos)
    /\ fst (mcb_sva_signed_tbb_Z_tr g wts roots eord bits perm) = (SvaOk cycles total sup, pos)
    /\ min_cycle_basis g wts cycles /\ has_cycle_space_dimension g (length cycles)
    /\ total = total_weight wts cycles
    /\ (forall B', min_cycle_basis g wts B' -> total_weight wts B' = total)
    /\ 0 <= total <= Z.of_nat (length cycles) * wsum g wts
    /\ Forall (fun v => 0 <= v <= 2 * wsum g wts + 2 * wmax wts \/ 0 <= v <= total)
              (snd (mcb_sva_signed_tbb_Z_tr g wts roots eord bits perm))
    /\ forall M, 2 * wsum g wts + 2 * wmax wts <= M -> total <= M ->
         Forall (fun v => 0 <= v <= M) (snd (mcb_sva_signed_tbb_Z_tr g wts roots eord bits perm)).
Proof.
  intros g wts roots eord bits perm Hs Hpw Hr.
  destruct (signed_tbb_min_basis g wts roots eord bits perm Hs Hpw Hr) as (cycles & total & sup & pos & Erun & Hmin & Etot & Hdim).
  exists cycles, total, sup, pos. split; [exact Erun|].
  pose proof (ovt_signed_tbb_erase g wts roots eord bits perm) as Eer. rewrite Erun in Eer.
  split; [exact Eer|]. split; [exact Hmin|]. split; [exact Hdim|]. split; [exact Etot|].
  destruct Hmin as [Hcb Hle]. pose proof Hcb as (Hsc & _ & _).
  split.
  { intros B' [Hcb' Hle']. specialize (Hle B' Hcb'). specialize (Hle' cycles Hcb). lia. }
  pose proof (ov_total_weight_le g wts Hpw cycles Hsc) as Htw. rewrite <- Etot in Htw.
  split; [exact Htw|].
  assert (Htr : Forall (fun v => 0 <= v <= 2 * wsum g wts + 2 * wmax wts \/ 0 <= v <= total)
                       (snd (mcb_sva_signed_tbb_Z_tr g wts roots eord bits perm))).
  { unfold mcb_sva_signed_tbb_Z_tr in Eer |- *. destruct (create_index g roots) as [fi|]; [|discriminate]. cbv zeta in Eer |- *.
    destruct (sched_of_bits bits 0 (fi_csd fi)) as [t0 pos0].
    destruct (ovt_par_phases_tr g wts Hs Hpw (fun e => nth e eord 0%nat) bits fi (seq 0 (fi_csd fi))
                (initial_supports t0 perm) pos0 [] 0 0%nat) as [_ H2]; [lia|].
    destruct (H2 cycles total sup pos Eer) as [_ Hf].
    eapply Forall_impl; [|exact Hf]. cbv beta. unfold inrange. intros v [Hv|Hv]; [left; exact Hv|right; exact Hv]. }
  split; [exact Htr|].
  intros M HM1 HM2. eapply Forall_impl; [|exact Htr]. cbv beta. intros v [Hv|Hv]; lia.
Qed.
