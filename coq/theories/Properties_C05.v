(* Properties_C05.v — the approximate algorithms return a basis of the CALLER's graph with its true weight.
   Model: ApproxModel.approx_run (BaseApproxSpannerAlgorithm: constructor + run, sequential cycle builder),
   generic in the exact phase; approx_sva_signed_Z instantiates it with the exact model of mcb_sva_signed.
   Only statements; each closed by [exact <lemma>] and followed by Print Assumptions.

   What is proved, for every simple graph, every k, every scan order (std::sort oracle, sorted or not),
   every oracle of the exact phase:
     C05_basis_modulo_exact    if the exact phase's answer for the spanner is a cycle basis of the spanner with
                               m' - n + c' members (explicit premise, for the one call that is made), then
                               whatever approx_run returns is a list of duplicate-free lists of edge ids of the
                               CALLER's graph (everything emitted went through the spanner->input map) whose
                               canonical forms are simple cycles forming a cycle basis of the caller's graph
                               (independent + spanning the cycle space), exactly m - n + c of them.
                               (ApproxOk already implies k >= 1.)
     C05_weight_modulo_exact   if the exact phase returns the total weight of its cycles under the spanner's
                               weight map, the returned value is the total weight of the emitted cycles under
                               the CALLER's weights.
     C05_signed_modulo_search  both, for approx_mcb_sva_signed, the premise reduced (SvaProofs.sva_generic_min)
                               to the specification of the per-phase search on the spanner.
     C05_no_error_modulo_exact on positive weights and k >= 1 the model produces no error value: if the exact phase
                               returns cycles over valid spanner edge ids, the run returns ApproxOk (the plain
                               Dijkstra never updates a vertex that left the queue and stays within its fuel,
                               the predecessor walk reaches the source, every translated id is in range).
     C05_signed                PREMISE-FREE, for approx_mcb_sva_signed: for every simple graph with positive
                               weights, every k >= 1, every scan order (sorted or not) and every oracle of the
                               spanner, the model returns ApproxOk with a cycle basis of the caller's graph
                               (m - n + c duplicate-free lists of caller's edge ids, simple cycles) and
                               returned value = their total weight.  The exact phase on the spanner (a simple
                               graph with positive weights) is discharged by BidirProofs5.C01_signed / C02_signed. *)
From Coq Require Import List Arith Bool ZArith Permutation Sorted Lia.
From Parmcb Require Import GraphModel GF2Model GraphSpec McbSpec ForestModel SpannerModel SvaModel SvaSpec SvaProofs
  SignedModel SignedZModel RefModel RefProofs3 ApproxModel ApproxProofsRun ApproxProofsSigned ApproxProofsEdge ApproxProofsSignedFull.
Import ListNotations.

Theorem C05_basis_modulo_exact :
  forall (exact : graph -> list Z -> sva_result Z) g w k scan cycles total,
    simple_graph g -> Permutation scan (seq 0 (ne g)) ->
    (forall sp cs t sup, construct_spanner g k scan = SpOk sp ->
       exact (sp_graph sp) (spanner_weights w sp) = SvaOk cs t sup ->
       cycle_basis (sp_graph sp) cs /\ has_cycle_space_dimension (sp_graph sp) (length cs)) ->
    approx_run exact g w k scan = ApproxOk cycles total ->
    cycle_basis g (map set_of_list cycles)
    /\ has_cycle_space_dimension g (length cycles)
    /\ Forall (fun c => NoDup c /\ forall e, In e c -> e < ne g) cycles.
Proof. exact ap_run_basis. Qed.
Print Assumptions C05_basis_modulo_exact.

Theorem C05_weight_modulo_exact :
  forall (exact : graph -> list Z -> sva_result Z) g w k scan cycles total,
    (forall sp cs t sup, construct_spanner g k scan = SpOk sp ->
       exact (sp_graph sp) (spanner_weights w sp) = SvaOk cs t sup ->
       t = total_weight (spanner_weights w sp) cs) ->
    approx_run exact g w k scan = ApproxOk cycles total ->
    total = total_weight w cycles.
Proof. exact ap_run_weight. Qed.
Print Assumptions C05_weight_modulo_exact.

Theorem C05_signed_modulo_search :
  forall g w k scan roots eord cycles total,
    simple_graph g -> positive_weights g w -> Permutation scan (seq 0 (ne g)) ->
    (forall v, v < nv g -> In v roots) ->
    (forall sp fi, construct_spanner g k scan = SpOk sp -> create_index (sp_graph sp) roots = Some fi ->
       search_min (sp_graph sp) (spanner_weights w sp) fi
         (signed_phase Z 0%Z Z.add Z.ltb (fun e => nth e eord 0) (sp_graph sp) (spanner_weights w sp) fi)) ->
    approx_sva_signed_Z g w k scan roots eord = ApproxOk cycles total ->
    cycle_basis g (map set_of_list cycles)
    /\ has_cycle_space_dimension g (length cycles)
    /\ Forall (fun c => NoDup c /\ forall e, In e c -> e < ne g) cycles
    /\ total = total_weight w cycles.
Proof. exact ap_signed_basis. Qed.
Print Assumptions C05_signed_modulo_search.

Theorem C05_no_error_modulo_exact :
  forall (exact : graph -> list Z -> sva_result Z) g w k scan,
    simple_graph g -> positive_weights g w -> 1 <= k -> Permutation scan (seq 0 (ne g)) ->
    (forall sp, construct_spanner g k scan = SpOk sp ->
       exists cs t sup, exact (sp_graph sp) (spanner_weights w sp) = SvaOk cs t sup
                        /\ Forall (Forall (fun i => i < ne (sp_graph sp))) cs) ->
    exists cycles total, approx_run exact g w k scan = ApproxOk cycles total.
Proof. exact ap_run_total. Qed.
Print Assumptions C05_no_error_modulo_exact.

(* the full statement for the signed entry point: no premise on the search, and the run does return
   (no sortedness of the scan order is needed for C05) *)
Definition C05_signed_stmt : Prop :=
  forall g w k scan roots eord,
    simple_graph g -> positive_weights g w -> 1 <= k -> Permutation scan (seq 0 (ne g)) ->
    (forall v, v < nv g -> In v roots) ->
    exists cycles total,
      approx_sva_signed_Z g w k scan roots eord = ApproxOk cycles total
      /\ cycle_basis g (map set_of_list cycles) /\ has_cycle_space_dimension g (length cycles)
      /\ Forall (fun c => NoDup c /\ forall e, In e c -> e < ne g) cycles
      /\ total = total_weight w cycles.

Theorem C05_signed : C05_signed_stmt.
Proof. exact ap_signed_full. Qed.
Print Assumptions C05_signed.

(* non-vacuity: the graph of C15_nonvacuous (K4 on 0..3, a pendant edge 3-4, a 5-cycle 4-5-6-7-8), weights with
   ties, a weight-sorted scan order that is not the stable one, k = 2: the spanner keeps the 5-cycle (girth 5 > 4)
   and drops the three heaviest K4 edges — so the answer mixes a translated spanner cycle with three dropped-edge
   cycles.  The hypotheses hold, the premise on the exact phase is discharged for this run by the verified
   basis checker (RefProofs3 + SvaProofs), and the model returns the family below with weight 24. *)
Example C05_nonvacuous :
  let g := {| nv := 9; ge := [(0,1); (0,2); (0,3); (1,2); (1,3); (2,3); (3,4);
                               (4,5); (5,6); (6,7); (7,8); (8,4)] |} in
  let w := [1; 1; 2; 2; 2; 3; 1; 1; 1; 1; 1; 5]%Z in
  let scan := [6; 0; 1; 10; 7; 8; 9; 3; 2; 4; 5; 11] in
  let roots := [4; 0; 1; 2; 3; 5; 6; 7; 8] in
  let eord := [3; 1; 0; 2; 8; 7; 6; 5; 4] in
  let exact := fun h wh => mcb_sva_signed_Z h wh roots eord in
  simple_graph g /\ positive_weights g w /\ Permutation scan (seq 0 (ne g))
  /\ (forall sp cs t sup, construct_spanner g 2 scan = SpOk sp ->
        exact (sp_graph sp) (spanner_weights w sp) = SvaOk cs t sup ->
        (cycle_basis (sp_graph sp) cs /\ has_cycle_space_dimension (sp_graph sp) (length cs))
        /\ t = total_weight (spanner_weights w sp) cs)
  /\ approx_sva_signed_Z g w 2 scan roots eord
     = ApproxOk [[10; 7; 8; 9; 11]; [1; 0; 3]; [2; 0; 4]; [2; 1; 5]] 24%Z.
Proof.
  cbv zeta. split; [vm_compute; reflexivity|]. split; [split; [reflexivity|repeat constructor]|].
  split; [apply SpannerProofs.scan_perm_check; vm_compute; reflexivity|]. split; [|vm_compute; reflexivity].
  intros sp cs t sup Hsp Hex.
  match type of Hsp with ?l = _ => eassert (E : l = _) by (vm_compute; reflexivity) end.
  pose proof (eq_trans (eq_sym Hsp) E) as E1. injection E1 as ->. clear Hsp E.
  match type of Hex with ?l = _ => eassert (E : l = _) by (vm_compute; reflexivity) end.
  pose proof (eq_trans (eq_sym Hex) E) as E1. injection E1 as -> -> _. clear Hex E.
  split; [|vm_compute; reflexivity].
  match goal with |- cycle_basis ?h ?cs /\ _ =>
    assert (Hs : simple_graph h) by (vm_compute; reflexivity);
    assert (Hc : basis_checkb h [0; 1; 2; 3; 4; 5; 6; 7; 8] cs = true) by (vm_compute; reflexivity);
    assert (Em : map set_of_list cs = cs) by (vm_compute; reflexivity);
    destruct (rf_basis_checkb_sound_from sva_generic_basis h [0; 1; 2; 3; 4; 5; 6; 7; 8] cs Hs ap_lt_9_In Hc) as (_ & H1 & H2)
  end.
  rewrite Em in H1. split; [exact H1|exact H2].
Qed.
