(* McbSpec.v — specification vocabulary for cycle bases (layer S of DESIGN.md).
   Cycles are canonical edge sets (strictly increasing lists of edge ids, GF2Model.vec); a cycle basis
   is a list of simple cycles that is GF(2)-independent and spans the whole cycle space (all
   even-degree edge sets) of the graph.  Definitions only; no algorithms. *)
From Coq Require Export List Arith Bool ZArith.
From Parmcb Require Export GraphModel GF2Model GraphSpec GF2Lin.
Export ListNotations.

Definition cycle_basis (g : graph) (B : list vec) : Prop :=
  Forall (simple_cycle g) B /\ indep B /\ spans (in_cycle_space g) B.

Definition min_cycle_basis (g : graph) (w : list Z) (B : list vec) : Prop :=
  cycle_basis g B /\ forall B', cycle_basis g B' -> (total_weight w B <= total_weight w B')%Z.

(* the dimension statement of C01: exactly m - n + c cycles, written without truncated subtraction *)
Definition has_cycle_space_dimension (g : graph) (N : nat) : Prop :=
  exists c, n_components g c /\ N + nv g = ne g + c.

(* C is a minimum-weight simple cycle among those with odd intersection with the witness, where
   "odd" is an arbitrary predicate (instantiated with  fun C => vdot S (edges_to_indices C) = true) *)
Definition min_odd_cycle (g : graph) (w : list Z) (oddp : vec -> Prop) (C : vec) : Prop :=
  simple_cycle g C /\ oddp C /\
  forall D, simple_cycle g D -> oddp D -> (weight w C <= weight w D)%Z.
