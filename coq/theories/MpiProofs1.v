(* MpiProofs1.v — lemmas about MpiModel.v that do not involve graphs:
     (a) the ceil-stride partition (C04a, Appendix B9);
     (b) the lock-step semantics on P copies of an SPMD program (helpers for C04b);
     (c) the reduction along an arbitrary tree with the minimum operator returns a minimum of the
         contributions (shape of C03's reduce argument: min with not-found as identity). *)
From Coq Require Import List Arith Bool ZArith Lia Permutation.
From Parmcb Require Import MpiModel.
Import ListNotations.

(* ------------------------------------------------------------------------------------------------ *)
(* (a) partition                                                                                      *)
(* ------------------------------------------------------------------------------------------------ *)

Lemma stride_spec total P : 1 <= P ->
  total <= P * stride total P /\ (total = 0 -> stride total P = 0) /\ (0 < total -> 0 < stride total P)
  /\ P * stride total P < total + P.
Proof.
  intros HP. unfold stride.
  pose proof (Nat.div_mod (total + P - 1) P ltac:(lia)) as E.
  pose proof (Nat.mod_upper_bound (total + P - 1) P ltac:(lia)) as Hm.
  set (s := (total + P - 1) / P) in *. set (m := (total + P - 1) mod P) in *.
  split; [nia|]. split; [|split; [|nia]].
  - intros ->. destruct s; [reflexivity|nia].
  - intros Ht. destruct s; [nia|lia].
Qed.

Lemma stride_one total : stride total 1 = total.
Proof. unfold stride. rewrite Nat.add_sub, Nat.div_1_r. reflexivity. Qed.

(* membership of an index in rank r's slice *)
Definition in_slice (total P r i : nat) : Prop :=
  slice_lo total P r <= i < slice_lo total P r + slice_len total P r.

Lemma in_slice_iff total P r i :
  in_slice total P r i <-> (r * stride total P <= i < (r + 1) * stride total P /\ i < total).
Proof. unfold in_slice, slice_len, slice_lo. nia. Qed.

Lemma slices_cover total P i : 1 <= P -> i < total -> exists r, r < P /\ in_slice total P r i.
Proof.
  intros HP Hi. destruct (stride_spec total P HP) as (Hge & _ & Hpos & _).
  specialize (Hpos ltac:(lia)). set (s := stride total P) in *.
  exists (i / s).
  pose proof (Nat.div_mod i s ltac:(lia)) as E.
  pose proof (Nat.mod_upper_bound i s ltac:(lia)) as Hm.
  split.
  - apply Nat.div_lt_upper_bound; lia.
  - apply in_slice_iff. fold s. nia.
Qed.

Lemma slices_disjoint total P r r' i : in_slice total P r i -> in_slice total P r' i -> r = r'.
Proof. rewrite !in_slice_iff. nia. Qed.

Lemma slices_inside total P r i : in_slice total P r i -> i < total.
Proof. rewrite in_slice_iff. lia. Qed.

Lemma slice_beyond_empty total P r : total <= slice_lo total P r -> slice_len total P r = 0.
Proof. unfold slice_len. lia. Qed.

(* P > total: at most `total` slices are non-empty, each a single index *)
Lemma slice_more_ranks total P r : 1 <= P -> total <= P -> slice_len total P r <= 1.
Proof.
  intros HP Hle. destruct (stride_spec total P HP) as (_ & _ & _ & Hlt).
  assert (stride total P <= 1) by nia. unfold slice_len. lia.
Qed.

Lemma slice_single_rank total : slice_lo total 1 0 = 0 /\ slice_len total 1 0 = total.
Proof. unfold slice_len, slice_lo. rewrite stride_one. lia. Qed.

(* the list version: the slices are consecutive pieces, and together they are the list *)
Lemma firstn_add {A} : forall a b (l : list A), firstn (a + b) l = firstn a l ++ firstn b (skipn a l).
Proof.
  induction a as [|a IH]; intros b l; [reflexivity|].
  destruct l as [|x l]; [cbn; destruct b; reflexivity|].
  cbn [Nat.add firstn skipn app]. rewrite IH. reflexivity.
Qed.

Lemma slice_eq_chunk {A} P r (l : list A) :
  slice P r l = firstn (stride (length l) P) (skipn (r * stride (length l) P) l).
Proof.
  unfold slice, slice_len, slice_lo. set (s := stride (length l) P). set (lo := r * s).
  assert (Hl : length (skipn lo l) = length l - lo) by apply skipn_length.
  destruct (Nat.le_ge_cases (lo + s) (length l)) as [H|H].
  - rewrite Nat.min_l by lia. f_equal. lia.
  - rewrite Nat.min_r by lia. rewrite !firstn_all2; try reflexivity; lia.
Qed.

Lemma concat_chunks {A} (s : nat) (l : list A) : forall P,
  concat (map (fun r => firstn s (skipn (r * s) l)) (seq 0 P)) = firstn (P * s) l.
Proof.
  induction P as [|P IH]; [reflexivity|].
  rewrite seq_S, map_app, concat_app, IH. cbn [map concat Nat.add]. rewrite app_nil_r.
  replace (S P * s) with (P * s + s) by lia. rewrite firstn_add. reflexivity.
Qed.

Lemma slices_concat {A} P (l : list A) : 1 <= P -> concat (map (fun r => slice P r l) (seq 0 P)) = l.
Proof.
  intros HP. rewrite (map_ext _ (fun r => firstn (stride (length l) P) (skipn (r * stride (length l) P) l)))
    by (intros r; apply slice_eq_chunk).
  rewrite concat_chunks. apply firstn_all2. destruct (stride_spec (length l) P HP) as (H & _). exact H.
Qed.

Lemma slice_length {A} P r (l : list A) : length (slice P r l) = slice_len (length l) P r.
Proof.
  unfold slice. rewrite firstn_length, skipn_length. unfold slice_len. lia.
Qed.

Lemma slice_seq P r n : slice P r (seq 0 n) = seq (slice_lo n P r) (slice_len n P r).
Proof.
  unfold slice. rewrite seq_length.
  set (lo := slice_lo n P r). set (len := slice_len n P r).
  assert (Hle : lo + len <= n \/ len = 0) by (unfold len, lo, slice_len; lia).
  destruct Hle as [Hle| ->]; [|reflexivity].
  replace n with (lo + (n - lo)) at 1 by lia.
  rewrite seq_app, skipn_app, seq_length, Nat.sub_diag.
  rewrite skipn_all2 by (rewrite seq_length; lia). cbn [skipn app].
  replace (n - lo) with (len + (n - lo - len)) by lia.
  rewrite seq_app, firstn_app, seq_length, Nat.sub_diag, firstn_O, app_nil_r.
  apply firstn_all2. rewrite seq_length. lia.
Qed.

(* ------------------------------------------------------------------------------------------------ *)
(* (b) lock step on `map f (seq 0 P)`                                                                 *)
(* ------------------------------------------------------------------------------------------------ *)

Section LockStep.
  Variables V R : Type.
  Notation prog := (prog V R).

  Lemma all_ret_map (f : nat -> R) l : all_ret V R (map (fun r => Ret (f r)) l) = Some (map f l).
  Proof. induction l as [|x l IH]; [reflexivity|]. cbn [map all_ret]. rewrite IH. reflexivity. Qed.

  Lemma all_bcast_map root (v : nat -> V) (k : nat -> V -> prog) l :
    all_bcast V R root (map (fun r => Bcast root (v r) (k r)) l) = Some (map (fun r => (v r, k r)) l).
  Proof.
    induction l as [|x l IH]; [reflexivity|]. cbn [map all_bcast]. rewrite Nat.eqb_refl, IH. reflexivity.
  Qed.

  Lemma all_reduce_map root tag (v : nat -> V) (k : nat -> option V -> prog) l :
    all_reduce V R root tag (map (fun r => Reduce root tag (v r) (k r)) l) = Some (map (fun r => (v r, k r)) l).
  Proof.
    induction l as [|x l IH]; [reflexivity|]. cbn [map all_reduce]. rewrite !Nat.eqb_refl, IH. reflexivity.
  Qed.

  Lemma all_scatter_map root (v : nat -> list V) (k : nat -> V -> prog) l :
    all_scatter V R root (map (fun r => Scatter root (v r) (k r)) l) = Some (map (fun r => (v r, k r)) l).
  Proof.
    induction l as [|x l IH]; [reflexivity|]. cbn [map all_scatter]. rewrite Nat.eqb_refl, IH. reflexivity.
  Qed.

  Lemma combine_seq_map {A} (f : nat -> A) : forall n a,
    combine (seq a n) (map f (seq a n)) = map (fun r => (r, f r)) (seq a n).
  Proof. induction n as [|n IH]; intros a; [reflexivity|]. cbn [seq map combine]. rewrite IH. reflexivity. Qed.

  Lemma combine_map_map {A B} (f : nat -> A) (h : nat -> B) (l : list nat) :
    combine (map f l) (map h l) = map (fun r => (f r, h r)) l.
  Proof. induction l as [|x l IH]; [reflexivity|]. cbn [map combine]. rewrite IH. reflexivity. Qed.

  Lemma nth_error_map_seq {A} (f : nat -> A) n r : r < n -> nth_error (map f (seq 0 n)) r = Some (f r).
  Proof.
    intros H. rewrite nth_error_map.
    replace (nth_error (seq 0 n) r) with (Some r); [reflexivity|].
    symmetry. rewrite nth_error_nth' with (d := 0) by (rewrite seq_length; exact H).
    rewrite seq_nth by exact H. reflexivity.
  Qed.
End LockStep.

(* ------------------------------------------------------------------------------------------------ *)
(* (c) reduction with the minimum operator                                                            *)
(* ------------------------------------------------------------------------------------------------ *)

Section ReduceMin.
  Notation payload := (payload Z).
  Notation mpi_min := (mpi_min Z Z.ltb).

  Definition is_cyc (p : payload) : Prop := exists c, p = PCyc c.

  Lemma mpi_min_cyc a b : is_cyc a -> is_cyc b -> is_cyc (mpi_min a b).
  Proof.
    intros [ca ->] [cb ->]. destruct ca as [[ca wa]|], cb as [[cb wb]|]; cbn [MpiModel.mpi_min].
    - destruct (wa <? wb)%Z; eexists; reflexivity.
    - eexists; reflexivity.
    - eexists; reflexivity.
    - eexists; reflexivity.
  Qed.

  (* the result is one of the two operands, found if either is, and not heavier than either *)
  Lemma mpi_min_spec a b : is_cyc a -> is_cyc b ->
    (mpi_min a b = a \/ mpi_min a b = b)
    /\ (forall c w, a = PCyc (Some (c, w)) \/ b = PCyc (Some (c, w)) ->
          exists c' w', mpi_min a b = PCyc (Some (c', w')) /\ (w' <= w)%Z).
  Proof.
    intros [ca ->] [cb ->]. destruct ca as [[ca wa]|], cb as [[cb wb]|]; cbn [MpiModel.mpi_min].
    - destruct (Z.ltb_spec wa wb); (split; [auto|]); intros c w [E|E]; inversion E; subst;
        eexists; eexists; (split; [reflexivity|lia]).
    - split; [auto|]. intros c w [E|E]; inversion E; subst. eexists; eexists; split; [reflexivity|lia].
    - split; [auto|]. intros c w [E|E]; inversion E; subst. eexists; eexists; split; [reflexivity|lia].
    - split; [auto|]. intros c w [E|E]; inversion E.
  Qed.

  (* along any tree whose leaves are valid ranks: the result is the contribution of one of its leaves and is a
     minimum over all of its leaves *)
  Lemma reval_min (vals : list payload) : Forall is_cyc vals ->
    forall t, (forall r, In r (rleaves t) -> r < length vals) ->
    exists x, reval payload mpi_min vals t = Some x /\ is_cyc x
      /\ (exists r, In r (rleaves t) /\ nth_error vals r = Some x)
      /\ (forall r c w, In r (rleaves t) -> nth_error vals r = Some (PCyc (Some (c, w))) ->
            exists c' w', x = PCyc (Some (c', w')) /\ (w' <= w)%Z).
  Proof.
    intros Hv. induction t as [r|a IHa b IHb]; intros Hl.
    - cbn [rleaves reval] in *. specialize (Hl r (or_introl eq_refl)).
      destruct (nth_error vals r) as [x|] eqn:E; [|apply nth_error_None in E; lia].
      exists x. split; [reflexivity|]. split.
      { rewrite Forall_forall in Hv. apply Hv. eapply nth_error_In; exact E. }
      split; [exists r; split; [left; reflexivity|exact E]|].
      intros r' c w [<-|[]] E'. rewrite E in E'. inversion E'; subst.
      eexists; eexists; split; [reflexivity|lia].
    - cbn [rleaves reval] in *.
      destruct IHa as (xa & Ea & Ca & (ra & Ira & Era) & Ma); [intros r Hr; apply Hl, in_or_app; left; exact Hr|].
      destruct IHb as (xb & Eb & Cb & (rb & Irb & Erb) & Mb); [intros r Hr; apply Hl, in_or_app; right; exact Hr|].
      rewrite Ea, Eb. exists (mpi_min xa xb). split; [reflexivity|].
      destruct (mpi_min_spec xa xb Ca Cb) as (Hsel & Hle).
      split; [apply mpi_min_cyc; assumption|]. split.
      + destruct Hsel as [-> | ->]; [exists ra|exists rb]; (split; [apply in_or_app; auto|assumption]).
      + intros r c w Hr E. apply in_app_or in Hr as [Hr|Hr].
        * destruct (Ma r c w Hr E) as (c1 & w1 & -> & H1).
          destruct (Hle c1 w1 (or_introl eq_refl)) as (c2 & w2 & E2 & H2).
          exists c2, w2. split; [exact E2|lia].
        * destruct (Mb r c w Hr E) as (c1 & w1 & -> & H1).
          destruct (Hle c1 w1 (or_intror eq_refl)) as (c2 & w2 & E2 & H2).
          exists c2, w2. split; [exact E2|lia].
  Qed.
End ReduceMin.

(* a permutation of the ranks is in particular a tree over valid ranks that mentions every rank *)
Definition rtree_ok (P : nat) (t : rtree) : Prop := Permutation (rleaves t) (seq 0 P).

Lemma rtree_ok_lt P t r : rtree_ok P t -> In r (rleaves t) -> r < P.
Proof. intros H Hr. apply (Permutation_in _ H) in Hr. apply in_seq in Hr. lia. Qed.

Lemma rtree_ok_all P t r : rtree_ok P t -> r < P -> In r (rleaves t).
Proof. intros H Hr. apply (Permutation_in _ (Permutation_sym H)). apply in_seq. lia. Qed.

Lemma insert_nat_perm x l : Permutation (x :: l) (insert_nat x l).
Proof.
  induction l as [|y l IH]; [apply Permutation_refl|]. cbn [insert_nat].
  destruct (x <=? y); [apply Permutation_refl|].
  eapply Permutation_trans; [apply perm_swap|]. apply perm_skip. exact IH.
Qed.

Lemma sort_nat_perm l : Permutation l (sort_nat l).
Proof.
  induction l as [|x l IH]; [apply Permutation_refl|]. cbn [sort_nat fold_right].
  eapply Permutation_trans; [apply perm_skip; exact IH|]. apply insert_nat_perm.
Qed.

Lemma rtree_okb_ok P t : rtree_okb P t = true -> rtree_ok P t.
Proof.
  unfold rtree_okb, rtree_ok. destruct (list_eq_dec Nat.eq_dec (sort_nat (rleaves t)) (seq 0 P)) as [E|]; [|discriminate].
  intros _. rewrite <- E. apply sort_nat_perm.
Qed.
