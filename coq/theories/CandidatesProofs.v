(* CandidatesProofs.v — proofs about CandidatesModel.v (C14), generic in the weight type where possible.
     cd_fvs_nested / cd_iso_nested   the FVS and isometric collections are sub-collections of Horton's
     cd_shape                        a Horton candidate: non-tree edge between two nodes whose tree walks from the root
                                     share no vertex (besides the root); recorded weight = edge + the two stored weights
   Prefix cd_. *)
From Coq Require Import List Arith Bool Lia ZArith Permutation.
From Parmcb Require Import GraphModel GraphSpec GraphLemmas HeapModel LexSPModel FvsModel CandidatesModel
     LexSPProofsHeap LexSPProofs.
Import ListNotations.

Lemma cd_enum_In {A} (l : list A) : forall k i x,
  In (i, x) (cd_enum k l) <-> k <= i /\ nth_error l (i - k) = Some x.
Proof.
  induction l as [|y l IH]; intros k i x; cbn [cd_enum In].
  - split; [intros []|]. intros [_ H]. destruct (i - k); discriminate.
  - rewrite IH. split.
    + intros [H|[H1 H2]].
      * injection H as <- <-. rewrite Nat.sub_diag. split; [lia|reflexivity].
      * split; [lia|]. replace (i - k) with (S (i - S k)) by lia. exact H2.
    + intros [H1 H2]. destruct (Nat.eq_dec i k) as [->|Hne].
      * rewrite Nat.sub_diag in H2. injection H2 as <-. left; reflexivity.
      * right. split; [lia|]. replace (i - k) with (S (i - S k)) in H2 by lia. exact H2.
Qed.

Lemma cd_Forall2_nth {A B} (R : A -> B -> Prop) l l' : Forall2 R l l' ->
  forall i, (forall x, nth_error l i = Some x -> exists y, nth_error l' i = Some y /\ R x y) /\
            (forall y, nth_error l' i = Some y -> exists x, nth_error l i = Some x /\ R x y).
Proof.
  induction 1 as [|a b l l' Hab HF IH]; intros i.
  - split; intros x H; destruct i; discriminate.
  - destruct i as [|i]; cbn [nth_error].
    + split; intros x H; injection H as <-; eauto.
    + apply IH.
Qed.

Section CandGen.
  Variable W : Type.
  Variable w0 : W.
  Variable wadd : W -> W -> W.
  Variable wltb : W -> W -> bool.

  Notation sptree := (sptree W w0 wadd wltb).
  Notation lx_all := (lx_all W w0 wadd wltb).
  Notation create := (create_candidate_cycles W w0 wadd).
  Notation cycles_of_roots := (cycles_of_roots W w0 wadd wltb).
  Notation horton_cycles := (horton_cycles W w0 wadd wltb).
  Notation fvs_cycles := (fvs_cycles W w0 wadd wltb).
  Notation iso_cycles := (iso_cycles W w0 wadd wltb).
  Notation cand := (cand W).

  Lemma cd_lx_all_inv g wts : forall ss ts,
    lx_all g wts ss = LxOk ts -> Forall2 (fun s t => sptree g wts s = LxOk t) ss ts.
  Proof.
    induction ss as [|s ss IH]; intros ts H; cbn [LexSPModel.lx_all] in H.
    - injection H as <-. constructor.
    - destruct (sptree g wts s) as [t| | | |] eqn:Et; try discriminate.
      destruct (lx_all g wts ss) as [ts'| | | |] eqn:Ea; try discriminate.
      injection H as <-. constructor; auto.
  Qed.

  Lemma cd_sptree_src g wts s t : sptree g wts s = LxOk t -> st_src t = s /\ s < nv g.
  Proof.
    unfold LexSPModel.sptree, lex_dijkstra.
    destruct (Nat.ltb_spec s (nv g)) as [Hs|Hs]; cbn [negb]; [|discriminate].
    destruct (lx_loop _ _ _ _ _ _ _ _ _) as [st| | | |]; try discriminate.
    destruct (lx_mk_nodes _ _ _ _ _ _) as [n0| | | |]; try discriminate.
    destruct (fold_left _ _ _) as [n1| | | |]; try discriminate.
    destruct (lx_first_loop _ _ _ _ _ _) as [f| | | |]; try discriminate.
    intros [= <-]. split; [reflexivity|exact Hs].
  Qed.

  (* what it means to be a candidate of tree t under id i *)
  Definition cd_is_cand (g : graph) (wts : list W) (i : nat) (t : sp_tree W) (c : cand) : Prop :=
    c_tree c = i /\
    exists a b v u, ends g (c_edge c) = Some (a, b) /\
      memb (c_edge c) (cd_tree_edges W t) = false /\
      sp_node_of W t a = Some v /\ sp_node_of W t b = Some u /\
      sp_first W t a <> sp_first W t b /\
      c_weight c = wadd (wadd (lx_wt W w0 wts (c_edge c)) (sn_weight v)) (sn_weight u).

  Lemma cd_create_In g wts i t c : In c (create g wts i t) <-> cd_is_cand g wts i t c.
  Proof.
    unfold create_candidate_cycles, cd_is_cand. rewrite in_flat_map. split.
    - intros [[e [a b]] [Hin Hc]]. apply cd_enum_In in Hin as [_ Hn]. rewrite Nat.sub_0_r in Hn.
      unfold cd_of_edge in Hc. destruct (memb e (cd_tree_edges W t)) eqn:Em; [destruct Hc|].
      destruct (sp_node_of W t a) as [v|] eqn:Ea; [|destruct Hc].
      destruct (sp_node_of W t b) as [u|] eqn:Eb; [|destruct Hc].
      destruct (Nat.eqb_spec (sp_first W t a) (sp_first W t b)) as [|Hne]; [destruct Hc|].
      destruct Hc as [<-|[]]. cbn [c_tree c_edge c_weight]. split; [reflexivity|].
      exists a, b, v, u. unfold ends. auto 10.
    - intros [Hi [a [b [v [u [He [Hm [Ha [Hb [Hf Hw]]]]]]]]]].
      exists (c_edge c, (a, b)). split.
      + apply cd_enum_In. rewrite Nat.sub_0_r. split; [lia|exact He].
      + unfold cd_of_edge. rewrite Hm, Ha, Hb. destruct (Nat.eqb_spec (sp_first W t a) (sp_first W t b)); [contradiction|].
        left. destruct c as [ct ce cw]. cbn [c_tree c_edge c_weight] in *. subst. reflexivity.
  Qed.

  Lemma cd_cycles_of_trees_In g wts trees c :
    In c (cd_cycles_of_trees W w0 wadd g wts trees) <->
    exists t, nth_error trees (c_tree c) = Some t /\ cd_is_cand g wts (c_tree c) t c.
  Proof.
    unfold cd_cycles_of_trees. rewrite in_flat_map. split.
    - intros [[i t] [Hin Hc]]. apply cd_enum_In in Hin as [_ Hn]. rewrite Nat.sub_0_r in Hn.
      cbn [fst snd] in Hc. apply cd_create_In in Hc. pose proof Hc as [Hi _]. subst i. eauto.
    - intros [t [Hn Hc]]. exists (c_tree c, t). split.
      + apply cd_enum_In. rewrite Nat.sub_0_r. split; [lia|exact Hn].
      + cbn [fst snd]. apply cd_create_In. exact Hc.
  Qed.

  Lemma cd_cycles_of_roots_inv g wts roots trees cs :
    cycles_of_roots g wts roots = CdOk (trees, cs) ->
    Forall2 (fun s t => sptree g wts s = LxOk t) roots trees /\ cs = cd_cycles_of_trees W w0 wadd g wts trees.
  Proof.
    unfold CandidatesModel.cycles_of_roots, cd_trees.
    destruct (lx_all g wts roots) as [ts| | | |] eqn:E; try discriminate.
    intros [= <- <-]. split; [apply cd_lx_all_inv; exact E|reflexivity].
  Qed.

  (* the root of a candidate relative to the builder's tree vector *)
  Definition cd_root (trees : list (sp_tree W)) (c : cand) : option nat :=
    option_map (@st_src W) (nth_error trees (c_tree c)).

  (* every candidate of a collection built from any list of roots re-appears in Horton's collection with the same
     root, edge and weight *)
  Lemma cd_roots_nested g wts roots trees cs htrees hcs :
    cycles_of_roots g wts roots = CdOk (trees, cs) ->
    horton_cycles g wts = CdOk (htrees, hcs) ->
    forall c, In c cs ->
    exists c', In c' hcs /\ cd_root htrees c' = cd_root trees c /\ cd_root trees c <> None /\
               c_edge c' = c_edge c /\ c_weight c' = c_weight c.
  Proof.
    intros Hr Hh c Hc. apply cd_cycles_of_roots_inv in Hr as [Fr ->].
    unfold CandidatesModel.horton_cycles in Hh. apply cd_cycles_of_roots_inv in Hh as [Fh ->].
    apply cd_cycles_of_trees_In in Hc as [t [Hn Hcand]].
    destruct (proj2 (cd_Forall2_nth _ _ _ Fr (c_tree c)) t Hn) as [r [Hrn Hrt]].
    destruct (cd_sptree_src g wts r t Hrt) as [Hsrc Hrlt].
    assert (Hseq : nth_error (seq 0 (nv g)) r = Some r) by (rewrite gl_seq_nth_error by exact Hrlt; reflexivity).
    destruct (proj1 (cd_Forall2_nth _ _ _ Fh r) r Hseq) as [t' [Hn' Ht']].
    rewrite Hrt in Ht'. injection Ht' as <-.
    exists {| c_tree := r; c_edge := c_edge c; c_weight := c_weight c |}. cbn [c_tree c_edge c_weight].
    unfold cd_root. cbn [c_tree]. rewrite Hn, Hn'. cbn [option_map].
    split; [|repeat split; try discriminate].
    apply cd_cycles_of_trees_In. cbn [c_tree]. exists t. split; [exact Hn'|].
    destruct Hcand as [_ H]. split; [reflexivity|exact H].
  Qed.

  Theorem cd_fvs_nested g wts picks trees cs htrees hcs :
    fvs_cycles g wts picks = CdOk (trees, cs) ->
    horton_cycles g wts = CdOk (htrees, hcs) ->
    forall c, In c cs ->
    exists c', In c' hcs /\ cd_root htrees c' = cd_root trees c /\ cd_root trees c <> None /\
               c_edge c' = c_edge c /\ c_weight c' = c_weight c.
  Proof.
    unfold CandidatesModel.fvs_cycles. destruct (greedy_fvs g picks) as [fvs| | |]; try discriminate.
    apply cd_roots_nested.
  Qed.

  (* ---- ISO: the output loop only re-emits vertices of the cycle graph ------------------------ *)
  Lemma cd_iso_out_incl g wts trees comp badc : forall vs inout out,
    cd_iso_out W w0 wadd g wts trees comp badc vs inout = CdOk out ->
    (forall i c, In (i, c) vs -> exists t, nth_error trees (c_tree c) = Some t /\ cd_is_cand g wts (c_tree c) t c) ->
    incl out (map snd vs).
  Proof.
    induction vs as [|[i c] vs IH]; intros inout out H Hv; cbn [cd_iso_out] in H.
    - injection H as <-. intros x [].
    - assert (Hv' : forall i c, In (i, c) vs -> exists t, nth_error trees (c_tree c) = Some t /\ cd_is_cand g wts (c_tree c) t c)
        by (intros; eapply Hv; right; eauto).
      destruct (nth i comp None) as [k|]; [|discriminate].
      destruct (negb (nth k badc false) && negb (nth k inout false)).
      + destruct (Hv i c (or_introl eq_refl)) as [t [Hn [_ [a [b [v [u [He [_ [Ha [Hb [_ Hw]]]]]]]]]]]].
        rewrite Hn, He, Ha, Hb in H.
        destruct (cd_iso_out W w0 wadd g wts trees comp badc vs (set_nth inout k true)) as [out'| | | |] eqn:E; try discriminate.
        injection H as <-. cbn [map snd]. intros x [<-|Hx].
        * left. destruct c as [ct ce cw]. cbn [c_tree c_edge c_weight] in *. rewrite Hw. reflexivity.
        * right. eapply IH; eauto.
      + cbn [map snd]. intros x Hx. right. eapply IH; eauto.
  Qed.

  Theorem cd_iso_nested g wts trees cs :
    iso_cycles g wts = CdOk (trees, cs) ->
    exists hcs, horton_cycles g wts = CdOk (trees, hcs) /\ incl cs hcs.
  Proof.
    unfold CandidatesModel.iso_cycles.
    destruct (horton_cycles g wts) as [[htrees allcycles]| | | |] eqn:Eh; try discriminate.
    set (cv := filter (cd_is_circuit W g htrees) allcycles).
    destruct (cd_links W g htrees cv cv) as [links| | | |]; try discriminate.
    destruct (cd_components _ _ _ _) as [comp|]; [|discriminate].
    destruct (cd_iso_out _ _ _ _ _ _ _ _ _ _) as [out| | | |] eqn:Eo; try discriminate.
    intros [= <- <-]. exists allcycles. split; [reflexivity|].
    apply cd_iso_out_incl in Eo.
    - intros x Hx. apply Eo in Hx. apply in_map_iff in Hx as [[i c] [<- Hin]]. cbn [snd].
      apply cd_enum_In in Hin as [_ Hn]. apply nth_error_In in Hn. unfold cv in Hn. apply filter_In in Hn. tauto.
    - intros i c Hin. apply cd_enum_In in Hin as [_ Hn]. apply nth_error_In in Hn. unfold cv in Hn.
      apply filter_In in Hn as [Hn _].
      unfold CandidatesModel.horton_cycles in Eh. apply cd_cycles_of_roots_inv in Eh as [_ ->].
      apply cd_cycles_of_trees_In. exact Hn.
  Qed.

  (* ---- the shape of a candidate -------------------------------------------------------------- *)
  Section Shape.
    Variable g : graph.
    Variable wts : list W.
    Variable s : nat.
    Variable t : sp_tree W.
    Hypothesis Hspec : lx_tree_spec W w0 wadd g wts s t.

    Notation twalk := (lx_twalk W g (st_nodes t)).

    Lemma cd_twalk_snoc_inv x q e v' v : twalk x (q ++ [(e, v')]) v ->
      v' = v /\ exists u nd, twalk x q u /\ nth v (st_nodes t) None = Some nd /\ sn_pred nd = Some e /\
                             opposite g e v = Some u.
    Proof.
      intros H. inversion H as [Hx Hnil|p u e0 v0 nd Hp Hv He Ho Happ]; subst.
      - destruct q; discriminate.
      - apply app_inj_tail in Happ as [-> Heq]. injection Heq as <- <-. split; [reflexivity|]. exists u, nd. auto.
    Qed.

    Lemma cd_twalk_prefix x p1 : forall p2 v, twalk x (p1 ++ p2) v -> exists y, twalk x p1 y.
    Proof.
      induction p2 as [|a p2 IH] using rev_ind; intros v H.
      - rewrite app_nil_r in H. eauto.
      - rewrite app_assoc in H. destruct a as [e v']. apply cd_twalk_snoc_inv in H as [_ [u [nd [Hq _]]]]. eauto.
    Qed.

    Lemma cd_root_node : exists nd, nth s (st_nodes t) None = Some nd /\ sn_pred nd = None.
    Proof. destruct (ts_root _ _ _ _ _ _ _ Hspec) as [nd [H1 [H2 _]]]. exists nd. auto. Qed.

    Lemma cd_twalk_uniq p v p' : twalk s p v -> twalk s p' v -> p = p'.
    Proof.
      destruct cd_root_node as [nd [H1 H2]]. intros Hp Hp'.
      eapply lx_twalk_unique; eauto.
    Qed.

    Lemma cd_twalk_root p : twalk s p s -> p = [].
    Proof.
      intros H. symmetry. eapply cd_twalk_uniq; [|exact H]. apply ltw_nil.
      destruct cd_root_node as [nd [H1 _]]. rewrite H1. discriminate.
    Qed.

    Definition cd_hdv (p : list (nat * nat)) : option nat :=
      match p with [] => None | (_, c) :: _ => Some c end.

    (* the first label of a vertex is the first vertex after the root on its tree walk *)
    Lemma cd_first_hd p v : twalk s p v -> p <> [] -> cd_hdv p = Some (sp_first W t v).
    Proof.
      intros Hp Hne.
      assert (Hvs : v <> s) by (intros ->; apply Hne; apply cd_twalk_root; exact Hp).
      assert (Hv : sp_node_of W t v <> None) by (eapply lx_twalk_end; eauto).
      destruct (ts_first _ _ _ _ _ _ _ Hspec v Hvs Hv) as [e [q Hq]].
      rewrite (cd_twalk_uniq _ _ _ Hp Hq). reflexivity.
    Qed.

    Lemma cd_on_walk p v y : twalk s p v -> In y (wverts p) ->
      y <> s /\ cd_hdv p = Some (sp_first W t y).
    Proof.
      intros Hp Hy. unfold wverts in Hy. apply in_map_iff in Hy as [[ey y'] [Hy1 Hy2]]. cbn [snd] in Hy1. subst y'.
      apply in_split in Hy2 as [p1 [p2 ->]].
      change (p1 ++ (ey, y) :: p2) with (p1 ++ [(ey, y)] ++ p2) in Hp. rewrite app_assoc in Hp.
      destruct (cd_twalk_prefix _ _ _ _ Hp) as [y' Hy'].
      pose proof (cd_twalk_snoc_inv _ _ _ _ _ Hy') as [<- _].
      assert (Hne : p1 ++ [(ey, y)] <> []) by (destruct p1; discriminate).
      split.
      - intros ->. apply Hne. apply cd_twalk_root. exact Hy'.
      - rewrite <- (cd_first_hd _ _ Hy' Hne). destruct p1 as [|[e1 c1] p1]; reflexivity.
    Qed.

    Lemma cd_walk_tree_edges x p v : twalk x p v -> forall e, In e (wedges p) -> In e (cd_tree_edges W t).
    Proof.
      induction 1 as [Hx|p u e v nd Hp IH Hv He Ho]; intros e' He'; [destruct He'|].
      unfold wedges in He'. rewrite map_app in He'. apply in_app_iff in He' as [He'|[<-|[]]]; [apply IH; exact He'|].
      cbn [fst]. unfold cd_tree_edges. apply in_flat_map. exists (Some nd). split.
      - rewrite <- Hv. apply nth_In. eapply lx_nth_some_lt; eauto.
      - rewrite He. left; reflexivity.
    Qed.

    Theorem cd_shape i c : cd_is_cand g wts i t c ->
      exists a b pa pb,
        ends g (c_edge c) = Some (a, b) /\ twalk s pa a /\ twalk s pb b /\
        (forall y, In y (wverts pa) -> In y (wverts pb) -> False) /\
        ~ In s (wverts pa) /\ ~ In s (wverts pb) /\
        ~ In (c_edge c) (wedges pa) /\ ~ In (c_edge c) (wedges pb) /\
        c_weight c = wadd (wadd (lx_wt W w0 wts (c_edge c)) (lx_wsum W w0 wadd wts pa)) (lx_wsum W w0 wadd wts pb).
    Proof.
      intros [_ [a [b [v [u [He [Hm [Ha [Hb [Hf Hw]]]]]]]]]].
      assert (Han : sp_node_of W t a <> None) by (rewrite Ha; discriminate).
      assert (Hbn : sp_node_of W t b <> None) by (rewrite Hb; discriminate).
      destruct (ts_chain _ _ _ _ _ _ _ Hspec a Han) as [pa Hpa].
      destruct (ts_chain _ _ _ _ _ _ _ Hspec b Hbn) as [pb Hpb].
      exists a, b, pa, pb. split; [exact He|]. split; [exact Hpa|]. split; [exact Hpb|].
      apply gl_memb_false in Hm.
      repeat split.
      - intros y Hya Hyb.
        destruct (cd_on_walk _ _ _ Hpa Hya) as [_ H1]. destruct (cd_on_walk _ _ _ Hpb Hyb) as [_ H2].
        assert (Hna : pa <> []) by (intros ->; destruct Hya).
        assert (Hnb : pb <> []) by (intros ->; destruct Hyb).
        rewrite (cd_first_hd _ _ Hpa Hna) in H1. rewrite (cd_first_hd _ _ Hpb Hnb) in H2.
        injection H1 as H1. injection H2 as H2. apply Hf. congruence.
      - intros Hs. destruct (cd_on_walk _ _ _ Hpa Hs) as [Hc _]. contradiction.
      - intros Hs. destruct (cd_on_walk _ _ _ Hpb Hs) as [Hc _]. contradiction.
      - intros Hin. apply Hm. apply (cd_walk_tree_edges _ _ _ Hpa). exact Hin.
      - intros Hin. apply Hm. apply (cd_walk_tree_edges _ _ _ Hpb). exact Hin.
      - rewrite Hw. rewrite (ts_weight _ _ _ _ _ _ _ Hspec a v pa Ha Hpa), (ts_weight _ _ _ _ _ _ _ Hspec b u pb Hb Hpb).
        reflexivity.
    Qed.
  End Shape.
End CandGen.
