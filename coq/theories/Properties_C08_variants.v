(* Properties_C08_variants.v — property C08, clause "the optimum is identical across all exact variants and backends", PREMISE-FREE,
   and transfer of every metamorphic relation of Properties_C08.v to the values RETURNED by every variant.
   Only statements; each closed by [exact <lemma>] (proofs: OptVariantsProofs.v) and followed by Print Assumptions.

   Properties_C08.C08_variants_agree_modulo_search speaks about runs of the generic support-vector loop whose per-phase search is
   assumed to be a minimum search.  Here a variant is the MODEL of an entry point under arbitrary oracle values
   (OptVariantsProofs.variant_returns; the table of models and of the per-variant theorems that discharge the premise is in the
   header of that file):

     VSigned, VSignedTbb                     mcb_sva_signed, mcb_sva_signed_tbb              (every pointer order, bit stream, insertion order)
     VFvsTrees, VIsoTrees                    mcb_sva_fvs_trees, mcb_sva_iso_trees            (accepted runs: every resolution of std::sort)
     VFvsTreesTbb, VIsoTreesTbb              their _tbb flavours, ParTreesModel              (every bit stream, arrangement, numeric_limits::max)
     VSignedMpi                              mcb_sva_signed_mpi                              (every P >= 1, every reduction tree)
     VFvsTreesMpi, VIsoTreesMpi              mcb_sva_{fvs,iso}_trees_mpi                     (every P, per-rank arrangement, reduction tree)
     VFvsTreesTbbMpi, VIsoTreesTbbMpi        mcb_sva_{fvs,iso}_trees_tbb_mpi                 (+ every per-rank per-phase bit stream)

     variant_returns v g w x   x is a value the model of variant v can return on (g, w): existential over every oracle (and P >= 1).
     returns_opt V             every value the relation V yields on a simple graph with positive integer weights is the optimum.
     relations_hold V V'       the eight relations (scale, isolated, relabel, edge order, union, subdivide, pendant, bridge) between
                               the value V returns on the base graph and the value V' returns on the transformed graph.

     C08_models_are_variants                 every model above is a returns_opt variant (and is total: C08_every_variant_returns)
     C08_all_exact_variants_agree            for every simple graph with positive integer weights there is ONE x with is_opt g w x,
                                             every value any variant's model returns under any oracle values equals it, and every
                                             variant does return a value
     C08_any_two_variants_agree              pairwise form
     C08_variants_respect_relation           generic transfer: a relation F between the optima of (g, w) and (g', w') is a relation
                                             between the returned values of any two returns_opt variants
     C08_relations_hold_generic              the eight relations for ANY two returns_opt variants
     C08_relations_hold_for_every_variant    ... hence for any two of the eleven models (possibly different ones on the two graphs)
     C08_domain_preserved_weighted           the transformed weighted graphs stay in the exact domain (positive weights of matching
                                             length; the disjoint union of simple graphs is simple) — complements C08_domain_preserved
   Nothing here is modulo a premise. *)
From Coq Require Import List Arith Bool ZArith Lia.
From Parmcb Require Import GraphModel GraphSpec McbSpec SvaModel SvaSpec OptSpec OptProofs3 FvsModel CandidatesModel SignedZModel
     ParSignedModel TreesModel SchedModel ParTreesModel MpiModel MpiProofs1 MpiTreesModel MpiTreesTbbModel DemoE2E DemoE2E2
     OptVariantsProofs.
From Parmcb Require Properties_C02_trees Properties_C04_trees Properties_C08.
Import ListNotations.
Local Open Scope Z_scope.

(* ---- each model is a variant ------------------------------------------------------------------------------------------------- *)

Theorem C08_models_are_variants : forall v : exact_variant, returns_opt (variant_returns v).
Proof. exact variant_returns_opt. Qed.
Print Assumptions C08_models_are_variants.

(* ... and returns a value on every input of the domain — for the MPI variants with every job size P >= 1 *)
Theorem C08_every_variant_returns : forall (v : exact_variant) (P : nat) (g : graph) (w : list Z),
  (1 <= P)%nat -> simple_graph g -> positive_weights g w -> exists x, variant_returns v g w x.
Proof. exact variant_returns_exists_P. Qed.
Print Assumptions C08_every_variant_returns.

(* ---- all exact variants and backends agree -------------------------------------------------------------------------------------- *)

Theorem C08_all_exact_variants_agree : forall (g : graph) (w : list Z), simple_graph g -> positive_weights g w ->
  exists x, is_opt g w x /\ (forall y, is_opt g w y -> y = x) /\
            (forall v y, variant_returns v g w y -> y = x) /\ (forall v, exists y, variant_returns v g w y).
Proof. exact all_exact_variants_agree. Qed.
Print Assumptions C08_all_exact_variants_agree.

Theorem C08_any_two_variants_agree : forall (v1 v2 : exact_variant) (g : graph) (w : list Z) (x1 x2 : Z),
  simple_graph g -> positive_weights g w -> variant_returns v1 g w x1 -> variant_returns v2 g w x2 -> x1 = x2.
Proof. exact any_two_variants_agree. Qed.
Print Assumptions C08_any_two_variants_agree.

(* ---- relations between optima are relations between returned values --------------------------------------------------------------- *)

Theorem C08_variants_respect_relation :
  forall (V V' : graph -> list Z -> Z -> Prop) (F : Z -> Z) g w g' w' t t',
    returns_opt V -> returns_opt V' ->
    simple_graph g -> positive_weights g w -> simple_graph g' -> positive_weights g' w' ->
    (forall x, is_opt g w x -> is_opt g' w' (F x)) ->
    V g w t -> V' g' w' t' -> t' = F t.
Proof. exact variants_respect_relation. Qed.
Print Assumptions C08_variants_respect_relation.

(* the eight relations, spelled out (relations_hold unfolded), for ANY two variants in the general sense *)
Theorem C08_relations_hold_generic : forall V V' : graph -> list Z -> Z -> Prop, returns_opt V -> returns_opt V' ->
  (forall g w k t t', simple_graph g -> positive_weights g w -> 0 < k ->
     V g w t -> V' g (scale_weights k w) t' -> t' = k * t) /\
  (forall k g w t t', simple_graph g -> positive_weights g w ->
     V g w t -> V' (add_isolated k g) w t' -> t' = t) /\
  (forall f f' g w t t', simple_graph g -> positive_weights g w -> perm_on (nv g) f f' ->
     V g w t -> V' (relabel f g) w t' -> t' = t) /\
  (forall g w sigma t t', simple_graph g -> positive_weights g w -> is_edge_perm (ne g) sigma ->
     V g w t -> V' (permute_edges sigma g) (permute_weights sigma w) t' -> t' = t) /\
  (forall g h wg wh x y z, simple_graph g -> simple_graph h -> positive_weights g wg -> positive_weights h wh ->
     V g wg x -> V h wh y -> V' (disjoint_union g h) (wg ++ wh) z -> z = x + y) /\
  (forall g w e a b t t', simple_graph g -> positive_weights g w -> (e < ne g)%nat -> 0 < a -> 0 < b -> wt w e = a + b ->
     V g w t -> V' (subdivide e g) (subdivide_weights e a b w) t' -> t' = t) /\
  (forall us g w cs t t', simple_graph g -> positive_weights g w -> pendants_ok us (nv g) -> length cs = length us ->
     Forall (fun c => 0 < c) cs ->
     V g w t -> V' (add_pendants us g) (w ++ cs) t' -> t' = t) /\
  (forall g u v w c t t', simple_graph g -> positive_weights g w -> is_bridge_pair g u v -> 0 < c ->
     V g w t -> V' (add_bridge u v g) (w ++ [c]) t' -> t' = t).
Proof. exact relations_hold_generic. Qed.
Print Assumptions C08_relations_hold_generic.

(* ... hence for the models of any two exact variants *)
Theorem C08_relations_hold_for_every_variant : forall v v' : exact_variant,
  relations_hold (variant_returns v) (variant_returns v').
Proof. exact relations_hold_for_every_variant. Qed.
Print Assumptions C08_relations_hold_for_every_variant.

(* the transformed weighted graphs stay in the exact domain (what the transfer needs beyond C08_domain_preserved) *)
Theorem C08_domain_preserved_weighted : forall g w, positive_weights g w ->
  (forall k, positive_weights (add_isolated k g) w) /\
  (forall f, positive_weights (relabel f g) w) /\
  (forall sigma, is_edge_perm (ne g) sigma -> positive_weights (permute_edges sigma g) (permute_weights sigma w)) /\
  (forall h wh, positive_weights h wh -> positive_weights (disjoint_union g h) (w ++ wh)) /\
  (forall h, simple_graph g -> simple_graph h -> simple_graph (disjoint_union g h)) /\
  (forall e a b, (e < ne g)%nat -> 0 < a -> 0 < b -> positive_weights (subdivide e g) (subdivide_weights e a b w)) /\
  (forall us cs, length cs = length us -> Forall (fun c => 0 < c) cs -> positive_weights (add_pendants us g) (w ++ cs)) /\
  (forall u v c, 0 < c -> positive_weights (add_bridge u v g) (w ++ [c])).
Proof.
  intros g w Hw. split; [intros k; exact (pos_isolated k g w Hw)|]. split; [intros f; exact (pos_relabel f g w Hw)|].
  split; [intros sigma; exact (pos_permute g w sigma Hw)|]. split; [intros h wh; exact (pos_union g h w wh Hw)|].
  split; [intros h; exact (simple_union g h)|]. split; [intros e a b; exact (pos_subdivide g w e a b Hw)|].
  split; [intros us cs; exact (pos_pendants us g w cs Hw)|intros u v c; exact (pos_bridge u v g w c Hw)].
Qed.
Print Assumptions C08_domain_preserved_weighted.

(* ---- non-vacuity ---------------------------------------------------------------------------------------------------------------------- *)

(* the theta graph of Properties_C02_trees.v (optimum 15): explicit runs of three very different variants — the sequential FVS-tree
   MPI flavour with 3 ranks (the candidates of root 1 split across ranks 0 and 1, rank 2 with an empty chunk), the isometric TBB
   lookup under the all-ones stream with an arrangement that is not weight-sorted, the TBB-MPI FVS flavour with alternating
   steal / no-steal streams — all return 15; every one of the eleven variants returns a value, and only 15 *)
Example C08_variants_agree_nonvacuous :
  let g := Properties_C02_trees.c02t_g in let w := Properties_C02_trees.c02t_w in
  simple_graph g /\ positive_weights g w /\
  variant_returns VFvsTreesMpi g w 15 /\ variant_returns VIsoTreesTbb g w 15 /\ variant_returns VFvsTreesTbbMpi g w 15 /\
  is_opt g w 15 /\
  (forall v, exists y, variant_returns v g w y) /\ (forall v y, variant_returns v g w y -> y = 15) /\
  length all_variants = 11%nat /\ (forall v, In v all_variants).
Proof.
  cbv zeta. destruct Properties_C02_trees.C02_trees_nonvacuous as (Hs & Hw & Hr & Hf & _).
  destruct Properties_C04_trees.C04c_fvs_nonvacuous as (_ & _ & _ & _ & _ & Hrt3 & Harr3 & _ & _ & (sup & rest & E3)).
  assert (H1 : variant_returns VFvsTreesMpi Properties_C02_trees.c02t_g Properties_C02_trees.c02t_w 15).
  { cbn [variant_returns].
    exists 3%nat, Properties_C02_trees.c02t_roots, [1]%nat, [1]%nat, Properties_C04_trees.c04t_arr, (fun _ => boost_reduce_tree 3).
    do 3 eexists. split; [auto|]. split; [exact Hr|]. split; [exact Hf|]. split; [exact Hrt3|]. split; [exact Harr3|exact E3]. }
  assert (Hopt : is_opt Properties_C02_trees.c02t_g Properties_C02_trees.c02t_w 15)
    by exact (C08_models_are_variants VFvsTreesMpi _ _ _ Hs Hw H1).
  split; [exact Hs|]. split; [exact Hw|]. split; [exact H1|].
  split.
  { cbn [variant_returns]. exists 2147483647, Properties_C02_trees.c02t_roots, [], [3;1;2;0]%nat, [true]. do 3 eexists.
    split; [exact Hr|vm_compute; reflexivity]. }
  split.
  { cbn [variant_returns].
    exists 3%nat, 1000, Properties_C02_trees.c02t_roots, [1]%nat, [1]%nat, Properties_C04_trees.c04t_arr,
      (fun _ _ => [true; false; true; true; false; false; true; false]), (fun _ => boost_reduce_tree 3). do 3 eexists.
    split; [auto|]. split; [exact Hr|]. split; [exact Hf|]. split; [exact Hrt3|]. split; [exact Harr3|vm_compute; reflexivity]. }
  split; [exact Hopt|].
  split; [intros v; exact (C08_every_variant_returns v 1 _ _ (le_n 1) Hs Hw)|].
  split.
  { intros v y Hy. exact (Properties_C08.C08_opt_unique _ _ _ _ (C08_models_are_variants v _ _ _ Hs Hw Hy) Hopt). }
  split; [reflexivity|]. intros v. destruct v; cbn; tauto.
Qed.

(* relations between RETURNED values, on the triangle 0-1-2 with weights 3, 4, 5 of Properties_C08.v: mcb_sva_signed returns 12 on it
   (explicit run).  Scaling by 4: mcb_sva_iso_trees_tbb_mpi with 2 ranks returns 48 on the scaled triangle (explicit run), and
   whatever ANY variant returns there is 4 * 12.  Union with the triangle scaled by 2: mcb_sva_signed_tbb returns 36 on the two
   triangles (explicit run), and whatever any variant returns there is 12 + 24. *)
Example C08_variant_relations_nonvacuous :
  variant_returns VSigned op_tri op_tri_w 12 /\
  variant_returns VIsoTreesTbbMpi op_tri [12; 16; 20] 48 /\
  (forall v' t', variant_returns v' op_tri [12; 16; 20] t' -> t' = 48) /\
  disjoint_union op_tri op_tri = {| nv := 6; ge := [(0, 1); (1, 2); (2, 0); (3, 4); (4, 5); (5, 3)]%nat |} /\
  variant_returns VSignedTbb (disjoint_union op_tri op_tri) [3; 4; 5; 6; 8; 10] 36 /\
  (forall v' z, variant_returns v' (disjoint_union op_tri op_tri) [3; 4; 5; 6; 8; 10] z -> z = 36) /\
  (* a pendant edge 1-3 of weight 7: still 12, for every variant *)
  (forall v' t', variant_returns v' (add_pendants [(1%nat, false)] op_tri) [3; 4; 5; 7] t' -> t' = 12).
Proof.
  assert (Hcov : forall n roots, roots = seq 0 n -> forall g, nv g = n -> covers g roots).
  { intros n roots -> g E v Hv. apply in_seq. lia. }
  assert (H12 : variant_returns VSigned op_tri op_tri_w 12).
  { cbn [variant_returns]. exists [0; 1; 2]%nat, []. do 2 eexists.
    split; [exact (Hcov 3%nat _ eq_refl op_tri eq_refl)|vm_compute; reflexivity]. }
  assert (Hw2 : positive_weights op_tri [6; 8; 10]) by (split; [reflexivity|repeat constructor]).
  assert (H24 : variant_returns VSigned op_tri [6; 8; 10] 24).
  { cbn [variant_returns]. exists [0; 1; 2]%nat, []. do 2 eexists.
    split; [exact (Hcov 3%nat _ eq_refl op_tri eq_refl)|vm_compute; reflexivity]. }
  split; [exact H12|].
  split.
  { cbn [variant_returns].
    exists 2%nat, 1000, [0; 1; 2]%nat, [], (fun r => nth r [[0%nat]; []] []), (fun _ _ => [true; false]), (fun _ => boost_reduce_tree 2).
    do 3 eexists. split; [auto|]. split; [exact (Hcov 3%nat _ eq_refl op_tri eq_refl)|].
    split; [intros _; apply rtree_okb_ok; reflexivity|]. split; [|vm_compute; reflexivity].
    intros r ts L Hr. destruct r as [|[|r]]; [| |exfalso; lia]; vm_compute; intros [= <- <-]; reflexivity. }
  split.
  { intros v' t' Ht'.
    destruct (C08_relations_hold_for_every_variant VSigned v') as (Hscale & _).
    exact (Hscale op_tri op_tri_w 4 12 t' op_tri_simple op_tri_positive ltac:(lia) H12 Ht'). }
  split; [reflexivity|].
  split.
  { cbn [variant_returns]. exists [0; 1; 2; 3; 4; 5]%nat, [], [true; false; true], []. do 3 eexists.
    split; [exact (Hcov 6%nat _ eq_refl (disjoint_union op_tri op_tri) eq_refl)|vm_compute; reflexivity]. }
  split.
  { intros v' z Hz.
    destruct (C08_relations_hold_for_every_variant VSigned v') as (_ & _ & _ & _ & Hunion & _).
    exact (Hunion op_tri op_tri op_tri_w [6; 8; 10] 12 24 z op_tri_simple op_tri_simple op_tri_positive Hw2 H12 H24 Hz). }
  intros v' t' Ht'.
  destruct (C08_relations_hold_for_every_variant VSigned v') as (_ & _ & _ & _ & _ & _ & Hpend & _).
  apply (Hpend [(1%nat, false)] op_tri op_tri_w [7] 12 t' op_tri_simple op_tri_positive); [cbn; lia|reflexivity|repeat constructor|exact H12|exact Ht'].
Qed.
