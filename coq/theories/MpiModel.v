(* MpiModel.v — SPMD programs over MPI collectives and the support-vector loop of the MPI entry points
     include/parmcb/mpi/parmcb_sva_signed.hpp   (mcb_sva_signed_mpi: main loop, lines 241-289)
     include/parmcb/mpi/parmcb_sva_trees.hpp    (_mcb_sva_trees_mpi: scatter 91-107, main loop 155-205)
     include/parmcb/sptrees.hpp:453-473         (SerializableMinOddCycleMinOp)
   Definitions only (proofs: MpiProofs*.v).

   1. A rank's program is a tree of collective calls (`prog`): broadcast from a root, reduce to a root with the
      (one) reduction operator, scatter from a root; the continuation receives what the collective delivers
      to THAT rank.  `run` executes P programs in lock step: if the ranks are not all at the same collective with
      the same root — or some have returned while others wait — the outcome is `Deadlock` ("a rank is left
      inside a collective").  boost::mpi::reduce with an operator declared commutative
      (mpi/sptrees.hpp:16) may combine the P contributions along any binary tree whose leaves are the ranks in
      any order: the tree of every reduce call is an oracle (`rtree_of tag`; the tag numbers the call — here the phase).  `boost_reduce_tree` is the tree
      Boost.MPI 1.83 actually uses for serialized types (a ternary heap rooted at the root, children folded
      left to right: v(n) = ((own . v(3n+1)) . v(3n+2)) . v(3n+3)); the harness re-observes it on every run.
   2. The ceil-stride partition `[r*s, min((r+1)*s, total))`, s = ceil(total/P), as coded at
      mpi/parmcb_sva_signed.hpp:104-110,154-160 and mpi/parmcb_sva_trees.hpp:91-102.  The C++ computes s as
      ceil((double) total / P); this equals the integer ceiling whenever total < 2^53 (B9) — side condition of
      the correspondence, not visible in the model.
   3. The SPMD skeleton of the main loop, generic in the per-phase, per-rank local search (`act`). *)
From Coq Require Export List Arith Bool.
From Parmcb Require Export GraphModel ForestModel GF2Model SvaModel.
Export ListNotations.

(* ------------------------------------------------------------------------------------------------ *)
(* 1. collectives in lock step                                                                        *)
(* ------------------------------------------------------------------------------------------------ *)

Inductive rtree := RLeaf (r : nat) | RNode (a b : rtree).

Fixpoint rleaves (t : rtree) : list nat :=
  match t with RLeaf r => [r] | RNode a b => rleaves a ++ rleaves b end.

Section Mpi.
  Variable V : Type.                (* what travels: one universe of payloads *)
  Variable R : Type.                (* what a rank returns *)

  Inductive prog : Type :=
  | Ret (r : R)
  | Bcast (root : nat) (mine : V) (k : V -> prog)              (* every rank receives the root's value *)
  | Reduce (root tag : nat) (mine : V) (k : option V -> prog)  (* only the root receives the combination; `tag`
                                                                  numbers the call (all ranks must be at the same one) *)
  | Scatter (root : nat) (mine : list V) (k : V -> prog).      (* rank r receives the r-th element of the root's list *)

  Inductive outcome :=
  | Done (rs : list R)
  | Deadlock (round : nat)          (* ranks disagree on the next collective / its root, or some have returned *)
  | BadRoot (round : nat)           (* root >= P *)
  | BadScatter (round : nat)        (* the root's list does not have P elements *)
  | BadOracle (round : nat)         (* the reduction tree names a rank >= P *)
  | OutOfFuel.

  Fixpoint all_ret (ps : list prog) : option (list R) :=
    match ps with
    | [] => Some []
    | Ret r :: ps' => option_map (cons r) (all_ret ps')
    | _ => None
    end.
  Fixpoint all_bcast (root : nat) (ps : list prog) : option (list (V * (V -> prog))) :=
    match ps with
    | [] => Some []
    | Bcast r v k :: ps' => if Nat.eqb r root then option_map (cons (v, k)) (all_bcast root ps') else None
    | _ => None
    end.
  Fixpoint all_reduce (root tag : nat) (ps : list prog) : option (list (V * (option V -> prog))) :=
    match ps with
    | [] => Some []
    | Reduce r t v k :: ps' =>
        if Nat.eqb r root && Nat.eqb t tag then option_map (cons (v, k)) (all_reduce root tag ps') else None
    | _ => None
    end.
  Fixpoint all_scatter (root : nat) (ps : list prog) : option (list (list V * (V -> prog))) :=
    match ps with
    | [] => Some []
    | Scatter r v k :: ps' => if Nat.eqb r root then option_map (cons (v, k)) (all_scatter root ps') else None
    | _ => None
    end.

  Variable op : V -> V -> V.        (* the reduction operator *)

  Fixpoint reval (vals : list V) (t : rtree) : option V :=
    match t with
    | RLeaf r => nth_error vals r
    | RNode a b => match reval vals a, reval vals b with
                   | Some x, Some y => Some (op x y)
                   | _, _ => None
                   end
    end.

  Variable rtree_of : nat -> rtree. (* oracle: the combination tree of the reduction call number `tag` *)

  Fixpoint run (fuel round : nat) (ps : list prog) : outcome :=
    match fuel with
    | O => OutOfFuel
    | S fuel' =>
        match ps with
        | [] => Done []
        | Ret _ :: _ =>
            match all_ret ps with Some rs => Done rs | None => Deadlock round end
        | Bcast root _ _ :: _ =>
            match all_bcast root ps with
            | None => Deadlock round
            | Some vks =>
                match nth_error vks root with
                | None => BadRoot round
                | Some (v, _) => run fuel' (S round) (map (fun vk => snd vk v) vks)
                end
            end
        | Reduce root tag _ _ :: _ =>
            match all_reduce root tag ps with
            | None => Deadlock round
            | Some vks =>
                if Nat.ltb root (length vks) then
                  match reval (map fst vks) (rtree_of tag) with
                  | None => BadOracle round
                  | Some v =>
                      run fuel' (S round)
                          (map (fun rvk => snd (snd rvk) (if Nat.eqb (fst rvk) root then Some v else None))
                               (combine (seq 0 (length vks)) vks))
                  end
                else BadRoot round
            end
        | Scatter root _ _ :: _ =>
            match all_scatter root ps with
            | None => Deadlock round
            | Some vks =>
                match nth_error vks root with
                | None => BadRoot round
                | Some (chunks, _) =>
                    if Nat.eqb (length chunks) (length vks)
                    then run fuel' (S round) (map (fun cvk => snd (snd cvk) (fst cvk)) (combine chunks vks))
                    else BadScatter round
                end
            end
        end
    end.
End Mpi.

Arguments Ret {V R}. Arguments Bcast {V R}. Arguments Reduce {V R}. Arguments Scatter {V R}.
Arguments Done {R}. Arguments Deadlock {R}. Arguments BadRoot {R}. Arguments BadScatter {R}.
Arguments BadOracle {R}. Arguments OutOfFuel {R}.

(* the combination order of boost::mpi::reduce for a serialized type with a commutative operator
   (boost/mpi/collectives/reduce.hpp tree_reduce_impl + detail::computation_tree, branching factor 3), root 0 *)
Fixpoint boost_tree (fuel P n : nat) : rtree :=
  match fuel with
  | O => RLeaf n
  | S f => fold_left (fun t c => if Nat.ltb c P then RNode t (boost_tree f P c) else t)
                     [3 * n + 1; 3 * n + 2; 3 * n + 3] (RLeaf n)
  end.
Definition boost_reduce_tree (P : nat) : rtree := boost_tree P P 0.

(* a reduction tree for P ranks: every rank contributes exactly once *)
Fixpoint insert_nat (x : nat) (l : list nat) : list nat :=
  match l with [] => [x] | y :: r => if Nat.leb x y then x :: l else y :: insert_nat x r end.
Definition sort_nat (l : list nat) : list nat := fold_right insert_nat [] l.
Definition rtree_okb (P : nat) (t : rtree) : bool :=
  if list_eq_dec Nat.eq_dec (sort_nat (rleaves t)) (seq 0 P) then true else false.

(* ------------------------------------------------------------------------------------------------ *)
(* 2. the ceil-stride partition                                                                       *)
(* ------------------------------------------------------------------------------------------------ *)

Definition stride (total P : nat) : nat := (total + P - 1) / P.            (* ceil(total / P), P >= 1 *)
Definition slice_lo (total P r : nat) : nat := r * stride total P.         (* istart *)
Definition slice_len (total P r : nat) : nat :=                            (* #{ i | istart <= i < iend && i < total } *)
  Nat.min (slice_lo total P r + stride total P) total - slice_lo total P r.
Definition slice {A} (P r : nat) (l : list A) : list A :=
  firstn (slice_len (length l) P r) (skipn (slice_lo (length l) P r) l).

(* ------------------------------------------------------------------------------------------------ *)
(* 3. the SPMD main loop                                                                              *)
(* ------------------------------------------------------------------------------------------------ *)

Section SvaSpmd.
  Variable W : Type.
  Variable w0 : W.
  Variable wadd : W -> W -> W.
  Variable wltb : W -> W -> bool.

  (* serialised values: SpVecGF2 (broadcast), SerializableMinOddCycle (reduce: edges as forest indices, weight,
     exists), a chunk of SerializableCandidateCycle (scatter: (root vertex, edge index) pairs), the dummy
     a non-root passes to broadcast, and a model error *)
  Inductive payload :=
  | PVec (S : vec)
  | PCyc (c : option (list nat * W))
  | PCand (cs : list (nat * nat))
  | PUnit
  | PErr.

  (* SerializableMinOddCycleMinOp: if one side does not exist the other is returned (the right one if neither
     exists); otherwise lhs iff lhs.weight < rhs.weight — ties go to the RIGHT operand *)
  Definition mpi_min (l r : payload) : payload :=
    match l, r with
    | PCyc (Some (cl, wl)), PCyc (Some (cr, wr)) => if wltb wl wr then l else r
    | PCyc (Some _), PCyc None => l
    | PCyc _, PCyc _ => r
    | _, _ => PErr
    end.

  (* result of a local search: None = error inside the search model (fuel / broken invariant),
     Some None = not found, Some (Some (cycle as sorted edge ids, weight)) *)
  Definition lres := option (option (list nat * W)).

  Variable fi : forest_index.

  (* convert_edges(best_local_cycle) + SerializableMinOddCycle(...) *)
  Definition encode (x : lres) : payload :=
    match x with
    | None => PErr
    | Some None => PCyc None
    | Some (Some (c, w)) => PCyc (Some (edges_to_indices fi c, w))
    end.
  (* convert_edges(global_min_odd_cycle.edges) back to a std::set<Edge> / list of edges *)
  Definition decode (p : payload) : lres :=
    match p with
    | PCyc None => Some None
    | PCyc (Some (ix, w)) => Some (Some (indices_to_edges fi ix, w))
    | _ => None
    end.

  (* what a rank does between the broadcast of S_k and the bookkeeping: either no collective at all (the
     |S| = 1 shortcut of the signed variant, where only rank 0 searches) or one reduce of its local minimum *)
  Inductive action :=
  | ANoColl (res : lres)
  | ARed (local : lres).

  Record rstate := {
    st_sup : list vec;                  (* support vectors (authoritative on rank 0) *)
    st_acc : list (list nat);           (* emitted cycles, latest first *)
    st_total : W;                       (* mcb_weight *)
    st_fail : option (bool * nat)       (* first phase without a cycle: (model error?, k) *)
  }.

  Definition first_fail (old : option (bool * nat)) (b : bool) (k : nat) : option (bool * nat) :=
    match old with Some _ => old | None => Some (b, k) end.

  (* `if (world.rank() == 0) { update supports; *out++ = cycle; mcb_weight += w }`.  When no cycle exists the C++
     emits an empty list and adds numeric_limits::max; the model records the phase as failed instead. *)
  Definition bookkeep (r k : nat) (best : lres) (st : rstate) : rstate :=
    if Nat.eqb r 0 then
      match best with
      | Some (Some (c, w)) =>
          {| st_sup := update_supports (st_sup st) k (edges_to_indices fi c);
             st_acc := c :: st_acc st; st_total := wadd (st_total st) w; st_fail := st_fail st |}
      | Some None =>
          {| st_sup := st_sup st; st_acc := [] :: st_acc st; st_total := st_total st;
             st_fail := first_fail (st_fail st) false k |}
      | None =>
          {| st_sup := st_sup st; st_acc := [] :: st_acc st; st_total := st_total st;
             st_fail := first_fail (st_fail st) true k |}
      end
    else st.

  Inductive rank_result :=
  | RankOut (emitted : list (list nat)) (ret : W) (sup : list vec) (fail : option (bool * nat))
  | RankProtocol (k : nat).             (* received something that is not a support vector *)

  Definition finish (st : rstate) : rank_result :=
    RankOut (rev (st_acc st)) (st_total st) (st_sup st) (st_fail st).

  (* rank 0's answer in the vocabulary of SvaModel *)
  Definition to_sva (x : rank_result) : sva_result W :=
    match x with
    | RankOut cycles w sup None => SvaOk cycles w sup
    | RankOut _ _ _ (Some (false, k)) => SvaNoCycle k
    | RankOut _ _ _ (Some (true, k)) => SvaError k
    | RankProtocol k => SvaError k
    end.

  (* for (k = 0; k < csd; k++) { broadcast support[k]; search; [reduce]; rank 0: bookkeeping }
     `actr` = what THIS rank does with the broadcast witness of phase k *)
  Fixpoint phases (r : nat) (actr : nat -> vec -> action) (ks : list nat) (st : rstate)
    : prog payload rank_result :=
    match ks with
    | [] => Ret (finish st)
    | k :: ks' =>
        Bcast 0 (if Nat.eqb r 0 then PVec (nth k (st_sup st) []) else PUnit)
          (fun v =>
             match v with
             | PVec Sv =>
                 match actr k Sv with
                 | ANoColl res => phases r actr ks' (bookkeep r k res st)
                 | ARed local =>
                     Reduce 0 k (encode local)
                       (fun g => phases r actr ks'
                                   (bookkeep r k (match g with Some x => decode x | None => Some None end) st))
                 end
             | _ => Ret (RankProtocol k)
             end)
    end.

  Definition init_state : rstate :=
    {| st_sup := map (fun i => [i]) (seq 0 (fi_csd fi)); st_acc := []; st_total := w0; st_fail := None |}.

  (* act : rank, phase, broadcast witness *)
  Definition spmd_plain (act : nat -> nat -> vec -> action) (r : nat) : prog payload rank_result :=
    phases r (act r) (seq 0 (fi_csd fi)) init_state.

  (* _mcb_sva_trees_mpi: rank 0 computes all candidate (root, edge index) pairs, cuts them into P ceil-stride
     chunks and scatters them; a rank's lookup works on its chunk only *)
  Section Trees.
    Variable P : nat.
    Variable cands : list (nat * nat).                              (* all_candidate_cycles on rank 0 *)
    Variable lookup : list (nat * nat) -> nat -> vec -> lres.       (* ShortestOddCycleLookup built from a chunk *)

    Definition chunks : list payload := map (fun p => PCand (slice P p cands)) (seq 0 P).

    Definition spmd_trees (r : nat) : prog payload rank_result :=
      Scatter 0 (if Nat.eqb r 0 then chunks else [])
        (fun mine =>
           match mine with
           | PCand cs => phases r (fun k Sv => ARed (lookup cs k Sv)) (seq 0 (fi_csd fi)) init_state
           | _ => Ret (RankProtocol 0)
           end).
  End Trees.

  (* enough fuel for every round of either program *)
  Definition spmd_fuel : nat := 2 * fi_csd fi + 3.

  Definition run_spmd (P : nat) (rtree_of : nat -> rtree) (progs : nat -> prog payload rank_result)
    : outcome rank_result :=
    run payload rank_result mpi_min rtree_of spmd_fuel 0 (map progs (seq 0 P)).
End SvaSpmd.

Arguments PVec {W}. Arguments PCyc {W}. Arguments PCand {W}. Arguments PUnit {W}. Arguments PErr {W}.
Arguments ANoColl {W}. Arguments ARed {W}.
Arguments RankOut {W}. Arguments RankProtocol {W}.
