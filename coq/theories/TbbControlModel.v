(* TbbControlModel.v — executable model for property C20 (the concurrency knob).  Definitions only, no proofs.

   Three layers, each mirroring one piece of code:

   (1) oneTBB's rule for  global_control(max_allowed_parallelism, v)   [ASSUMED semantics of the runtime, part of the
       trusted base, exercised against the real libtbb by harness/c20.cpp with raw create/destroy sequences]:
       the runtime keeps the multiset of live controls; active_value = the default (a parameter; on this host the
       hardware concurrency, read from the run, never hard-coded) if none is live, else the minimum of the live
       values — NOT clamped by the hardware (observed on oneTBB 2021.8: exact for every value as long as the
       scheduler has not started, and for values <= 256 afterwards; once worker threads exist the runtime caps the
       REPORTED value at its hard worker limit + 1 = 257 on this host.  Harness and demo hook read the value before
       any parallel work).  The constructor dies on value 0
       (__TBB_ASSERT_RELEASE(my_value>0, "max_allowed_parallelism cannot be 0.")): explicit result `Abort`.

   (2) parmcb::set_global_tbb_concurrency (include/parmcb/util.hpp), in two versions:
         set_concurrency_orig : the source as found (defect D4) —
               oneapi::tbb::global_control global_limit(max_allowed_parallelism, hint);   // local object
             }                                                                             // destroyed here
         set_concurrency      : the source after  fix: c20-fix-knob —
               static std::unique_ptr<oneapi::tbb::global_control> global_limit;          // `holder`
               global_limit.reset();                                                      // release FIRST
               global_limit.reset(new oneapi::tbb::global_control(max_allowed_parallelism, hint));

   (3) the option block of the demos (src/mcb-dimacs.cpp, src/approx-mcb-dimacs.cpp: identical blocks;
       src/mcb-dimacs-mpi.cpp: has no such block and no --cores/--parallel option at all), as a decision function
       from the parsed options to "knob applied with value v / not applied", again as found (defect D5: only under
       --verbose) and as fixed (c20-fix-demos).

   All values are Z (size_t values are 0 <= v < 2^64; the demos' int -> size_t conversion is size_t_of_int). *)
From Coq Require Import ZArith List Bool.
Import ListNotations.
Open Scope Z_scope.

(* ------------------------------------------------------------------------------------------------------------ *)
(* results: the process may die in the runtime, or the history may be ill-formed                                *)
(* ------------------------------------------------------------------------------------------------------------ *)
Inductive res (A : Type) : Type :=
| Ok (a : A)
| Abort        (* oneTBB release assertion: max_allowed_parallelism cannot be 0 — the process is killed *)
| NotLive      (* destruction of a control that is not in the runtime's storage (impossible from C++ objects) *)
| BadSlot.     (* ill-formed harness history: create into an occupied slot / destroy of an empty slot *)
Arguments Ok {A} a.
Arguments Abort {A}.
Arguments NotLive {A}.
Arguments BadSlot {A}.

Definition bind {A B : Type} (r : res A) (f : A -> res B) : res B :=
  match r with
  | Ok a => f a
  | Abort => Abort
  | NotLive => NotLive
  | BadSlot => BadSlot
  end.

(* ------------------------------------------------------------------------------------------------------------ *)
(* (1) the runtime                                                                                              *)
(* ------------------------------------------------------------------------------------------------------------ *)
Definition live := list Z.          (* multiset of the values of the live max_allowed_parallelism controls *)

Definition active (dflt : Z) (s : live) : Z :=
  match s with
  | [] => dflt
  | x :: xs => fold_left Z.min xs x
  end.

Definition tbb_create (v : Z) (s : live) : res live :=
  if v <=? 0 then Abort else Ok (v :: s).

Fixpoint remove1 (v : Z) (s : live) : option live :=
  match s with
  | [] => None
  | x :: xs => if x =? v then Some xs
               else match remove1 v xs with Some r => Some (x :: r) | None => None end
  end.

Definition tbb_destroy (v : Z) (s : live) : res live :=
  match remove1 v s with
  | Some s' => Ok s'
  | None => NotLive
  end.

(* ------------------------------------------------------------------------------------------------------------ *)
(* (2) the program: runtime + the function-local static of the fixed knob + controls owned by the rest of the  *)
(*     program (numbered slots; used by the harness to create/destroy raw controls around the calls)            *)
(* ------------------------------------------------------------------------------------------------------------ *)
Record prog : Type := { rt : live; holder : option Z; slots : list (nat * Z) }.

Definition prog0 : prog := {| rt := []; holder := None; slots := [] |}.

(* as found (D4): the control is a local variable; scope exit destroys it *)
Definition set_concurrency_orig (n : Z) (p : prog) : res prog :=
  bind (tbb_create n (rt p)) (fun s1 =>          (* global_control global_limit(max_allowed_parallelism, n); *)
  bind (tbb_destroy n s1) (fun s2 =>             (* }  ~global_control() *)
  Ok {| rt := s2; holder := holder p; slots := slots p |})).

(* as fixed: static unique_ptr, released first, then re-created *)
Definition set_concurrency (n : Z) (p : prog) : res prog :=
  bind (match holder p with                      (* global_limit.reset(); *)
        | Some v => tbb_destroy v (rt p)
        | None => Ok (rt p)
        end) (fun s1 =>
  bind (tbb_create n s1) (fun s2 =>              (* global_limit.reset(new global_control(max_allowed_parallelism, n)); *)
  Ok {| rt := s2; holder := Some n; slots := slots p |})).

(* a sequence of calls *)
Fixpoint calls (setf : Z -> prog -> res prog) (ns : list Z) (p : prog) : res prog :=
  match ns with
  | [] => Ok p
  | n :: r => bind (setf n p) (calls setf r)
  end.

(* harness histories: calls of the knob interleaved with raw controls held by somebody else *)
Inductive op : Type :=
| OSet (n : Z)                 (* parmcb::set_global_tbb_concurrency(n) *)
| OCreate (slot : nat) (v : Z) (* slot = new global_control(max_allowed_parallelism, v) *)
| ODestroy (slot : nat).       (* delete slot *)

Fixpoint lookup (k : nat) (l : list (nat * Z)) : option Z :=
  match l with
  | [] => None
  | (k', v) :: r => if Nat.eqb k' k then Some v else lookup k r
  end.

Fixpoint remove_slot (k : nat) (l : list (nat * Z)) : list (nat * Z) :=
  match l with
  | [] => []
  | (k', v) :: r => if Nat.eqb k' k then r else (k', v) :: remove_slot k r
  end.

Definition step (setf : Z -> prog -> res prog) (o : op) (p : prog) : res prog :=
  match o with
  | OSet n => setf n p
  | OCreate k v =>
      match lookup k (slots p) with
      | Some _ => BadSlot
      | None => bind (tbb_create v (rt p)) (fun s =>
                Ok {| rt := s; holder := holder p; slots := (k, v) :: slots p |})
      end
  | ODestroy k =>
      match lookup k (slots p) with
      | None => BadSlot
      | Some v => bind (tbb_destroy v (rt p)) (fun s =>
                  Ok {| rt := s; holder := holder p; slots := remove_slot k (slots p) |})
      end
  end.

Inductive stop : Type := Done | StopAbort | StopNotLive | StopBadSlot.

(* what the harness prints: the active value after every operation, until the history ends or the process stops *)
Fixpoint run_trace (setf : Z -> prog -> res prog) (dflt : Z) (ops : list op) (p : prog) : list Z * stop :=
  match ops with
  | [] => ([], Done)
  | o :: r =>
      match step setf o p with
      | Ok p' => let (t, s) := run_trace setf dflt r p' in (active dflt (rt p') :: t, s)
      | Abort => ([], StopAbort)
      | NotLive => ([], StopNotLive)
      | BadSlot => ([], StopBadSlot)
      end
  end.

(* ------------------------------------------------------------------------------------------------------------ *)
(* (3) the demos' option block                                                                                  *)
(* ------------------------------------------------------------------------------------------------------------ *)
Record demo_opts : Type := {
  o_verbose : bool;        (* --verbose / -v *)
  o_signed : bool;         (* --signed, default true *)
  o_fvstrees : bool;       (* --fvstrees *)
  o_isotrees : bool;       (* --isotrees (declared, never read) *)
  o_parallel : bool;       (* --parallel / -p, default true *)
  o_printcycles : bool;    (* --printcycles *)
  o_cores_count : bool;    (* vm.count("cores") != 0; always true with boost::program_options since the option has a default_value *)
  o_cores : Z              (* vm["cores"].as<int>(), default 0 *)
}.

Inductive knob : Type := NotApplied | Applied (v : Z).

(* std::size_t cores = vm["cores"].as<int>();  — modular conversion *)
Definition size_t_of_int (c : Z) : Z := c mod 2 ^ 64.

(* cores == 0 means "boost::thread::hardware_concurrency()" (bhw; may differ from TBB's own default) *)
Definition effective_cores (bhw : Z) (o : demo_opts) : Z :=
  let cores := size_t_of_int (o_cores o) in
  if cores =? 0 then bhw else cores.

(* as found (D5):
     if (vm.count("cores")) { size_t cores = ...; if (cores == 0) cores = hw;
        if (vm["verbose"] && vm["parallel"]) { cout << "Using cores: " << cores; set_global_tbb_concurrency(cores); } } *)
Definition demo_knob_orig (bhw : Z) (o : demo_opts) : knob :=
  if o_cores_count o then
    let cores := effective_cores bhw o in
    if o_verbose o && o_parallel o then Applied cores else NotApplied
  else NotApplied.

(* the "Using cores: N" line on stdout (None = not printed) *)
Definition demo_says_orig (bhw : Z) (o : demo_opts) : option Z :=
  if o_cores_count o then
    let cores := effective_cores bhw o in
    if o_verbose o && o_parallel o then Some cores else None
  else None.

(* as fixed:
        if (vm["parallel"]) { if (vm["verbose"]) cout << "Using cores: " << cores; set_global_tbb_concurrency(cores); } *)
Definition demo_knob (bhw : Z) (o : demo_opts) : knob :=
  if o_cores_count o then
    let cores := effective_cores bhw o in
    if o_parallel o then Applied cores else NotApplied
  else NotApplied.

Definition demo_says (bhw : Z) (o : demo_opts) : option Z :=
  if o_cores_count o then
    let cores := effective_cores bhw o in
    if o_parallel o then (if o_verbose o then Some cores else None) else None
  else None.

(* the algorithm selection that follows the block (same shape in mcb-dimacs.cpp and approx-mcb-dimacs.cpp) *)
Inductive algo : Type := SignedTbb | SignedSeq | FvsTbb | FvsSeq | IsoTbb | IsoSeq.

Definition demo_algo (o : demo_opts) : algo :=
  if o_signed o then (if o_parallel o then SignedTbb else SignedSeq)
  else if o_fvstrees o then (if o_parallel o then FvsTbb else FvsSeq)
  else (if o_parallel o then IsoTbb else IsoSeq).

Definition algo_parallel (a : algo) : bool :=
  match a with
  | SignedTbb | FvsTbb | IsoTbb => true
  | SignedSeq | FvsSeq | IsoSeq => false
  end.

(* what the PARMCB_VERIF hook prints just before the algorithm call: the active value after the option block ran
   in a fresh process *)
Definition demo_run (setf : Z -> prog -> res prog) (knobf : Z -> demo_opts -> knob)
           (dflt bhw : Z) (o : demo_opts) : res Z :=
  match knobf bhw o with
  | NotApplied => Ok (active dflt (rt prog0))
  | Applied v => bind (setf v prog0) (fun p => Ok (active dflt (rt p)))
  end.

(* src/mcb-dimacs-mpi.cpp: no --cores, no --parallel, no call of the knob (an unknown "--cores=3" is accepted and
   ignored because of allow_unregistered(); "--cores 3" is rejected only because 3 becomes a second positional);
   every algorithm it selects is a parallel one *)
Definition demo_mpi_knob (bhw : Z) (o : demo_opts) : knob := NotApplied.
