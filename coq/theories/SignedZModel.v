(* SignedZModel.v — the exact-domain (Z weights) instances of SignedModel.v, as run by the correspondence check. *)
From Coq Require Import ZArith.
From Parmcb Require Export SignedModel.

Definition mcb_sva_signed_Z (g : graph) (wts : list Z) (roots : list nat) (eord : list nat) : sva_result Z :=
  mcb_sva_signed Z 0%Z Z.add Z.ltb (fun e => nth e eord 0) g wts roots.

(* one direct call of bidirectional_signed_dijkstra *)
Definition bidir_Z (g : graph) (wts : list Z) (signed hidden : list nat) (use_hidden : bool)
           (limit : option Z) (s : nat) (spos : bool) (t : nat) (tpos : bool) : search_result Z :=
  bidirectional_signed_dijkstra Z 0%Z Z.add Z.ltb
    {| sp_g := g; sp_wts := wts; sp_signed := signed; sp_hidden := hidden; sp_use_hidden := use_hidden; sp_limit := limit |}
    s spos t tpos.
