(* MpiProofs3.v — the MPI signed variant (MpiSignedModel.v): no deadlock for every P and every per-rank order
   (C04b), and — when the ranks' orders of the signed edges agree, in particular always for the fixed code —
   rank 0's answer is a minimum cycle basis, MODULO the per-index search premise below (C04c).

   The search premise (`signed_premise`) is what Appendix B5/B6 of DESIGN.md say about ONE call of the
   bidirectional search inside the loops: for the index i (a position in the common signed-edge vector, or a
   vertex) there is an optimum `opt i` (none, or the least weight of an odd closed walk that index is responsible
   for) such that one loop iteration with running minimum `best` either keeps `best` — and then opt i is not
   smaller — or replaces it by a candidate of weight exactly opt i, strictly smaller than `best`; a candidate is
   an element of the cycle space, odd w.r.t. the witness, reported with its weight, and either a simple cycle or
   strictly heavier than some odd simple cycle; and every odd simple cycle is covered by some index whose optimum
   is not heavier.  Nothing in the premise mentions ranks, slices or reductions: the partition argument
   (MpiProofs1), the fold over a slice and the tree reduction are proved here.  The sequential phase (C02) is the
   case P = 1 of the same statement. *)
From Coq Require Import List Arith Bool ZArith Lia Permutation.
From Parmcb Require Import GraphSpec GraphLemmas GF2Proofs McbSpec SvaSpec SvaProofs SignedModel
  MpiModel MpiSignedModel MpiProofs1 MpiProofs2.
Import ListNotations.

(* ---- helpers -------------------------------------------------------------------------------------- *)

Lemma insert_eord_ext k1 k2 e l : (forall x, k1 x = k2 x) -> insert_eord k1 e l = insert_eord k2 e l.
Proof.
  intros H. induction l as [|x l IH]; [reflexivity|]. cbn [insert_eord]. rewrite !H, IH. reflexivity.
Qed.

Lemma sort_eord_ext k1 k2 l : (forall x, k1 x = k2 x) -> sort_eord k1 l = sort_eord k2 l.
Proof.
  intros H. induction l as [|x l IH]; [reflexivity|]. unfold sort_eord in *. cbn [fold_right].
  rewrite IH. apply insert_eord_ext, H.
Qed.

Lemma skipn_cons_nth {A} : forall (l : list A) i, i < length l -> exists x, skipn i l = x :: skipn (S i) l.
Proof.
  induction l as [|y l IH]; intros i Hi; [cbn in Hi; lia|].
  destruct i as [|i]; [exists y; reflexivity|]. cbn [length] in Hi.
  destruct (IH i ltac:(lia)) as (x & E). exists x. exact E.
Qed.

(* serialisation round trip: edges -> forest indices -> edges *)
Section RoundTrip.
  Variables (g : graph) (roots : list nat) (fi : forest_index).
  Hypothesis Hs : simple_graph g.
  Hypothesis Hr : forall v, v < nv g -> In v roots.
  Hypothesis Hci : create_index g roots = Some fi.

  Lemma i2e_e2i c : sorted c -> (forall e, In e c -> e < ne g) ->
    indices_to_edges fi (edges_to_indices fi c) = c.
  Proof.
    intros Sc Vc. destruct (ci_facts g roots fi Hs Hr Hci) as (Hf & _).
    apply sorted_ext; [apply set_of_list_sorted|exact Sc|].
    intros e. apply eq_true_iff_eq. unfold indices_to_edges. rewrite set_of_list_mem. unfold GF2Model.dset.
    rewrite existsb_exists, mem_In. split.
    - intros (x & Hx & E). apply Nat.eqb_eq in E. subst x.
      apply in_map_iff in Hx as (i & Ei & Hi). apply mem_In in Hi.
      apply e2i_mem_In in Hi as (e' & He' & Ee'). subst i.
      destruct (Hf e' (Vc e' He')) as (_ & _ & Hrt). unfold redge in Hrt. rewrite Hrt in Ei. subst e'. exact He'.
    - intros He. exists e. split; [|apply Nat.eqb_refl].
      apply in_map_iff. exists (idx fi e). destruct (Hf e (Vc e He)) as (_ & _ & Hrt). split; [exact Hrt|].
      apply mem_In. apply e2i_mem_In. exists e. split; [exact He|reflexivity].
  Qed.
End RoundTrip.

(* ---- one phase: candidates, running minima, reduction over the slices ---------------------------- *)
Section Phase.
  Variables (g : graph) (wts : list Z) (roots : list nat) (fi : forest_index).
  Hypothesis Hs : simple_graph g.
  Hypothesis Hr : forall v, v < nv g -> In v roots.
  Hypothesis Hci : create_index g roots = Some fi.
  Variable Sv : vec.

  Definition oddS (c : list nat) : Prop := pairing fi Sv c = true.

  (* what a single search may hand back *)
  Definition cand_ok (cw : list nat * Z) : Prop :=
    snd cw = weight wts (fst cw) /\ in_cycle_space g (fst cw) /\ oddS (fst cw)
    /\ (simple_cycle g (fst cw) \/ exists D, simple_cycle g D /\ oddS D /\ (weight wts D < snd cw)%Z).

  Definition best_wf (b : option (list nat * Z)) : Prop := match b with None => True | Some cw => cand_ok cw end.

  (* one loop iteration for an index with optimum o *)
  Definition step_ok (o : option Z) (best : option (list nat * Z)) (res : lres Z) : Prop :=
    exists best', res = Some best' /\
      ((best' = best /\ match o with
                        | None => True
                        | Some ow => match best with Some bw => (snd bw <= ow)%Z | None => False end
                        end)
       \/ (exists cw, best' = Some cw /\ o = Some (snd cw) /\ cand_ok cw
                      /\ match best with None => True | Some bw => (snd cw < snd bw)%Z end)).

  Section Opt.
    Variable opt : nat -> option Z.

    (* b is a minimum over the indices in `inr` *)
    Definition acc_ok (inr : nat -> Prop) (b : option (list nat * Z)) : Prop :=
      match b with
      | None => forall i, inr i -> opt i = None
      | Some cw => cand_ok cw /\ (exists i, inr i /\ opt i = Some (snd cw))
                   /\ forall i o, inr i -> opt i = Some o -> (snd cw <= o)%Z
      end.

    Lemma acc_ok_wf inr b : acc_ok inr b -> best_wf b.
    Proof. destruct b as [cw|]; [intros (H & _); exact H|intros _; exact I]. Qed.

    Lemma acc_ok_ext (p q : nat -> Prop) b : (forall i, p i <-> q i) -> acc_ok p b -> acc_ok q b.
    Proof.
      intros E. destruct b as [cw|]; cbn [acc_ok].
      - intros (H1 & (i & Hi & Ei) & H3). split; [exact H1|]. split.
        + exists i. split; [apply E; exact Hi|exact Ei].
        + intros j o Hj. apply H3, E, Hj.
      - intros H i Hi. apply H, E, Hi.
    Qed.

    Lemma step_acc inr i b res : acc_ok inr b -> step_ok (opt i) b res ->
      exists b', res = Some b' /\ acc_ok (fun j => inr j \/ j = i) b'.
    Proof.
      intros Hacc (b' & -> & [[-> Hkeep]|(cw & -> & Eo & Hc & Hlt)]); eexists; (split; [reflexivity|]).
      - destruct b as [bw|]; cbn [acc_ok] in *.
        + destruct Hacc as (H1 & (i0 & Hi0 & Ei0) & H3). split; [exact H1|]. split.
          * exists i0. split; [left; exact Hi0|exact Ei0].
          * intros j o [Hj| ->] Ej; [apply (H3 j o Hj Ej)|]. rewrite Ej in Hkeep. exact Hkeep.
        + intros j [Hj| ->]; [apply Hacc, Hj|]. destruct (opt i); [contradiction|reflexivity].
      - cbn [acc_ok]. split; [exact Hc|]. split.
        + exists i. split; [right; reflexivity|exact Eo].
        + intros j o [Hj| ->] Ej.
          * destruct b as [bw|]; cbn [acc_ok] in Hacc.
            -- destruct Hacc as (_ & _ & H3). specialize (H3 j o Hj Ej). lia.
            -- rewrite (Hacc j Hj) in Ej. discriminate.
          * rewrite Eo in Ej. injection Ej as <-. lia.
    Qed.

    (* every odd simple cycle is some index's business *)
    Definition complete (total : nat) : Prop :=
      forall D, simple_cycle g D -> oddS D -> exists i o, i < total /\ opt i = Some o /\ (o <= weight wts D)%Z.

    (* a minimum over all indices is a minimum odd cycle *)
    Lemma acc_ok_min total c w : complete total -> acc_ok (fun i => i < total) (Some (c, w)) ->
      min_odd_cycle g wts oddS c /\ w = weight wts c.
    Proof.
      intros Hc ((Hw & Hcs & Hodd & Hsimp) & _ & Hmin). cbn [fst snd] in *.
      assert (Hle : forall D, simple_cycle g D -> oddS D -> (w <= weight wts D)%Z).
      { intros D HD HoD. destruct (Hc D HD HoD) as (i & o & Hi & Eo & Ho). specialize (Hmin i o Hi Eo). lia. }
      split; [|exact Hw]. split; [|split; [exact Hodd|]].
      - destruct Hsimp as [H|(D & HD & HoD & Hlt)]; [exact H|]. specialize (Hle D HD HoD). lia.
      - intros D HD HoD. rewrite <- Hw. apply Hle; assumption.
    Qed.

    (* ---- the fold over a slice of the signed-edge vector ---------------------------------------- *)
    Notation hidden_step := (hidden_step Z 0%Z Z.add Z.ltb g wts).
    Notation hidden_slice := (hidden_slice Z 0%Z Z.add Z.ltb g wts).

    Lemma hidden_slice_fold signed sv lo :
      (forall i b, i < length sv -> best_wf b -> step_ok (opt i) b (hidden_step signed (skipn i sv) b)) ->
      forall cnt i b, lo <= i -> acc_ok (fun j => lo <= j < i) b ->
        exists b', hidden_slice signed (skipn i sv) cnt b = Some b'
                   /\ acc_ok (fun j => lo <= j < Nat.min (i + cnt) (Nat.max i (length sv))) b'.
    Proof.
      intros Hstep. induction cnt as [|cnt IH]; intros i b Hlo Hacc.
      - exists b. split; [reflexivity|]. eapply acc_ok_ext; [|exact Hacc]. intros j; cbn beta; lia.
      - cbn [MpiSignedModel.hidden_slice].
        destruct (Nat.lt_ge_cases i (length sv)) as [Hi|Hi].
        + destruct (skipn_cons_nth sv i Hi) as (x & Ex). rewrite Ex. rewrite <- Ex.
          destruct (step_acc _ i b _ Hacc (Hstep i b Hi (acc_ok_wf _ _ Hacc))) as (b1 & E1 & Hacc1).
          rewrite E1.
          destruct (IH (S i) b1 ltac:(lia)) as (b' & E' & Hacc').
          { eapply acc_ok_ext; [|exact Hacc1]. intros j; cbn beta; lia. }
          exists b'. split; [exact E'|]. eapply acc_ok_ext; [|exact Hacc']. intros j; cbn beta; lia.
        + rewrite skipn_all2 by exact Hi. exists b. split; [reflexivity|].
          eapply acc_ok_ext; [|exact Hacc]. intros j; cbn beta; lia.
    Qed.

    (* ---- the fold over a list of consecutive vertices ------------------------------------------- *)
    Notation all_vertices := (all_vertices Z 0%Z Z.add Z.ltb g wts).

    Lemma all_vertices_cons signed v vs b :
      all_vertices signed (v :: vs) b
      = match all_vertices signed [v] b with None => None | Some b1 => all_vertices signed vs b1 end.
    Proof.
      cbn [SignedModel.all_vertices].
      destruct (bidirectional_signed_dijkstra Z 0%Z Z.add Z.ltb _ v true v false); reflexivity.
    Qed.

    Lemma all_vertices_fold signed lo :
      forall cnt i b, lo <= i ->
        (forall j b, i <= j < i + cnt -> best_wf b -> step_ok (opt j) b (all_vertices signed [j] b)) ->
        acc_ok (fun j => lo <= j < i) b ->
        exists b', all_vertices signed (seq i cnt) b = Some b' /\ acc_ok (fun j => lo <= j < i + cnt) b'.
    Proof.
      induction cnt as [|cnt IH]; intros i b Hlo Hstep Hacc.
      - exists b. split; [reflexivity|]. eapply acc_ok_ext; [|exact Hacc]. intros j; cbn beta; lia.
      - cbn [seq]. rewrite all_vertices_cons.
        destruct (step_acc _ i b _ Hacc (Hstep i b ltac:(lia) (acc_ok_wf _ _ Hacc))) as (b1 & E1 & Hacc1).
        rewrite E1.
        destruct (IH (S i) b1 ltac:(lia)) as (b' & E' & Hacc').
        { intros j b2 Hj. apply Hstep. lia. }
        { eapply acc_ok_ext; [|exact Hacc1]. intros j; cbn beta; lia. }
        exists b'. split; [exact E'|]. eapply acc_ok_ext; [|exact Hacc']. intros j; cbn beta; lia.
    Qed.

    (* ---- min over a partition = global min: the reduce of the ranks' slice minima ---------------- *)
    Lemma reduce_slices_min P total (locals : nat -> lres Z) t c w :
      1 <= P -> rtree_ok P t -> complete total ->
      (forall r, r < P -> exists b, locals r = Some b /\ acc_ok (in_slice total P r) b) ->
      match reval (payload Z) (mpi_min Z Z.ltb) (map (fun r => encode Z fi (locals r)) (seq 0 P)) t with
      | Some x => decode Z fi x
      | None => None
      end = Some (Some (c, w)) ->
      min_odd_cycle g wts oddS c /\ w = weight wts c.
    Proof.
      intros HP Ht Hcomp Hloc Hres.
      set (vals := map (fun r => encode Z fi (locals r)) (seq 0 P)) in *.
      assert (Hlen : length vals = P) by (unfold vals; rewrite map_length, seq_length; reflexivity).
      assert (Hnth : forall r, r < P -> nth_error vals r = Some (encode Z fi (locals r)))
        by (intros r Hr'; exact (nth_error_map_seq (fun r => encode Z fi (locals r)) P r Hr')).
      assert (Hcyc : Forall is_cyc vals).
      { apply Forall_forall. intros x Hx. apply in_map_iff in Hx as (r & <- & Hr'). apply in_seq in Hr'.
        destruct (Hloc r ltac:(lia)) as (b & -> & _). destruct b as [[c0 w0]|]; eexists; reflexivity. }
      destruct (reval_min vals Hcyc t) as (x & Ex & _ & (r0 & Hr0 & Er0) & Hmin).
      { intros r Hr'. rewrite Hlen. eapply rtree_ok_lt; eassumption. }
      rewrite Ex in Hres.
      pose proof (rtree_ok_lt P t r0 Ht Hr0) as Hr0P. rewrite (Hnth r0 Hr0P) in Er0. injection Er0 as Er0.
      destruct (Hloc r0 Hr0P) as (b0 & Eb0 & Hacc0). rewrite Eb0 in Er0. subst x.
      destruct b0 as [[c0 w0]|]; cbn [encode decode] in Hres; [|discriminate].
      injection Hres as Ec Ew. subst w0.
      pose proof Hacc0 as ((Hw & Hcs & Hodd & Hsimp) & (i0 & Hi0 & Eo0) & _). cbn [fst snd] in *.
      destruct Hcs as (Sc & Vc & Hev).
      rewrite (i2e_e2i g roots fi Hs Hr Hci c0 Sc Vc) in Ec. subst c0.
      apply (acc_ok_min total). { exact Hcomp. }
      cbn [acc_ok]. split; [repeat split; assumption|]. split.
      - exists i0. split; [eapply slices_inside; exact Hi0|exact Eo0].
      - cbn [snd]. intros i o Hi Eo.
        destruct (slices_cover total P i HP Hi) as (r & HrP & Hin).
        destruct (Hloc r HrP) as (b & Eb & Hacc).
        destruct b as [[cr wr]|]; cbn [acc_ok] in Hacc.
        + destruct Hacc as (_ & _ & Hle). specialize (Hle i o Hin Eo). cbn [snd] in Hle.
          destruct (Hmin r (edges_to_indices fi cr) wr (rtree_ok_all P t r Ht HrP)) as (c' & w' & E' & Hle').
          { rewrite (Hnth r HrP), Eb. reflexivity. }
          injection E' as _ <-. lia.
        + rewrite (Hacc i Hin) in Eo. discriminate.
    Qed.

    (* … and it finds something whenever an odd simple cycle exists *)
    Lemma reduce_slices_found P total (locals : nat -> lres Z) t D :
      1 <= P -> rtree_ok P t -> complete total ->
      (forall r, r < P -> exists b, locals r = Some b /\ acc_ok (in_slice total P r) b) ->
      simple_cycle g D -> oddS D ->
      exists c w,
        match reval (payload Z) (mpi_min Z Z.ltb) (map (fun r => encode Z fi (locals r)) (seq 0 P)) t with
        | Some x => decode Z fi x
        | None => None
        end = Some (Some (c, w)).
    Proof.
      intros HP Ht Hcomp Hloc HD HoD.
      set (vals := map (fun r => encode Z fi (locals r)) (seq 0 P)).
      assert (Hlen : length vals = P) by (unfold vals; rewrite map_length, seq_length; reflexivity).
      assert (Hnth : forall r, r < P -> nth_error vals r = Some (encode Z fi (locals r)))
        by (intros r Hr'; exact (nth_error_map_seq (fun r => encode Z fi (locals r)) P r Hr')).
      assert (Hcyc : Forall is_cyc vals).
      { apply Forall_forall. intros x Hx. apply in_map_iff in Hx as (r & <- & Hr'). apply in_seq in Hr'.
        destruct (Hloc r ltac:(lia)) as (b & -> & _). destruct b as [[c0 w0]|]; eexists; reflexivity. }
      destruct (reval_min vals Hcyc t) as (x & Ex & _ & _ & Hmin).
      { intros r Hr'. rewrite Hlen. eapply rtree_ok_lt; [exact Ht|exact Hr']. }
      rewrite Ex.
      destruct (Hcomp D HD HoD) as (i & o & Hi & Eo & _).
      destruct (slices_cover total P i HP Hi) as (r & HrP & Hin).
      destruct (Hloc r HrP) as (b & Eb & Hacc).
      destruct b as [[cr wr]|]; cbn [acc_ok] in Hacc; [|rewrite (Hacc i Hin) in Eo; discriminate].
      destruct (Hmin r (edges_to_indices fi cr) wr (rtree_ok_all P _ r Ht HrP)) as (c' & w' & -> & _).
      { rewrite (Hnth r HrP), Eb. reflexivity. }
      cbn [decode]. eexists; eexists; reflexivity.
    Qed.
  End Opt.

  (* ---- the search premise for this witness -------------------------------------------------------- *)
  Definition index_premise (total : nat) (step : nat -> option (list nat * Z) -> lres Z) : Prop :=
    exists opt : nat -> option Z,
      (forall i b, i < total -> best_wf b -> step_ok (opt i) b (step i b)) /\ complete opt total.

  (* |S| = 1: the single search of rank 0 returns nothing iff there is no odd simple cycle, else a candidate not
     heavier than any odd simple cycle *)
  Definition single_premise (res : lres Z) : Prop :=
    exists b, res = Some b /\
      match b with
      | None => forall D, simple_cycle g D -> ~ oddS D
      | Some cw => cand_ok cw /\ forall D, simple_cycle g D -> oddS D -> (snd cw <= weight wts D)%Z
      end.

  Definition signed_phase_premise (key : nat -> nat) : Prop :=
    let signed := indices_to_edges fi Sv in
    if Nat.eqb (length signed) 1 then single_premise (single_search Z 0%Z Z.add Z.ltb g wts signed)
    else if Nat.ltb (length signed) (nv g) then
      let sv := sort_eord key signed in
      index_premise (length sv) (fun i b => hidden_step Z 0%Z Z.add Z.ltb g wts signed (skipn i sv) b)
    else index_premise (nv g) (fun v b => all_vertices Z 0%Z Z.add Z.ltb g wts signed [v] b).

  (* ---- the phase as computed by P ranks ------------------------------------------------------------ *)
  Variable P : nat.
  Variable ord : nat -> nat -> nat.
  Variable rtree_of : nat -> rtree.
  Hypothesis HP : 1 <= P.
  Hypothesis Hagree : forall r e, r < P -> ord r e = ord 0 e.
  Hypothesis Htree : forall k, rtree_ok P (rtree_of k).
  Hypothesis Hprem : signed_phase_premise (ord 0).

  Notation act := (signed_act Z 0%Z Z.add Z.ltb g wts P ord fi).
  Notation gsearch := (glob_search Z Z.ltb fi act P rtree_of).

  Lemma local_hidden_acc opt signed r :
    let sv := sort_eord (ord 0) signed in
    (forall i b, i < length sv -> best_wf b ->
       step_ok (opt i) b (hidden_step Z 0%Z Z.add Z.ltb g wts signed (skipn i sv) b)) ->
    r < P ->
    exists b, local_hidden Z 0%Z Z.add Z.ltb g wts P ord r signed = Some b
              /\ acc_ok opt (in_slice (length sv) P r) b.
  Proof.
    intros sv Hstep HrP. unfold local_hidden.
    rewrite (sort_eord_ext (ord r) (ord 0) signed (fun e => Hagree r e HrP)). fold sv.
    set (total := length sv). set (lo := slice_lo total P r).
    destruct (hidden_slice_fold opt signed sv lo Hstep (slice_len total P r) lo None (le_n _)) as (b & Eb & Hacc).
    { cbn [acc_ok]. intros i Hi. lia. }
    exists b. split; [exact Eb|]. eapply acc_ok_ext; [|exact Hacc].
    intros j. unfold in_slice. fold total lo. unfold slice_len. fold lo. lia.
  Qed.

  Lemma local_vertices_acc opt signed r :
    (forall v b, v < nv g -> best_wf b ->
       step_ok (opt v) b (all_vertices Z 0%Z Z.add Z.ltb g wts signed [v] b)) ->
    exists b, local_vertices Z 0%Z Z.add Z.ltb g wts P r signed = Some b
              /\ acc_ok opt (in_slice (nv g) P r) b.
  Proof.
    intros Hstep. unfold local_vertices. rewrite slice_seq.
    set (total := nv g). set (lo := slice_lo total P r). set (len := slice_len total P r).
    destruct (all_vertices_fold opt signed lo len lo None (le_n _)) as (b & Eb & Hacc).
    - intros j b Hj Hb. apply Hstep; [|exact Hb]. unfold len, slice_len in Hj. fold lo in Hj. fold total. lia.
    - cbn [acc_ok]. intros i Hi. lia.
    - exists b. split; [exact Eb|]. eapply acc_ok_ext; [|exact Hacc]. intros j. unfold in_slice. fold lo len. lia.
  Qed.

  (* C04c for one phase: whatever rank 0 holds after the reduction is a minimum odd cycle *)
  Lemma signed_glob_min k c w :
    gsearch k Sv = PFound c w -> min_odd_cycle g wts oddS c /\ w = weight wts c.
  Proof.
    unfold glob_search, glob, signed_act. intros H.
    unfold signed_phase_premise in Hprem. cbv zeta in Hprem.
    set (signed := indices_to_edges fi Sv) in *.
    destruct (Nat.eqb (length signed) 1).
    - (* rank 0 alone *)
      cbn [Nat.eqb] in H. destruct Hprem as (b & Eb & Hb). rewrite Eb in H.
      destruct b as [[c0 w0]|]; [|discriminate]. injection H as <- <-.
      destruct Hb as ((Hw & Hcs & Hodd & Hsimp) & Hle). cbn [fst snd] in *.
      split; [|exact Hw]. split; [|split; [exact Hodd|]].
      + destruct Hsimp as [Hx|(D & HD & HoD & Hlt)]; [exact Hx|]. specialize (Hle D HD HoD). lia.
      + intros D HD HoD. rewrite <- Hw. apply Hle; assumption.
    - destruct (Nat.ltb (length signed) (nv g)).
      + destruct Hprem as (opt & Hstep & Hcomp).
        match type of H with match ?x with _ => _ end = _ =>
          destruct x as [[[c0 w0]|]|] eqn:Ex; try discriminate end.
        injection H as <- <-.
        eapply (reduce_slices_min opt P (length (sort_eord (ord 0) signed))
                  (fun r => local_hidden Z 0%Z Z.add Z.ltb g wts P ord r signed) (rtree_of k));
          [exact HP|apply Htree|exact Hcomp| |].
        * intros r HrP. apply local_hidden_acc; assumption.
        * cbn [local_of] in Ex. exact Ex.
      + destruct Hprem as (opt & Hstep & Hcomp).
        match type of H with match ?x with _ => _ end = _ =>
          destruct x as [[[c0 w0]|]|] eqn:Ex; try discriminate end.
        injection H as <- <-.
        eapply (reduce_slices_min opt P (nv g)
                  (fun r => local_vertices Z 0%Z Z.add Z.ltb g wts P r signed) (rtree_of k));
          [exact HP|apply Htree|exact Hcomp| |].
        * intros r HrP. apply local_vertices_acc; assumption.
        * cbn [local_of] in Ex. exact Ex.
  Qed.

  (* … and something is found whenever an odd simple cycle exists *)
  Lemma signed_glob_total k D : simple_cycle g D -> oddS D -> exists c w, gsearch k Sv = PFound c w.
  Proof.
    intros HD HoD. unfold glob_search, glob, signed_act.
    unfold signed_phase_premise in Hprem. cbv zeta in Hprem.
    set (signed := indices_to_edges fi Sv) in *.
    assert (Hred : forall (total : nat) (opt : nat -> option Z) (locals : nat -> lres Z),
               complete opt total ->
               (forall r, r < P -> exists b, locals r = Some b /\ acc_ok opt (in_slice total P r) b) ->
               exists c w, match reval (payload Z) (mpi_min Z Z.ltb) (map (fun r => encode Z fi (locals r)) (seq 0 P)) (rtree_of k) with
                           | Some x => decode Z fi x | None => None end = Some (Some (c, w))).
    { intros total opt locals Hcomp Hloc.
      exact (reduce_slices_found opt P total locals (rtree_of k) D HP (Htree k) Hcomp Hloc HD HoD). }
    destruct (Nat.eqb (length signed) 1).
    - cbn [Nat.eqb]. destruct Hprem as (b & Eb & Hb). rewrite Eb.
      destruct b as [[c0 w0]|]; [eexists; eexists; reflexivity|]. exfalso. apply (Hb D HD HoD).
    - destruct (Nat.ltb (length signed) (nv g)); destruct Hprem as (opt & Hstep & Hcomp); cbn [local_of].
      + destruct (Hred (length (sort_eord (ord 0) signed)) opt
                    (fun r => local_hidden Z 0%Z Z.add Z.ltb g wts P ord r signed) Hcomp) as (c & w & E).
        { intros r HrP. apply local_hidden_acc; assumption. }
        rewrite E. eexists; eexists; reflexivity.
      + destruct (Hred (nv g) opt (fun r => local_vertices Z 0%Z Z.add Z.ltb g wts P r signed) Hcomp) as (c & w & E).
        { intros r HrP. apply local_vertices_acc; assumption. }
        rewrite E. eexists; eexists; reflexivity.
  Qed.
End Phase.

(* ---- C04b for the signed variant: the branch taken depends on the broadcast witness only --------- *)
Lemma signed_act_uniform W w0 wadd wltb g wts P ord fi r k Sv :
  is_red W (signed_act W w0 wadd wltb g wts P ord fi r k Sv)
  = is_red W (signed_act W w0 wadd wltb g wts P ord fi 0 k Sv).
Proof.
  unfold signed_act. destruct (Nat.eqb (length (indices_to_edges fi Sv)) 1); [reflexivity|].
  destruct (Nat.ltb (length (indices_to_edges fi Sv)) (nv g)); reflexivity.
Qed.
