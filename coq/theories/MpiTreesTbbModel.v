(* MpiTreesTbbModel.v — mcb_sva_{fvs,iso}_trees_tbb_mpi with the EXACT model of the TBB lookup
   (ParTreesModel.pt_lookup: tbb::parallel_for over the rank's trees, tbb::parallel_reduce over the rank's sorted candidates
   with the running minimum as weight limit, joined with cycle_min, identity ({}, numeric_limits::max, false)) inside every
   rank of MpiTreesModel.mcb_sva_trees_mpi_gen.  Definitions only; proofs in MpiTreesProofs5.v, statements in
   Properties_C04_trees_tbb.v.

   Oracles per rank r: `arr r` (its std::sort arrangement, as in the sequential flavour) and, per phase k, `bits r k` (the bit
   stream from which the two TBB schedules of that call are read, ParTreesModel.sched_of_bits).  The C++ keeps ONE lookup object
   per rank for all phases: its parity fields carry over from phase to phase; the lookup rewrites every parity field before it
   reads any (C03_trees_parallel_for), so the model starts every call from the constructor values (pt_pars_init).
   The local answer handed to the reduce is (edges, weight, exists) = the tuple the lookup returns; when nothing answers it is the
   identity tuple, exists = false, which SerializableMinOddCycleMinOp never compares by weight. *)
From Coq Require Export ZArith.
From Parmcb Require Export MpiTreesModel SchedModel ParTreesModel.

Section MpiTreesTbb.
  Variable W : Type.
  Variable w0 : W.
  Variable wadd : W -> W -> W.
  Variable wltb : W -> W -> bool.
  Variable wmax : W.                      (* (std::numeric_limits<WeightType>::max)() *)

  (* what rank r (chunk, arrangement, bit stream of this call) hands to the reduce in the phase with witness Sv *)
  Definition mt_rank_lookup_tbb (g : graph) (wts : list W) (fi : forest_index) (arr : list nat) (bits : list bool)
             (chunk : list (nat * nat)) (Sv : vec) : lres W :=
    match mt_local W w0 wadd wltb g wts fi chunk with
    | MtOk (trees, cs) =>
        match mt_sort W wltb cs arr with
        | MtOk sorted =>
            match fst (pt_lookup W w0 wadd wltb wmax bits g wts trees sorted (indices_to_edges fi Sv) 0
                                 (pt_pars_init W g trees)) with
            | TrOk (r, _) => Some (if c3_found W r then Some (c3_set W r, c3_weight W r) else None)
            | _ => None
            end
        | _ => None
        end
    | _ => None
    end.

  (* mcb_sva_{fvs,iso}_trees_tbb_mpi *)
  Definition mcb_sva_trees_tbb_mpi (b : tbuilder) (g : graph) (wts : list W) (roots picks : list nat) (P : nat)
             (arr : nat -> list nat) (bits : nat -> nat -> list bool) (rtree_of : nat -> rtree) : mt_run W :=
    mcb_sva_trees_mpi_gen W w0 wadd wltb b g wts roots picks P
      (fun fi r chunk k Sv => mt_rank_lookup_tbb g wts fi (arr r) (bits r k) chunk Sv) rtree_of.
End MpiTreesTbb.

Definition mt_rank_lookup_tbb_Z (wmax : Z) := mt_rank_lookup_tbb Z 0%Z Z.add Z.ltb wmax.
Definition mcb_sva_trees_tbb_mpi_Z (wmax : Z) := mcb_sva_trees_tbb_mpi Z 0%Z Z.add Z.ltb wmax.
