(* GF2Model.v — executable model of parmcb::SpVecGF2<std::size_t>
   (include/parmcb/spvecgf2.hpp).  Definitions only; proofs are in GF2Proofs.v.

   A vector is the content of the private member `ones`: the list of coordinates that
   are 1.  Every operation below follows the corresponding member function. *)
From Coq Require Export List Arith Bool Sorted.
Export ListNotations.

Definition vec := list nat.

(* canonical form: strictly increasing (used by specifications and proofs only) *)
Definition sorted (v : vec) : Prop := StronglySorted lt v.

(* operator+ : the two-pointer merge loop, equal indices cancel (1 + 1 = 0) *)
Fixpoint vadd (u : vec) : vec -> vec :=
  fix aux (v : vec) : vec :=
    match u, v with
    | [], _ => v
    | _, [] => u
    | x :: u', y :: v' =>
        match Nat.compare x y with
        | Lt => x :: vadd u' v
        | Gt => y :: aux v'
        | Eq => vadd u' v'
        end
    end.

(* operator*(SpVecGF2) and operator*(std::set): same loop, res = (res + 1) % 2 on a hit *)
Fixpoint vdot (u : vec) : vec -> bool :=
  fix aux (v : vec) : bool :=
    match u, v with
    | [], _ => false
    | _, [] => false
    | x :: u', y :: v' =>
        match Nat.compare x y with
        | Lt => vdot u' v
        | Gt => aux v'
        | Eq => negb (vdot u' v')
        end
    end.

(* std::set<size_t> built by repeated insert: sorted, duplicates dropped *)
Fixpoint set_insert (x : nat) (s : list nat) : list nat :=
  match s with
  | [] => [x]
  | y :: s' =>
      match Nat.compare x y with
      | Lt => x :: s
      | Eq => s
      | Gt => y :: set_insert x s'
      end
  end.

Definition set_of_list (l : list nat) : list nat := fold_left (fun s x => set_insert x s) l [].

Definition mem (v : vec) (i : nat) : bool := existsb (Nat.eqb i) v.

(* ---- histories over a store of vectors --------------------------------------- *)

Inductive op :=
| OUnit (d i : nat)            (* store[d] = SpVecGF2(i) *)
| OSet (d : nat) (s : list nat)(* store[d] = SpVecGF2(std::set built from s) *)
| OCopy (d a : nat)            (* store[d] = SpVecGF2(copy of store[a]) *)
| OMove (d a : nat)            (* store[d] = SpVecGF2(std::move(store[a])); a is unspecified afterwards *)
| OAssign (d a : nat)          (* store[d] = store[a]  (d = a allowed: self-assignment) *)
| OAdd (d a b : nat)           (* store[d] = store[a] + store[b] *)
| OAddAssign (d a : nat)       (* store[d] += store[a] (d = a allowed) *)
| OClear (d : nat)             (* store[d].clear() *)
| ODot (a b : nat)             (* output store[a] * store[b] *)
| ODotSet (a : nat) (s : list nat) (* output store[a] * std::set built from s *)
| OSize (a : nat).             (* output store[a].size() *)

Inductive out := OutBit (b : bool) | OutNat (n : nat).

Definition store := nat -> vec.
Definition upd {A} (s : nat -> A) (d : nat) (x : A) : nat -> A :=
  fun j => if Nat.eqb j d then x else s j.

Definition step (s : store) (o : op) : store * list out :=
  match o with
  | OUnit d i => (upd s d [i], [])
  | OSet d l => (upd s d (set_of_list l), [])
  | OCopy d a => (upd s d (s a), [])
  | OMove d a => (upd s d (s a), [])
  | OAssign d a => (upd s d (s a), [])
  | OAdd d a b => (upd s d (vadd (s a) (s b)), [])
  | OAddAssign d a => (upd s d (vadd (s d) (s a)), [])
  | OClear d => (upd s d [], [])
  | ODot a b => (s, [OutBit (vdot (s a) (s b))])
  | ODotSet a l => (s, [OutBit (vdot (s a) (set_of_list l))])
  | OSize a => (s, [OutNat (length (s a))])
  end.

Fixpoint run (s : store) (ops : list op) : store * list out :=
  match ops with
  | [] => (s, [])
  | o :: ops' =>
      let '(s1, o1) := step s o in
      let '(s2, o2) := run s1 ops' in
      (s2, o1 ++ o2)
  end.

Definition empty_store : store := fun _ => [].

(* what the correspondence harness prints: outputs, then the first K vectors *)
Definition run_dump (K : nat) (ops : list op) : list out * list vec :=
  let '(s, o) := run empty_store ops in (o, map s (seq 0 K)).

(* ---- dense reference semantics (the specification) ---------------------------- *)

Definition dvec := nat -> bool.
Definition dstore := nat -> dvec.

Definition dunit (i : nat) : dvec := fun j => Nat.eqb j i.
Definition dset (l : list nat) : dvec := fun j => existsb (Nat.eqb j) l.
Definition dadd (f g : dvec) : dvec := fun j => xorb (f j) (g j).
Definition dzero : dvec := fun _ => false.
(* parity of the number of common ones below dimension D *)
Definition ddot (D : nat) (f g : dvec) : bool :=
  fold_right xorb false (map (fun j => f j && g j) (seq 0 D)).
Definition dsize (D : nat) (f : dvec) : nat :=
  length (filter f (seq 0 D)).

Definition dstep (D : nat) (s : dstore) (o : op) : dstore * list out :=
  match o with
  | OUnit d i => (upd s d (dunit i), [])
  | OSet d l => (upd s d (dset l), [])
  | OCopy d a => (upd s d (s a), [])
  | OMove d a => (upd s d (s a), [])
  | OAssign d a => (upd s d (s a), [])
  | OAdd d a b => (upd s d (dadd (s a) (s b)), [])
  | OAddAssign d a => (upd s d (dadd (s d) (s a)), [])
  | OClear d => (upd s d dzero, [])
  | ODot a b => (s, [OutBit (ddot D (s a) (s b))])
  | ODotSet a l => (s, [OutBit (ddot D (s a) (dset l))])
  | OSize a => (s, [OutNat (dsize D (s a))])
  end.

Fixpoint drun (D : nat) (s : dstore) (ops : list op) : dstore * list out :=
  match ops with
  | [] => (s, [])
  | o :: ops' =>
      let '(s1, o1) := dstep D s o in
      let '(s2, o2) := drun D s1 ops' in
      (s2, o1 ++ o2)
  end.

Definition empty_dstore : dstore := fun _ => dzero.

(* all coordinates mentioned by the history are below the dimension D *)
Definition op_in_dim (D : nat) (o : op) : Prop :=
  match o with
  | OUnit _ i => i < D
  | OSet _ l | ODotSet _ l => Forall (fun i => i < D) l
  | _ => True
  end.
