(* IsoProofsD2.v — Step D of the sufficiency of the isometric collection, part 2 (pure path theory):
     iso_replace        in a cycle walk A ++ s, replacing the part A (from x to c) by P(x,c) <> A gives a closed walk
                        which, when odd, contains an odd cycle walk that is strictly below A ++ s in the order iso_mlt
                        (lighter, or as heavy with fewer edges, or ... with an lc_slt-smaller vertex set)
     iso_step           an odd cycle walk (x, w) is represented from x (iso_rep), or some odd cycle walk is below it
     iso_all_rot        ... is isometric, or some odd cycle walk is below it
     iso_min_odd_cycle_isometric
                        for every signed set sg and every odd simple cycle D there is an odd ISOMETRIC cycle walk that
                        is no heavier than D.
   Prefix iso_. *)
From Coq Require Import List Arith Bool Lia ZArith Permutation.
From Parmcb Require Import GraphModel GF2Model GraphSpec GraphLemmas LexSPModel LexSPProofs LexSPProofsDist
     LexSPProofsCons1 LexSPProofsCons2 RefModel RefProofs1 IsoProofs0 IsoProofsR IsoProofsD1.
Import ListNotations.

Section StepD.
  Variable g : graph.
  Variable wts : list Z.
  Variable sg : list nat.
  Hypothesis Hsg : simple_graph g.
  Hypothesis Hpos : positive_weights g wts.

  Notation mlt := (iso_mlt wts).
  Notation smaller w := (exists x' w', iso_cycle_walk g x' w' /\ oddb sg (wedges w') = true /\ iso_mlt wts w' w).

  Lemma iso_oddb_app (a b : list (nat * nat)) : oddb sg (wedges (a ++ b)) = xorb (oddb sg (wedges a)) (oddb sg (wedges b)).
  Proof. rewrite rf_wedges_app. apply rf_oddb_app. Qed.

  Lemma iso_oddb_rev x p : oddb sg (wedges (lc_rev x p)) = oddb sg (wedges p).
  Proof. rewrite lc_rev_wedges. apply rf_oddb_perm. apply Permutation_sym, Permutation_rev. Qed.

  Lemma iso_replace x A s c P :
    iso_cycle_walk g x (A ++ s) -> walk g x A c -> walk g c s x -> lc_lexmin g wts x P c -> P <> A ->
    oddb sg (wedges (P ++ s)) = true -> smaller (A ++ s).
  Proof.
    intros Hcw HA Hs HP Hne Hodd.
    pose proof (iso_lexmin_walk g wts x P c HP) as HwP.
    assert (HZ : walk g x (P ++ s) x) by (eapply gl_walk_app; eauto).
    destruct HP as [HshP HminP]. pose proof HshP as [_ HPle]. specialize (HPle A HA).
    assert (Hsum : forall B, lz_sum wts (B ++ s) = (lz_sum wts B + lz_sum wts s)%Z) by (intros B; apply lc_sum_app).
    destruct (Z.lt_ge_cases (lz_sum wts P) (lz_sum wts A)) as [Hlt|Hge].
    { apply (iso_lighter_mlt g wts sg Hsg Hpos x (P ++ s)); [exact HZ|exact Hodd|]. rewrite !Hsum. lia. }
    assert (Heq : lz_sum wts P = lz_sum wts A) by lia.
    assert (HshA : lc_shortest g wts x A c) by (apply (lc_sh_of_sum g wts x P A c HshP HA); lia).
    assert (HLT : lc_LT (lc_pl wts x P) (lc_pl wts x A)).
    { destruct (lc_LT_tricho (lc_pl wts x P) (lc_pl wts x A)) as [H|[H|H]]; [exact H| |].
      - exfalso. apply Hne. destruct H as [_ [_ H]]. apply (lc_sh_set_unique g wts Hsg Hpos P A x c HshP HshA H).
      - exfalso. exact (HminP A HshA H). }
    destruct (iso_simple_or_lighter g wts sg Hsg Hpos x (P ++ s) HZ Hodd) as [Hnd|(x' & p' & H1 & H2 & H3)].
    2:{ apply (iso_lighter_mlt g wts sg Hsg Hpos x' p'); [exact H1|exact H2|]. rewrite Hsum in *. lia. }
    exists x, (P ++ s). split; [apply (iso_odd_simple_cycle_walk g sg Hsg); assumption|]. split; [exact Hodd|].
    (* s is not empty *)
    assert (Hsne : s <> []).
    { intros ->. assert (Ecx : c = x) by (inversion Hs; reflexivity). subst c.
      rewrite (lc_sh_loop_nil g wts Hpos P x HshP) in Hodd.
      cbn [app wedges map] in Hodd. rewrite rf_oddb_nil in Hodd. discriminate. }
    assert (Hxs : In x (wverts s)) by (apply (rf_walk_end_in g s c x Hs Hsne)).
    unfold iso_mlt, lc_LT, iso_lab; cbn [l_dist l_cnt l_set]. right. split; [rewrite !Hsum; lia|].
    unfold lc_LT, lc_pl in HLT; cbn [l_dist l_cnt l_set] in HLT.
    destruct HLT as [H|[_ [H|[Hlen Hslt]]]]; [lia|left; rewrite !app_length; lia|].
    right. split; [rewrite !app_length; lia|].
    apply (lc_slt_add_over (x :: wverts P) (x :: wverts A) (wverts s)); [| | |exact Hslt].
    - intros k. rewrite lc_wverts_app, in_app_iff. cbn [In]. split; [tauto|]. intros [[<-|H]|H]; auto.
    - intros k. rewrite lc_wverts_app, in_app_iff. cbn [In]. split; [tauto|]. intros [[<-|H]|H]; auto.
    - intros k HkO [<-|HkP]; [left; reflexivity|]. exfalso. rewrite lc_wverts_app in Hnd.
      exact (lc_nodup_app_disj _ _ k Hnd HkP HkO).
  Qed.

  (* the longest prefix of a closed walk that is a chosen walk *)
  Lemma iso_first_fail x : forall s p a, walk g x p a -> walk g a s x -> lc_lexmin g wts x p a -> p ++ s <> [] ->
    exists p' e c s' a', p ++ s = p' ++ (e, c) :: s' /\ walk g x p' a' /\ lc_lexmin g wts x p' a' /\
                         exists P, lc_lexmin g wts x P c /\ P <> p' ++ [(e, c)].
  Proof.
    induction s as [|[e c] s IH]; intros p a Hp Hs Hmin Hne.
    - inversion Hs; subst. destruct Hmin as [Hsh _]. rewrite (lc_sh_loop_nil g wts Hpos p x Hsh) in Hne. contradiction.
    - inversion Hs as [|? ? ? ? ? Hj Hs']; subst.
      assert (HA : walk g x (p ++ [(e, c)]) c).
      { apply (lc_walk_snoc g x p a e c Hp Hj). apply (gl_simple_joins g e a c Hsg Hj). }
      destruct (iso_lexmin_dec g wts Hsg Hpos x (p ++ [(e, c)]) c HA) as [HAm|(P & HP & HPne)].
      + destruct (IH (p ++ [(e, c)]) c HA Hs' HAm) as (p' & e' & c' & s' & a' & E & H1 & H2 & H3).
        { intros E. apply app_eq_nil in E as [E _]. apply app_eq_nil in E as [_ E]. discriminate. }
        exists p', e', c', s', a'. rewrite <- app_assoc in E. auto.
      + exists p, e, c, s, a. repeat (split; [auto|]). exists P. auto.
  Qed.

  Theorem iso_step x w : iso_cycle_walk g x w -> oddb sg (wedges w) = true -> iso_rep g wts x w \/ smaller w.
  Proof.
    intros Hcw Hodd. pose proof Hcw as (Hw & Hndv & Hnde & Hwne).
    pose proof (gl_walk_start_lt g x w x Hsg Hw) as Hx.
    destruct (iso_first_fail x w [] x (walk_nil g x Hx) Hw (lc_lexmin_nil g wts Hpos x Hx) Hwne)
      as (p & e & c & s & a & E & Hp & Hpm & P & HP & HPne).
    cbn [app] in E. subst w.
    destruct (lc_walk_app_inv g Hsg p ((e, c) :: s) x x Hw) as (a' & Hp' & Hes).
    assert (a' = a) by (eapply lc_walk_end_fun; eauto). subst a'.
    inversion Hes as [|? ? ? ? ? Hj Hs]; subst.
    pose proof (lc_rev_walk g Hsg s c x Hs) as Hq.
    destruct (iso_walk_eq_dec P (lc_rev c s)) as [EP|HPq].
    - left. exists p, e, a, c, (lc_rev c s). split; [exact Hj|]. split; [exact Hpm|]. split; [rewrite <- EP; exact HP|].
      rewrite (lc_rev_invol g Hsg s c x Hs). reflexivity.
    - right.
      assert (HA : walk g x (p ++ [(e, c)]) c).
      { apply (lc_walk_snoc g x p a e c Hp Hj). apply (gl_simple_joins g e a c Hsg Hj). }
      assert (EW : p ++ (e, c) :: s = (p ++ [(e, c)]) ++ s) by (rewrite <- app_assoc; reflexivity).
      rewrite EW in *.
      set (A := p ++ [(e, c)]) in *.
      pose proof (iso_lexmin_walk g wts x P c HP) as HwP.
      rewrite iso_oddb_app in Hodd.
      destruct (oddb sg (wedges (P ++ s))) eqn:E1.
      + apply (iso_replace x A s c P Hcw HA Hs HP HPne E1).
      + (* the other side: work in the reversed cycle walk *)
        assert (E2 : oddb sg (wedges (P ++ lc_rev x A)) = true).
        { rewrite iso_oddb_app in E1. rewrite iso_oddb_app, iso_oddb_rev.
          destruct (oddb sg (wedges P)), (oddb sg (wedges A)), (oddb sg (wedges s)); cbn in *; congruence. }
        assert (Erev : lc_rev x (A ++ s) = lc_rev c s ++ lc_rev x A) by (apply (iso_rev_app g A s x c x HA Hs)).
        assert (Hrot : iso_rot_of g x (A ++ s) x (lc_rev x (A ++ s))) by (apply (isor_rev g Hsg); exact Hw).
        pose proof (isor_cycle_walk g Hsg x (A ++ s) x _ Hcw Hrot) as Hcw'.
        destruct (isor_perm g Hsg x (A ++ s) x _ Hw Hrot) as (Pe & Pv & Pl).
        rewrite Erev in Hcw', Pe, Pv, Pl.
        destruct (iso_replace x (lc_rev c s) (lc_rev x A) c P Hcw' Hq (lc_rev_walk g Hsg A x c HA) HP HPq E2)
          as (x' & w' & H1 & H2 & H3).
        exists x', w'. split; [exact H1|]. split; [exact H2|].
        apply (iso_mlt_ext_r wts w' (A ++ s) (lc_rev c s ++ lc_rev x A)); [|exact Pl| |exact H3].
        * apply iso_sum_perm. exact Pe.
        * intros k. split; intros Hk; [eapply Permutation_in; [exact Pv|exact Hk]|
                                        eapply Permutation_in; [apply Permutation_sym; exact Pv|exact Hk]].
  Qed.

  (* every rotation *)
  Lemma iso_rot_step x w1 w2 y : iso_cycle_walk g x (w1 ++ w2) -> oddb sg (wedges (w1 ++ w2)) = true -> walk g x w1 y ->
    iso_rep g wts y (w2 ++ w1) \/ smaller (w1 ++ w2).
  Proof.
    intros Hcw Hodd H1. pose proof Hcw as (Hw & _).
    pose proof (isor_rot g x w1 w2 y Hw H1) as Hrot.
    pose proof (isor_cycle_walk g Hsg x _ y _ Hcw Hrot) as Hcw'.
    destruct (isor_perm g Hsg x _ y _ Hw Hrot) as (Pe & Pv & Pl).
    assert (Hodd' : oddb sg (wedges (w2 ++ w1)) = true) by (rewrite (rf_oddb_perm sg _ _ Pe); exact Hodd).
    destruct (iso_step y (w2 ++ w1) Hcw' Hodd') as [H|(x' & w' & Ha & Hb & Hc)]; [left; exact H|right].
    exists x', w'. split; [exact Ha|]. split; [exact Hb|].
    apply (iso_mlt_ext_r wts w' (w1 ++ w2) (w2 ++ w1)); [|exact Pl| |exact Hc].
    - apply iso_sum_perm. exact Pe.
    - intros k. split; intros Hk; [eapply Permutation_in; [exact Pv|exact Hk]|
                                    eapply Permutation_in; [apply Permutation_sym; exact Pv|exact Hk]].
  Qed.

  Lemma iso_all_rot_aux x w : iso_cycle_walk g x w -> oddb sg (wedges w) = true ->
    forall w2 w1, w = w1 ++ w2 ->
      (forall v1 v2 y, w = v1 ++ v2 -> walk g x v1 y -> (exists l, v1 = w1 ++ l) -> iso_rep g wts y (v2 ++ v1)) \/ smaller w.
  Proof.
    intros Hcw Hodd. pose proof Hcw as (Hw & _).
    induction w2 as [|a w2 IH]; intros w1 E.
    - destruct (lc_walk_app_inv g Hsg w1 [] x x ltac:(rewrite <- E; exact Hw)) as (y & Hy & _).
      subst w. destruct (iso_rot_step x w1 [] y Hcw Hodd Hy) as [H|H]; [left|right; exact H].
      intros v1 v2 y' E' Hy' [l ->]. rewrite <- app_assoc in E'. apply app_inv_head in E'.
      symmetry in E'. apply app_eq_nil in E' as [-> ->]. rewrite app_nil_r in Hy'.
      assert (y' = y) by (eapply lc_walk_end_fun; eauto). subst y'. rewrite app_nil_r. exact H.
    - destruct (IH (w1 ++ [a])) as [HI|HI]; [rewrite <- app_assoc; exact E| |right; exact HI].
      destruct (lc_walk_app_inv g Hsg w1 (a :: w2) x x ltac:(rewrite <- E; exact Hw)) as (y & Hy & _).
      subst w. destruct (iso_rot_step x w1 (a :: w2) y Hcw Hodd Hy) as [H|H]; [left|right; exact H].
      intros v1 v2 y' E' Hy' [l ->]. destruct l as [|a' l].
      + rewrite app_nil_r in *. apply app_inv_head in E'. subst v2.
        assert (y' = y) by (eapply lc_walk_end_fun; eauto). subst y'. exact H.
      + pose proof E' as E''. rewrite <- app_assoc in E''. apply app_inv_head in E''. cbn [app] in E''.
        injection E'' as <- _. apply (HI _ v2 y' E' Hy'). exists l. rewrite <- app_assoc. reflexivity.
  Qed.

  Theorem iso_all_rot x w : iso_cycle_walk g x w -> oddb sg (wedges w) = true -> iso_isometric g wts x w \/ smaller w.
  Proof.
    intros Hcw Hodd. destruct (iso_all_rot_aux x w Hcw Hodd w [] eq_refl) as [H|H]; [left|right; exact H].
    intros w1 w2 y E Hy. left. apply (H w1 w2 y E Hy). exists w1. reflexivity.
  Qed.

  (* well-founded descent *)
  Lemma iso_descent : forall n x w, iso_meas g wts w < n -> iso_cycle_walk g x w -> oddb sg (wedges w) = true ->
    exists x' w', iso_cycle_walk g x' w' /\ oddb sg (wedges w') = true /\ (lz_sum wts w' <= lz_sum wts w)%Z /\
                  iso_isometric g wts x' w'.
  Proof.
    induction n as [|n IH]; intros x w Hm Hcw Hodd; [lia|].
    destruct (iso_all_rot x w Hcw Hodd) as [H|(x1 & w1 & H1 & H2 & H3)].
    - exists x, w. repeat (split; [assumption|]). split; [lia|exact H].
    - pose proof (iso_mlt_meas g wts Hsg Hpos x1 w1 x w H1 Hcw H3) as Hlt.
      destruct (IH x1 w1 ltac:(lia) H1 H2) as (x' & w' & Ha & Hb & Hc & Hd).
      exists x', w'. repeat (split; [assumption|]). split; [|exact Hd].
      assert (lz_sum wts w1 <= lz_sum wts w)%Z; [|lia].
      unfold iso_mlt, lc_LT, iso_lab in H3; cbn [l_dist] in H3. destruct H3 as [H3|[H3 _]]; lia.
  Qed.

  Theorem iso_min_odd_cycle_isometric D : simple_cycle g D -> oddb sg D = true ->
    exists x w, iso_cycle_walk g x w /\ oddb sg (wedges w) = true /\
                (weight wts (wedges w) <= weight wts D)%Z /\ iso_isometric g wts x w.
  Proof.
    intros (Hne & Hsd & x & p & Hw & Hnde & Hndv & HE) Hodd.
    assert (Hperm : Permutation (wedges p) D).
    { apply NoDup_Permutation; [exact Hnde|apply gl_sorted_NoDup; exact Hsd|]. intros e. symmetry. apply HE. }
    assert (Hpne : p <> []).
    { intros ->. destruct D as [|e D]; [congruence|]. destruct (proj1 (HE e) (or_introl eq_refl)). }
    assert (Hcw : iso_cycle_walk g x p) by (repeat (split; [assumption|]); exact Hpne).
    assert (Hodd' : oddb sg (wedges p) = true) by (rewrite (rf_oddb_perm sg _ _ Hperm); exact Hodd).
    destruct (iso_descent (S (iso_meas g wts p)) x p (Nat.lt_succ_diag_r _) Hcw Hodd') as (x' & w' & Ha & Hb & Hc & Hd).
    exists x', w'. repeat (split; [assumption|]). split; [|exact Hd].
    rewrite !lz_sum_weight in Hc. rewrite <- (rf_weight_perm wts _ _ Hperm). exact Hc.
  Qed.
End StepD.

Print Assumptions iso_min_odd_cycle_isometric.
