(* LexSPProofsDist.v — part (ii) of C12 over Z: on a simple graph with positive weights lex_dijkstra never
   fails, and the value stored for a vertex is the true shortest distance (label-setting invariant B4 of
   DESIGN.md): the distance component of the queue's order is a heap order (LexSPProofsHeap.v), popped
   distances are non-decreasing and final (first-exit-edge argument), every edge out of a popped vertex is
   relaxed.  The comparison LexDistanceCompare refines < on distances, which is all that is used.
   Prefix lz_. *)
From Coq Require Import List Arith Bool Lia ZArith Permutation.
From Parmcb Require Import GraphModel GraphSpec GraphLemmas HeapModel LexSPModel LexSPProofsHeap LexSPProofs.
Import ListNotations.

Notation zkey := (lx_key Z 0%Z).
Notation zltb := (lx_ltb Z Z.ltb).
Notation zcombine := (lx_combine Z 0%Z Z.add).

Lemma lz_m_lt (a b : label Z) : zltb a b = true -> (l_dist a <= l_dist b)%Z.
Proof.
  unfold lx_ltb. destruct (Z.ltb_spec (l_dist a) (l_dist b)); [lia|].
  destruct (Z.ltb_spec (l_dist b) (l_dist a)); [discriminate|lia].
Qed.

Lemma lz_m_ge (a b : label Z) : zltb a b = false -> (l_dist b <= l_dist a)%Z.
Proof.
  unfold lx_ltb. destruct (Z.ltb_spec (l_dist a) (l_dist b)); [discriminate|]. lia.
Qed.

(* weight of a walk as a right fold (the shape of `walk`) *)
Definition lz_sum (wts : list Z) (p : list (nat * nat)) : Z :=
  fold_right (fun ev acc => (wt wts (fst ev) + acc)%Z) 0%Z p.

Lemma lz_wsum_sum wts p : lx_wsum Z 0%Z Z.add wts p = lz_sum wts p.
Proof.
  unfold lx_wsum. assert (H : forall acc, fold_left (fun a ev => (a + lx_wt Z 0%Z wts (fst ev))%Z) p acc = (acc + lz_sum wts p)%Z).
  { induction p as [|x p IH]; intros acc; [cbn; lia|]. cbn [fold_left]. rewrite IH.
    change (lz_sum wts (x :: p)) with (wt wts (fst x) + lz_sum wts p)%Z. unfold lx_wt, wt. lia. }
  rewrite H. lia.
Qed.

Lemma lz_sum_weight wts p : lz_sum wts p = weight wts (wedges p).
Proof.
  unfold weight, wedges. induction p as [|x p IH]; cbn [lz_sum fold_right map]; [reflexivity|].
  fold (lz_sum wts p). rewrite IH. reflexivity.
Qed.

Lemma lz_wt_pos g wts e : positive_weights g wts -> e < ne g -> (0 < wt wts e)%Z.
Proof.
  intros [Hl Hf] He. unfold wt. rewrite Forall_forall in Hf. apply Hf. apply nth_In. lia.
Qed.

Lemma lz_sum_nonneg g wts x p z : positive_weights g wts -> walk g x p z -> (0 <= lz_sum wts p)%Z.
Proof.
  intros Hp. induction 1 as [x Hx|x e y p z Hj Hw IH]; cbn [lz_sum fold_right]; [lia|].
  fold (lz_sum wts p). pose proof (lz_wt_pos g wts e Hp (gl_joins_lt g e x y Hj)). cbn [fst]. lia.
Qed.

Lemma lz_NoDup_app_r {A} (a b : list A) : NoDup (a ++ b) -> NoDup b.
Proof. induction a as [|x a IH]; intros H; [exact H|]. cbn [app] in H. inversion H; auto. Qed.

Section Dist.
  Variable g : graph.
  Variable wts : list Z.
  Variable s : nat.
  Hypothesis Hsg : simple_graph g.
  Hypothesis Hpos : positive_weights g wts.

  Notation zinv := (lx_inv Z 0%Z Z.add g wts s).
  Notation zinner := (lx_inner Z 0%Z Z.add g wts s).
  Notation zvisited := (lx_visited Z s).
  Notation zrelax := (lx_relax Z 0%Z Z.add Z.ltb g wts s).
  Notation zstep := (lx_step Z 0%Z Z.add Z.ltb g wts s).
  Notation zheap := (hp_heap (label Z) (@l_dist Z)).

  Definition dl (st : lx_state Z) (v : nat) : Z := l_dist (zkey (lx_lex st) v).

  (* the extra invariant between iterations *)
  Record lz_ext (st : lx_state Z) (D : list nat) : Prop := {
    x_heap : zheap (zkey (lx_lex st)) (lx_heap st);
    x_mono : forall x h, In x D -> In h (lx_heap st) -> (dl st x <= dl st h)%Z;
    x_final : forall x p, In x D -> walk g s p x -> (dl st x <= lz_sum wts p)%Z;
    x_relaxed : forall x e w, In x D -> joins g e x w -> zvisited st w /\ (dl st w <= dl st x + wt wts e)%Z;
    x_nonneg : forall v, (0 <= dl st v)%Z
  }.

  (* ... and while the out-edges of u are scanned; `scanned` = the out-edges already handled *)
  Record lz_inn (u : nat) (scanned : list (nat * nat)) (st : lx_state Z) (D : list nat) : Prop := {
    y_heap : zheap (zkey (lx_lex st)) (lx_heap st);
    y_mono : forall x h, In x D -> In h (lx_heap st) -> (dl st x <= dl st h)%Z;
    y_final : forall x p, In x D -> walk g s p x -> (dl st x <= lz_sum wts p)%Z;
    y_relaxed : forall x e w, In x D -> x <> u -> joins g e x w ->
                zvisited st w /\ (dl st w <= dl st x + wt wts e)%Z;
    y_scanned : forall e w, In (e, w) scanned -> zvisited st w /\ (dl st w <= dl st u + wt wts e)%Z;
    y_nonneg : forall v, (0 <= dl st v)%Z;
    y_max : forall x, In x D -> (dl st x <= dl st u)%Z
  }.

  Lemma lz_dl_set st w c v lex' :
    lex' = set_nth (lx_lex st) w c -> w < length (lx_lex st) ->
    l_dist (zkey lex' v) = if Nat.eqb w v then l_dist c else dl st v.
  Proof.
    intros -> Hw. unfold dl, lx_key. destruct (Nat.eqb_spec w v) as [->|Hne].
    - rewrite hp_nth_set_nth_eq by exact Hw. reflexivity.
    - rewrite hp_nth_set_nth_neq by exact Hne. reflexivity.
  Qed.

  Lemma lz_in_nth (h : nat) l : In h l -> exists j, j < length l /\ nth j l 0 = h.
  Proof. intros H. apply (In_nth l h 0) in H. exact H. Qed.

  (* ---- one relaxation ------------------------------------------------------------------- *)
  Lemma lz_relax_ok u d_u scanned e w st D :
    joins g e u w -> zinner u d_u st D -> lz_inn u scanned st D ->
    exists st', zrelax u d_u (LxOk st) (e, w) = LxOk st' /\ lz_inn u (scanned ++ [(e, w)]) st' D.
  Proof.
    intros Hj Hinner Hy.
    pose proof Hinner as [Hinv [HuD Hdu]].
    destruct Hinv as [L1 L2 L3 Ss Sp Sl Nd Rg Vs Pr].
    destruct Hy as [Y1 Y2 Y3 Y4 Y5 Y6 Y7].
    destruct (gl_simple_joins g e u w Hsg Hj) as [Hun [Hwn Huw]].
    pose proof (lz_wt_pos g wts e Hpos (gl_joins_lt g e u w Hj)) as Hwe.
    set (c := zcombine wts d_u e u w).
    assert (Hc : l_dist c = (dl st u + wt wts e)%Z).
    { unfold c, lx_combine, dl. cbn [l_dist]. rewrite Hdu. reflexivity. }
    assert (HsD : dl st s = 0%Z) by (unfold dl; rewrite Sl; reflexivity).
    destruct (lx_relax_result Z 0%Z Z.add Z.ltb g wts s u d_u e w st) as [[st' Hr]|[[_ Hc1]|[_ [_ [_ [Hv [Hnh Hlt]]]]]]].
    2:{ contradiction. }
    2:{ (* queue.update of a vertex that left the queue: impossible, its distance is final *)
        exfalso. fold c in Hlt. apply lz_m_lt in Hlt. fold (dl st w) in Hlt.
        assert (HwD : In w D).
        { specialize (Vs w (or_intror Hv)). apply in_app_iff in Vs as [H|H]; [exact H|contradiction]. }
        specialize (Y7 w HwD). lia. }
    exists st'. split; [exact Hr|].
    pose proof (lx_relax_inner Z 0%Z Z.add Z.ltb g wts s u d_u e w st st' D Hj Hinner Hr) as Hinner'.
    apply lx_relax_cases in Hr.
    destruct Hr as [Heq Hwhy|Hwu Hws _ Hp Heq|h' Hwu Hws _ Hp Hlt Hup Heq];
      fold c in Heq; try fold c in Hup; subst st'.
    - (* nothing changes *)
      constructor; auto. intros e' w' Hin. apply in_app_iff in Hin as [Hin|[Hin|[]]]; [auto|].
      injection Hin as <- <-. destruct Hwhy as [->|[->|[Hv Hnlt]]].
      + contradiction.
      + split; [left; reflexivity|]. rewrite HsD. specialize (Y6 u). lia.
      + split; [right; exact Hv|]. fold c in Hnlt. apply lz_m_ge in Hnlt. fold (dl st w) in Hnlt. lia.
    - (* first time found *)
      set (lex' := set_nth (lx_lex st) w c) in *.
      set (st' := {| lx_lex := lex'; lx_dist := set_nth (lx_dist st) w (Some (l_dist c));
                     lx_pred := set_nth (lx_pred st) w (Some e);
                     lx_heap := heap_push (label Z) zltb (zkey lex') (lx_heap st) w |}) in *.
      assert (Hdl : forall v, dl st' v = if Nat.eqb w v then l_dist c else dl st v).
      { intros v. apply (lz_dl_set st w c v lex'); [reflexivity|lia]. }
      assert (Hnvis : ~ zvisited st w) by (intros [H|H]; contradiction).
      assert (HwD : ~ In w D).
      { intros H. destruct (Rg w (in_or_app _ _ _ (or_introl H))) as [_ Hc']. contradiction. }
      assert (Hwh : ~ In w (lx_heap st)).
      { intros H. destruct (Rg w (in_or_app _ _ _ (or_intror H))) as [_ Hc']. contradiction. }
      assert (Hvis' : forall x, zvisited st x -> zvisited st' x).
      { apply (lx_visited_mono Z s st st' w e). reflexivity. }
      assert (HdlD : forall x, In x D -> dl st' x = dl st x).
      { intros x Hx. rewrite Hdl. destruct (Nat.eqb_spec w x) as [->|]; [contradiction|reflexivity]. }
      assert (Hdlu : dl st' u = dl st u) by (apply HdlD; exact HuD).
      constructor.
      + cbn [lx_lex lx_heap st']. apply hp_push_heap; [exact lz_m_lt|exact lz_m_ge|].
        eapply hp_heap_key_ext; [exact Y1|]. intros x Hx. unfold lex', lx_key.
        rewrite hp_nth_set_nth_neq; [reflexivity|]. intros ->. contradiction.
      + intros x h Hx Hh. cbn [lx_heap st'] in Hh.
        apply (Permutation_in _ (hp_push_perm _ _ _ _ _)) in Hh.
        rewrite (HdlD x Hx). rewrite Hdl. destruct (Nat.eqb_spec w h) as [->|Hne].
        * specialize (Y7 x Hx). lia.
        * destruct Hh as [->|Hh]; [contradiction|]. apply Y2; auto.
      + intros x p Hx Hw. rewrite (HdlD x Hx). apply Y3; auto.
      + intros x e' w' Hx Hxu Hj'. destruct (Y4 x e' w' Hx Hxu Hj') as [Hv' Hd']. split; [apply Hvis'; exact Hv'|].
        rewrite (HdlD x Hx). rewrite Hdl. destruct (Nat.eqb_spec w w') as [->|]; [contradiction|exact Hd'].
      + intros e' w' Hin. rewrite Hdlu. apply in_app_iff in Hin as [Hin|[Hin|[]]].
        * destruct (Y5 e' w' Hin) as [Hv' Hd']. split; [apply Hvis'; exact Hv'|].
          rewrite Hdl. destruct (Nat.eqb_spec w w') as [->|]; [contradiction|exact Hd'].
        * injection Hin as <- <-. split.
          -- right. cbn [lx_pred st']. rewrite hp_nth_set_nth_eq by lia. discriminate.
          -- rewrite Hdl, Nat.eqb_refl. lia.
      + intros v. rewrite Hdl. destruct (Nat.eqb w v); [|apply Y6]. specialize (Y6 u). lia.
      + intros x Hx. rewrite (HdlD x Hx), Hdlu. apply Y7; exact Hx.
    - (* strictly better label for a vertex still in the queue *)
      set (lex' := set_nth (lx_lex st) w c) in *.
      set (st' := {| lx_lex := lex'; lx_dist := set_nth (lx_dist st) w (Some (l_dist c));
                     lx_pred := set_nth (lx_pred st) w (Some e); lx_heap := h' |}) in *.
      assert (Hdl : forall v, dl st' v = if Nat.eqb w v then l_dist c else dl st v).
      { intros v. apply (lz_dl_set st w c v lex'); [reflexivity|lia]. }
      fold c in Hlt. apply lz_m_lt in Hlt. fold (dl st w) in Hlt.
      pose proof (hp_update_some _ _ _ _ _ _ Hup) as [Hwh Hperm].
      assert (HwD : ~ In w D) by (intros H; eapply lx_NoDup_app_disj; eauto).
      assert (Hvis' : forall x, zvisited st x -> zvisited st' x).
      { apply (lx_visited_mono Z s st st' w e). reflexivity. }
      assert (HdlD : forall x, In x D -> dl st' x = dl st x).
      { intros x Hx. rewrite Hdl. destruct (Nat.eqb_spec w x) as [->|]; [contradiction|reflexivity]. }
      assert (Hdlu : dl st' u = dl st u) by (apply HdlD; exact HuD).
      assert (Hdec : forall v, (dl st' v <= dl st v)%Z).
      { intros v. rewrite Hdl. destruct (Nat.eqb_spec w v) as [->|]; lia. }
      constructor.
      + cbn [lx_lex lx_heap st'].
        apply (hp_update_heap (label Z) zltb (@l_dist Z) lz_m_lt lz_m_ge (zkey (lx_lex st)) (zkey lex') (lx_heap st) w h');
          [eapply lz_NoDup_app_r; exact Nd|exact Y1| | |exact Hup].
        * intros x Hx Hxw. unfold lex', lx_key. rewrite hp_nth_set_nth_neq; auto.
        * fold (dl st w). change (l_dist (zkey lex' w)) with (dl st' w). apply Hdec.
      + intros x h Hx Hh. cbn [lx_heap st'] in Hh. apply (Permutation_in _ Hperm) in Hh.
        rewrite (HdlD x Hx). rewrite Hdl. destruct (Nat.eqb_spec w h) as [->|Hne].
        * specialize (Y7 x Hx). lia.
        * apply Y2; auto.
      + intros x p Hx Hw. rewrite (HdlD x Hx). apply Y3; auto.
      + intros x e' w' Hx Hxu Hj'. destruct (Y4 x e' w' Hx Hxu Hj') as [Hv' Hd']. split; [apply Hvis'; exact Hv'|].
        rewrite (HdlD x Hx). specialize (Hdec w'). lia.
      + intros e' w' Hin. rewrite Hdlu. apply in_app_iff in Hin as [Hin|[Hin|[]]].
        * destruct (Y5 e' w' Hin) as [Hv' Hd']. split; [apply Hvis'; exact Hv'|]. specialize (Hdec w'). lia.
        * injection Hin as <- <-. split.
          -- right. cbn [lx_pred st']. rewrite hp_nth_set_nth_eq by lia. discriminate.
          -- rewrite Hdl, Nat.eqb_refl. lia.
      + intros v. rewrite Hdl. destruct (Nat.eqb w v); [|apply Y6]. specialize (Y6 u). lia.
      + intros x Hx. rewrite (HdlD x Hx), Hdlu. apply Y7; exact Hx.
  Qed.

  Lemma lz_fold_ok u d_u D : forall es scanned st,
    (forall e w, In (e, w) es -> joins g e u w) -> zinner u d_u st D -> lz_inn u scanned st D ->
    exists st', fold_left (zrelax u d_u) es (LxOk st) = LxOk st' /\ zinner u d_u st' D /\
                lz_inn u (scanned ++ es) st' D.
  Proof.
    induction es as [|[e w] es IH]; intros scanned st Hes Hin Hy; cbn [fold_left].
    - exists st. rewrite app_nil_r. auto.
    - destruct (lz_relax_ok u d_u scanned e w st D (Hes e w (or_introl eq_refl)) Hin Hy) as [st1 [Hr Hy1]].
      rewrite Hr.
      pose proof (lx_relax_inner Z 0%Z Z.add Z.ltb g wts s u d_u e w st st1 D (Hes e w (or_introl eq_refl)) Hin Hr) as Hin1.
      destruct (IH (scanned ++ [(e, w)]) st1) as [st' [Hf [Hin' Hy']]]; auto.
      { intros e' w' H. apply Hes. right; exact H. }
      exists st'. rewrite <- app_assoc in Hy'. auto.
  Qed.

  (* ---- one iteration ---------------------------------------------------------------------- *)
  Lemma lz_exit st D : zinv st D -> lz_ext st D ->
    forall a p z, walk g a p z -> In a D -> ~ In z D ->
    exists y, zvisited st y /\ ~ In y D /\ (dl st y <= dl st a + lz_sum wts p)%Z.
  Proof.
    intros Hinv [X1 X2 X3 X4 X5]. induction 1 as [x Hx|x e y p z Hj Hw IH]; intros Ha Hz; [contradiction|].
    cbn [lz_sum fold_right fst]. fold (lz_sum wts p).
    destruct (X4 x e y Ha Hj) as [Hvy Hdy].
    destruct (in_dec Nat.eq_dec y D) as [HyD|HyD].
    - destruct (IH HyD Hz) as [y' [H1 [H2 H3]]]. exists y'. repeat split; auto. lia.
    - exists y. repeat split; auto. pose proof (lz_sum_nonneg g wts y p z Hpos Hw). lia.
  Qed.

  Lemma lz_step_ok st D u :
    zinv st D -> lz_ext st D -> heap_top (lx_heap st) = Some u ->
    exists st', zstep st u = LxOk st' /\ zinv st' (D ++ [u]) /\ lz_ext st' (D ++ [u]).
  Proof.
    intros Hinv Hx Ht.
    pose proof (lx_popped_inner Z 0%Z Z.add Z.ltb g wts s st D u Hinv Ht) as Hinner.
    pose proof Hinv as [L1 L2 L3 Ss Sp Sl Nd Rg Vs Pr].
    pose proof Hx as [X1 X2 X3 X4 X5].
    destruct (lx_heap_top_cons _ _ Ht) as [r Hr].
    set (st0 := lx_popped Z 0%Z Z.ltb st) in *.
    assert (Hdl0 : forall v, dl st0 v = dl st v) by reflexivity.
    assert (Hperm : Permutation (lx_heap st0) r).
    { unfold st0, lx_popped. cbn [lx_heap]. rewrite Hr. apply lx_pop_perm. }
    assert (Hh0 : forall h, In h (lx_heap st0) -> In h (lx_heap st)).
    { intros h Hh. rewrite Hr. right. eapply Permutation_in; eauto. }
    assert (Hmin : forall h, In h (lx_heap st) -> (dl st u <= dl st h)%Z).
    { intros h Hh. apply lz_in_nth in Hh as [j [Hj <-]].
      pose proof (hp_heap_top (label Z) (@l_dist Z) _ _ X1 j Hj) as H. rewrite Hr in H at 1. cbn [nth] in H. exact H. }
    assert (HuD : ~ In u D).
    { intros H. eapply lx_NoDup_app_disj; [exact Nd|exact H|]. rewrite Hr. left; reflexivity. }
    assert (Hy0 : lz_inn u [] st0 (D ++ [u])).
    { constructor.
      - unfold st0, lx_popped. cbn [lx_lex lx_heap]. apply hp_pop_heap; [exact lz_m_lt|exact lz_m_ge|exact X1].
      - intros x h Hxin Hh. rewrite !Hdl0. apply Hh0 in Hh. apply in_app_iff in Hxin as [Hxin|[<-|[]]]; auto.
      - intros x p Hxin Hw. rewrite Hdl0. apply in_app_iff in Hxin as [Hxin|[<-|[]]]; [auto|].
        (* the popped vertex: first-exit-edge argument *)
        assert (Hds : dl st s = 0%Z) by (unfold dl; rewrite Sl; reflexivity).
        destruct (in_dec Nat.eq_dec s D) as [HsD|HsD].
        + destruct (lz_exit st D Hinv Hx s p u Hw HsD HuD) as [y [Hvy [HyD Hdy]]].
          assert (Hyh : In y (lx_heap st)).
          { specialize (Vs y Hvy). apply in_app_iff in Vs as [H|H]; [contradiction|exact H]. }
          specialize (Hmin y Hyh). lia.
        + assert (Hsh : In s (lx_heap st)).
          { specialize (Vs s (or_introl eq_refl)). apply in_app_iff in Vs as [H|H]; [contradiction|exact H]. }
          specialize (Hmin s Hsh). pose proof (lz_sum_nonneg g wts s p u Hpos Hw). lia.
      - intros x e w Hxin Hxu Hj. apply in_app_iff in Hxin as [Hxin|[<-|[]]]; [|contradiction].
        rewrite !Hdl0. destruct (X4 x e w Hxin Hj) as [H1 H2]. split; auto.
      - intros e w [].
      - intros v. rewrite Hdl0. apply X5.
      - intros x Hxin. rewrite !Hdl0. apply in_app_iff in Hxin as [Hxin|[<-|[]]]; [|lia].
        apply X2; auto. rewrite Hr. left; reflexivity. }
    destruct (lz_fold_ok u (zkey (lx_lex st) u) (D ++ [u]) (out_edges g u) [] st0) as [st' [Hf [Hin' Hy']]]; auto.
    { intros e w Hew. apply gl_out_edges_joins. exact Hew. }
    exists st'. split; [exact Hf|]. destruct Hin' as [Hinv' _]. split; [exact Hinv'|].
    destruct Hy' as [Y1 Y2 Y3 Y4 Y5 Y6 Y7]. cbn [app] in Y5.
    constructor; auto.
    intros x e w Hxin Hj. destruct (Nat.eq_dec x u) as [->|Hxu].
    - apply Y5. apply gl_out_edges_joins. exact Hj.
    - apply Y4; auto.
  Qed.

  Lemma lz_init_ext : s < nv g -> lz_ext (lx_init Z 0%Z Z.ltb g s) [].
  Proof.
    intros Hs. constructor.
    - intros j Hj. cbn in Hj. lia.
    - intros x h [].
    - intros x p [].
    - intros x e w [].
    - intros v. unfold dl, lx_init. cbn [lx_lex]. unfold lx_key.
      destruct (Nat.eq_dec s v) as [->|Hne].
      + rewrite hp_nth_set_nth_eq by (rewrite lx_const_length; exact Hs). cbn [l_dist]. lia.
      + rewrite hp_nth_set_nth_neq by exact Hne.
        rewrite lx_nth_const_default. cbn [l_dist lx_default]. lia.
  Qed.

  (* lex_dijkstra succeeds, and its final state has exact distances and has reached everything reachable *)
  Theorem lz_dijkstra_ok : s < nv g ->
    exists st D, lex_dijkstra Z 0%Z Z.add Z.ltb g wts s = LxOk st /\ zinv st D /\ lx_heap st = [] /\
      (forall x p, In x D -> walk g s p x -> (dl st x <= lz_sum wts p)%Z) /\
      (forall v, connected g s v -> In v D).
  Proof.
    intros Hs. unfold lex_dijkstra. destruct (Nat.ltb_spec s (nv g)) as [_|H]; [|lia]. cbn [negb].
    pose proof (lx_loop_rule Z 0%Z Z.add Z.ltb g wts s (fun st D => zinv st D /\ lz_ext st D)) as Hrule.
    specialize (Hrule (fun st D H => lx_inv_bound Z 0%Z Z.add g wts s st D (proj1 H))).
    assert (Hstep : forall st D u st', zinv st D /\ lz_ext st D -> heap_top (lx_heap st) = Some u ->
              zstep st u = LxOk st' -> zinv st' (D ++ [u]) /\ lz_ext st' (D ++ [u])).
    { intros st D u st' [H1 H2] Ht Hst. destruct (lz_step_ok st D u H1 H2 Ht) as [st2 [E [H3 H4]]].
      rewrite E in Hst. injection Hst as <-. auto. }
    specialize (Hrule Hstep (S (nv g)) (lx_init Z 0%Z Z.ltb g s) []
                      (conj (lx_init_inv Z 0%Z Z.add Z.ltb g wts s Hs) (lz_init_ext Hs))).
    cbn [length] in Hrule. specialize (Hrule ltac:(lia)).
    destruct (lx_loop Z 0%Z Z.add Z.ltb (S (nv g)) g wts s (lx_init Z 0%Z Z.ltb g s)) as [st| | | |] eqn:E.
    - destruct Hrule as [D [[Hinv Hx] Hh]]. exists st, D. split; [reflexivity|]. split; [exact Hinv|]. split; [exact Hh|].
      destruct Hx as [X1 X2 X3 X4 X5]. split; [exact X3|].
      intros v [p Hp]. pose proof Hinv as [L1 L2 L3 Ss Sp Sl Nd Rg Vs Pr].
      assert (HsD : In s D).
      { specialize (Vs s (or_introl eq_refl)). rewrite Hh, app_nil_r in Vs. exact Vs. }
      apply (gl_closed_walk g (fun v => In v D)) with (x := s) (p := p); auto.
      intros x e w Hx Hj. destruct (X4 x e w Hx Hj) as [Hv _].
      specialize (Vs w Hv). rewrite Hh, app_nil_r in Vs. exact Vs.
    - destruct Hrule.
    - exfalso. destruct Hrule as [st1 [D1 [u [[H1 H2] [Ht Hst]]]]].
      destruct (lz_step_ok st1 D1 u H1 H2 Ht) as [st2 [E2 _]]. rewrite E2 in Hst. discriminate.
    - exfalso. destruct Hrule as [st1 [D1 [u [[H1 H2] [Ht Hst]]]]].
      destruct (lz_step_ok st1 D1 u H1 H2 Ht) as [st2 [E2 _]]. rewrite E2 in Hst. discriminate.
    - exfalso. destruct Hrule as [st1 [D1 [u [[H1 H2] [Ht Hst]]]]].
      destruct (lz_step_ok st1 D1 u H1 H2 Ht) as [st2 [E2 _]]. rewrite E2 in Hst. discriminate.
  Qed.
End Dist.

(* ---- the statements of C12 (vocabulary + final lemmas; Properties_C12.v only restates them) ---------- *)

(* tree walk of the tree t: from the root downwards, every step enters a node through its predecessor edge *)
Definition c12_twalk (g : graph) (t : sp_tree Z) : list (nat * nat) -> nat -> Prop :=
  lx_twalk Z g (st_nodes t) (st_src t).

Record c12_tree_ok (g : graph) (wts : list Z) (s : nat) (t : sp_tree Z) : Prop := {
  c12_src : st_src t = s;
  c12_root : exists nd, sp_node_of Z t s = Some nd /\ sn_pred nd = None /\ sn_weight nd = 0%Z;
  (* nodes only for reachable vertices *)
  c12_reach : forall v, sp_node_of Z t v <> None -> connected g s v;
  (* the predecessor chain of a node is a walk from s of the stored weight; it is the only tree walk to it
     (so the predecessor edges form a tree rooted at s) *)
  c12_chain : forall v nd, sp_node_of Z t v = Some nd ->
              exists p, c12_twalk g t p v /\ walk g s p v /\ sn_weight nd = weight wts (wedges p) /\
                        forall p', c12_twalk g t p' v -> p' = p;
  c12_parent : forall v nd, sp_node_of Z t v = Some nd -> v <> s ->
               exists e u, sn_pred nd = Some e /\ opposite g e v = Some u /\ joins g e u v /\ sp_node_of Z t u <> None;
  (* first labels: the root's child on the tree walk *)
  c12_first_root : sp_first Z t s = s;
  c12_first : forall v, v <> s -> sp_node_of Z t v <> None ->
              exists e q, c12_twalk g t ((e, sp_first Z t v) :: q) v;
  (* children in vertex order *)
  c12_children : forall u nd, sp_node_of Z t u = Some nd ->
                 sn_children nd = filter (fun c => match sp_parent Z g t c with
                                                   | Some u' => Nat.eqb u' u | None => false end)
                                         (seq 0 (nv g))
}.

Lemma lz_tree_ok g wts s t :
  lx_tree_spec Z 0%Z Z.add g wts s t -> c12_tree_ok g wts s t.
Proof.
  intros [T1 T2 T3 T4 T5 T6 T7 T8 T9 T10].
  destruct T4 as [ndr [Hr1 [Hr2 Hr3]]].
  assert (Huniq : forall p v, lx_twalk Z g (st_nodes t) s p v -> forall p', lx_twalk Z g (st_nodes t) s p' v -> p = p').
  { eapply lx_twalk_unique; [exact Hr1|exact Hr2]. }
  constructor; unfold c12_twalk; rewrite ?T1.
  - reflexivity.
  - exists ndr. auto.
  - intros v Hv. destruct (T6 v Hv) as [p Hp]. exists p. eapply lx_twalk_walk; eauto.
  - intros v nd Hv. assert (Hv' : sp_node_of Z t v <> None) by (rewrite Hv; discriminate).
    destruct (T6 v Hv') as [p Hp]. exists p. split; [exact Hp|]. split; [eapply lx_twalk_walk; eauto|].
    split.
    + rewrite (T7 v nd p Hv Hp), lz_wsum_sum, lz_sum_weight. reflexivity.
    + intros p' Hp'. eapply Huniq; eauto.
  - intros v nd Hv Hvs. destruct (T5 v nd Hv Hvs) as [e [u [H1 [H2 H3]]]]. exists e, u.
    repeat split; auto. apply lx_opposite_joins. exact H2.
  - exact T8.
  - exact T9.
  - intros u nd Hu. rewrite (T10 u nd Hu). apply filter_ext. intros c. reflexivity.
Qed.

(* (i) whatever the weights: a tree that comes out is a tree of walks with the stored weights and correct
   first labels; the only possible failure is queue.update on a vertex that left the queue *)
Lemma lz_C12_tree_partial g wts s :
  simple_graph g -> s < nv g ->
  match sptree_Z g wts s with
  | LxOk t => c12_tree_ok g wts s t
  | LxNotInHeap => True
  | _ => False
  end.
Proof.
  intros Hsg Hs. unfold sptree_Z.
  destruct (lex_dijkstra Z 0%Z Z.add Z.ltb g wts s) as [st| | | |] eqn:E.
  - destruct (lx_sptree_ok Z 0%Z Z.add Z.ltb g wts s st E) as [t [Ht [Hspec _]]]. rewrite Ht.
    apply lz_tree_ok. exact Hspec.
  - destruct (lx_dijkstra_errors Z 0%Z Z.add Z.ltb g wts s) as [H _]. contradiction.
  - destruct (lx_dijkstra_errors Z 0%Z Z.add Z.ltb g wts s) as [_ [_ H]]. exfalso. apply H; auto.
  - pose proof (lx_sptree_err Z 0%Z Z.add Z.ltb g wts s) as H. rewrite E in H. rewrite H; [exact I|]. discriminate.
  - destruct (lx_dijkstra_errors Z 0%Z Z.add Z.ltb g wts s) as [_ [H _]]. contradiction.
Qed.

(* (ii) positive weights: the tree exists, has a node exactly for the reachable vertices, and the stored value
   is a lower bound for every walk from s (it is attained by the tree walk: c12_chain) *)
Lemma lz_C12_dist g wts s :
  simple_graph g -> positive_weights g wts -> s < nv g ->
  exists t, sptree_Z g wts s = LxOk t /\ c12_tree_ok g wts s t /\
            (forall v, sp_node_of Z t v <> None <-> connected g s v) /\
            (forall v nd p, sp_node_of Z t v = Some nd -> walk g s p v -> (sn_weight nd <= weight wts (wedges p))%Z).
Proof.
  intros Hsg Hpos Hs.
  destruct (lz_dijkstra_ok g wts s Hsg Hpos Hs) as [st [D [Hrun [Hinv [Hh [Hfin Hreach]]]]]].
  destruct (lx_sptree_ok Z 0%Z Z.add Z.ltb g wts s st Hrun) as [t [Ht [Hspec [Hnode Hw]]]].
  pose proof (lz_tree_ok g wts s t Hspec) as Hok.
  assert (HD : forall v, In v D <-> (v < nv g /\ lx_visited Z s st v)).
  { destruct Hinv as [L1 L2 L3 Ss Sp Sl Nd Rg Vs Pr]. rewrite Hh, app_nil_r in *. intros v. split; [apply Rg|].
    intros [_ H]. apply Vs. exact H. }
  exists t. split; [exact Ht|]. split; [exact Hok|]. split.
  - intros v. split; [apply (c12_reach _ _ _ _ Hok)|]. intros Hc. apply Hnode. apply HD. apply Hreach. exact Hc.
  - intros v nd p Hv Hp. rewrite (Hw v nd Hv). rewrite <- lz_sum_weight. apply Hfin; [|exact Hp].
    apply HD. apply Hnode. rewrite Hv. discriminate.
Qed.

(* all trees, as the cycle builders construct them *)
Lemma lz_C12_all g wts :
  simple_graph g -> positive_weights g wts ->
  exists ts, sptrees_all_Z g wts = LxOk ts /\
             Forall2 (fun s t => sptree_Z g wts s = LxOk t) (seq 0 (nv g)) ts.
Proof.
  intros Hsg Hpos. apply lx_all_ok. intros s Hs. apply in_seq in Hs.
  destruct (lz_C12_dist g wts s Hsg Hpos ltac:(lia)) as [t [Ht _]]. exists t. exact Ht.
Qed.

(* (iii) consistency across sources — STATED HERE, PROVED in LexSPProofsCons5.lc_C12_consistent (Properties_C12.C12_consistent) (covered by the correspondence + the independent
   judge of tools/props/c12.py): the tree walk u -> v uses the edges of the tree walk v -> u in reverse order, and
   every sub-walk of a tree walk is the tree walk between its endpoints *)
Definition C12_consistent_statement : Prop :=
  forall g wts, simple_graph g -> positive_weights g wts ->
  forall u v tu tv p q,
    sptree_Z g wts u = LxOk tu -> sptree_Z g wts v = LxOk tv ->
    c12_twalk g tu p v -> c12_twalk g tv q u ->
    wedges q = rev (wedges p) /\
    forall p1 p2 p3 x y tx, p = p1 ++ p2 ++ p3 -> walk g u p1 x -> walk g x p2 y ->
                            sptree_Z g wts x = LxOk tx -> c12_twalk g tx p2 y.
