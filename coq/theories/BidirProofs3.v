(* BidirProofs3.v — optimality of the bidirectional signed search, part 3: the loop (DESIGN B5).
     binv        invariant of the two alternating frontiers and of `best` at the head of the loop
     bd_iter     one iteration (poll + scan + swap) preserves it and settles one more vertex
     bd_loop     bidir_loop never returns LoopFuel/LoopBroken (fuel 4n+2 suffices); LoopLimit only when even
                 the empty walk is not below the limit; LoopDone with the invariant and the exit condition
     bd_exit     at exit, best <= the length of every source-to-source cover walk below the limit
   No axioms. *)
From Coq Require Import List Arith Bool ZArith Lia Permutation.
From Parmcb Require Import GraphModel GF2Model GF2Proofs GraphSpec GraphLemmas McbSpec ForestModel
     HeapModel HeapSpec HeapProofs SvaModel SvaSpec SignedModel SignedZModel SignedProofs RefProofs1
     BidirSpec BidirProofs1 BidirProofs2.
Import ListNotations.

Local Open Scope Z_scope.

(* ---- counting unsettled vertices ------------------------------------------------------------------ *)

Definition settledb (fr : frontier Z) (v : nat) : bool :=
  has_finite_dist Z fr v && negb (memb v (f_heap Z fr)).

Lemma bd_settledb_iff fr v : settledb fr v = true <-> settled fr v.
Proof.
  unfold settledb, settled, has_entry. rewrite andb_true_iff, negb_true_iff, gl_memb_false. reflexivity.
Qed.

Definition ucount (m : nat) (fr : frontier Z) : nat :=
  length (filter (fun v => negb (settledb fr v)) (seq 0 m)).

Lemma bd_count_lt (f f' : nat -> bool) u : forall l,
  (forall x, In x l -> f' x = true -> f x = true) -> In u l -> f u = true -> f' u = false ->
  (length (filter f' l) < length (filter f l))%nat.
Proof.
  induction l as [|y l IH]; intros Himp Hin Hu Hu'; [destruct Hin|].
  assert (Hle : forall l0, (forall x, In x l0 -> f' x = true -> f x = true) ->
                (length (filter f' l0) <= length (filter f l0))%nat).
  { induction l0 as [|z l0 IH0]; intros Hi; [cbn; lia|]. cbn [filter].
    specialize (IH0 (fun x Hx => Hi x (or_intror Hx))).
    destruct (f' z) eqn:E'; [rewrite (Hi z (or_introl eq_refl) E'); cbn [length]; lia|].
    destruct (f z); cbn [length]; lia. }
  cbn [filter]. destruct Hin as [->|Hin].
  - rewrite Hu, Hu'. cbn [length]. specialize (Hle l (fun x Hx => Himp x (or_intror Hx))). lia.
  - specialize (IH (fun x Hx => Himp x (or_intror Hx)) Hin Hu Hu').
    destruct (f' y) eqn:E'; [rewrite (Himp y (or_introl eq_refl) E'); cbn [length]; lia|].
    destruct (f y); cbn [length]; lia.
Qed.

Section Loop.
  Variable P : sparams Z.
  Local Notation g := (sp_g Z P).
  Local Notation n := (nv (sp_g Z P)).
  Local Notation wts := (sp_wts Z P).
  Hypothesis Hs : simple_graph g.
  Hypothesis Hpw : positive_weights g wts.

  Local Notation finv := (finv P).
  Local Notation KLT := (klt Z Z.ltb).
  Local Notation scan := (scan_edge Z 0 Z.add Z.ltb P).

  (* every edge between a settled vertex of X and a vertex of Y with a final entry has been examined *)
  Definition Epairs (X Y : frontier Z) (best : option (Z * nat)) : Prop :=
    forall u v e du dv, settled X u -> (settled Y v \/ v = f_src Z Y) -> cstep P u e v ->
      fdist X u = Some du -> fdist Y v = Some dv -> blim P (du + wt wts e + dv) ->
      best_le best (du + wt wts e + dv).

  Record binv (a b : nat) (fr other : frontier Z) (best : option (Z * nat)) : Prop := {
    bi_f : finv (fun _ _ => True) a fr;
    bi_o : finv (fun _ _ => True) b other;
    bi_ne : a <> b;
    bi_best : bestok fr other best;
    bi_E1 : Epairs fr other best;
    bi_E2 : Epairs other fr best
  }.

  Lemma bd_bestok_sym fr other best : bestok fr other best -> bestok other fr best.
  Proof.
    intros H bp x E. destruct (H bp x E) as (df & db & E1 & E2 & Hle). exists db, df.
    split; [exact E2|]. split; [exact E1|lia].
  Qed.

  Lemma bd_binv_init a b : (a < 2 * n)%nat -> (b < 2 * n)%nat -> a <> b ->
    binv a b (fr_init Z 0 n a) (fr_init Z 0 n b) None.
  Proof.
    intros Ha Hb Hne.
    assert (Hnoset : forall s u, ~ settled (fr_init Z 0 n s) u).
    { intros s u [He Hn]. apply bd_has_entry_iff in He as [->|[pe E]].
      - apply Hn. cbn [fr_init f_heap f_src]. left; reflexivity.
      - unfold fpredv, fr_init in E. cbn [f_pred] in E. rewrite sg_nth_map_none in E. discriminate. }
    constructor.
    - apply bd_fr_init_finv; exact Ha.
    - apply bd_fr_init_finv; exact Hb.
    - exact Hne.
    - intros bp x E. discriminate.
    - intros u v e du dv Hu. exfalso. eapply Hnoset; exact Hu.
    - intros u v e du dv Hu. exfalso. eapply Hnoset; exact Hu.
  Qed.

  (* ---- one iteration ---------------------------------------------------------------------------- *)

  Lemma bd_iter a b fr other best su fr1 :
    binv a b fr other best -> fr_poll Z Z.ltb fr = Some (su, fr1) ->
    exists du, fdist fr1 su = Some du
      /\ ((~ blim P du /\ du = 0)
          \/ (blim P du /\ exists fr2 best',
                fold_left (scan other su du) (out_edges g (vertex_of n su)) (Some (fr1, best))
                = Some (fr2, best')
                /\ binv b a other fr2 best'
                /\ (ucount (2 * n) fr2 < ucount (2 * n) fr)%nat)).
  Proof.
    intros H Hpoll.
    destruct (bd_poll_finv P Hpw a fr su fr1 (bi_f _ _ _ _ _ H) Hpoll)
      as (du & Edu & Hf1 & Hinh & Hsu1 & Hset1 & Hmem1 & Ed1 & Ep1 & Es1 & Hmax1 & Hub & Hmin).
    exists du. split; [exact Edu|].
    assert (Hfd1 : forall x, fdist fr1 x = fdist fr x).
    { intros x. unfold fdist, fr_dist. rewrite Ed1. reflexivity. }
    destruct (bd_blim_dec P du) as [Hb|Hnb].
    2:{ left. split; [exact Hnb|]. destruct (Nat.eq_dec su a) as [->|Hne]; [|exfalso; apply Hnb, Hub, Hne].
        pose proof (fi_sdist _ _ _ _ Hf1) as E0. congruence. }
    right. split; [exact Hb|].
    assert (Hoth : forall x, has_entry other x -> exists d, fdist other x = Some d).
    { intros x Hx. destruct (bd_entry_dist P _ b other x (bi_o _ _ _ _ _ H) Hx) as (d & E & _).
      exists d; exact E. }
    assert (Hsi : sinv P a other su du fr1 best [] fr1 best).
    { constructor; try tauto.
      - eapply bd_finv_done_weaken; [|exact Hf1]. intros u e v _ [Hne|[]]. exact Hne.
      - intros bp x E. destruct (bi_best _ _ _ _ _ H bp x E) as (df & db & E1 & E2 & Hle).
        exists df, db. rewrite Hfd1. auto.
      - intros e v dv [].
      - intros x d E. exists d. split; [exact E|lia]. }
    destruct (bd_scan_fold P Hs Hpw a other su du fr1 best Hoth
                (out_edges g (vertex_of n su)) [] fr1 best Hsi)
      as (fr2 & best' & Efold & Hsi2).
    { intros e w Hin. apply gl_out_edges_joins. exact Hin. }
    cbn [app] in Hsi2.
    exists fr2, best'. split; [exact Efold|].
    destruct Hsi2.
    assert (Hf2 : finv (fun _ _ => True) a fr2).
    { eapply bd_finv_done_weaken; [|exact si_finv]. intros u e v Hst _.
      destruct (Nat.eq_dec u su) as [->|Hne]; [right|left; exact Hne].
      apply bd_cstep_out in Hst. apply (in_map fst) in Hst. exact Hst. }
    assert (Hset2 : forall x, settled fr2 x <-> settled fr x \/ x = su).
    { intros x. rewrite si_settled. apply Hset1. }
    assert (Hd2old : forall x, settled fr x -> fdist fr2 x = fdist fr x).
    { intros x Hx. rewrite si_sdist by (apply Hset1; left; exact Hx). apply Hfd1. }
    assert (Hd2su : fdist fr2 su = Some du) by exact si_du.
    assert (Hsrc2 : f_src Z fr2 = a) by (apply (fi_src _ _ _ _ Hf2)).
    assert (Hsrc : f_src Z fr = a) by (apply (fi_src _ _ _ _ (bi_f _ _ _ _ _ H))).
    assert (Hsrco : f_src Z other = b) by (apply (fi_src _ _ _ _ (bi_o _ _ _ _ _ H))).
    assert (Hmap : forall e v, cstep P su e v -> In e (map fst (out_edges g (vertex_of n su)))).
    { intros e v Hst. apply bd_cstep_out in Hst. apply (in_map fst) in Hst. exact Hst. }
    assert (Hdu0 : 0 <= du) by (eapply (bd_entry_nonneg P Hpw); [exact Hf1|exact Edu]).
    split.
    - constructor.
      + exact (bi_o _ _ _ _ _ H).
      + exact Hf2.
      + intros E. apply (bi_ne _ _ _ _ _ H). symmetry. exact E.
      + apply bd_bestok_sym. exact si_bestok.
      + (* pairs (u settled in other, v final in fr2) *)
        intros u v e du' dv Hu Hv Hst Eu Ev Hbl.
        assert (Hdv0 : 0 <= dv) by (eapply (bd_entry_nonneg P Hpw); [exact Hf2|exact Ev]).
        assert (Hdu'0 : 0 <= du') by (eapply (bd_entry_nonneg P Hpw); [exact (bi_o _ _ _ _ _ H)|exact Eu]).
        assert (Hold : (settled fr v \/ v = f_src Z fr) -> fdist fr v = Some dv ->
                       best_le best' (du' + wt wts e + dv)).
        { intros Hv' Ev'. apply si_best_mono. eapply (bi_E2 _ _ _ _ _ H); eassumption. }
        rewrite Hsrc2 in Hv. rewrite Hsrc in Hold.
        destruct Hv as [Hv| ->].
        * apply Hset2 in Hv as [Hv| ->].
          -- apply Hold; [left; exact Hv|]. rewrite <- Hd2old by exact Hv. exact Ev.
          -- assert (dv = du) by congruence. subst dv.
             apply bd_cstep_sym in Hst.
             eapply bd_best_le_mono; [eapply (si_sf e u du' (Hmap e u Hst) Hst)|lia].
             ++ eapply bd_blim_mono; [exact Hbl|lia].
             ++ exact (proj1 Hu).
             ++ exact Eu.
        * apply Hold; [right; reflexivity|].
          pose proof (fi_sdist _ _ _ _ Hf2) as E2. pose proof (fi_sdist _ _ _ _ (bi_f _ _ _ _ _ H)) as E0.
          congruence.
      + (* pairs (u settled in fr2, v final in other) *)
        intros u v e du' dv Hu Hv Hst Eu Ev Hbl.
        assert (Hdv0 : 0 <= dv) by (eapply (bd_entry_nonneg P Hpw); [exact (bi_o _ _ _ _ _ H)|exact Ev]).
        apply Hset2 in Hu as [Hu| ->].
        * apply si_best_mono. rewrite Hd2old in Eu by exact Hu.
          eapply (bi_E1 _ _ _ _ _ H); eassumption.
        * assert (du' = du) by congruence. subst du'.
          eapply (si_sf e v dv (Hmap e v Hst) Hst).
          -- eapply bd_blim_mono; [exact Hbl|lia].
          -- destruct Hv as [Hv| ->]; [exact (proj1 Hv)|].
             apply bd_has_entry_iff. left; reflexivity.
          -- exact Ev.
    - unfold ucount. apply (bd_count_lt _ _ su).
      + intros x _. rewrite !negb_true_iff. intros Hx.
        destruct (settledb fr x) eqn:E; [|reflexivity].
        apply bd_settledb_iff in E. assert (Hx' : settled fr2 x) by (apply Hset2; left; exact E).
        apply bd_settledb_iff in Hx'. congruence.
      + apply in_seq. split; [lia|]. cbn [plus].
        eapply (bd_entry_lt P); [exact (bi_f _ _ _ _ _ H)|].
        apply (fi_heap_entry _ _ _ _ (bi_f _ _ _ _ _ H)). exact Hinh.
      + apply negb_true_iff. destruct (settledb fr su) eqn:E; [|reflexivity].
        apply bd_settledb_iff in E. exfalso. apply (proj2 E). exact Hinh.
      + apply negb_false_iff. apply bd_settledb_iff. apply Hset2. right; reflexivity.
  Qed.

  (* ---- the whole loop ------------------------------------------------------------------------------ *)

  Definition exitc (fr other : frontier Z) (best : option (Z * nat)) : Prop :=
    f_heap Z fr = [] \/ f_heap Z other = []
    \/ exists bp x ta tb, best = Some (bp, x) /\ find_min Z fr = Some ta /\ find_min Z other = Some tb
                          /\ bp <= ta + tb.

  Lemma bd_loop : forall fuel a b fr other best,
    binv a b fr other best -> (ucount (2 * n) fr + ucount (2 * n) other < fuel)%nat ->
    match bidir_loop Z 0 Z.add Z.ltb fuel P fr other best with
    | LoopDone _ fr' other' best' =>
        (binv a b fr' other' best' \/ binv b a fr' other' best') /\ exitc fr' other' best'
    | LoopLimit _ => ~ blim P 0
    | LoopFuel _ | LoopBroken _ => False
    end.
  Proof.
    induction fuel as [|fuel IH]; intros a b fr other best H Hfuel; [lia|].
    cbn [bidir_loop].
    destruct (f_heap Z fr) as [|hx hr] eqn:Ehf.
    { split; [left; exact H|]. left. exact Ehf. }
    destruct (f_heap Z other) as [|ox or] eqn:Eho.
    { split; [left; exact H|]. right; left. exact Eho. }
    match goal with |- context [if ?c then _ else _] => destruct c eqn:Estop end.
    { split; [left; exact H|]. right; right.
      destruct best as [[bp x]|]; [|discriminate].
      destruct (find_min Z fr) as [ta|]; [|discriminate].
      destruct (find_min Z other) as [tb|]; [|discriminate].
      exists bp, x, ta, tb. repeat split; try reflexivity.
      apply negb_true_iff, Z.ltb_ge in Estop. exact Estop. }
    destruct (fr_poll Z Z.ltb fr) as [[su fr1]|] eqn:Epoll.
    2:{ unfold fr_poll in Epoll. rewrite Ehf in Epoll. discriminate. }
    destruct (bd_iter a b fr other best su fr1 H Epoll) as (du & Edu & Hcase).
    change (fr_dist Z fr1 su) with (fdist fr1 su). rewrite Edu.
    destruct Hcase as [[Hnb ->]|(Hb & fr2 & best' & Efold & H2 & Hcnt)].
    - unfold blim in Hnb. destruct (below_limit Z Z.ltb P 0) eqn:E; [exfalso; apply Hnb; reflexivity|].
      cbn [negb]. unfold blim. rewrite E. discriminate.
    - unfold blim in Hb. rewrite Hb. cbn [negb]. rewrite Efold.
      specialize (IH b a other fr2 best' H2 ltac:(lia)).
      destruct (bidir_loop Z 0 Z.add Z.ltb fuel P other fr2 best'); try exact IH.
      destruct IH as [IH Hex]. split; [tauto|exact Hex].
  Qed.

  (* ---- the exit condition ------------------------------------------------------------------------ *)

  (* lower bound against the top of the heap *)
  Lemma bd_lb_top s fr p x : finv (fun _ _ => True) s fr -> cwalk P s p x -> blim P (clen P p) ->
    (settled fr x /\ exists d, fdist fr x = Some d /\ d <= clen P p)
    \/ (exists ta, find_min Z fr = Some ta /\ ta <= clen P p).
  Proof.
    intros H Hw Hb.
    destruct (bd_lower_bound P Hpw s fr H p x Hw) as [Hl|[(v & dv & Hv & Ev & Hle)|Hnb]];
      [left; exact Hl| |contradiction].
    right. unfold find_min.
    destruct (heap_top (f_heap Z fr)) as [u|] eqn:Etop.
    - pose proof (fi_heap _ _ _ _ H) as Hok.
      destruct (heap_top_min _ _ _ _ _ klt_strict_weak_order Hok Etop) as [Hin Hmin].
      destruct (bd_entry_dist P _ s fr u H (fi_heap_entry _ _ _ _ H u Hin)) as (du & Edu & _).
      change (fr_dist Z fr u) with (fdist fr u). exists du. split; [exact Edu|].
      specialize (Hmin v Hv). unfold fkey in Hmin. unfold fdist, fr_dist in Ev, Edu.
      rewrite Ev, Edu, bd_klt_some in Hmin. apply Z.ltb_ge in Hmin. lia.
    - exfalso. unfold heap_top in Etop. destruct (f_heap Z fr); [destruct Hv|discriminate].
  Qed.

  Lemma bd_find_min_nil fr : f_heap Z fr = [] -> find_min Z fr = None.
  Proof. intros E. unfold find_min. rewrite E. reflexivity. Qed.

  Lemma bd_exit a b fr other best : binv a b fr other best -> exitc fr other best ->
    forall p, cwalk P a p b -> blim P (clen P p) -> best_le best (clen P p).
  Proof.
    intros H Hex.
    pose proof (bi_f _ _ _ _ _ H) as Hf. pose proof (bi_o _ _ _ _ _ H) as Ho.
    pose proof (fi_src _ _ _ _ Hf) as Hsrcf. pose proof (fi_src _ _ _ _ Ho) as Hsrco.
    (* the two tops are reached: use the exit condition *)
    assert (Htops : forall ta tb z, find_min Z fr = Some ta -> find_min Z other = Some tb ->
                      ta + tb <= z -> best_le best z).
    { intros ta tb z Ea Eb Hz. destruct Hex as [E|[E|(bp & x & ta' & tb' & Eb' & Ea' & Eb'' & Hle)]].
      - rewrite (bd_find_min_nil _ E) in Ea. discriminate.
      - rewrite (bd_find_min_nil _ E) in Eb. discriminate.
      - exists bp, x. split; [exact Eb'|]. assert (ta' = ta) by congruence. assert (tb' = tb) by congruence.
        lia. }
    (* the target is settled in fr *)
    assert (HendF : forall d z, settled fr b -> fdist fr b = Some d -> d <= z -> blim P z -> best_le best z).
    { intros d z Hb Ed Hz Hbl.
      assert (Hpe : exists pe, fpredv fr b = Some pe).
      { destruct (proj1 (bd_has_entry_iff fr b) (proj1 Hb)) as [E|Hpe]; [|exact Hpe].
        exfalso. apply (bi_ne _ _ _ _ _ H). rewrite <- Hsrcf. symmetry. exact E. }
      destruct Hpe as ([p0 e0] & Epe).
      destruct (fi_pred _ _ _ _ Hf b p0 e0 Epe) as (_ & Hst & Hp0 & dp & Edp & Edb & _).
      assert (d = dp + wt wts e0) by congruence. subst d.
      eapply bd_best_le_mono; [eapply (bi_E1 _ _ _ _ _ H p0 b e0 dp 0 Hp0)|].
      - right. symmetry. exact Hsrco.
      - exact Hst.
      - exact Edp.
      - exact (fi_sdist _ _ _ _ Ho).
      - eapply bd_blim_mono; [exact Hbl|lia].
      - lia. }
    assert (HendB : forall d z, settled other a -> fdist other a = Some d -> d <= z -> blim P z -> best_le best z).
    { intros d z Ha Ed Hz Hbl.
      assert (Hpe : exists pe, fpredv other a = Some pe).
      { destruct (proj1 (bd_has_entry_iff other a) (proj1 Ha)) as [E|Hpe]; [|exact Hpe].
        exfalso. apply (bi_ne _ _ _ _ _ H). rewrite <- Hsrco. exact E. }
      destruct Hpe as ([p0 e0] & Epe).
      destruct (fi_pred _ _ _ _ Ho a p0 e0 Epe) as (_ & Hst & Hp0 & dp & Edp & Eda & _).
      assert (d = dp + wt wts e0) by congruence. subst d.
      eapply bd_best_le_mono; [eapply (bi_E2 _ _ _ _ _ H p0 a e0 dp 0 Hp0)|].
      - right. symmetry. exact Hsrcf.
      - exact Hst.
      - exact Edp.
      - exact (fi_sdist _ _ _ _ Hf).
      - eapply bd_blim_mono; [exact Hbl|lia].
      - lia. }
    (* walking along the path while the vertices are settled in fr *)
    assert (Hmain : forall p2 x, cwalk P x p2 b -> forall p1, cwalk P a p1 x ->
              blim P (clen P p1 + clen P p2) ->
              (settled fr x /\ exists d, fdist fr x = Some d /\ d <= clen P p1) ->
              best_le best (clen P p1 + clen P p2)).
    { intros p2 x Hw2. induction Hw2 as [x Hxlt|x e y p2 z Hst Hw2 IH]; intros p1 Hw1 Hbl [Hx (d & Ed & Hd)].
      - rewrite bd_clen_nil in *. eapply HendF; [exact Hx|exact Ed|lia|exact Hbl].
      - rewrite bd_clen_cons in *.
        assert (Hw1' : cwalk P a (p1 ++ [(e, y)]) y) by (eapply bd_cwalk_snoc; eassumption).
        assert (El1 : clen P (p1 ++ [(e, y)]) = clen P p1 + wt wts e).
        { rewrite bd_clen_app, bd_clen_cons, bd_clen_nil. lia. }
        pose proof (bd_clen_nonneg P p2 Hpw) as Hp2.
        pose proof (bd_clen_nonneg P p1 Hpw) as Hp1.
        destruct (bd_lb_top a fr _ y Hf Hw1') as [Hy|(ta & Eta & Hta)].
        { eapply bd_blim_mono; [exact Hbl|lia]. }
        + replace (clen P p1 + (wt wts e + clen P p2)) with (clen P (p1 ++ [(e, y)]) + clen P p2) by lia.
          apply (IH H Ho Hsrco HendF); [exact Hw1'| |].
          * eapply bd_blim_mono; [exact Hbl|lia].
          * exact Hy.
        + destruct (bd_cwalk_rev_len P y p2 z Hw2) as (q & Hq & Elq & _).
          destruct (bd_lb_top z other q y Ho Hq) as [[Hy (dy & Edy & Hdy)]|(tb & Etb & Htb)].
          { eapply bd_blim_mono; [exact Hbl|]. pose proof (bd_cstep_wt_pos P Hpw _ _ _ Hst). lia. }
          * eapply bd_best_le_mono; [eapply (bi_E1 _ _ _ _ _ H x y e d dy Hx (or_introl Hy) Hst Ed Edy)|lia].
            eapply bd_blim_mono; [exact Hbl|lia].
          * eapply Htops; [exact Eta|exact Etb|lia]. }
    intros p Hw Hbl.
    pose proof (bd_clen_nonneg P p Hpw) as Hp0.
    destruct (bd_lb_top a fr [] a Hf) as [Ha|(ta & Eta & Hta)].
    { constructor. exact (fi_slt _ _ _ _ Hf). }
    { rewrite bd_clen_nil. eapply bd_blim_mono; [exact Hbl|lia]. }
    - specialize (Hmain p a Hw [] (cwalk_nil P a (fi_slt _ _ _ _ Hf))).
      rewrite bd_clen_nil in Hmain. apply Hmain; [exact Hbl|exact Ha].
    - rewrite bd_clen_nil in Hta.
      destruct (bd_cwalk_rev_len P a p b Hw) as (q & Hq & Elq & _).
      destruct (bd_lb_top b other q a Ho Hq) as [[Ha (da & Eda & Hda)]|(tb & Etb & Htb)].
      { rewrite Elq. exact Hbl. }
      + eapply HendB; [exact Ha|exact Eda|lia|exact Hbl].
      + eapply Htops; [exact Eta|exact Etb|lia].
  Qed.

End Loop.
