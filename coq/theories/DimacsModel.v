(* DimacsModel.v — executable model of include/parmcb/util.hpp:
     read_dimacs_from_file (lines 110-148), has_loops, has_multiple_edges, has_non_positive_weights (31-75),
   plus the abstract syntax of DIMACS texts ("layouts"), their rendering to bytes and the graph they denote.
   Definitions only; the proofs are in DimacsProofs.v.

   Bytes are Z (0..255; 0 = NUL, 10 = '\n').  All numbers are Z, weights are reduced rationals (Q, [Qred]):
   the model keeps the exact decimal value of a "%lf" literal; the decimal -> binary64 rounding of strtod is
   outside the model (the correspondence check rounds the model's rational correctly and compares).

   What is modelled of the C library (platform: LP64, glibc):
     fgets(buffer, 1024, fp)   at most 1023 bytes, stops after '\n'; NULL iff nothing was read.
     strlen                    the buffer is a C string: everything from the first NUL byte on is invisible.
     sscanf                    only the directives used: literal 'p', white space, %c, %s, %lu, %d, %lf.
                               %d / %lu: optional white space, optional sign, decimal digits; a value that does not
                               fit the type is undefined behaviour in ISO C (7.21.6.2p10) => explicit [CUndef].
                               %lf: decimal literals  [sign] digits [. digits] [(e|E) [sign] digits]  (at least one
                               mantissa digit).  Hexadecimal floats, "inf", "nan" and a dangling exponent ("1e",
                               "1e+": ISO C says matching failure, glibc converts the mantissa) are outside the
                               model => explicit [CUnsup].
   Explicit non-values (no silent totalisation):
     RThrow    std::system_error("Vertex not found")
     RUndef    the C++ has undefined behaviour on this input: buffer[-1] = 0 for a line starting with NUL (original
               code only), an uninitialised nnodes / rs / rt is read, or a number does not fit its type
     RNonterm  `for (i = 1; i <= nnodes; i++)` with nnodes = 2^64-1 never terminates
     RUnsup    a %lf literal outside the modelled grammar
     RFuel     the model's loop fuel ran out (proved impossible: DimacsProofs.read_no_fuel)
   The Graph template parameter is fixed to the demo programs' type
   adjacency_list<vecS, vecS, undirectedS, no_property, property<edge_weight_t,double>>: vertex descriptors are
   0,1,2,... in creation order, boost::vertex(i, g) = i, boost::edges(g) enumerates in insertion order, and
   out_edges(v, g) lists the incident edges in insertion order with a self-loop listed twice. *)
From Coq Require Export ZArith List Bool QArith Qreduction.
Export ListNotations.
Local Open Scope Z_scope.

Definition byte := Z.

(* ==================================================================================== *)
(* C library                                                                            *)

Definition BUFFER_SIZE : nat := 1024.

(* fgets(buffer, room+1, fp) on the remaining stream s: (bytes stored, remaining stream) *)
Fixpoint fgets (room : nat) (s : list byte) : list byte * list byte :=
  match room with
  | O => ([], s)
  | S room' =>
      match s with
      | [] => ([], [])
      | c :: s' => if c =? 10 then ([c], s')
                   else let (a, r) := fgets room' s' in (c :: a, r)
      end
  end.

(* the buffer seen as a C string *)
Fixpoint cstr (b : list byte) : list byte :=
  match b with
  | [] => []
  | c :: t => if c =? 0 then [] else c :: cstr t
  end.

(* original source:  buffer[strlen(buffer) - 1] = '\0';   None = write to buffer[-1] *)
Definition strip_orig (b : list byte) : option (list byte) :=
  match b with
  | [] => None
  | _ => Some (removelast b)
  end.

(* repaired source:  if (len > 0 && buffer[len - 1] == '\n') buffer[len - 1] = '\0'; *)
Fixpoint strip_nl (b : list byte) : list byte :=
  match b with
  | [] => []
  | c :: t => match t with
              | [] => if c =? 10 then [] else [c]
              | _ => c :: strip_nl t
              end
  end.
Definition strip_fixed (b : list byte) : option (list byte) := Some (strip_nl b).

(* isspace / isdigit in the "C" locale *)
Definition is_space (c : byte) : bool := (c =? 32) || ((9 <=? c) && (c <=? 13)).
Definition is_digit (c : byte) : bool := (48 <=? c) && (c <=? 57).

Fixpoint skip_ws (s : list byte) : list byte :=
  match s with
  | c :: t => if is_space c then skip_ws t else s
  | [] => []
  end.

Fixpoint span_digits (s : list byte) : list byte * list byte :=
  match s with
  | c :: t => if is_digit c then let (d, r) := span_digits t in (c :: d, r) else ([], s)
  | [] => ([], [])
  end.

Fixpoint span_nonspace (s : list byte) : list byte * list byte :=
  match s with
  | c :: t => if is_space c then ([], s) else let (d, r) := span_nonspace t in (c :: d, r)
  | [] => ([], [])
  end.

(* positional value of a string of decimal digits *)
Definition digits_value (ds : list byte) : Z := fold_left (fun a c => 10 * a + (c - 48)) ds 0.

(* optional sign: (is '-', rest) *)
Definition scan_sign (s : list byte) : bool * list byte :=
  match s with
  | c :: t => if c =? 45 then (true, t) else if c =? 43 then (false, t) else (false, s)
  | [] => (false, [])
  end.

(* result of one conversion directive *)
Inductive conv (A : Type) : Type :=
| CVal (v : A) (rest : list byte)   (* converted and assigned; rest = unread input *)
| CFail                             (* matching/input failure: sscanf returns, later arguments untouched *)
| CUndef                            (* undefined behaviour (value not representable) *)
| CUnsup.                           (* outside the modelled grammar *)
Arguments CVal {A} v rest.
Arguments CFail {A}.
Arguments CUndef {A}.
Arguments CUnsup {A}.

(* "%d" *)
Definition scan_int (s : list byte) : conv Z :=
  let (neg, s1) := scan_sign (skip_ws s) in
  let (ds, r) := span_digits s1 in
  match ds with
  | [] => CFail
  | _ => let v := if neg then - digits_value ds else digits_value ds in
         if (- 2 ^ 31 <=? v) && (v <=? 2 ^ 31 - 1) then CVal v r else CUndef
  end.

(* "%lu" (strtoul: a '-' negates in unsigned long) *)
Definition scan_ulong (s : list byte) : conv Z :=
  let (neg, s1) := scan_sign (skip_ws s) in
  let (ds, r) := span_digits s1 in
  match ds with
  | [] => CFail
  | _ => let m := digits_value ds in
         if m <=? 2 ^ 64 - 1 then CVal (if neg then (2 ^ 64 - m) mod 2 ^ 64 else m) r else CUndef
  end.

(* "%s" *)
Definition scan_str (s : list byte) : conv (list byte) :=
  let (tok, r) := span_nonspace (skip_ws s) in
  match tok with
  | [] => CFail
  | _ => CVal tok r
  end.

(* exact value  (+/-) mant * 10^scale  as a reduced rational *)
Definition dec_value (neg : bool) (mant scale : Z) : Q :=
  let m := if neg then - mant else mant in
  Qred (if 0 <=? scale then (m * 10 ^ scale) # 1 else m # Z.to_pos (10 ^ (- scale))).

Definition starts_unsupported (s : list byte) : bool :=
  match s with
  | c :: t =>
      (c =? 105) || (c =? 73) || (c =? 110) || (c =? 78) ||                       (* i I n N : inf / nan *)
      ((c =? 48) && match t with x :: _ => (x =? 120) || (x =? 88) | [] => false end)   (* 0x 0X : hex float *)
  | [] => false
  end.

(* "%lf" *)
Definition scan_float (s : list byte) : conv Q :=
  let (neg, s1) := scan_sign (skip_ws s) in
  if starts_unsupported s1 then CUnsup else
  let (ip, s2) := span_digits s1 in
  let (fp, s3) := match s2 with
                  | c :: t => if c =? 46 then span_digits t else ([], s2)
                  | [] => ([], [])
                  end in
  match ip ++ fp with
  | [] => CFail
  | _ =>
      let mant := digits_value (ip ++ fp) in
      let fl := Z.of_nat (length fp) in
      match s3 with
      | c :: t =>
          if (c =? 101) || (c =? 69) then
            let (eneg, t1) := scan_sign t in
            let (ed, r) := span_digits t1 in
            match ed with
            | [] => CUnsup
            | _ => let e := if eneg then - digits_value ed else digits_value ed in
                   CVal (dec_value neg mant (e - fl)) r
            end
          else CVal (dec_value neg mant (- fl)) s3
      | [] => CVal (dec_value neg mant (- fl)) []
      end
  end.

(* ==================================================================================== *)
(* read_dimacs_from_file                                                                *)

Definition wedge := (Z * Z * Q)%type.                 (* source, target, weight *)
Definition graph := (Z * list wedge)%type.            (* num_vertices, edges in boost::edges order *)

Record state := mkState {
  st_nv : Z;                      (* num_vertices(graph) *)
  st_vmap : list (Z * Z);         (* vertex_map: key -> descriptor, newest binding first *)
  st_nnodes : option Z;           (* nnodes; None = never assigned *)
  st_edges : list wedge           (* edges of the graph, insertion order *)
}.

Definition init_state : state := mkState 0 [] None [].

Inductive outcome := Next (st : state) | Throw | Undef | Unsup | Nonterm.

Fixpoint vfind (k : Z) (m : list (Z * Z)) : option Z :=
  match m with
  | [] => None
  | (k', d) :: t => if k =? k' then Some d else vfind k t
  end.

(* for (i = 1; i <= nnodes; i++) vertex_map[i] = add_vertex(graph);   cnt iterations from i *)
Fixpoint add_vertices (cnt : nat) (i nv : Z) (vm : list (Z * Z)) : Z * list (Z * Z) :=
  match cnt with
  | O => (nv, vm)
  | S c => add_vertices c (i + 1) (nv + 1) ((i, nv) :: vm)
  end.

(* effect of sscanf(buffer, "p %s %lu %lu", problem, &nnodes, &nedges) on nnodes *)
Inductive upd := Keep | Assign (v : Z) | UB.

Definition scan_problem (b : list byte) : upd :=
  match scan_str (skip_ws (tl b)) with           (* literal 'p' = buffer[0]; ' ' ; %s *)
  | CVal _ r1 =>
      match scan_ulong (skip_ws r1) with         (* ' ' ; %lu -> nnodes *)
      | CVal v r2 =>
          match scan_ulong (skip_ws r2) with     (* ' ' ; %lu -> nedges (never used afterwards) *)
          | CUndef => UB
          | _ => Assign v
          end
      | CFail => Keep
      | _ => UB
      end
  | _ => Keep
  end.

Definition do_problem (st : state) (b : list byte) : outcome :=
  match scan_problem b with
  | UB => Undef
  | u =>
      match (match u with Assign v => Some v | _ => st_nnodes st end) with
      | None => Undef                               (* uninitialised nnodes read by the loop condition *)
      | Some n =>
          if n =? 2 ^ 64 - 1 then Nonterm else
          let (nv, vm) := add_vertices (Z.to_nat n) 1 (st_nv st) (st_vmap st) in
          Next (mkState nv vm (Some n) (st_edges st))
      end
  end.

(* sscanf(buffer, "%c %d %d %lf", &fc, &rs, &rt, &rw) with rw = 1 beforehand, then the two lookups and add_edge *)
Definition do_edge (st : state) (b : list byte) : outcome :=
  match scan_int (skip_ws (tl b)) with            (* %c = buffer[0]; ' ' ; %d -> rs *)
  | CVal rs r1 =>
      match scan_int (skip_ws r1) with            (* ' ' ; %d -> rt *)
      | CVal rt r2 =>
          match (match scan_float (skip_ws r2) with      (* ' ' ; %lf -> rw *)
                 | CVal w _ => inl w
                 | CFail => inl 1%Q
                 | CUndef => inr Undef
                 | CUnsup => inr Unsup
                 end) with
          | inr o => o
          | inl rw =>
              match vfind (rs mod 2 ^ 64) (st_vmap st) with      (* int -> std::size_t key *)
              | None => Throw
              | Some sd =>
                  match vfind (rt mod 2 ^ 64) (st_vmap st) with
                  | None => Throw
                  | Some td => Next (mkState (st_nv st) (st_vmap st) (st_nnodes st) (st_edges st ++ [(sd, td, rw)]))
                  end
              end
          end
      | CFail =>                                   (* rt uninitialised: read only if rs is found *)
          match vfind (rs mod 2 ^ 64) (st_vmap st) with
          | None => Throw
          | Some _ => Undef
          end
      | _ => Undef
      end
  | _ => Undef                                     (* rs uninitialised (or not representable) *)
  end.

(* the body of the while loop after the newline has been "eaten": dispatch on buffer[0] *)
Definition process_line (st : state) (b : list byte) : outcome :=
  match b with
  | [] => Next st                                             (* buffer[0] == '\0' *)
  | c :: _ =>
      if (c =? 99) || (c =? 35) then Next st                    (* 'c' '#' *)
      else if c =? 112 then do_problem st b                     (* 'p' *)
      else if (c =? 97) || (c =? 101) then do_edge st b         (* 'a' 'e' *)
      else Next st
  end.

Inductive result := ROk (g : graph) | RThrow | RUndef | RUnsup | RNonterm | RFuel.

Fixpoint read_loop (strip : list byte -> option (list byte)) (fuel : nat) (st : state) (s : list byte) : result :=
  match fuel with
  | O => RFuel
  | S f =>
      match fgets (BUFFER_SIZE - 1) s with
      | ([], _) => ROk (st_nv st, st_edges st)                  (* fgets returned NULL *)
      | (chunk, rest) =>
          match strip (cstr chunk) with
          | None => RUndef
          | Some b =>
              match process_line st b with
              | Next st' => read_loop strip f st' rest
              | Throw => RThrow
              | Undef => RUndef
              | Unsup => RUnsup
              | Nonterm => RNonterm
              end
          end
      end
  end.

Definition read_with (strip : list byte -> option (list byte)) (s : list byte) : result :=
  read_loop strip (S (length s)) init_state s.

Definition read_orig : list byte -> result := read_with strip_orig.    (* the source at the pinned commit *)
Definition read : list byte -> result := read_with strip_fixed.        (* after pending/c10-fix-newline.patch *)

(* ==================================================================================== *)
(* validators                                                                           *)

Definition has_loops (g : graph) : bool :=
  existsb (fun e : wedge => let '(u, v, _) := e in u =? v) (snd g).

Definition has_non_positive_weights (g : graph) : bool :=
  existsb (fun e : wedge => let '(_, _, w) := e in Qle_bool w 0) (snd g).

(* opposite(e, v) over out_edges(v): insertion order, a self-loop contributes two entries *)
Definition incident (v : Z) (es : list wedge) : list Z :=
  flat_map (fun e : wedge => let '(a, b, _) := e in
              (if a =? v then [b] else []) ++ (if b =? v then [a] else [])) es.

Definition zmem (x : Z) (l : list Z) : bool := existsb (fun y => x =? y) l.

(* neighbors.insert(u).second == false somewhere along the list *)
Fixpoint dup_scan (seen : list Z) (l : list Z) : bool :=
  match l with
  | [] => false
  | u :: t => if zmem u seen then true else dup_scan (u :: seen) t
  end.

Definition has_multiple_edges (g : graph) : bool :=
  existsb (fun v => dup_scan [] (incident v (snd g))) (map Z.of_nat (seq 0 (Z.to_nat (fst g)))).

(* ==================================================================================== *)
(* DIMACS texts as abstract syntax ("layout"), their bytes and the graph they describe  *)

Definition render_sign (s : option bool) : list byte :=          (* Some true = '-', Some false = '+' *)
  match s with None => [] | Some true => [45] | Some false => [43] end.
Definition sign_neg (s : option bool) : bool := match s with Some true => true | _ => false end.

(* [sign] digits *)
Record intlit := mkInt { il_sign : option bool; il_digits : list byte }.
Definition render_int (l : intlit) : list byte := render_sign (il_sign l) ++ il_digits l.
Definition int_value (l : intlit) : Z :=
  if sign_neg (il_sign l) then - digits_value (il_digits l) else digits_value (il_digits l).

(* [sign] digits [. digits] [(e|E) [sign] digits] *)
Record wlit := mkW {
  wl_sign : option bool;
  wl_int : list byte;
  wl_frac : option (list byte);                            (* Some [] prints "5." *)
  wl_exp : option (byte * option bool * list byte)         (* exponent letter, sign, digits *)
}.

Definition render_wlit (w : wlit) : list byte :=
  render_sign (wl_sign w) ++ wl_int w
  ++ (match wl_frac w with None => [] | Some f => 46 :: f end)
  ++ (match wl_exp w with None => [] | Some (c, s, ds) => c :: render_sign s ++ ds end).

(* the number a literal denotes, in rational arithmetic:  (+/-) (int + frac / 10^|frac|) * 10^exp *)
Definition wlit_exp (w : wlit) : Z :=
  match wl_exp w with
  | None => 0
  | Some (_, s, ds) => if sign_neg s then - digits_value ds else digits_value ds
  end.
Definition wlit_value (w : wlit) : Q :=
  let ip := inject_Z (digits_value (wl_int w)) in
  let fp := match wl_frac w with
            | None => 0%Q
            | Some f => digits_value f # Z.to_pos (10 ^ Z.of_nat (length f))
            end in
  let mag := ((ip + fp) * Qpower (10 # 1) (wlit_exp w))%Q in
  if sign_neg (wl_sign w) then (- mag)%Q else mag.

(* letter [blanks] u blanks v [blanks w] [blanks] *)
Record edge_lit := mkEdge {
  e_letter : byte; e_sep1 : list byte; e_u : intlit; e_sep2 : list byte; e_v : intlit;
  e_w : option (list byte * wlit); e_trail : list byte
}.
Definition render_edge (e : edge_lit) : list byte :=
  e_letter e :: e_sep1 e ++ render_int (e_u e) ++ e_sep2 e ++ render_int (e_v e)
  ++ (match e_w e with None => [] | Some (sep, w) => sep ++ render_wlit w end) ++ e_trail e.

(* 'p' [blanks] name blanks n [blanks m] [blanks] *)
Record prob_lit := mkProb {
  p_sep1 : list byte; p_name : list byte; p_sep2 : list byte; p_n : intlit;
  p_m : option (list byte * intlit); p_trail : list byte
}.
Definition render_prob (p : prob_lit) : list byte :=
  112 :: p_sep1 p ++ p_name p ++ p_sep2 p ++ render_int (p_n p)
  ++ (match p_m p with None => [] | Some (sep, m) => sep ++ render_int m end) ++ p_trail p.

(* a line after the problem line: ignored text (comment, blank, anything not starting with p/a/e) or an edge *)
Inductive line := LSkip (text : list byte) | LEdge (e : edge_lit).
Definition render_line (l : line) : list byte :=
  match l with LSkip t => t | LEdge e => render_edge e end.

Record layout := mkLayout {
  l_pre : list (list byte);       (* ignored lines before the problem line *)
  l_prob : prob_lit;
  l_body : list line;
  l_final_nl : bool               (* does the last line end with '\n'? *)
}.

Definition layout_lines (l : layout) : list (list byte) :=
  l_pre l ++ render_prob (l_prob l) :: map render_line (l_body l).

(* lines separated by '\n' *)
Fixpoint join_lines (ls : list (list byte)) : list byte :=
  match ls with
  | [] => []
  | l :: t => match t with [] => l | _ => l ++ 10 :: join_lines t end
  end.

Definition render (l : layout) : list byte :=
  join_lines (layout_lines l) ++ (if l_final_nl l then [10] else []).

Definition edge_weight (e : edge_lit) : Q :=
  match e_w e with None => 1%Q | Some (_, w) => Qred (wlit_value w) end.

(* the graph the text describes: declared vertex count, one edge per edge line in file order joining the named
   1-based vertices (0-based descriptors), weight 1 when omitted *)
Definition denot (l : layout) : graph :=
  (int_value (p_n (l_prob l)),
   flat_map (fun ln => match ln with
                       | LSkip _ => []
                       | LEdge e => [(int_value (e_u e) - 1, int_value (e_v e) - 1, edge_weight e)]
                       end) (l_body l)).

(* ---- well-formedness of a layout (decidable, executable) ---- *)

Definition is_blank (c : byte) : bool := is_space c && negb (c =? 10).       (* ' ' \t \v \f \r *)
Definition blanks (s : list byte) : bool := forallb is_blank s.
Definition all_digits (s : list byte) : bool := forallb is_digit s.
Definition plain (s : list byte) : bool := forallb (fun c => negb (c =? 10) && negb (c =? 0)) s.  (* no '\n', no NUL *)
Definition nonempty {A} (s : list A) : bool := match s with [] => false | _ => true end.
Definition fits (s : list byte) : bool := (length s <=? 1022)%nat.           (* line + '\n' < BUFFER_SIZE *)

Definition int_ok (l : intlit) : bool := nonempty (il_digits l) && all_digits (il_digits l).

Definition wlit_ok (w : wlit) : bool :=
  all_digits (wl_int w)
  && (match wl_frac w with None => true | Some f => all_digits f end)
  && nonempty (wl_int w ++ match wl_frac w with None => [] | Some f => f end)
  && (match wl_exp w with
      | None => true
      | Some (c, _, ds) => ((c =? 101) || (c =? 69)) && nonempty ds && all_digits ds
      end).

Definition skip_ok (t : list byte) : bool :=
  plain t && fits t
  && match t with [] => true | c :: _ => negb ((c =? 112) || (c =? 97) || (c =? 101)) end.

Definition prob_ok (p : prob_lit) : bool :=
  blanks (p_sep1 p)
  && nonempty (p_name p) && forallb (fun c => negb (is_space c) && negb (c =? 0)) (p_name p)
  && nonempty (p_sep2 p) && blanks (p_sep2 p)
  && int_ok (p_n p) && (0 <=? int_value (p_n p)) && (int_value (p_n p) <=? 2 ^ 64 - 2)
  && (match p_m p with
      | None => true
      | Some (sep, m) => nonempty sep && blanks sep && int_ok m && (Z.abs (int_value m) <=? 2 ^ 64 - 1)
      end)
  && blanks (p_trail p) && fits (render_prob p).

(* format of an edge line, both vertex numbers representable as int *)
Definition edge_fmt (e : edge_lit) : bool :=
  ((e_letter e =? 97) || (e_letter e =? 101))
  && blanks (e_sep1 e)
  && int_ok (e_u e) && (- 2 ^ 31 <=? int_value (e_u e)) && (int_value (e_u e) <=? 2 ^ 31 - 1)
  && nonempty (e_sep2 e) && blanks (e_sep2 e)
  && int_ok (e_v e) && (- 2 ^ 31 <=? int_value (e_v e)) && (int_value (e_v e) <=? 2 ^ 31 - 1)
  && (match e_w e with None => true | Some (sep, w) => nonempty sep && blanks sep && wlit_ok w end)
  && blanks (e_trail e) && fits (render_edge e).

(* both vertices are declared; n = declared vertex count *)
Definition declared (n : Z) (e : edge_lit) : bool :=
  (1 <=? int_value (e_u e)) && (int_value (e_u e) <=? n) && (1 <=? int_value (e_v e)) && (int_value (e_v e) <=? n).

Definition edge_ok (n : Z) (e : edge_lit) : bool := edge_fmt e && declared n e.

Definition line_ok (n : Z) (l : line) : bool :=
  match l with LSkip t => skip_ok t | LEdge e => edge_ok n e end.

Definition layout_ok (l : layout) : bool :=
  forallb skip_ok (l_pre l) && prob_ok (l_prob l) && forallb (line_ok (int_value (p_n (l_prob l)))) (l_body l).

(* ==================================================================================== *)
(* a canonical printer (used to show that every graph with decimal weights has a text)  *)

(* decimal digits of n >= 0, most significant first *)
Fixpoint to_digits_aux (fuel : nat) (n : Z) (acc : list byte) : list byte :=
  match fuel with
  | O => acc
  | S f => let acc' := (48 + n mod 10) :: acc in
           if n / 10 =? 0 then acc' else to_digits_aux f (n / 10) acc'
  end.
Definition to_digits (n : Z) : list byte := to_digits_aux (S (Z.to_nat (Z.log2 n))) n [].

(* a graph whose weights are decimals  m / 10^k *)
Definition dweight := (Z * nat)%type.
Definition dgraph := (Z * list (Z * Z * dweight))%type.
Definition dweight_value (w : dweight) : Q := Qred (fst w # Z.to_pos (10 ^ Z.of_nat (snd w))).
Definition graph_of_dgraph (g : dgraph) : graph :=
  (fst g, map (fun e : Z * Z * dweight => let '(u, v, w) := e in (u, v, dweight_value w)) (snd g)).

(* |m| written with at least k+1 digits, split k digits from the right *)
Definition pad_digits (k : nat) (ds : list byte) : list byte := repeat 48 (S k - length ds) ++ ds.
Definition dweight_lit (w : dweight) : wlit :=
  let (m, k) := w in
  let ds := pad_digits k (to_digits (Z.abs m)) in
  let cut := (length ds - k)%nat in
  mkW (if m <? 0 then Some true else None) (firstn cut ds)
      (match k with O => None | _ => Some (skipn cut ds) end) None.

Definition canonical_edge (e : Z * Z * dweight) : line :=
  let '(u, v, w) := e in
  LEdge (mkEdge 101 [32] (mkInt None (to_digits (u + 1))) [32] (mkInt None (to_digits (v + 1)))
                (if (fst w =? 1) && Nat.eqb (snd w) 0 then None        (* weight 1 is omitted *)
                 else Some ([32], dweight_lit w)) []).

Definition canonical_layout (final_nl : bool) (g : dgraph) : layout :=
  mkLayout [] (mkProb [32] [101; 100; 103; 101] [32] (mkInt None (to_digits (fst g)))
                      (Some ([32], mkInt None (to_digits (Z.of_nat (length (snd g)))))) [])
           (map canonical_edge (snd g)) final_nl.

Definition print_dimacs (final_nl : bool) (g : dgraph) : list byte := render (canonical_layout final_nl g).

(* every rendered line of the canonical text fits the reader's buffer (decidable side condition of the printer) *)
Definition canonical_fits (g : dgraph) : bool :=
  forallb fits (layout_lines (canonical_layout true g)).
