(* GraphModel.v — the graph representation shared by all models.
   A graph is what boost::adjacency_list<vecS, vecS, undirectedS> holds: `nv` vertices 0..nv-1 and a
   list of edges in insertion order.  The edge id is the position in `ge` = position in
   boost::edges(g).  out_edges g u lists the incident edges of u in insertion order as
   (edge id, other endpoint); a self-loop appears twice, as in Boost. Definitions only. *)
From Coq Require Export List Arith Bool.
Export ListNotations.

Record graph := { nv : nat; ge : list (nat * nat) }.

Definition ne (g : graph) : nat := length (ge g).
Definition ends (g : graph) (e : nat) : option (nat * nat) := nth_error (ge g) e.

Fixpoint out_from (u : nat) (es : list (nat * nat)) (i : nat) : list (nat * nat) :=
  match es with
  | [] => []
  | (s, t) :: r =>
      (if Nat.eqb s u then [(i, t)] else []) ++ (if Nat.eqb t u then [(i, s)] else [])
        ++ out_from u r (S i)
  end.
Definition out_edges (g : graph) (u : nat) : list (nat * nat) := out_from u (ge g) 0.

Definition memb (x : nat) (l : list nat) : bool := existsb (Nat.eqb x) l.

(* executable well-formedness: endpoints in range, no self-loops, no parallel edges *)
Definition same_pair (a b : nat * nat) : bool :=
  (Nat.eqb (fst a) (fst b) && Nat.eqb (snd a) (snd b)) || (Nat.eqb (fst a) (snd b) && Nat.eqb (snd a) (fst b)).
Fixpoint no_parallel (es : list (nat * nat)) : bool :=
  match es with
  | [] => true
  | e :: r => negb (existsb (same_pair e) r) && no_parallel r
  end.
Definition simpleb (g : graph) : bool :=
  forallb (fun e => Nat.ltb (fst e) (nv g) && Nat.ltb (snd e) (nv g) && negb (Nat.eqb (fst e) (snd e))) (ge g)
  && no_parallel (ge g).

(* the other endpoint of edge e seen from v (boost::opposite) *)
Definition opposite (g : graph) (e v : nat) : option nat :=
  match ends g e with
  | Some (s, t) => if Nat.eqb s v then Some t else if Nat.eqb t v then Some s else None
  | None => None
  end.

(* generic helpers on association-free arrays represented as lists *)
Fixpoint set_nth {A} (l : list A) (i : nat) (x : A) : list A :=
  match l, i with
  | [], _ => []
  | _ :: r, O => x :: r
  | y :: r, S j => y :: set_nth r j x
  end.
