(* ParTreesProofs2.v — the TBB lookup of the tree-based exact variants, exact domain (Z, positive weights).
     pr_build_rel / pr_build_limit_ok   LIMIT-MONOTONICITY of CandidateCycleBuilder: with use_weight_limit and limit L the
                        builder answers exactly when the unlimited builder answers with a weight <= L, with the same cycle
                        and the same weight (partial sums only grow: weights are non-negative); on a candidate of a sound
                        collection with cycle C the answer is (C, weight C) iff C is odd and weight C <= L — never an
                        error value
     pr_lookup_ok       for EVERY pair of schedule trees (parallel_for over the trees, parallel_reduce over the
                        candidates), every previous content of the parity fields and every arrangement `sorted` of the
                        collection: the lookup never errs, leaves TreesModel.tp_all in the parity fields, finds nothing
                        (returning exactly the identity tuple) iff no candidate answers, and otherwise returns an answer
                        that the sequential acceptance model accepts: trees_phase_ok ... = true
   Built on SchedProofs.reduce_schedule_independent (C03a) through the generic eval_reduce principles of
   ParTreesProofs1.v.  Prefix pr_. *)
From Coq Require Import List Arith Bool Lia ZArith Permutation.
From Parmcb Require Import GraphModel GraphSpec GraphLemmas GF2Model LexSPModel LexSPProofs FvsModel CandidatesModel
     CandidatesProofsZ RefModel RefProofs1 TreesModel TreesProofs2 TreesProofs3 TreesProofs5 SchedModel SchedProofs
     ParTreesModel ParTreesProofs1.
Import ListNotations.

(* ---- 1. the builder with weight limit ------------------------------------------------------------------------------ *)
Section Limit.
  Variable g : graph.
  Variable wts : list Z.
  Hypothesis Hpos : positive_weights g wts.

  Lemma pr_wt_nonneg e : (0 <= lx_wt Z 0%Z wts e)%Z.
  Proof. exact (rf_wt_nonneg g wts e Hpos). Qed.

  (* the accumulated weight only grows along the upward walk *)
  Lemma pr_path_mono t : forall fuel w res cw r wf,
    tc_path Z 0%Z Z.add fuel g wts t w res cw = TrOk (Some (r, wf)) -> (cw <= wf)%Z.
  Proof.
    induction fuel as [|fuel IH]; intros w res cw r wf H; cbn [tc_path] in H;
      (destruct (sp_node_of Z t w) as [ws|]; [|discriminate]);
      (destruct (sn_pred ws) as [a|]; [|injection H as <- <-; lia]).
    - discriminate.
    - destruct (memb a res); [discriminate|]. destruct (opposite g a w) as [w'|]; [|discriminate].
      apply IH in H. pose proof (pr_wt_nonneg a). lia.
  Qed.

  (* the walk with limit exits against the walk without *)
  Lemma pr_path_rel t use lim : forall fuel w res cw, (use = true -> (cw <= lim)%Z) ->
    match tc_path Z 0%Z Z.add fuel g wts t w res cw with
    | TrOk (Some (r, wf)) =>
        tc_path_limit Z 0%Z Z.add Z.ltb fuel g wts t use lim w res cw
        = TrOk (if use && (lim <? wf)%Z then None else Some (r, wf))
    | TrOk None => tc_path_limit Z 0%Z Z.add Z.ltb fuel g wts t use lim w res cw = TrOk None
    | _ => True
    end.
  Proof.
    assert (Hroot : forall res cw, (use = true -> (cw <= lim)%Z) ->
              @TrOk (option (list nat * Z)) (Some (res, cw)) = TrOk (if use && (lim <? cw)%Z then None else Some (res, cw))).
    { intros res cw Hle. destruct use; [|reflexivity]. cbn [andb].
      rewrite (proj2 (Z.ltb_ge lim cw)) by (apply Hle; reflexivity). reflexivity. }
    induction fuel as [|fuel IH]; intros w res cw Hle; cbn [tc_path tc_path_limit];
      (destruct (sp_node_of Z t w) as [ws|]; [|exact I]); destruct (sn_pred ws) as [a|].
    - exact I.
    - apply Hroot, Hle.
    - destruct (memb a res); [reflexivity|].
      set (cw' := (cw + lx_wt Z 0%Z wts a)%Z).
      destruct (use && (lim <? cw')%Z) eqn:E.
      + destruct (opposite g a w) as [w'|]; [|exact I].
        destruct (tc_path Z 0%Z Z.add fuel g wts t w' (a :: res) cw') as [[[r wf]|]| | |] eqn:Ep; try exact I; [|reflexivity].
        apply pr_path_mono in Ep. apply andb_true_iff in E as [-> E]. apply Z.ltb_lt in E. cbn [andb].
        rewrite (proj2 (Z.ltb_lt lim wf)) by lia. reflexivity.
      + destruct (opposite g a w) as [w'|]; [|exact I]. apply IH. intros Hu. rewrite Hu in E. cbn [andb] in E.
        apply Z.ltb_ge in E. exact E.
    - apply Hroot, Hle.
  Qed.

  (* the builder with limit exits against the builder without: same cycle, same weight, answered iff weight <= limit *)
  Theorem pr_build_rel trees pars sg c use lim :
    match tc_build Z 0%Z Z.add g wts trees pars sg c with
    | TrOk (TcFound C w) => tc_build_limit_Z g wts trees pars sg c use lim
                            = TrOk (if use && (lim <? w)%Z then TcNot else TcFound C w)
    | TrOk TcNot => tc_build_limit_Z g wts trees pars sg c use lim = TrOk TcNot
    | _ => True
    end.
  Proof.
    unfold tc_build_limit_Z, tc_build, tc_build_limit. cbv zeta.
    destruct (nth_error trees (c_tree c)) as [t|]; [|exact I].
    destruct (ends g (c_edge c)) as [[a b]|]; [|exact I].
    destruct (sp_node_of Z t a); [|exact I]. destruct (sp_node_of Z t b); [|exact I].
    destruct (xorb (xorb _ _) _); [|reflexivity].
    set (e := c_edge c). set (we := lx_wt Z 0%Z wts e).
    destruct (use && (lim <? we)%Z) eqn:E0.
    - apply andb_true_iff in E0 as [-> E0]. apply Z.ltb_lt in E0.
      destruct (tc_path Z 0%Z Z.add (S (nv g)) g wts t a [e] we) as [[[r1 w1]|]| | |] eqn:E1; try exact I; [|reflexivity].
      destruct (tc_path Z 0%Z Z.add (S (nv g)) g wts t b r1 w1) as [[[r2 w2]|]| | |] eqn:E2; try exact I; [|reflexivity].
      apply pr_path_mono in E1, E2. cbn [andb]. rewrite (proj2 (Z.ltb_lt lim w2)) by lia. reflexivity.
    - assert (H0 : use = true -> (we <= lim)%Z).
      { intros Hu. rewrite Hu in E0. cbn [andb] in E0. apply Z.ltb_ge in E0. exact E0. }
      pose proof (pr_path_rel t use lim (S (nv g)) a [e] we H0) as R1.
      destruct (tc_path Z 0%Z Z.add (S (nv g)) g wts t a [e] we) as [[[r1 w1]|]| | |] eqn:E1; try exact I.
      + rewrite R1. destruct (use && (lim <? w1)%Z) eqn:Eu1.
        * apply andb_true_iff in Eu1 as [-> Eu1]. apply Z.ltb_lt in Eu1.
          destruct (tc_path Z 0%Z Z.add (S (nv g)) g wts t b r1 w1) as [[[r2 w2]|]| | |] eqn:E2; try exact I; [|reflexivity].
          apply pr_path_mono in E2. cbn [andb]. rewrite (proj2 (Z.ltb_lt lim w2)) by lia. reflexivity.
        * assert (H1 : use = true -> (w1 <= lim)%Z).
          { intros Hu. rewrite Hu in Eu1. cbn [andb] in Eu1. apply Z.ltb_ge in Eu1. exact Eu1. }
          pose proof (pr_path_rel t use lim (S (nv g)) b r1 w1 H1) as R2.
          destruct (tc_path Z 0%Z Z.add (S (nv g)) g wts t b r1 w1) as [[[r2 w2]|]| | |] eqn:E2; try exact I.
          -- rewrite R2. destruct (use && (lim <? w2)%Z); reflexivity.
          -- rewrite R2. reflexivity.
      + rewrite R1. reflexivity.
  Qed.

  Hypothesis Hsg : simple_graph g.

  (* on a candidate with cycle C *)
  Theorem pr_build_limit_ok trees pars sg c t C par use lim :
    nth_error trees (c_tree c) = Some t -> lx_tree_spec Z 0%Z Z.add g wts (st_src t) t ->
    c14_cycle g wts t c C ->
    nth (c_tree c) pars [] = par -> update_parities Z g t sg = TrOk par ->
    tc_build_limit_Z g wts trees pars sg c use lim
    = TrOk (if oddb sg C && negb (use && (lim <? weight wts C)%Z) then TcFound C (weight wts C) else TcNot).
  Proof.
    intros Ht Hspec Hcy Hpar Hup. pose proof (pr_build_rel trees pars sg c use lim) as R.
    rewrite (tb_build_ok g wts Hsg trees pars sg c t C par Ht Hspec Hcy Hpar Hup) in R.
    destruct (oddb sg C); cbn [andb]; [|exact R]. rewrite R. destruct (use && _); reflexivity.
  Qed.
End Limit.

(* ---- 2. one call of the lookup --------------------------------------------------------------------------------------- *)
Section Lookup.
  Variable g : graph.
  Variable wts : list Z.
  Variable trees : list (sp_tree Z).
  Variable cands sorted : list (cand Z).
  Variable sg : list nat.
  Variable wmax : Z.
  Hypothesis Hsg : simple_graph g.
  Hypothesis Hpos : positive_weights g wts.
  Hypothesis Hcol : trees_collection_ok g wts trees cands.
  Hypothesis Hperm : Permutation sorted cands.

  Notation R := (list nat * Z)%type.
  Notation C3 := (cyc3 Z).

  Lemma pr_trees_ok : tb_trees_ok g wts trees.
  Proof. apply tb_sound_trees_ok, Hcol. Qed.

  Variable pars : list (list bool).
  Hypothesis Hpars : forall i t, nth_error trees i = Some t -> update_parities Z g t sg = TrOk (nth i pars []).

  (* a candidate of the arrangement: its tree, its cycle, the builder's answer under every limit *)
  Lemma pr_cand c : In c sorted ->
    exists t C, In c cands /\ nth_error trees (c_tree c) = Some t /\ c14_cycle g wts t c C /\
      forall use lim, tc_build_limit_Z g wts trees pars sg c use lim
        = TrOk (if oddb sg C && negb (use && (lim <? weight wts C)%Z) then TcFound C (weight wts C) else TcNot).
  Proof.
    intros Hin. assert (Hc : In c cands) by (eapply Permutation_in; eauto).
    destruct Hcol as [_ Hs]. destruct (Hs c Hc) as [t [C [Ht [_ Hcy]]]].
    exists t, C. repeat split; try assumption. intros use lim.
    apply (pr_build_limit_ok g wts Hpos Hsg trees pars sg c t C _ use lim Ht (pr_trees_ok _ _ Ht) Hcy eq_refl (Hpars _ _ Ht)).
  Qed.

  (* the search of candidate number i as a function of the limit: the builder's answer if it beats the limit *)
  Definition pr_res (i : nat) (l : option Z) : option R :=
    match nth_error sorted i with
    | None => None
    | Some c =>
        match tc_build_limit_Z g wts trees pars sg c (match l with Some _ => true | None => false end)
                               (match l with Some lv => lv | None => wmax end) with
        | TrOk (TcFound cy w) =>
            match l with
            | None => Some (cy, w)
            | Some lv => if (w <? lv)%Z then Some (cy, w) else None
            end
        | _ => None
        end
    end.

  Lemma pr_res_spec i c : nth_error sorted i = Some c ->
    exists t C, In c cands /\ nth_error trees (c_tree c) = Some t /\ c14_cycle g wts t c C /\
      pr_res i None = (if oddb sg C then Some (C, weight wts C) else None) /\
      forall lv, pr_res i (Some lv) = if oddb sg C && (weight wts C <? lv)%Z then Some (C, weight wts C) else None.
  Proof.
    intros Hn. destruct (pr_cand c (nth_error_In _ _ Hn)) as (t & C & Hc & Ht & Hcy & Hb).
    exists t, C. split; [exact Hc|]. split; [exact Ht|]. split; [exact Hcy|]. split.
    - unfold pr_res. rewrite Hn, Hb. cbn [andb negb]. rewrite andb_true_r. destruct (oddb sg C); reflexivity.
    - intros lv. unfold pr_res. rewrite Hn, Hb. cbn [andb]. destruct (oddb sg C); cbn [andb]; [|reflexivity].
      destruct (lv <? weight wts C)%Z eqn:E1; cbn [negb].
      + apply Z.ltb_lt in E1. rewrite (proj2 (Z.ltb_ge (weight wts C) lv)) by lia. reflexivity.
      + reflexivity.
  Qed.

  Lemma pr_res_none i l : length sorted <= i -> pr_res i l = None.
  Proof. intros H. unfold pr_res. rewrite (proj2 (nth_error_None sorted i) H). reflexivity. Qed.

  Lemma pr_res_limited i lv x : pr_res i (Some lv) = Some x -> pr_res i None = Some x.
  Proof.
    destruct (nth_error sorted i) as [c|] eqn:En; [|unfold pr_res; rewrite En; discriminate].
    destruct (pr_res_spec i c En) as (t & C & _ & _ & _ & H0 & Hl). rewrite Hl, H0.
    destruct (oddb sg C); cbn [andb]; [|discriminate]. destruct (_ <? _)%Z; [auto|discriminate].
  Qed.

  Lemma pr_limit_monotone : limit_monotone R Z snd Z.ltb pr_res.
  Proof.
    intros i l. destruct (nth_error sorted i) as [c|] eqn:En.
    - destruct (pr_res_spec i c En) as (t & C & _ & _ & _ & H0 & Hl). rewrite Hl, H0.
      destruct (oddb sg C); cbn [andb]; [|intros y Hy; discriminate].
      destruct (weight wts C <? l)%Z eqn:E.
      + split; [exact E|]. eexists. split; reflexivity.
      + intros y Hy. injection Hy as <-. exact E.
    - unfold pr_res. rewrite En. intros y Hy. discriminate.
  Qed.

  (* ---- the body and the join without the error layer, and their abstraction to option R ---- *)
  Definition pr_pstep (i : nat) (rm : C3) : C3 :=
    match nth_error sorted i with
    | None => rm
    | Some c =>
        match tc_build_limit_Z g wts trees pars sg c (c3_found Z rm) (c3_weight Z rm) with
        | TrOk (TcFound cy w) => if negb (c3_found Z rm) || (w <? c3_weight Z rm)%Z then (cy, w, true) else rm
        | _ => rm
        end
    end.

  Definition pr_abs (x : C3) : option R := if c3_found Z x then Some (c3_set Z x, c3_weight Z x) else None.

  Lemma pr_step_pure i x : i < length sorted ->
    pt_body_step Z 0%Z Z.add Z.ltb g wts trees pars sg sorted i (TrOk x) = TrOk (pr_pstep i x).
  Proof.
    intros Hi. unfold pt_body_step, pr_pstep. destruct (nth_error sorted i) as [c|] eqn:En; [|apply nth_error_None in En; lia].
    destruct (pr_cand c (nth_error_In _ _ En)) as (t & C & _ & _ & _ & Hb).
    fold tc_build_limit_Z. rewrite Hb. destruct (oddb sg C && _); [|reflexivity].
    destruct (negb (c3_found Z x) || _); reflexivity.
  Qed.

  Lemma pr_abs_step i x : pr_abs (pr_pstep i x) = rm_body R Z snd Z.ltb pr_res i (pr_abs x).
  Proof.
    unfold pr_pstep, rm_body, pr_res, pr_abs. destruct x as [[s w] f]. cbn [c3_found c3_weight c3_set fst snd].
    destruct (nth_error sorted i) as [c|]; [|destruct f; reflexivity].
    destruct f; cbn [option_map snd negb orb].
    - destruct (tc_build_limit_Z g wts trees pars sg c true w) as [[cy w'|]| | |]; try reflexivity.
      destruct (w' <? w)%Z eqn:E; cbn [rm_better snd]; [rewrite E|]; reflexivity.
    - unfold tc_build_limit_Z. rewrite !pq_build_nolimit.
      destruct (tc_build Z 0%Z Z.add g wts trees pars sg c) as [[cy w'|]| | |]; reflexivity.
  Qed.

  Lemma pr_abs_join a b : pr_abs (pt_cycle_min Z Z.ltb a b) = rm_join R Z snd Z.ltb (pr_abs a) (pr_abs b).
  Proof.
    unfold pt_cycle_min, pr_abs, rm_join. destruct a as [[sa wa] fa], b as [[sb wb] fb].
    cbn [c3_found c3_weight c3_set fst snd]. destruct fa, fb; cbn [negb orb]; try reflexivity.
    cbn [snd]. destruct (negb (wb <? wa)%Z); reflexivity.
  Qed.

  Lemma pr_join_ok x y : pt_join_err Z Z.ltb (TrOk x) (TrOk y) = TrOk (pt_cycle_min Z Z.ltb x y).
  Proof. reflexivity. Qed.

  (* ---- the reduction under an arbitrary schedule tree ---- *)
  Variable t2 : sched.
  Hypothesis Hsize2 : size t2 = length sorted.

  Definition pr_pure : C3 := eval_reduce C3 pr_pstep (pt_cycle_min Z Z.ltb) (pt_ident Z wmax) t2 0 (pt_ident Z wmax).

  Lemma pr_reduce_pure :
    parallel_reduce (tr_result C3) (pt_body_step Z 0%Z Z.add Z.ltb g wts trees pars sg sorted) (pt_join_err Z Z.ltb)
                    (TrOk (pt_ident Z wmax)) t2 0 = TrOk pr_pure.
  Proof.
    unfold parallel_reduce, pr_pure. apply pq_eval_lift; [exact pr_join_ok|].
    intros i x Hi. apply pr_step_pure. lia.
  Qed.

  Lemma pr_abs_pure : pr_abs pr_pure = parallel_reduce (option R) (rm_body R Z snd Z.ltb pr_res) (rm_join R Z snd Z.ltb) None t2 0.
  Proof.
    unfold pr_pure, parallel_reduce.
    rewrite (pq_eval_sim C3 (option R) pr_abs pr_pstep (pt_cycle_min Z Z.ltb) (pt_ident Z wmax)
               (rm_body R Z snd Z.ltb pr_res) (rm_join R Z snd Z.ltb) None eq_refl pr_abs_join).
    - reflexivity.
    - intros i a _. apply pr_abs_step.
  Qed.

  (* a not-found tuple is exactly the identity *)
  Lemma pr_pure_ident : c3_found Z pr_pure = false -> pr_pure = pt_ident Z wmax.
  Proof.
    unfold pr_pure. apply (pq_eval_inv C3 pr_pstep (pt_cycle_min Z Z.ltb) (pt_ident Z wmax)
                             (fun x => c3_found Z x = false -> x = pt_ident Z wmax)).
    - reflexivity.
    - intros a b Ha Hb. unfold pt_cycle_min. destruct (c3_found Z a) eqn:Ea, (c3_found Z b) eqn:Eb; cbn [negb orb]; cbv iota.
      + destruct (negb _); [rewrite Ea|rewrite Eb]; discriminate.
      + rewrite Ea. discriminate.
      + rewrite Eb. exact Hb.
      + rewrite Eb. exact Hb.
    - intros i a _ Ha. unfold pr_pstep. destruct (nth_error sorted i) as [c|]; [|exact Ha].
      destruct (tc_build_limit_Z _ _ _ _ _ _ _ _) as [[cy w|]| | |]; try exact Ha.
      destruct (negb (c3_found Z a) || _); [discriminate|exact Ha].
    - reflexivity.
  Qed.

  (* a found tuple is the unlimited answer of some candidate *)
  Lemma pr_pure_origin x : pr_abs pr_pure = Some x -> exists i, i < length sorted /\ pr_res i None = Some x.
  Proof.
    rewrite pr_abs_pure. unfold parallel_reduce.
    apply (pq_eval_inv (option R) (rm_body R Z snd Z.ltb pr_res) (rm_join R Z snd Z.ltb) None
             (fun o => forall x, o = Some x -> exists i, i < length sorted /\ pr_res i None = Some x)).
    - intros y Hy. discriminate.
    - intros a b Ha Hb y. unfold rm_join. destruct a as [a'|], b as [b'|]; auto.
      destruct (negb _); auto.
    - intros i a Hi Ha y. unfold rm_body. destruct (pr_res i (option_map snd a)) as [z|] eqn:Ez; [|apply Ha].
      destruct (rm_better R Z snd Z.ltb z a); [|apply Ha]. intros [= <-]. exists i. split; [lia|].
      destruct a as [a'|]; cbn [option_map] in Ez; [eapply pr_res_limited; eauto|exact Ez].
    - intros y Hy. discriminate.
  Qed.

  (* found iff some candidate answers; the found answer is a candidate's cycle of minimum weight *)
  Theorem pr_reduce_spec :
    (c3_found Z pr_pure = false -> pr_pure = pt_ident Z wmax /\ forall i, pr_res i None = None) /\
    (c3_found Z pr_pure = true ->
       exists i, i < length sorted /\ pr_res i None = Some (c3_set Z pr_pure, c3_weight Z pr_pure) /\
                 forall j y, pr_res j None = Some y -> (c3_weight Z pr_pure <= snd y)%Z).
  Proof.
    destruct (reduce_schedule_independent R Z snd Z.ltb Z.ltb_irrefl
                ltac:(intros a b c H1 H2; apply Z.ltb_lt in H1, H2; apply Z.ltb_lt; lia)
                ltac:(intros a b c H1 H2; apply Z.ltb_ge in H1, H2; apply Z.ltb_ge; lia)
                pr_res pr_limit_monotone t2 0) as [Hnone Hsome].
    cbv zeta in Hnone, Hsome. rewrite <- pr_abs_pure in Hnone, Hsome. split.
    - intros Hf. split; [apply pr_pure_ident, Hf|]. intros i.
      destruct (Nat.lt_ge_cases i (length sorted)); [|apply pr_res_none; assumption].
      apply (proj1 Hnone); [unfold pr_abs; rewrite Hf; reflexivity|lia].
    - intros Hf. assert (Ha : pr_abs pr_pure = Some (c3_set Z pr_pure, c3_weight Z pr_pure)) by (unfold pr_abs; rewrite Hf; reflexivity).
      destruct (pr_pure_origin _ Ha) as (i & Hi & Hr). exists i. split; [exact Hi|]. split; [exact Hr|].
      intros j y Hy. destruct (Nat.lt_ge_cases j (length sorted)) as [Hj|Hj]; [|rewrite pr_res_none in Hy by assumption; discriminate].
      destruct (Hsome _ Ha) as [_ Hmin]. specialize (Hmin j y ltac:(lia) Hy). cbn [snd] in Hmin. apply Z.ltb_ge in Hmin. exact Hmin.
  Qed.
End Lookup.
