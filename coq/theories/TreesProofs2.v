(* TreesProofs2.v — CandidateCycleBuilder on the candidates of a collection, exact domain (Z, positive weights):
   for a candidate whose cycle is C (CandidatesProofsZ.c14_cycle: two tree walks meeting only at the root + one non-tree
   edge) the builder's parity test through the tree parities equals the direct parity  oddb sg C  of |C ∩ signed|, the two
   upward walks never meet an edge twice, and the answer is (C, weight C) — never an error value.  Hence the list of
   answers computed per phase (tl_answers) exists and every entry is described by tl_entry_ok.  Prefix tb_. *)
From Coq Require Import List Arith Bool Lia ZArith Permutation.
From Parmcb Require Import GraphModel GraphSpec GraphLemmas GF2Model GF2Proofs HeapModel LexSPModel LexSPProofsHeap
     LexSPProofs LexSPProofsDist FvsModel CandidatesModel CandidatesProofs CandidatesProofsZ RefModel RefProofs1 RefProofs2
     TreesModel TreesProofs1.
Import ListNotations.

Lemma tb_fold_weight wts : forall l cw,
  fold_left (fun acc e => (acc + lx_wt Z 0%Z wts e)%Z) l cw = (cw + weight wts l)%Z.
Proof.
  induction l as [|e l IH]; intros cw; cbn [fold_left]; [unfold weight; cbn; lia|].
  rewrite IH, rf_weight_cons. unfold lx_wt, wt. lia.
Qed.

Lemma tb_list_eqb_refl l : list_eqb l l = true.
Proof. induction l as [|x l IH]; [reflexivity|]. cbn [list_eqb]. rewrite Nat.eqb_refl, IH. reflexivity. Qed.

Lemma tb_list_eqb_eq : forall a b, list_eqb a b = true -> a = b.
Proof.
  induction a as [|x a IH]; intros [|y b] H; cbn [list_eqb] in H; try discriminate; [reflexivity|].
  apply andb_true_iff in H as [H1 H2]. apply Nat.eqb_eq in H1. subst. f_equal. apply IH; exact H2.
Qed.

Lemma tb_NoDup_app_l {A} (a b : list A) : NoDup (a ++ b) -> NoDup a.
Proof.
  induction a as [|x a IH]; intros H; [constructor|]. cbn [app] in H. inversion H as [|? ? Hx Hr]; subst.
  constructor; [intros Hin; apply Hx; apply in_or_app; left; exact Hin|apply IH; exact Hr].
Qed.

Lemma tb_NoDup_app_r {A} (a b : list A) : NoDup (a ++ b) -> NoDup b.
Proof. induction a as [|x a IH]; intros H; [exact H|]. cbn [app] in H. inversion H; subst. auto. Qed.

Section Build.
  Variable g : graph.
  Variable wts : list Z.
  Hypothesis Hsg : simple_graph g.
  Hypothesis Hpos : positive_weights g wts.

  (* the upward walk along a tree walk: collects its edges, adds their weights *)
  Lemma tb_path_ok t s : lx_tree_spec Z 0%Z Z.add g wts s t ->
    forall p v, lx_twalk Z g (st_nodes t) s p v ->
    forall fuel res cw, length p <= fuel -> NoDup (wedges p) -> (forall e, In e (wedges p) -> ~ In e res) ->
      tc_path Z 0%Z Z.add fuel g wts t v res cw = TrOk (Some (wedges p ++ res, (cw + weight wts (wedges p))%Z)).
  Proof.
    intros Hspec. induction 1 as [Hx|p u e v nd Hp IH Hv He Ho]; intros fuel res cw Hf Hnd Hres.
    - destruct (ts_root _ _ _ _ _ _ _ Hspec) as [ndr [Hr1 [Hr2 _]]].
      destruct fuel; cbn [tc_path]; rewrite Hr1, Hr2; cbn [wedges map app]; unfold weight; cbn; f_equal; f_equal; f_equal; lia.
    - rewrite tq_wedges_snoc in *. rewrite app_length in Hf. cbn [length] in Hf.
      destruct fuel as [|fuel]; [lia|]. cbn [tc_path]. unfold sp_node_of. rewrite Hv, He.
      assert (Hm : memb e res = false).
      { apply gl_memb_false. apply Hres. apply in_or_app; right; left; reflexivity. }
      rewrite Hm, Ho.
      assert (Hnd' : NoDup (wedges p) /\ ~ In e (wedges p)).
      { apply NoDup_remove in Hnd. rewrite app_nil_r in Hnd. exact Hnd. }
      rewrite (IH fuel (e :: res)); [|lia|apply Hnd'|].
      + rewrite <- app_assoc. cbn [app]. rewrite rf_weight_app, rf_weight_cons. unfold weight at 3. cbn [map fold_right].
        unfold lx_wt, wt. f_equal. f_equal. f_equal. lia.
      + intros a Ha [<-|Hin]; [apply Hnd'; exact Ha|]. apply (Hres a); [apply in_or_app; left; exact Ha|exact Hin].
  Qed.

  (* the builder on a candidate with cycle C *)
  Theorem tb_build_ok trees pars sg c t C par :
    nth_error trees (c_tree c) = Some t -> lx_tree_spec Z 0%Z Z.add g wts (st_src t) t ->
    c14_cycle g wts t c C ->
    nth (c_tree c) pars [] = par -> update_parities Z g t sg = TrOk par ->
    tc_build Z 0%Z Z.add g wts trees pars sg c
    = TrOk (if oddb sg C then TcFound C (weight wts C) else TcNot).
  Proof.
    intros Ht Hspec [a [b [pa [pb [He [Hpa [Hpb [Hdis [Hsa [Hsb [Hne [HwP [HndE [HndV [HC [Hsc Hcw]]]]]]]]]]]]]]]] Hpar Hup.
    unfold c12_twalk in Hpa, Hpb. set (s := st_src t) in *. set (e := c_edge c) in *.
    set (P := pa ++ (e, b) :: cz_rev s pb) in *.
    pose proof (ts_len _ _ _ _ _ _ _ Hspec) as Hlen.
    pose proof (lx_twalk_walk Z g (st_nodes t) s pa a Hlen Hpa) as Hwa.
    pose proof (lx_twalk_walk Z g (st_nodes t) s pb b Hlen Hpb) as Hwb.
    assert (HedP : wedges P = wedges pa ++ e :: rev (wedges pb)).
    { unfold P, wedges. rewrite map_app. cbn [map fst]. fold (wedges (cz_rev s pb)). rewrite cz_rev_wedges. reflexivity. }
    assert (HvtP : wverts P = wverts pa ++ rev (s :: wverts pb)).
    { unfold P, wverts. rewrite map_app. cbn [map snd]. fold (wverts (cz_rev s pb)) (wverts pb).
      rewrite (cz_rev_wverts g s pb b Hwb). reflexivity. }
    (* parities *)
    destruct (tq_update_parities Z 0%Z Z.add g wts s t Hspec sg) as [par' [Hup' [_ Hpv]]].
    rewrite Hup in Hup'. injection Hup' as <-.
    assert (Hodd : xorb (xorb (nth a par false) (nth b par false)) (memb e sg) = oddb sg C).
    { rewrite (Hpv a pa Hpa), (Hpv b pb Hpb).
      assert (Hperm : Permutation C (wedges P)).
      { apply NoDup_Permutation; [apply gl_sorted_NoDup; apply Hsc|exact HndE|exact HC]. }
      rewrite (rf_oddb_perm sg _ _ Hperm), HedP, rf_oddb_app, rf_oddb_cons.
      rewrite (rf_oddb_perm sg (rev (wedges pb)) (wedges pb)) by (apply Permutation_sym, Permutation_rev).
      destruct (oddb sg (wedges pa)), (oddb sg (wedges pb)), (memb e sg); reflexivity. }
    (* the pieces of NoDup (wedges P) and NoDup (wverts P) *)
    rewrite HedP in HndE.
    assert (Hnda : NoDup (wedges pa)) by (eapply tb_NoDup_app_l; exact HndE).
    assert (Hndeb : NoDup (e :: rev (wedges pb))) by (eapply tb_NoDup_app_r; exact HndE).
    assert (Hndb : NoDup (wedges pb)).
    { inversion Hndeb as [|? ? _ H]; subst. apply NoDup_rev in H. rewrite rev_involutive in H. exact H. }
    assert (Hea : ~ In e (wedges pa)).
    { intros Hin. eapply lx_NoDup_app_disj; [exact HndE|exact Hin|left; reflexivity]. }
    assert (Heb : ~ In e (wedges pb)).
    { inversion Hndeb as [|? ? H _]; subst. intros Hin. apply H. apply -> in_rev. exact Hin. }
    assert (Hab : forall x, In x (wedges pa) -> In x (wedges pb) -> False).
    { intros x H1 H2. eapply lx_NoDup_app_disj; [exact HndE|exact H1|right; apply -> in_rev; exact H2]. }
    rewrite HvtP in HndV.
    assert (Hlena : length pa <= nv g).
    { assert (Hnv : NoDup (wverts pa)) by (eapply tb_NoDup_app_l; exact HndV).
      unfold wverts in Hnv. rewrite <- (map_length snd pa). apply lx_NoDup_bound; [exact Hnv|].
      intros x Hx. exact (rf_walk_verts_lt g Hsg pa s a Hwa x Hx). }
    assert (Hlenb : length pb <= nv g).
    { assert (Hnv : NoDup (rev (s :: wverts pb))) by (eapply tb_NoDup_app_r; exact HndV).
      apply NoDup_rev in Hnv. rewrite rev_involutive in Hnv. inversion Hnv as [|? ? _ Hnv']; subst.
      unfold wverts in Hnv'. rewrite <- (map_length snd pb). apply lx_NoDup_bound; [exact Hnv'|].
      intros x Hx. exact (rf_walk_verts_lt g Hsg pb s b Hwb x Hx). }
    (* run the builder *)
    unfold tc_build. rewrite Ht. fold e. rewrite He.
    pose proof (lx_twalk_end _ _ _ _ _ _ Hpa) as Hna. pose proof (lx_twalk_end _ _ _ _ _ _ Hpb) as Hnb.
    unfold sp_node_of. destruct (nth a (st_nodes t) None) as [nda|] eqn:Ea; [|contradiction].
    destruct (nth b (st_nodes t) None) as [ndb|] eqn:Eb; [|contradiction].
    rewrite Hpar, Hodd. destruct (oddb sg C) eqn:Eo; [|reflexivity].
    rewrite (tb_path_ok t s Hspec pa a Hpa (S (nv g)) [e]); [|lia|exact Hnda|].
    2:{ intros x Hx [<-|[]]. contradiction. }
    rewrite (tb_path_ok t s Hspec pb b Hpb (S (nv g)) (wedges pa ++ [e])); [|lia|exact Hndb|].
    2:{ intros x Hx Hin. apply in_app_iff in Hin as [Hin|[<-|[]]]; [eapply Hab; eauto|contradiction]. }
    f_equal.
    assert (Hperm : Permutation (wedges pb ++ wedges pa ++ [e]) (wedges pa ++ e :: rev (wedges pb))).
    { rewrite Permutation_app_comm. rewrite <- app_assoc. apply Permutation_app_head. cbn [app].
      apply perm_skip. apply Permutation_rev. }
    assert (Hset : set_of_list (wedges pb ++ wedges pa ++ [e]) = C).
    { apply sorted_ext; [apply set_of_list_sorted|apply Hsc|]. intros i. apply eq_true_iff_eq.
      rewrite !mem_In, rf_set_of_list_In, HC, HedP. split; intros H.
      - eapply Permutation_in; [exact Hperm|exact H].
      - eapply Permutation_in; [apply Permutation_sym; exact Hperm|exact H]. }
    rewrite Hset. f_equal.
    assert (HpermC : Permutation C (wedges pa ++ e :: rev (wedges pb))).
    { apply NoDup_Permutation; [apply gl_sorted_NoDup; apply Hsc|exact HndE|]. intros x. rewrite HC, HedP. reflexivity. }
    rewrite (rf_weight_perm wts _ _ HpermC), rf_weight_app, rf_weight_cons.
    rewrite (rf_weight_perm wts (rev (wedges pb)) (wedges pb)) by (apply Permutation_sym, Permutation_rev).
    unfold lx_wt, wt. lia.
  Qed.
End Build.

(* ---- all trees, all candidates ------------------------------------------------------------------------------ *)

(* an entry of the per-phase answer list: the candidate, its cycle C, and the builder's answer *)
Definition tl_entry_ok (g : graph) (wts : list Z) (trees : list (sp_tree Z)) (sg : list nat)
           (x : cand Z * tc_answer Z) : Prop :=
  exists t C, nth_error trees (c_tree (fst x)) = Some t /\ c14_cycle g wts t (fst x) C /\
              snd x = if oddb sg C then TcFound C (weight wts C) else TcNot.

Section Answers.
  Variable g : graph.
  Variable wts : list Z.
  Hypothesis Hsg : simple_graph g.
  Hypothesis Hpos : positive_weights g wts.

  Definition tb_trees_ok (trees : list (sp_tree Z)) : Prop :=
    forall i t, nth_error trees i = Some t -> lx_tree_spec Z 0%Z Z.add g wts (st_src t) t.

  Lemma tb_tp_all_ok sg : forall trees, tb_trees_ok trees ->
    exists pars, tp_all Z g trees sg = TrOk pars /\
                 forall i t, nth_error trees i = Some t -> update_parities Z g t sg = TrOk (nth i pars []).
  Proof.
    induction trees as [|t trees IH]; intros Hok.
    - exists []. split; [reflexivity|]. intros [|i] t H; discriminate.
    - destruct (tq_update_parities Z 0%Z Z.add g wts (st_src t) t (Hok 0 t eq_refl) sg) as [par [Hp _]].
      destruct (IH (fun i t' H => Hok (S i) t' H)) as [pars [Hps Hn]].
      exists (par :: pars). split; [cbn [tp_all]; rewrite Hp, Hps; reflexivity|].
      intros [|i] t' H; cbn [nth_error nth] in *; [injection H as <-; exact Hp|apply Hn; exact H].
  Qed.

  Lemma tb_eval_ok trees pars sg : tb_trees_ok trees ->
    (forall i t, nth_error trees i = Some t -> update_parities Z g t sg = TrOk (nth i pars [])) ->
    forall cs, c14_sound g wts trees cs ->
    exists l, tl_eval Z 0%Z Z.add g wts trees pars sg cs = TrOk l /\ map fst l = cs /\
              Forall (tl_entry_ok g wts trees sg) l.
  Proof.
    intros Hok Hpars. induction cs as [|c cs IH]; intros Hsound.
    - exists []. split; [reflexivity|]. split; [reflexivity|constructor].
    - destruct (Hsound c (or_introl eq_refl)) as [t [C [Ht [_ Hcy]]]].
      destruct (IH (fun c' Hc' => Hsound c' (or_intror Hc'))) as [l [Hl [Hm Hf]]].
      pose proof (tb_build_ok g wts Hsg trees pars sg c t C _ Ht (Hok _ _ Ht) Hcy eq_refl (Hpars _ _ Ht)) as Hb.
      exists ((c, if oddb sg C then TcFound C (weight wts C) else TcNot) :: l).
      split; [cbn [tl_eval]; rewrite Hb, Hl; reflexivity|]. split; [cbn [map fst]; rewrite Hm; reflexivity|].
      constructor; [|exact Hf]. exists t, C. cbn [fst snd]. auto.
  Qed.

  (* the trees of a sound collection satisfy the tree specification *)
  Lemma tb_sound_trees_ok trees : Forall (fun t => sptree_Z g wts (st_src t) = LxOk t) trees -> tb_trees_ok trees.
  Proof.
    intros HF i t Hn. rewrite Forall_forall in HF. apply (lx_sptree_spec Z 0%Z Z.add Z.ltb g wts (st_src t) t).
    apply HF. eapply nth_error_In; eauto.
  Qed.

  Theorem tb_answers_ok trees cands sg :
    Forall (fun t => sptree_Z g wts (st_src t) = LxOk t) trees -> c14_sound g wts trees cands ->
    exists l, tl_answers_Z g wts trees cands sg = TrOk l /\ map fst l = cands /\
              Forall (tl_entry_ok g wts trees sg) l.
  Proof.
    intros HF Hsound. pose proof (tb_sound_trees_ok trees HF) as Hok.
    destruct (tb_tp_all_ok sg trees Hok) as [pars [Hp Hn]].
    destruct (tb_eval_ok trees pars sg Hok Hn cands Hsound) as [l [Hl [Hm Hf]]].
    exists l. unfold tl_answers_Z, tl_answers. rewrite Hp. auto.
  Qed.
End Answers.
