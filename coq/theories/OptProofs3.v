(* OptProofs3.v — lemmas for property C08, part 3:
   (1) every run of the support-vector loop whose per-phase search is a minimum odd-cycle search returns
       THE optimum, so any two such runs (different selection rules, searches, BFS root orders) agree, and a
       relation between optima is a relation between returned values;
   (2) a concrete weighted graph worked out by hand (the triangle) for the non-vacuity examples.
   Names carry the prefix op_.  No axioms. *)
From Coq Require Import List Arith Bool ZArith Lia Sorted.
From Parmcb Require Import GraphModel GF2Model GF2Proofs GraphSpec GraphLemmas GF2Lin McbSpec DePinaSpec DePinaProofs
     ForestModel SvaModel SvaSpec SvaProofs OptSpec OptProofs.
Import ListNotations.

(* ---- (1) runs of the generic loop ------------------------------------------------------------------- *)

Lemma op_run_is_opt g wts total : exact_run g wts total -> is_opt g wts total.
Proof.
  intros (roots & fi & select & search & cycles & sup & Hs & Hpw & Hr & Hci & Hsel & Hmin & Hrun).
  destruct (sva_generic_min_c g wts roots fi select search cycles total sup Hs Hpw Hr Hci Hsel Hmin Hrun)
    as (HB & Ht & _).
  exists cycles. split; [exact HB|symmetry; exact Ht].
Qed.

Lemma op_variants_agree g wts t1 t2 : exact_run g wts t1 -> exact_run g wts t2 -> t1 = t2.
Proof. intros H1 H2. eapply op_opt_unique; apply op_run_is_opt; eassumption. Qed.

(* a relation between optima is a relation between the values returned by exact runs *)
Lemma op_runs_respect_relation (F : Z -> Z) g w g' w' t t' :
  (forall x, is_opt g w x -> is_opt g' w' (F x)) ->
  exact_run g w t -> exact_run g' w' t' -> t' = F t.
Proof.
  intros HF H1 H2. eapply op_opt_unique; [apply op_run_is_opt; exact H2|].
  apply HF, op_run_is_opt, H1.
Qed.

(* ---- (2) the triangle ----------------------------------------------------------------------------------- *)

Definition op_tri : graph := {| nv := 3; ge := [(0, 1); (1, 2); (2, 0)] |}.
Definition op_tri_w : list Z := [3; 4; 5]%Z.

Lemma op_tri_simple : simple_graph op_tri.
Proof. reflexivity. Qed.

Lemma op_tri_positive : positive_weights op_tri op_tri_w.
Proof. split; [reflexivity|]. repeat constructor. Qed.

Lemma op_sorted_012 : sorted [0; 1; 2].
Proof. repeat constructor; lia. Qed.

Lemma op_tri_cycle : simple_cycle op_tri [0; 1; 2].
Proof.
  split; [discriminate|]. split; [exact op_sorted_012|].
  exists 0, [(0, 1); (1, 2); (2, 0)]. split; [|split; [|split]].
  - econstructor; [left; reflexivity|]. econstructor; [left; reflexivity|].
    econstructor; [left; reflexivity|]. constructor. cbn. lia.
  - cbn. repeat constructor; cbn; intuition lia.
  - cbn. repeat constructor; cbn; intuition lia.
  - intros e. reflexivity.
Qed.

(* a canonical vector below n is determined by its membership bits *)
Lemma op_sorted_seq a n : sorted (seq a n).
Proof.
  revert a. induction n as [|n IH]; intros a; [apply sorted_nil|].
  cbn [seq]. apply sorted_cons; [apply IH|].
  rewrite Forall_forall. intros y Hy. apply in_seq in Hy. lia.
Qed.

Lemma op_bounded_filter n Z : sorted Z -> (forall e, In e Z -> e < n) ->
  Z = filter (fun i => mem Z i) (seq 0 n).
Proof.
  intros HS HB. apply sorted_ext; [exact HS|apply filter_sorted, op_sorted_seq|].
  intros i. rewrite mem_filter. destruct (mem Z i) eqn:E; [|rewrite andb_false_r; reflexivity].
  rewrite andb_true_r. symmetry. apply mem_In, in_seq. apply mem_In in E. apply HB in E. lia.
Qed.

(* the cycle space of the triangle has exactly two elements *)
Lemma op_tri_cycle_space Z : in_cycle_space op_tri Z -> Z = [] \/ Z = [0; 1; 2].
Proof.
  intros (HS & HB & HE). rewrite (op_bounded_filter 3 Z HS HB) in *.
  cbn [seq filter] in *.
  destruct (mem Z 0), (mem Z 1), (mem Z 2); auto; exfalso.
  - specialize (HE 0). discriminate.
  - specialize (HE 1). discriminate.
  - specialize (HE 0). discriminate.
  - specialize (HE 0). discriminate.
  - specialize (HE 1). discriminate.
  - specialize (HE 0). discriminate.
Qed.

Lemma op_tri_simple_cycles C : simple_cycle op_tri C -> C = [0; 1; 2].
Proof.
  intros HC. destruct (op_tri_cycle_space C (simple_cycle_in_cycle_space _ _ op_tri_simple HC)) as [->| ->].
  - destruct HC as (Hne & _). congruence.
  - reflexivity.
Qed.

Lemma op_tri_basis : cycle_basis op_tri [[0; 1; 2]].
Proof.
  split; [|split].
  - constructor; [exact op_tri_cycle|constructor].
  - intros m Hl Hc. destruct m as [|b [|? ?]]; try discriminate. destruct b; [discriminate|reflexivity].
  - intros Z HZ. destruct (op_tri_cycle_space Z HZ) as [->| ->].
    + exists [false]. split; reflexivity.
    + exists [true]. split; reflexivity.
Qed.

Lemma op_total_weight_nonneg g w B : positive_weights g w -> (0 <= total_weight w B)%Z.
Proof.
  intros Hp. induction B as [|C B IH]; unfold total_weight in *; cbn [map fold_right]; [lia|].
  pose proof (weight_nonneg g w C Hp). lia.
Qed.

Lemma op_tri_min : min_cycle_basis op_tri op_tri_w [[0; 1; 2]].
Proof.
  split; [exact op_tri_basis|]. intros B' (HB' & _ & Hsp).
  destruct (Hsp [0; 1; 2] (simple_cycle_in_cycle_space _ _ op_tri_simple op_tri_cycle)) as (m & _ & Hm).
  destruct B' as [|C B']; [rewrite comb_nil_r in Hm; discriminate|].
  inversion HB' as [|? ? HC _]; subst. rewrite (op_tri_simple_cycles C HC).
  pose proof (op_total_weight_nonneg op_tri op_tri_w B' op_tri_positive) as Hnn.
  unfold total_weight in *. cbn [map fold_right]. change (weight op_tri_w [0; 1; 2]) with 12%Z. lia.
Qed.

Lemma op_tri_opt : is_opt op_tri op_tri_w 12.
Proof. exists [[0; 1; 2]]. split; [exact op_tri_min|reflexivity]. Qed.

(* an exact run on the triangle: BFS roots 0,1,2; no swap; the (only possible) answer of a minimum search *)
Definition op_tri_search (k : nat) (S : vec) : phase_result Z := PFound [0; 1; 2] 12%Z.

Lemma op_tri_run : exact_run op_tri op_tri_w 12.
Proof.
  destruct (create_index op_tri [0; 1; 2]) as [fi|] eqn:Hci; [|vm_compute in Hci; discriminate].
  exists [0; 1; 2], fi, select_none, op_tri_search.
  assert (Hfi : fi_csd fi = 1 /\ edges_to_indices fi [0; 1; 2] = [0; 1; 2]).
  { vm_compute in Hci. inversion Hci; subst fi. split; reflexivity. }
  destruct Hfi as [Hcsd He2i].
  eexists _, _.
  split; [exact op_tri_simple|]. split; [exact op_tri_positive|]. split.
  { intros v Hv. cbn [op_tri nv] in Hv. do 3 (destruct v as [|v]; [cbn [In]; tauto|]). lia. }
  split; [exact Hci|]. split; [apply select_none_ok|]. split.
  - intros k S c w (HS & Hne & HB) Hf. unfold op_tri_search in Hf. inversion Hf; subst c w. split; [|reflexivity].
    assert (ES : S = [0]).
    { rewrite Hcsd in HB. rewrite (op_bounded_filter 1 S HS HB) in *. cbn [seq filter] in *.
      destruct (mem S 0); [reflexivity|congruence]. }
    subst S. split; [exact op_tri_cycle|]. split.
    + unfold pairing. rewrite He2i. reflexivity.
    + intros D HD _. rewrite (op_tri_simple_cycles D HD). lia.
  - vm_compute in Hci. inversion Hci; subst fi. vm_compute. reflexivity.
Qed.
