(* TbbControlProofs.v — lemmas about TbbControlModel.v (property C20).  Final statements: Properties_C20.v. *)
From Coq Require Import ZArith List Bool Lia Permutation.
From Parmcb Require Import TbbControlModel.
Import ListNotations.
Open Scope Z_scope.

(* ------------------------------------------------------------------------------------------------------------ *)
(* the runtime: `active` is the minimum of the live values                                                      *)
(* ------------------------------------------------------------------------------------------------------------ *)
Lemma fold_min_le : forall (xs : list Z) (x : Z),
  fold_left Z.min xs x <= x /\ (forall y, In y xs -> fold_left Z.min xs x <= y).
Proof.
  induction xs as [|a xs IH]; intros x; cbn [fold_left].
  - split; [lia | intros y []].
  - destruct (IH (Z.min x a)) as [H1 H2]. split; [lia|].
    intros y [Hy|Hy]; [subst y; lia | exact (H2 y Hy)].
Qed.

Lemma fold_min_in : forall (xs : list Z) (x : Z),
  fold_left Z.min xs x = x \/ In (fold_left Z.min xs x) xs.
Proof.
  induction xs as [|a xs IH]; intros x; cbn [fold_left].
  - left; reflexivity.
  - destruct (IH (Z.min x a)) as [H|H].
    + rewrite H. destruct (Z.min_spec x a) as [[_ E]|[_ E]]; rewrite E; [left; reflexivity | right; left; reflexivity].
    + right; right; exact H.
Qed.

Lemma active_nil : forall dflt, active dflt [] = dflt.
Proof. reflexivity. Qed.

Lemma active_single : forall dflt n, active dflt [n] = n.
Proof. reflexivity. Qed.

(* the minimum rule, as a specification *)
Lemma active_min : forall dflt s, s <> [] ->
  In (active dflt s) s /\ (forall y, In y s -> active dflt s <= y).
Proof.
  intros dflt [|x xs] Hne; [congruence|]. cbn [active].
  destruct (fold_min_le xs x) as [H1 H2]. split.
  - destruct (fold_min_in xs x) as [H|H]; [left; symmetry; exact H | right; exact H].
  - intros y [Hy|Hy]; [subst y; exact H1 | exact (H2 y Hy)].
Qed.

Lemma active_perm : forall dflt s s', Permutation s s' -> active dflt s = active dflt s'.
Proof.
  intros dflt s s' HP.
  destruct s as [|x xs].
  - apply Permutation_nil in HP. subst s'. reflexivity.
  - assert (Hne : x :: xs <> []) by discriminate.
    assert (Hne' : s' <> []).
    { intros E. subst s'. apply Permutation_sym, Permutation_nil in HP. discriminate. }
    destruct (active_min dflt (x :: xs) Hne) as [I1 L1].
    destruct (active_min dflt s' Hne') as [I2 L2].
    assert (A : active dflt (x :: xs) <= active dflt s').
    { apply L1. apply (Permutation_in _ (Permutation_sym HP)). exact I2. }
    assert (B : active dflt s' <= active dflt (x :: xs)).
    { apply L2. apply (Permutation_in _ HP). exact I1. }
    lia.
Qed.

Lemma active_cons_le : forall dflt n s, active dflt (n :: s) <= n.
Proof. intros dflt n s. cbn [active]. exact (proj1 (fold_min_le s n)). Qed.

Lemma active_cons_eq : forall dflt n s, (forall y, In y s -> n <= y) -> active dflt (n :: s) = n.
Proof.
  intros dflt n s H. cbn [active].
  destruct (fold_min_in s n) as [E|I]; [exact E|].
  pose proof (H _ I). pose proof (proj1 (fold_min_le s n)). lia.
Qed.

(* ------------------------------------------------------------------------------------------------------------ *)
(* remove1                                                                                                      *)
(* ------------------------------------------------------------------------------------------------------------ *)
Lemma remove1_head : forall v s, remove1 v (v :: s) = Some s.
Proof. intros v s. cbn [remove1]. rewrite Z.eqb_refl. reflexivity. Qed.

Lemma remove1_perm : forall v s s', remove1 v s = Some s' -> Permutation s (v :: s').
Proof.
  intros v s. induction s as [|x xs IH]; intros s' H; cbn [remove1] in H; [discriminate|].
  destruct (x =? v) eqn:E.
  - apply Z.eqb_eq in E. subst x. injection H as <-. apply Permutation_refl.
  - destruct (remove1 v xs) as [r|] eqn:R; [|discriminate]. injection H as <-.
    eapply Permutation_trans; [apply perm_skip, IH; reflexivity | apply perm_swap].
Qed.

Lemma remove1_in : forall v s, In v s -> exists s', remove1 v s = Some s'.
Proof.
  intros v s. induction s as [|x xs IH]; intros H; [destruct H|].
  cbn [remove1]. destruct (x =? v) eqn:E; [eexists; reflexivity|].
  destruct H as [H|H]; [subst x; rewrite Z.eqb_refl in E; discriminate|].
  destruct (IH H) as [r R]. rewrite R. eexists; reflexivity.
Qed.

(* ------------------------------------------------------------------------------------------------------------ *)
(* D4: the function as found has no effect at all                                                               *)
(* ------------------------------------------------------------------------------------------------------------ *)
Lemma set_concurrency_orig_noop : forall n p, 1 <= n -> set_concurrency_orig n p = Ok p.
Proof.
  intros n [r h sl] Hn. unfold set_concurrency_orig, tbb_create, tbb_destroy. cbn [rt holder slots].
  destruct (n <=? 0) eqn:E; [apply Z.leb_le in E; lia|].
  cbn [bind]. rewrite remove1_head. reflexivity.
Qed.

Lemma calls_orig_noop : forall ns p, Forall (fun n => 1 <= n) ns -> calls set_concurrency_orig ns p = Ok p.
Proof.
  induction ns as [|n ns IH]; intros p H; cbn [calls]; [reflexivity|].
  inversion H as [|? ? Hn Hr]; subst. rewrite set_concurrency_orig_noop by exact Hn. cbn [bind]. apply IH, Hr.
Qed.

Lemma trace_orig : forall dflt ns p, Forall (fun n => 1 <= n) ns ->
  run_trace set_concurrency_orig dflt (map OSet ns) p = (map (fun _ => active dflt (rt p)) ns, Done).
Proof.
  intros dflt. induction ns as [|n ns IH]; intros p H; cbn [map run_trace step]; [reflexivity|].
  inversion H as [|? ? Hn Hr]; subst. rewrite set_concurrency_orig_noop by exact Hn.
  rewrite (IH p Hr). reflexivity.
Qed.

Lemma C20_orig_refuted_lemma :
  exists (dflt : Z) (ns : list Z), Forall (fun n => 1 <= n) ns /\ ns <> [] /\
    exists p, calls set_concurrency_orig ns prog0 = Ok p /\ active dflt (rt p) <> last ns 0.
Proof.
  exists 16, [3]. split; [repeat constructor; lia|]. split; [discriminate|].
  exists prog0. split; [reflexivity|]. cbn. lia.
Qed.

(* stronger: whatever the default and whatever the history, the limit in force afterwards is the one from before *)
Lemma C20_orig_never_lemma : forall dflt ns p, Forall (fun n => 1 <= n) ns ->
  exists p', calls set_concurrency_orig ns p = Ok p' /\ active dflt (rt p') = active dflt (rt p).
Proof. intros dflt ns p H. exists p. split; [apply calls_orig_noop, H | reflexivity]. Qed.

(* ------------------------------------------------------------------------------------------------------------ *)
(* the fixed function on pure call sequences (other controls `env` held elsewhere stay untouched)              *)
(* ------------------------------------------------------------------------------------------------------------ *)
Definition inv (env : live) (p : prog) : Prop :=
  match holder p with
  | None => rt p = env
  | Some h => rt p = h :: env
  end.

Lemma set_concurrency_ok : forall env n p, 1 <= n -> inv env p ->
  exists p', set_concurrency n p = Ok p' /\ rt p' = n :: env /\ holder p' = Some n /\ slots p' = slots p.
Proof.
  intros env n [r h sl] Hn Hinv. unfold inv in Hinv. cbn [rt holder] in Hinv.
  unfold set_concurrency, tbb_create, tbb_destroy. cbn [rt holder slots].
  assert (E : (n <=? 0) = false) by (apply Z.leb_gt; lia).
  destruct h as [h|]; subst r.
  - rewrite remove1_head. cbn [bind]. rewrite E. cbn [bind]. eexists. repeat split.
  - cbn [bind]. rewrite E. cbn [bind]. eexists. repeat split.
Qed.

Lemma inv_after : forall env n p', rt p' = n :: env -> holder p' = Some n -> inv env p'.
Proof. intros env n p' H1 H2. unfold inv. rewrite H2. exact H1. Qed.

Lemma calls_ok : forall env ns p, Forall (fun n => 1 <= n) ns -> ns <> [] -> inv env p ->
  exists p', calls set_concurrency ns p = Ok p' /\ rt p' = last ns 0 :: env /\ holder p' = Some (last ns 0)
             /\ slots p' = slots p.
Proof.
  intros env. induction ns as [|n ns IH]; intros p HF Hne Hinv; [congruence|].
  inversion HF as [|? ? Hn Hr]; subst.
  destruct (set_concurrency_ok env n p Hn Hinv) as [p1 [E1 [R1 [H1 S1]]]].
  cbn [calls]. rewrite E1. cbn [bind].
  destruct ns as [|m ns'].
  - cbn [calls last]. exists p1. repeat split; assumption.
  - destruct (IH p1 Hr ltac:(discriminate) (inv_after env n p1 R1 H1)) as [p2 [E2 [R2 [H2 S2]]]].
    exists p2. change (last (n :: m :: ns') 0) with (last (m :: ns') 0).
    repeat split; try assumption. congruence.
Qed.

Lemma C20_lemma : forall (dflt : Z) (ns : list Z), Forall (fun n => 1 <= n) ns -> ns <> [] ->
  exists p, calls set_concurrency ns prog0 = Ok p /\ active dflt (rt p) = last ns 0.
Proof.
  intros dflt ns HF Hne.
  destruct (calls_ok [] ns prog0 HF Hne eq_refl) as [p [E [R _]]].
  exists p. split; [exact E|]. rewrite R. reflexivity.
Qed.

(* with other controls alive (env) the knob yields min(n_j, min env): nothing of n_1..n_(j-1) lingers *)
Lemma C20_env_lemma : forall (dflt : Z) (env : live) (sl : list (nat * Z)) (ns : list Z),
  Forall (fun n => 1 <= n) ns -> ns <> [] ->
  exists p, calls set_concurrency ns {| rt := env; holder := None; slots := sl |} = Ok p /\
            rt p = last ns 0 :: env /\ active dflt (rt p) = fold_left Z.min env (last ns 0).
Proof.
  intros dflt env sl ns HF Hne.
  destruct (calls_ok env ns {| rt := env; holder := None; slots := sl |} HF Hne eq_refl) as [p [E [R _]]].
  exists p. split; [exact E|]. split; [exact R|]. rewrite R. reflexivity.
Qed.

(* the printed trace of the harness: after EVERY call the active value is that call's argument *)
Lemma trace_fixed : forall dflt ns p, Forall (fun n => 1 <= n) ns -> inv [] p ->
  run_trace set_concurrency dflt (map OSet ns) p = (ns, Done).
Proof.
  intros dflt. induction ns as [|n ns IH]; intros p HF Hinv; cbn [map run_trace step]; [reflexivity|].
  inversion HF as [|? ? Hn Hr]; subst.
  destruct (set_concurrency_ok [] n p Hn Hinv) as [p1 [E1 [R1 [H1 _]]]].
  rewrite E1. rewrite (IH p1 Hr (inv_after [] n p1 R1 H1)). rewrite R1. reflexivity.
Qed.

(* ------------------------------------------------------------------------------------------------------------ *)
(* mixed histories: calls interleaved with raw controls created and destroyed by the rest of the program        *)
(* ------------------------------------------------------------------------------------------------------------ *)
Fixpoint steps (setf : Z -> prog -> res prog) (ops : list op) (p : prog) : res prog :=
  match ops with
  | [] => Ok p
  | o :: r => bind (step setf o p) (steps setf r)
  end.

Definition holder_list (p : prog) : list Z := match holder p with Some h => [h] | None => [] end.

(* the runtime holds exactly the knob's control (if any) and the other owners' controls *)
Definition wf (p : prog) : Prop := Permutation (rt p) (holder_list p ++ map snd (slots p)).

Lemma wf_prog0 : wf prog0.
Proof. unfold wf. cbn. apply perm_nil. Qed.

Lemma lookup_remove_perm : forall k sl v, lookup k sl = Some v -> Permutation sl ((k, v) :: remove_slot k sl).
Proof.
  intros k sl. induction sl as [|[k' v'] r IH]; intros v H; cbn [lookup] in H; [discriminate|].
  cbn [remove_slot]. destruct (Nat.eqb k' k) eqn:E.
  - apply Nat.eqb_eq in E. subst k'. injection H as <-. apply Permutation_refl.
  - eapply Permutation_trans; [apply perm_skip, IH, H | apply perm_swap].
Qed.

Lemma set_concurrency_wf : forall n p p', wf p -> set_concurrency n p = Ok p' ->
  wf p' /\ holder p' = Some n /\ slots p' = slots p /\ 1 <= n.
Proof.
  intros n [r h sl] p' Hwf H. unfold wf, holder_list in Hwf. cbn [rt holder slots] in Hwf.
  unfold set_concurrency, tbb_create, tbb_destroy in H. cbn [rt holder slots] in H.
  assert (X : forall s1, Permutation s1 (map snd sl) ->
              bind (if n <=? 0 then Abort else Ok (n :: s1))
                   (fun s2 => Ok {| rt := s2; holder := Some n; slots := sl |}) = Ok p' ->
              wf p' /\ holder p' = Some n /\ slots p' = slots {| rt := r; holder := h; slots := sl |} /\ 1 <= n).
  { intros s1 HP H1. destruct (n <=? 0) eqn:E; cbn [bind] in H1; [discriminate|]. injection H1 as <-.
    apply Z.leb_gt in E. unfold wf, holder_list. cbn [rt holder slots].
    repeat split; [apply perm_skip, HP | lia]. }
  destruct h as [h|].
  - destruct (remove1 h r) as [s1|] eqn:R; cbn [bind] in H; [|discriminate].
    apply (X s1); [|exact H].
    apply remove1_perm in R.
    apply (Permutation_cons_inv (a := h)).
    eapply Permutation_trans; [apply Permutation_sym, R | exact Hwf].
  - cbn [bind] in H. apply (X r); [exact Hwf | exact H].
Qed.

Lemma step_wf : forall o p p', wf p -> step set_concurrency o p = Ok p' -> wf p'.
Proof.
  intros [n|k v|k] p p' Hwf H; cbn [step] in H.
  - exact (proj1 (set_concurrency_wf n p p' Hwf H)).
  - destruct (lookup k (slots p)); [discriminate|].
    unfold tbb_create in H. destruct (v <=? 0); cbn [bind] in H; [discriminate|]. injection H as <-.
    unfold wf, holder_list in *. cbn [rt holder slots map snd].
    eapply Permutation_trans; [apply perm_skip, Hwf | apply Permutation_middle].
  - destruct (lookup k (slots p)) as [v|] eqn:L; [|discriminate].
    unfold tbb_destroy in H. destruct (remove1 v (rt p)) as [s|] eqn:R; cbn [bind] in H; [|discriminate].
    injection H as <-. unfold wf, holder_list in *. cbn [rt holder slots].
    apply remove1_perm in R. apply lookup_remove_perm in L.
    apply (Permutation_cons_inv (a := v)).
    eapply Permutation_trans; [apply Permutation_sym, R|].
    eapply Permutation_trans; [exact Hwf|].
    eapply Permutation_trans; [|apply Permutation_sym, Permutation_middle].
    apply Permutation_app_head.
    change (v :: map snd (remove_slot k (slots p))) with (map snd ((k, v) :: remove_slot k (slots p))).
    apply Permutation_map, L.
Qed.

Lemma steps_wf : forall ops p p', wf p -> steps set_concurrency ops p = Ok p' -> wf p'.
Proof.
  induction ops as [|o ops IH]; intros p p' Hwf H; cbn [steps] in H.
  - injection H as <-. exact Hwf.
  - destruct (step set_concurrency o p) as [p1| | |] eqn:E; cbn [bind] in H; try discriminate.
    apply (IH p1 p'); [exact (step_wf o p p1 Hwf E) | exact H].
Qed.

Lemma steps_app : forall setf a b p, steps setf (a ++ b) p = bind (steps setf a p) (steps setf b).
Proof.
  intros setf. induction a as [|o a IH]; intros b p; cbn [app steps bind]; [reflexivity|].
  destruct (step setf o p); cbn [bind]; try reflexivity. apply IH.
Qed.

(* a call with n >= 1 never fails in a well-formed program *)
Lemma set_concurrency_total : forall n p, wf p -> 1 <= n -> exists p', set_concurrency n p = Ok p'.
Proof.
  intros n [r h sl] Hwf Hn. unfold wf, holder_list in Hwf. cbn [rt holder slots] in Hwf.
  unfold set_concurrency, tbb_create, tbb_destroy. cbn [rt holder slots].
  assert (E : (n <=? 0) = false) by (apply Z.leb_gt; lia).
  destruct h as [h|].
  - destruct (remove1_in h r) as [s1 R].
    { apply (Permutation_in _ (Permutation_sym Hwf)). left; reflexivity. }
    rewrite R. cbn [bind]. rewrite E. cbn [bind]. eexists; reflexivity.
  - cbn [bind]. rewrite E. cbn [bind]. eexists; reflexivity.
Qed.

(* after any history that ends with a call of the knob, the active value is the minimum of that call's argument
   and the values held by the other owners — no earlier argument of the knob is part of it *)
Lemma C20_mixed_lemma : forall (dflt : Z) (ops : list op) (n : Z) (p p' : prog),
  wf p -> steps set_concurrency (ops ++ [OSet n]) p = Ok p' ->
  let a := active dflt (rt p') in
  In a (n :: map snd (slots p')) /\ (forall y, In y (n :: map snd (slots p')) -> a <= y).
Proof.
  intros dflt ops n p p' Hwf H. rewrite steps_app in H.
  destruct (steps set_concurrency ops p) as [p1| | |] eqn:E; cbn [bind] in H; try discriminate.
  pose proof (steps_wf ops p p1 Hwf E) as Hwf1.
  cbn [steps step] in H.
  destruct (set_concurrency n p1) as [p2| | |] eqn:E2; cbn [bind] in H; try discriminate.
  injection H as <-.
  destruct (set_concurrency_wf n p1 p2 Hwf1 E2) as [Hwf2 [Hh [_ _]]].
  unfold wf, holder_list in Hwf2. rewrite Hh in Hwf2. cbn [app] in Hwf2.
  cbv zeta. rewrite (active_perm dflt _ _ Hwf2).
  apply active_min. discriminate.
Qed.

Lemma run_trace_steps : forall setf dflt ops p p', steps setf ops p = Ok p' -> ops <> [] ->
  exists t, run_trace setf dflt ops p = (t, Done) /\ last t 0 = active dflt (rt p') /\ length t = length ops.
Proof.
  intros setf dflt. induction ops as [|o ops IH]; intros p p' H Hne; [congruence|].
  cbn [steps] in H. cbn [run_trace].
  destruct (step setf o p) as [p1| | |] eqn:E; cbn [bind] in H; try discriminate.
  destruct ops as [|o2 ops'].
  - cbn [steps] in H. injection H as <-. cbn [run_trace]. eexists. repeat split.
  - destruct (IH p1 p' H ltac:(discriminate)) as [t [Ht [Hl Hlen]]]. rewrite Ht.
    exists (active dflt (rt p1) :: t). split; [reflexivity|]. split.
    + destruct t as [|x t']; [cbn in Hlen; discriminate|]. exact Hl.
    + cbn [length]. rewrite Hlen. reflexivity.
Qed.

(* ------------------------------------------------------------------------------------------------------------ *)
(* the demos                                                                                                    *)
(* ------------------------------------------------------------------------------------------------------------ *)
Lemma algo_parallel_demo_algo : forall o, algo_parallel (demo_algo o) = o_parallel o.
Proof.
  intros o. unfold demo_algo.
  destruct (o_signed o), (o_fvstrees o), (o_parallel o); reflexivity.
Qed.

Lemma size_t_of_int_range : forall c, 0 <= size_t_of_int c < 2 ^ 64.
Proof. intros c. unfold size_t_of_int. apply Z.mod_pos_bound. reflexivity. Qed.

Lemma effective_cores_pos : forall bhw o, 1 <= bhw -> 1 <= effective_cores bhw o.
Proof.
  intros bhw o Hb. unfold effective_cores. pose proof (size_t_of_int_range (o_cores o)) as R.
  destruct (size_t_of_int (o_cores o) =? 0) eqn:E; [exact Hb|]. apply Z.eqb_neq in E. lia.
Qed.

Lemma effective_cores_given : forall bhw o, 1 <= o_cores o < 2 ^ 64 -> effective_cores bhw o = o_cores o.
Proof.
  intros bhw o H. unfold effective_cores, size_t_of_int. rewrite Z.mod_small by lia.
  destruct (o_cores o =? 0) eqn:E; [apply Z.eqb_eq in E; lia | reflexivity].
Qed.

Lemma effective_cores_zero : forall bhw o, o_cores o = 0 -> effective_cores bhw o = bhw.
Proof. intros bhw o H. unfold effective_cores, size_t_of_int. rewrite H. reflexivity. Qed.

Lemma set_concurrency_prog0 : forall dflt v, 1 <= v ->
  bind (set_concurrency v prog0) (fun p => Ok (active dflt (rt p))) = Ok v.
Proof.
  intros dflt v Hv. destruct (set_concurrency_ok [] v prog0 Hv eq_refl) as [p [E [R _]]].
  rewrite E. cbn [bind]. rewrite R. reflexivity.
Qed.

Lemma C20_demo_lemma : forall (dflt bhw : Z) (o : demo_opts),
  1 <= bhw -> o_cores_count o = true -> algo_parallel (demo_algo o) = true ->
  demo_knob bhw o = Applied (effective_cores bhw o) /\
  demo_run set_concurrency demo_knob dflt bhw o = Ok (effective_cores bhw o).
Proof.
  intros dflt bhw o Hb Hc Hp. rewrite algo_parallel_demo_algo in Hp.
  assert (K : demo_knob bhw o = Applied (effective_cores bhw o)).
  { unfold demo_knob. rewrite Hc, Hp. reflexivity. }
  split; [exact K|]. unfold demo_run. rewrite K.
  apply set_concurrency_prog0, effective_cores_pos, Hb.
Qed.

(* the decision depends on --parallel and --cores only *)
Lemma C20_demo_unrelated_lemma : forall (bhw : Z) (o o' : demo_opts),
  o_cores_count o = o_cores_count o' -> o_cores o = o_cores o' -> o_parallel o = o_parallel o' ->
  demo_knob bhw o = demo_knob bhw o'.
Proof.
  intros bhw o o' H1 H2 H3. unfold demo_knob, effective_cores. rewrite H1, H2, H3. reflexivity.
Qed.

Lemma demo_knob_sequential : forall bhw o, o_parallel o = false -> demo_knob bhw o = NotApplied.
Proof. intros bhw o H. unfold demo_knob. rewrite H. destruct (o_cores_count o); reflexivity. Qed.

(* D5: as found, a parallel algorithm without --verbose runs without the knob *)
Definition d5_witness : demo_opts :=
  {| o_verbose := false; o_signed := true; o_fvstrees := false; o_isotrees := false; o_parallel := true;
     o_printcycles := false; o_cores_count := true; o_cores := 3 |}.

Lemma C20_demo_orig_refuted_lemma :
  exists (dflt bhw : Z) (o : demo_opts),
    1 <= bhw /\ o_cores_count o = true /\ algo_parallel (demo_algo o) = true /\
    demo_knob_orig bhw o = NotApplied /\
    demo_run set_concurrency demo_knob_orig dflt bhw o <> Ok (effective_cores bhw o).
Proof.
  exists 16, 16, d5_witness. repeat split; try reflexivity; try lia.
  cbv. discriminate.
Qed.

(* D5 in general: without --verbose the knob is never applied, whatever else is given *)
Lemma demo_knob_orig_needs_verbose : forall bhw o, o_verbose o = false -> demo_knob_orig bhw o = NotApplied.
Proof. intros bhw o H. unfold demo_knob_orig. rewrite H. destruct (o_cores_count o); reflexivity. Qed.

(* D4 seen through the demos: even with --verbose the as-found knob function leaves the default in force *)
Lemma demo_run_orig_knob : forall knobf dflt bhw o, (forall v, knobf bhw o = Applied v -> 1 <= v) ->
  demo_run set_concurrency_orig knobf dflt bhw o = Ok dflt.
Proof.
  intros knobf dflt bhw o H. unfold demo_run. destruct (knobf bhw o) as [|v] eqn:K; [reflexivity|].
  rewrite set_concurrency_orig_noop by (apply H; reflexivity). reflexivity.
Qed.

(* ------------------------------------------------------------------------------------------------------------ *)
(* specialisations to a fresh process (prog0), as stated in Properties_C20.v                                    *)
(* ------------------------------------------------------------------------------------------------------------ *)
Lemma C20_every_call_lemma : forall (dflt : Z) (ns : list Z), Forall (fun n => 1 <= n) ns ->
  run_trace set_concurrency dflt (map OSet ns) prog0 = (ns, Done).
Proof. intros dflt ns H. apply trace_fixed; [exact H | reflexivity]. Qed.

Lemma C20_orig_trace_lemma : forall (dflt : Z) (ns : list Z), Forall (fun n => 1 <= n) ns ->
  run_trace set_concurrency_orig dflt (map OSet ns) prog0 = (map (fun _ => dflt) ns, Done).
Proof. intros dflt ns H. apply (trace_orig dflt ns prog0 H). Qed.

Lemma C20_mixed_prog0_lemma : forall (dflt : Z) (ops : list op) (n : Z) (p' : prog),
  steps set_concurrency (ops ++ [OSet n]) prog0 = Ok p' ->
  In (active dflt (rt p')) (n :: map snd (slots p')) /\
  (forall y, In y (n :: map snd (slots p')) -> active dflt (rt p') <= y).
Proof. intros dflt ops n p' H. exact (C20_mixed_lemma dflt ops n prog0 p' wf_prog0 H). Qed.

Lemma C20_total_lemma : forall (ops : list op) (p : prog) (n : Z),
  steps set_concurrency ops prog0 = Ok p -> 1 <= n -> exists p', set_concurrency n p = Ok p'.
Proof.
  intros ops p n H Hn. apply set_concurrency_total; [|exact Hn].
  exact (steps_wf ops prog0 p wf_prog0 H).
Qed.
