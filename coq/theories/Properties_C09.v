(* Properties_C09.v — final statements of property C09 (exact variants on inexact floating-point weights).

   C09 is PARTIAL.  Proved here, for an ARBITRARY weight type W, zero w0, addition wadd and comparison wltb (no
   algebraic law assumed — hence for binary64 with rounding, instances C09_binary64_structural and C09_binary64_returned_value_is_fold):
     C09_structural               whenever mcb_sva_signed returns SvaOk, the emitted family has m-n+c elements, all in the
                                  cycle space, GF(2)-independent and spanning ("parity and independence never depend on
                                  rounding"); re-export of SignedProofs.mcb_sva_signed_basis_partial
     C09_returned_value_is_fold   the returned value is the left-to-right wadd-fold (from w0, in emission order) of the
                                  per-cycle weights, and each per-cycle weight is the left-to-right wadd-fold (from w0) of
                                  the weights of exactly the edges of its cycle, each once, in some order
   and, about known finding D9 (mcb_sva_iso_trees), on the stored minimal witness, computed on primitive floats:
     C09_signed_on_d9_witness     the signed model returns the one cycle of the graph (the signed variant is unaffected)
     C09_trees_premise_refuted    the lexicographic shortest-path trees (LexSPModel.v, the trees every tree-based variant
                                  builds) are mutually INCONSISTENT over binary64 on the witness while they are consistent
                                  over Z on the same weights — the premise of the isometric-class construction of
                                  detail/cycles.hpp:132-196.
   NOT proved (covered by the correspondence / search of tools/props/c09.py only):
     * that a cycle is found in every phase under rounding (SvaOk is reached), vertex-simplicity of the emitted cycles,
       and the quantitative bound "within relative 1e-9 of the true minimum" for all inputs;
     * C09_iso_refuted in full (the ISO-trees model emitting an empty cycle): there is no Gallina model of
       ISOCyclesBuilder; D9 is observed on the implementation only (known_findings.d/C09.json). *)
From Coq Require Import List Arith ZArith.
From Coq Require Floats.   (* not imported: Print Assumptions then names the primitives PrimFloat.add etc. in full *)
From Parmcb Require Import GraphModel GraphSpec McbSpec DePinaSpec SvaModel SignedModel SignedFloatModel LexSPModel
     SignedProofs FloatProofs.
Import ListNotations.

Theorem C09_structural (W : Type) (w0 : W) (wadd : W -> W -> W) (wltb : W -> W -> bool)
        (eord : nat -> nat) (g : graph) (wts : list W) (roots : list nat)
        (cycles : list (list nat)) (total : W) (sup : list vec) :
  simple_graph g -> (forall v, v < nv g -> In v roots) ->
  mcb_sva_signed W w0 wadd wltb eord g wts roots = SvaOk cycles total sup ->
  has_cycle_space_dimension g (length cycles) /\ Forall (in_cycle_space g) cycles
  /\ indep cycles /\ spans (in_cycle_space g) cycles.
Proof. exact (mcb_sva_signed_basis_partial W w0 wadd wltb eord g wts roots cycles total sup). Qed.
Print Assumptions C09_structural.

Theorem C09_returned_value_is_fold (W : Type) (w0 : W) (wadd : W -> W -> W) (wltb : W -> W -> bool)
        (eord : nat -> nat) (g : graph) (wts : list W) (roots : list nat)
        (cycles : list (list nat)) (total : W) (sup : list vec) :
  mcb_sva_signed W w0 wadd wltb eord g wts roots = SvaOk cycles total sup ->
  exists ws, mcb_sva_signed_w W w0 wadd wltb eord g wts roots = (SvaOk cycles total sup, ws)
    /\ Forall2 (sum_of W w0 wadd wts) cycles ws
    /\ total = fold_left wadd ws w0.
Proof. exact (mcb_sva_signed_total_is_fold W w0 wadd wltb eord g wts roots cycles total sup). Qed.
Print Assumptions C09_returned_value_is_fold.

(* the binary64 instances (the model that is compared bit-exactly with the C++) *)
Theorem C09_binary64_structural (g : graph) (wts : list PrimFloat.float) (roots eord : list nat)
        (cycles : list (list nat)) (total : PrimFloat.float) (sup : list vec) :
  simple_graph g -> (forall v, v < nv g -> In v roots) ->
  mcb_sva_signed_F g wts roots eord = SvaOk cycles total sup ->
  has_cycle_space_dimension g (length cycles) /\ Forall (in_cycle_space g) cycles
  /\ indep cycles /\ spans (in_cycle_space g) cycles.
Proof.
  exact (mcb_sva_signed_basis_partial PrimFloat.float f64_zero f64_add f64_ltb (fun e => nth e eord 0) g wts roots cycles total sup).
Qed.
Print Assumptions C09_binary64_structural.

Theorem C09_binary64_returned_value_is_fold (g : graph) (wts : list PrimFloat.float) (roots eord : list nat)
        (cycles : list (list nat)) (total : PrimFloat.float) (sup : list vec) :
  mcb_sva_signed_F g wts roots eord = SvaOk cycles total sup ->
  exists ws, mcb_sva_signed_F_w g wts roots eord = (SvaOk cycles total sup, ws)
    /\ Forall2 (sum_of PrimFloat.float f64_zero f64_add wts) cycles ws
    /\ total = fold_left PrimFloat.add ws PrimFloat.zero.
Proof.
  exact (mcb_sva_signed_total_is_fold PrimFloat.float f64_zero f64_add f64_ltb (fun e => nth e eord 0) g wts roots cycles total sup).
Qed.
Print Assumptions C09_binary64_returned_value_is_fold.

(* known finding D9 on its minimal witness: the 4-cycle 0-1-2-3-0 with the doubles nearest to 0.1, 0.1, 0.8, 0.6 *)
Theorem C09_signed_on_d9_witness :
  mcb_sva_signed_F d9_graph d9_weights d9_roots d9_eord = SvaOk [[0; 1; 2; 3]] d9_total [[0]].
Proof. exact d9_signed_ok. Qed.
Print Assumptions C09_signed_on_d9_witness.

Theorem C09_trees_premise_refuted : trees_inconsistent_on_d9.
Proof. exact d9_trees_inconsistent. Qed.
Print Assumptions C09_trees_premise_refuted.

(* the hypotheses of the structural theorems are satisfiable on a concrete input with inexact weights: a simple graph, a
   root order covering the vertices, and an SvaOk answer of the binary64 model *)
Example C09_nonvacuous :
  simple_graph d9_graph /\ (forall v, v < nv d9_graph -> In v d9_roots)
  /\ exists cycles total sup, mcb_sva_signed_F d9_graph d9_weights d9_roots d9_eord = SvaOk cycles total sup
       /\ length cycles = 1.
Proof.
  split; [exact d9_simple|]. split; [exact d9_roots_cover|].
  eexists _, _, _. split; [exact d9_signed_ok|reflexivity].
Qed.
