(* Properties_C09.v — final statements of property C09 (exact variants on inexact floating-point weights).

   C09 is PARTIAL.  Proved here, for an ARBITRARY weight type W, zero w0, addition wadd and comparison wltb (no
   algebraic law assumed — hence for binary64 with rounding, instances C09_binary64_structural and C09_binary64_returned_value_is_fold):
     C09_structural               whenever mcb_sva_signed returns SvaOk, the emitted family has m-n+c elements, all in the
                                  cycle space, GF(2)-independent and spanning ("parity and independence never depend on
                                  rounding"); re-export of SignedProofs.mcb_sva_signed_basis_partial
     C09_returned_value_is_fold   the returned value is the left-to-right wadd-fold (from w0, in emission order) of the
                                  per-cycle weights, and each per-cycle weight is the left-to-right wadd-fold (from w0) of
                                  the weights of exactly the edges of its cycle, each once, in some order
   and, about known finding D9 (mcb_sva_iso_trees), on the stored minimal witness, computed on primitive floats:
     C09_signed_on_d9_witness     the signed model returns the one cycle of the graph (the signed variant is unaffected)
     C09_trees_premise_refuted    the lexicographic shortest-path trees (LexSPModel.v, the trees every tree-based variant
                                  builds) are mutually INCONSISTENT over binary64 on the witness while they are consistent
                                  over Z on the same weights — the premise of the isometric-class construction of
                                  detail/cycles.hpp:132-196.
   NOT proved (covered by the correspondence / search of tools/props/c09.py only):
     * that a cycle is found in every phase under rounding (SvaOk is reached), vertex-simplicity of the emitted cycles,
       and the quantitative bound "within relative 1e-9 of the true minimum" for all inputs;
     * for the tree-based variants: that every phase finds an answer (refuted for the isometric collection, below) and that
       the FVS variant does (C09_binary64_trees_full_stmt, a Definition that is not asserted).

   Tree-based variants (mcb_sva_fvs_trees / mcb_sva_iso_trees; TreesModel.v for an arbitrary weight type, TreesFloatModel.v for
   the pieces that differ on doubles and for the binary64 instances; proofs in FloatTreesProofs.v):
     C09_trees_structural           ARBITRARY weight type: whenever the trees model (any builder; first-answering resolution)
                                    returns SvaOk, the emitted family has m-n+c elements, all in the cycle space,
                                    GF(2)-independent and spanning; every (cycle, weight) is a candidate edge e = (a,b) plus
                                    two walks from one root to a and to b, all edges distinct, with weight
                                    w(e) + first path upwards + second path upwards folded left to right; the returned total is
                                    the left-to-right fold of these weights in emission order
     C09_trees_accept_structural    the same for every run the acceptance model accepts (any resolution of std::sort's ties)
     C09_trees_as_executed_structural / C09_binary64_trees_partial
                                    the same for the model that is compared bit-exactly with the code (ISO builder with the
                                    std::map default, candidates scanned in std::sort's recovered order, the loop that goes on
                                    after an empty answer), whenever every phase found an answer
     C09_trees_empty_answer_is_nocycle   a run that TreesModel.v ends with SvaNoCycle k is, in the loop that goes on, an empty
                                    cycle of weight w0 at phase k with k found phases before it
     C09_iso_builder_refines        the ISO builder as executed agrees with the generic model wherever that returns CdOk
     C09_iso_d9_in_model            D9 inside the binary64 model: on the stored witness the isometric collection is empty, the
                                    model ends with SvaNoCycle 0 / emits one EMPTY cycle and returns +0.0 (what the code does),
                                    the FVS variant returns the cycle, and over Z the isometric variant returns the cycle (16)
     C09_iso_d9b_in_model           D9b inside the binary64 model: the run of the code bit for bit (5-cycle + triangle,
                                    0x1.2666666666666p+2 = 4.6) while over Z the minimum 36 (= 3.6) is returned and the FVS
                                    variant on binary64 returns 0x1.ccccccccccccdp+1 (3.6); the generic ISO model stops with
                                    CdInconsistent on this input
     C09_iso_all_found_refuted      "every phase of mcb_sva_iso_trees finds a cycle on weights in [1e-3,1e3]" is FALSE of the
                                    binary64 model (witness D9). *)
From Coq Require Import List Arith ZArith.
From Coq Require Floats.   (* not imported: Print Assumptions then names the primitives PrimFloat.add etc. in full *)
From Parmcb Require Import GraphModel GraphSpec McbSpec DePinaSpec SvaModel SignedModel SignedFloatModel LexSPModel
     CandidatesModel TreesModel TreesFloatModel SignedProofs FloatProofs FloatTreesProofs.
Import ListNotations.

Theorem C09_structural (W : Type) (w0 : W) (wadd : W -> W -> W) (wltb : W -> W -> bool)
        (eord : nat -> nat) (g : graph) (wts : list W) (roots : list nat)
        (cycles : list (list nat)) (total : W) (sup : list vec) :
  simple_graph g -> (forall v, v < nv g -> In v roots) ->
  mcb_sva_signed W w0 wadd wltb eord g wts roots = SvaOk cycles total sup ->
  has_cycle_space_dimension g (length cycles) /\ Forall (in_cycle_space g) cycles
  /\ indep cycles /\ spans (in_cycle_space g) cycles.
Proof. exact (mcb_sva_signed_basis_partial W w0 wadd wltb eord g wts roots cycles total sup). Qed.
Print Assumptions C09_structural.

Theorem C09_returned_value_is_fold (W : Type) (w0 : W) (wadd : W -> W -> W) (wltb : W -> W -> bool)
        (eord : nat -> nat) (g : graph) (wts : list W) (roots : list nat)
        (cycles : list (list nat)) (total : W) (sup : list vec) :
  mcb_sva_signed W w0 wadd wltb eord g wts roots = SvaOk cycles total sup ->
  exists ws, mcb_sva_signed_w W w0 wadd wltb eord g wts roots = (SvaOk cycles total sup, ws)
    /\ Forall2 (sum_of W w0 wadd wts) cycles ws
    /\ total = fold_left wadd ws w0.
Proof. exact (mcb_sva_signed_total_is_fold W w0 wadd wltb eord g wts roots cycles total sup). Qed.
Print Assumptions C09_returned_value_is_fold.

(* the binary64 instances (the model that is compared bit-exactly with the C++) *)
Theorem C09_binary64_structural (g : graph) (wts : list PrimFloat.float) (roots eord : list nat)
        (cycles : list (list nat)) (total : PrimFloat.float) (sup : list vec) :
  simple_graph g -> (forall v, v < nv g -> In v roots) ->
  mcb_sva_signed_F g wts roots eord = SvaOk cycles total sup ->
  has_cycle_space_dimension g (length cycles) /\ Forall (in_cycle_space g) cycles
  /\ indep cycles /\ spans (in_cycle_space g) cycles.
Proof.
  exact (mcb_sva_signed_basis_partial PrimFloat.float f64_zero f64_add f64_ltb (fun e => nth e eord 0) g wts roots cycles total sup).
Qed.
Print Assumptions C09_binary64_structural.

Theorem C09_binary64_returned_value_is_fold (g : graph) (wts : list PrimFloat.float) (roots eord : list nat)
        (cycles : list (list nat)) (total : PrimFloat.float) (sup : list vec) :
  mcb_sva_signed_F g wts roots eord = SvaOk cycles total sup ->
  exists ws, mcb_sva_signed_F_w g wts roots eord = (SvaOk cycles total sup, ws)
    /\ Forall2 (sum_of PrimFloat.float f64_zero f64_add wts) cycles ws
    /\ total = fold_left PrimFloat.add ws PrimFloat.zero.
Proof.
  exact (mcb_sva_signed_total_is_fold PrimFloat.float f64_zero f64_add f64_ltb (fun e => nth e eord 0) g wts roots cycles total sup).
Qed.
Print Assumptions C09_binary64_returned_value_is_fold.

(* known finding D9 on its minimal witness: the 4-cycle 0-1-2-3-0 with the doubles nearest to 0.1, 0.1, 0.8, 0.6 *)
Theorem C09_signed_on_d9_witness :
  mcb_sva_signed_F d9_graph d9_weights d9_roots d9_eord = SvaOk [[0; 1; 2; 3]] d9_total [[0]].
Proof. exact d9_signed_ok. Qed.
Print Assumptions C09_signed_on_d9_witness.

Theorem C09_trees_premise_refuted : trees_inconsistent_on_d9.
Proof. exact d9_trees_inconsistent. Qed.
Print Assumptions C09_trees_premise_refuted.

(* the hypotheses of the structural theorems are satisfiable on a concrete input with inexact weights: a simple graph, a
   root order covering the vertices, and an SvaOk answer of the binary64 model *)
Example C09_nonvacuous :
  simple_graph d9_graph /\ (forall v, v < nv d9_graph -> In v d9_roots)
  /\ exists cycles total sup, mcb_sva_signed_F d9_graph d9_weights d9_roots d9_eord = SvaOk cycles total sup
       /\ length cycles = 1.
Proof.
  split; [exact d9_simple|]. split; [exact d9_roots_cover|].
  eexists _, _, _. split; [exact d9_signed_ok|reflexivity].
Qed.


(* ==== the tree-based variants ======================================================================================= *)

(* arbitrary weight type, the trees model of TreesModel.v (any builder, ties of std::sort resolved by collection order) *)
Theorem C09_trees_structural (W : Type) (w0 : W) (wadd : W -> W -> W) (wltb : W -> W -> bool)
        (b : tbuilder) (g : graph) (wts : list W) (roots picks : list nat)
        (cycles : list (list nat)) (total : W) (sup : list vec) :
  simple_graph g -> (forall v, v < nv g -> In v roots) ->
  mcb_sva_trees_first W w0 wadd wltb b g wts roots picks = TRun (SvaOk cycles total sup) ->
  has_cycle_space_dimension g (length cycles) /\ Forall (in_cycle_space g) cycles
  /\ indep cycles /\ spans (in_cycle_space g) cycles
  /\ exists ws, Forall2 (tree_cycle_shape W w0 wadd g wts) cycles ws /\ total = fold_left wadd ws w0.
Proof. exact (fun Hs Hr => ft_first_structural W w0 wadd wltb g wts roots Hs Hr b picks cycles total sup). Qed.
Print Assumptions C09_trees_structural.

(* ... and every run the acceptance model accepts (whatever arrangement std::sort chose among equal recorded weights) *)
Theorem C09_trees_accept_structural (W : Type) (w0 : W) (wadd : W -> W -> W) (wltb : W -> W -> bool)
        (b : tbuilder) (g : graph) (wts : list W) (roots picks : list nat)
        (cycles : list (list nat)) (total : W) :
  simple_graph g -> (forall v, v < nv g -> In v roots) ->
  mcb_sva_trees_accept W w0 wadd wltb b g wts roots picks cycles = Some total ->
  exists cs, length cs = length cycles
  /\ has_cycle_space_dimension g (length cs) /\ Forall (in_cycle_space g) cs
  /\ indep cs /\ spans (in_cycle_space g) cs
  /\ exists ws, Forall2 (tree_cycle_shape W w0 wadd g wts) cs ws /\ total = fold_left wadd ws w0.
Proof. exact (fun Hs Hr => ft_accept_structural W w0 wadd wltb g wts roots Hs Hr b picks cycles total). Qed.
Print Assumptions C09_trees_accept_structural.

(* the model that is compared bit-exactly with the code: ISO builder with the std::map default, candidates scanned in the
   arrangement `order` left by std::sort, the loop that goes on after an empty answer *)
Theorem C09_trees_as_executed_structural (W : Type) (w0 : W) (wadd : W -> W -> W) (wltb : W -> W -> bool)
        (b : tbuilder) (g : graph) (wts : list W) (roots picks order : list nat)
        (phases : list (go_phase W)) (total : W) (sup : list vec) :
  simple_graph g -> (forall v, v < nv g -> In v roots) ->
  mcb_sva_trees_go W w0 wadd wltb b g wts roots picks order = GoOk phases total sup ->
  Forall (fun p => gp_found p = true) phases ->
  let cycles := map gp_cycle phases in
  has_cycle_space_dimension g (length cycles) /\ Forall (in_cycle_space g) cycles
  /\ indep cycles /\ spans (in_cycle_space g) cycles
  /\ exists ws, Forall2 (tree_cycle_shape W w0 wadd g wts) cycles ws /\ total = fold_left wadd ws w0.
Proof. exact (fun Hs Hr => ft_go_structural W w0 wadd wltb g wts roots Hs Hr b picks order phases total sup). Qed.
Print Assumptions C09_trees_as_executed_structural.

(* what TreesModel.v reports as SvaNoCycle k is, in the loop that goes on as the code does, an EMPTY cycle of weight w0 emitted
   at phase k after k phases that found *)
Theorem C09_trees_empty_answer_is_nocycle (W : Type) (w0 : W) (wadd : W -> W -> W) (wltb : W -> W -> bool)
        (b : tbuilder) (g : graph) (wts : list W) (roots picks order : list nat) (k : nat)
        (phases : list (go_phase W)) (total : W) (sup : list vec) :
  mcb_sva_trees_order W w0 wadd wltb b g wts roots picks order = TRun (SvaNoCycle k) ->
  mcb_sva_trees_go W w0 wadd wltb b g wts roots picks order = GoOk phases total sup ->
  exists pre p post, phases = pre ++ p :: post /\ length pre = k /\ Forall (fun q => gp_found q = true) pre
                     /\ gp_found p = false /\ gp_cycle p = [] /\ gp_weight p = w0.
Proof. exact (ft_order_nocycle_go W w0 wadd wltb g wts roots b picks order k phases total sup). Qed.
Print Assumptions C09_trees_empty_answer_is_nocycle.

(* the ISO builder as executed (std::map::operator[] default) agrees with the generic model wherever that returns CdOk *)
Theorem C09_iso_builder_refines (W : Type) (w0 : W) (wadd : W -> W -> W) (wltb : W -> W -> bool)
        (g : graph) (wts : list W) r :
  iso_cycles W w0 wadd wltb g wts = CdOk r -> iso_cycles_dflt W w0 wadd wltb g wts = CdOk r.
Proof. exact (ft_iso_cycles_dflt_refines W w0 wadd wltb g wts r). Qed.
Print Assumptions C09_iso_builder_refines.

(* the binary64 instance: the structural part of C09_binary64_trees_full_stmt *)
Theorem C09_binary64_trees_partial (b : tbuilder) (g : graph) (wts : list PrimFloat.float) (roots picks order : list nat)
        (phases : list (go_phase PrimFloat.float)) (total : PrimFloat.float) (sup : list vec) :
  simple_graph g -> (forall v, v < nv g -> In v roots) ->
  tf_mcb_sva_trees_go b g wts roots picks order = GoOk phases total sup ->
  Forall (fun p => gp_found p = true) phases ->
  let cycles := map gp_cycle phases in
  has_cycle_space_dimension g (length cycles) /\ Forall (in_cycle_space g) cycles
  /\ indep cycles /\ spans (in_cycle_space g) cycles
  /\ exists ws, Forall2 (tree_cycle_shape PrimFloat.float f64_zero f64_add g wts) cycles ws
               /\ total = fold_left PrimFloat.add ws PrimFloat.zero.
Proof.
  exact (fun Hs Hr => ft_go_structural PrimFloat.float f64_zero f64_add f64_ltb g wts roots Hs Hr b picks order phases total sup).
Qed.
Print Assumptions C09_binary64_trees_partial.

(* the full statement for a builder (NOT asserted; refuted for TbIso below, covered by the search for TbFvs): on weights of the
   domain every phase finds an answer — with C09_binary64_trees_partial this would make every run a cycle-space basis.  The
   quantitative clauses of C09 (within 1e-9 of the exact sum / of the true minimum) are not even stated: they need the exact
   real value of a double (Flocq) and a whole-algorithm rounding-error analysis. *)
Definition C09_binary64_trees_full_stmt (b : tbuilder) : Prop := trees_all_found_stmt b.

(* D9 inside the binary64 model *)
Theorem C09_iso_d9_in_model :
  (exists trees, tf_iso_cycles d9_graph d9_weights = CdOk (trees, []))
  /\ tf_mcb_sva_trees_first TbIso d9_graph d9_weights d9_roots [] = TRun (SvaNoCycle 0)
  /\ tf_mcb_sva_trees_order TbIso d9_graph d9_weights d9_roots [] [] = TRun (SvaNoCycle 0)
  /\ tf_mcb_sva_trees_go TbIso d9_graph d9_weights d9_roots [] []
     = GoOk [{| gp_signed := [0]; gp_cycle := []; gp_weight := PrimFloat.zero; gp_found := false |}] PrimFloat.zero [[0]]
  /\ tf_mcb_sva_trees_go TbFvs d9_graph d9_weights d9_roots [3] [0]
     = GoOk [{| gp_signed := [0]; gp_cycle := [0; 1; 2; 3]; gp_weight := d9_total; gp_found := true |}] d9_total [[0]]
  /\ mcb_sva_trees_first_Z TbIso d9_graph d9_weights_Z d9_roots [] = TRun (SvaOk [[0; 1; 2; 3]] 16%Z [[0]]).
Proof.
  exact (conj d9_iso_collection_empty (conj d9_iso_first_nocycle (conj d9_iso_order_nocycle (conj d9_iso_go (conj d9_fvs_go d9_iso_Z))))).
Qed.
Print Assumptions C09_iso_d9_in_model.

(* D9b inside the binary64 model (d9b_w5 = 0x1.6666666666666p+1, d9b_w3 = 0x1.cccccccccccccp+0, d9b_total = 0x1.2666666666666p+2,
   d9b_fvs_total = 0x1.ccccccccccccdp+1: FloatTreesProofs.v) *)
Theorem C09_iso_d9b_in_model :
  tf_mcb_sva_trees_go TbIso d9b_graph d9b_weights d9b_roots [] [0; 1]
  = GoOk [{| gp_signed := [1]; gp_cycle := [1; 2; 3; 4; 5]; gp_weight := d9b_w5; gp_found := true |};
          {| gp_signed := [1; 2]; gp_cycle := [0; 2; 4]; gp_weight := d9b_w3; gp_found := true |}]
         d9b_total [[0]; [0; 1]]
  /\ mcb_sva_trees_first_Z TbIso d9b_graph d9b_weights_Z d9b_roots [] = TRun (SvaOk [[0; 1; 3; 5]; [0; 2; 4]] 36%Z [[0]; [1]])
  /\ (exists phases sup, tf_mcb_sva_trees_go TbFvs d9b_graph d9b_weights d9b_roots [3] [0; 1] = GoOk phases d9b_fvs_total sup
                          /\ map gp_cycle phases = [[0; 1; 3; 5]; [0; 2; 4]])
  /\ tf_iso_cycles_strict d9b_graph d9b_weights = CdInconsistent.
Proof. exact (conj d9b_iso_go (conj d9b_iso_Z (conj d9b_fvs_go d9b_strict_inconsistent))). Qed.
Print Assumptions C09_iso_d9b_in_model.

Theorem C09_iso_all_found_refuted : ~ C09_binary64_trees_full_stmt TbIso.
Proof. exact d9_iso_all_found_refuted. Qed.
Print Assumptions C09_iso_all_found_refuted.

(* the hypotheses of the structural theorems about the trees are satisfiable on a concrete input with inexact weights (D9b's graph,
   FVS variant: a simple graph, roots covering the vertices, a completed run in which both phases found) *)
Example C09_trees_nonvacuous :
  simple_graph d9b_graph /\ (forall v, v < nv d9b_graph -> In v d9b_roots)
  /\ exists phases total sup, tf_mcb_sva_trees_go TbFvs d9b_graph d9b_weights d9b_roots [3] [0; 1] = GoOk phases total sup
       /\ Forall (fun p => gp_found p = true) phases /\ length phases = 2.
Proof.
  split; [exact d9b_simple|]. split; [exact d9b_roots_cover|].
  eexists _, _, _. split; [vm_compute; reflexivity|]. split; [repeat constructor|reflexivity].
Qed.
