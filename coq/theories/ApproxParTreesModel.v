(* ApproxParTreesModel.v — the tree-based TBB approximate entry points
     include/parmcb/parmcb_approx_sva_trees_tbb.hpp   approx_mcb_sva_fvs_trees_tbb  (exact phase mcb_sva_fvs_trees_tbb)
                                                      approx_mcb_sva_iso_trees_tbb  (exact phase mcb_sva_iso_trees_tbb —
                                                      unlike the sequential approx_mcb_sva_iso_trees, which instantiates
                                                      the FVS functor, the TBB flavour really runs the isometric builder)
   as ApproxParModel.approx_run_tbb with the exact phase = ParTreesModel.mcb_sva_trees_tbb_Z on the spanner (TBB lookup:
   parallel_for over the trees, parallel_reduce over ALL candidates in the arrangement `arr` std::sort left them in), under
   the same schedule stream.  The error values of that model (no collection / `arr` not a permutation) are mapped to
   SvaError, i.e. the run ends with ApproxError AeExact.  Definitions only; proofs in ApproxParProofs3.v. *)
From Coq Require Export ZArith.
From Parmcb Require Export ApproxParModel ParTreesModel.

Definition trees_tbb_exact (wmax : Z) (b : tbuilder) (roots picks arr : list nat) (bits : list bool)
           (h : graph) (wh : list Z) : sva_result Z * nat :=
  match mcb_sva_trees_tbb_Z wmax b h wh roots picks arr bits with
  | (PtRun r, pos) => (r, pos)
  | (_, pos) => (SvaError 0, pos)
  end.

(* b = TbFvs: approx_mcb_sva_fvs_trees_tbb;  b = TbIso: approx_mcb_sva_iso_trees_tbb.  `roots`, `picks`, `arr` are the
   oracles of the SPANNER graph; `wmax` stands for numeric_limits<WeightType>::max in the identity of the lookup's reduction *)
Definition approx_sva_trees_tbb_Z (wmax : Z) (b : tbuilder) (g : graph) (w : list Z) (k : nat)
           (scan roots picks arr : list nat) (bits : list bool) (perm_c perm_w : list nat) : tbb_result * nat :=
  approx_run_tbb (trees_tbb_exact wmax b roots picks arr bits) bits g w k scan perm_c perm_w.
