(* CandidatesProofsZ.v — C14 over Z with positive weights: every candidate of a shortest-path tree is a simple cycle
   through the root (two tree walks meeting only at the root + one non-tree edge) whose recorded weight is its true
   weight.  Built on cd_shape (CandidatesProofs.v) and the tree facts of C12.  Prefix cz_. *)
From Coq Require Import List Arith Bool Lia ZArith Permutation.
From Parmcb Require Import GraphModel GraphSpec GraphLemmas GF2Model GF2Proofs HeapModel LexSPModel FvsModel FvsProofs CandidatesModel
     LexSPProofsHeap LexSPProofs LexSPProofsDist CandidatesProofs.
Import ListNotations.

(* ---- reversing a walk ----------------------------------------------------------------------- *)
Fixpoint cz_rev (x : nat) (p : list (nat * nat)) : list (nat * nat) :=
  match p with
  | [] => []
  | (e, y) :: p' => cz_rev y p' ++ [(e, x)]
  end.

Lemma cz_rev_walk g x p z : simple_graph g -> walk g x p z -> walk g z (cz_rev x p) x.
Proof.
  intros Hs H. induction H as [x' Hx'|x' e y p z Hj Hw IH]; cbn [cz_rev].
  - constructor. exact Hx'.
  - pose proof (gl_simple_joins g e x' y Hs Hj) as [Hx _].
    eapply gl_walk_app; [exact IH|]. econstructor; [apply gl_joins_sym; exact Hj|constructor; exact Hx].
Qed.

Lemma cz_rev_wedges x p : wedges (cz_rev x p) = rev (wedges p).
Proof.
  revert x. induction p as [|[e y] p IH]; intros x; cbn [cz_rev]; [reflexivity|].
  unfold wedges in *. rewrite map_app, IH. reflexivity.
Qed.

Lemma cz_rev_wverts g x p z : walk g x p z -> z :: wverts (cz_rev x p) = rev (x :: wverts p).
Proof.
  induction 1 as [x Hx|x e y p z Hj Hw IH]; cbn [cz_rev]; [reflexivity|].
  unfold wverts in *. rewrite map_app. cbn [map snd]. rewrite app_comm_cons, IH. reflexivity.
Qed.

Lemma cz_weight_perm wts l l' : Permutation l l' -> weight wts l = weight wts l'.
Proof.
  unfold weight. induction 1; cbn [map fold_right]; try lia; try congruence.
Qed.

Lemma cz_weight_app wts l l' : weight wts (l ++ l') = (weight wts l + weight wts l')%Z.
Proof. unfold weight. induction l as [|x l IH]; cbn [app map fold_right]; [lia|]. rewrite IH. lia. Qed.

Lemma cz_NoDup_snoc {A} (l : list A) x : NoDup l -> ~ In x l -> NoDup (l ++ [x]).
Proof.
  intros Hl Hx. apply gl_NoDup_app; auto.
  - constructor; [intros []|constructor].
  - intros y Hy [<-|[]]. contradiction.
Qed.

Section ShapeZ.
  Variable g : graph.
  Variable wts : list Z.
  Variable s : nat.
  Variable t : sp_tree Z.
  Hypothesis Hsg : simple_graph g.
  Hypothesis Hpos : positive_weights g wts.
  Hypothesis Hspec : lx_tree_spec Z 0%Z Z.add g wts s t.

  Notation twalk := (lx_twalk Z g (st_nodes t)).

  (* a non-root node's stored weight exceeds its parent's by the weight of the predecessor edge *)
  Lemma cz_parent_weight y nd e : nth y (st_nodes t) None = Some nd -> sn_pred nd = Some e ->
    exists u ndu, opposite g e y = Some u /\ nth u (st_nodes t) None = Some ndu /\
                  sn_weight nd = (sn_weight ndu + wt wts e)%Z.
  Proof.
    intros Hy He.
    assert (Hyn : sp_node_of Z t y <> None) by (unfold sp_node_of; rewrite Hy; discriminate).
    destruct (ts_chain _ _ _ _ _ _ _ Hspec y Hyn) as [p Hp].
    pose proof Hp as Hp0.
    inversion Hp as [Hx Hnil|q u e0 v0 nd0 Hq Hv He0 Ho Happ]; subst.
    - destruct (cd_root_node Z 0%Z Z.add g wts y t Hspec) as [ndr [H1 H2]]. rewrite Hy in H1. injection H1 as <-. congruence.
    - rewrite Hy in Hv. injection Hv as <-. rewrite He in He0. injection He0 as <-.
      assert (Hun : nth u (st_nodes t) None <> None) by (eapply lx_twalk_end; eauto).
      destruct (nth u (st_nodes t) None) as [ndu|] eqn:Eu; [|contradiction].
      exists u, ndu. split; [exact Ho|]. split; [exact Eu|].
      rewrite (ts_weight _ _ _ _ _ _ _ Hspec y nd _ Hy Hp0), (ts_weight _ _ _ _ _ _ _ Hspec u ndu q Eu Hq).
      rewrite lx_wsum_snoc. reflexivity.
  Qed.

  (* the predecessor edge determines the child *)
  Lemma cz_pred_inj y y' nd nd' e :
    nth y (st_nodes t) None = Some nd -> nth y' (st_nodes t) None = Some nd' ->
    sn_pred nd = Some e -> sn_pred nd' = Some e -> y = y'.
  Proof.
    intros Hy Hy' He He'.
    destruct (cz_parent_weight y nd e Hy He) as [u [ndu [Ho [Hu Hw]]]].
    destruct (cz_parent_weight y' nd' e Hy' He') as [u' [ndu' [Ho' [Hu' Hw']]]].
    destruct (Nat.eq_dec y y') as [|Hne]; [assumption|exfalso].
    pose proof (lx_opposite_joins g e y u Ho) as Hj. pose proof (lx_opposite_joins g e y' u' Ho') as Hj'.
    pose proof (lz_wt_pos g wts e Hpos (gl_joins_lt g e u y Hj)) as Hwe.
    assert (Huy : u = y' /\ u' = y).
    { unfold joins in Hj, Hj'. destruct Hj as [H|H], Hj' as [H'|H']; rewrite H in H'; injection H' as -> ->; try contradiction; auto;
        exfalso; apply Hne; reflexivity. }
    destruct Huy as [-> ->]. rewrite Hy' in Hu. injection Hu as <-. rewrite Hy in Hu'. injection Hu' as <-. lia.
  Qed.

  Lemma cz_step_node x p v : twalk x p v -> forall e y, In (e, y) p ->
    exists nd, nth y (st_nodes t) None = Some nd /\ sn_pred nd = Some e.
  Proof.
    induction 1 as [Hx|p u e v nd Hp IH Hv He Ho]; intros e' y Hin; [destruct Hin|].
    apply in_app_iff in Hin as [Hin|[Hin|[]]]; [apply IH; exact Hin|]. injection Hin as <- <-. eauto.
  Qed.

  (* tree walks from the root are vertex-simple and edge-simple *)
  Lemma cz_twalk_NoDup_verts p v : twalk s p v -> NoDup (wverts p).
  Proof.
    induction 1 as [Hx|p u e v nd Hp IH Hv He Ho]; [constructor|].
    unfold wverts in *. rewrite map_app. cbn [map snd]. apply cz_NoDup_snoc; [exact IH|].
    intros Hin. apply in_map_iff in Hin as [[ey y] [Hy1 Hy2]]. cbn [snd] in Hy1. subst y.
    apply in_split in Hy2 as [p1 [p2 Hp12]].
    assert (Hfull : twalk s (p ++ [(e, v)]) v) by (eapply ltw_snoc; eauto).
    assert (Hpre : exists y', twalk s (p1 ++ [(ey, v)]) y').
    { apply (cd_twalk_prefix Z g t s (p1 ++ [(ey, v)]) (p2 ++ [(e, v)]) v).
      rewrite <- app_assoc. cbn [app]. rewrite Hp12 in Hfull. rewrite <- app_assoc in Hfull. exact Hfull. }
    destruct Hpre as [y' Hy'].
    pose proof (cd_twalk_snoc_inv Z g t s p1 ey v y' Hy') as [<- _].
    pose proof (cd_twalk_uniq Z 0%Z Z.add g wts s t Hspec _ _ _ Hy' Hfull) as Heq.
    apply (f_equal (@length _)) in Heq. rewrite Hp12 in Heq. rewrite !app_length in Heq. cbn [length] in Heq. lia.
  Qed.

  Lemma cz_twalk_NoDup_edges p v : twalk s p v -> NoDup (wedges p).
  Proof.
    intros H. pose proof (cz_twalk_NoDup_verts p v H) as Hnv. revert Hnv.
    induction H as [Hx|p u e v nd Hp IH Hv He Ho]; intros Hnv; [constructor|].
    unfold wedges, wverts in *. rewrite map_app in *. cbn [map fst snd] in *.
    assert (Hnv' : NoDup (map snd p) /\ ~ In v (map snd p)).
    { apply NoDup_remove in Hnv. rewrite app_nil_r in Hnv. exact Hnv. }
    destruct Hnv' as [Hnv1 Hnv2].
    apply cz_NoDup_snoc; [apply IH; exact Hnv1|].
    intros Hin. apply in_map_iff in Hin as [[e' y] [He' Hy]]. cbn [fst] in He'. subst e'.
    destruct (cz_step_node s p u Hp e y Hy) as [ndy [Hy1 Hy2]].
    pose proof (cz_pred_inj y v ndy nd e Hy1 Hv Hy2 He) as ->.
    apply Hnv2. apply in_map_iff. exists (e, v). auto.
  Qed.

  (* a candidate of t is a simple cycle through s with the recorded weight *)
  Theorem cz_candidate_cycle i c : cd_is_cand Z 0%Z Z.add g wts i t c ->
    exists a b pa pb C,
      ends g (c_edge c) = Some (a, b) /\ twalk s pa a /\ twalk s pb b /\
      (forall y, In y (wverts pa) -> In y (wverts pb) -> False) /\
      ~ In s (wverts pa) /\ ~ In s (wverts pb) /\
      ~ In (c_edge c) (cd_tree_edges Z t) /\
      walk g s (pa ++ (c_edge c, b) :: cz_rev s pb) s /\
      NoDup (wedges (pa ++ (c_edge c, b) :: cz_rev s pb)) /\ NoDup (wverts (pa ++ (c_edge c, b) :: cz_rev s pb)) /\
      (forall e, In e C <-> In e (wedges (pa ++ (c_edge c, b) :: cz_rev s pb))) /\
      simple_cycle g C /\ c_weight c = weight wts C.
  Proof.
    intros Hc. pose proof Hc as [_ [a0 [b0 [v0 [u0 [He0 [Hm0 _]]]]]]].
    destruct (cd_shape Z 0%Z Z.add g wts s t Hspec i c Hc) as [a [b [pa [pb [He [Hpa [Hpb [Hdis [Hsa [Hsb [Hea [Heb Hw]]]]]]]]]]]].
    set (e := c_edge c) in *.
    set (P := pa ++ (e, b) :: cz_rev s pb).
    set (C := set_of_list (wedges P)).
    pose proof (ts_len _ _ _ _ _ _ _ Hspec) as Hlen.
    pose proof (lx_twalk_walk Z g (st_nodes t) s pa a Hlen Hpa) as Hwa.
    pose proof (lx_twalk_walk Z g (st_nodes t) s pb b Hlen Hpb) as Hwb.
    assert (Hslt : s < nv g).
    { destruct (cd_root_node Z 0%Z Z.add g wts s t Hspec) as [ndr [H1 _]]. rewrite <- Hlen. eapply lx_nth_some_lt; eauto. }
    assert (Hjab : joins g e a b) by (left; exact He).
    assert (HwP : walk g s P s).
    { unfold P. eapply gl_walk_app; [exact Hwa|]. econstructor; [exact Hjab|]. apply cz_rev_walk; assumption. }
    assert (HedP : wedges P = wedges pa ++ e :: rev (wedges pb)).
    { unfold P, wedges. rewrite map_app. cbn [map fst]. fold (wedges (cz_rev s pb)). rewrite cz_rev_wedges. reflexivity. }
    assert (HvtP : wverts P = wverts pa ++ rev (s :: wverts pb)).
    { unfold P, wverts. rewrite map_app. cbn [map snd]. fold (wverts (cz_rev s pb)) (wverts pb).
      rewrite (cz_rev_wverts g s pb b Hwb). reflexivity. }
    assert (HndE : NoDup (wedges P)).
    { rewrite HedP. apply gl_NoDup_app.
      - apply cz_twalk_NoDup_edges with (v := a). exact Hpa.
      - constructor; [rewrite <- in_rev; exact Heb|]. apply NoDup_rev. apply cz_twalk_NoDup_edges with (v := b). exact Hpb.
      - intros x Hxa [<-|Hxb]; [contradiction|]. apply in_rev in Hxb.
        unfold wedges in Hxa, Hxb. apply in_map_iff in Hxa as [[e1 y1] [E1 H1]]. apply in_map_iff in Hxb as [[e2 y2] [E2 H2]].
        cbn [fst] in E1, E2. subst e1 e2.
        destruct (cz_step_node s pa a Hpa x y1 H1) as [n1 [N1 Q1]].
        destruct (cz_step_node s pb b Hpb x y2 H2) as [n2 [N2 Q2]].
        pose proof (cz_pred_inj y1 y2 n1 n2 x N1 N2 Q1 Q2) as ->.
        apply (Hdis y2); unfold wverts; apply in_map_iff; [exists (x, y2)|exists (x, y2)]; auto. }
    assert (HndV : NoDup (wverts P)).
    { rewrite HvtP. apply gl_NoDup_app.
      - apply cz_twalk_NoDup_verts with (v := a). exact Hpa.
      - apply NoDup_rev. constructor; [exact Hsb|]. apply cz_twalk_NoDup_verts with (v := b). exact Hpb.
      - intros y Hya Hyb. apply in_rev in Hyb. destruct Hyb as [<-|Hyb]; [contradiction|]. eapply Hdis; eauto. }
    assert (HC : forall x, In x C <-> In x (wedges P)).
    { intros x. unfold C. rewrite <- !mem_In. rewrite set_of_list_mem. unfold dset, mem. reflexivity. }
    exists a, b, pa, pb, C.
    repeat (split; [assumption|]).
    split; [apply gl_memb_false; exact Hm0|].
    repeat (split; [assumption|]).
    split.
    - (* simple_cycle *)
      split; [|split; [apply set_of_list_sorted|]].
      + intros Hnil. assert (Hin : In e C) by (apply HC; rewrite HedP; apply in_or_app; right; left; reflexivity).
        rewrite Hnil in Hin. destruct Hin.
      + exists s, P. auto.
    - (* weight *)
      assert (Hperm : Permutation C (wedges P)).
      { apply NoDup_Permutation; [apply gl_sorted_NoDup; apply set_of_list_sorted|exact HndE|exact HC]. }
      rewrite (cz_weight_perm wts _ _ Hperm), HedP, cz_weight_app.
      change (e :: rev (wedges pb)) with ([e] ++ rev (wedges pb)). rewrite cz_weight_app.
      rewrite (cz_weight_perm wts (rev (wedges pb)) (wedges pb)) by (apply Permutation_sym, Permutation_rev).
      rewrite Hw, !lz_wsum_sum, !lz_sum_weight. change (weight wts [e]) with (wt wts e + 0)%Z. unfold lx_wt, wt. lia.
  Qed.
End ShapeZ.

(* ---- the statements of C14 (vocabulary + final lemmas; Properties_C14.v only restates them) -------------- *)

(* C is the edge set of the cycle of candidate c in tree t: the tree walks pa, pb from the root to the endpoints of the
   candidate's edge meet only at the root, the edge is no tree edge, pa + edge + reversed pb is a closed walk through the
   root without repeated edge or vertex whose edge set is C, and the recorded weight is weight(C) *)
Definition c14_cycle (g : graph) (wts : list Z) (t : sp_tree Z) (c : cand Z) (C : list nat) : Prop :=
  exists a b pa pb,
    ends g (c_edge c) = Some (a, b) /\ c12_twalk g t pa a /\ c12_twalk g t pb b /\
    (forall y, In y (wverts pa) -> In y (wverts pb) -> False) /\
    ~ In (st_src t) (wverts pa) /\ ~ In (st_src t) (wverts pb) /\
    ~ In (c_edge c) (cd_tree_edges Z t) /\
    walk g (st_src t) (pa ++ (c_edge c, b) :: cz_rev (st_src t) pb) (st_src t) /\
    NoDup (wedges (pa ++ (c_edge c, b) :: cz_rev (st_src t) pb)) /\
    NoDup (wverts (pa ++ (c_edge c, b) :: cz_rev (st_src t) pb)) /\
    (forall e, In e C <-> In e (wedges (pa ++ (c_edge c, b) :: cz_rev (st_src t) pb))) /\
    simple_cycle g C /\ c_weight c = weight wts C.

(* every candidate of a collection is such a cycle, in the shortest-path tree of its root *)
Definition c14_sound (g : graph) (wts : list Z) (trees : list (sp_tree Z)) (cs : list (cand Z)) : Prop :=
  forall c, In c cs ->
  exists t C, nth_error trees (c_tree c) = Some t /\ sptree_Z g wts (st_src t) = LxOk t /\ c14_cycle g wts t c C.

Lemma cz_roots_sound g wts roots trees cs :
  simple_graph g -> positive_weights g wts ->
  cycles_of_roots Z 0%Z Z.add Z.ltb g wts roots = CdOk (trees, cs) -> c14_sound g wts trees cs.
Proof.
  intros Hsg Hpos Hr c Hc. apply cd_cycles_of_roots_inv in Hr as [Fr ->].
  apply cd_cycles_of_trees_In in Hc as [t [Hn Hcand]].
  destruct (proj2 (cd_Forall2_nth _ _ _ Fr (c_tree c)) t Hn) as [r [Hrn Hrt]].
  destruct (cd_sptree_src Z 0%Z Z.add Z.ltb g wts r t Hrt) as [Hsrc Hrlt].
  pose proof (lx_sptree_spec Z 0%Z Z.add Z.ltb g wts r t Hrt) as Hspec.
  destruct (cz_candidate_cycle g wts r t Hsg Hpos Hspec _ c Hcand)
    as [a [b [pa [pb [C [H1 [H2 [H3 [H4 [H5 [H6 [H7 [H8 [H9 [H10 [H11 [H12 H13]]]]]]]]]]]]]]]]].
  exists t, C. split; [exact Hn|]. rewrite Hsrc. split; [exact Hrt|].
  exists a, b, pa, pb. unfold c12_twalk. rewrite Hsrc. repeat (split; [assumption|]). assumption.
Qed.

Lemma cz_C14_sound_horton g wts trees cs :
  simple_graph g -> positive_weights g wts ->
  horton_cycles_Z g wts = CdOk (trees, cs) -> c14_sound g wts trees cs.
Proof. intros Hsg Hpos. apply cz_roots_sound; auto. Qed.

Lemma cz_C14_sound_fvs g wts picks trees cs :
  simple_graph g -> positive_weights g wts ->
  fvs_cycles_Z g wts picks = CdOk (trees, cs) -> c14_sound g wts trees cs.
Proof.
  intros Hsg Hpos. unfold fvs_cycles_Z, fvs_cycles. destruct (greedy_fvs g picks) as [fvs| | |]; try discriminate.
  apply cz_roots_sound; auto.
Qed.

Lemma cz_C14_sound_iso g wts trees cs :
  simple_graph g -> positive_weights g wts ->
  iso_cycles_Z g wts = CdOk (trees, cs) -> c14_sound g wts trees cs.
Proof.
  intros Hsg Hpos Hi. destruct (cd_iso_nested Z 0%Z Z.add Z.ltb g wts trees cs Hi) as [hcs [Hh Hincl]].
  intros c Hc. apply (cz_C14_sound_horton g wts trees hcs Hsg Hpos Hh). apply Hincl. exact Hc.
Qed.

(* nestedness, as sets of (root, edge) — with equal weights *)
Definition c14_sub (trees : list (sp_tree Z)) (cs : list (cand Z)) (htrees : list (sp_tree Z)) (hcs : list (cand Z)) : Prop :=
  forall c, In c cs ->
  exists c', In c' hcs /\ cd_root Z htrees c' = cd_root Z trees c /\ cd_root Z trees c <> None /\
             c_edge c' = c_edge c /\ c_weight c' = c_weight c.

Lemma cz_C14_nested g wts htrees hcs :
  horton_cycles_Z g wts = CdOk (htrees, hcs) ->
  (forall picks trees cs, fvs_cycles_Z g wts picks = CdOk (trees, cs) -> c14_sub trees cs htrees hcs) /\
  (forall trees cs, iso_cycles_Z g wts = CdOk (trees, cs) -> c14_sub trees cs htrees hcs).
Proof.
  intros Hh. split.
  - intros picks trees cs Hf. exact (cd_fvs_nested Z 0%Z Z.add Z.ltb g wts picks trees cs htrees hcs Hf Hh).
  - intros trees cs Hi. destruct (cd_iso_nested Z 0%Z Z.add Z.ltb g wts trees cs Hi) as [hcs' [Hh' Hincl]].
    unfold horton_cycles_Z in Hh. rewrite Hh in Hh'. injection Hh' as <- <-.
    intros c Hc. exists c. split; [apply Hincl; exact Hc|]. split; [reflexivity|].
    assert (Hin : In c hcs) by (apply Hincl; exact Hc).
    unfold horton_cycles in Hh. apply cd_cycles_of_roots_inv in Hh as [_ ->].
    apply cd_cycles_of_trees_In in Hin as [t [Hn _]]. unfold cd_root. rewrite Hn. cbn [option_map].
    split; [discriminate|auto].
Qed.

(* the collections exist (no error value) on simple graphs with positive weights: Horton's and, for every complete run of
   greedy_fvs, the FVS collection.  (The isometric builder's absence of CdInconsistent depends on the consistency of the
   trees, which is not proved: see C12_consistent_statement.) *)
Lemma cz_C14_total g wts :
  simple_graph g -> positive_weights g wts ->
  (exists trees cs, horton_cycles_Z g wts = CdOk (trees, cs)) /\
  (forall picks fvs, greedy_fvs g picks = FvsOk fvs ->
                     exists trees cs, fvs_cycles_Z g wts picks = CdOk (trees, cs)).
Proof.
  intros Hsg Hpos.
  assert (Hroots : forall roots, Forall (fun v => v < nv g) roots ->
            exists trees cs, cycles_of_roots Z 0%Z Z.add Z.ltb g wts roots = CdOk (trees, cs)).
  { intros roots Hr. unfold cycles_of_roots, cd_trees.
    destruct (lx_all_ok Z 0%Z Z.add Z.ltb g wts roots) as [ts [E _]].
    - intros r Hin. rewrite Forall_forall in Hr. destruct (lz_C12_dist g wts r Hsg Hpos (Hr r Hin)) as [t [Ht _]]. eauto.
    - rewrite E. eauto. }
  split.
  - apply Hroots. apply Forall_forall. intros v Hv. apply in_seq in Hv. lia.
  - intros picks fvs Hf. unfold fvs_cycles_Z, fvs_cycles. rewrite Hf. apply Hroots.
    destruct (greedy_fvs_correct g picks fvs Hsg Hf) as [_ [_ [Hlt _]]]. apply Forall_forall. exact Hlt.
Qed.
