(* SignedProofs.v — soundness of the signed search of SignedModel.v, for ANY weight type, ANY weights and
   ANY heap behaviour (no optimality is used or proved here):

     bidir_found          a Found answer of bidirectional_signed_dijkstra is the sorted edge set of an
                          edge-simple walk between the two sources, avoiding the hidden edges, whose number
                          of signed edges has the parity (s_pos xor t_pos)
     all_vertices_sound / hidden_edges_sound
                          the running best of the two branches of a phase is always an element of the cycle
                          space with an odd number of signed edges
     pairing_par          bridge: <S, c> over forest-index coordinates = parity of |c ∩ indices_to_edges S|
     signed_phase_sound   search_sound_c g fi (signed_phase …)
     mcb_sva_signed_basis_partial
                          an SvaOk answer of mcb_sva_signed is a basis of the cycle space (dimension,
                          independence, span) — unconditionally (no premise about the search)
     C01/C02_signed_modulo_search_lemma
                          Z weights: with search_min_c / search_total of the signed phase as explicit
                          premises, mcb_sva_signed_Z returns a minimum cycle basis with its weight.

   The technique: a LOCAL invariant of a frontier (pred_ok: every predecessor entry is a graph edge between
   the right signed copies, not hidden), preserved by every frontier operation whatever the heap holds.
   No axioms. *)
From Coq Require Import List Arith Bool ZArith Lia Sorted Permutation.
From Parmcb Require Import GraphModel GF2Model GF2Proofs GraphSpec GraphLemmas GF2Lin McbSpec DePinaSpec
     ForestModel ForestProofs HeapModel SvaModel SvaSpec DePinaProofs SvaProofs SignedModel SignedZModel.
Import ListNotations.

(* ---- parity of the number of signed edges of an edge list ------------------------------------ *)

Definition par (sg l : list nat) : bool := xsum (map (fun e => memb e sg) l).

Lemma par_nil sg : par sg [] = false.
Proof. reflexivity. Qed.

Lemma par_cons sg e l : par sg (e :: l) = xorb (memb e sg) (par sg l).
Proof. reflexivity. Qed.

Lemma par_app sg a b : par sg (a ++ b) = xorb (par sg a) (par sg b).
Proof.
  induction a as [|e a IH]; [cbn [app]; rewrite par_nil; destruct (par sg b); reflexivity|].
  cbn [app]. rewrite !par_cons, IH. apply eq_sym, xorb_assoc.
Qed.

Lemma par_rev sg l : par sg (rev l) = par sg l.
Proof.
  induction l as [|e l IH]; [reflexivity|].
  cbn [rev]. rewrite par_app, !par_cons, par_nil, IH, xorb_false_r. apply xorb_comm.
Qed.

Lemma xsum_perm l l' : Permutation l l' -> xsum l = xsum l'.
Proof.
  induction 1 as [|x l l' _ IH|x y l|l l' l'' _ IH1 _ IH2]; auto.
  - rewrite !xsum_cons, IH. reflexivity.
  - rewrite !xsum_cons. destruct x, y, (xsum l); reflexivity.
  - congruence.
Qed.

Lemma par_perm sg l l' : Permutation l l' -> par sg l = par sg l'.
Proof. intros H. unfold par. apply xsum_perm, Permutation_map, H. Qed.

Lemma par_same_set sg l l' : NoDup l -> NoDup l' -> (forall e, In e l <-> In e l') -> par sg l = par sg l'.
Proof. intros H H' E. apply par_perm, NoDup_Permutation; assumption. Qed.

(* ---- list helpers ------------------------------------------------------------------------------ *)

Lemma sg_nth_set_nth_cases {A} (l : list A) : forall i x j d,
  nth j (GraphModel.set_nth l i x) d = nth j l d
  \/ (j = i /\ nth j (GraphModel.set_nth l i x) d = x).
Proof.
  induction l as [|y l IH]; intros i x j d; [left; reflexivity|].
  destruct i as [|i], j as [|j]; cbn [GraphModel.set_nth nth]; auto.
  destruct (IH i x j d) as [H|[-> H]]; auto.
Qed.

Lemma sg_nth_map_none {A B} (l : list A) u : nth u (map (fun _ => @None B) l) None = None.
Proof. revert u. induction l as [|y l IH]; intros [|u]; cbn [map nth]; auto. Qed.

Lemma sg_set_insert_In x s e : In e (set_insert x s) <-> e = x \/ In e s.
Proof.
  rewrite <- !mem_In, set_insert_mem, orb_true_iff, Nat.eqb_eq. reflexivity.
Qed.

(* ---- walks --------------------------------------------------------------------------------------- *)

Lemma sg_wedges_app (a b : list (nat * nat)) : wedges (a ++ b) = wedges a ++ wedges b.
Proof. unfold wedges. apply map_app. Qed.

Lemma sg_walk_rev g x p z : simple_graph g -> walk g x p z ->
  exists p', walk g z p' x /\ wedges p' = rev (wedges p).
Proof.
  intros Hs H. induction H as [x Hx|x e y p z Hj Hw (p' & Hw' & E)].
  - exists []. split; [constructor; exact Hx|reflexivity].
  - exists (p' ++ [(e, x)]). split.
    + eapply gl_walk_app; [exact Hw'|]. econstructor; [apply gl_joins_sym; exact Hj|].
      constructor. apply (gl_simple_joins g e x y Hs Hj).
    + rewrite sg_wedges_app, E. reflexivity.
Qed.

(* the edge set of an edge-simple closed walk is in the cycle space *)
Lemma sg_closed_walk_cs g x p c : simple_graph g -> walk g x p x -> NoDup (wedges p) ->
  sorted c -> (forall e, In e c <-> In e (wedges p)) -> in_cycle_space g c.
Proof.
  intros Hs Hw Hnd Sc HE. split; [exact Sc|]. split.
  - intros e He. eapply gl_walk_edges_lt; [exact Hw|]. apply HE. exact He.
  - intros v. unfold deg_in.
    rewrite (dp_filter_length_same_set _ c (wedges p)) by auto using gl_sorted_NoDup.
    pose proof (dp_walk_degree g Hs x p x Hw v) as Hd. apply Nat.even_spec.
    exists (length (filter (fun y => Nat.eqb y v) (wverts p))). lia.
Qed.

(* ---- signed vertex numbering -------------------------------------------------------------------- *)

Lemma sg_vertex_of_signed_id n w b : w < n -> vertex_of n (signed_id n w b) = w.
Proof.
  intros Hw. unfold vertex_of, signed_id. destruct b.
  - destruct (Nat.ltb_spec w n); [reflexivity|lia].
  - destruct (Nat.ltb_spec (w + n) n); lia.
Qed.

Lemma sg_sign_of_signed_id n w b : w < n -> sign_of n (signed_id n w b) = b.
Proof.
  intros Hw. unfold sign_of, signed_id. destruct b.
  - apply Nat.ltb_lt; exact Hw.
  - apply Nat.ltb_ge. lia.
Qed.

Section SignedSound.
  Variable W : Type.
  Variable w0 : W.
  Variable wadd : W -> W -> W.
  Variable wltb : W -> W -> bool.

  Local Notation fsrc := (f_src W).
  Local Notation fpred := (f_pred W).
  Local Notation spg := (sp_g W).

  (* ---- (a) the local invariant of a frontier ------------------------------------------------- *)

  (* pred[u] = (p, e) is a legal step p -> u of the signed graph *)
  Definition edge_ok (P : sparams W) (u p e : nat) : Prop :=
    joins (spg P) e (vertex_of (nv (spg P)) p) (vertex_of (nv (spg P)) u)
    /\ sign_of (nv (spg P)) u = xorb (sign_of (nv (spg P)) p) (memb e (sp_signed W P))
    /\ (sp_use_hidden W P = true -> memb e (sp_hidden W P) = false).

  Definition pred_ok (P : sparams W) (f : frontier W) : Prop :=
    forall u p e, nth u (fpred f) None = Some (p, e) -> edge_ok P u p e.

  Lemma fr_init_ok P n s : pred_ok P (fr_init W w0 n s).
  Proof.
    intros u p e H. unfold fr_init in H. cbn [f_pred] in H. rewrite sg_nth_map_none in H. discriminate.
  Qed.

  Lemma fr_init_src n s : fsrc (fr_init W w0 n s) = s.
  Proof. reflexivity. Qed.

  Lemma fr_update_spec f w c p e f' : fr_update W wltb f w c p e = Some f' ->
    fsrc f' = fsrc f /\
    (fpred f' = fpred f \/ fpred f' = GraphModel.set_nth (fpred f) w (Some (p, e))).
  Proof.
    unfold fr_update. intros H.
    destruct (w =? fsrc f); [injection H as <-; auto|].
    destruct (nth w (fpred f) None) as [pe|].
    - destruct (fr_dist W f w) as [dw|]; [|discriminate].
      destruct (wltb c dw).
      + match type of H with match ?x with _ => _ end = _ => destruct x as [h'|] end; [|discriminate].
        injection H as <-. cbn [f_src f_pred]. auto.
      + injection H as <-. auto.
    - injection H as <-. cbn [f_src f_pred]. auto.
  Qed.

  Lemma fr_update_ok P f w c p e f' : pred_ok P f -> edge_ok P w p e ->
    fr_update W wltb f w c p e = Some f' -> pred_ok P f' /\ fsrc f' = fsrc f.
  Proof.
    intros Hf He H. apply fr_update_spec in H as [Hsrc [Hp|Hp]]; (split; [|exact Hsrc]).
    - intros u p' e' Hu. rewrite Hp in Hu. apply Hf; exact Hu.
    - intros u p' e' Hu. rewrite Hp in Hu.
      destruct (sg_nth_set_nth_cases (fpred f) w (Some (p, e)) u None) as [E|[-> E]];
        rewrite E in Hu.
      + apply Hf; exact Hu.
      + injection Hu as <- <-. exact He.
  Qed.

  Lemma fr_poll_spec f u f1 : fr_poll W wltb f = Some (u, f1) -> fsrc f1 = fsrc f /\ fpred f1 = fpred f.
  Proof.
    unfold fr_poll. destruct (heap_top (f_heap W f)); [|discriminate].
    intros H. injection H as _ <-. auto.
  Qed.

  Lemma scan_edge_none P other su du ew : scan_edge W w0 wadd wltb P other su du None ew = None.
  Proof. reflexivity. Qed.

  Lemma scan_fold_none P other su du l :
    fold_left (scan_edge W w0 wadd wltb P other su du) l None = None.
  Proof. induction l as [|ew l IH]; [reflexivity|]. cbn [fold_left]. rewrite scan_edge_none. exact IH. Qed.

  Lemma scan_edge_ok P other su du fr best e w fr' best' :
    simple_graph (spg P) -> joins (spg P) e (vertex_of (nv (spg P)) su) w -> pred_ok P fr ->
    scan_edge W w0 wadd wltb P other su du (Some (fr, best)) (e, w) = Some (fr', best') ->
    pred_ok P fr' /\ fsrc fr' = fsrc fr.
  Proof.
    intros Hs Hj Hf H. unfold scan_edge in H.
    destruct (sp_use_hidden W P && memb e (sp_hidden W P)) eqn:Ehid; [injection H as <- _; auto|].
    destruct (w =? vertex_of (nv (spg P)) su); [injection H as <- _; auto|].
    destruct (negb (below_limit W wltb P (wadd du (wtof W w0 (sp_wts W P) e))));
      [injection H as <- _; auto|].
    match type of H with match ?x with _ => _ end = _ => destruct x as [fr1|] eqn:Eup end; [|discriminate].
    assert (Hok : pred_ok P fr1 /\ fsrc fr1 = fsrc fr).
    { eapply fr_update_ok; [exact Hf| |exact Eup].
      destruct (gl_simple_joins _ _ _ _ Hs Hj) as (_ & Hw & _).
      unfold edge_ok. rewrite sg_vertex_of_signed_id, sg_sign_of_signed_id by exact Hw.
      split; [exact Hj|]. split.
      - destruct (memb e (sp_signed W P)), (sign_of (nv (spg P)) su); reflexivity.
      - intros Hu. rewrite Hu in Ehid. exact Ehid. }
    match type of H with (if ?c then _ else _) = _ => destruct c end.
    - match type of H with match ?x with _ => _ end = _ => destruct x as [dw|] end; [|discriminate].
      destruct best as [[bp bc]|].
      + match type of H with (if ?c then _ else _) = _ => destruct c end; injection H as <- _; exact Hok.
      + injection H as <- _; exact Hok.
    - injection H as <- _; exact Hok.
  Qed.

  Lemma scan_fold_ok P other su du : simple_graph (spg P) -> forall l,
    (forall e w, In (e, w) l -> joins (spg P) e (vertex_of (nv (spg P)) su) w) ->
    forall fr best fr' best', pred_ok P fr ->
    fold_left (scan_edge W w0 wadd wltb P other su du) l (Some (fr, best)) = Some (fr', best') ->
    pred_ok P fr' /\ fsrc fr' = fsrc fr.
  Proof.
    intros Hs. induction l as [|[e w] l IH]; intros Hl fr best fr' best' Hf H.
    - cbn [fold_left] in H. injection H as <- _. auto.
    - cbn [fold_left] in H.
      destruct (scan_edge W w0 wadd wltb P other su du (Some (fr, best)) (e, w)) as [[fr1 best1]|] eqn:E1.
      + destruct (scan_edge_ok P other su du fr best e w fr1 best1 Hs (Hl e w (or_introl eq_refl)) Hf E1)
          as [Hf1 Hs1].
        destruct (IH (fun e' w' Hin => Hl e' w' (or_intror Hin)) fr1 best1 fr' best' Hf1 H) as [Hf' Hs'].
        split; [exact Hf'|congruence].
      + rewrite scan_fold_none in H. discriminate.
  Qed.

  Lemma bidir_loop_ok P : simple_graph (spg P) -> forall fuel fr other best fr' other' best',
    pred_ok P fr -> pred_ok P other ->
    bidir_loop W w0 wadd wltb fuel P fr other best = LoopDone W fr' other' best' ->
    pred_ok P fr' /\ pred_ok P other'
    /\ ((fsrc fr' = fsrc fr /\ fsrc other' = fsrc other) \/ (fsrc fr' = fsrc other /\ fsrc other' = fsrc fr)).
  Proof.
    intros Hs. induction fuel as [|fuel IH]; intros fr other best fr' other' best' Hf Ho H;
      [discriminate|].
    cbn [bidir_loop] in H.
    destruct (f_heap W fr) as [|hx hr]; [injection H as <- <- _; auto|].
    destruct (f_heap W other) as [|ox or]; [injection H as <- <- _; auto|].
    match type of H with (if ?c then _ else _) = _ => destruct c end; [injection H as <- <- _; auto|].
    destruct (fr_poll W wltb fr) as [[su fr1]|] eqn:Ep; [|discriminate].
    apply fr_poll_spec in Ep as [Es1 Ep1].
    destruct (fr_dist W fr1 su) as [du|]; [|discriminate].
    destruct (negb (below_limit W wltb P du)); [discriminate|].
    match type of H with match ?x with _ => _ end = _ => destruct x as [[fr2 best2]|] eqn:Ef end;
      [|discriminate].
    assert (Hf1 : pred_ok P fr1) by (intros u p e Hu; rewrite Ep1 in Hu; apply Hf; exact Hu).
    apply scan_fold_ok in Ef as [Hf2 Es2]; [|exact Hs| |exact Hf1].
    - apply IH in H as (H1 & H2 & H3); [|exact Ho|exact Hf2].
      split; [exact H1|]. split; [exact H2|]. rewrite Es2, Es1 in H3. tauto.
    - intros e w Hin. apply gl_out_edges_joins. exact Hin.
  Qed.

  (* ---- (b) following the predecessors ---------------------------------------------------------- *)

  Lemma follow_spec P f : simple_graph (spg P) -> pred_ok P f -> fsrc f < 2 * nv (spg P) ->
    forall fuel cur cyc cw cyc' cw',
    sorted cyc ->
    follow W w0 wadd fuel P f cur cyc cw = Some (Some (cyc', cw')) ->
    exists q, walk (spg P) (vertex_of (nv (spg P)) cur) q (vertex_of (nv (spg P)) (fsrc f))
      /\ NoDup (wedges q)
      /\ (forall e, In e (wedges q) -> ~ In e cyc)
      /\ (forall e, In e cyc' <-> In e cyc \/ In e (wedges q))
      /\ sorted cyc'
      /\ par (sp_signed W P) (wedges q)
         = xorb (sign_of (nv (spg P)) cur) (sign_of (nv (spg P)) (fsrc f))
      /\ (sp_use_hidden W P = true -> forall e, In e (wedges q) -> memb e (sp_hidden W P) = false).
  Proof.
    intros Hs Hf Hsrc. induction fuel as [|fuel IH]; intros cur cyc cw cyc' cw' Sc H; [discriminate|].
    cbn [follow] in H. destruct (Nat.eqb_spec cur (fsrc f)) as [->|Hne].
    - injection H as <- _. exists []. cbn [wedges map].
      split.
      { constructor. unfold vertex_of. destruct (Nat.ltb_spec (fsrc f) (nv (spg P))); lia. }
      split; [constructor|]. split; [intros e []|]. split; [intros e; cbn [In]; tauto|]. split; [exact Sc|].
      split; [rewrite par_nil, xorb_nilpotent; reflexivity|intros _ e []].
    - destruct (nth cur (fpred f) None) as [[p e]|] eqn:Ec; [|discriminate].
      destruct (memb e cyc) eqn:Em; [discriminate|].
      apply IH in H; [|apply set_insert_sorted; exact Sc].
      destruct H as (q & Hw & Hnd & Hdis & Hset & Sc' & Hpar & Hhid).
      destruct (Hf cur p e Ec) as (Hj & Hsg & Hh).
      exists ((e, vertex_of (nv (spg P)) p) :: q). cbn [wedges map fst].
      assert (Hnq : ~ In e (wedges q)).
      { intros Hin. apply (Hdis e Hin). apply sg_set_insert_In. left; reflexivity. }
      split; [econstructor; [apply gl_joins_sym; exact Hj|exact Hw]|].
      split; [constructor; assumption|].
      split.
      { intros a [<-|Ha]; [apply gl_memb_false; exact Em|].
        intros Hin. apply (Hdis a Ha). apply sg_set_insert_In. right; exact Hin. }
      split.
      { intros a. rewrite Hset, sg_set_insert_In. cbn [In]. intuition. }
      split; [exact Sc'|]. split.
      { rewrite par_cons. fold (wedges q). rewrite Hpar, Hsg.
        destruct (sign_of (nv (spg P)) p), (memb e (sp_signed W P)), (sign_of (nv (spg P)) (fsrc f));
          reflexivity. }
      intros Hu a [<-|Ha]; [apply Hh; exact Hu|apply Hhid; assumption].
  Qed.

  (* ---- (c) a Found answer ---------------------------------------------------------------------- *)

  (* cyc is the canonical edge set of an edge-simple walk a ~> b avoiding hidden edges *)
  Definition path_result (P : sparams W) (a b : nat) (par_ab : bool) (cyc : list nat) : Prop :=
    exists q, walk (spg P) a q b /\ NoDup (wedges q) /\ sorted cyc
      /\ (forall e, In e cyc <-> In e (wedges q))
      /\ par (sp_signed W P) (wedges q) = par_ab
      /\ (sp_use_hidden W P = true -> forall e, In e (wedges q) -> memb e (sp_hidden W P) = false).

  Lemma bidir_found P s spos t tpos cyc w : simple_graph (spg P) ->
    s < nv (spg P) -> t < nv (spg P) ->
    bidirectional_signed_dijkstra W w0 wadd wltb P s spos t tpos = Found W cyc w ->
    path_result P s t (xorb spos tpos) cyc \/ path_result P t s (xorb spos tpos) cyc.
  Proof.
    intros Hs Hsn Htn H. unfold bidirectional_signed_dijkstra in H.
    set (n := nv (spg P)) in *.
    set (ss := signed_id n s spos) in *. set (st := signed_id n t tpos) in *.
    destruct (bidir_loop W w0 wadd wltb (4 * n + 2) P (fr_init W w0 n ss) (fr_init W w0 n st) None)
      as [fr other best| | |] eqn:El; try discriminate.
    apply bidir_loop_ok in El as (Hf & Ho & Hsrc); [|exact Hs|apply fr_init_ok|apply fr_init_ok].
    rewrite !fr_init_src in Hsrc.
    destruct best as [[bp common]|]; [|discriminate].
    destruct (negb (below_limit W wltb P bp)); [discriminate|].
    destruct (follow W w0 wadd (2 * n + 1) P fr common [] w0) as [[[cyc1 cw1]|]|] eqn:F1; try discriminate.
    destruct (follow W w0 wadd (2 * n + 1) P other common cyc1 cw1) as [[[cyc2 cw2]|]|] eqn:F2;
      try discriminate.
    injection H as <- _.
    assert (Hss : ss < 2 * n) by (unfold ss, signed_id; destruct spos; lia).
    assert (Hst : st < 2 * n) by (unfold st, signed_id; destruct tpos; lia).
    assert (Hvs : vertex_of n ss = s) by (apply sg_vertex_of_signed_id; exact Hsn).
    assert (Hvt : vertex_of n st = t) by (apply sg_vertex_of_signed_id; exact Htn).
    assert (Hgs : sign_of n ss = spos) by (apply sg_sign_of_signed_id; exact Hsn).
    assert (Hgt : sign_of n st = tpos) by (apply sg_sign_of_signed_id; exact Htn).
    assert (Hsf : fsrc fr < 2 * n) by (destruct Hsrc as [[-> _]|[-> _]]; assumption).
    assert (Hso : fsrc other < 2 * n) by (destruct Hsrc as [[_ ->]|[_ ->]]; assumption).
    apply (follow_spec P fr Hs Hf Hsf) in F1; [|apply sorted_nil].
    destruct F1 as (q1 & Hw1 & Hnd1 & _ & Hset1 & Sc1 & Hpar1 & Hhid1).
    apply (follow_spec P other Hs Ho Hso) in F2; [|exact Sc1].
    destruct F2 as (q2 & Hw2 & Hnd2 & Hdis2 & Hset2 & Sc2 & Hpar2 & Hhid2).
    fold n in Hw1, Hw2, Hpar1, Hpar2.
    destruct (sg_walk_rev _ _ _ _ Hs Hw1) as (q1' & Hw1' & E1).
    assert (Hres : path_result P (vertex_of n (fsrc fr)) (vertex_of n (fsrc other))
                     (xorb (sign_of n (fsrc fr)) (sign_of n (fsrc other))) cyc2).
    { exists (q1' ++ q2). split; [eapply gl_walk_app; eassumption|].
      rewrite sg_wedges_app, E1. split.
      { apply gl_NoDup_app; [apply NoDup_rev; exact Hnd1|exact Hnd2|].
        intros e He He2. apply in_rev in He. apply (Hdis2 e He2). apply Hset1. right; exact He. }
      split; [exact Sc2|]. split.
      { intros e. rewrite Hset2, Hset1, in_app_iff, <- in_rev. cbn [In]. tauto. }
      split.
      { rewrite par_app, par_rev, Hpar1, Hpar2.
        destruct (sign_of n common), (sign_of n (fsrc fr)), (sign_of n (fsrc other)); reflexivity. }
      intros Hu e He. apply in_app_iff in He as [He|He];
        [apply Hhid1; [exact Hu|apply in_rev; exact He]|apply Hhid2; assumption]. }
    destruct Hsrc as [[Ea Eb]|[Ea Eb]]; rewrite Ea, Eb in Hres.
    - left. rewrite Hvs, Hvt, Hgs, Hgt in Hres. exact Hres.
    - right. rewrite Hvs, Hvt, Hgs, Hgt, xorb_comm in Hres. exact Hres.
  Qed.

  (* ---- (d) the two branches of a phase ----------------------------------------------------------- *)

  (* an element of the cycle space with an odd number of signed edges *)
  Definition odd_cs (g : graph) (signed c : list nat) : Prop :=
    in_cycle_space g c /\ par signed c = true.

  Definition best_ok (g : graph) (signed : list nat) (best : option (list nat * W)) : Prop :=
    match best with None => True | Some (c, _) => odd_cs g signed c end.

  Lemma path_result_par P a b pab c : path_result P a b pab c -> par (sp_signed W P) c = pab.
  Proof.
    intros (q & _ & Hnd & Sc & HE & Hpar & _). rewrite <- Hpar.
    apply par_same_set; [apply gl_sorted_NoDup; exact Sc|exact Hnd|exact HE].
  Qed.

  (* all-vertices branch: a walk v+ ~> v- is closed *)
  Lemma path_closed_odd P v c : simple_graph (spg P) -> path_result P v v true c ->
    odd_cs (spg P) (sp_signed W P) c.
  Proof.
    intros Hs Hp. split; [|eapply path_result_par; exact Hp].
    destruct Hp as (q & Hw & Hnd & Sc & HE & _). eapply sg_closed_walk_cs; eassumption.
  Qed.

  (* hidden-edge branch: a walk a ~> b with an even number of signed edges, closed by the signed edge se *)
  Lemma path_close_odd P a b se c : path_result P a b false c -> simple_graph (spg P) ->
    joins (spg P) se b a -> In se (sp_signed W P) -> ~ In se c ->
    odd_cs (spg P) (sp_signed W P) (set_insert se c).
  Proof.
    intros (q & Hw & Hnd & Sc & HE & Hpar & _) Hs Hj Hsg Hnin.
    assert (Hw' : walk (spg P) a (q ++ [(se, a)]) a).
    { eapply gl_walk_app; [exact Hw|]. econstructor; [exact Hj|]. constructor.
      apply (gl_simple_joins _ _ _ _ Hs Hj). }
    assert (Hnd' : NoDup (wedges (q ++ [(se, a)]))).
    { rewrite sg_wedges_app. cbn [wedges map fst]. apply gl_NoDup_app; [exact Hnd|repeat constructor; intros []|].
      intros e He [<-|[]]. apply Hnin, HE, He. }
    assert (HE' : forall e, In e (set_insert se c) <-> In e (wedges (q ++ [(se, a)]))).
    { intros e. rewrite sg_set_insert_In, sg_wedges_app, in_app_iff, HE. cbn [wedges map fst In].
      intuition. }
    pose proof (set_insert_sorted se c Sc) as Sc'.
    split; [eapply sg_closed_walk_cs; eassumption|].
    rewrite (par_same_set _ _ (wedges (q ++ [(se, a)]))); [|apply gl_sorted_NoDup; exact Sc'|exact Hnd'|exact HE'].
    rewrite sg_wedges_app, par_app, Hpar. cbn [wedges map fst]. rewrite par_cons, par_nil.
    apply gl_memb_In in Hsg. rewrite Hsg. reflexivity.
  Qed.

  Lemma all_vertices_sound g wts signed : simple_graph g -> forall vs best res,
    (forall v, In v vs -> v < nv g) -> best_ok g signed best ->
    all_vertices W w0 wadd wltb g wts signed vs best = Some res -> best_ok g signed res.
  Proof.
    intros Hs. induction vs as [|v vs IH]; intros best res Hvs Hb H.
    - cbn [all_vertices] in H. injection H as <-. exact Hb.
    - cbn [all_vertices] in H.
      assert (Hvs' : forall v', In v' vs -> v' < nv g) by (intros v' Hin; apply Hvs; right; exact Hin).
      match type of H with match ?x with _ => _ end = _ => destruct x as [c w| |] eqn:Eb end;
        [|apply (IH _ _ Hvs' Hb H)|discriminate].
      apply (IH _ _ Hvs') in H; [exact H|].
      destruct (better W wltb w best); [|exact Hb].
      assert (Hv : v < nv g) by (apply Hvs; left; reflexivity).
      apply bidir_found in Eb; [|exact Hs|exact Hv|exact Hv].
      cbn [xorb negb] in Eb.
      assert (Hp : path_result {| sp_g := g; sp_wts := wts; sp_signed := signed; sp_hidden := [];
                                  sp_use_hidden := false; sp_limit := limit_of W best |} v v true c)
        by (destruct Eb as [Eb|Eb]; exact Eb).
      apply path_closed_odd in Hp; [exact Hp|exact Hs].
  Qed.

  Lemma hidden_edges_sound g wts signed : simple_graph g -> forall ses best res,
    incl ses signed -> best_ok g signed best ->
    hidden_edges W w0 wadd wltb g wts signed ses best = Some res -> best_ok g signed res.
  Proof.
    intros Hs. induction ses as [|se ses IH]; intros best res Hin Hb H.
    - cbn [hidden_edges] in H. injection H as <-. exact Hb.
    - cbn [hidden_edges] in H.
      assert (Hin' : incl ses signed) by (intros e He; apply Hin; right; exact He).
      destruct (ends g se) as [[sv su]|] eqn:Ee; [|discriminate].
      match type of H with match ?x with _ => _ end = _ => destruct x as [c w| |] eqn:Eb end;
        [|apply (IH _ _ Hin' Hb H)|discriminate].
      destruct (memb se c) eqn:Em; [apply (IH _ _ Hin' Hb H)|].
      apply (IH _ _ Hin') in H; [exact H|].
      destruct (better W wltb (wadd w (wtof W w0 wts se)) best); [|exact Hb].
      destruct (gl_simple_ends g se sv su Hs Ee) as (Hsv & Hsu & _).
      apply bidir_found in Eb; [|exact Hs|exact Hsv|exact Hsu].
      cbn [xorb] in Eb. apply gl_memb_false in Em.
      assert (Hse : In se signed) by (apply Hin; left; reflexivity).
      destruct Eb as [Eb|Eb].
      + apply (path_close_odd _ sv su se c Eb Hs); [right; exact Ee|exact Hse|exact Em].
      + apply (path_close_odd _ su sv se c Eb Hs); [left; exact Ee|exact Hse|exact Em].
  Qed.

  Lemma insert_eord_incl eord e l : incl (insert_eord eord e l) (e :: l).
  Proof.
    induction l as [|x l IH]; cbn [insert_eord]; [apply incl_refl|].
    destruct (eord e <? eord x); [apply incl_refl|].
    destruct (e =? x); [apply incl_tl, incl_refl|].
    intros a [<-|Ha]; [right; left; reflexivity|].
    apply IH in Ha as [<-|Ha]; [left; reflexivity|right; right; exact Ha].
  Qed.

  Lemma sort_eord_incl eord l : incl (sort_eord eord l) l.
  Proof.
    induction l as [|e l IH]; [apply incl_refl|].
    unfold sort_eord. cbn [fold_right]. fold (sort_eord eord l).
    intros a Ha. apply insert_eord_incl in Ha as [<-|Ha]; [left; reflexivity|right; apply IH; exact Ha].
  Qed.

  (* one phase: whatever it finds is in the cycle space and has an odd number of signed edges *)
  Lemma signed_phase_odd eord g wts fi k S c w : simple_graph g ->
    signed_phase W w0 wadd wltb eord g wts fi k S = PFound c w ->
    odd_cs g (indices_to_edges fi S) c.
  Proof.
    intros Hs H. unfold signed_phase in H.
    match type of H with match ?x with _ => _ end = _ => destruct x as [[[c' w']|]|] eqn:Er end;
      try discriminate.
    injection H as -> ->.
    destruct (nv g <=? length (indices_to_edges fi S)).
    - apply all_vertices_sound in Er; [exact Er|exact Hs| |exact I].
      intros v Hv. apply in_seq in Hv. lia.
    - apply hidden_edges_sound in Er; [exact Er|exact Hs|apply sort_eord_incl|exact I].
  Qed.

End SignedSound.

(* ---- (e) the bridge between index coordinates and signed edges ------------------------------------ *)

Lemma sg_set_of_list_perm l : NoDup l -> Permutation l (set_of_list l).
Proof.
  intros H. apply NoDup_Permutation; [exact H|apply gl_sorted_NoDup, set_of_list_sorted|].
  intros e. rewrite <- (mem_In (set_of_list l)), set_of_list_mem. unfold dset. rewrite existsb_exists. split.
  - intros He. exists e. split; [exact He|apply Nat.eqb_refl].
  - intros (y & Hy & E). apply Nat.eqb_eq in E. subst; exact Hy.
Qed.

Lemma sg_NoDup_map_inj {A B} (f : A -> B) l :
  (forall x y, In x l -> In y l -> f x = f y -> x = y) -> NoDup l -> NoDup (map f l).
Proof.
  induction l as [|x l IH]; intros Hinj Hnd; [constructor|].
  inversion Hnd as [|? ? Hx Hnd']; subst. cbn [map]. constructor.
  - intros Hin. apply in_map_iff in Hin as (y & E & Hy). apply Hx.
    rewrite (Hinj x y); [exact Hy|left; reflexivity|right; exact Hy|symmetry; exact E].
  - apply IH; [|exact Hnd']. intros a b Ha Hb. apply Hinj; right; assumption.
Qed.

Section Bridge.
  Variables (g : graph) (roots : list nat) (fi : forest_index).
  Hypothesis Hs : simple_graph g.
  Hypothesis Hr : forall v, v < nv g -> In v roots.
  Hypothesis Hci : create_index g roots = Some fi.

  Lemma sg_csd_le_ne : fi_csd fi <= ne g.
  Proof.
    destruct (ci_facts g roots fi Hs Hr Hci) as (_ & _ & (reps & Hl & Hnd & Hlt & _) & Hdim & _).
    assert (Hk : fi_k fi <= nv g).
    { rewrite <- Hl, <- (seq_length (nv g) 0). apply NoDup_incl_length; [exact Hnd|].
      intros r Hr'. apply in_seq. specialize (Hlt r Hr'). lia. }
    lia.
  Qed.

  Lemma pairing_par S c : sorted S -> (forall i, In i S -> i < fi_csd fi) ->
    sorted c -> (forall e, In e c -> e < ne g) ->
    pairing fi S c = par (indices_to_edges fi S) c.
  Proof.
    intros SS BS Sc Vc. pose proof sg_csd_le_ne as Hle.
    destruct (ci_facts g roots fi Hs Hr Hci) as (_ & Hb & _).
    unfold pairing. rewrite vdot_par by auto using e2i_sorted.
    rewrite (xsum_ext _ (fun i => mem c (redge fi i))).
    2:{ intros i Hi. rewrite (e2i_mem g roots fi Hs Hr Hci) by exact Vc.
        specialize (BS i Hi). destruct (Nat.ltb_spec i (ne g)); [reflexivity|lia]. }
    unfold par. change (fun e => memb e (indices_to_edges fi S)) with (mem (indices_to_edges fi S)).
    assert (Ssg : sorted (indices_to_edges fi S)) by apply set_of_list_sorted.
    rewrite <- vdot_par, vdot_sym, vdot_par by assumption.
    unfold indices_to_edges. fold (redge fi).
    rewrite <- (xsum_perm (map (mem c) (map (redge fi) S)) (map (mem c) (set_of_list (map (redge fi) S)))).
    - rewrite map_map. reflexivity.
    - apply Permutation_map, sg_set_of_list_perm, sg_NoDup_map_inj; [|apply gl_sorted_NoDup; exact SS].
      intros x y Hx Hy E. apply BS in Hx, Hy.
      destruct (Hb x ltac:(lia)) as [_ Ex], (Hb y ltac:(lia)) as [_ Ey]. congruence.
  Qed.
End Bridge.

(* ---- Goal 1: the signed phase is a sound search --------------------------------------------------- *)

Theorem signed_phase_sound (W : Type) (w0 : W) (wadd : W -> W -> W) (wltb : W -> W -> bool)
        (eord : nat -> nat) (g : graph) (wts : list W) (roots : list nat) (fi : forest_index) :
  simple_graph g -> (forall v, v < nv g -> In v roots) -> create_index g roots = Some fi ->
  search_sound_c g fi (signed_phase W w0 wadd wltb eord g wts fi).
Proof.
  intros Hs Hr Hci k S c w (SS & _ & BS) H.
  apply signed_phase_odd in H as [Hcs Hodd]; [|exact Hs].
  split; [exact Hcs|]. destruct Hcs as (Sc & Vc & _).
  rewrite (pairing_par g roots fi Hs Hr Hci) by assumption. exact Hodd.
Qed.

(* ---- Goal 2: an SvaOk answer is a basis of the cycle space, unconditionally ----------------------
   NOT proved here (both need optimality of the search): that SvaOk is always reached, and that every
   emitted cycle is a (vertex-)simple cycle. *)
Theorem mcb_sva_signed_basis_partial (W : Type) (w0 : W) (wadd : W -> W -> W) (wltb : W -> W -> bool)
        (eord : nat -> nat) (g : graph) (wts : list W) (roots : list nat)
        (cycles : list (list nat)) (total : W) (sup : list vec) :
  simple_graph g -> (forall v, v < nv g -> In v roots) ->
  mcb_sva_signed W w0 wadd wltb eord g wts roots = SvaOk cycles total sup ->
  has_cycle_space_dimension g (length cycles) /\ Forall (in_cycle_space g) cycles
  /\ indep cycles /\ spans (in_cycle_space g) cycles.
Proof.
  intros Hs Hr H. unfold mcb_sva_signed in H.
  destruct (create_index g roots) as [fi|] eqn:Hci; [|discriminate].
  destruct (sva_generic_basis_c g roots fi W w0 wadd _ _ cycles total sup Hs Hr Hci
              (select_min_support_ok (fi_csd fi))
              (signed_phase_sound W w0 wadd wltb eord g wts roots fi Hs Hr Hci) H)
    as (_ & Hd & HV & _ & _ & Hi & Hsp).
  auto.
Qed.

(* ---- Goal 3: Z weights, modulo the two optimality premises about the search ------------------------- *)

Definition signed_search_min (g : graph) (wts : list Z) (eord : nat -> nat) (fi : forest_index) : Prop :=
  search_min_c g wts fi (signed_phase Z 0%Z Z.add Z.ltb eord g wts fi).
Definition signed_search_total (g : graph) (wts : list Z) (eord : nat -> nat) (fi : forest_index) : Prop :=
  search_total fi (signed_phase Z 0%Z Z.add Z.ltb eord g wts fi).

Lemma signed_modulo_search (g : graph) (wts : list Z) (roots eord : list nat) :
  simple_graph g -> positive_weights g wts -> (forall v, v < nv g -> In v roots) ->
  (forall fi, create_index g roots = Some fi ->
     signed_search_min g wts (fun e => nth e eord 0) fi /\ signed_search_total g wts (fun e => nth e eord 0) fi) ->
  exists cycles total sup,
    SignedZModel.mcb_sva_signed_Z g wts roots eord = SvaOk cycles total sup
    /\ min_cycle_basis g wts cycles /\ total = total_weight wts cycles
    /\ has_cycle_space_dimension g (length cycles).
Proof.
  intros Hs Hpw Hr Hprem.
  destruct (create_index_correct g roots Hs Hr) as (fi & Hci & _).
  destruct (Hprem fi Hci) as [Hmin Htot].
  unfold SignedZModel.mcb_sva_signed_Z, mcb_sva_signed. rewrite Hci.
  pose proof (select_min_support_ok (fi_csd fi)) as Hsel.
  pose proof (signed_phase_sound Z 0%Z Z.add Z.ltb (fun e => nth e eord 0) g wts roots fi Hs Hr Hci) as Hsnd.
  destruct (sva_generic_total_c g roots fi Z 0%Z Z.add _ _ Hs Hr Hci Hsel Hsnd Htot)
    as (cycles & total & sup & Hrun).
  exists cycles, total, sup. split; [exact Hrun|].
  apply (sva_generic_min_c g wts roots fi _ _ cycles total sup Hs Hpw Hr Hci Hsel Hmin Hrun).
Qed.

Definition C01_signed_modulo_search_stmt : Prop :=
  forall (g : graph) (wts : list Z) (roots eord : list nat),
    simple_graph g -> positive_weights g wts -> (forall v, v < nv g -> In v roots) ->
    (forall fi, create_index g roots = Some fi ->
       signed_search_min g wts (fun e => nth e eord 0) fi /\ signed_search_total g wts (fun e => nth e eord 0) fi) ->
    exists cycles total sup,
      SignedZModel.mcb_sva_signed_Z g wts roots eord = SvaOk cycles total sup
      /\ cycle_basis g cycles /\ has_cycle_space_dimension g (length cycles).

Definition C02_signed_modulo_search_stmt : Prop :=
  forall (g : graph) (wts : list Z) (roots eord : list nat),
    simple_graph g -> positive_weights g wts -> (forall v, v < nv g -> In v roots) ->
    (forall fi, create_index g roots = Some fi ->
       signed_search_min g wts (fun e => nth e eord 0) fi /\ signed_search_total g wts (fun e => nth e eord 0) fi) ->
    exists cycles total sup,
      SignedZModel.mcb_sva_signed_Z g wts roots eord = SvaOk cycles total sup
      /\ min_cycle_basis g wts cycles /\ total = total_weight wts cycles.

Theorem C01_signed_modulo_search_lemma : C01_signed_modulo_search_stmt.
Proof.
  intros g wts roots eord Hs Hpw Hr Hprem.
  destruct (signed_modulo_search g wts roots eord Hs Hpw Hr Hprem) as (cycles & total & sup & Hrun & [Hcb _] & _ & Hd).
  exists cycles, total, sup. auto.
Qed.

Theorem C02_signed_modulo_search_lemma : C02_signed_modulo_search_stmt.
Proof.
  intros g wts roots eord Hs Hpw Hr Hprem.
  destruct (signed_modulo_search g wts roots eord Hs Hpw Hr Hprem) as (cycles & total & sup & Hrun & Hm & Ht & _).
  exists cycles, total, sup. auto.
Qed.

Print Assumptions signed_phase_sound.
Print Assumptions mcb_sva_signed_basis_partial.
Print Assumptions C01_signed_modulo_search_lemma.
Print Assumptions C02_signed_modulo_search_lemma.
