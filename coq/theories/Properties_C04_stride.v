(* Properties_C04_stride.v — the stride of the MPI entry points, computed in C++ as
       std::size_t stride = ceil((double) total / world.size());
   (mpi/parmcb_sva_signed.hpp lines 111 and 160, mpi/parmcb_sva_trees.hpp line 96), IS the integer ceiling used by the
   model (MpiModel.stride total P = (total + P - 1) / P) whenever total < 2^53.  This was assumption B9 of MpiModel.v;
   it is a theorem now.  Only statements; each closed by [exact <lemma>] and followed by Print Assumptions.
   Proofs: StrideFloatProofs.v (work package wpS).

   Reading aid.  binary64 = Flocq's generic format of FLT_exp (-1074) 53 over radix2; one correctly rounded operation
   (round to nearest, ties to even) = round radix2 (FLT_exp (-1074) 53) ZnearestE applied to the exact real result.
   total (std::size_t) and world.size() (int, so < 2^31) are converted to double: exact for integers of absolute value
   <= 2^53 (C04_stride_conversions_exact).  The division is one rounded operation on the real quotient; ceil of a double is
   exact; the result is a non-negative integer <= total (C04_stride_in_range), so the conversion back to std::size_t is
   exact.  C04_stride_prim_float states the same for Coq's primitive IEEE-754 binary64 operations (PrimFloat.of_uint63,
   PrimFloat.div), whose real value is StrideFloatProofs.sf_FR x = B2R (Prim2B x) (Flocq.IEEE754.PrimFloat).

   Axioms (none declared in this development): Coq's Reals as used by Flocq — ClassicalDedekindReals.sig_forall_dec,
   ClassicalDedekindReals.sig_not_dec, FunctionalExtensionality.functional_extensionality_dep, Classical_Prop.classic;
   C04_stride_prim_float additionally Coq's FloatAxioms specification of the primitive float / int63 operations. *)
From Coq Require Import ZArith Reals.
From Coq Require Floats Uint63.   (* not imported: Print Assumptions then names the primitives in full *)
From Flocq Require Import Core.
From Parmcb Require Import MpiModel StrideFloatProofs.
Local Open Scope R_scope.

(* The conversions (double) total and int -> double are exact: every integer of absolute value <= 2^53 is a binary64
   number. *)
Theorem C04_stride_conversions_exact :
  forall t : Z, (Z.abs t <= 2 ^ 53)%Z ->
  generic_format radix2 (FLT_exp (-1074) 53) (IZR t) /\
  round radix2 (FLT_exp (-1074) 53) ZnearestE (IZR t) = IZR t.
Proof. exact (fun t Ht => conj (sf_format_IZR t Ht) (sf_round_IZR t Ht)). Qed.
Print Assumptions C04_stride_conversions_exact.

(* ceil of the correctly rounded binary64 quotient is the integer ceiling. *)
Theorem C04_stride_double_ceil_is_integer_ceil :
  forall t P : Z, (0 <= t < 2 ^ 53)%Z -> (1 <= P < 2 ^ 53)%Z ->
  Zceil (round radix2 (FLT_exp (-1074) 53) ZnearestE (IZR t / IZR P)) = ((t + P - 1) / P)%Z.
Proof. exact sf_stride. Qed.
Print Assumptions C04_stride_double_ceil_is_integer_ceil.

(* The value assigned to the std::size_t is in range: 0 <= ceil(...) <= total. *)
Theorem C04_stride_in_range :
  forall t P : Z, (0 <= t < 2 ^ 53)%Z -> (1 <= P < 2 ^ 53)%Z ->
  (0 <= Zceil (round radix2 (FLT_exp (-1074) 53) ZnearestE (IZR t / IZR P)) <= t)%Z.
Proof. exact (fun t P Ht HP => conj (sf_stride_pos t P Ht HP) (sf_stride_le t P Ht HP)). Qed.
Print Assumptions C04_stride_in_range.

(* The same against the model's definition (nat). *)
Theorem C04_stride_matches_model :
  forall total P : nat,
  (Z.of_nat total < 2 ^ 53)%Z -> (1 <= P)%nat -> (Z.of_nat P < 2 ^ 53)%Z ->
  Z.to_nat (Zceil (round radix2 (FLT_exp (-1074) 53) ZnearestE (INR total / INR P))) = stride total P.
Proof. exact sf_stride_nat. Qed.
Print Assumptions C04_stride_matches_model.

(* The same with Coq's primitive binary64 floats: the quotient is a finite double and the ceiling of its real value is
   the integer ceiling. *)
Theorem C04_stride_prim_float :
  forall t P : Uint63.int,
  (Uint63.to_Z t < 2 ^ 53)%Z -> (1 <= Uint63.to_Z P < 2 ^ 53)%Z ->
  PrimFloat.is_finite (PrimFloat.div (PrimFloat.of_uint63 t) (PrimFloat.of_uint63 P)) = true /\
  Zceil (sf_FR (PrimFloat.div (PrimFloat.of_uint63 t) (PrimFloat.of_uint63 P))) =
    ((Uint63.to_Z t + Uint63.to_Z P - 1) / Uint63.to_Z P)%Z.
Proof. exact sf_prim_stride. Qed.
Print Assumptions C04_stride_prim_float.

(* Non-vacuity: the hypotheses are satisfiable at the top of the range.  (2^53 - 1) / 3 is not an integer
   (2^53 - 1 = 3 * 3002399751580330 + 1) and is not a binary64 number, (2^53 - 2) / 3 is an integer, 10 / 4 = 2.5 is a
   binary64 number that is not an integer, and P > total gives stride 1.  Proved through the theorem and integer
   computation only. *)
Example C04_stride_nonvacuous :
  Zceil (round radix2 (FLT_exp (-1074) 53) ZnearestE (IZR (2 ^ 53 - 1) / IZR 3)) = 3002399751580331%Z /\
  Zceil (round radix2 (FLT_exp (-1074) 53) ZnearestE (IZR (2 ^ 53 - 2) / IZR 3)) = 3002399751580330%Z /\
  Zceil (round radix2 (FLT_exp (-1074) 53) ZnearestE (IZR 10 / IZR 4)) = 3%Z /\
  Zceil (round radix2 (FLT_exp (-1074) 53) ZnearestE (IZR 3 / IZR 7)) = 1%Z /\
  Zceil (round radix2 (FLT_exp (-1074) 53) ZnearestE (IZR 0 / IZR 5)) = 0%Z /\
  Z.to_nat (Zceil (round radix2 (FLT_exp (-1074) 53) ZnearestE (INR 10 / INR 4))) = stride 10 4 /\
  stride 10 4 = 3%nat.
Proof.
  repeat split.
  - rewrite C04_stride_double_ceil_is_integer_ceil; [reflexivity | split; reflexivity || discriminate ..].
  - rewrite C04_stride_double_ceil_is_integer_ceil; [reflexivity | split; reflexivity || discriminate ..].
  - rewrite C04_stride_double_ceil_is_integer_ceil; [reflexivity | split; reflexivity || discriminate ..].
  - rewrite C04_stride_double_ceil_is_integer_ceil; [reflexivity | split; reflexivity || discriminate ..].
  - rewrite C04_stride_double_ceil_is_integer_ceil; [reflexivity | split; reflexivity || discriminate ..].
  - apply C04_stride_matches_model; [reflexivity | repeat constructor | reflexivity].
Qed.
