(* ApproxProofsRelabel.v — transporting cycle-space vocabulary along an injective relabelling of edge ids.
   Two graphs on the same vertex set; on a domain `dom` of edge ids of the source graph gS, edge i of gS has the
   endpoints of edge sigma(i) of the target graph gT, and sigma is injective on dom.  Then edge sets of gS inside
   dom translate (trv = canonical image) to edge sets of gT preserving: degrees, the cycle space, simple cycles,
   sums (vadd), linear combinations, independence, weights.
   Used twice by the C05/C06 proofs: spanner -> input graph (sigma = the retained list, dom = all spanner edges)
   and input graph -> spanner (sigma = position in the retained list, dom = the retained edges).  Prefix rl_. *)
From Coq Require Import List Arith Bool Lia ZArith Permutation.
From Parmcb Require Import GraphModel GF2Model GF2Proofs GF2Lin GraphSpec GraphLemmas McbSpec.
Import ListNotations.

(* ---- small list facts ---------------------------------------------------------------------- *)

Lemma rl_set_of_list_In l e : In e (set_of_list l) <-> In e l.
Proof.
  rewrite <- mem_In, set_of_list_mem. unfold dset. rewrite existsb_exists. split.
  - intros (y & Hy & E). apply Nat.eqb_eq in E. subst; exact Hy.
  - intros H. exists e. split; [exact H|apply Nat.eqb_refl].
Qed.

Lemma rl_set_of_list_perm l : NoDup l -> Permutation l (set_of_list l).
Proof.
  intros H. apply NoDup_Permutation; auto.
  - apply gl_sorted_NoDup, set_of_list_sorted.
  - intros e. symmetry. apply rl_set_of_list_In.
Qed.

Lemma rl_weight_cons w e l : weight w (e :: l) = (wt w e + weight w l)%Z.
Proof. reflexivity. Qed.

Lemma rl_weight_app w a b : weight w (a ++ b) = (weight w a + weight w b)%Z.
Proof. induction a as [|e a IH]; [reflexivity|]. cbn [app]. rewrite !rl_weight_cons, IH. lia. Qed.

Lemma rl_weight_perm w l l' : Permutation l l' -> weight w l = weight w l'.
Proof.
  induction 1 as [|x l l' _ IH|x y l|l l' l'' _ IH1 _ IH2]; auto.
  - rewrite !rl_weight_cons, IH. reflexivity.
  - rewrite !rl_weight_cons. lia.
  - congruence.
Qed.

Lemma rl_filter_length_perm {A} (f : A -> bool) l l' : Permutation l l' -> length (filter f l) = length (filter f l').
Proof.
  induction 1 as [|x l l' _ IH|x y l|l l' l'' _ IH1 _ IH2]; cbn [filter]; auto.
  - destruct (f x); cbn [length]; congruence.
  - destruct (f x), (f y); reflexivity.
  - congruence.
Qed.

Lemma rl_sorted_Forall_vadd (P : nat -> Prop) a b : sorted a -> sorted b -> Forall P a -> Forall P b -> Forall P (vadd a b).
Proof.
  intros Sa Sb Ha Hb. rewrite Forall_forall in *. intros e He.
  apply mem_In in He. rewrite vadd_mem in He by assumption.
  destruct (mem a e) eqn:Ma; [apply Ha, mem_In; exact Ma|].
  destruct (mem b e) eqn:Mb; [apply Hb, mem_In; exact Mb|discriminate].
Qed.

Lemma rl_comb_Forall (P : nat -> Prop) m : forall Cs, Forall sorted Cs -> Forall (Forall P) Cs -> Forall P (comb m Cs).
Proof.
  induction m as [|b m IH]; intros Cs HS HP; [constructor|].
  destruct Cs as [|C Cs]; [constructor|].
  inversion HS as [|? ? HC HCs]; inversion HP as [|? ? PC PCs]; subst.
  cbn [comb]. destruct b; auto. apply rl_sorted_Forall_vadd; auto using comb_sorted.
Qed.

Section Relabel.
  Variables gS gT : graph.
  Variable dom : nat -> Prop.
  Variable sigma : nat -> nat.
  Hypothesis Hnv : nv gS = nv gT.
  Hypothesis Hends : forall i, dom i -> i < ne gS /\ ends gS i = ends gT (sigma i).
  Hypothesis Hinj : forall i j, dom i -> dom j -> sigma i = sigma j -> i = j.

  Definition trv (C : list nat) : vec := set_of_list (map sigma C).

  Lemma rl_trv_sorted C : sorted (trv C).
  Proof. apply set_of_list_sorted. Qed.

  Lemma rl_trv_In C e : In e (trv C) <-> exists i, In i C /\ sigma i = e.
  Proof.
    unfold trv. rewrite rl_set_of_list_In, in_map_iff. split; intros (i & H1 & H2); exists i; auto.
  Qed.

  Lemma rl_trv_In_dom C i : Forall dom C -> dom i -> (In (sigma i) (trv C) <-> In i C).
  Proof.
    intros HC Hi. rewrite rl_trv_In. split.
    - intros (j & Hj & E). rewrite Forall_forall in HC. rewrite (Hinj i j Hi (HC j Hj)); auto.
    - intros H. exists i; auto.
  Qed.

  Lemma rl_sigma_lt i : dom i -> sigma i < ne gT.
  Proof.
    intros Hi. destruct (Hends i Hi) as [Hlt E].
    unfold ends, ne in *. apply nth_error_Some. rewrite <- E. apply nth_error_Some. exact Hlt.
  Qed.

  Lemma rl_joins i x y : dom i -> (joins gS i x y <-> joins gT (sigma i) x y).
  Proof. intros Hi. unfold joins. destruct (Hends i Hi) as [_ ->]. reflexivity. Qed.

  Lemma rl_incident i v : dom i -> incident gS i v = incident gT (sigma i) v.
  Proof. intros Hi. unfold incident. destruct (Hends i Hi) as [_ ->]. reflexivity. Qed.

  Lemma rl_map_NoDup C : NoDup C -> Forall dom C -> NoDup (map sigma C).
  Proof.
    induction 1 as [|i C Hi Hnd IH]; intros HD; [constructor|].
    inversion HD as [|? ? Di DC]; subst. cbn [map]. constructor; auto.
    intros Hin. apply in_map_iff in Hin as (j & E & Hj).
    rewrite Forall_forall in DC. apply Hi. rewrite (Hinj i j Di (DC j Hj)); auto.
  Qed.

  Lemma rl_trv_perm C : NoDup C -> Forall dom C -> Permutation (map sigma C) (trv C).
  Proof. intros H1 H2. apply rl_set_of_list_perm, rl_map_NoDup; assumption. Qed.

  Lemma rl_trv_length C : NoDup C -> Forall dom C -> length (trv C) = length C.
  Proof.
    intros H1 H2. rewrite <- (Permutation_length (rl_trv_perm C H1 H2)). apply map_length.
  Qed.

  Lemma rl_deg C v : NoDup C -> Forall dom C -> deg_in gT (trv C) v = deg_in gS C v.
  Proof.
    intros H1 H2. unfold deg_in.
    rewrite <- (rl_filter_length_perm _ _ _ (rl_trv_perm C H1 H2)).
    clear H1. induction H2 as [|i C Di _ IH]; [reflexivity|].
    cbn [map filter]. rewrite <- (rl_incident i v Di).
    destruct (incident gS i v); cbn [length]; congruence.
  Qed.

  Lemma rl_cycle_space C : in_cycle_space gS C -> Forall dom C -> in_cycle_space gT (trv C).
  Proof.
    intros (HS & HB & HE) HD. split; [apply rl_trv_sorted|]. split.
    - intros e He. apply rl_trv_In in He as (i & Hi & <-).
      rewrite Forall_forall in HD. apply rl_sigma_lt, HD, Hi.
    - intros v. rewrite rl_deg by auto using gl_sorted_NoDup. apply HE.
  Qed.

  Lemma rl_trv_mem C e : mem (trv C) e = existsb (fun i => Nat.eqb (sigma i) e) C.
  Proof.
    unfold trv. rewrite set_of_list_mem. unfold dset. induction C as [|i C IH]; [reflexivity|].
    cbn [map existsb]. rewrite IH, (Nat.eqb_sym e). reflexivity.
  Qed.

  Lemma rl_trv_mem_dom C i : Forall dom C -> dom i -> mem (trv C) (sigma i) = mem C i.
  Proof.
    intros HC Hi. destruct (mem C i) eqn:E.
    - apply mem_In. apply rl_trv_In_dom; auto. apply mem_In; exact E.
    - destruct (mem (trv C) (sigma i)) eqn:E'; [|reflexivity].
      apply mem_In in E'. apply (proj1 (rl_trv_In_dom C i HC Hi)) in E'. apply mem_In in E'. rewrite E in E'. discriminate.
  Qed.

  Lemma rl_trv_vadd a b : sorted a -> sorted b -> Forall dom a -> Forall dom b ->
    trv (vadd a b) = vadd (trv a) (trv b).
  Proof.
    intros Sa Sb Da Db.
    assert (Dab : Forall dom (vadd a b)) by (apply rl_sorted_Forall_vadd; assumption).
    apply sorted_ext; [apply rl_trv_sorted|apply vadd_sorted; apply rl_trv_sorted|].
    intros e. rewrite vadd_mem by apply rl_trv_sorted.
    destruct (mem (trv a) e || mem (trv b) e) eqn:Eab.
    - assert (Hi : exists i, dom i /\ sigma i = e).
      { apply orb_true_iff in Eab as [E|E]; apply mem_In, rl_trv_In in E as (i & Hi & Hs);
          exists i; (split; [|exact Hs]); [rewrite Forall_forall in Da; auto|rewrite Forall_forall in Db; auto]. }
      destruct Hi as (i & Di & <-).
      rewrite !rl_trv_mem_dom by assumption. apply vadd_mem; assumption.
    - apply orb_false_iff in Eab as [Ea Eb]. rewrite Ea, Eb. cbn [xorb].
      destruct (mem (trv (vadd a b)) e) eqn:E; [|reflexivity].
      apply mem_In, rl_trv_In in E as (i & Hi & <-).
      assert (Di : dom i) by (rewrite Forall_forall in Dab; auto).
      rewrite rl_trv_mem_dom in Ea, Eb by assumption.
      apply mem_In in Hi. rewrite vadd_mem, Ea, Eb in Hi by assumption. discriminate.
  Qed.

  Lemma rl_trv_nil C : trv C = [] -> C = [].
  Proof.
    destruct C as [|i C]; [reflexivity|]. intros E.
    assert (H : In (sigma i) (trv (i :: C))) by (apply rl_trv_In; exists i; split; [left|]; reflexivity).
    rewrite E in H. destruct H.
  Qed.

  Lemma rl_trv_comb m : forall Cs, Forall sorted Cs -> Forall (Forall dom) Cs ->
    comb m (map trv Cs) = trv (comb m Cs).
  Proof.
    induction m as [|b m IH]; intros Cs HS HD; [reflexivity|].
    destruct Cs as [|C Cs]; [reflexivity|].
    inversion HS as [|? ? SC SCs]; inversion HD as [|? ? DC DCs]; subst.
    cbn [map comb]. rewrite IH by assumption. destruct b; [|reflexivity].
    symmetry. apply rl_trv_vadd; auto using comb_sorted, rl_comb_Forall.
  Qed.

  Lemma rl_indep Cs : Forall sorted Cs -> Forall (Forall dom) Cs -> indep Cs -> indep (map trv Cs).
  Proof.
    intros HS HD Hi m Hl E. rewrite map_length in Hl. apply (Hi m Hl).
    rewrite rl_trv_comb in E by assumption. apply rl_trv_nil; exact E.
  Qed.

  (* walks *)
  Definition rl_step (ey : nat * nat) : nat * nat := (sigma (fst ey), snd ey).

  Lemma rl_wedges p : wedges (map rl_step p) = map sigma (wedges p).
  Proof. unfold wedges. rewrite !map_map. reflexivity. Qed.

  Lemma rl_wverts p : wverts (map rl_step p) = wverts p.
  Proof. unfold wverts. rewrite map_map. reflexivity. Qed.

  Lemma rl_walk x p z : walk gS x p z -> Forall dom (wedges p) -> walk gT x (map rl_step p) z.
  Proof.
    induction 1 as [x Hx|x e y p z Hj Hw IH]; intros HD.
    - constructor. rewrite <- Hnv; exact Hx.
    - cbn [wedges map fst] in HD. inversion HD as [|? ? De Dp]; subst.
      cbn [map]. econstructor; [|apply IH; exact Dp]. apply rl_joins; assumption.
  Qed.

  Lemma rl_simple_cycle C : simple_cycle gS C -> Forall dom C -> simple_cycle gT (trv C).
  Proof.
    intros (Hne & HS & x & p & Hw & Hnde & Hndv & HE) HD.
    assert (HDp : Forall dom (wedges p)).
    { rewrite Forall_forall in *. intros e He. apply HD, HE, He. }
    split; [intros E; apply Hne, rl_trv_nil, E|]. split; [apply rl_trv_sorted|].
    exists x, (map rl_step p). split; [apply rl_walk; assumption|].
    rewrite rl_wedges, rl_wverts. split; [apply rl_map_NoDup; assumption|]. split; [exact Hndv|].
    intros e. rewrite rl_trv_In, in_map_iff. split; intros (i & H1 & H2).
    - exists i. split; [exact H2|apply HE; exact H1].
    - exists i. split; [apply HE; exact H2|exact H1].
  Qed.

  (* weights *)
  Variables wS wT : list Z.
  Hypothesis Hwt : forall i, dom i -> wt wS i = wt wT (sigma i).

  Lemma rl_weight C : NoDup C -> Forall dom C -> weight wT (trv C) = weight wS C.
  Proof.
    intros H1 H2. rewrite <- (rl_weight_perm wT _ _ (rl_trv_perm C H1 H2)).
    clear H1. induction H2 as [|i C Di _ IH]; [reflexivity|].
    cbn [map]. rewrite !rl_weight_cons, IH, (Hwt i Di). reflexivity.
  Qed.

  Lemma rl_total_weight Cs : Forall sorted Cs -> Forall (Forall dom) Cs ->
    total_weight wT (map trv Cs) = total_weight wS Cs.
  Proof.
    intros HS HD. unfold total_weight. induction Cs as [|C Cs IH]; [reflexivity|].
    inversion HS as [|? ? SC SCs]; inversion HD as [|? ? DC DCs]; subst.
    cbn [map fold_right]. rewrite IH by assumption. rewrite rl_weight by auto using gl_sorted_NoDup. reflexivity.
  Qed.
End Relabel.
