(* ForestModel.v — executable model of parmcb::detail::spanning_forest
   (include/parmcb/detail/spanning_forest.hpp) and parmcb::ForestIndex (include/parmcb/forestindex.hpp).
   Definitions only; proofs in ForestProofs.v.

   Nondeterminism: the C++ takes the next BFS root from `unreached.begin()` of a
   std::unordered_set.  The oracle `roots` is a list of vertices; the next root is the first entry
   of `roots` that is still unreached (theorems quantify over every list that mentions all vertices;
   the correspondence check recovers the list from the implementation's emission order). *)
From Parmcb Require Export GraphModel.

(* the for-loop over out_edges(u): state = (reached, queue, forest edges in emission order) *)
Definition scan_step (u : nat) (st : list nat * list nat * list nat) (ew : nat * nat)
  : list nat * list nat * list nat :=
  let '(r, q, f) := st in
  let '(e, w) := ew in
  if Nat.eqb w u then st                 (* ignore self-loop *)
  else if memb w r then st               (* w is not in `unreached` *)
  else (w :: r, q ++ [w], f ++ [e]).

Definition scan_out (u : nat) (oes : list (nat * nat)) (st : list nat * list nat * list nat) :=
  fold_left (scan_step u) oes st.

(* while (!queue.empty()) *)
Fixpoint bfs_loop (fuel : nat) (g : graph) (r q f : list nat) : option (list nat * list nat) :=
  match fuel with
  | O => None
  | S fuel' =>
      match q with
      | [] => Some (r, f)
      | u :: q' =>
          let '(r', q'', f') := scan_out u (out_edges g u) (r, q', f) in
          bfs_loop fuel' g r' q'' f'
      end
  end.

(* while (!unreached.empty()): returns (forest edges, component count) *)
Fixpoint forest_outer (g : graph) (roots : list nat) (r f : list nat) (c : nat)
  : option (list nat * list nat * nat) :=
  match roots with
  | [] => Some (r, f, c)
  | v :: roots' =>
      if negb (Nat.ltb v (nv g)) || memb v r then forest_outer g roots' r f c
      else
        match bfs_loop (S (nv g)) g (v :: r) [v] f with
        | None => None
        | Some (r', f') => forest_outer g roots' r' f' (S c)
        end
  end.

(* spanning_forest(g, out): edges in emission order and the return value *)
Definition spanning_forest (g : graph) (roots : list nat) : option (list nat * nat) :=
  match forest_outer g roots [] [] 0 with
  | None => None
  | Some (r, f, c) =>
      (* all vertices must have been reached (roots has to mention every vertex) *)
      if Nat.eqb (length r) (nv g) then Some (f, c) else None
  end.

(* ForestIndex::create_index.  `fi_idx` is the std::map index (edge id -> position), `fi_rev` the
   vector reverse_index.  The code writes reverse_index[low++] / reverse_index[high++] with
   low starting at 0 and high at csd = m - n + k; the resulting vector is "off-forest edges in edge
   order, then forest edges in edge order" provided the number of off-forest edges is exactly csd —
   otherwise the C++ writes out of bounds, which the model reports as an error (None). *)
Record forest_index := {
  fi_n : nat; fi_m : nat; fi_k : nat; fi_csd : nat;
  fi_idx : list nat;       (* edge id -> index *)
  fi_rev : list nat        (* index -> edge id *)
}.

Fixpoint number_edges (forest : list nat) (es : list nat) (low high : nat) : list nat :=
  match es with
  | [] => []
  | e :: r =>
      if memb e forest then high :: number_edges forest r low (S high)
      else low :: number_edges forest r (S low) high
  end.

Definition create_index (g : graph) (roots : list nat) : option forest_index :=
  match spanning_forest g roots with
  | None => None
  | Some (forest, k) =>
      let n := nv g in
      let m := ne g in
      if Nat.ltb (m + k) n then None
      else
        let csd := m + k - n in
        let es := seq 0 m in
        let nonf := filter (fun e => negb (memb e forest)) es in
        let onf := filter (fun e => memb e forest) es in
        if Nat.eqb (length nonf) csd then
          Some {| fi_n := n; fi_m := m; fi_k := k; fi_csd := csd;
                  fi_idx := number_edges forest es 0 csd;
                  fi_rev := nonf ++ onf |}
        else None
  end.

(* the accessors *)
Definition fi_index (fi : forest_index) (e : nat) : option nat := nth_error (fi_idx fi) e.   (* operator()(Edge) *)
Definition fi_edge (fi : forest_index) (i : nat) : option nat := nth_error (fi_rev fi) i.    (* operator()(size_type) *)
Definition fi_on_forest (fi : forest_index) (e : nat) : option bool :=
  match fi_index fi e with Some i => Some (negb (Nat.ltb i (fi_csd fi))) | None => None end.
