(* GF2Proofs.v — SpVecGF2 model refines dense GF(2) vectors (property C17). *)
From Coq Require Import List Arith Bool Lia Sorted.
From Parmcb Require Import GF2Model.
Import ListNotations.

Lemma sorted_nil : sorted []. Proof. constructor. Qed.
Lemma sorted_single x : sorted [x]. Proof. repeat constructor. Qed.

Lemma sorted_inv x v : sorted (x :: v) -> sorted v /\ Forall (lt x) v.
Proof. intros H; inversion H; subst; auto. Qed.

Lemma sorted_cons x v : sorted v -> Forall (lt x) v -> sorted (x :: v).
Proof. intros; constructor; auto. Qed.

Lemma mem_cons x v i : mem (x :: v) i = (Nat.eqb i x || mem v i).
Proof. reflexivity. Qed.

Lemma mem_In v i : mem v i = true <-> In i v.
Proof.
  unfold mem; rewrite existsb_exists; split.
  - intros [x [Hin Heq]]; apply Nat.eqb_eq in Heq; subst; auto.
  - intros Hin; exists i; split; auto; apply Nat.eqb_refl.
Qed.

Lemma mem_false_lt x v i : Forall (lt x) v -> i <= x -> mem v i = false.
Proof.
  intros HF Hle; destruct (mem v i) eqn:E; auto.
  apply mem_In in E; rewrite Forall_forall in HF; apply HF in E; lia.
Qed.

(* extensionality: a strictly increasing list is determined by its members *)
Lemma sorted_ext u : forall v, sorted u -> sorted v -> (forall i, mem u i = mem v i) -> u = v.
Proof.
  induction u as [|x u IH]; intros v Hu Hv Hext.
  - destruct v as [|y v]; auto. specialize (Hext y); rewrite mem_cons, Nat.eqb_refl in Hext; discriminate.
  - destruct v as [|y v].
    + specialize (Hext x); rewrite mem_cons, Nat.eqb_refl in Hext; discriminate.
    + apply sorted_inv in Hu as [Hu Hxu]; apply sorted_inv in Hv as [Hv Hyv].
      assert (x = y) as ->.
      { pose proof (Hext x) as Hx; pose proof (Hext y) as Hy.
        rewrite !mem_cons, Nat.eqb_refl in Hx, Hy; cbn [orb] in Hx, Hy.
        destruct (Nat.lt_trichotomy x y) as [Hlt|[Heq|Hgt]]; auto.
        - rewrite (mem_false_lt y v x) in Hx by (auto; lia).
          destruct (Nat.eqb_spec x y); [lia|discriminate].
        - rewrite (mem_false_lt x u y) in Hy by (auto; lia).
          destruct (Nat.eqb_spec y x); [lia|]. cbn in Hy. discriminate. }
      f_equal; apply IH; auto.
      intros i; specialize (Hext i); rewrite !mem_cons in Hext.
      destruct (Nat.eqb_spec i y) as [Heq|Hne]; cbn [orb] in Hext; auto.
      subst i. rewrite (mem_false_lt y u y), (mem_false_lt y v y); auto.
Qed.

(* ---- std::set construction ---------------------------------------------------- *)

Lemma set_insert_mem x s i : mem (set_insert x s) i = (Nat.eqb i x || mem s i).
Proof.
  induction s as [|y s IH]; cbn [set_insert]; [reflexivity|].
  destruct (Nat.compare_spec x y) as [->|Hlt|Hgt].
  - rewrite mem_cons. destruct (Nat.eqb i y); reflexivity.
  - reflexivity.
  - rewrite mem_cons, IH, !mem_cons. destruct (Nat.eqb i x), (Nat.eqb i y); reflexivity.
Qed.

Lemma set_insert_Forall (P : nat -> Prop) x s : P x -> Forall P s -> Forall P (set_insert x s).
Proof.
  intros Hx; induction s as [|y s IH]; cbn [set_insert]; intros HF.
  - constructor; auto.
  - inversion HF; subst. destruct (Nat.compare x y); auto.
Qed.

Lemma set_insert_sorted x s : sorted s -> sorted (set_insert x s).
Proof.
  induction s as [|y s IH]; cbn [set_insert]; intros Hs.
  - apply sorted_single.
  - destruct (Nat.compare_spec x y) as [->|Hlt|Hgt]; auto.
    + apply sorted_inv in Hs as [Hs Hy]. apply sorted_cons; [apply sorted_cons; auto|].
      constructor; auto. eapply Forall_impl; [|exact Hy]. cbn; lia.
    + apply sorted_inv in Hs as [Hs Hy]. apply sorted_cons; auto.
      apply set_insert_Forall; auto.
Qed.

Lemma set_of_list_gen l : forall s, sorted s ->
  sorted (fold_left (fun s x => set_insert x s) l s) /\
  forall i, mem (fold_left (fun s x => set_insert x s) l s) i = (existsb (Nat.eqb i) l || mem s i).
Proof.
  induction l as [|x l IH]; intros s Hs; cbn [fold_left existsb].
  - split; auto.
  - destruct (IH (set_insert x s) (set_insert_sorted x s Hs)) as [H1 H2]; split; auto.
    intros i; rewrite H2, set_insert_mem.
    destruct (existsb (Nat.eqb i) l), (Nat.eqb i x); reflexivity.
Qed.

Lemma set_of_list_sorted l : sorted (set_of_list l).
Proof. apply (set_of_list_gen l [] sorted_nil). Qed.

Lemma set_of_list_mem l i : mem (set_of_list l) i = dset l i.
Proof.
  unfold set_of_list, dset. destruct (set_of_list_gen l [] sorted_nil) as [_ H].
  rewrite H. cbn. apply orb_false_r.
Qed.

(* ---- addition = symmetric difference ------------------------------------------ *)

Lemma vadd_nil_r u : vadd u [] = u.
Proof. destruct u; reflexivity. Qed.

Lemma vadd_nil_l u : vadd [] u = u.
Proof. destruct u; reflexivity. Qed.

Lemma vadd_cons x u y v :
  vadd (x :: u) (y :: v) =
  match Nat.compare x y with
  | Lt => x :: vadd u (y :: v)
  | Gt => y :: vadd (x :: u) v
  | Eq => vadd u v
  end.
Proof. reflexivity. Qed.

Lemma vadd_spec u : forall v, sorted u -> sorted v ->
  sorted (vadd u v)
  /\ (forall z, Forall (lt z) u -> Forall (lt z) v -> Forall (lt z) (vadd u v))
  /\ (forall i, mem (vadd u v) i = xorb (mem u i) (mem v i)).
Proof.
  induction u as [|x u IHu]; intros v Hu Hv.
  - rewrite vadd_nil_l. repeat split; auto. intros i. destruct (mem v i); reflexivity.
  - induction v as [|y v IHv].
    + rewrite vadd_nil_r. repeat split; auto. intros i. destruct (mem (x :: u) i); reflexivity.
    + rewrite vadd_cons.
      pose proof (sorted_inv _ _ Hu) as [Hu' Hxu]. pose proof (sorted_inv _ _ Hv) as [Hv' Hyv].
      destruct (Nat.compare_spec x y) as [->|Hlt|Hgt].
      * destruct (IHu v Hu' Hv') as (S1 & S2 & S3). repeat split; auto.
        -- intros z Hz1 Hz2. inversion Hz1; inversion Hz2; subst; auto.
        -- intros i. rewrite S3, !mem_cons. destruct (Nat.eqb_spec i y) as [Heq|Hne].
           ++ subst i. rewrite (mem_false_lt y u y), (mem_false_lt y v y); auto.
           ++ reflexivity.
      * destruct (IHu (y :: v) Hu' Hv) as (S1 & S2 & S3). repeat split.
        -- apply sorted_cons; auto. apply S2; auto. constructor; auto.
           eapply Forall_impl; [|exact Hyv]. cbn; lia.
        -- intros z Hz1 Hz2. inversion Hz1; subst. constructor; auto.
        -- intros i. rewrite mem_cons, S3. rewrite (mem_cons x u).
           destruct (Nat.eqb_spec i x) as [Heq|Hne]; [|reflexivity].
           subst i. rewrite (mem_false_lt x u x), (mem_false_lt x (y :: v) x); auto.
           constructor; auto. eapply Forall_impl; [|exact Hyv]. cbn; lia.
      * destruct (IHv Hv') as (S1 & S2 & S3). repeat split.
        -- apply sorted_cons; auto. apply S2; auto. constructor; auto.
           eapply Forall_impl; [|exact Hxu]. cbn; lia.
        -- intros z Hz1 Hz2. inversion Hz2; subst. constructor; auto.
        -- intros i. rewrite mem_cons, S3. rewrite (mem_cons y v).
           destruct (Nat.eqb_spec i y) as [Heq|Hne]; [|reflexivity].
           subst i. rewrite (mem_false_lt y v y), (mem_false_lt y (x :: u) y); auto.
           constructor; auto. eapply Forall_impl; [|exact Hxu]. cbn; lia.
Qed.

Lemma vadd_sorted u v : sorted u -> sorted v -> sorted (vadd u v).
Proof. intros Hu Hv; apply (vadd_spec u v Hu Hv). Qed.

Lemma vadd_mem u v i : sorted u -> sorted v -> mem (vadd u v) i = xorb (mem u i) (mem v i).
Proof. intros Hu Hv; apply (vadd_spec u v Hu Hv). Qed.

(* ---- dot product = parity of the intersection ---------------------------------- *)

Lemma vdot_nil_r u : vdot u [] = false.
Proof. destruct u; reflexivity. Qed.

Lemma vdot_nil_l u : vdot [] u = false.
Proof. destruct u; reflexivity. Qed.

Lemma vdot_cons x u y v :
  vdot (x :: u) (y :: v) =
  match Nat.compare x y with
  | Lt => vdot u (y :: v)
  | Gt => vdot (x :: u) v
  | Eq => negb (vdot u v)
  end.
Proof. reflexivity. Qed.

Definition xsum (l : list bool) : bool := fold_right xorb false l.

Lemma xsum_cons b l : xsum (b :: l) = xorb b (xsum l).
Proof. reflexivity. Qed.

Lemma xsum_mem_nil l : xsum (map (mem []) l) = false.
Proof. induction l as [|a l IH]; [reflexivity|]. cbn [map]. rewrite xsum_cons, IH. reflexivity. Qed.

(* sparse characterisation: parity of the number of members of u that are in v *)
Lemma vdot_par u : forall v, sorted u -> sorted v -> vdot u v = xsum (map (mem v) u).
Proof.
  induction u as [|x u IHu]; intros v Hu Hv; [apply vdot_nil_l|].
  induction v as [|y v IHv].
  - rewrite vdot_nil_r. symmetry. apply xsum_mem_nil.
  - rewrite vdot_cons.
    pose proof (sorted_inv _ _ Hu) as [Hu' Hxu]. pose proof (sorted_inv _ _ Hv) as [Hv' Hyv].
    assert (Hmap : forall z, z <= x -> map (mem (z :: v)) u = map (mem v) u).
    { intros z Hz. apply map_ext_in. intros a Ha. rewrite mem_cons.
      rewrite Forall_forall in Hxu. apply Hxu in Ha.
      destruct (Nat.eqb_spec a z); [lia|reflexivity]. }
    cbn [map]. rewrite xsum_cons.
    destruct (Nat.compare_spec x y) as [Heq|Hlt|Hgt].
    + subst y. rewrite (IHu v Hu' Hv'). rewrite mem_cons, Nat.eqb_refl. cbn [orb].
      rewrite Hmap by lia. destruct (xsum (map (mem v) u)); reflexivity.
    + rewrite (IHu (y :: v) Hu' Hv).
      rewrite (mem_false_lt x (y :: v) x); [rewrite xorb_false_l; reflexivity| |lia].
      constructor; auto. eapply Forall_impl; [|exact Hyv]. cbn; lia.
    + rewrite (IHv Hv'). cbn [map]. rewrite xsum_cons, mem_cons.
      destruct (Nat.eqb_spec x y); [lia|]. cbn [orb]. rewrite Hmap by lia. reflexivity.
Qed.

Lemma xsum_xor (f h : nat -> bool) l :
  xsum (map (fun j => xorb (f j) (h j)) l) = xorb (xsum (map f l)) (xsum (map h l)).
Proof.
  induction l as [|a l IH]; [reflexivity|]. cbn [map]. rewrite !xsum_cons, IH.
  destruct (f a), (h a), (xsum (map f l)), (xsum (map h l)); reflexivity.
Qed.

Lemma xsum_point (g : nat -> bool) x l : NoDup l ->
  xsum (map (fun j => Nat.eqb j x && g j) l) = (if in_dec Nat.eq_dec x l then g x else false).
Proof.
  induction l as [|a l IH]; intros Hnd; [reflexivity|].
  inversion Hnd as [|a' l' Hna Hnd']; subst. cbn [map]. rewrite xsum_cons, (IH Hnd').
  destruct (in_dec Nat.eq_dec x (a :: l)) as [Hin|Hnin]; destruct (in_dec Nat.eq_dec x l) as [Hin'|Hnin'].
  - destruct (Nat.eqb_spec a x); [subst; contradiction|]. cbn [andb]. apply xorb_false_l.
  - destruct Hin as [Heq|]; [subst a|contradiction]. rewrite Nat.eqb_refl. cbn [andb]. apply xorb_false_r.
  - exfalso; apply Hnin; right; auto.
  - destruct (Nat.eqb_spec a x); [subst; exfalso; apply Hnin; left; auto|]. reflexivity.
Qed.

Lemma xsum_ext (f h : nat -> bool) l : (forall j, In j l -> f j = h j) -> xsum (map f l) = xsum (map h l).
Proof. intros H; f_equal; apply map_ext_in; auto. Qed.

Lemma ddot_sparse D u (g : dvec) : sorted u -> Forall (fun i => i < D) u ->
  ddot D (mem u) g = xsum (map g u).
Proof.
  unfold ddot. fold (xsum (map (fun j => mem u j && g j) (seq 0 D))).
  induction u as [|x u IH]; intros Hu Hb.
  - cbn [mem existsb map]. generalize (seq 0 D). intros l.
    induction l as [|a l IHl]; [reflexivity|]. cbn [map]. rewrite xsum_cons, IHl. reflexivity.
  - apply sorted_inv in Hu as [Hu Hxu]. inversion Hb; subst.
    rewrite (xsum_ext _ (fun j => xorb (Nat.eqb j x && g j) (mem u j && g j))).
    + rewrite xsum_xor, (IH Hu H2), xsum_point by apply seq_NoDup.
      destruct (in_dec Nat.eq_dec x (seq 0 D)) as [Hin|Hnin]; [reflexivity|].
      exfalso; apply Hnin; apply in_seq; lia.
    + intros j _. rewrite mem_cons. destruct (Nat.eqb_spec j x) as [->|Hne]; cbn [orb andb].
      * rewrite (mem_false_lt x u x); auto. destruct (g x); reflexivity.
      * destruct (mem u j && g j); reflexivity.
Qed.

Lemma vdot_dense D u v : sorted u -> sorted v -> Forall (fun i => i < D) u ->
  vdot u v = ddot D (mem u) (mem v).
Proof. intros Hu Hv Hb. rewrite ddot_sparse; auto. apply vdot_par; auto. Qed.

(* ---- size() = number of ones --------------------------------------------------- *)

Lemma filter_point (f : nat -> bool) x l : NoDup l -> f x = false ->
  length (filter (fun j => Nat.eqb j x || f j) l) =
  (if in_dec Nat.eq_dec x l then 1 else 0) + length (filter f l).
Proof.
  intros Hnd Hfx; induction l as [|a l IH]; [reflexivity|].
  inversion Hnd; subst. cbn [filter]. specialize (IH H2).
  destruct (Nat.eqb_spec a x) as [->|Hne]; cbn [orb].
  - rewrite Hfx. cbn [length]. rewrite IH.
    destruct (in_dec Nat.eq_dec x l); [contradiction|].
    destruct (in_dec Nat.eq_dec x (x :: l)) as [_|Hn]; [lia|exfalso; apply Hn; left; auto].
  - destruct (in_dec Nat.eq_dec x (a :: l)) as [[->|Hin]|Hnin]; [congruence| |].
    + destruct (in_dec Nat.eq_dec x l); [|contradiction]. destruct (f a); cbn [length]; lia.
    + destruct (in_dec Nat.eq_dec x l) as [Hin|_]; [exfalso; apply Hnin; right; auto|].
      destruct (f a); cbn [length]; lia.
Qed.

Lemma size_dense D u : sorted u -> Forall (fun i => i < D) u -> length u = dsize D (mem u).
Proof.
  unfold dsize. induction u as [|x u IH]; intros Hu Hb.
  - cbn [mem existsb]. induction (seq 0 D); cbn; auto.
  - apply sorted_inv in Hu as [Hu Hxu]. inversion Hb; subst.
    erewrite filter_ext; [|intros j; apply mem_cons].
    rewrite filter_point; [| apply seq_NoDup | apply (mem_false_lt x u x); auto].
    destruct (in_dec Nat.eq_dec x (seq 0 D)) as [_|Hnin]; [cbn; rewrite IH; auto|].
    exfalso; apply Hnin; apply in_seq; lia.
Qed.

Lemma ddot_ext D (f f' g g' : dvec) : (forall j, f j = f' j) -> (forall j, g j = g' j) ->
  ddot D f g = ddot D f' g'.
Proof. intros Hf Hg. unfold ddot. f_equal. apply map_ext. intros j. rewrite Hf, Hg. reflexivity. Qed.

Lemma dsize_ext D (f f' : dvec) : (forall j, f j = f' j) -> dsize D f = dsize D f'.
Proof. intros Hf. unfold dsize. f_equal. apply filter_ext. exact Hf. Qed.

(* ---- the refinement over histories -------------------------------------------- *)

Definition bounded (D : nat) (v : vec) : Prop := Forall (fun i => i < D) v.

Definition refines (D : nat) (s : store) (ds : dstore) : Prop :=
  forall id, sorted (s id) /\ bounded D (s id) /\ forall i, mem (s id) i = ds id i.

Lemma vadd_bounded D u v : sorted u -> sorted v -> bounded D u -> bounded D v -> bounded D (vadd u v).
Proof.
  intros Hu Hv Bu Bv. unfold bounded in *. rewrite Forall_forall in *. intros i Hi.
  apply mem_In in Hi. rewrite vadd_mem in Hi by auto.
  destruct (mem u i) eqn:Eu; [apply Bu, mem_In; auto|].
  destruct (mem v i) eqn:Ev; [apply Bv, mem_In; auto|discriminate].
Qed.

Lemma set_of_list_bounded D l : Forall (fun i => i < D) l -> bounded D (set_of_list l).
Proof.
  intros H. unfold bounded. rewrite Forall_forall in *. intros i Hi.
  apply mem_In in Hi. rewrite set_of_list_mem in Hi. unfold dset in Hi.
  apply existsb_exists in Hi as [x [Hx He]]. apply Nat.eqb_eq in He; subst. auto.
Qed.

Lemma refines_upd D s ds d v f :
  refines D s ds -> sorted v -> bounded D v -> (forall i, mem v i = f i) ->
  refines D (upd s d v) (upd ds d f).
Proof.
  intros R Sv Bv Mv id. unfold upd. destruct (Nat.eqb id d); auto.
Qed.

Lemma step_refines D s ds o :
  refines D s ds -> op_in_dim D o ->
  refines D (fst (step s o)) (fst (dstep D ds o)) /\ snd (step s o) = snd (dstep D ds o).
Proof.
  intros R Hdim.
  destruct o as [d i|d l|d a|d a|d a|d a b|d a|d|a b|a l|a]; cbn [step dstep fst snd op_in_dim] in *.
  - split; auto. apply refines_upd; auto using sorted_single.
    + repeat constructor; auto.
    + intros j. cbn. unfold dunit. apply orb_false_r.
  - split; auto. apply refines_upd; auto using set_of_list_sorted, set_of_list_bounded, set_of_list_mem.
  - split; auto. destruct (R a) as (S1 & B1 & M1). apply refines_upd; auto.
  - split; auto. destruct (R a) as (S1 & B1 & M1). apply refines_upd; auto.
  - split; auto. destruct (R a) as (S1 & B1 & M1). apply refines_upd; auto.
  - split; auto. destruct (R a) as (S1 & B1 & M1). destruct (R b) as (S2 & B2 & M2).
    apply refines_upd; auto using vadd_sorted, vadd_bounded.
    intros i. rewrite vadd_mem, M1, M2; auto.
  - split; auto. destruct (R a) as (S1 & B1 & M1). destruct (R d) as (S2 & B2 & M2).
    apply refines_upd; auto using vadd_sorted, vadd_bounded.
    intros i. rewrite vadd_mem, M1, M2; auto.
  - split; auto. apply refines_upd; auto using sorted_nil. constructor.
  - split; auto. destruct (R a) as (S1 & B1 & M1). destruct (R b) as (S2 & B2 & M2).
    rewrite (vdot_dense D) by auto. do 2 f_equal. apply ddot_ext; auto.
  - split; auto. destruct (R a) as (S1 & B1 & M1).
    rewrite (vdot_dense D) by auto using set_of_list_sorted. do 2 f_equal.
    apply ddot_ext; auto using set_of_list_mem.
  - split; auto. destruct (R a) as (S1 & B1 & M1).
    rewrite (size_dense D) by auto. do 2 f_equal. apply dsize_ext; auto.
Qed.

Lemma run_refines D ops : forall s ds,
  refines D s ds -> Forall (op_in_dim D) ops ->
  refines D (fst (run s ops)) (fst (drun D ds ops)) /\ snd (run s ops) = snd (drun D ds ops).
Proof.
  induction ops as [|o ops IH]; intros s ds R HF; cbn [run drun].
  - split; auto.
  - inversion HF; subst.
    destruct (step_refines D s ds o R H1) as [R1 O1].
    destruct (step s o) as [s1 o1]; destruct (dstep D ds o) as [ds1 do1]; cbn [fst snd] in *.
    destruct (IH s1 ds1 R1 H2) as [R2 O2].
    destruct (run s1 ops) as [s2 o2]; destruct (drun D ds1 ops) as [ds2 do2]; cbn [fst snd] in *.
    split; auto. congruence.
Qed.

Lemma empty_refines D : refines D empty_store empty_dstore.
Proof. intros id. repeat split; try constructor. Qed.

(* the statement of C17 *)
Theorem spvecgf2_refines_dense : forall D ops, Forall (op_in_dim D) ops ->
  snd (run empty_store ops) = snd (drun D empty_dstore ops) /\
  forall id,
    sorted (fst (run empty_store ops) id) /\
    (forall i, mem (fst (run empty_store ops) id) i = fst (drun D empty_dstore ops) id i) /\
    length (fst (run empty_store ops) id) = dsize D (fst (drun D empty_dstore ops) id).
Proof.
  intros D ops HF.
  destruct (run_refines D ops _ _ (empty_refines D) HF) as [R O]. split; auto.
  intros id. destruct (R id) as (S1 & B1 & M1). repeat split; auto.
  rewrite (size_dense D) by auto. apply dsize_ext; auto.
Qed.

(* algebraic corollaries used elsewhere: addition is the symmetric difference, canonical form *)
Theorem vadd_comm u v : sorted u -> sorted v -> vadd u v = vadd v u.
Proof.
  intros Hu Hv. apply sorted_ext; auto using vadd_sorted.
  intros i. rewrite !vadd_mem by auto. apply xorb_comm.
Qed.

Theorem vadd_assoc u v w : sorted u -> sorted v -> sorted w -> vadd (vadd u v) w = vadd u (vadd v w).
Proof.
  intros Hu Hv Hw. apply sorted_ext; auto using vadd_sorted.
  intros i. rewrite !vadd_mem by auto using vadd_sorted. apply xorb_assoc.
Qed.

Theorem vadd_self u : sorted u -> vadd u u = [].
Proof.
  intros Hu. apply sorted_ext; auto using vadd_sorted, sorted_nil.
  intros i. rewrite vadd_mem by auto. apply xorb_nilpotent.
Qed.

