(* TreesModel.v — executable model of the tree-based exact algorithms
     include/parmcb/parmcb_sva_trees.hpp   _mcb_sva_trees (mcb_sva_fvs_trees, mcb_sva_iso_trees; sequential lookup)
     include/parmcb/sptrees.hpp            SPTree::update_parities, CandidateCycleBuilder::operator(),
                                           ShortestOddCycleLookup<..., false>::compute_shortest_odd_cycle
   on top of LexSPModel.v (the trees), CandidatesModel.v (the collections), SvaModel.v (the support-vector loop,
   here WITHOUT the sparsest-support swap: select_none).  Generic in the weight type.  Definitions only; proofs in
   TreesProofs*.v, final statements in Properties_C01_trees.v / Properties_C02_trees.v.

   What the C++ does per phase k (witness S_k, signed_edges = convert_edges(S_k)):
     * update_parities(signed_edges) on every tree (depth-first from the root with an explicit stack; the parity of a
       child is the parity of its parent xor "the child's predecessor edge is signed");
     * scan the candidates in the order left by  std::sort(cycles, a.weight() < b.weight())  and return the FIRST one
       for which CandidateCycleBuilder answers `true`: the candidate (tree, e = (a,b)) is odd, i.e.
       parity(a) ^ parity(b) ^ (e in signed_edges), and walking the predecessor edges from a and then from b up to
       the root never inserts an edge twice into the result set {e, ...}.  The answer is that result set and the
       sum  w(e) + w(a's path edges, upwards) + w(b's path edges, upwards)  accumulated in this order (NOT the
       recorded weight of the candidate).  In the sorted mode `min` is never assigned before the return, hence
       use_weight_limit = std::get<2>(min) is false in every call and the weight-limit exits are dead.
     * if no candidate answers true, the value-initialised tuple ({}, WeightType(), false) is returned and the main
       loop — which never looks at the flag — emits an EMPTY cycle and adds 0.  The model reports PNone, i.e. the
       run ends with SvaNoCycle k (explicit value; deliberate deviation: the C++ would go on).  The theorems show
       that this never happens for the Horton and FVS collections in the exact domain (it does happen for the
       isometric collection on inexact doubles: known finding D9).

   Nondeterminism.  std::sort is not stable: the relative order of candidates of equal recorded weight is
   unspecified.  "c is the first answering candidate of SOME weight-sorted arrangement" is equivalent to
   "c answers true and no answering candidate has a strictly smaller recorded weight".  The model is therefore an
   ACCEPTANCE model: mcb_sva_trees_replay replays a run whose emitted cycles are given and checks every phase with
   trees_phase_pick; mcb_sva_trees_first is the deterministic resolution "first such candidate in collection
   order" (= what a stable sort would give).

   Errors the C++ would run into as undefined behaviour are explicit: TrNoNode (null tree node dereferenced / a child
   without predecessor edge), TrRange (trees[c.tree()] out of range, an edge id without endpoints), TrFuel. *)
From Coq Require Export ZArith.
From Parmcb Require Export GraphModel GF2Model ForestModel SvaModel LexSPModel FvsModel CandidatesModel.

Inductive tr_result (A : Type) : Type :=
| TrOk (a : A)
| TrNoNode
| TrRange
| TrFuel.
Arguments TrOk {A} a.
Arguments TrNoNode {A}.
Arguments TrRange {A}.
Arguments TrFuel {A}.

Fixpoint list_eqb (a b : list nat) : bool :=
  match a, b with
  | [], [] => true
  | x :: a', y :: b' => Nat.eqb x y && list_eqb a' b'
  | _, _ => false
  end.

Section Trees.
  Variable W : Type.
  Variable w0 : W.
  Variable wadd : W -> W -> W.
  Variable wltb : W -> W -> bool.

  (* ---- SPTree::update_parities ----------------------------------------------------------------- *)

  (* for (auto c : r.root->children()) stack.emplace(r.info ^ (edges.find(c->pred()) != edges.end()), c) *)
  Fixpoint tp_children (nodes : list (option (sp_node W))) (sg : list nat) (info : bool) (cs : list nat)
    : tr_result (list (bool * nat)) :=
    match cs with
    | [] => TrOk []
    | c :: r =>
        match nth c nodes None with
        | None => TrNoNode
        | Some nd =>
            match sn_pred nd with
            | None => TrNoNode
            | Some e =>
                match tp_children nodes sg info r with
                | TrOk l => TrOk ((xorb info (memb e sg), c) :: l)
                | err => err
                end
            end
        end
    end.

  (* while (!stack.empty()): the stack holds (info, vertex of the node); the last child pushed is on top.
     `par` is the parity field of every node, indexed by vertex *)
  Fixpoint tp_loop (fuel : nat) (nodes : list (option (sp_node W))) (sg : list nat)
           (stack : list (bool * nat)) (par : list bool) {struct fuel} : tr_result (list bool) :=
    match stack with
    | [] => TrOk par
    | (info, v) :: rest =>
        match fuel with
        | O => TrFuel
        | S fuel' =>
            match nth v nodes None with
            | None => TrNoNode
            | Some nd =>
                match tp_children nodes sg info (sn_children nd) with
                | TrOk l => tp_loop fuel' nodes sg (rev l ++ rest) (set_nth par v info)
                | TrNoNode => TrNoNode | TrRange => TrRange | TrFuel => TrFuel
                end
            end
        end
    end.

  (* every node is rewritten by each call, so the parities left by the previous phase do not matter: start from the
     constructor value false *)
  Definition update_parities (g : graph) (t : sp_tree W) (sg : list nat) : tr_result (list bool) :=
    tp_loop (S (nv g)) (st_nodes t) sg [(false, st_src t)] (map (fun _ => false) (seq 0 (nv g))).

  (* for (i = 0; i < trees.size(); i++) trees[i].update_parities(edges) *)
  Fixpoint tp_all (g : graph) (trees : list (sp_tree W)) (sg : list nat) : tr_result (list (list bool)) :=
    match trees with
    | [] => TrOk []
    | t :: r =>
        match update_parities g t sg with
        | TrOk p =>
            match tp_all g r sg with
            | TrOk ps => TrOk (p :: ps)
            | err => err
            end
        | TrNoNode => TrNoNode | TrRange => TrRange | TrFuel => TrFuel
        end
    end.

  (* ---- CandidateCycleBuilder::operator() (use_weight_limit = false) ------------------------------- *)

  (* while (ws->has_pred()) { a = ws->pred(); if (!result.insert(a).second) invalid; cycle_weight += w(a);
                              w = opposite(a, w); ws = node(w); }
     `res` is the content of the result set so far (membership only), None = invalid *)
  Fixpoint tc_path (fuel : nat) (g : graph) (wts : list W) (t : sp_tree W) (w : nat) (res : list nat) (cw : W)
           {struct fuel} : tr_result (option (list nat * W)) :=
    match sp_node_of W t w with
    | None => TrNoNode
    | Some ws =>
        match sn_pred ws with
        | None => TrOk (Some (res, cw))
        | Some a =>
            match fuel with
            | O => TrFuel
            | S fuel' =>
                if memb a res then TrOk None
                else match opposite g a w with
                     | None => TrRange
                     | Some w' => tc_path fuel' g wts t w' (a :: res) (wadd cw (lx_wt W w0 wts a))
                     end
            end
        end
    end.

  Inductive tc_answer :=
  | TcFound (c : list nat) (w : W)       (* (result as a sorted edge set, cycle_weight, true) *)
  | TcNot.                               (* ({}, 0, false) *)

  (* `pars` = the parity arrays of all trees after update_parities *)
  Definition tc_build (g : graph) (wts : list W) (trees : list (sp_tree W)) (pars : list (list bool))
             (sg : list nat) (c : cand W) : tr_result tc_answer :=
    match nth_error trees (c_tree c), ends g (c_edge c) with
    | Some t, Some (a, b) =>
        match sp_node_of W t a, sp_node_of W t b with
        | Some _, Some _ =>
            let par := nth (c_tree c) pars [] in
            if xorb (xorb (nth a par false) (nth b par false)) (memb (c_edge c) sg) then
              match tc_path (S (nv g)) g wts t a [c_edge c] (lx_wt W w0 wts (c_edge c)) with
              | TrOk (Some (r1, w1)) =>
                  match tc_path (S (nv g)) g wts t b r1 w1 with
                  | TrOk (Some (r2, w2)) => TrOk (TcFound (set_of_list r2) w2)
                  | TrOk None => TrOk TcNot
                  | TrNoNode => TrNoNode | TrRange => TrRange | TrFuel => TrFuel
                  end
              | TrOk None => TrOk TcNot
              | TrNoNode => TrNoNode | TrRange => TrRange | TrFuel => TrFuel
              end
            else TrOk TcNot
        | _, _ => TrNoNode
        end
    | _, _ => TrRange
    end.

  (* the answers of the builder for every candidate of the collection, in collection order *)
  Fixpoint tl_eval (g : graph) (wts : list W) (trees : list (sp_tree W)) (pars : list (list bool))
           (sg : list nat) (cs : list (cand W)) : tr_result (list (cand W * tc_answer)) :=
    match cs with
    | [] => TrOk []
    | c :: r =>
        match tc_build g wts trees pars sg c with
        | TrOk a =>
            match tl_eval g wts trees pars sg r with
            | TrOk l => TrOk ((c, a) :: l)
            | err => err
            end
        | TrNoNode => TrNoNode | TrRange => TrRange | TrFuel => TrFuel
        end
    end.

  Definition tl_answers (g : graph) (wts : list W) (trees : list (sp_tree W)) (cands : list (cand W))
             (sg : list nat) : tr_result (list (cand W * tc_answer)) :=
    match tp_all g trees sg with
    | TrOk pars => tl_eval g wts trees pars sg cands
    | TrNoNode => TrNoNode | TrRange => TrRange | TrFuel => TrFuel
    end.

  (* ---- ShortestOddCycleLookup over the weight-sorted candidates ------------------------------------ *)

  Definition tl_found (x : cand W * tc_answer) : bool :=
    match snd x with TcFound _ _ => true | TcNot => false end.

  (* no answering candidate has a strictly smaller recorded weight than c *)
  Definition tl_is_min (l : list (cand W * tc_answer)) (c : cand W) : bool :=
    forallb (fun x => negb (tl_found x && wltb (c_weight (fst x)) (c_weight c))) l.

  (* acceptance of a given cycle: the weight returned with it by the first candidate (collection order) that answers
     with exactly this edge set and could be the first answering one of a weight-sorted arrangement *)
  Definition tl_matches (l : list (cand W * tc_answer)) (c : list nat) (x : cand W * tc_answer) : bool :=
    match snd x with
    | TcFound c' _ => list_eqb c' c && tl_is_min l (fst x)
    | TcNot => false
    end.

  Definition trees_phase_pick (l : list (cand W * tc_answer)) (c : list nat) : option W :=
    match find (tl_matches l c) l with
    | Some (_, TcFound _ w) => Some w
    | _ => None
    end.

  (* the deterministic resolution: the first answering candidate of minimum recorded weight *)
  Definition trees_phase_first (l : list (cand W * tc_answer)) : option (list nat * W) :=
    match find (fun x => tl_found x && tl_is_min l (fst x)) l with
    | Some (_, TcFound c w) => Some (c, w)
    | _ => None
    end.

  (* phase k with witness S (forest-index coordinates); `cycles` = the run being replayed *)
  Definition trees_search_accept (g : graph) (wts : list W) (trees : list (sp_tree W)) (cands : list (cand W))
             (fi : forest_index) (cycles : list (list nat)) (k : nat) (S : vec) : phase_result W :=
    match nth_error cycles k with
    | None => PNone
    | Some c =>
        match tl_answers g wts trees cands (indices_to_edges fi S) with
        | TrOk l => match trees_phase_pick l c with Some w => PFound c w | None => PNone end
        | _ => PError
        end
    end.

  Definition trees_search_first (g : graph) (wts : list W) (trees : list (sp_tree W)) (cands : list (cand W))
             (fi : forest_index) (k : nat) (S : vec) : phase_result W :=
    match tl_answers g wts trees cands (indices_to_edges fi S) with
    | TrOk l => match trees_phase_first l with Some (c, w) => PFound c w | None => PNone end
    | _ => PError
    end.

  (* ---- _mcb_sva_trees ------------------------------------------------------------------------------ *)

  Inductive tbuilder := TbHorton | TbFvs | TbIso.

  (* CyclesBuilder()(g, weight_map, trees, cycles); `picks` = the pick oracle of FvsModel.greedy_fvs (FVS only) *)
  Definition tb_collection (b : tbuilder) (g : graph) (wts : list W) (picks : list nat)
    : cd_result (list (sp_tree W) * list (cand W)) :=
    match b with
    | TbHorton => horton_cycles W w0 wadd wltb g wts
    | TbFvs => fvs_cycles W w0 wadd wltb g wts picks
    | TbIso => iso_cycles W w0 wadd wltb g wts
    end.

  Inductive trees_run :=
  | TRun (r : sva_result W)
  | TNoCollection.                       (* the builder's model ended in one of its error values *)

  (* ForestIndex, supports = units, the builder, then the main loop: no swap (select_none), per phase the lookup,
     support update for l > k, mcb_weight += weight *)
  Definition mcb_sva_trees (b : tbuilder) (g : graph) (wts : list W) (roots picks : list nat)
             (search : list (sp_tree W) -> list (cand W) -> forest_index -> nat -> vec -> phase_result W)
    : trees_run :=
    match create_index g roots with
    | None => TRun SvaNoIndex
    | Some fi =>
        match tb_collection b g wts picks with
        | CdOk (trees, cands) => TRun (sva_run W w0 wadd select_none (search trees cands fi) fi)
        | _ => TNoCollection
        end
    end.

  Definition mcb_sva_trees_replay (b : tbuilder) (g : graph) (wts : list W) (roots picks : list nat)
             (cycles : list (list nat)) : trees_run :=
    mcb_sva_trees b g wts roots picks (fun trees cands fi => trees_search_accept g wts trees cands fi cycles).

  (* Some total: every phase accepted its cycle and the run consumed exactly the given cycles *)
  Definition mcb_sva_trees_accept (b : tbuilder) (g : graph) (wts : list W) (roots picks : list nat)
             (cycles : list (list nat)) : option W :=
    match mcb_sva_trees_replay b g wts roots picks cycles with
    | TRun (SvaOk cs total _) => if Nat.eqb (length cycles) (length cs) then Some total else None
    | _ => None
    end.

  Definition mcb_sva_trees_first (b : tbuilder) (g : graph) (wts : list W) (roots picks : list nat) : trees_run :=
    mcb_sva_trees b g wts roots picks (fun trees cands fi => trees_search_first g wts trees cands fi).
End Trees.

Arguments TcFound {W} c w.
Arguments TcNot {W}.
Arguments TRun {W} r.
Arguments TNoCollection {W}.

(* ---- the exact-domain instances ------------------------------------------------------------------------ *)
Definition update_parities_Z := update_parities Z.
Definition tl_answers_Z := tl_answers Z 0%Z Z.add.
Definition mcb_sva_trees_replay_Z := mcb_sva_trees_replay Z 0%Z Z.add Z.ltb.
Definition mcb_sva_trees_accept_Z := mcb_sva_trees_accept Z 0%Z Z.add Z.ltb.
Definition mcb_sva_trees_first_Z := mcb_sva_trees_first Z 0%Z Z.add Z.ltb.

(* trees_phase_ok: "c with weight w is an acceptable answer of the lookup for the signed edge set sg" *)
Definition trees_phase_ok (g : graph) (wts : list Z) (trees : list (sp_tree Z)) (cands : list (cand Z))
           (sg : list nat) (c : list nat) (w : Z) : bool :=
  match tl_answers_Z g wts trees cands sg with
  | TrOk l => match trees_phase_pick Z Z.ltb l c with Some w' => Z.eqb w' w | None => false end
  | _ => false
  end.
