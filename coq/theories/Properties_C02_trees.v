(* Properties_C02_trees.v — C02 for the tree-based exact entry points: the emitted basis is a MINIMUM cycle basis and the
   returned value is its weight.  Model: TreesModel.v (acceptance model, see Properties_C01_trees.v).

   C02_trees_accept_weight   ANY builder, NO premise: the value accumulated by an accepted run is the total weight of
                             the emitted cycles.
   C02_trees_accept_min_modulo_sufficiency
                             ANY builder, premise collection_sufficient (for every canonical witness every odd simple
                             cycle is dominated by an odd candidate that is no heavier): every accepted run emitted a
                             minimum cycle basis.  This is all that is available for the ISOMETRIC builder.
   C02_horton_sufficient / C02_fvs_sufficient
                             the premise holds for Horton's collection and for the FVS collection (for every pick
                             oracle), over the model's lexicographic shortest-path trees (DESIGN Appendix B7: telescoping
                             tree parities along the cycle, tree walks are shortest, shortcut lemma, every cycle meets
                             the feedback vertex set).
   C02_fvs_trees             FVS builder, NO premise, for every complete run of greedy_fvs: EVERY accepted run — every
                             resolution of the unstable std::sort — emitted a minimum cycle basis and returned its
                             weight, and an accepted run exists.
   C02_horton_trees          the same for Horton's collection.
   NOT proved: sufficiency of the isometric collection (C02_iso_sufficient_statement, Definition only) — hence
   C02_iso_trees_statement is a Definition only; covered by the correspondence of tools/trees_common.py and the
   independent judge.  The "sorted weight vectors coincide" sentence is not restated here (see Properties_C02.v). *)
From Coq Require Import List Arith Bool ZArith.
From Parmcb Require Import GraphModel GF2Model GraphSpec McbSpec LexSPModel FvsModel CandidatesModel ForestModel SvaModel
     TreesModel TreesProofs3 TreesProofs4 TreesProofs5.
Import ListNotations.

Theorem C02_trees_accept_weight :
  forall (b : tbuilder) (g : graph) (wts : list Z) (roots picks : list nat) (cycles : list (list nat)) (total : Z),
    simple_graph g -> positive_weights g wts -> (forall v, v < nv g -> In v roots) ->
    mcb_sva_trees_accept_Z b g wts roots picks cycles = Some total ->
    total = total_weight wts cycles.
Proof. exact tf_C02_trees_accept_weight. Qed.
Print Assumptions C02_trees_accept_weight.

Theorem C02_trees_accept_min_modulo_sufficiency :
  forall (b : tbuilder) (g : graph) (wts : list Z) (roots picks : list nat) (cycles : list (list nat)) (total : Z),
    simple_graph g -> positive_weights g wts -> (forall v, v < nv g -> In v roots) ->
    (forall fi trees cands, create_index g roots = Some fi ->
       tb_collection Z 0%Z Z.add Z.ltb b g wts picks = CdOk (trees, cands) ->
       collection_sufficient g wts fi trees cands) ->
    mcb_sva_trees_accept_Z b g wts roots picks cycles = Some total ->
    min_cycle_basis g wts cycles /\ total = total_weight wts cycles.
Proof. exact tf_C02_trees_accept_modulo_sufficiency. Qed.
Print Assumptions C02_trees_accept_min_modulo_sufficiency.

(* ... and modulo the same premise an accepted run exists (the deterministic resolution completes and is accepted) *)
Theorem C02_trees_first_total_modulo_sufficiency :
  forall (b : tbuilder) (g : graph) (wts : list Z) (roots picks : list nat),
    simple_graph g -> positive_weights g wts -> (forall v, v < nv g -> In v roots) ->
    forall trees cands,
    tb_collection Z 0%Z Z.add Z.ltb b g wts picks = CdOk (trees, cands) ->
    (forall fi, create_index g roots = Some fi -> collection_sufficient g wts fi trees cands) ->
    exists cycles total sup,
      mcb_sva_trees_first_Z b g wts roots picks = TRun (SvaOk cycles total sup) /\
      min_cycle_basis g wts cycles /\ total = total_weight wts cycles /\
      has_cycle_space_dimension g (length cycles) /\
      mcb_sva_trees_accept_Z b g wts roots picks cycles = Some total.
Proof. exact trees_first_total_modulo_sufficiency. Qed.
Print Assumptions C02_trees_first_total_modulo_sufficiency.

(* the sufficiency premise, discharged: for EVERY signed edge set sg and every odd simple cycle D some candidate of the
   collection is odd w.r.t. sg and no heavier than D *)
Theorem C02_horton_sufficient :
  forall g wts trees cands, simple_graph g -> positive_weights g wts ->
    horton_cycles_Z g wts = CdOk (trees, cands) -> collection_sufficient_all g wts trees cands.
Proof. exact horton_sufficient. Qed.
Print Assumptions C02_horton_sufficient.

Theorem C02_fvs_sufficient :
  forall g wts picks trees cands, simple_graph g -> positive_weights g wts ->
    fvs_cycles_Z g wts picks = CdOk (trees, cands) -> collection_sufficient_all g wts trees cands.
Proof. exact fvs_sufficient. Qed.
Print Assumptions C02_fvs_sufficient.

Theorem C02_fvs_trees :
  forall (g : graph) (wts : list Z) (roots picks fvs : list nat),
    simple_graph g -> positive_weights g wts -> (forall v, v < nv g -> In v roots) ->
    greedy_fvs g picks = FvsOk fvs ->
    (forall cycles total, mcb_sva_trees_accept_Z TbFvs g wts roots picks cycles = Some total ->
       min_cycle_basis g wts cycles /\ total = total_weight wts cycles) /\
    (exists cycles total, mcb_sva_trees_accept_Z TbFvs g wts roots picks cycles = Some total).
Proof. exact tf_C02_fvs_trees. Qed.
Print Assumptions C02_fvs_trees.

Theorem C02_horton_trees :
  forall (g : graph) (wts : list Z) (roots picks : list nat),
    simple_graph g -> positive_weights g wts -> (forall v, v < nv g -> In v roots) ->
    (forall cycles total, mcb_sva_trees_accept_Z TbHorton g wts roots picks cycles = Some total ->
       min_cycle_basis g wts cycles /\ total = total_weight wts cycles) /\
    (exists cycles total, mcb_sva_trees_accept_Z TbHorton g wts roots picks cycles = Some total).
Proof. exact tf_C02_horton_trees. Qed.
Print Assumptions C02_horton_trees.

(* STATED, NOT PROVED: the isometric collection (Amaldi–Iuliano–Rizzi) *)
Definition C02_iso_sufficient_statement : Prop := iso_sufficient_statement.
Definition C02_iso_trees_statement : Prop := TreesProofs5.C02_iso_trees_statement.

(* ---- non-vacuity: a theta graph 0-2-1 / 0-3-4-1 / 0-5-6-1 with path weights 3, 4, 5 (cycles 7, 8, 9; optimum 15);
   roots, feedback vertex set and emitted cycles as produced by the real code ----------------------------------------- *)
Definition c02t_g : graph := {| nv := 7; ge := [(0,2);(2,1);(0,3);(3,4);(4,1);(0,5);(5,6);(6,1)] |}.
Definition c02t_w : list Z := [2;1;1;1;2;1;1;3]%Z.
Definition c02t_roots : list nat := [6;0;1;2;3;4;5;6].

Example C02_trees_nonvacuous :
  simple_graph c02t_g /\ positive_weights c02t_g c02t_w /\ (forall v, v < nv c02t_g -> In v c02t_roots) /\
  greedy_fvs c02t_g [1] = FvsOk [1] /\
  (* the run of the real mcb_sva_fvs_trees / mcb_sva_iso_trees is accepted with the returned value 15 ... *)
  mcb_sva_trees_accept_Z TbFvs c02t_g c02t_w c02t_roots [1] [[0;1;2;3;4];[0;1;5;6;7]] = Some 15%Z /\
  mcb_sva_trees_accept_Z TbIso c02t_g c02t_w c02t_roots [] [[0;1;2;3;4];[0;1;5;6;7]] = Some 15%Z /\
  total_weight c02t_w [[0;1;2;3;4];[0;1;5;6;7]] = 15%Z /\
  (* ... a basis that is not minimum (cycles 7 and 9) is rejected ... *)
  mcb_sva_trees_accept_Z TbFvs c02t_g c02t_w c02t_roots [1] [[0;1;2;3;4];[2;3;4;5;6;7]] = None /\
  (* ... and the deterministic resolution agrees *)
  mcb_sva_trees_first_Z TbFvs c02t_g c02t_w c02t_roots [1]
    = TRun (SvaOk [[0;1;2;3;4];[0;1;5;6;7]] 15%Z [[0];[0;1]]).
Proof.
  split; [reflexivity|]. split; [split; [reflexivity|repeat constructor]|].
  split; [intros v Hv; cbn in Hv; unfold c02t_roots; repeat (destruct v as [|v]; [cbn; tauto|]); cbn in Hv; exfalso; apply (Nat.nlt_0_r v); do 7 apply Nat.succ_lt_mono in Hv; exact Hv|].
  repeat split; vm_compute; reflexivity.
Qed.

(* =====================================================================================================================
   APPENDED (IsoProofs*.v): the ISOMETRIC variant — supersedes the "NOT proved" notes above.
     C02_iso_sufficient   the sufficiency premise holds for the isometric collection (Amaldi–Iuliano–Rizzi over the model's
                          lexicographic shortest-path trees: every odd simple cycle has an odd isometric cycle no heavier,
                          and the builder keeps a candidate for every isometric cycle; Properties_C14.v).
     C02_iso_trees        NO premise: EVERY accepted run of mcb_sva_iso_trees — every resolution of the unstable std::sort —
                          emitted a minimum cycle basis and returned its weight, and an accepted run exists. *)
From Parmcb Require Import IsoProofsF1 IsoProofsF2.

Theorem C02_iso_sufficient : C02_iso_sufficient_statement.
Proof. exact iso_sufficient. Qed.
Print Assumptions C02_iso_sufficient.

Theorem C02_iso_trees : C02_iso_trees_statement.
Proof. exact iso_C02_iso_trees. Qed.
Print Assumptions C02_iso_trees.

(* spelled out *)
Theorem C02_iso_trees_explicit :
  forall (g : graph) (wts : list Z) (roots picks : list nat),
    simple_graph g -> positive_weights g wts -> (forall v, v < nv g -> In v roots) ->
    (forall cycles total, mcb_sva_trees_accept_Z TbIso g wts roots picks cycles = Some total ->
       min_cycle_basis g wts cycles /\ total = total_weight wts cycles) /\
    (exists cycles total, mcb_sva_trees_accept_Z TbIso g wts roots picks cycles = Some total).
Proof. exact iso_C02_iso_trees. Qed.
Print Assumptions C02_iso_trees_explicit.
