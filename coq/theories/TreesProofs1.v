(* TreesProofs1.v — the tree parities of SPTree::update_parities (TreesModel.tp_loop), generic in the weight type:
   on a tree satisfying lx_tree_spec the depth-first loop never fails, and the parity it stores at a node v is the
   parity of the number of signed edges (with multiplicity = without, the tree walk repeats no edge) on the tree walk
   from the root to v:   nth v par false = oddb sg (wedges p)   for the tree walk p of v.
   The loop invariant is the one of compute_first_in_path (LexSPProofs.lx_first_loop_ok).  Prefix tq_. *)
From Coq Require Import List Arith Bool Lia ZArith Permutation.
From Parmcb Require Import GraphModel GraphSpec GraphLemmas GF2Model HeapModel LexSPModel LexSPProofsHeap LexSPProofs
     RefModel RefProofs1 TreesModel.
Import ListNotations.

Lemma tq_oddb_snoc sg l e : oddb sg (l ++ [e]) = xorb (oddb sg l) (memb e sg).
Proof. rewrite rf_oddb_app, rf_oddb_cons, rf_oddb_nil, xorb_false_r. reflexivity. Qed.

Lemma tq_wedges_snoc (p : list (nat * nat)) e v : wedges (p ++ [(e, v)]) = wedges p ++ [e].
Proof. unfold wedges. rewrite map_app. reflexivity. Qed.

Section Par.
  Variable W : Type.
  Variable g : graph.
  Variable nodes : list (option (sp_node W)).
  Variable s : nat.
  Variable root : sp_node W.
  Variable sg : list nat.
  Hypothesis T_len : length nodes = nv g.
  Hypothesis T_root : nth s nodes None = Some root.
  Hypothesis T_root_pred : sn_pred root = None.
  Hypothesis T_children : forall u nd, nth u nodes None = Some nd ->
    NoDup (sn_children nd) /\
    forall c, In c (sn_children nd) <-> (nth c nodes None <> None /\ lx_par W g nodes c = Some u).
  Hypothesis T_chain : forall v, nth v nodes None <> None -> exists p, lx_twalk W g nodes s p v.

  Notation twalk := (lx_twalk W g nodes).

  (* the parity vertex x must receive *)
  Definition tq_lab (x : nat) (b : bool) : Prop := exists p, twalk s p x /\ b = oddb sg (wedges p).

  Let isnode (v : nat) : Prop := nth v nodes None <> None.

  Lemma tq_isnode_lt v : isnode v -> v < nv g.
  Proof.
    unfold isnode. intros Hv. rewrite <- T_len. destruct (Nat.lt_ge_cases v (length nodes)) as [H|H]; auto.
    rewrite nth_overflow in Hv by exact H. contradiction.
  Qed.

  Lemma tq_par_root : lx_par W g nodes s = None.
  Proof. unfold lx_par. rewrite T_root, T_root_pred. reflexivity. Qed.

  (* the children loop *)
  Lemma tq_children_ok info x : forall cs,
    (forall c, In c cs -> isnode c /\ lx_par W g nodes c = Some x) ->
    exists l, tp_children W nodes sg info cs = TrOk l /\ map snd l = cs /\
              forall b c, In (b, c) l ->
                exists nd e, nth c nodes None = Some nd /\ sn_pred nd = Some e /\ opposite g e c = Some x /\
                             b = xorb info (memb e sg).
  Proof.
    induction cs as [|c cs IH]; intros H.
    - exists []. split; [reflexivity|]. split; [reflexivity|]. intros b c [].
    - destruct (H c (or_introl eq_refl)) as [Hc Hp]. unfold isnode in Hc. unfold lx_par in Hp.
      destruct (nth c nodes None) as [nd|] eqn:En; [|contradiction].
      destruct (sn_pred nd) as [e|] eqn:Ee; [|discriminate].
      destruct (IH (fun c' Hc' => H c' (or_intror Hc'))) as [l [Hl [Hm Hin]]].
      exists ((xorb info (memb e sg), c) :: l). split; [|split].
      + cbn [tp_children]. rewrite En, Ee, Hl. reflexivity.
      + cbn [map snd]. rewrite Hm. reflexivity.
      + intros b c' [Heq|Hin']; [|apply Hin; exact Hin'].
        injection Heq as <- <-. exists nd, e. auto.
  Qed.

  Record tq_inv (stack : list (bool * nat)) (par : list bool) (popped : list nat) : Prop := {
    qi_nodup : NoDup (map snd stack ++ popped);
    qi_stack : forall b x, In (b, x) stack -> isnode x /\ tq_lab x b;
    qi_par : forall x, In x (map snd stack ++ popped) -> x = s \/ exists u, lx_par W g nodes x = Some u /\ In u popped;
    qi_done : forall x, In x popped -> isnode x /\ tq_lab x (nth x par false);
    qi_todo : forall v, isnode v -> In v popped \/ exists b x q, In (b, x) stack /\ twalk x q v;
    qi_len : length par = nv g
  }.

  Lemma tq_loop_ok : forall fuel stack par popped,
    tq_inv stack par popped -> nv g + 1 <= length popped + fuel ->
    exists par', tp_loop W fuel nodes sg stack par = TrOk par' /\ length par' = nv g /\
                 forall v, isnode v -> tq_lab v (nth v par' false).
  Proof.
    induction fuel as [|fuel IH]; intros stack par popped Hinv Hf.
    - assert (Hb : length (map snd stack ++ popped) <= nv g).
      { apply lx_NoDup_bound; [apply (qi_nodup _ _ _ Hinv)|].
        intros x Hx. apply in_app_iff in Hx as [Hx|Hx].
        - apply in_map_iff in Hx as [[i y] [<- Hy]]. apply tq_isnode_lt. eapply qi_stack; eauto.
        - apply tq_isnode_lt. apply (qi_done _ _ _ Hinv x Hx). }
      rewrite app_length, map_length in Hb.
      destruct stack as [|[i x] rest]; [|cbn [length] in Hb; lia].
      exists par. cbn [tp_loop]. split; [reflexivity|]. split; [apply (qi_len _ _ _ Hinv)|].
      intros v Hv. destruct (qi_todo _ _ _ Hinv v Hv) as [Hp|[i [x [q [[] _]]]]].
      apply (qi_done _ _ _ Hinv). exact Hp.
    - destruct stack as [|[info x] rest].
      { exists par. cbn [tp_loop]. split; [reflexivity|]. split; [apply (qi_len _ _ _ Hinv)|].
        intros v Hv. destruct (qi_todo _ _ _ Hinv v Hv) as [Hp|[i [x [q [[] _]]]]].
        apply (qi_done _ _ _ Hinv). exact Hp. }
      destruct Hinv as [Nd Stk Par Done Todo Len].
      destruct (Stk info x (or_introl eq_refl)) as [Hx Hlab].
      assert (Hxlt : x < nv g) by (apply tq_isnode_lt; exact Hx).
      pose proof Hx as Hxn.
      unfold isnode in Hx. destruct (nth x nodes None) as [ndx|] eqn:Endx; [|contradiction]. clear Hx.
      destruct (T_children x ndx Endx) as [Hcs_nd Hcs].
      set (cs := sn_children ndx) in *.
      assert (Hc_par : forall c, In c cs -> isnode c /\ lx_par W g nodes c = Some x) by (intros c Hc; apply Hcs; exact Hc).
      destruct (tq_children_ok info x cs Hc_par) as [l [Hl [Hlm Hlin]]].
      assert (Hunf : tp_loop W (S fuel) nodes sg ((info, x) :: rest) par =
                     tp_loop W fuel nodes sg (rev l ++ rest) (set_nth par x info)).
      { cbn [tp_loop]. rewrite Endx. fold cs. rewrite Hl. reflexivity. }
      rewrite Hunf. apply (IH _ _ (x :: popped)); [|cbn [length]; lia].
      assert (Hc_ne_s : forall c, In c cs -> c <> s).
      { intros c Hc ->. destruct (Hc_par s Hc) as [_ Hp]. rewrite tq_par_root in Hp. discriminate. }
      assert (Hx_notpopped : ~ In x popped).
      { cbn [map snd app] in Nd. inversion Nd as [|? ? Hn _]; subst. intros Hc. apply Hn. apply in_or_app; right; exact Hc. }
      assert (Hc_fresh : forall c, In c cs -> ~ In c (map snd ((info, x) :: rest) ++ popped)).
      { intros c Hc Hin. destruct (Par c Hin) as [->|[u [Hu Hup]]]; [eapply Hc_ne_s; eauto|].
        destruct (Hc_par c Hc) as [_ Hp]. rewrite Hp in Hu. injection Hu as <-. contradiction. }
      assert (Hmapsnd : map snd (rev l ++ rest) = rev cs ++ map snd rest).
      { rewrite map_app, map_rev, Hlm. reflexivity. }
      constructor.
      + rewrite Hmapsnd, <- app_assoc. apply gl_NoDup_app.
        * apply NoDup_rev. exact Hcs_nd.
        * eapply Permutation_NoDup; [apply Permutation_middle|]. exact Nd.
        * intros c Hc Hin. apply in_rev in Hc. apply (Hc_fresh c Hc).
          cbn [map snd app]. apply in_app_iff in Hin as [Hin|[<-|Hin]]; [right|left; reflexivity|right];
            apply in_or_app; auto.
      + intros b y Hy. apply in_app_iff in Hy as [Hy|Hy]; [|apply Stk; right; exact Hy].
        apply in_rev in Hy. destruct (Hlin b y Hy) as [nd [e [Hn [He [Ho Hb]]]]].
        split; [unfold isnode; rewrite Hn; discriminate|].
        destruct Hlab as [p [Hp Hi]]. exists (p ++ [(e, y)]). split; [eapply ltw_snoc; eauto|].
        rewrite tq_wedges_snoc, tq_oddb_snoc, <- Hi. exact Hb.
      + intros y Hy. rewrite Hmapsnd, <- app_assoc in Hy.
        apply in_app_iff in Hy as [Hy|Hy].
        * apply in_rev in Hy. right. exists x. split; [apply Hc_par; exact Hy|left; reflexivity].
        * assert (Hy' : In y (map snd ((info, x) :: rest) ++ popped)).
          { cbn [map snd app]. apply in_app_iff in Hy as [Hy|[<-|Hy]]; [right|left; reflexivity|right];
              apply in_or_app; auto. }
          destruct (Par y Hy') as [->|[u [Hu Hup]]]; [left; reflexivity|].
          right. exists u. split; [exact Hu|right; exact Hup].
      + intros y [<-|Hy].
        * split; [exact Hxn|]. rewrite hp_nth_set_nth_eq by lia. exact Hlab.
        * rewrite hp_nth_set_nth_neq by (intros ->; contradiction). apply Done; exact Hy.
      + intros v Hv. destruct (Todo v Hv) as [Hp|[i [y [q [[Hy|Hy] Hq]]]]].
        * left; right; exact Hp.
        * injection Hy as <- <-. apply lx_twalk_front in Hq as [[_ ->]|[e [c [q' [nd [_ [Hc1 [Hc2 [Hc3 Hc4]]]]]]]]].
          -- left; left; reflexivity.
          -- right.
             assert (Hcin : In c cs).
             { apply Hcs. split; [rewrite Hc1; discriminate|]. unfold lx_par. rewrite Hc1, Hc2. exact Hc3. }
             assert (Hcl : In c (map snd l)) by (rewrite Hlm; exact Hcin).
             apply in_map_iff in Hcl as [[b c'] [Hbc Hbl]]. cbn [snd] in Hbc. subst c'.
             exists b, c, q'. split; [|exact Hc4]. apply in_or_app; left. apply -> in_rev. exact Hbl.
        * right. exists i, y, q. split; [apply in_or_app; right; exact Hy|exact Hq].
      + rewrite hp_set_nth_length. exact Len.
  Qed.

  Lemma tq_parities_ok :
    exists par, tp_loop W (S (nv g)) nodes sg [(false, s)] (map (fun _ => false) (seq 0 (nv g))) = TrOk par /\
                length par = nv g /\ forall v, nth v nodes None <> None -> tq_lab v (nth v par false).
  Proof.
    apply (tq_loop_ok _ _ _ []); [|cbn [length]; lia].
    assert (Hs : isnode s) by (unfold isnode; rewrite T_root; discriminate).
    constructor; cbn [map snd app].
    - constructor; [intros []|constructor].
    - intros b x [Hx|[]]. injection Hx as <- <-. split; [exact Hs|]. exists []. split; [apply ltw_nil; exact Hs|reflexivity].
    - intros x [<-|[]]. left; reflexivity.
    - intros x [].
    - intros v Hv. right. destruct (T_chain v Hv) as [p Hp]. exists false, s, p. split; [left; reflexivity|exact Hp].
    - apply lx_const_length.
  Qed.
End Par.

(* ---- on the tree returned by SPTree::initialize ------------------------------------------------------------ *)
Section ParTree.
  Variable W : Type.
  Variable w0 : W.
  Variable wadd : W -> W -> W.
  Variable g : graph.
  Variable wts : list W.
  Variable s : nat.
  Variable t : sp_tree W.
  Hypothesis Hspec : lx_tree_spec W w0 wadd g wts s t.

  Lemma tq_tree_children u nd : nth u (st_nodes t) None = Some nd ->
    NoDup (sn_children nd) /\
    forall c, In c (sn_children nd) <-> (nth c (st_nodes t) None <> None /\ lx_par W g (st_nodes t) c = Some u).
  Proof.
    intros Hu. rewrite (ts_children _ _ _ _ _ _ _ Hspec u nd Hu). split.
    - apply NoDup_filter. apply seq_NoDup.
    - intros c. rewrite filter_In, in_seq. split.
      + intros [_ Hc]. destruct (lx_par W g (st_nodes t) c) as [u'|] eqn:Ep; [|discriminate].
        apply Nat.eqb_eq in Hc. subst u'. split; [|reflexivity].
        unfold lx_par in Ep. destruct (nth c (st_nodes t) None); [discriminate|discriminate].
      + intros [Hc Hp]. rewrite Hp, Nat.eqb_refl. split; [|reflexivity].
        split; [lia|]. rewrite <- (ts_len _ _ _ _ _ _ _ Hspec). cbn [plus].
        destruct (nth c (st_nodes t) None) as [ndc|] eqn:Ec; [|contradiction]. eapply lx_nth_some_lt; eauto.
  Qed.

  (* update_parities never fails, and the stored parity is the parity of the tree walk *)
  Theorem tq_update_parities sg :
    exists par, update_parities W g t sg = TrOk par /\ length par = nv g /\
                forall v p, lx_twalk W g (st_nodes t) s p v -> nth v par false = oddb sg (wedges p).
  Proof.
    destruct (ts_root _ _ _ _ _ _ _ Hspec) as [ndr [Hr1 [Hr2 _]]].
    destruct (tq_parities_ok W g (st_nodes t) s ndr sg (ts_len _ _ _ _ _ _ _ Hspec) Hr1 Hr2 tq_tree_children
                (ts_chain _ _ _ _ _ _ _ Hspec)) as [par [Hp [Hl Hv]]].
    exists par. unfold update_parities. rewrite (ts_src _ _ _ _ _ _ _ Hspec). split; [exact Hp|]. split; [exact Hl|].
    intros v p Hw. destruct (Hv v (lx_twalk_end _ _ _ _ _ _ Hw)) as [p' [Hp' ->]].
    rewrite (lx_twalk_unique W g (st_nodes t) s ndr Hr1 Hr2 _ _ Hp' _ Hw). reflexivity.
  Qed.
End ParTree.
