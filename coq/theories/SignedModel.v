(* SignedModel.v — executable model of
     include/parmcb/detail/signed_dijkstra.hpp  (search_frontier, bidirectional_signed_dijkstra)
     include/parmcb/parmcb_sva_signed.hpp       (mcb_sva_signed)
   generic in the weight type (instantiated with Z for the exact domain and with binary64 for C09).
   Definitions only.

   Signed vertices (v, sign) are numbered v + (if sign then 0 else n), as SignedDistanceFunctor does.
   Oracles: `roots` (ForestModel), `eord` — a ranking of the edge ids standing for the pointer order in
   which std::set<Edge> iterates — and `choose`, which resolves ties between equal keys in the 4-ary
   heap (given the tied entries in heap order, the position to pop). *)
From Parmcb Require Export GraphModel ForestModel GF2Model.

Section Signed.
  Variable W : Type.
  Variable w0 : W.
  Variable wadd : W -> W -> W.
  Variable wltb : W -> W -> bool.           (* std::less *)
  Variable choose : list nat -> nat.

  Definition wtof (wts : list W) (e : nat) : W := nth e wts w0.

  (* ---- search_frontier ---------------------------------------------------------------- *)
  Record frontier := {
    f_src : nat;
    f_dist : list (option W);                (* Some for the source and for visited entries *)
    f_pred : list (option (nat * nat));      (* (predecessor signed vertex, edge) ; None = not visited *)
    f_heap : list nat                        (* content of the queue, in insertion order *)
  }.

  Definition fr_init (n : nat) (s : nat) : frontier :=
    {| f_src := s;
       f_dist := set_nth (map (fun _ => None) (seq 0 (2 * n))) s (Some w0);
       f_pred := map (fun _ => None) (seq 0 (2 * n));
       f_heap := [s] |}.

  Definition fr_dist (f : frontier) (u : nat) : option W := nth u (f_dist f) None.
  Definition has_finite_dist (f : frontier) (u : nat) : bool :=
    Nat.eqb u (f_src f) || match nth u (f_pred f) None with Some _ => true | None => false end.

  (* frontier.update(w, c, pred, e) *)
  Definition fr_update (f : frontier) (w : nat) (c : W) (p e : nat) : frontier :=
    if Nat.eqb w (f_src f) then f
    else match nth w (f_pred f) None with
         | None =>                         (* first time found *)
             {| f_src := f_src f; f_dist := set_nth (f_dist f) w (Some c);
                f_pred := set_nth (f_pred f) w (Some (p, e)); f_heap := f_heap f ++ [w] |}
         | Some _ =>
             match fr_dist f w with
             | Some dw =>
                 if wltb c dw then
                   {| f_src := f_src f; f_dist := set_nth (f_dist f) w (Some c);
                      f_pred := set_nth (f_pred f) w (Some (p, e)); f_heap := f_heap f |}
                 else f
             | None => f
             end
         end.

  (* keys of the heap entries; minimum key; the tied minimal entries *)
  Fixpoint min_key (f : frontier) (h : list nat) (best : option W) : option W :=
    match h with
    | [] => best
    | u :: r =>
        match fr_dist f u, best with
        | Some d, Some b => min_key f r (if wltb d b then Some d else Some b)
        | Some d, None => min_key f r (Some d)
        | None, _ => min_key f r best
        end
    end.
  Definition find_min (f : frontier) : option W := min_key f (f_heap f) None.

  Definition is_min (f : frontier) (m : W) (u : nat) : bool :=
    match fr_dist f u with Some d => negb (wltb m d) | None => false end.   (* d <= m, m is the minimum *)

  Fixpoint remove_first (x : nat) (l : list nat) : list nat :=
    match l with [] => [] | y :: r => if Nat.eqb x y then r else y :: remove_first x r end.

  (* queue.top() + queue.pop() *)
  Definition fr_poll (f : frontier) : option (nat * frontier) :=
    match find_min f with
    | None => None
    | Some m =>
        let tied := filter (is_min f m) (f_heap f) in
        match nth_error tied (Nat.modulo (choose tied) (length tied)) with
        | None => None
        | Some u => Some (u, {| f_src := f_src f; f_dist := f_dist f; f_pred := f_pred f;
                                f_heap := remove_first u (f_heap f) |})
        end
    end.

  (* ---- bidirectional_signed_dijkstra ---------------------------------------------------- *)
  Record sparams := {
    sp_g : graph; sp_wts : list W; sp_signed : list nat; sp_hidden : list nat; sp_use_hidden : bool;
    sp_limit : option W                      (* Some l = use_cycle_weight_limit with cycle_weight_limit = l *)
  }.

  Definition vertex_of (n u : nat) : nat := if Nat.ltb u n then u else u - n.
  Definition sign_of (n u : nat) : bool := Nat.ltb u n.                 (* true = positive copy *)
  Definition signed_id (n v : nat) (pos : bool) : nat := if pos then v else v + n.

  Definition below_limit (P : sparams) (c : W) : bool :=
    match sp_limit P with None => true | Some l => wltb c l end.

  (* body of the edge loop of one frontier scan; state = (frontier, best) with
     best = Some (best_path, best_path_common_vertex) *)
  Definition scan_edge (P : sparams) (other : frontier) (su : nat) (du : W)
             (st : frontier * option (W * nat)) (ew : nat * nat) : frontier * option (W * nat) :=
    let '(fr, best) := st in
    let '(e, w) := ew in
    let n := nv (sp_g P) in
    let u := vertex_of n su in
    if sp_use_hidden P && memb e (sp_hidden P) then st
    else if Nat.eqb w u then st
    else
      let c := wadd du (wtof (sp_wts P) e) in
      if negb (below_limit P c) then st
      else
        let is_signed := memb e (sp_signed P) in
        let sw := signed_id n w (if is_signed then negb (sign_of n su) else sign_of n su) in
        let fr' := fr_update fr sw c su e in
        if has_finite_dist other sw then
          match fr_dist other sw with
          | Some dw =>
              let pd := wadd c dw in
              match best with
              | Some (bp, _) => if wltb pd bp then (fr', Some (pd, sw)) else (fr', best)
              | None => (fr', Some (pd, sw))
              end
          | None => (fr', best)
          end
        else (fr', best).

  Inductive loop_result :=
  | LoopDone (fr other : frontier) (best : option (W * nat))    (* left the loop by `break` *)
  | LoopLimit                                                   (* reached limit: return not found *)
  | LoopFuel | LoopBroken.

  Fixpoint bidir_loop (fuel : nat) (P : sparams) (fr other : frontier) (best : option (W * nat)) : loop_result :=
    match fuel with
    | O => LoopFuel
    | S fuel' =>
        match f_heap fr, f_heap other with
        | [], _ => LoopDone fr other best
        | _, [] => LoopDone fr other best
        | _, _ =>
            let stop :=
              match best, find_min fr, find_min other with
              | Some (bp, _), Some a, Some b => negb (wltb (wadd a b) bp)
              | _, _, _ => false
              end in
            if stop then LoopDone fr other best
            else
              match fr_poll fr with
              | None => LoopBroken
              | Some (su, fr1) =>
                  match fr_dist fr1 su with
                  | None => LoopBroken
                  | Some du =>
                      if negb (below_limit P du) then LoopLimit
                      else
                        let '(fr2, best') :=
                          fold_left (scan_edge P other su du)
                                    (out_edges (sp_g P) (vertex_of (nv (sp_g P)) su)) (fr1, best) in
                        bidir_loop fuel' P other fr2 best'          (* swap frontiers *)
                  end
              end
        end
    end.

  (* follow predecessors from `cur` to the frontier's source, inserting edges into `cyc` and adding
     their weights in that order; None on a duplicate edge *)
  Fixpoint follow (fuel : nat) (P : sparams) (f : frontier) (cur : nat) (cyc : list nat) (cw : W)
    : option (option (list nat * W)) :=          (* None = fuel/broken, Some None = duplicate *)
    match fuel with
    | O => None
    | S fuel' =>
        if Nat.eqb cur (f_src f) then Some (Some (cyc, cw))
        else match nth cur (f_pred f) None with
             | None => None
             | Some (p, e) =>
                 if memb e cyc then Some None
                 else follow fuel' P f p (set_insert e cyc) (wadd cw (wtof (sp_wts P) e))
             end
    end.

  Inductive search_result :=
  | Found (cycle : list nat) (w : W)
  | NotFound
  | SearchError.

  Definition bidirectional_signed_dijkstra (P : sparams) (s : nat) (s_pos : bool) (t : nat) (t_pos : bool)
    : search_result :=
    let n := nv (sp_g P) in
    let ss := signed_id n s s_pos in
    let st := signed_id n t t_pos in
    match bidir_loop (4 * n + 2) P (fr_init n ss) (fr_init n st) None with
    | LoopFuel | LoopBroken => SearchError
    | LoopLimit => NotFound
    | LoopDone fr other best =>
        match best with
        | None => NotFound
        | Some (bp, common) =>
            if negb (below_limit P bp) then NotFound
            else
              match follow (2 * n + 1) P fr common [] w0 with
              | None => SearchError
              | Some None => NotFound
              | Some (Some (cyc1, cw1)) =>
                  match follow (2 * n + 1) P other common cyc1 cw1 with
                  | None => SearchError
                  | Some None => NotFound
                  | Some (Some (cyc2, cw2)) => Found cyc2 cw2
                  end
              end
        end
    end.

  (* ---- mcb_sva_signed -------------------------------------------------------------------- *)

  (* running best = (cycle, weight) *)
  Definition better (res : W) (best : option (list nat * W)) : bool :=
    match best with None => true | Some (_, bw) => wltb res bw end.
  Definition limit_of (best : option (list nat * W)) : option W :=
    match best with None => None | Some (_, bw) => Some bw end.

  (* all-vertices branch *)
  Fixpoint all_vertices (g : graph) (wts : list W) (signed : list nat) (vs : list nat)
           (best : option (list nat * W)) : option (option (list nat * W)) :=
    match vs with
    | [] => Some best
    | v :: vs' =>
        let P := {| sp_g := g; sp_wts := wts; sp_signed := signed; sp_hidden := [];
                    sp_use_hidden := false; sp_limit := limit_of best |} in
        match bidirectional_signed_dijkstra P v true v false with
        | SearchError => None
        | NotFound => all_vertices g wts signed vs' best
        | Found c w => all_vertices g wts signed vs' (if better w best then Some (c, w) else best)
        end
    end.

  (* hidden-edge heuristic: `ses` = the signed edges still hidden, in std::set order *)
  Fixpoint hidden_edges (g : graph) (wts : list W) (signed : list nat) (ses : list nat)
           (best : option (list nat * W)) : option (option (list nat * W)) :=
    match ses with
    | [] => Some best
    | se :: ses' =>
        match ends g se with
        | None => None
        | Some (sv, su) =>
            let P := {| sp_g := g; sp_wts := wts; sp_signed := signed; sp_hidden := ses;
                        sp_use_hidden := true; sp_limit := limit_of best |} in
            match bidirectional_signed_dijkstra P sv true su true with
            | SearchError => None
            | NotFound => hidden_edges g wts signed ses' best
            | Found c w =>
                if memb se c then hidden_edges g wts signed ses' best
                else
                  let w' := wadd w (wtof wts se) in
                  hidden_edges g wts signed ses'
                               (if better w' best then Some (set_insert se c, w') else best)
            end
        end
    end.

  (* sort edge ids by the pointer-order oracle (insertion sort on the rank) *)
  Variable eord : nat -> nat.               (* rank of an edge id in pointer order *)
  Fixpoint insert_eord (e : nat) (l : list nat) : list nat :=
    match l with
    | [] => [e]
    | x :: r => if Nat.ltb (eord e) (eord x) then e :: l
                else if Nat.eqb e x then l else x :: insert_eord e r
    end.
  Definition sort_eord (l : list nat) : list nat := fold_right insert_eord [] l.

  (* the sparsest-support heuristic: scan r = k+1 .. csd-1 with the early exit `size < 5` *)
  Fixpoint min_support (sup : list vec) (cur : nat) (rs : list nat) : nat :=
    match rs with
    | [] => cur
    | r :: rs' =>
        let cur' := if Nat.ltb (length (nth r sup [])) (length (nth cur sup [])) then r else cur in
        if Nat.ltb (length (nth cur' sup [])) 5 then cur' else min_support sup cur' rs'
    end.

  Definition swap_nth (sup : list vec) (a b : nat) : list vec :=
    let x := nth a sup [] in let y := nth b sup [] in set_nth (set_nth sup a y) b x.

  (* support[l] += support[k] for every l > k with support[l] * cyclek == 1 *)
  Definition update_supports (sup : list vec) (k : nat) (cyclek : vec) : list vec :=
    let Sk := nth k sup [] in
    map (fun lS => if Nat.ltb k (fst lS) && vdot (snd lS) cyclek then vadd (snd lS) Sk else snd lS)
        (combine (seq 0 (length sup)) sup).

  Inductive sva_result :=
  | SvaOk (cycles : list (list nat)) (weight : W)
  | SvaNoIndex                    (* ForestIndex failed (never on simple graphs) *)
  | SvaNoCycle (k : nat)          (* assert(std::get<2>(best)) would fail in phase k *)
  | SvaError (k : nat).           (* fuel / broken invariant in a search *)

  Definition edges_to_indices (fi : forest_index) (c : list nat) : vec :=
    set_of_list (map (fun e => nth e (fi_idx fi) 0) c).
  Definition indices_to_edges (fi : forest_index) (s : vec) : list nat :=
    map (fun i => nth i (fi_rev fi) 0) s.

  Fixpoint sva_phases (g : graph) (wts : list W) (fi : forest_index) (ks : list nat) (sup : list vec)
           (acc : list (list nat)) (total : W) : sva_result :=
    match ks with
    | [] => SvaOk (rev acc) total
    | k :: ks' =>
        let csd := fi_csd fi in
        let ms := min_support sup k (seq (S k) (csd - S k)) in
        let S1 := if Nat.eqb ms k then sup else swap_nth sup k ms in
        let signed := indices_to_edges fi (nth k S1 []) in
        let res :=
          if Nat.leb (nv g) (length signed)
          then all_vertices g wts signed (seq 0 (nv g)) None
          else hidden_edges g wts signed (sort_eord signed) None in
        match res with
        | None => SvaError k
        | Some None => SvaNoCycle k
        | Some (Some (c, w)) =>
            let cyclek := edges_to_indices fi c in
            sva_phases g wts fi ks' (update_supports S1 k cyclek) (c :: acc) (wadd total w)
        end
    end.

  Definition mcb_sva_signed (g : graph) (wts : list W) (roots : list nat) : sva_result :=
    match create_index g roots with
    | None => SvaNoIndex
    | Some fi =>
        let csd := fi_csd fi in
        sva_phases g wts fi (seq 0 csd) (map (fun i => [i]) (seq 0 csd)) [] w0
    end.

End Signed.
