(* SignedModel.v — executable model of
     include/parmcb/detail/signed_dijkstra.hpp  (search_frontier, bidirectional_signed_dijkstra)
     include/parmcb/parmcb_sva_signed.hpp       (mcb_sva_signed, on top of SvaModel.v)
   generic in the weight type (instantiated with Z for the exact domain and with binary64 for C09).
   Definitions only.

   Signed vertices (v, sign) are numbered v + (if sign then 0 else n), as SignedDistanceFunctor does.
   The 4-ary indirect heap is modelled exactly (HeapModel.v), so a run is deterministic once the oracles
   `roots` (ForestModel) and `eord` are fixed; `eord` is a ranking of the edge ids standing for the
   pointer order in which std::set<Edge> iterates the signed edges in the hidden-edge heuristic. *)
From Parmcb Require Export GraphModel ForestModel GF2Model HeapModel SvaModel.


Section Signed.
  Variable W : Type.
  Variable w0 : W.
  Variable wadd : W -> W -> W.
  Variable wltb : W -> W -> bool.           (* std::less *)

  Definition wtof (wts : list W) (e : nat) : W := nth e wts w0.

  (* ---- search_frontier ---------------------------------------------------------------- *)
  Record frontier := {
    f_src : nat;
    f_dist : list (option W);                (* Some for the source and for visited entries *)
    f_pred : list (option (nat * nat));      (* (predecessor signed vertex, edge) ; None = not visited *)
    f_heap : list nat                        (* the heap array of the queue *)
  }.

  Definition fr_init (n : nat) (s : nat) : frontier :=
    {| f_src := s;
       f_dist := set_nth (map (fun _ => None) (seq 0 (2 * n))) s (Some w0);
       f_pred := map (fun _ => None) (seq 0 (2 * n));
       f_heap := [s] |}.

  Definition fr_dist (f : frontier) (u : nat) : option W := nth u (f_dist f) None.
  Definition has_finite_dist (f : frontier) (u : nat) : bool :=
    Nat.eqb u (f_src f) || match nth u (f_pred f) None with Some _ => true | None => false end.

  (* keys as the heap reads them; an unset distance is numeric_limits::max (never the strict minimum) *)
  Definition klt (a b : option W) : bool :=
    match a, b with Some x, Some y => wltb x y | Some _, None => true | None, _ => false end.
  Definition fkey (dist : list (option W)) (u : nat) : option W := nth u dist None.

  (* frontier.update(w, c, pred, e); None = queue.update on a vertex that is not in the queue *)
  Definition fr_update (f : frontier) (w : nat) (c : W) (p e : nat) : option frontier :=
    if Nat.eqb w (f_src f) then Some f
    else match nth w (f_pred f) None with
         | None =>                         (* first time found *)
             let d' := set_nth (f_dist f) w (Some c) in
             Some {| f_src := f_src f; f_dist := d';
                     f_pred := set_nth (f_pred f) w (Some (p, e));
                     f_heap := heap_push (option W) klt (fkey d') (f_heap f) w |}
         | Some _ =>
             match fr_dist f w with
             | Some dw =>
                 if wltb c dw then
                   let d' := set_nth (f_dist f) w (Some c) in
                   match heap_update (option W) klt (fkey d') (f_heap f) w with
                   | Some h' => Some {| f_src := f_src f; f_dist := d';
                                        f_pred := set_nth (f_pred f) w (Some (p, e)); f_heap := h' |}
                   | None => None
                   end
                 else Some f
             | None => None
             end
         end.

  (* find_min(): key of queue.top() *)
  Definition find_min (f : frontier) : option W :=
    match heap_top (f_heap f) with Some u => fr_dist f u | None => None end.

  (* poll(): queue.top() + queue.pop() *)
  Definition fr_poll (f : frontier) : option (nat * frontier) :=
    match heap_top (f_heap f) with
    | None => None
    | Some u => Some (u, {| f_src := f_src f; f_dist := f_dist f; f_pred := f_pred f;
                            f_heap := heap_pop (option W) klt (fkey (f_dist f)) (f_heap f) |})
    end.

  (* ---- bidirectional_signed_dijkstra ---------------------------------------------------- *)
  Record sparams := {
    sp_g : graph; sp_wts : list W; sp_signed : list nat; sp_hidden : list nat; sp_use_hidden : bool;
    sp_limit : option W                      (* Some l = use_cycle_weight_limit with cycle_weight_limit = l *)
  }.

  Definition vertex_of (n u : nat) : nat := if Nat.ltb u n then u else u - n.
  Definition sign_of (n u : nat) : bool := Nat.ltb u n.                 (* true = positive copy *)
  Definition signed_id (n v : nat) (pos : bool) : nat := if pos then v else v + n.

  Definition below_limit (P : sparams) (c : W) : bool :=
    match sp_limit P with None => true | Some l => wltb c l end.

  (* body of the edge loop of one frontier scan; state = Some (frontier, best) with
     best = Some (best_path, best_path_common_vertex); None = broken invariant (see fr_update) *)
  Definition scan_edge (P : sparams) (other : frontier) (su : nat) (du : W)
             (st : option (frontier * option (W * nat))) (ew : nat * nat)
    : option (frontier * option (W * nat)) :=
    match st with
    | None => None
    | Some (fr, best) =>
        let '(e, w) := ew in
        let n := nv (sp_g P) in
        let u := vertex_of n su in
        if sp_use_hidden P && memb e (sp_hidden P) then st
        else if Nat.eqb w u then st
        else
          let c := wadd du (wtof (sp_wts P) e) in
          if negb (below_limit P c) then st
          else
            let is_signed := memb e (sp_signed P) in
            let sw := signed_id n w (if is_signed then negb (sign_of n su) else sign_of n su) in
            match fr_update fr sw c su e with
            | None => None
            | Some fr' =>
                if has_finite_dist other sw then
                  match fr_dist other sw with
                  | Some dw =>
                      let pd := wadd c dw in
                      match best with
                      | Some (bp, _) => if wltb pd bp then Some (fr', Some (pd, sw)) else Some (fr', best)
                      | None => Some (fr', Some (pd, sw))
                      end
                  | None => None
                  end
                else Some (fr', best)
            end
    end.

  Inductive loop_result :=
  | LoopDone (fr other : frontier) (best : option (W * nat))    (* left the loop by `break` *)
  | LoopLimit                                                   (* reached limit: return not found *)
  | LoopFuel | LoopBroken.

  Fixpoint bidir_loop (fuel : nat) (P : sparams) (fr other : frontier) (best : option (W * nat)) : loop_result :=
    match fuel with
    | O => LoopFuel
    | S fuel' =>
        match f_heap fr, f_heap other with
        | [], _ => LoopDone fr other best
        | _, [] => LoopDone fr other best
        | _, _ =>
            let stop :=
              match best, find_min fr, find_min other with
              | Some (bp, _), Some a, Some b => negb (wltb (wadd a b) bp)
              | _, _, _ => false
              end in
            if stop then LoopDone fr other best
            else
              match fr_poll fr with
              | None => LoopBroken
              | Some (su, fr1) =>
                  match fr_dist fr1 su with
                  | None => LoopBroken
                  | Some du =>
                      if negb (below_limit P du) then LoopLimit
                      else
                        match fold_left (scan_edge P other su du)
                                        (out_edges (sp_g P) (vertex_of (nv (sp_g P)) su)) (Some (fr1, best)) with
                        | None => LoopBroken
                        | Some (fr2, best') => bidir_loop fuel' P other fr2 best'      (* swap frontiers *)
                        end
                  end
              end
        end
    end.

  (* follow predecessors from `cur` to the frontier's source, inserting edges into `cyc` and adding
     their weights in that order; None on a duplicate edge *)
  Fixpoint follow (fuel : nat) (P : sparams) (f : frontier) (cur : nat) (cyc : list nat) (cw : W)
    : option (option (list nat * W)) :=          (* None = fuel/broken, Some None = duplicate *)
    match fuel with
    | O => None
    | S fuel' =>
        if Nat.eqb cur (f_src f) then Some (Some (cyc, cw))
        else match nth cur (f_pred f) None with
             | None => None
             | Some (p, e) =>
                 if memb e cyc then Some None
                 else follow fuel' P f p (set_insert e cyc) (wadd cw (wtof (sp_wts P) e))
             end
    end.

  Inductive search_result :=
  | Found (cycle : list nat) (w : W)
  | NotFound
  | SearchError.

  Definition bidirectional_signed_dijkstra (P : sparams) (s : nat) (s_pos : bool) (t : nat) (t_pos : bool)
    : search_result :=
    let n := nv (sp_g P) in
    let ss := signed_id n s s_pos in
    let st := signed_id n t t_pos in
    match bidir_loop (4 * n + 2) P (fr_init n ss) (fr_init n st) None with
    | LoopFuel | LoopBroken => SearchError
    | LoopLimit => NotFound
    | LoopDone fr other best =>
        match best with
        | None => NotFound
        | Some (bp, common) =>
            if negb (below_limit P bp) then NotFound
            else
              match follow (2 * n + 1) P fr common [] w0 with
              | None => SearchError
              | Some None => NotFound
              | Some (Some (cyc1, cw1)) =>
                  match follow (2 * n + 1) P other common cyc1 cw1 with
                  | None => SearchError
                  | Some None => NotFound
                  | Some (Some (cyc2, cw2)) => Found cyc2 cw2
                  end
              end
        end
    end.

  (* ---- mcb_sva_signed -------------------------------------------------------------------- *)

  (* running best = (cycle, weight) *)
  Definition better (res : W) (best : option (list nat * W)) : bool :=
    match best with None => true | Some (_, bw) => wltb res bw end.
  Definition limit_of (best : option (list nat * W)) : option W :=
    match best with None => None | Some (_, bw) => Some bw end.

  (* all-vertices branch *)
  Fixpoint all_vertices (g : graph) (wts : list W) (signed : list nat) (vs : list nat)
           (best : option (list nat * W)) : option (option (list nat * W)) :=
    match vs with
    | [] => Some best
    | v :: vs' =>
        let P := {| sp_g := g; sp_wts := wts; sp_signed := signed; sp_hidden := [];
                    sp_use_hidden := false; sp_limit := limit_of best |} in
        match bidirectional_signed_dijkstra P v true v false with
        | SearchError => None
        | NotFound => all_vertices g wts signed vs' best
        | Found c w => all_vertices g wts signed vs' (if better w best then Some (c, w) else best)
        end
    end.

  (* hidden-edge heuristic: `ses` = the signed edges still hidden, in std::set order *)
  Fixpoint hidden_edges (g : graph) (wts : list W) (signed : list nat) (ses : list nat)
           (best : option (list nat * W)) : option (option (list nat * W)) :=
    match ses with
    | [] => Some best
    | se :: ses' =>
        match ends g se with
        | None => None
        | Some (sv, su) =>
            let P := {| sp_g := g; sp_wts := wts; sp_signed := signed; sp_hidden := ses;
                        sp_use_hidden := true; sp_limit := limit_of best |} in
            match bidirectional_signed_dijkstra P sv true su true with
            | SearchError => None
            | NotFound => hidden_edges g wts signed ses' best
            | Found c w =>
                if memb se c then hidden_edges g wts signed ses' best
                else
                  let w' := wadd w (wtof wts se) in
                  hidden_edges g wts signed ses'
                               (if better w' best then Some (set_insert se c, w') else best)
            end
        end
    end.

  (* sort edge ids by the pointer-order oracle (insertion sort on the rank) *)
  Variable eord : nat -> nat.               (* rank of an edge id in pointer order *)
  Fixpoint insert_eord (e : nat) (l : list nat) : list nat :=
    match l with
    | [] => [e]
    | x :: r => if Nat.ltb (eord e) (eord x) then e :: l
                else if Nat.eqb e x then l else x :: insert_eord e r
    end.
  Definition sort_eord (l : list nat) : list nat := fold_right insert_eord [] l.

  (* one phase of mcb_sva_signed: the shortest odd cycle for the witness S (index coordinates) *)
  Definition signed_phase (g : graph) (wts : list W) (fi : forest_index) (k : nat) (S : vec)
    : phase_result W :=
    let signed := indices_to_edges fi S in
    let res :=
      if Nat.leb (nv g) (length signed)
      then all_vertices g wts signed (seq 0 (nv g)) None
      else hidden_edges g wts signed (sort_eord signed) None in
    match res with
    | None => PError
    | Some None => PNone
    | Some (Some (c, w)) => PFound c w
    end.

  Definition mcb_sva_signed (g : graph) (wts : list W) (roots : list nat) : sva_result W :=
    match create_index g roots with
    | None => SvaNoIndex
    | Some fi => sva_run W w0 wadd (select_min_support (fi_csd fi)) (signed_phase g wts fi) fi
    end.

End Signed.
