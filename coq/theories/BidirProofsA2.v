(* BidirProofsA2.v — Track A, part 2: the all-vertices branch of a phase of mcb_sva_signed returns a minimum
   odd simple cycle with its weight, ASSUMING the specification bidir_spec_stmt of one bidirectional search
   (BidirSpec.v) as an explicit premise.

     all_vertices_opt_from_bidir : bidir_spec_stmt -> all_vertices_opt_stmt.

   Invariant of the loop over the vertices: ba_good (BidirProofsA1) of the running best; progress: when the
   loop reaches a vertex s0 of a minimum odd simple cycle C0, the lifted walk (s0,+) ~> (s0,-) of C0 is a
   cover walk of length mu, so the search cannot answer NotFound unless mu is already known, and a Found
   answer has weight exactly mu.  No axioms. *)
From Coq Require Import List Arith Bool ZArith Lia Sorted Permutation.
From Parmcb Require Import GraphModel GF2Model GF2Proofs GraphSpec GraphLemmas McbSpec ForestModel HeapModel
     SvaModel SvaSpec SignedModel SignedZModel SignedProofs RefModel RefProofs1 RefProofs2 BidirSpec BidirProofsA1.
Import ListNotations.

Section AllVertices.
  Hypothesis Hspec : bidir_spec_stmt.
  Variables (g : graph) (wts : list Z) (signed : list nat) (C0 : list nat).
  Hypothesis Hs : simple_graph g.
  Hypothesis Hpw : positive_weights g wts.
  Hypothesis Hmin : min_odd_cycle g wts (odd_par signed) C0.
  (* an odd closed walk of weight mu through s0 (the walk of C0) *)
  Variables (s0 : nat) (q0 : list (nat * nat)).
  Hypothesis Hw0 : walk g s0 q0 s0.
  Hypothesis Hodd0 : par signed (wedges q0) = true.
  Hypothesis Hwt0 : weight wts (wedges q0) = ba_mu wts C0.

  Local Notation good := (ba_good g wts signed C0).
  Local Notation done := (ba_done wts C0).
  Local Notation mu := (ba_mu wts C0).

  Definition ba_avP (bst : option (list nat * Z)) : sparams Z :=
    {| sp_g := g; sp_wts := wts; sp_signed := signed; sp_hidden := [];
       sp_use_hidden := false; sp_limit := limit_of Z bst |}.

  (* a cover walk (v,+) ~> (v,-) is an odd closed walk at v *)
  Lemma ba_av_close bst v p : v < nv g ->
    cwalk (ba_avP bst) (signed_id (nv g) v true) p (signed_id (nv g) v false) ->
    exists x q, walk g x q x /\ wedges q = wedges p ++ [] /\ par signed (wedges q) = true.
  Proof.
    intros Hv Hc. destruct (ba_cwalk_proj _ _ _ _ Hc) as (Hw & Hpar & _).
    cbn [ba_avP sp_g sp_signed] in Hw, Hpar.
    rewrite !sg_vertex_of_signed_id in Hw by exact Hv.
    rewrite !sg_sign_of_signed_id in Hpar by exact Hv.
    exists v, (ba_proj (nv g) p). split; [exact Hw|].
    rewrite ba_proj_wedges, app_nil_r. split; [reflexivity|exact Hpar].
  Qed.

  (* the cover walk (s0,+) ~> (s0,-) of length mu *)
  Lemma ba_av_star bst : exists pstar,
    cwalk (ba_avP bst) (signed_id (nv g) s0 true) pstar (signed_id (nv g) s0 false)
    /\ (clen (ba_avP bst) pstar + weight wts [] = mu)%Z.
  Proof.
    destruct (ba_lift_id (ba_avP bst) Hs s0 q0 s0 true Hw0) as (p & Hc & Ew).
    - cbn [ba_avP sp_use_hidden]. discriminate.
    - cbn [ba_avP sp_g sp_signed] in Hc. rewrite Hodd0 in Hc. cbn [xorb] in Hc.
      exists p. split; [exact Hc|]. unfold clen. cbn [ba_avP sp_wts]. rewrite Ew, Hwt0.
      change (weight wts []) with 0%Z. lia.
  Qed.

  Lemma ba_av_step bst v : v < nv g -> good bst ->
    match bidirectional_signed_dijkstra Z 0%Z Z.add Z.ltb (ba_avP bst) v true v false with
    | SearchError _ => False
    | NotFound _ => v = s0 -> done bst
    | Found _ c w => good (Some (c, w)) /\ (v = s0 -> w = mu)
    end.
  Proof.
    intros Hv Hb.
    assert (Hne : signed_id (nv g) v true <> signed_id (nv g) v false) by (unfold signed_id; lia).
    pose proof (Hspec (ba_avP bst) v true v false Hs Hpw Hv Hv Hne) as H.
    cbn [ba_avP sp_g] in H. fold (ba_avP bst) in H.
    destruct (bidirectional_signed_dijkstra Z 0%Z Z.add Z.ltb (ba_avP bst) v true v false) as [c w| |].
    - destruct H as (p & Hsp & Hnd & Sc & HE & Hw1 & Hw2 & _).
      cbn [ba_avP sp_wts] in Hw2.
      split.
      + destruct (ba_av_close bst v p Hv (proj1 Hsp)) as (x & q & Hwq & Ew & Hodd).
        rewrite app_nil_r in Ew. rewrite Hw2. rewrite <- Ew in Hnd, HE.
        apply (ba_closed_walk_good g wts signed C0 Hs Hpw Hmin x q c Hwq); assumption.
      + intros ->. destruct (ba_av_star bst) as (pstar & Hstar & Hstarw).
        pose proof (ba_star_shortest g wts signed C0 Hs Hpw Hmin (ba_avP bst) _ _ [] eq_refl
                      (fun p' => ba_av_close bst s0 p' Hv) pstar Hstar Hstarw p Hsp) as E.
        change (weight wts []) with 0%Z in E. lia.
    - intros ->. destruct (ba_av_star bst) as (pstar & Hstar & Hstarw).
      eapply (ba_star_notfound g wts signed C0 Hs Hpw Hmin (ba_avP bst) _ _ [] bst eq_refl eq_refl Hb
               (fun p' => ba_av_close bst s0 p' Hv)); [|exact Hstar|exact Hstarw|exact H].
      change (weight wts []) with 0%Z. lia.
    - exact H.
  Qed.

  Lemma ba_av_loop : forall vs bst, (forall v, In v vs -> v < nv g) -> good bst ->
    exists res, all_vertices Z 0%Z Z.add Z.ltb g wts signed vs bst = Some res
      /\ good res /\ (done bst -> done res) /\ (In s0 vs -> done res).
  Proof.
    induction vs as [|v vs IH]; intros bst Hvs Hb.
    - exists bst. cbn [all_vertices]. split; [reflexivity|]. split; [exact Hb|]. split; [auto|intros []].
    - cbn [all_vertices]. fold (ba_avP bst).
      assert (Hv : v < nv g) by (apply Hvs; left; reflexivity).
      assert (Hvs' : forall v', In v' vs -> v' < nv g) by (intros v' Hin; apply Hvs; right; exact Hin).
      pose proof (ba_av_step bst v Hv Hb) as Hstep.
      destruct (bidirectional_signed_dijkstra Z 0%Z Z.add Z.ltb (ba_avP bst) v true v false) as [c w| |].
      + destruct Hstep as [Hc Hmu].
        destruct (ba_better_update g wts signed C0 bst c w Hb Hc) as (Hb' & Hd1 & Hd2).
        destruct (IH _ Hvs' Hb') as (res & Er & Hr & Hdr & Hin).
        exists res. split; [exact Er|]. split; [exact Hr|]. split; [auto|].
        intros [<-|Hin']; auto.
      + destruct (IH _ Hvs' Hb) as (res & Er & Hr & Hdr & Hin).
        exists res. split; [exact Er|]. split; [exact Hr|]. split; [auto|].
        intros [<-|Hin']; auto.
      + destruct Hstep.
  Qed.
End AllVertices.

(* whenever an odd simple cycle exists, a minimum one exists (by the verified reference search) *)
Lemma ba_min_odd_exists g wts signed : simple_graph g -> positive_weights g wts ->
  (exists D, simple_cycle g D /\ odd_par signed D) ->
  exists C0, min_odd_cycle g wts (odd_par signed) C0.
Proof.
  intros Hs Hpw (D & HD & HoD).
  assert (HoD' : RefProofs2.odd_in signed D)
    by (unfold RefProofs2.odd_in; rewrite <- ba_par_oddb; exact HoD).
  destruct (RefProofs2.rf_ref_search_total g wts signed D Hs Hpw HD HoD') as (c & w & Er).
  destruct (RefProofs2.rf_ref_search_correct g wts signed c w Hs Hpw Er) as ((H1 & H2 & H3) & _).
  exists c. split; [exact H1|]. split; [unfold odd_par; rewrite ba_par_oddb; exact H2|].
  intros D' HD' HoD''. apply H3; [exact HD'|]. unfold RefProofs2.odd_in. rewrite <- ba_par_oddb. exact HoD''.
Qed.

Theorem all_vertices_opt_from_bidir : bidir_spec_stmt -> all_vertices_opt_stmt.
Proof.
  intros Hspec g wts signed Hs Hpw Hex.
  destruct (ba_min_odd_exists g wts signed Hs Hpw Hex) as (C0 & Hmin).
  destruct (ba_C0_walk g wts signed C0 Hmin) as (s0 & q0 & Hw0 & _ & _ & _ & Hodd0 & Hwt0).
  pose proof (gl_walk_start_lt _ _ _ _ Hs Hw0) as Hs0.
  destruct (ba_av_loop Hspec g wts signed C0 Hs Hpw Hmin s0 q0 Hw0 Hodd0 Hwt0 (seq 0 (nv g)) None)
    as (res & Er & Hr & _ & Hd).
  - intros v Hv. apply in_seq in Hv. lia.
  - exact I.
  - destruct Hd as (c & ->); [apply in_seq; lia|].
    exists c, (ba_mu wts C0). split; [exact Er|].
    apply (ba_good_final g wts signed C0 Hmin); [exact Hr|exists c; reflexivity].
Qed.

Print Assumptions all_vertices_opt_from_bidir.
