(* ApproxProofsDijkstra.v — what the plain Dijkstra of DijkstraModel.v guarantees WITHOUT any assumption on the
   weights or on the heap order: if the run returns DjOk, the predecessor array is a tree rooted at the source that
   covers exactly the vertices reachable from it.  "Tree" is expressed by the (reversed) pop order `ord`: every
   vertex's predecessor edge leads to a vertex popped earlier.  This is all C05 needs ("the predecessor chain is
   a path"); optimality of the distances is not used.  Prefix dj_ / names of the section. *)
From Coq Require Import List Arith Bool Lia Permutation.
From Parmcb Require Import GraphModel HeapModel GraphSpec GraphLemmas SpannerProofs LexSPProofsHeap DijkstraModel.
Import ListNotations.

Lemma NoDup_app_disjoint {A} (x : A) l1 l2 : NoDup (l1 ++ l2) -> In x l1 -> In x l2 -> False.
Proof.
  induction l1 as [|a l1 IH]; intros Hnd H1 H2; [destruct H1|].
  cbn [app] in Hnd. inversion Hnd as [|? ? Hna Hnd']; subst. destruct H1 as [->|H1].
  - apply Hna, in_or_app. right; exact H2.
  - exact (IH Hnd' H1 H2).
Qed.

Lemma NoDup_app_cons_r {A} (x : A) l1 l2 : NoDup (l1 ++ l2) -> ~ In x (l1 ++ l2) -> NoDup (l1 ++ x :: l2).
Proof.
  intros Hnd Hx. eapply Permutation_NoDup; [apply Permutation_middle|]. constructor; assumption.
Qed.

(* `l` lists vertices, most recently popped first: the predecessor edge of every vertex leads into the rest *)
Inductive tree_order (h : graph) (pred : list (option nat)) : list nat -> Prop :=
| to_nil : tree_order h pred []
| to_cons u older : tree_order h pred older -> ~ In u older ->
    (forall e, nth u pred None = Some e -> exists p, joins h e u p /\ In p older) ->
    tree_order h pred (u :: older).

Lemma tree_order_ext h pred pred' l :
  (forall x, In x l -> nth x pred' None = nth x pred None) -> tree_order h pred l -> tree_order h pred' l.
Proof.
  intros Hext Ht. induction Ht as [|u older Ht IH Hnin Hp]; [constructor|].
  constructor; [apply IH; intros x Hx; apply Hext; right; exact Hx|exact Hnin|].
  intros e He. rewrite Hext in He by (left; reflexivity). exact (Hp e He).
Qed.

Lemma tree_order_NoDup h pred l : tree_order h pred l -> NoDup l.
Proof. induction 1; constructor; auto. Qed.

Record pred_tree (h : graph) (s : nat) (pred : list (option nat)) (ord : list nat) : Prop := {
  pt_len : length pred = nv h;
  pt_tree : tree_order h pred ord;
  pt_range : forall x, In x ord -> x < nv h;
  pt_src : In s ord /\ nth s pred None = None;
  pt_mem : forall w, w <> s -> (In w ord <-> nth w pred None <> None);
  pt_closed : forall x e y, In x ord -> joins h e x y -> In y ord
}.

Lemma pred_tree_reach h s pred ord : pred_tree h s pred ord ->
  forall x p y, walk h x p y -> In x ord -> In y ord.
Proof.
  intros HT x p y Hw. induction Hw as [x Hx|x e y p z Hj Hw IH]; intros Hin; [exact Hin|].
  apply IH. eapply pt_closed; eauto.
Qed.

Section DijkstraTree.
  Variable W : Type.
  Variable w0 : W.
  Variable wadd : W -> W -> W.
  Variable wltb : W -> W -> bool.
  Variable h : graph.
  Variable wts : list W.
  Variable s : nat.
  Hypothesis Hs : s < nv h.

  Notation relax := (dj_relax W w0 wadd wltb (nv h) wts s).
  Notation klt := (dj_klt W wltb).

  (* what one relaxation does to pred and to the heap (as a multiset) *)
  Lemma dj_relax_spec u du st e w st' :
    relax u du (Some st) (e, w) = Some st' ->
    (st' = st /\ (w = u \/ w = s \/ nth w (dj_pred W st) None <> None))
    \/ (w <> u /\ w <> s /\ w < nv h /\ dj_pred W st' = set_nth (dj_pred W st) w (Some e)
        /\ ((nth w (dj_pred W st) None = None /\ Permutation (dj_heap W st') (w :: dj_heap W st))
            \/ (nth w (dj_pred W st) None <> None /\ In w (dj_heap W st)
                /\ Permutation (dj_heap W st') (dj_heap W st)))).
  Proof.
    unfold dj_relax.
    destruct (Nat.eqb_spec w u) as [Hwu|Hwu]; [intros H; injection H as <-; left; auto|].
    destruct (Nat.eqb_spec w s) as [Hws|Hws]; [intros H; injection H as <-; left; auto|].
    destruct (Nat.leb_spec (nv h) w) as [Hge|Hlt]; [discriminate|].
    destruct (nth w (dj_pred W st) None) as [e0|] eqn:Ep.
    - destruct (nth w (dj_dist W st) None) as [dw|]; [|discriminate].
      destruct (wltb (wadd du (dj_wt W w0 wts e)) dw).
      + destruct (heap_update _ _ _ (dj_heap W st) w) as [h'|] eqn:Eu; [|discriminate].
        intros H; injection H as <-. right. cbn [dj_pred dj_heap].
        apply hp_update_some in Eu as [Hin Hperm].
        repeat split; auto. right. repeat split; auto. discriminate.
      + intros H; injection H as <-. left. split; auto. right; right; discriminate.
    - intros H; injection H as <-. right. cbn [dj_pred dj_heap].
      repeat split; auto. left. split; auto. apply hp_push_perm.
  Qed.

  Lemma dj_fold_none u du l : fold_left (relax u du) l None = None.
  Proof. induction l as [|a l IH]; [reflexivity|exact IH]. Qed.

  (* the invariant; `pend x e y` exempts the not yet scanned out-edges of the vertex being processed *)
  Record DInv (pend : nat -> nat -> nat -> Prop) (st : dj_state W) (ord : list nat) : Prop := {
    d_len : length (dj_pred W st) = nv h;
    d_nodup : NoDup (ord ++ dj_heap W st);
    d_range : forall x, In x (ord ++ dj_heap W st) -> x < nv h;
    d_src : In s (ord ++ dj_heap W st) /\ nth s (dj_pred W st) None = None;
    d_mem : forall w, w <> s -> (In w (ord ++ dj_heap W st) <-> nth w (dj_pred W st) None <> None);
    d_tree : tree_order h (dj_pred W st) ord;
    d_heap : forall w e, In w (dj_heap W st) -> nth w (dj_pred W st) None = Some e ->
               exists p, joins h e w p /\ In p ord;
    d_closed : forall x e y, In x ord -> joins h e x y -> pend x e y \/ In y (ord ++ dj_heap W st)
  }.

  Definition pend_of (u : nat) (rest : list (nat * nat)) : nat -> nat -> nat -> Prop :=
    fun x e y => x = u /\ In (e, y) rest.

  Lemma dj_init_inv : DInv (fun _ _ _ => False) (dj_init W w0 (nv h) s) [].
  Proof.
    constructor; cbn [dj_init dj_pred dj_heap app].
    - rewrite map_length, seq_length. reflexivity.
    - constructor; [intros []|constructor].
    - intros x [<-|[]]. exact Hs.
    - split; [left; reflexivity|apply nth_all_none].
    - intros w Hw. split.
      + intros [E|[]]. congruence.
      + intros H. exfalso. apply H. apply nth_all_none.
    - constructor.
    - intros w e _ H. rewrite nth_all_none in H. discriminate.
    - intros x e y [].
  Qed.

  (* one relaxation step keeps the invariant and discharges the scanned edge *)
  Lemma dj_relax_inv u ord0 du st e w rest st' :
    DInv (pend_of u ((e, w) :: rest)) st (u :: ord0) -> joins h e u w ->
    relax u du (Some st) (e, w) = Some st' ->
    DInv (pend_of u rest) st' (u :: ord0).
  Proof.
    intros I Hj Hr. apply dj_relax_spec in Hr.
    destruct Hr as [[-> Hwhy]|(Hwu & Hws & Hwn & Hpred & Hcase)].
    - (* nothing changed: the scanned endpoint is already known *)
      constructor; try apply I.
      intros x e' y Hx Hj'. destruct (d_closed _ _ _ I x e' y Hx Hj') as [[-> [E|Hin]]|Hin]; auto.
      + injection E as <- <-. right.
        destruct Hwhy as [->|[->|Hp]]; [left; reflexivity|apply (d_src _ _ _ I)|].
        destruct (Nat.eq_dec w s) as [->|Hws]; [apply (d_src _ _ _ I)|].
        apply (d_mem _ _ _ I w Hws). exact Hp.
      + left. split; auto.
    - assert (Hlen : w < length (dj_pred W st)) by (rewrite (d_len _ _ _ I); exact Hwn).
      assert (Hother : forall x, x <> w -> nth x (dj_pred W st') None = nth x (dj_pred W st) None).
      { intros x Hx. rewrite Hpred. apply nth_set_nth_neq. congruence. }
      assert (Hself : nth w (dj_pred W st') None = Some e).
      { rewrite Hpred. apply nth_set_nth_eq. exact Hlen. }
      assert (Hnord : ~ In w (u :: ord0)).
      { destruct Hcase as [[Hnone _]|[_ [Hin _]]].
        - intros Hin. apply (d_mem _ _ _ I w Hws); [apply in_or_app; left; exact Hin|exact Hnone].
        - intros Hin'. pose proof (d_nodup _ _ _ I) as Hnd.
          apply (NoDup_app_disjoint w _ _ Hnd); assumption. }
      assert (Hsame : exists hp, Permutation (dj_heap W st') hp /\
                 (forall x, In x hp <-> (x = w \/ In x (dj_heap W st))) /\
                 NoDup ((u :: ord0) ++ hp)).
      { destruct Hcase as [[Hnone Hperm]|[_ [Hin Hperm]]].
        - exists (w :: dj_heap W st). split; [exact Hperm|]. split; [intros x; cbn [In]; split; intros [Hx|Hx]; auto|].
          apply NoDup_app_cons_r; [apply (d_nodup _ _ _ I)|].
          intros Hin. apply (d_mem _ _ _ I w Hws); assumption.
        - exists (dj_heap W st). split; [exact Hperm|]. split; [|apply (d_nodup _ _ _ I)].
          intros x. split; [auto|]. intros [->|Hx]; assumption. }
      destruct Hsame as (hp & Hperm & Hhp & Hndhp).
      assert (Hmemall : forall x, In x ((u :: ord0) ++ dj_heap W st') <->
                                  (x = w \/ In x ((u :: ord0) ++ dj_heap W st))).
      { intros x. rewrite !in_app_iff. split.
        - intros [Hx|Hx]; [right; left; exact Hx|].
          apply (Permutation_in _ Hperm), Hhp in Hx. destruct Hx; auto.
        - intros [->|[Hx|Hx]]; [right|left; exact Hx|right].
          + apply (Permutation_in _ (Permutation_sym Hperm)), Hhp. left; reflexivity.
          + apply (Permutation_in _ (Permutation_sym Hperm)), Hhp. right; exact Hx. }
      constructor.
      + rewrite Hpred, set_nth_length. apply I.
      + eapply Permutation_NoDup; [|exact Hndhp].
        apply Permutation_app_head, Permutation_sym, Hperm.
      + intros x Hx. apply Hmemall in Hx as [->|Hx]; [exact Hwn|apply (d_range _ _ _ I x Hx)].
      + split; [apply Hmemall; right; apply (d_src _ _ _ I)|].
        rewrite Hother by congruence. apply (d_src _ _ _ I).
      + intros x Hx. rewrite Hmemall. destruct (Nat.eq_dec x w) as [->|Hxw].
        * rewrite Hself. split; [discriminate|auto].
        * rewrite Hother by exact Hxw. rewrite <- (d_mem _ _ _ I x Hx). split; [intros [?|?]; [contradiction|auto]|auto].
      + apply (tree_order_ext h (dj_pred W st)); [|apply I].
        intros x Hx. apply Hother. intros ->. contradiction.
      + intros x e' Hx He'. destruct (Nat.eq_dec x w) as [->|Hxw].
        * rewrite Hself in He'. injection He' as <-. exists u. split; [apply gl_joins_sym; exact Hj|left; reflexivity].
        * rewrite Hother in He' by exact Hxw.
          apply (Permutation_in _ Hperm), Hhp in Hx as [?|Hx]; [contradiction|].
          apply (d_heap _ _ _ I x e' Hx He').
      + intros x e' y Hx Hj'. destruct (d_closed _ _ _ I x e' y Hx Hj') as [[-> [E|Hin]]|Hin].
        * injection E as <- <-. right. apply Hmemall. left; reflexivity.
        * left. split; auto.
        * right. apply Hmemall. right; exact Hin.
  Qed.

  Lemma dj_fold_inv u ord0 du : forall rest st st',
    DInv (pend_of u rest) st (u :: ord0) -> (forall e y, In (e, y) rest -> joins h e u y) ->
    fold_left (relax u du) rest (Some st) = Some st' ->
    DInv (pend_of u []) st' (u :: ord0).
  Proof.
    induction rest as [|[e w] rest IH]; intros st st' I Hj Hf.
    - cbn [fold_left] in Hf. injection Hf as <-. exact I.
    - cbn [fold_left] in Hf.
      destruct (relax u du (Some st) (e, w)) as [st1|] eqn:E1; [|rewrite dj_fold_none in Hf; discriminate].
      apply (IH st1 st'); [|intros e' y Hin; apply Hj; right; exact Hin|exact Hf].
      eapply dj_relax_inv; eauto. apply Hj. left; reflexivity.
  Qed.

  (* the state after top(); pop() *)
  Definition dj_popped (st : dj_state W) : dj_state W :=
    {| dj_dist := dj_dist W st; dj_pred := dj_pred W st;
       dj_heap := heap_pop (option W) klt (dj_key W (dj_dist W st)) (dj_heap W st) |}.

  Lemma dj_pop_inv st ord u r :
    DInv (fun _ _ _ => False) st ord -> dj_heap W st = u :: r ->
    DInv (pend_of u (out_edges h u)) (dj_popped st) (u :: ord)
    /\ Permutation (dj_heap W (dj_popped st)) r /\ ~ In u ord /\ ~ In u r.
  Proof.
    intros I Eh. set (s1 := dj_popped st).
    assert (Hpop : Permutation (dj_heap W s1) r).
    { unfold s1, dj_popped; cbn [dj_heap]. rewrite Eh. eapply Permutation_cons_inv. apply hp_pop_perm. }
    assert (Hset : forall x, In x ((u :: ord) ++ dj_heap W s1) <-> In x (ord ++ dj_heap W st)).
    { intros x. rewrite Eh. cbn [app In]. rewrite !in_app_iff. cbn [In]. split.
      - intros [->|[Hx|Hx]]; auto. right; right. apply (Permutation_in _ Hpop); exact Hx.
      - intros [Hx|[->|Hx]]; auto. right; right. apply (Permutation_in _ (Permutation_sym Hpop)); exact Hx. }
    pose proof (d_nodup _ _ _ I) as Hnd. rewrite Eh in Hnd.
    assert (Hu : ~ In u ord /\ ~ In u r).
    { apply NoDup_remove_2 in Hnd. split; intros Hc; apply Hnd, in_or_app; auto. }
    split; [|split; [exact Hpop|exact Hu]].
    constructor.
    - unfold s1; cbn [dj_popped dj_pred]. apply I.
    - cbn [app]. constructor.
      + intros Hc. apply in_app_or in Hc as [Hc|Hc]; [apply (proj1 Hu Hc)|].
        apply (proj2 Hu). apply (Permutation_in _ Hpop); exact Hc.
      + apply NoDup_remove_1 in Hnd. eapply Permutation_NoDup; [|exact Hnd].
        apply Permutation_app_head, Permutation_sym, Hpop.
    - intros x Hx. apply Hset in Hx. apply (d_range _ _ _ I x Hx).
    - split; [apply Hset; apply (d_src _ _ _ I)|unfold s1; cbn [dj_popped dj_pred]; apply (d_src _ _ _ I)].
    - intros w Hw. rewrite Hset. unfold s1; cbn [dj_popped dj_pred]. apply (d_mem _ _ _ I w Hw).
    - unfold s1; cbn [dj_popped dj_pred]. constructor; [apply I|apply Hu|].
      intros e He. apply (d_heap _ _ _ I u e); [rewrite Eh; left; reflexivity|exact He].
    - unfold s1 at 2; cbn [dj_popped dj_pred]. intros w e Hw He.
      destruct (d_heap _ _ _ I w e) as (p & Hj & Hp); [|exact He|exists p; split; [exact Hj|right; exact Hp]].
      rewrite Eh. right. apply (Permutation_in _ Hpop); exact Hw.
    - intros x e y [<-|Hx] Hj.
      + left. split; [reflexivity|]. apply out_edges_complete; exact Hj.
      + destruct (d_closed _ _ _ I x e y Hx Hj) as [[]|Hy]. right. apply Hset; exact Hy.
  Qed.

  Lemma dj_done_inv st u ord : DInv (pend_of u []) st (u :: ord) -> DInv (fun _ _ _ => False) st (u :: ord).
  Proof.
    intros I2. constructor; try apply I2.
    intros x e y Hx Hj. destruct (d_closed _ _ _ I2 x e y Hx Hj) as [[_ []]|Hy]. right; exact Hy.
  Qed.

  Lemma dj_final_inv st ord : DInv (fun _ _ _ => False) st ord -> dj_heap W st = [] ->
    pred_tree h s (dj_pred W st) ord.
  Proof.
    intros I Eh.
    pose proof (d_nodup _ _ _ I) as H1. pose proof (d_range _ _ _ I) as H2.
    pose proof (d_src _ _ _ I) as H3. pose proof (d_mem _ _ _ I) as H4.
    pose proof (d_closed _ _ _ I) as H5.
    rewrite Eh, app_nil_r in *.
    constructor; auto; try apply I.
    intros x e y Hx Hj. destruct (H5 x e y Hx Hj) as [[]|Hy]; exact Hy.
  Qed.

  Lemma dj_loop_inv : forall fuel st ord dist pred,
    DInv (fun _ _ _ => False) st ord ->
    dj_loop W w0 wadd wltb fuel h wts s st = DjOk dist pred ->
    exists ord', pred_tree h s pred ord'.
  Proof.
    induction fuel as [|fuel IH]; intros st ord dist pred I Hl; [discriminate|].
    cbn [dj_loop] in Hl. destruct (dj_heap W st) as [|u r] eqn:Eh.
    - injection Hl as _ <-. exists ord. apply dj_final_inv; assumption.
    - destruct (nth u (dj_dist W st) None) as [du|]; [|discriminate].
      destruct (dj_pop_inv st ord u r I Eh) as (I1 & _).
      unfold dj_popped in I1. rewrite Eh in I1.
      match type of Hl with context [fold_left ?f ?l (Some ?st1)] => destruct (fold_left f l (Some st1)) as [st2|] eqn:Ef end;
        [|discriminate].
      assert (I2 : DInv (pend_of u []) st2 (u :: ord)).
      { eapply dj_fold_inv; [exact I1| |exact Ef]. intros e y Hin. apply out_edges_sound; exact Hin. }
      apply (IH st2 (u :: ord) dist pred); [apply dj_done_inv; exact I2|exact Hl].
  Qed.

  Theorem dijkstra_pred_tree dist pred :
    dijkstra W w0 wadd wltb h wts s = DjOk dist pred -> exists ord, pred_tree h s pred ord.
  Proof.
    unfold dijkstra. destruct (Nat.ltb_spec s (nv h)) as [_|Hc]; [|lia].
    intros Hl. eapply dj_loop_inv; [apply dj_init_inv|exact Hl].
  Qed.
End DijkstraTree.
