(* FpOverflowProofs3.v — C18 / C07 (signed overflow): the instances for the built-in types and the
   inputs on which a traced value leaves the type (limits of the theorems, and two defects of the
   PARMCB_INVARIANTS_CHECK code):
     ext_gcd_tr_negates       a negative argument is negated: a = min(T) is outside the domain
     ext_gcd_ll / ext_gcd_int, mult_inverse_ll / _int, is_prime_ll / _int, spvecfp_ll / _int
                              instances for T = long long (64 bit) and int (32 bit)
     ext_gcd_assert_overflows the assertion of ext_gcd evaluates a*x, which leaves long long for (2^63-1, 5)
     is_prime_check_overflows sqrtt*sqrtt leaves int for p = 2^31-1
     spvecfp_sharp_ll         the bound of SpVecFP is attained: p = 3037000500 fits exactly, p + 1 does not
   No axioms. *)
From Coq Require Import ZArith List Bool Lia.
From Parmcb Require Import FpModel FpProofs FpOverflowModel FpOverflowProofs1 FpOverflowProofs2.
Import ListNotations.
Local Open Scope Z_scope.

Definition ll_max : Z := 2 ^ 63 - 1.
Definition int_max : Z := 2 ^ 31 - 1.

(* a value of the signed type with maximum maxT: -maxT-1 .. maxT *)
Definition fits (maxT : Z) (t : trace) : Prop := trace_in (- maxT - 1) maxT t.

Lemma fits_of_sym maxT t : trace_in (- maxT) maxT t -> fits maxT t.
Proof. apply trace_in_mono; lia. Qed.

Lemma fits_of_nonneg maxT t : 0 <= maxT -> trace_in 0 maxT t -> fits maxT t.
Proof. intros H. apply trace_in_mono; lia. Qed.

(* ---- ext_gcd ------------------------------------------------------------------------------- *)

Lemma abs_tr_negates a : a < 0 -> snd (abs_tr a) = [Val (- a)].
Proof. intros H. unfold abs_tr. destruct (Z.ltb_spec a 0); [reflexivity|lia]. Qed.

Lemma ext_gcd_tr_negates : forall chk a b,
  (a < 0 -> In (Val (- a)) (snd (ext_gcd_tr chk a b))) /\
  (b < 0 -> In (Val (- b)) (snd (ext_gcd_tr chk a b))).
Proof.
  intros chk a b. unfold ext_gcd_tr.
  pose proof (abs_tr_negates a) as Ha. pose proof (abs_tr_negates b) as Hb.
  destruct (abs_tr a) as [a' ta]. destruct (abs_tr b) as [b' tb]. cbn [snd] in Ha, Hb.
  assert (H0 : forall rest,
             (a < 0 -> In (Val (- a)) (([Val a; Val b; Val 1; Val 0; Val 0; Val 1] ++ ta ++ tb) ++ rest)) /\
             (b < 0 -> In (Val (- b)) (([Val a; Val b; Val 1; Val 0; Val 0; Val 1] ++ ta ++ tb) ++ rest))).
  { intros rest. split; intros H; apply in_or_app; left; apply in_or_app; right; apply in_or_app.
    - left. rewrite Ha by exact H. left. reflexivity.
    - right. rewrite Hb by exact H. left. reflexivity. }
  destruct (a' =? 0); [cbn [snd]; apply H0|].
  destruct (b' =? 0); [cbn [snd]; apply H0|].
  destruct (gloop_tr _ _) as [[[[g xr] yr]|] tl]; cbn [snd]; apply H0.
Qed.

(* the minimum value of the type cannot be negated *)
Lemma ext_gcd_min_overflows : forall maxT chk b, 0 <= maxT ->
  ~ fits maxT (snd (ext_gcd_tr chk (- maxT - 1) b)).
Proof.
  intros maxT chk b Hm F.
  destruct (ext_gcd_tr_negates chk (- maxT - 1) b) as [H _]. specialize (H ltac:(lia)).
  unfold fits, trace_in in F. rewrite Forall_forall in F. specialize (F _ H). cbn [tev_in] in F. lia.
Qed.

Lemma ext_gcd_ll : forall a b, Z.abs a <= ll_max -> Z.abs b <= ll_max ->
  fits ll_max (snd (ext_gcd_tr false a b)).
Proof.
  intros a b Ha Hb. apply fits_of_sym. apply ext_gcd_tr_fits; [unfold ll_max; lia|exact Ha|exact Hb].
Qed.

Lemma ext_gcd_int : forall a b, Z.abs a <= int_max -> Z.abs b <= int_max ->
  fits int_max (snd (ext_gcd_tr false a b)).
Proof.
  intros a b Ha Hb. apply fits_of_sym. apply ext_gcd_tr_fits; [unfold int_max; lia|exact Ha|exact Hb].
Qed.

(* with the assertion compiled in the products must fit as well *)
Lemma ext_gcd_chk_ll : forall a b, Z.abs a <= ll_max -> Z.abs b <= ll_max ->
  Z.abs a * Z.abs b / 2 <= ll_max -> fits ll_max (snd (ext_gcd_tr true a b)).
Proof.
  intros a b Ha Hb Hp. apply fits_of_sym. apply ext_gcd_tr_fits_chk; [unfold ll_max; lia|exact Ha|exact Hb|exact Hp].
Qed.

(* ... and they do not: a = 2^63 - 1, b = 5 gives x = -2 and the assertion evaluates a * x *)
Lemma ext_gcd_assert_overflows :
  Z.abs (2 ^ 63 - 1) <= ll_max /\ Z.abs 5 <= ll_max /\
  fst (ext_gcd_tr true (2 ^ 63 - 1) 5) = GcdOk 1 (-2) 3689348814741910323 /\
  In (Val ((2 ^ 63 - 1) * -2)) (snd (ext_gcd_tr true (2 ^ 63 - 1) 5)) /\
  ~ fits ll_max (snd (ext_gcd_tr true (2 ^ 63 - 1) 5)).
Proof.
  assert (HIn : In (Val ((2 ^ 63 - 1) * -2)) (snd (ext_gcd_tr true (2 ^ 63 - 1) 5))).
  { vm_compute. repeat (try (left; reflexivity); right). }
  split; [vm_compute; discriminate|]. split; [vm_compute; discriminate|].
  split; [vm_compute; reflexivity|]. split; [exact HIn|].
  intros F. unfold fits, trace_in in F. rewrite Forall_forall in F. specialize (F _ HIn).
  cbn [tev_in] in F. unfold ll_max in F. lia.
Qed.

(* ---- get_mult_inverse ---------------------------------------------------------------------- *)

Lemma mult_inverse_ll : forall a p, Z.abs a <= ll_max -> Z.abs p <= ll_max ->
  fits ll_max (snd (mult_inverse_tr false a p)).
Proof.
  intros a p Ha Hp. apply fits_of_sym. apply mult_inverse_tr_fits; [unfold ll_max; lia|exact Ha|exact Hp].
Qed.

Lemma mult_inverse_int : forall a p, Z.abs a <= int_max -> Z.abs p <= int_max ->
  fits int_max (snd (mult_inverse_tr false a p)).
Proof.
  intros a p Ha Hp. apply fits_of_sym. apply mult_inverse_tr_fits; [unfold int_max; lia|exact Ha|exact Hp].
Qed.

(* ---- is_prime ------------------------------------------------------------------------------ *)

Lemma is_prime_ll : forall p, 2 <= p <= ll_max -> fits ll_max (snd (is_prime_tr false p)).
Proof.
  intros p [Hp Hm]. apply fits_of_nonneg; [unfold ll_max; lia|]. apply is_prime_tr_fits; assumption.
Qed.

Lemma is_prime_int : forall p, 2 <= p <= int_max -> fits int_max (snd (is_prime_tr false p)).
Proof.
  intros p [Hp Hm]. apply fits_of_nonneg; [unfold int_max; lia|]. apply is_prime_tr_fits; assumption.
Qed.

Lemma is_prime_chk_fits : forall maxT p, 2 <= p -> (Z.sqrt p + 1) * (Z.sqrt p + 1) <= maxT ->
  fits maxT (snd (is_prime_tr true p)).
Proof.
  intros maxT p Hp Hm. apply fits_of_nonneg; [nia|]. apply is_prime_tr_fits_chk; assumption.
Qed.

(* the check `sqrtt * sqrtt < p` of PARMCB_INVARIANTS_CHECK: the product is evaluated for every odd p >= 3 *)
Lemma is_prime_chk_square : forall p, 3 <= p -> Z.rem p 2 <> 0 ->
  In (Val ((Z.sqrt p + 1) * (Z.sqrt p + 1))) (snd (is_prime_tr true p)).
Proof.
  intros p Hp Hodd. unfold is_prime_tr.
  destruct (Z.eqb_spec p 1); [lia|]. destruct (Z.eqb_spec p 2); [lia|].
  destruct (Z.eqb_spec (Z.rem p 2) 0); [contradiction|].
  destruct (Z.iter _ _ _) as [[t v] tl]. cbn [snd].
  apply in_or_app. right. apply in_or_app. left. left. reflexivity.
Qed.

(* ... hence it leaves int for the Mersenne prime 2^31 - 1 (and for every odd p >= 46340^2) *)
Lemma is_prime_check_overflows : forall p, 46340 * 46340 <= p <= int_max -> Z.rem p 2 <> 0 ->
  ~ fits int_max (snd (is_prime_tr true p)).
Proof.
  intros p [Hl Hu] Hodd F.
  pose proof (is_prime_chk_square p ltac:(lia) Hodd) as HIn.
  unfold fits, trace_in in F. rewrite Forall_forall in F. specialize (F _ HIn). cbn [tev_in] in F.
  assert (Hs : 46340 <= Z.sqrt p) by (apply Z.sqrt_le_square; lia).
  unfold int_max in F. nia.
Qed.

Lemma is_prime_check_overflows_m31 :
  2 <= int_max /\ Z.rem int_max 2 <> 0 /\ ~ fits int_max (snd (is_prime_tr true int_max)).
Proof.
  split; [vm_compute; discriminate|]. split; [vm_compute; discriminate|].
  apply is_prime_check_overflows; [unfold int_max; lia|vm_compute; discriminate].
Qed.

(* ---- SpVecFP ------------------------------------------------------------------------------- *)

Lemma spvecfp_ll : forall p B K ops, 2 <= p -> 0 <= B -> Forall (fop_scalar_le B) ops ->
  (p - 1) * Z.max 2 (Z.max (p - 1) B) <= ll_max ->
  fits ll_max (snd (frun_tr_dump p K ops)).
Proof.
  intros p B K ops Hp HB Hops Hm. apply fits_of_sym. apply (frun_tr_fits ll_max p B K ops Hp HB Hops). exact Hm.
Qed.

Lemma spvecfp_int : forall p B K ops, 2 <= p -> 0 <= B -> Forall (fop_scalar_le B) ops ->
  (p - 1) * Z.max 2 (Z.max (p - 1) B) <= int_max ->
  fits int_max (snd (frun_tr_dump p K ops)).
Proof.
  intros p B K ops Hp HB Hops Hm. apply fits_of_sym. apply (frun_tr_fits int_max p B K ops Hp HB Hops). exact Hm.
Qed.

(* the bound is attained: unit vector, times -1 (entry p-1), dot product with itself (p-1)^2, scaling by B *)
Definition sharp_history (B : Z) : list fop := [FUnit 0 3; FScaleAssign 0 (-1); FDot 0 0; FAddAssign 0 0; FScale 1 0 B].

Lemma spvecfp_sharp_ll :
  (* p = 3037000500: (p-1)^2 = 9223372030926249001 <= 2^63 - 1 is evaluated, everything fits *)
  vec_bound 3037000500 3037000499 <= ll_max /\
  In (Val (3037000499 * 3037000499)) (snd (frun_tr_dump 3037000500 2 (sharp_history 3037000499))) /\
  (* p = 3037000501: (p-1)^2 > 2^63 - 1 is evaluated *)
  ll_max < vec_bound 3037000501 1 /\
  ~ fits ll_max (snd (frun_tr_dump 3037000501 2 (sharp_history 1))).
Proof.
  split; [vm_compute; discriminate|].
  split; [vm_compute; repeat (try (left; reflexivity); right)|].
  split; [vm_compute; reflexivity|].
  assert (HIn : In (Val (3037000500 * 3037000500)) (snd (frun_tr_dump 3037000501 2 (sharp_history 1)))).
  { vm_compute. repeat (try (left; reflexivity); right). }
  intros F. unfold fits, trace_in in F. rewrite Forall_forall in F. specialize (F _ HIn).
  cbn [tev_in] in F. unfold ll_max in F. lia.
Qed.
