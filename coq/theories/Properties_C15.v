(* Properties_C15.v — construct_spanner builds a greedy (2k-1)-spanner: the retained/dropped lists
   partition the edges, the spanner is the subgraph of the retained edges with the input's weights,
   every dropped edge has a path of <= 2k-1 retained edges none heavier than it (stretch <= 2k-1),
   and the retained edges contain no simple cycle with <= 2k edges (girth > 2k).
   Underlying lemma: the hop-bounded BFS is_bfs_reachable is total and exact.
   Only statements; each closed by [exact <lemma>] and followed by Print Assumptions. *)
From Coq Require Import List Arith Bool ZArith Sorted Permutation.
From Parmcb Require Import GraphModel GraphSpec SpannerModel SpannerProofs.
Import ListNotations.

(* ---- the BFS (include/parmcb/detail/bfs.hpp) -------------------------------------------- *)
(* h only needs endpoints in range (self-loops / parallel edges allowed); s = t is allowed too *)

Theorem C15_bfs_total :
  forall h s t mh,
    (forall e x y, ends h e = Some (x, y) -> x < nv h /\ y < nv h) -> s < nv h ->
    exists b, is_bfs_reachable h s t mh = Some b.
Proof. exact bfs_total. Qed.
Print Assumptions C15_bfs_total.

Theorem C15_bfs_bounded :
  forall h s t hops,
    (forall e x y, ends h e = Some (x, y) -> x < nv h /\ y < nv h) -> s < nv h ->
    (is_bfs_reachable h s t (Some hops) = Some true <-> exists p, walk h s p t /\ length p <= hops).
Proof. exact bfs_bounded_correct. Qed.
Print Assumptions C15_bfs_bounded.

Theorem C15_bfs_unbounded :
  forall h s t,
    (forall e x y, ends h e = Some (x, y) -> x < nv h /\ y < nv h) -> s < nv h ->
    (is_bfs_reachable h s t None = Some true <-> connected h s t).
Proof. exact bfs_unbounded_correct. Qed.
Print Assumptions C15_bfs_unbounded.

(* ---- the spanner ------------------------------------------------------------------------- *)
(* `scan` is the oracle for std::sort: ANY permutation of the edge ids that is sorted by weight
   (adjacent elements in <= order; equivalent to pairwise order since <= is transitive). *)

Theorem C15 :
  forall g w k scan,
    simple_graph g -> length w = ne g -> 1 <= k ->
    Permutation scan (seq 0 (ne g)) -> Sorted (fun a b => (wt w a <= wt w b)%Z) scan ->
    exists sp, construct_spanner g k scan = SpOk sp
      /\ (* partition *) Permutation (retained sp ++ dropped sp) (seq 0 (ne g))
      /\ (* subgraph of the retained edges, same endpoints *)
         (nv (sp_graph sp) = nv g
          /\ ge (sp_graph sp) = map (fun e => nth e (ge g) (0, 0)) (retained sp))
      /\ (* it carries the input's weights *)
         (forall i e, nth_error (retained sp) i = Some e ->
                      nth_error (spanner_weights w sp) i = Some (wt w e))
      /\ (* every dropped edge has a short path of lighter-or-equal retained edges *)
         (forall e u v, In e (dropped sp) -> ends g e = Some (u, v) ->
            exists p, walk g u p v /\ incl (wedges p) (retained sp) /\ length p <= 2 * k - 1
                      /\ Forall (fun a => (wt w a <= wt w e)%Z) (wedges p))
      /\ (* girth > 2k *)
         (forall C, simple_cycle g C -> incl C (retained sp) -> 2 * k < length C).
Proof. exact construct_spanner_correct. Qed.
Print Assumptions C15.

(* stretch <= 2k-1 when weights are non-negative *)
Theorem C15_stretch :
  forall g w k scan,
    simple_graph g -> length w = ne g -> Forall (fun x => (0 <= x)%Z) w -> 1 <= k ->
    Permutation scan (seq 0 (ne g)) -> Sorted (fun a b => (wt w a <= wt w b)%Z) scan ->
    exists sp, construct_spanner g k scan = SpOk sp
      /\ forall e u v, In e (dropped sp) -> ends g e = Some (u, v) ->
           exists p, walk g u p v /\ incl (wedges p) (retained sp)
                     /\ (weight w (wedges p) <= Z.of_nat (2 * k - 1) * wt w e)%Z.
Proof. exact construct_spanner_stretch. Qed.
Print Assumptions C15_stretch.

(* no error value for any k (k = 0: max_hops wraps to "unbounded") and any scan order, sorted or not *)
Theorem C15_total :
  forall g k scan,
    simple_graph g -> Permutation scan (seq 0 (ne g)) ->
    exists sp, construct_spanner g k scan = SpOk sp
      /\ Permutation (retained sp ++ dropped sp) (seq 0 (ne g))
      /\ nv (sp_graph sp) = nv g
      /\ ge (sp_graph sp) = map (fun e => nth e (ge g) (0, 0)) (retained sp).
Proof. exact construct_spanner_total. Qed.
Print Assumptions C15_total.

Theorem C15_k0_total :
  forall g scan,
    simple_graph g -> Permutation scan (seq 0 (ne g)) ->
    exists sp, construct_spanner g 0 scan = SpOk sp.
Proof. exact construct_spanner_k0_total. Qed.
Print Assumptions C15_k0_total.

(* non-vacuity: K4 on 0..3, a pendant edge 3-4 and a 5-cycle 4-5-6-7-8 hanging off it; weights with
   ties; a scan order that is weight-sorted but not the stable one.  With k = 2 the three heaviest
   K4 edges are dropped (each closes a triangle) and the 5-cycle survives (girth 5 > 4); with
   k = 0 (unbounded) the last cycle edge is dropped too. *)
Example C15_nonvacuous :
  let g := {| nv := 9; ge := [(0,1); (0,2); (0,3); (1,2); (1,3); (2,3); (3,4);
                               (4,5); (5,6); (6,7); (7,8); (8,4)] |} in
  let w := [1; 1; 2; 2; 2; 3; 1; 1; 1; 1; 1; 5]%Z in
  let scan := [6; 0; 1; 10; 7; 8; 9; 3; 2; 4; 5; 11] in
  simple_graph g /\ length w = ne g /\ Forall (fun x => (0 <= x)%Z) w
  /\ Permutation scan (seq 0 (ne g)) /\ Sorted (fun a b => (wt w a <= wt w b)%Z) scan
  /\ construct_spanner g 2 scan =
       SpOk {| sp_graph := {| nv := 9; ge := [(3,4); (0,1); (0,2); (7,8); (4,5); (5,6); (6,7);
                                              (0,3); (8,4)] |};
               retained := [6; 0; 1; 10; 7; 8; 9; 2; 11]; dropped := [3; 4; 5] |}
  /\ (exists sp, construct_spanner g 0 scan = SpOk sp /\ dropped sp = [3; 4; 5; 11]).
Proof.
  cbv zeta. split; [vm_compute; reflexivity|]. split; [reflexivity|].
  split; [repeat constructor; discriminate|].
  split; [apply scan_perm_check; vm_compute; reflexivity|].
  split; [repeat (first [apply Z.leb_le; vm_compute; reflexivity | constructor])|].
  split; [vm_compute; reflexivity|].
  eexists; split; vm_compute; reflexivity.
Qed.
