(* Properties_C01.v — C01: mcb_sva_signed returns a cycle basis of the right size.

   C01_scheme_yields_basis        the abstract basis theorem of de Pina's scheme (DePinaProofs.v)
   C01_signed_cycle_space_basis   UNCONDITIONAL, any weight type / weights / oracles: whenever the exact model
                                  of mcb_sva_signed (SignedModel.v) answers SvaOk, the cycles are m - n + c
                                  elements of the cycle space, GF(2)-independent and spanning it.
                                  Not covered by this statement (both need optimality of the signed search):
                                  that SvaOk is always reached and that each cycle is vertex-simple.
   C01_signed_modulo_search       Z weights: with minimality and totality of the per-phase signed search as
                                  explicit premises (SignedProofs.signed_search_min / signed_search_total),
                                  mcb_sva_signed_Z answers SvaOk with a cycle basis (simple cycles) of size
                                  m - n + c.
   The premises of the modulo-search theorem are satisfiable (checked on K4 against the verified
   reference search, SignedProofs2.v). *)
From Coq Require Import List Arith Bool ZArith.
From Parmcb Require Import GraphModel GF2Model GraphSpec GF2Lin McbSpec DePinaSpec DePinaProofs
     ForestModel SvaModel SvaSpec SignedModel SignedZModel SignedProofs SignedProofs2.
Import ListNotations.

Theorem C01_scheme_yields_basis : depina_basis_stmt.
Proof. exact depina_basis. Qed.
Print Assumptions C01_scheme_yields_basis.

Theorem C01_signed_cycle_space_basis :
  forall (W : Type) (w0 : W) (wadd : W -> W -> W) (wltb : W -> W -> bool) (eord : nat -> nat)
         (g : graph) (wts : list W) (roots : list nat)
         (cycles : list (list nat)) (total : W) (sup : list vec),
    simple_graph g -> (forall v, v < nv g -> In v roots) ->
    mcb_sva_signed W w0 wadd wltb eord g wts roots = SvaOk cycles total sup ->
    has_cycle_space_dimension g (length cycles) /\ Forall (in_cycle_space g) cycles
    /\ indep cycles /\ spans (in_cycle_space g) cycles.
Proof. exact mcb_sva_signed_basis_partial. Qed.
Print Assumptions C01_signed_cycle_space_basis.

(* non-vacuity: K4 with unit weights; this is the answer of the real code for these oracles *)
Example C01_signed_cycle_space_basis_nonvacuous :
  simple_graph sg_k4 /\ (forall v, v < nv sg_k4 -> In v sg_k4_roots) /\
  mcb_sva_signed Z 0%Z Z.add Z.ltb (fun e => nth e sg_k4_eord 0) sg_k4 sg_k4_wts sg_k4_roots
  = SvaOk [[0;1;3];[0;2;4];[1;2;5]] 9%Z [[0];[0;1];[1;2]].
Proof.
  split; [exact sg_k4_simple|]. split; [exact sg_k4_roots_cover|]. vm_compute. reflexivity.
Qed.

Theorem C01_signed_modulo_search :
  forall (g : graph) (wts : list Z) (roots eord : list nat),
    simple_graph g -> positive_weights g wts -> (forall v, v < nv g -> In v roots) ->
    (forall fi, create_index g roots = Some fi ->
       signed_search_min g wts (fun e => nth e eord 0) fi
       /\ signed_search_total g wts (fun e => nth e eord 0) fi) ->
    exists cycles total sup,
      mcb_sva_signed_Z g wts roots eord = SvaOk cycles total sup
      /\ cycle_basis g cycles /\ has_cycle_space_dimension g (length cycles).
Proof. exact C01_signed_modulo_search_lemma. Qed.
Print Assumptions C01_signed_modulo_search.

(* non-vacuity: on K4 (unit weights) every hypothesis holds — the two search premises by the certificate
   check against the verified reference search — and the run is the one of the real code *)
Example C01_signed_modulo_search_nonvacuous :
  simple_graph sg_k4 /\ positive_weights sg_k4 sg_k4_wts /\ (forall v, v < nv sg_k4 -> In v sg_k4_roots) /\
  (forall fi, create_index sg_k4 sg_k4_roots = Some fi ->
     signed_search_min sg_k4 sg_k4_wts (fun e => nth e sg_k4_eord 0) fi
     /\ signed_search_total sg_k4 sg_k4_wts (fun e => nth e sg_k4_eord 0) fi) /\
  mcb_sva_signed_Z sg_k4 sg_k4_wts sg_k4_roots sg_k4_eord
  = SvaOk [[0;1;3];[0;2;4];[1;2;5]] 9%Z [[0];[0;1];[1;2]].
Proof.
  split; [exact sg_k4_simple|]. split; [exact sg_k4_positive|]. split; [exact sg_k4_roots_cover|].
  split; [exact sg_k4_premises|exact sg_k4_run].
Qed.

(* ---- C01, full strength for the signed variant (Z weights) ---------------------------------------------
   C01_signed   NO premise about the search: for every simple graph, positive integer weights, every root
                order and every edge-order oracle, the exact model mcb_sva_signed_Z answers SvaOk with a cycle
                basis (simple cycles, independent, spanning) of size m - n + c.
   The two premises of C01_signed_modulo_search are discharged by the optimality proof of the
   bidirectional signed search (BidirSpec.v: bidir_spec_stmt etc., BidirProofs1–5.v, BidirProofsA1–A3.v:
   Dijkstra invariant of one frontier over the exact 4-ary heap, the bidirectional loop with its stop
   condition, limit and fuel, the reconstruction, and the all-vertices / hidden-edge branches of a phase). *)
From Parmcb Require Import BidirSpec BidirProofs5.

Theorem C01_signed :
  forall (g : graph) (wts : list Z) (roots eord : list nat),
    simple_graph g -> positive_weights g wts -> (forall v, v < nv g -> In v roots) ->
    exists cycles total sup,
      mcb_sva_signed_Z g wts roots eord = SvaOk cycles total sup
      /\ cycle_basis g cycles /\ has_cycle_space_dimension g (length cycles).
Proof. exact BidirProofs5.C01_signed. Qed.
Print Assumptions C01_signed.

(* the per-phase search premises hold for every input (so C01_signed_modulo_search is never vacuous) *)
Theorem C01_signed_search_premises :
  forall (g : graph) (wts : list Z) (roots : list nat) (eord : nat -> nat) (fi : forest_index),
    simple_graph g -> positive_weights g wts -> (forall v, v < nv g -> In v roots) ->
    create_index g roots = Some fi ->
    signed_search_min g wts eord fi /\ signed_search_total g wts eord fi.
Proof. exact BidirProofs5.signed_search. Qed.
Print Assumptions C01_signed_search_premises.

(* non-vacuity: K4 with unit weights satisfies the hypotheses, and the run is the one of the real code *)
Example C01_signed_nonvacuous :
  simple_graph sg_k4 /\ positive_weights sg_k4 sg_k4_wts /\ (forall v, v < nv sg_k4 -> In v sg_k4_roots) /\
  mcb_sva_signed_Z sg_k4 sg_k4_wts sg_k4_roots sg_k4_eord
  = SvaOk [[0;1;3];[0;2;4];[1;2;5]] 9%Z [[0];[0;1];[1;2]].
Proof.
  split; [exact sg_k4_simple|]. split; [exact sg_k4_positive|]. split; [exact sg_k4_roots_cover|].
  exact sg_k4_run.
Qed.
