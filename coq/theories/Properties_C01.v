(* Properties_C01.v — placeholder while the C01 theorems are assembled: the abstract basis theorem of de Pina's scheme. *)
From Parmcb Require Import DePinaSpec DePinaProofs.
Theorem C01_scheme_yields_basis : depina_basis_stmt.
Proof. exact depina_basis. Qed.
Print Assumptions C01_scheme_yields_basis.
