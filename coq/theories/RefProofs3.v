(* RefProofs3.v — proofs about RefModel.v, part 3: the bridge between the oddness predicate of ref_search
   and the pairing of SvaSpec (through the ForestIndex bijection, C16), ref_phase as an instance of
   search_min, and the end theorems about ref_mcb, opt_weight, basis_checkb, mcb_checkb in `_from` form:
   the generic statements of SvaSpec.v (proved in SvaProofs.v) are explicit premises.  Prefix rf_. *)
From Coq Require Import List Arith Bool ZArith Lia Sorted Permutation.
From Parmcb Require Import GraphModel GF2Model GF2Proofs GF2Lin GraphSpec GraphLemmas McbSpec
  ForestModel ForestProofs DePinaSpec DePinaProofs SvaModel SvaSpec RefModel RefProofs1 RefProofs2.
Import ListNotations.

(* ---- small list facts ------------------------------------------------------------------------ *)

Lemma rf_xsum_odd (f : nat -> bool) l : xsum (map f l) = Nat.odd (length (filter f l)).
Proof.
  induction l as [|x l IH]; [reflexivity|]. cbn [map filter]. rewrite xsum_cons, IH.
  destruct (f x); cbn [length]; [|apply xorb_false_l].
  rewrite Nat.odd_succ, <- Nat.negb_odd. destruct (Nat.odd (length (filter f l))); reflexivity.
Qed.

Lemma rf_filter_map_length {A B} (h : A -> B) (f : B -> bool) l :
  length (filter f (map h l)) = length (filter (fun x => f (h x)) l).
Proof.
  induction l as [|x l IH]; [reflexivity|]. cbn [map filter]. destruct (f (h x)); cbn [length]; auto.
Qed.

Lemma rf_NoDup_map_inj {A B} (h : A -> B) l :
  (forall x y, In x l -> In y l -> h x = h y -> x = y) -> NoDup l -> NoDup (map h l).
Proof.
  induction l as [|x l IH]; intros Hinj Hnd; [constructor|].
  inversion Hnd as [|? ? Hx Hnd']; subst. cbn [map]. constructor.
  - intros Hin. apply in_map_iff in Hin as (y & E & Hy).
    assert (y = x) by (apply Hinj; [right; exact Hy|left; reflexivity|exact E]). subst. contradiction.
  - apply IH; auto. intros a b Ha Hb. apply Hinj; right; assumption.
Qed.

Lemma rf_sortedb_sorted l : sortedb l = true -> sorted l.
Proof.
  induction l as [|x l IH]; intros H; [apply sorted_nil|].
  destruct l as [|y l]; [apply sorted_single|].
  cbn [sortedb] in H. apply andb_true_iff in H as [H1 H2]. apply Nat.ltb_lt in H1.
  specialize (IH H2). apply sorted_cons; [exact IH|].
  apply sorted_inv in IH as [_ Hy]. constructor; [exact H1|].
  eapply Forall_impl; [|exact Hy]. intros a Ha. cbv beta in *. lia.
Qed.

Lemma rf_vec_okb_spec csd S : vec_okb csd S = true -> sorted S /\ (forall i, In i S -> i < csd).
Proof.
  unfold vec_okb. intros H. apply andb_true_iff in H as [H1 H2].
  split; [apply rf_sortedb_sorted; exact H1|].
  rewrite forallb_forall in H2. intros i Hi. apply Nat.ltb_lt. apply H2; exact Hi.
Qed.

Lemma rf_simple_cycle_edges g D : simple_cycle g D -> sorted D /\ (forall e, In e D -> e < ne g).
Proof.
  intros (_ & Hsd & x & p & Hw & _ & _ & HE). split; [exact Hsd|].
  intros e He. eapply gl_walk_edges_lt; [exact Hw|]. apply HE; exact He.
Qed.

(* ---- the ForestIndex bijection in the form used here ---------------------------------------- *)

Definition rf_idx (fi : forest_index) (e : nat) : nat := nth e (fi_idx fi) 0.
Definition rf_rev (fi : forest_index) (i : nat) : nat := nth i (fi_rev fi) 0.

Lemma rf_index_bij g roots fi : simple_graph g -> (forall v, v < nv g -> In v roots) ->
  create_index g roots = Some fi ->
  (forall e, e < ne g -> rf_idx fi e < ne g /\ rf_rev fi (rf_idx fi e) = e)
  /\ (forall i, i < ne g -> rf_rev fi i < ne g /\ rf_idx fi (rf_rev fi i) = i)
  /\ fi_csd fi <= ne g.
Proof.
  intros Hs Hr Hci.
  destruct (create_index_ok g roots Hs Hr) as
      (F & k & fi' & Hsf & Hci' & _ & _ & _ & Hfwd & Hbwd & Hcsd & _).
  rewrite Hci in Hci'. inversion Hci'; subst fi'. clear Hci'.
  destruct (forest_edges_valid g roots F k Hs Hsf) as (_ & _ & Hcount).
  unfold rf_idx, rf_rev, fi_index, fi_edge in *. split; [|split; [|lia]].
  - intros e He. destruct (Hfwd e He) as (i & H1 & H2 & H3).
    rewrite (nth_error_nth _ _ 0 H1). rewrite (nth_error_nth _ _ 0 H3). auto.
  - intros i Hi. destruct (Hbwd i Hi) as (e & H1 & H2 & H3).
    rewrite (nth_error_nth _ _ 0 H1). rewrite (nth_error_nth _ _ 0 H3). auto.
Qed.

(* ---- the bridge: pairing = oddness w.r.t. the signed edge set --------------------------------- *)

Lemma rf_bridge g roots fi S D : simple_graph g -> (forall v, v < nv g -> In v roots) ->
  create_index g roots = Some fi ->
  sorted S -> (forall i, In i S -> i < fi_csd fi) ->
  sorted D -> (forall e, In e D -> e < ne g) ->
  pairing fi S D = oddb (indices_to_edges fi S) D.
Proof.
  intros Hs Hr Hci HS HSb HD HDb.
  destruct (rf_index_bij g roots fi Hs Hr Hci) as (HA & HB & Hcm).
  unfold pairing, edges_to_indices, indices_to_edges, oddb.
  fold (rf_idx fi). fold (rf_rev fi).
  assert (Hnd : NoDup (map (rf_idx fi) D)).
  { apply rf_NoDup_map_inj; [|apply gl_sorted_NoDup; exact HD].
    intros a b Ha Hb E. destruct (HA a (HDb a Ha)) as [_ <-]. destruct (HA b (HDb b Hb)) as [_ <-].
    rewrite E. reflexivity. }
  rewrite vdot_sym, vdot_par by (auto using set_of_list_sorted).
  rewrite rf_xsum_odd. f_equal.
  rewrite <- (rf_filter_len_perm _ _ _ (rf_set_of_list_perm _ Hnd)).
  rewrite rf_filter_map_length. f_equal. apply filter_ext_in. intros e He.
  apply Bool.eq_iff_eq_true. rewrite mem_In, gl_memb_In, rf_set_of_list_In, in_map_iff.
  destruct (HA e (HDb e He)) as [_ Hre]. split.
  - intros Hin. exists (rf_idx fi e). split; [exact Hre|exact Hin].
  - intros (i & Hi & Hin). destruct (HB i) as [_ Hir]; [specialize (HSb i Hin); lia|].
    rewrite <- Hi, Hir. exact Hin.
Qed.

(* ---- ref_phase is an instance of search_min (and never errs on canonical witnesses) --------- *)

Lemma rf_ref_phase_min g wts roots fi : simple_graph g -> positive_weights g wts ->
  (forall v, v < nv g -> In v roots) -> create_index g roots = Some fi ->
  search_min g wts fi (ref_phase g wts fi).
Proof.
  intros Hs Hpw Hr Hci k S c w H. unfold ref_phase in H.
  destruct (vec_okb (fi_csd fi) S) eqn:Eok; [|discriminate].
  destruct (rf_vec_okb_spec _ _ Eok) as (HS & HSb).
  destruct (rf_ref_search_correct g wts _ c w Hs Hpw H) as ((Hsc & Hodd & Hmin) & Hw).
  assert (Hbr : forall D, simple_cycle g D -> pairing fi S D = oddb (indices_to_edges fi S) D).
  { intros D HD. destruct (rf_simple_cycle_edges g D HD) as (HDs & HDb).
    eapply rf_bridge; eauto. }
  split; [|exact Hw]. split; [exact Hsc|]. split.
  - rewrite Hbr by exact Hsc. exact Hodd.
  - intros D HD HoD. apply Hmin; [exact HD|]. unfold odd_in. rewrite <- Hbr by exact HD. exact HoD.
Qed.

Lemma rf_select_none_ok csd : select_ok csd select_none.
Proof. intros k sup Hk _. unfold select_none. lia. Qed.

(* ---- ref_mcb ------------------------------------------------------------------------------- *)

Theorem rf_ref_mcb_correct_from : sva_generic_min_stmt ->
  forall g wts roots B w sup,
    simple_graph g -> positive_weights g wts -> (forall v, v < nv g -> In v roots) ->
    ref_mcb g wts roots = SvaOk B w sup ->
    min_cycle_basis g wts B /\ w = total_weight wts B /\ has_cycle_space_dimension g (length B).
Proof.
  intros Hgen g wts roots B w sup Hs Hpw Hr H. unfold ref_mcb in H.
  destruct (create_index g roots) as [fi|] eqn:Hci; [|discriminate].
  apply (Hgen g wts roots fi select_none (ref_phase g wts fi) B w sup); auto.
  - apply rf_select_none_ok.
  - eapply rf_ref_phase_min; eauto.
Qed.

(* the optimum: the weight returned by the reference is the total weight of EVERY minimum cycle basis,
   and a minimum cycle basis exists *)
Theorem rf_opt_weight_from : sva_generic_min_stmt ->
  forall g wts roots x,
    simple_graph g -> positive_weights g wts -> (forall v, v < nv g -> In v roots) ->
    opt_weight g wts roots = Some x ->
    (forall B, min_cycle_basis g wts B -> total_weight wts B = x)
    /\ (exists B, min_cycle_basis g wts B /\ total_weight wts B = x).
Proof.
  intros Hgen g wts roots x Hs Hpw Hr H. unfold opt_weight in H.
  destruct (ref_mcb g wts roots) as [B0 w0 sup| | |] eqn:E; try discriminate. inversion H; subst w0.
  destruct (rf_ref_mcb_correct_from Hgen g wts roots B0 x sup Hs Hpw Hr E) as ((Hb0 & Hm0) & Hx & _).
  split.
  - intros B (Hb & Hm). pose proof (Hm B0 Hb0). pose proof (Hm0 B Hb). lia.
  - exists B0. split; [split; assumption|symmetry; exact Hx].
Qed.

(* ---- the cycles emitted by a run whose search is a fixed list --------------------------------- *)

Lemma rf_sva_phases_cycles {W} (wadd : W -> W -> W) select (search : nat -> vec -> phase_result W) fi L :
  (forall k S c w, search k S = PFound c w -> nth_error L k = Some c) ->
  forall ks sup acc total cycles t' sup',
    sva_phases W wadd select search fi ks sup acc total = SvaOk cycles t' sup' ->
    exists rest, cycles = rev acc ++ rest /\ Forall2 (fun k c => nth_error L k = Some c) ks rest.
Proof.
  intros Hsearch. induction ks as [|k ks IH]; intros sup acc total cycles t' sup' H; cbn [sva_phases] in H.
  - inversion H; subst. exists []. rewrite app_nil_r. split; [reflexivity|constructor].
  - cbv zeta in H.
    destruct (search k _) as [c w| |] eqn:E; try discriminate.
    apply IH in H as (rest & -> & HF). exists (c :: rest). split.
    + cbn [rev]. rewrite <- app_assoc. reflexivity.
    + constructor; [eapply Hsearch; eauto|exact HF].
Qed.

Lemma rf_skipn_nth_error {A} : forall (L : list A) a c, nth_error L a = Some c ->
  skipn a L = c :: skipn (S a) L.
Proof.
  induction L as [|x L IH]; intros a c H; [destruct a; discriminate|].
  destruct a as [|a]; cbn [nth_error] in H; [inversion H; reflexivity|].
  cbn [skipn]. rewrite (IH a c H). reflexivity.
Qed.

Lemma rf_Forall2_seq_nth {A} (L : list A) : forall n a rest,
  Forall2 (fun k c => nth_error L k = Some c) (seq a n) rest -> a + n = length L -> rest = skipn a L.
Proof.
  induction n as [|n IH]; intros a rest HF Hl; cbn [seq] in HF.
  - inversion HF; subst. symmetry. apply skipn_all2. lia.
  - inversion HF as [|k c ks rest' Hc HF']; subst.
    rewrite (rf_skipn_nth_error L a c Hc). f_equal. apply IH; [exact HF'|lia].
Qed.

(* ---- basis_checkb ------------------------------------------------------------------------------ *)

Lemma rf_chk_search_sound g fi Cc : simple_graph g -> Forall (simple_cycle g) Cc ->
  search_sound g fi (chk_search fi Cc).
Proof.
  intros Hs HF k S c w H. unfold chk_search in H.
  destruct (nth_error Cc k) as [c'|] eqn:E; [|discriminate].
  destruct (vdot S (edges_to_indices fi c')) eqn:Ev; [|discriminate]. inversion H; subst c' w.
  split; [|exact Ev]. apply simple_cycle_in_cycle_space; [exact Hs|].
  rewrite Forall_forall in HF. apply HF. eapply nth_error_In; eauto.
Qed.

Lemma rf_chk_select_ok fi Cc : select_ok (fi_csd fi) (chk_select fi Cc).
Proof.
  intros k sup Hk _. unfold chk_select. destruct (nth_error Cc k) as [c|]; [|lia].
  destruct (find _ _) as [l|] eqn:E; [|lia].
  apply find_some in E as [Hin _]. apply in_seq in Hin. lia.
Qed.

Theorem rf_basis_checkb_sound_from : sva_generic_basis_stmt ->
  forall g roots Cs,
    simple_graph g -> (forall v, v < nv g -> In v roots) ->
    basis_checkb g roots Cs = true ->
    Forall (fun l => NoDup l) Cs /\ cycle_basis g (map set_of_list Cs)
    /\ has_cycle_space_dimension g (length Cs).
Proof.
  intros Hgen g roots Cs Hs Hr H. unfold basis_checkb in H.
  apply andb_true_iff in H as [Hsimple H].
  destruct (create_index g roots) as [fi|] eqn:Hci; [|discriminate].
  cbv zeta in H. apply andb_true_iff in H as [Hlen H]. apply Nat.eqb_eq in Hlen.
  set (Cc := map set_of_list Cs) in *.
  destruct (sva_run Z 0%Z Z.add (chk_select fi Cc) (chk_search fi Cc) fi) as [cycles total sup| | |] eqn:Erun;
    try discriminate. clear H.
  rewrite forallb_forall in Hsimple.
  assert (HND : Forall (fun l => NoDup l) Cs).
  { apply Forall_forall. intros l Hl. apply (rf_is_simple_cycle_rawb_sound g l). apply Hsimple; exact Hl. }
  assert (HF : Forall (simple_cycle g) Cc).
  { apply Forall_forall. intros c Hc. apply in_map_iff in Hc as (l & <- & Hl).
    apply (rf_is_simple_cycle_rawb_sound g l). apply Hsimple; exact Hl. }
  assert (Hcyc : cycles = Cc).
  { unfold sva_run in Erun.
    destruct (rf_sva_phases_cycles Z.add (chk_select fi Cc) (chk_search fi Cc) fi Cc) with
        (1 := fun k S c w (H : chk_search fi Cc k S = PFound c w) =>
                ltac:(unfold chk_search in H; destruct (nth_error Cc k) as [c'|]; [|discriminate];
                      destruct (vdot S (edges_to_indices fi c')); [|discriminate];
                      inversion H; reflexivity) : nth_error Cc k = Some c)
        (2 := Erun) as (rest & -> & HF2).
    cbn [rev app]. apply (rf_Forall2_seq_nth Cc) in HF2; [exact HF2|].
    unfold Cc. rewrite map_length. lia. }
  subst cycles.
  destruct (Hgen g roots fi Z 0%Z Z.add (chk_select fi Cc) (chk_search fi Cc) Cc total sup Hs Hr Hci
                 (rf_chk_select_ok fi Cc) (rf_chk_search_sound g fi Cc Hs HF) Erun)
    as (_ & Hdim & _ & _ & _ & Hind & Hsp).
  split; [exact HND|]. split; [split; [exact HF|split; assumption]|].
  unfold Cc in Hdim. rewrite map_length in Hdim. exact Hdim.
Qed.

(* ---- mcb_checkb --------------------------------------------------------------------------------- *)

Theorem rf_mcb_checkb_sound_from : sva_generic_basis_stmt -> sva_generic_min_stmt ->
  forall g wts roots Cs,
    simple_graph g -> positive_weights g wts -> (forall v, v < nv g -> In v roots) ->
    mcb_checkb g wts roots Cs = true ->
    min_cycle_basis g wts (map set_of_list Cs) /\ has_cycle_space_dimension g (length Cs).
Proof.
  intros Hgb Hgm g wts roots Cs Hs Hpw Hr H. unfold mcb_checkb, mcb_check_with in H.
  apply andb_true_iff in H as [Hb H].
  destruct (opt_weight g wts roots) as [x|] eqn:Eo; [|discriminate]. apply Z.eqb_eq in H.
  destruct (rf_basis_checkb_sound_from Hgb g roots Cs Hs Hr Hb) as (_ & Hcb & Hdim).
  destruct (rf_opt_weight_from Hgm g wts roots x Hs Hpw Hr Eo) as (_ & B0 & (Hb0 & Hm0) & Hx).
  split; [|exact Hdim]. split; [exact Hcb|].
  intros B' HB'. rewrite H, <- Hx. apply Hm0; exact HB'.
Qed.
