(* ApproxProofs.v — the structure behind C05 / C06: the spanner is an edge-relabelled subgraph of the input, its cycle
   space is the part of the input's cycle space that avoids the dropped edges, and a basis of it together with one
   cycle per dropped edge (that edge + retained edges only) is a basis of the input's cycle space.
   Independence: the private-edge argument.  Spanning: directly (no dimension theory): add to Z the dropped-edge
   cycles of the dropped edges of Z; the result avoids all dropped edges, hence comes from the spanner.
   Prefix ap_. *)
From Coq Require Import List Arith Bool Lia ZArith Permutation Sorted.
From Parmcb Require Import GraphModel GF2Model GF2Proofs GF2Lin GraphSpec GraphLemmas McbSpec DePinaSpec DePinaProofs
  SpannerModel SpannerProofs ApproxProofsRelabel.
Import ListNotations.

(* ---- position of an element in a list ----------------------------------------------------------- *)

Fixpoint idx_of (e : nat) (l : list nat) : nat :=
  match l with
  | [] => 0
  | x :: r => if Nat.eqb x e then 0 else S (idx_of e r)
  end.

Lemma ap_idx_of_lt e l : In e l -> idx_of e l < length l.
Proof.
  induction l as [|x r IH]; intros H; [destruct H|]. cbn [idx_of length].
  destruct (Nat.eqb_spec x e) as [_|Hne]; [lia|]. destruct H as [H|H]; [contradiction|].
  specialize (IH H). lia.
Qed.

Lemma ap_nth_idx_of e l d : In e l -> nth (idx_of e l) l d = e.
Proof.
  induction l as [|x r IH]; intros H; [destruct H|]. cbn [idx_of].
  destruct (Nat.eqb_spec x e) as [->|Hne]; [reflexivity|]. destruct H as [H|H]; [contradiction|].
  cbn [nth]. exact (IH H).
Qed.

Lemma ap_idx_of_nth l : forall i d, NoDup l -> i < length l -> idx_of (nth i l d) l = i.
Proof.
  induction l as [|x r IH]; intros i d Hnd Hi; [cbn [length] in Hi; lia|].
  inversion Hnd as [|? ? Hx Hr]; subst. destruct i as [|i]; cbn [nth idx_of].
  - rewrite Nat.eqb_refl. reflexivity.
  - cbn [length] in Hi. destruct (Nat.eqb_spec x (nth i r d)) as [E|_].
    + exfalso. apply Hx. rewrite E. apply nth_In. lia.
    + f_equal. apply IH; [exact Hr|lia].
Qed.

Lemma ap_NoDup_app_l {A} (a b : list A) : NoDup (a ++ b) -> NoDup a.
Proof.
  induction a as [|x a IH]; intros H; [constructor|]. cbn [app] in H. inversion H as [|? ? Hx H']; subst.
  constructor; [intros Hin; apply Hx, in_or_app; left; exact Hin|exact (IH H')].
Qed.

Lemma ap_NoDup_app_r {A} (a b : list A) : NoDup (a ++ b) -> NoDup b.
Proof. induction a as [|x a IH]; intros H; [exact H|]. cbn [app] in H. inversion H; subst. auto. Qed.

Lemma ap_NoDup_app_disjoint {A} (x : A) l1 l2 : NoDup (l1 ++ l2) -> In x l1 -> In x l2 -> False.
Proof.
  induction l1 as [|a l1 IH]; intros Hnd H1 H2; [destruct H1|].
  cbn [app] in Hnd. inversion Hnd as [|? ? Hna Hnd']; subst. destruct H1 as [->|H1].
  - apply Hna, in_or_app. right; exact H2.
  - exact (IH Hnd' H1 H2).
Qed.

(* ---- generic facts on canonical images ------------------------------------------------------------ *)

Lemma ap_trv_eq sigma C Z : sorted Z -> (forall e, In e Z <-> exists i, In i C /\ sigma i = e) -> trv sigma C = Z.
Proof.
  intros HZ H. apply sorted_ext; [apply rl_trv_sorted|exact HZ|].
  intros e. destruct (mem Z e) eqn:E.
  - apply mem_In. apply rl_trv_In. apply H. apply mem_In; exact E.
  - destruct (mem (trv sigma C) e) eqn:E'; [|reflexivity].
    apply mem_In in E'. apply rl_trv_In in E'. apply H in E'. apply mem_In in E'. rewrite E in E'. discriminate.
Qed.

(* ---- no_parallel, pointwise ------------------------------------------------------------------------- *)

Lemma ap_same_pair_sym a b : same_pair a b = same_pair b a.
Proof.
  unfold same_pair. rewrite (Nat.eqb_sym (fst a) (fst b)), (Nat.eqb_sym (snd a) (snd b)),
    (Nat.eqb_sym (fst a) (snd b)), (Nat.eqb_sym (snd a) (fst b)).
  destruct (Nat.eqb (fst b) (fst a)), (Nat.eqb (snd b) (snd a)), (Nat.eqb (snd b) (fst a)), (Nat.eqb (fst b) (snd a)); reflexivity.
Qed.

Lemma ap_no_parallel_spec l :
  no_parallel l = true <->
  (forall i j, i < j -> j < length l -> same_pair (nth i l (0, 0)) (nth j l (0, 0)) = false).
Proof.
  induction l as [|e r IH]; cbn [no_parallel length].
  - split; [intros _ i j _ Hj; lia|reflexivity].
  - rewrite andb_true_iff, negb_true_iff, IH. split.
    + intros [Hex Hr] i j Hij Hj. destruct j as [|j]; [lia|]. destruct i as [|i]; cbn [nth].
      * destruct (same_pair e (nth j r (0, 0))) eqn:E; [|reflexivity].
        rewrite <- Hex. symmetry. apply existsb_exists. exists (nth j r (0, 0)). split; [apply nth_In; lia|exact E].
      * apply Hr; lia.
    + intros H. split.
      * destruct (existsb (same_pair e) r) eqn:E; [|reflexivity].
        apply existsb_exists in E as (x & Hx & Hsp). apply (In_nth _ _ (0, 0)) in Hx as (j & Hj & <-).
        rewrite <- (H 0 (S j)); [symmetry; exact Hsp|lia|lia].
      * intros i j Hij Hj. apply (H (S i) (S j)); lia.
Qed.

(* two edges of a simple graph with the same endpoints are the same edge *)
Lemma ap_simple_joins_unique g a b x y : simple_graph g -> joins g a x y -> joins g b x y -> a = b.
Proof.
  intros Hs Ha Hb. pose proof Hs as Hs'. unfold simple_graph, simpleb in Hs'.
  apply andb_true_iff in Hs' as [_ Hnp]. rewrite ap_no_parallel_spec in Hnp.
  assert (La : a < ne g) by (eapply gl_joins_lt; eauto). assert (Lb : b < ne g) by (eapply gl_joins_lt; eauto).
  assert (Hsp : same_pair (nth a (ge g) (0, 0)) (nth b (ge g) (0, 0)) = true).
  { unfold joins in Ha, Hb.
    destruct Ha as [Ha|Ha], Hb as [Hb|Hb]; apply nth_ge_ends in Ha, Hb; rewrite Ha, Hb;
      unfold same_pair; cbn [fst snd]; rewrite !Nat.eqb_refl; cbn [andb orb]; auto using orb_true_r. }
  destruct (Nat.lt_trichotomy a b) as [Hlt|[E|Hgt]]; [|exact E|].
  - rewrite (Hnp a b Hlt Lb) in Hsp. discriminate.
  - rewrite ap_same_pair_sym, (Hnp b a Hgt La) in Hsp. discriminate.
Qed.

(* ---- simple paths -------------------------------------------------------------------------------------- *)

Lemma ap_joins_fun g e a b a' b' : joins g e a b -> joins g e a' b' -> (a = a' /\ b = b') \/ (a = b' /\ b = a').
Proof. unfold joins. intros [H|H] [H'|H']; rewrite H in H'; inversion H'; auto. Qed.

Lemma ap_walk_edge_ends g e a b : joins g e a b -> forall p y z, walk g y p z -> In e (wedges p) ->
  In a (y :: wverts p) /\ In b (y :: wverts p).
Proof.
  intros Hj. induction p as [|[e2 y2] p IH]; intros y z Hw Hin; [destruct Hin|].
  inversion Hw as [|x' e0 y' p' z' Hj2 Hw2]; subst. cbn [wedges map fst] in Hin.
  cbn [wverts map snd]. fold (wverts p). destruct Hin as [->|Hin].
  - destruct (ap_joins_fun g e a b y y2 Hj Hj2) as [[-> ->]|[-> ->]]; cbn [In]; auto.
  - destruct (IH y2 z Hw2 Hin) as [Ha Hb]. split; right; assumption.
Qed.

Lemma ap_path_edges_nodup g : forall p y z, walk g y p z -> NoDup (y :: wverts p) -> NoDup (wedges p).
Proof.
  induction p as [|[e2 y2] p IH]; intros y z Hw Hnd; [constructor|].
  inversion Hw as [|x' e0 y' p' z' Hj2 Hw2]; subst. cbn [wedges map fst]. fold (wedges p).
  cbn [wverts map snd] in Hnd. fold (wverts p) in Hnd.
  inversion Hnd as [|? ? Hy Hnd']; subst. constructor; [|eapply IH; eauto].
  intros Hin. destruct (ap_walk_edge_ends g e2 y y2 Hj2 p y2 z Hw2 Hin) as [Ha _]. contradiction.
Qed.

(* a simple path from u to v closed by an edge (v,u) that is not on it is a simple cycle *)
Lemma ap_close_path g e v u p : joins g e v u -> walk g u p v -> NoDup (u :: wverts p) -> ~ In e (wedges p) ->
  simple_cycle g (set_of_list (wedges p ++ [e])) /\ NoDup (wedges p ++ [e]).
Proof.
  intros Hj Hw Hnd Hne.
  assert (Hnde : NoDup (wedges p ++ [e])).
  { eapply Permutation_NoDup; [apply Permutation_cons_append|]. constructor; [exact Hne|].
    eapply ap_path_edges_nodup; eauto. }
  split; [|exact Hnde]. split; [|split; [apply set_of_list_sorted|]].
  - intros E. assert (H : In e (set_of_list (wedges p ++ [e]))).
    { apply rl_set_of_list_In, in_or_app. right; left; reflexivity. }
    rewrite E in H. destruct H.
  - exists v, ((e, u) :: p). split; [econstructor; eauto|].
    cbn [wedges wverts map fst snd]. fold (wedges p) (wverts p). split; [|split; [exact Hnd|]].
    + constructor; [exact Hne|]. eapply ap_path_edges_nodup; eauto.
    + intros x. rewrite rl_set_of_list_In, in_app_iff. cbn [In]. tauto.
Qed.

(* ---- the spanner as a relabelled subgraph ----------------------------------------------------------- *)

Section SpannerStructure.
  Variable g : graph.
  Hypothesis Hg : simple_graph g.
  Variable sp : spanner.
  Hypothesis Hsub : sp_sub g sp.
  Hypothesis HP : Permutation (retained sp ++ dropped sp) (seq 0 (ne g)).

  Notation R := (retained sp).
  Notation D := (dropped sp).
  Notation h := (sp_graph sp).

  Definition tr (i : nat) : nat := nth i R 0.
  Definition tri (e : nat) : nat := idx_of e R.
  Definition domR (i : nat) : Prop := i < length R.
  Definition domE (e : nat) : Prop := In e R.
  Definition fwd (C : list nat) : vec := trv tr C.
  Definition bwd (Z : list nat) : vec := trv tri Z.

  Lemma ap_RD_nodup : NoDup (R ++ D).
  Proof. eapply Permutation_NoDup; [apply Permutation_sym, HP|apply seq_NoDup]. Qed.

  Lemma ap_R_nodup : NoDup R.
  Proof. exact (ap_NoDup_app_l _ _ ap_RD_nodup). Qed.

  Lemma ap_D_nodup : NoDup D.
  Proof. exact (ap_NoDup_app_r _ _ ap_RD_nodup). Qed.

  Lemma ap_RD_disjoint e : In e R -> In e D -> False.
  Proof.
    exact (ap_NoDup_app_disjoint e _ _ ap_RD_nodup).
  Qed.

  Lemma ap_RD_cover e : e < ne g -> In e R \/ In e D.
  Proof.
    intros He. apply in_app_or. apply (Permutation_in _ (Permutation_sym HP)). apply in_seq. lia.
  Qed.

  Lemma ap_R_lt e : In e R -> e < ne g.
  Proof. destruct Hsub as (_ & _ & H). apply H. Qed.

  Lemma ap_D_lt e : In e D -> e < ne g.
  Proof.
    intros H. assert (H' : In e (seq 0 (ne g))) by (apply (Permutation_in _ HP), in_or_app; right; exact H).
    apply in_seq in H'. lia.
  Qed.

  Lemma ap_ne_g : ne g = length R + length D.
  Proof. rewrite <- app_length, (Permutation_length HP), seq_length. reflexivity. Qed.

  Lemma ap_ne_h : ne h = length R.
  Proof. destruct Hsub as (_ & Hge & _). unfold ne. rewrite Hge, map_length. reflexivity. Qed.

  Lemma ap_nv_h : nv h = nv g.
  Proof. apply Hsub. Qed.

  Lemma ap_tr_In i : i < length R -> In (tr i) R.
  Proof. intros Hi. apply nth_In; exact Hi. Qed.

  Lemma ap_nth_error_R i : i < length R -> nth_error R i = Some (tr i).
  Proof. intros Hi. apply nth_error_nth'. exact Hi. Qed.

  Lemma ap_nth_error_R_inv i e : nth_error R i = Some e -> i < length R /\ e = tr i.
  Proof.
    intros H. split; [apply nth_error_Some; rewrite H; discriminate|].
    symmetry. apply (nth_error_nth _ _ _ H).
  Qed.

  Lemma ap_ends_h i : i < length R -> ends h i = ends g (tr i).
  Proof.
    intros Hi. destruct Hsub as (_ & Hge & Hlt). unfold ends at 1. rewrite Hge.
    rewrite (map_nth_error _ _ _ (ap_nth_error_R i Hi)).
    symmetry. apply ends_nth_ge. apply Hlt, ap_tr_In, Hi.
  Qed.

  Lemma ap_tr_tri e : In e R -> tr (tri e) = e.
  Proof. apply ap_nth_idx_of. Qed.

  Lemma ap_tri_tr i : i < length R -> tri (tr i) = i.
  Proof. intros Hi. apply ap_idx_of_nth; [apply ap_R_nodup|exact Hi]. Qed.

  Lemma ap_tri_lt e : In e R -> tri e < length R.
  Proof. apply ap_idx_of_lt. Qed.

  (* the two relabelling instances *)
  Lemma ap_fwd_ends i : domR i -> i < ne h /\ ends h i = ends g (tr i).
  Proof. intros Hi. rewrite ap_ne_h. split; [exact Hi|apply ap_ends_h, Hi]. Qed.

  Lemma ap_fwd_inj i j : domR i -> domR j -> tr i = tr j -> i = j.
  Proof. intros Hi Hj E. apply (proj1 (NoDup_nth R 0) ap_R_nodup i j Hi Hj E). Qed.

  Lemma ap_bwd_ends e : domE e -> e < ne g /\ ends g e = ends h (tri e).
  Proof.
    intros He. split; [apply ap_R_lt, He|].
    rewrite ap_ends_h by (apply ap_tri_lt, He). rewrite ap_tr_tri by exact He. reflexivity.
  Qed.

  Lemma ap_bwd_inj e e' : domE e -> domE e' -> tri e = tri e' -> e = e'.
  Proof. intros He He' E. rewrite <- (ap_tr_tri e He), <- (ap_tr_tri e' He'), E. reflexivity. Qed.

  Lemma ap_fwd_bwd Z : sorted Z -> Forall domE Z -> fwd (bwd Z) = Z.
  Proof.
    intros HS HD. apply ap_trv_eq; [exact HS|]. intros e. rewrite Forall_forall in HD. split.
    - intros He. exists (tri e). split; [apply rl_trv_In; exists e; auto|apply ap_tr_tri, HD, He].
    - intros (i & Hi & <-). apply rl_trv_In in Hi as (e & He & <-). rewrite ap_tr_tri by (apply HD, He). exact He.
  Qed.

  Lemma ap_bwd_fwd C : sorted C -> Forall domR C -> bwd (fwd C) = C.
  Proof.
    intros HS HD. apply ap_trv_eq; [exact HS|]. intros i. rewrite Forall_forall in HD. split.
    - intros Hi. exists (tr i). split; [apply rl_trv_In; exists i; auto|apply ap_tri_tr, HD, Hi].
    - intros (e & He & <-). apply rl_trv_In in He as (i & Hi & <-). rewrite ap_tri_tr by (apply HD, Hi). exact Hi.
  Qed.

  Lemma ap_fwd_in_R C : Forall domR C -> Forall domE (fwd C).
  Proof.
    intros HD. rewrite Forall_forall in *. intros e He. apply rl_trv_In in He as (i & Hi & <-).
    apply ap_tr_In, HD, Hi.
  Qed.

  Lemma ap_bwd_in_dom Z : Forall domE Z -> Forall domR (bwd Z).
  Proof.
    intros HD. rewrite Forall_forall in *. intros i Hi. apply rl_trv_In in Hi as (e & He & <-).
    apply ap_tri_lt, HD, He.
  Qed.

  Lemma ap_cs_h_dom C : in_cycle_space h C -> Forall domR C.
  Proof. intros (_ & HB & _). rewrite Forall_forall. intros i Hi. unfold domR. rewrite <- ap_ne_h. apply HB, Hi. Qed.

  (* the spanner is a simple graph *)
  Lemma ap_sp_simple : simple_graph h.
  Proof.
    unfold simple_graph, simpleb. apply andb_true_iff. split.
    - apply forallb_forall. intros [x y] Hin. apply In_nth_error in Hin as (i & Hi).
      assert (He : ends h i = Some (x, y)) by exact Hi.
      assert (Hlt : i < length R) by (rewrite <- ap_ne_h; eapply gl_ends_lt; eauto).
      rewrite ap_ends_h in He by exact Hlt.
      destruct (simple_ends g _ _ _ Hg He) as (H1 & H2 & H3). cbn [fst snd]. rewrite ap_nv_h.
      apply andb_true_iff. split; [apply andb_true_iff; split; apply Nat.ltb_lt; assumption|].
      apply negb_true_iff, Nat.eqb_neq. exact H3.
    - apply ap_no_parallel_spec. intros i j Hij Hj. fold (ne h) in Hj. rewrite ap_ne_h in Hj.
      assert (Hi : i < length R) by lia.
      assert (Hnth : forall a, a < length R -> nth a (ge h) (0, 0) = nth (tr a) (ge g) (0, 0)).
      { intros a Ha. pose proof (ap_ends_h a Ha) as E.
        rewrite (ends_nth_ge h a) in E by (rewrite ap_ne_h; exact Ha).
        rewrite (ends_nth_ge g (tr a)) in E by (apply ap_R_lt, ap_tr_In, Ha). congruence. }
      rewrite (Hnth i Hi), (Hnth j Hj).
      pose proof Hg as Hs'. unfold simple_graph, simpleb in Hs'.
      apply andb_true_iff in Hs' as [_ Hnp]. rewrite ap_no_parallel_spec in Hnp.
      assert (Hne : tr i <> tr j) by (intros E; apply ap_fwd_inj in E; unfold domR; lia).
      assert (Li : tr i < ne g) by (apply ap_R_lt, ap_tr_In, Hi).
      assert (Lj : tr j < ne g) by (apply ap_R_lt, ap_tr_In, Hj).
      destruct (Nat.lt_trichotomy (tr i) (tr j)) as [Hlt|[E|Hgt]]; [apply Hnp; assumption|contradiction|].
      rewrite ap_same_pair_sym. apply Hnp; assumption.
  Qed.

  (* transport of the specification vocabulary *)
  Lemma ap_fwd_simple_cycle C : simple_cycle h C -> simple_cycle g (fwd C).
  Proof.
    intros HC. apply (rl_simple_cycle h g domR tr ap_nv_h ap_fwd_ends ap_fwd_inj C HC).
    apply ap_cs_h_dom, simple_cycle_in_cycle_space; [apply ap_sp_simple|exact HC].
  Qed.

  Lemma ap_bwd_cycle_space Z : in_cycle_space g Z -> Forall domE Z -> in_cycle_space h (bwd Z).
  Proof. apply (rl_cycle_space g h domE tri ap_bwd_ends ap_bwd_inj). Qed.

  Lemma ap_fwd_cycle_space C : in_cycle_space h C -> in_cycle_space g (fwd C).
  Proof.
    intros HC. apply (rl_cycle_space h g domR tr ap_fwd_ends ap_fwd_inj C HC). apply ap_cs_h_dom, HC.
  Qed.

  Lemma ap_bwd_simple_cycle Z : simple_cycle g Z -> Forall domE Z -> simple_cycle h (bwd Z).
  Proof. apply (rl_simple_cycle g h domE tri (eq_sym ap_nv_h) ap_bwd_ends ap_bwd_inj). Qed.

  (* weights: the spanner's weight map carries the caller's weights of the retained edges *)
  Variable w : list Z.

  Lemma ap_wt_h i : i < length R -> wt (spanner_weights w sp) i = wt w (tr i).
  Proof.
    intros Hi. unfold wt, spanner_weights, tr.
    rewrite (nth_indep _ 0%Z (nth 0 w 0%Z)) by (rewrite map_length; exact Hi).
    apply (map_nth (fun e => nth e w 0%Z)).
  Qed.

  Lemma ap_wt_g e : In e R -> wt w e = wt (spanner_weights w sp) (tri e).
  Proof. intros He. rewrite ap_wt_h by (apply ap_tri_lt, He). rewrite ap_tr_tri by exact He. reflexivity. Qed.

  Lemma ap_weight_map C : Forall domR C -> weight w (map tr C) = weight (spanner_weights w sp) C.
  Proof.
    induction 1 as [|i C Hi _ IH]; [reflexivity|]. cbn [map]. rewrite !rl_weight_cons, IH, ap_wt_h by exact Hi. reflexivity.
  Qed.

  Lemma ap_spanner_weights_length : length (spanner_weights w sp) = ne h.
  Proof. unfold spanner_weights. rewrite map_length, ap_ne_h. reflexivity. Qed.

  Lemma ap_spanner_weights_pos : Forall (fun x => (0 < x)%Z) w -> length w = ne g ->
    Forall (fun x => (0 < x)%Z) (spanner_weights w sp).
  Proof.
    intros Hpos Hlen. unfold spanner_weights. rewrite Forall_forall in *. intros x Hx.
    apply in_map_iff in Hx as (e & <- & He). apply Hpos, nth_In. rewrite Hlen. apply ap_R_lt, He.
  Qed.
End SpannerStructure.
