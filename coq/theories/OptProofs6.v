(* OptProofs6.v — lemmas for property C08, part 6: subdividing an edge into two edges of the same total weight
   does not change the optimum.
   g' = subdivide e g replaces e = (s, t) by e = (s, x) and the new last edge m = (x, t), x the new vertex.
   The cycle spaces are isomorphic (Z |-> Z plus m if it contains e; back: drop m), simple cycles correspond
   (a walk through e is expanded into two steps / the step over m is contracted), and weights are preserved when
   the two new weights add up to the old one; the transport principle of OptProofs4.v does the rest.
   Names carry the prefix op_.  No axioms. *)
From Coq Require Import List Arith Bool ZArith Lia Sorted.
From Parmcb Require Import GraphModel GF2Model GF2Proofs GraphSpec GraphLemmas GF2Lin McbSpec DePinaSpec DePinaProofs
     OptSpec OptProofs OptProofs2 OptProofs4 OptProofs5.
Import ListNotations.

(* ---- lists ------------------------------------------------------------------------------------------------------- *)

Lemma op_nth_error_set_nth_eq {A} (l : list A) : forall i v, i < length l ->
  nth_error (GraphModel.set_nth l i v) i = Some v.
Proof.
  induction l as [|y l IH]; intros i v Hi; [cbn [length] in Hi; lia|].
  destruct i as [|i]; [reflexivity|]. cbn [GraphModel.set_nth nth_error]. apply IH. cbn [length] in Hi. lia.
Qed.

Lemma op_nth_error_set_nth_neq {A} (l : list A) : forall i j v, j <> i ->
  nth_error (GraphModel.set_nth l i v) j = nth_error l j.
Proof.
  induction l as [|y l IH]; intros i j v Hne; [reflexivity|].
  destruct i as [|i]; cbn [GraphModel.set_nth].
  - destruct j as [|j]; [congruence|reflexivity].
  - destruct j as [|j]; [reflexivity|]. cbn [nth_error]. apply IH. lia.
Qed.

Lemma op_set_nth_length {A} (l : list A) : forall i v, length (GraphModel.set_nth l i v) = length l.
Proof.
  induction l as [|y l IH]; intros i v; [reflexivity|]. destruct i; cbn [GraphModel.set_nth length]; auto.
Qed.

Lemma op_sorted_snoc Z m : sorted Z -> (forall i, In i Z -> i < m) -> sorted (Z ++ [m]).
Proof.
  induction Z as [|z Z IH]; intros HS HB; [apply sorted_single|].
  apply sorted_inv in HS as [HS Hz]. cbn [app]. apply sorted_cons.
  - apply IH; [exact HS|]. intros i Hi. apply HB. right. exact Hi.
  - rewrite Forall_forall in *. intros y Hy. apply in_app_iff in Hy as [Hy|[<-|[]]]; [apply Hz, Hy|].
    apply HB. left. reflexivity.
Qed.

(* changing a function at one index changes a count over a duplicate-free list by that index only *)
Lemma op_count_change (f f' : nat -> bool) e Z : NoDup Z -> (forall i, In i Z -> i <> e -> f' i = f i) ->
  length (filter f' Z) + (if memb e Z then dp_b2n (f e) else 0) =
  length (filter f Z) + (if memb e Z then dp_b2n (f' e) else 0).
Proof.
  induction Z as [|z Z IH]; intros Hnd H; [reflexivity|].
  inversion Hnd as [|? ? Hz Hnd']; subst.
  assert (H' : forall i, In i Z -> i <> e -> f' i = f i) by (intros i Hi; apply H; right; exact Hi).
  specialize (IH Hnd' H'). unfold memb in *. cbn [existsb filter].
  destruct (Nat.eqb_spec e z) as [<-|Hne]; cbn [orb].
  - apply gl_memb_false in Hz. unfold memb in Hz. rewrite Hz in IH.
    destruct (f e), (f' e); cbn [length dp_b2n]; lia.
  - rewrite (H z) by (auto; left; reflexivity). destruct (f z); cbn [length]; lia.
Qed.

Lemma op_sum_change (f f' : nat -> Z) e Z : NoDup Z -> (forall i, In i Z -> i <> e -> f' i = f i) ->
  (fold_right Z.add 0 (map f' Z) + (if memb e Z then f e else 0) =
   fold_right Z.add 0 (map f Z) + (if memb e Z then f' e else 0))%Z.
Proof.
  induction Z as [|z Z IH]; intros Hnd H; [reflexivity|].
  inversion Hnd as [|? ? Hz Hnd']; subst.
  assert (H' : forall i, In i Z -> i <> e -> f' i = f i) by (intros i Hi; apply H; right; exact Hi).
  specialize (IH Hnd' H'). unfold memb in *. cbn [existsb map fold_right].
  destruct (Nat.eqb_spec e z) as [<-|Hne]; cbn [orb].
  - apply gl_memb_false in Hz. unfold memb in Hz. rewrite Hz in IH. lia.
  - rewrite (H z) by (auto; left; reflexivity). lia.
Qed.

Lemma op_filter_le_one (f : nat -> bool) e Z : NoDup Z -> (forall i, In i Z -> f i = true -> i = e) ->
  length (filter f Z) <= 1.
Proof.
  intros Hnd H. destruct (in_dec Nat.eq_dec e Z) as [Hin|Hnin].
  - destruct (f e) eqn:E.
    + rewrite (gl_filter_one f e Z); auto.
    + rewrite op_filter_none_length; [lia|]. intros i Hi. destruct (f i) eqn:Ei; [|reflexivity].
      rewrite (H i Hi Ei) in Ei. congruence.
  - rewrite op_filter_none_length; [lia|]. intros i Hi. destruct (f i) eqn:Ei; [|reflexivity].
    rewrite (H i Hi Ei) in Hi. contradiction.
Qed.

Lemma op_NoDup_snd_unique (p : list (nat * nat)) i j y :
  NoDup (map snd p) -> In (i, y) p -> In (j, y) p -> i = j.
Proof.
  induction p as [|[a b] p IH]; intros Hnd Hi Hj; [destruct Hi|].
  cbn [map snd] in Hnd. inversion Hnd as [|? ? Hb Hnd']; subst.
  destruct Hi as [Hi|Hi], Hj as [Hj|Hj].
  - congruence.
  - inversion Hi; subst. exfalso. apply Hb. apply in_map_iff. exists (j, y). auto.
  - inversion Hj; subst. exfalso. apply Hb. apply in_map_iff. exists (i, y). auto.
  - auto.
Qed.

Lemma op_NoDup_snd_filter (f : nat * nat -> bool) (p : list (nat * nat)) :
  NoDup (map snd p) -> NoDup (map snd (filter f p)).
Proof.
  induction p as [|a p IH]; intros Hnd; [constructor|]. cbn [map] in Hnd.
  inversion Hnd as [|? ? Ha Hnd']; subst. cbn [filter]. destruct (f a); [|auto].
  cbn [map]. constructor; [|auto]. intros Hin. apply Ha. apply in_map_iff in Hin as (b & Hb & Hbp).
  apply filter_In in Hbp as [Hbp _]. apply in_map_iff. exists b. auto.
Qed.

(* every step of a walk is an edge of the graph *)
Lemma op_walk_step_joins g a p z : walk g a p z -> forall i y, In (i, y) p -> exists a', joins g i a' y.
Proof.
  induction 1 as [x Hx|x e y p z Hxy Hw IH]; intros i v Hin; [destruct Hin|].
  destruct Hin as [Hin|Hin]; [inversion Hin; subst; eauto|eauto].
Qed.

(* ---- replacing every step of a walk by a walk ------------------------------------------------------------------- *)

Fixpoint op_subst (F : nat -> nat * nat -> list (nat * nat)) (a : nat) (p : list (nat * nat)) : list (nat * nat) :=
  match p with
  | [] => []
  | ib :: r => F a ib ++ op_subst F (snd ib) r
  end.

Lemma op_walk_subst g1 g2 (phi : nat -> nat) F a p z :
  (forall a i b, In i (wedges p) -> joins g1 i a b -> walk g2 (phi a) (F a (i, b)) (phi b)) ->
  phi z < nv g2 -> walk g1 a p z -> walk g2 (phi a) (op_subst F a p) (phi z).
Proof.
  intros HF Hz Hw. induction Hw as [x Hx|x e y p z Hxy Hw IH].
  - constructor. exact Hz.
  - cbn [op_subst snd]. eapply gl_walk_app.
    + apply HF; [left; reflexivity|exact Hxy].
    + apply IH; [|exact Hz]. intros a i b Hi. apply HF. right. exact Hi.
Qed.

(* ---- the subdivided graph ------------------------------------------------------------------------------------------ *)

Section Subdivide.
  Variables (g : graph) (e s t : nat).
  Hypothesis Hs : simple_graph g.
  Hypothesis He : ends g e = Some (s, t).

  Let x := nv g.
  Let m := ne g.
  Definition op_sub_graph : graph :=
    {| nv := nv g + 1; ge := GraphModel.set_nth (ge g) e (s, nv g) ++ [(nv g, t)] |}.
  Let g' := op_sub_graph.

  Lemma op_subdivide_eq : subdivide e g = op_sub_graph.
  Proof. unfold subdivide. rewrite He. reflexivity. Qed.

  Lemma op_sub_e_lt : e < ne g.
  Proof. eapply gl_ends_lt; eauto. Qed.

  Lemma op_sub_st : s < nv g /\ t < nv g /\ s <> t.
  Proof. apply (gl_simple_ends g e s t Hs He). Qed.

  Lemma op_sub_ne : ne g' = ne g + 1.
  Proof. unfold ne, g', op_sub_graph. cbn [ge]. rewrite app_length, op_set_nth_length. reflexivity. Qed.

  Lemma op_sub_ends_old i : i < ne g -> i <> e -> ends g' i = ends g i.
  Proof.
    intros Hi Hne. unfold ends, g', op_sub_graph. cbn [ge].
    rewrite nth_error_app1 by (rewrite op_set_nth_length; exact Hi). apply op_nth_error_set_nth_neq. exact Hne.
  Qed.

  Lemma op_sub_ends_e : ends g' e = Some (s, nv g).
  Proof.
    pose proof op_sub_e_lt as Hlt. unfold ends, g', op_sub_graph. cbn [ge].
    rewrite nth_error_app1 by (rewrite op_set_nth_length; exact Hlt). apply op_nth_error_set_nth_eq. exact Hlt.
  Qed.

  Lemma op_sub_ends_m : ends g' (ne g) = Some (nv g, t).
  Proof.
    unfold ends, g', op_sub_graph. cbn [ge].
    rewrite nth_error_app2 by (rewrite op_set_nth_length; unfold ne; lia).
    rewrite op_set_nth_length. unfold ne. rewrite Nat.sub_diag. reflexivity.
  Qed.

  Lemma op_sub_joins_old i a b : i < ne g -> i <> e -> (joins g' i a b <-> joins g i a b).
  Proof. intros Hi Hne. unfold joins. rewrite op_sub_ends_old by assumption. reflexivity. Qed.

  Lemma op_sub_incident_old i v : i < ne g -> i <> e -> incident g' i v = incident g i v.
  Proof. intros Hi Hne. unfold incident. rewrite op_sub_ends_old by assumption. reflexivity. Qed.

  Lemma op_sub_incident_e v : incident g' e v = Nat.eqb s v || Nat.eqb (nv g) v.
  Proof. unfold incident. rewrite op_sub_ends_e. reflexivity. Qed.

  Lemma op_sub_incident_m v : incident g' (ne g) v = Nat.eqb (nv g) v || Nat.eqb t v.
  Proof. unfold incident. rewrite op_sub_ends_m. reflexivity. Qed.

  Lemma op_sub_incident_g_e v : incident g e v = Nat.eqb s v || Nat.eqb t v.
  Proof. unfold incident. rewrite He. reflexivity. Qed.

  (* the three kinds of edges of g' *)
  Lemma op_sub_joins_cases i a b : joins g' i a b ->
    (i < ne g /\ i <> e /\ joins g i a b /\ a < nv g /\ b < nv g) \/
    (i = e /\ ((a = s /\ b = nv g) \/ (a = nv g /\ b = s))) \/
    (i = ne g /\ ((a = nv g /\ b = t) \/ (a = t /\ b = nv g))).
  Proof.
    intros Hj. assert (Hi : i < ne g + 1) by (rewrite <- op_sub_ne; eapply gl_joins_lt; eauto).
    destruct (Nat.eq_dec i e) as [->|Hne].
    - right; left. split; [reflexivity|]. unfold joins in Hj. rewrite op_sub_ends_e in Hj.
      destruct Hj as [Hj|Hj]; inversion Hj; subst; auto.
    - destruct (Nat.eq_dec i (ne g)) as [->|Hne'].
      + right; right. split; [reflexivity|]. unfold joins in Hj. rewrite op_sub_ends_m in Hj.
        destruct Hj as [Hj|Hj]; inversion Hj; subst; auto.
      + left. assert (Hlt : i < ne g) by lia. apply op_sub_joins_old in Hj; auto.
        destruct (gl_simple_joins g i a b Hs Hj) as (Ha & Hb & _). auto.
  Qed.

  Lemma op_In_set_nth {A} (l : list A) : forall i v p, In p (GraphModel.set_nth l i v) -> p = v \/ In p l.
  Proof.
    induction l as [|y l IH]; intros i v p Hin; [destruct Hin|].
    destruct i as [|i]; cbn [GraphModel.set_nth] in Hin.
    - destruct Hin as [<-|Hin]; [left; reflexivity|right; right; exact Hin].
    - destruct Hin as [<-|Hin]; [right; left; reflexivity|].
      destruct (IH i v p Hin) as [->|H]; [left; reflexivity|right; right; exact H].
  Qed.

  Lemma op_sub_simple : simple_graph g'.
  Proof.
    destruct op_sub_st as (Hsn & Htn & Hst). pose proof Hs as Hs0.
    unfold simple_graph, simpleb in Hs0 |- *. apply andb_true_iff in Hs0 as [H1 H2].
    apply andb_true_iff. split.
    - unfold g', op_sub_graph. cbn [nv ge]. rewrite forallb_forall in *. intros p Hp.
      assert (Hok : forall a b, a < nv g + 1 -> b < nv g + 1 -> a <> b ->
                (a <? nv g + 1) && (b <? nv g + 1) && negb (a =? b) = true).
      { intros a b Ha Hb Hab. apply andb_true_iff. split; [apply andb_true_iff; split; apply Nat.ltb_lt; assumption|].
        apply negb_true_iff, Nat.eqb_neq. exact Hab. }
      apply in_app_iff in Hp as [Hp|[<-|[]]].
      + apply op_In_set_nth in Hp as [->|Hp]; [cbn [fst snd]; apply Hok; lia|].
        specialize (H1 p Hp). apply andb_true_iff in H1 as [H1 Hne]. apply andb_true_iff in H1 as [Ha Hb].
        apply Nat.ltb_lt in Ha, Hb. apply negb_true_iff, Nat.eqb_neq in Hne. apply Hok; lia.
      + cbn [fst snd]. apply Hok; lia.
    - apply op_no_parallel_intro. intros i j p q Hij Hi Hj.
      change (nth_error (ge g') i) with (ends g' i) in Hi. change (nth_error (ge g') j) with (ends g' j) in Hj.
      destruct p as [a b], q as [c d].
      assert (Jp : joins g' i a b) by (left; exact Hi). assert (Jq : joins g' j c d) by (left; exact Hj).
      assert (Hsp : same_pair (a, b) (c, d) = true -> (a = c /\ b = d) \/ (a = d /\ b = c)).
      { unfold same_pair. cbn [fst snd]. intros E. apply orb_true_iff in E as [E|E];
          apply andb_true_iff in E as [E1 E2]; apply Nat.eqb_eq in E1, E2; auto. }
      destruct (same_pair (a, b) (c, d)) eqn:E; [exfalso|reflexivity]. specialize (Hsp eq_refl).
      destruct (op_sub_joins_cases i a b Jp) as [(Hi1 & Hi2 & Ji & Ha & Hb)|[(-> & Ci)|(-> & Ci)]];
      destruct (op_sub_joins_cases j c d Jq) as [(Hj1 & Hj2 & Jj & Hc & Hd)|[(-> & Cj)|(-> & Cj)]]; try lia.
      rewrite op_sub_ends_old in Hi, Hj by assumption.
      assert (F : same_pair (a, b) (c, d) = false); [|congruence].
      eapply (op_no_parallel_elim (ge g) H2 i j); eauto.
  Qed.

  (* ---- the two maps between the cycle spaces ------------------------------------------------------------------ *)

  Definition op_sub_phi (Z : vec) : vec := if mem Z e then Z ++ [ne g] else Z.
  Definition op_sub_psi (Z : vec) : vec := res (ne g) Z.

  Lemma op_mem_snoc Z k i : mem (Z ++ [k]) i = mem Z i || Nat.eqb i k.
  Proof. unfold mem. rewrite existsb_app. cbn [existsb]. rewrite orb_false_r. reflexivity. Qed.

  Lemma op_sub_phi_sorted Z : sorted Z -> (forall i, In i Z -> i < ne g) -> sorted (op_sub_phi Z).
  Proof. intros HS HB. unfold op_sub_phi. destruct (mem Z e); [apply op_sorted_snoc; assumption|exact HS]. Qed.

  Lemma op_sub_phi_mem Z i : mem (op_sub_phi Z) i = mem Z i || (Nat.eqb i (ne g) && mem Z e).
  Proof.
    unfold op_sub_phi. destruct (mem Z e); [rewrite op_mem_snoc, andb_true_r; reflexivity|].
    rewrite andb_false_r, orb_false_r. reflexivity.
  Qed.

  Lemma op_mem_bounded_false Z k i : (forall j, In j Z -> j < k) -> k <= i -> mem Z i = false.
  Proof.
    intros HB Hi. destruct (mem Z i) eqn:E; [|reflexivity]. apply mem_In in E. apply HB in E. lia.
  Qed.

  Lemma op_sub_phi_add a b : in_cycle_space g a -> in_cycle_space g b ->
    op_sub_phi (vadd a b) = vadd (op_sub_phi a) (op_sub_phi b).
  Proof.
    intros (Sa & Ba & _) (Sb & Bb & _).
    assert (Bab : forall i, In i (vadd a b) -> i < ne g).
    { intros i Hi. apply mem_In in Hi. rewrite vadd_mem in Hi by assumption.
      destruct (mem a i) eqn:Ea; [apply Ba, mem_In; exact Ea|].
      destruct (mem b i) eqn:Eb; [apply Bb, mem_In; exact Eb|discriminate]. }
    apply sorted_ext; auto using op_sub_phi_sorted, vadd_sorted.
    intros i. rewrite vadd_mem by auto using op_sub_phi_sorted.
    rewrite !op_sub_phi_mem, !vadd_mem by assumption.
    destruct (Nat.eqb_spec i (ne g)) as [->|Hne]; cbn [andb].
    - rewrite (op_mem_bounded_false a (ne g) (ne g)), (op_mem_bounded_false b (ne g) (ne g)) by auto.
      destruct (mem a e), (mem b e); reflexivity.
    - rewrite !orb_false_r. reflexivity.
  Qed.

  Lemma op_sub_psi_phi Z : in_cycle_space g Z -> op_sub_psi (op_sub_phi Z) = Z.
  Proof.
    intros (HS & HB & _). unfold op_sub_psi.
    apply sorted_ext; [apply res_sorted, op_sub_phi_sorted; assumption|exact HS|].
    intros i. rewrite res_mem, op_sub_phi_mem. destruct (Nat.ltb_spec i (ne g)) as [Hi|Hi].
    - destruct (Nat.eqb_spec i (ne g)); [lia|]. cbn [andb]. rewrite orb_false_r, andb_true_r. reflexivity.
    - rewrite andb_false_r. symmetry. apply (op_mem_bounded_false Z (ne g)); assumption.
  Qed.

  (* degrees in g' of the image of an element of the cycle space of g *)
  Lemma op_sub_deg_phi Z v : in_cycle_space g Z ->
    deg_in g' (op_sub_phi Z) v = deg_in g Z v + 2 * (if mem Z e then dp_b2n (Nat.eqb (nv g) v) else 0).
  Proof.
    intros (HS & HB & _). destruct op_sub_st as (Hsn & Htn & Hst).
    pose proof (op_count_change (fun i => incident g i v) (fun i => incident g' i v) e Z (gl_sorted_NoDup Z HS)) as Hc.
    assert (Hsame : forall i, In i Z -> i <> e -> incident g' i v = incident g i v).
    { intros i Hi Hne. apply op_sub_incident_old; [apply HB; exact Hi|exact Hne]. }
    specialize (Hc Hsame). change (memb e Z) with (mem Z e) in Hc.
    unfold op_sub_phi. destruct (mem Z e) eqn:E.
    - unfold deg_in in *. rewrite filter_app, app_length. cbn [filter].
      rewrite op_sub_incident_e, op_sub_incident_g_e in Hc. rewrite op_sub_incident_m.
      destruct (Nat.eqb_spec s v), (Nat.eqb_spec t v), (Nat.eqb_spec (nv g) v); cbn [orb dp_b2n length] in *; lia.
    - rewrite Nat.mul_0_r, Nat.add_0_r. unfold deg_in in *. lia.
  Qed.

  Lemma op_sub_phi_cs Z : in_cycle_space g Z -> in_cycle_space g' (op_sub_phi Z).
  Proof.
    intros HZ. pose proof HZ as (HS & HB & HE). split; [apply op_sub_phi_sorted; assumption|]. split.
    - intros i Hi. apply mem_In in Hi. rewrite op_sub_phi_mem in Hi. rewrite op_sub_ne.
      apply orb_true_iff in Hi as [Hi|Hi]; [apply mem_In, HB in Hi; lia|].
      apply andb_true_iff in Hi as [Hi _]. apply Nat.eqb_eq in Hi. lia.
    - intros v. rewrite (op_sub_deg_phi Z v HZ), Nat.even_add_mul_2. apply HE.
  Qed.

  (* the elements of the cycle space of g' contain e and the new edge together *)
  Lemma op_sub_hi Z' : sorted Z' -> (forall i, In i Z' -> i < ne g + 1) ->
    op_hi (ne g) Z' = if mem Z' (ne g) then [ne g] else [].
  Proof.
    intros HS HB. apply sorted_ext; [apply op_hi_sorted; exact HS|destruct (mem Z' (ne g)); [apply sorted_single|apply sorted_nil]|].
    intros i. rewrite op_hi_mem. destruct (Nat.leb_spec (ne g) i) as [Hi|Hi].
    - rewrite andb_true_r. destruct (Nat.eq_dec i (ne g)) as [->|Hne].
      + destruct (mem Z' (ne g)); [cbn; rewrite Nat.eqb_refl; reflexivity|reflexivity].
      + rewrite (op_mem_bounded_false Z' (ne g + 1) i) by (auto; lia).
        destruct (mem Z' (ne g)); [|reflexivity]. cbn. destruct (Nat.eqb_spec i (ne g)); [lia|reflexivity].
    - rewrite andb_false_r. destruct (mem Z' (ne g)); [|reflexivity]. cbn. destruct (Nat.eqb_spec i (ne g)); [lia|reflexivity].
  Qed.

  Lemma op_sub_deg_psi Z' v : sorted Z' -> (forall i, In i Z' -> i < ne g + 1) ->
    deg_in g' Z' v + (if mem Z' e then dp_b2n (incident g e v) else 0) =
    deg_in g (op_sub_psi Z') v + (if mem Z' e then dp_b2n (incident g' e v) else 0)
                               + (if mem Z' (ne g) then dp_b2n (incident g' (ne g) v) else 0).
  Proof.
    intros HS HB. pose proof op_sub_e_lt as Hlt. unfold op_sub_psi, deg_in.
    rewrite (op_filter_split_length (fun i => incident g' i v) (ne g) Z'). rewrite (op_sub_hi Z' HS HB).
    pose proof (op_count_change (fun i => incident g i v) (fun i => incident g' i v) e (res (ne g) Z')
                  (gl_sorted_NoDup _ (res_sorted _ _ HS))) as Hc.
    assert (Hsame : forall i, In i (res (ne g) Z') -> i <> e -> incident g' i v = incident g i v).
    { intros i Hi Hne. apply op_sub_incident_old; [|exact Hne]. apply filter_In in Hi as [_ Hi]. apply Nat.ltb_lt; exact Hi. }
    specialize (Hc Hsame). change (memb e (res (ne g) Z')) with (mem (res (ne g) Z') e) in Hc.
    rewrite res_mem in Hc. apply Nat.ltb_lt in Hlt. rewrite Hlt, andb_true_r in Hc.
    destruct (mem Z' (ne g)); cbn [filter]; [destruct (incident g' (ne g) v)|]; cbn [length dp_b2n]; lia.
  Qed.

  Lemma op_sub_both Z' : in_cycle_space g' Z' -> mem Z' e = mem Z' (ne g).
  Proof.
    intros (HS & HB & HE). rewrite op_sub_ne in HB. destruct op_sub_st as (Hsn & Htn & Hst).
    pose proof (op_sub_deg_psi Z' (nv g) HS HB) as Hd. specialize (HE (nv g)).
    rewrite (op_deg_in_out_of_range g _ (nv g)) in Hd by (auto using op_simple_ends_in_range).
    rewrite op_sub_incident_e, op_sub_incident_m, op_sub_incident_g_e in Hd.
    rewrite Nat.eqb_refl in Hd. destruct (Nat.eqb_spec s (nv g)); [lia|]. destruct (Nat.eqb_spec t (nv g)); [lia|].
    cbn [orb dp_b2n] in Hd.
    destruct (mem Z' e), (mem Z' (ne g)); try reflexivity; exfalso.
    - assert (E : deg_in g' Z' (nv g) = 1) by lia. rewrite E in HE. discriminate.
    - assert (E : deg_in g' Z' (nv g) = 1) by lia. rewrite E in HE. discriminate.
  Qed.

  Lemma op_sub_psi_cs Z' : in_cycle_space g' Z' -> in_cycle_space g (op_sub_psi Z').
  Proof.
    intros HZ. pose proof HZ as (HS & HB & HE). rewrite op_sub_ne in HB. destruct op_sub_st as (Hsn & Htn & Hst).
    split; [apply res_sorted; exact HS|]. split.
    - intros i Hi. apply filter_In in Hi as [_ Hi]. apply Nat.ltb_lt. exact Hi.
    - intros v. pose proof (op_sub_deg_psi Z' v HS HB) as Hd. rewrite <- (op_sub_both Z' HZ) in Hd.
      rewrite op_sub_incident_e, op_sub_incident_m, op_sub_incident_g_e in Hd. specialize (HE v).
      assert (E : deg_in g' Z' v = deg_in g (op_sub_psi Z') v + 2 * (if mem Z' e then dp_b2n (Nat.eqb (nv g) v) else 0)).
      { destruct (mem Z' e); [|lia].
        destruct (Nat.eqb_spec s v), (Nat.eqb_spec t v), (Nat.eqb_spec (nv g) v); cbn [orb dp_b2n] in *; lia. }
      rewrite E, Nat.even_add_mul_2 in HE. exact HE.
  Qed.

  Lemma op_sub_phi_psi Z' : in_cycle_space g' Z' -> op_sub_phi (op_sub_psi Z') = Z'.
  Proof.
    intros HZ. pose proof HZ as (HS & HB & _). rewrite op_sub_ne in HB. pose proof op_sub_e_lt as Hlt.
    assert (HBr : forall i, In i (res (ne g) Z') -> i < ne g).
    { intros i Hi. apply filter_In in Hi as [_ Hi]. apply Nat.ltb_lt. exact Hi. }
    apply sorted_ext; [apply op_sub_phi_sorted; [apply res_sorted; exact HS|exact HBr]|exact HS|].
    intros i. rewrite op_sub_phi_mem. unfold op_sub_psi. rewrite !res_mem.
    apply Nat.ltb_lt in Hlt. rewrite Hlt, andb_true_r, (op_sub_both Z' HZ).
    destruct (Nat.eqb_spec i (ne g)) as [->|Hne]; cbn [andb].
    - rewrite Nat.ltb_irrefl, andb_false_r. reflexivity.
    - rewrite orb_false_r. destruct (Nat.ltb_spec i (ne g)) as [Hi|Hi]; [apply andb_true_r|].
      rewrite andb_false_r. symmetry. apply (op_mem_bounded_false Z' (ne g + 1)); [exact HB|lia].
  Qed.

  (* ---- simple cycles, forward: the step over e becomes two steps through the new vertex ------------------------ *)

  Definition op_fwd (a : nat) (ib : nat * nat) : list (nat * nat) :=
    if Nat.eqb (fst ib) e
    then (if Nat.eqb a s then [(e, nv g); (ne g, snd ib)] else [(ne g, nv g); (e, snd ib)])
    else [ib].

  Lemma op_fwd_step a i b : joins g i a b -> walk g' a (op_fwd a (i, b)) b.
  Proof.
    intros Hj. destruct op_sub_st as (Hsn & Htn & Hst). unfold op_fwd. cbn [fst snd].
    assert (Hb : b < nv g').
    { destruct (gl_simple_joins g i a b Hs Hj) as (_ & Hb & _). unfold g', op_sub_graph. cbn [nv]. lia. }
    destruct (Nat.eqb_spec i e) as [->|Hne].
    - assert (Hab : (a = s /\ b = t) \/ (a = t /\ b = s)).
      { unfold joins in Hj. rewrite He in Hj. destruct Hj as [Hj|Hj]; inversion Hj; auto. }
      destruct (Nat.eqb_spec a s) as [->|Hne].
      + assert (b = t) by lia. subst b.
        econstructor; [left; apply op_sub_ends_e|]. econstructor; [left; apply op_sub_ends_m|]. constructor. exact Hb.
      + assert (Hab' : a = t /\ b = s) by lia. destruct Hab' as [-> ->].
        econstructor; [right; apply op_sub_ends_m|]. econstructor; [right; apply op_sub_ends_e|]. constructor. exact Hb.
    - econstructor; [|constructor; exact Hb]. apply op_sub_joins_old; auto. eapply gl_joins_lt; eauto.
  Qed.

  Lemma op_wedges_app p q : wedges (p ++ q) = wedges p ++ wedges q.
  Proof. unfold wedges. apply map_app. Qed.

  Lemma op_wverts_app p q : wverts (p ++ q) = wverts p ++ wverts q.
  Proof. unfold wverts. apply map_app. Qed.

  Lemma op_fwd_edges a i b :
    wedges (op_fwd a (i, b)) = if Nat.eqb i e then (if Nat.eqb a s then [e; ne g] else [ne g; e]) else [i].
  Proof. unfold op_fwd. cbn [fst snd]. destruct (Nat.eqb i e); [destruct (Nat.eqb a s)|]; reflexivity. Qed.

  Lemma op_fwd_verts a i b : wverts (op_fwd a (i, b)) = if Nat.eqb i e then [nv g; b] else [b].
  Proof. unfold op_fwd. cbn [fst snd]. destruct (Nat.eqb i e); [destruct (Nat.eqb a s)|]; reflexivity. Qed.

  Lemma op_fwd_edges_In j : forall p a,
    In j (wedges (op_subst op_fwd a p)) <-> In j (wedges p) \/ (j = ne g /\ In e (wedges p)).
  Proof.
    induction p as [|[i b] r IH]; intros a; [cbn; tauto|].
    cbn [op_subst snd]. rewrite op_wedges_app, in_app_iff, (IH b), op_fwd_edges.
    change (wedges ((i, b) :: r)) with (i :: wedges r). cbn [In].
    destruct (Nat.eqb_spec i e) as [->|Hne]; [destruct (Nat.eqb a s)|]; cbn [In]; intuition congruence.
  Qed.

  Lemma op_fwd_verts_In v : forall p a,
    In v (wverts (op_subst op_fwd a p)) <-> In v (wverts p) \/ (v = nv g /\ In e (wedges p)).
  Proof.
    induction p as [|[i b] r IH]; intros a; [cbn; tauto|].
    cbn [op_subst snd]. rewrite op_wverts_app, in_app_iff, (IH b), op_fwd_verts.
    change (wedges ((i, b) :: r)) with (i :: wedges r). change (wverts ((i, b) :: r)) with (b :: wverts r). cbn [In].
    destruct (Nat.eqb_spec i e) as [->|Hne]; cbn [In]; intuition congruence.
  Qed.

  Lemma op_fwd_edges_NoDup : forall p a, NoDup (wedges p) -> (forall i, In i (wedges p) -> i < ne g) ->
    NoDup (wedges (op_subst op_fwd a p)).
  Proof.
    pose proof op_sub_e_lt as Hlt.
    induction p as [|[i b] r IH]; intros a Hnd HB; [constructor|].
    change (wedges ((i, b) :: r)) with (i :: wedges r) in Hnd, HB. inversion Hnd as [|? ? Hi Hnd']; subst.
    assert (HB' : forall j, In j (wedges r) -> j < ne g) by (intros j Hj; apply HB; right; exact Hj).
    specialize (IH b Hnd' HB'). pose proof (HB i (or_introl eq_refl)) as Hib.
    cbn [op_subst snd]. rewrite op_wedges_app, op_fwd_edges.
    assert (Hnot : forall j, j < ne g -> ~ In j (wedges r) -> ~ In j (wedges (op_subst op_fwd b r))).
    { intros j Hj Hn Hin. apply op_fwd_edges_In in Hin. destruct Hin as [Hin|[Hin _]]; [auto|lia]. }
    destruct (Nat.eqb_spec i e) as [->|Hne].
    - assert (Hm : ~ In (ne g) (wedges (op_subst op_fwd b r))).
      { intros Hin. apply op_fwd_edges_In in Hin. destruct Hin as [Hin|[_ Hin]]; [apply HB' in Hin; lia|auto]. }
      assert (Hee : ~ In e (wedges (op_subst op_fwd b r))) by (apply Hnot; assumption).
      destruct (Nat.eqb a s); cbn [app].
      + constructor; [cbn [In]; intros [H|H]; [lia|exact (Hee H)]|]. constructor; assumption.
      + constructor; [cbn [In]; intros [H|H]; [lia|exact (Hm H)]|]. constructor; assumption.
    - cbn [app]. constructor; auto.
  Qed.

  Lemma op_fwd_verts_NoDup : forall p a, NoDup (wverts p) -> NoDup (wedges p) ->
    (forall v, In v (wverts p) -> v < nv g) -> NoDup (wverts (op_subst op_fwd a p)).
  Proof.
    induction p as [|[i b] r IH]; intros a Hnd Hnde HB; [constructor|].
    change (wedges ((i, b) :: r)) with (i :: wedges r) in Hnde.
    change (wverts ((i, b) :: r)) with (b :: wverts r) in Hnd, HB.
    inversion Hnd as [|? ? Hb Hnd']; subst. inversion Hnde as [|? ? Hi Hnde']; subst.
    assert (HB' : forall v, In v (wverts r) -> v < nv g) by (intros v Hv; apply HB; right; exact Hv).
    specialize (IH b Hnd' Hnde' HB'). pose proof (HB b (or_introl eq_refl)) as Hbb.
    cbn [op_subst snd]. rewrite op_wverts_app, op_fwd_verts.
    assert (Hnot : forall v, v < nv g -> ~ In v (wverts r) -> ~ In v (wverts (op_subst op_fwd b r))).
    { intros v Hv Hn Hin. apply op_fwd_verts_In in Hin. destruct Hin as [Hin|[Hin _]]; [auto|lia]. }
    destruct (Nat.eqb_spec i e) as [->|Hne].
    - assert (Hx : ~ In (nv g) (wverts (op_subst op_fwd b r))).
      { intros Hin. apply op_fwd_verts_In in Hin. destruct Hin as [Hin|[_ Hin]]; [apply HB' in Hin; lia|auto]. }
      assert (Hbb' : ~ In b (wverts (op_subst op_fwd b r))) by (apply Hnot; assumption).
      cbn [app]. constructor; [cbn [In]; intros [H|H]; [lia|exact (Hx H)]|]. constructor; assumption.
    - cbn [app]. constructor; auto.
  Qed.

  Lemma op_sub_phi_In C j : In j (op_sub_phi C) <-> In j C \/ (j = ne g /\ In e C).
  Proof.
    rewrite <- !mem_In, op_sub_phi_mem, orb_true_iff, andb_true_iff, Nat.eqb_eq. reflexivity.
  Qed.

  Lemma op_sub_phi_sc C : simple_cycle g C -> simple_cycle g' (op_sub_phi C).
  Proof.
    intros HC. pose proof HC as (Hne & HS & x0 & p & Hw & Hnde & Hndv & HE).
    assert (HBe : forall i, In i (wedges p) -> i < ne g) by (intros i Hi; eapply gl_walk_edges_lt; eauto).
    assert (HBc : forall i, In i C -> i < ne g) by (intros i Hi; apply HBe, HE, Hi).
    assert (Hp : p <> []).
    { intros ->. destruct C as [|c C]; [congruence|]. destruct (HE c) as [H _]. apply H. left; reflexivity. }
    assert (Hx0 : x0 < nv g).
    { destruct (op_walk_first g x0 p x0 Hw Hp) as (i & y & _ & Hxy). apply (gl_simple_joins g i x0 y Hs Hxy). }
    assert (HBv : forall v, In v (wverts p) -> v < nv g).
    { intros v Hv. destruct (op_walk_verts_endpoint g x0 p x0 Hw v Hv) as (i & a & _ & Hj).
      apply (gl_simple_joins g i v a Hs Hj). }
    split; [|split; [apply op_sub_phi_sorted; assumption|]].
    - destruct C as [|c C]; [congruence|]. intros E.
      assert (Hin : In c (op_sub_phi (c :: C))) by (apply op_sub_phi_In; left; left; reflexivity).
      rewrite E in Hin. destruct Hin.
    - exists x0, (op_subst op_fwd x0 p). split; [|split; [|split]].
      + apply (op_walk_subst g g' (fun v => v) op_fwd x0 p x0); [| |exact Hw].
        * intros a i b _ Hj. apply op_fwd_step. exact Hj.
        * unfold g', op_sub_graph. cbn [nv]. lia.
      + apply op_fwd_edges_NoDup; assumption.
      + apply op_fwd_verts_NoDup; assumption.
      + intros j. rewrite op_sub_phi_In, op_fwd_edges_In, !HE. reflexivity.
  Qed.

  (* ---- simple cycles, backward: the new vertex is contracted into t, the step over the new edge disappears -------- *)

  Definition op_con (v : nat) : nat := if Nat.eqb v (nv g) then t else v.
  Definition op_bwd (a : nat) (ib : nat * nat) : list (nat * nat) :=
    if Nat.eqb (fst ib) (ne g) then [] else [(fst ib, op_con (snd ib))].

  Lemma op_con_lt v : v < nv g + 1 -> op_con v < nv g.
  Proof. destruct op_sub_st as (Hsn & Htn & Hst). unfold op_con. destruct (Nat.eqb_spec v (nv g)); lia. Qed.

  Lemma op_bwd_step a i b : joins g' i a b -> walk g (op_con a) (op_bwd a (i, b)) (op_con b).
  Proof.
    intros Hj. destruct op_sub_st as (Hsn & Htn & Hst). pose proof op_sub_e_lt as Hlt.
    unfold op_bwd, op_con. cbn [fst snd].
    destruct (op_sub_joins_cases i a b Hj) as [(Hi & Hne & Jg & Ha & Hb)|[(-> & C)|(-> & C)]].
    - destruct (Nat.eqb_spec i (ne g)); [lia|]. destruct (Nat.eqb_spec a (nv g)); [lia|].
      destruct (Nat.eqb_spec b (nv g)); [lia|]. econstructor; [exact Jg|constructor; exact Hb].
    - destruct (Nat.eqb_spec e (ne g)); [lia|]. destruct C as [[-> ->]|[-> ->]]; rewrite Nat.eqb_refl;
        (destruct (Nat.eqb_spec s (nv g)); [lia|]).
      + econstructor; [left; exact He|constructor; exact Htn].
      + econstructor; [right; exact He|constructor; exact Hsn].
    - rewrite Nat.eqb_refl. destruct C as [[-> ->]|[-> ->]]; rewrite Nat.eqb_refl;
        (destruct (Nat.eqb_spec t (nv g)); [lia|]); constructor; exact Htn.
  Qed.

  Definition op_keep (ib : nat * nat) : bool := negb (Nat.eqb (fst ib) (ne g)).

  Lemma op_bwd_edges : forall p a,
    wedges (op_subst op_bwd a p) = filter (fun i => negb (Nat.eqb i (ne g))) (wedges p).
  Proof.
    induction p as [|[i b] r IH]; intros a; [reflexivity|].
    cbn [op_subst snd]. rewrite op_wedges_app, (IH b). change (wedges ((i, b) :: r)) with (i :: wedges r).
    cbn [filter]. unfold op_bwd. cbn [fst snd]. destruct (Nat.eqb i (ne g)); reflexivity.
  Qed.

  Lemma op_bwd_verts : forall p a,
    wverts (op_subst op_bwd a p) = map op_con (map snd (filter op_keep p)).
  Proof.
    induction p as [|[i b] r IH]; intros a; [reflexivity|].
    cbn [op_subst snd]. rewrite op_wverts_app, (IH b). cbn [filter]. unfold op_keep at 2, op_bwd. cbn [fst snd].
    destruct (Nat.eqb i (ne g)); reflexivity.
  Qed.

  Lemma op_filter_pos {A} (f : A -> bool) l y : In y l -> f y = true -> 1 <= length (filter f l).
  Proof.
    intros Hin Hf. assert (H : In y (filter f l)) by (apply filter_In; auto).
    destruct (filter f l); [destruct H|cbn [length]; lia].
  Qed.

  (* in a simple closed walk of g', a kept step into the new vertex excludes a kept step into t *)
  Lemma op_bwd_excl x0 p : walk g' x0 p x0 -> NoDup (wedges p) -> NoDup (wverts p) ->
    In (nv g) (map snd (filter op_keep p)) -> In t (map snd (filter op_keep p)) -> False.
  Proof.
    intros Hw Hnde Hndv Hx Ht. destruct op_sub_st as (Hsn & Htn & Hst). pose proof op_sub_e_lt as Hlt.
    apply in_map_iff in Hx as ([i y] & Ey & Hx). cbn [snd] in Ey. subst y.
    apply filter_In in Hx as [Hx Hk]. unfold op_keep in Hk. cbn [fst] in Hk.
    apply negb_true_iff, Nat.eqb_neq in Hk.
    assert (Ei : i = e).
    { destruct (op_walk_step_joins g' x0 p x0 Hw i (nv g) Hx) as (a' & Hj).
      destruct (op_sub_joins_cases i a' (nv g) Hj) as [(_ & _ & _ & _ & Hb)|[(-> & _)|(-> & _)]]; [lia|reflexivity|congruence]. }
    subst i.
    assert (Hm : In (ne g) (wedges p)).
    { destruct (in_dec Nat.eq_dec (ne g) (wedges p)) as [H|Hn]; [exact H|exfalso].
      pose proof (dp_walk_degree g' op_sub_simple x0 p x0 Hw (nv g)) as Hd.
      assert (H1 : length (filter (fun i => incident g' i (nv g)) (wedges p)) <= 1).
      { apply (op_filter_le_one _ e); [exact Hnde|]. intros i Hi Hinc.
        destruct (Nat.eq_dec i e) as [E|Ne]; [exact E|exfalso].
        assert (Hib : i < ne g + 1) by (rewrite <- op_sub_ne; eapply gl_walk_edges_lt; eauto).
        assert (Hne' : i <> ne g) by (intros ->; auto).
        rewrite op_sub_incident_old in Hinc by lia.
        rewrite op_incident_out_of_range in Hinc; [discriminate|apply op_simple_ends_in_range; exact Hs|lia]. }
      assert (H2 : 1 <= length (filter (fun y => Nat.eqb y (nv g)) (wverts p))).
      { apply (op_filter_pos _ _ (nv g)); [|apply Nat.eqb_refl].
        unfold wverts. apply in_map_iff. exists (e, nv g). auto. }
      lia. }
    unfold wedges in Hm. apply in_map_iff in Hm as ([j y] & Ej & Hm). cbn [fst] in Ej. subst j.
    destruct (op_walk_step_joins g' x0 p x0 Hw (ne g) y Hm) as (a' & Hj).
    assert (Hy : y = nv g \/ y = t).
    { destruct (op_sub_joins_cases (ne g) a' y Hj) as [(Hc & _)|[(Hc & _)|(_ & [[_ ->]|[_ ->]])]]; try lia; auto. }
    destruct Hy as [-> | ->].
    - pose proof (op_NoDup_snd_unique p e (ne g) (nv g) Hndv Hx Hm). lia.
    - apply in_map_iff in Ht as ([j y] & Ey & Ht). cbn [snd] in Ey. subst y.
      apply filter_In in Ht as [Ht Hk']. unfold op_keep in Hk'. cbn [fst] in Hk'.
      apply negb_true_iff, Nat.eqb_neq in Hk'.
      pose proof (op_NoDup_snd_unique p j (ne g) t Hndv Ht Hm). lia.
  Qed.

  Lemma op_sub_psi_sc C' : simple_cycle g' C' -> simple_cycle g (op_sub_psi C').
  Proof.
    intros HC. pose proof (simple_cycle_in_cycle_space g' C' op_sub_simple HC) as HZ.
    pose proof HZ as (HS & HB & _). rewrite op_sub_ne in HB. pose proof op_sub_e_lt as Hlt.
    pose proof HC as (Hne & _ & x0 & p & Hw & Hnde & Hndv & HE).
    split; [|split; [apply res_sorted; exact HS|]].
    - intros E. assert (Hall : forall j, mem (op_sub_psi C') j = false) by (intros j; rewrite E; reflexivity).
      unfold op_sub_psi in Hall. destruct (mem C' (ne g)) eqn:Em.
      + specialize (Hall e). rewrite res_mem, (op_sub_both C' HZ), Em in Hall.
        apply Nat.ltb_lt in Hlt. rewrite Hlt in Hall. discriminate.
      + destruct C' as [|c C']; [congruence|]. specialize (Hall c). rewrite res_mem in Hall.
        assert (Hc : mem (c :: C') c = true) by (apply mem_In; left; reflexivity). rewrite Hc in Hall.
        assert (c <> ne g) by (intros ->; congruence).
        assert (c < ne g + 1) by (apply HB; left; reflexivity).
        destruct (Nat.ltb_spec c (ne g)); [discriminate|lia].
    - exists (op_con x0), (op_subst op_bwd x0 p). split; [|split; [|split]].
      + apply (op_walk_subst g' g op_con op_bwd x0 p x0); [| |exact Hw].
        * intros a i b _ Hj. apply op_bwd_step. exact Hj.
        * apply op_con_lt. change (nv g + 1) with (nv g'). eapply gl_walk_start_lt; [apply op_sub_simple|exact Hw].
      + rewrite op_bwd_edges. apply NoDup_filter. exact Hnde.
      + rewrite op_bwd_verts. apply op_NoDup_map_inj; [|apply op_NoDup_snd_filter; exact Hndv].
        intros a b Ha Hb Hab. unfold op_con in Hab.
        destruct (Nat.eqb_spec a (nv g)) as [->|Na], (Nat.eqb_spec b (nv g)) as [->|Nb]; auto; subst.
        * exfalso. eapply op_bwd_excl; eauto.
        * exfalso. eapply op_bwd_excl; eauto.
      + intros j. rewrite op_bwd_edges. unfold op_sub_psi, res. rewrite !filter_In, HE. split.
        * intros [Hj Hl]. split; [exact Hj|]. apply Nat.ltb_lt in Hl. apply negb_true_iff, Nat.eqb_neq. lia.
        * intros [Hj Hn]. split; [exact Hj|]. apply negb_true_iff, Nat.eqb_neq in Hn.
          apply Nat.ltb_lt. apply HE, HB in Hj. lia.
  Qed.

  (* ---- the isomorphism, weights, the theorem -------------------------------------------------------------------- *)

  Lemma op_sub_cs_map : op_cs_map g g' op_sub_phi op_sub_psi.
  Proof.
    constructor.
    - reflexivity.
    - exact op_sub_phi_add.
    - exact op_sub_phi_cs.
    - exact op_sub_phi_sc.
    - exact op_sub_psi_phi.
  Qed.

  Lemma op_sub_cs_map_inv : op_cs_map g' g op_sub_psi op_sub_phi.
  Proof.
    constructor.
    - reflexivity.
    - intros a b (Sa & _) (Sb & _). apply res_add; assumption.
    - exact op_sub_psi_cs.
    - exact op_sub_psi_sc.
    - exact op_sub_phi_psi.
  Qed.

  Variables (w : list Z) (wa wb : Z).
  Hypothesis Hlw : length w = ne g.
  Hypothesis Hsum : wt w e = (wa + wb)%Z.

  Let w' := subdivide_weights e wa wb w.

  Lemma op_nth_set_nth (l : list Z) : forall i j v, i < length l ->
    nth j (GraphModel.set_nth l i v) 0%Z = if Nat.eqb j i then v else nth j l 0%Z.
  Proof.
    induction l as [|y l IH]; intros i j v Hi; [cbn [length] in Hi; lia|].
    destruct i as [|i]; cbn [GraphModel.set_nth].
    - destruct j; reflexivity.
    - destruct j as [|j]; [reflexivity|]. cbn [nth length] in *. rewrite IH by lia. reflexivity.
  Qed.

  Lemma op_sub_wt_old i : i < ne g -> i <> e -> wt w' i = wt w i.
  Proof.
    intros Hi Hne. unfold wt, w', subdivide_weights.
    rewrite app_nth1 by (rewrite op_set_nth_length; lia).
    rewrite op_nth_set_nth by (pose proof op_sub_e_lt; lia). destruct (Nat.eqb_spec i e); [lia|reflexivity].
  Qed.

  Lemma op_sub_wt_e : wt w' e = wa.
  Proof.
    pose proof op_sub_e_lt as Hlt. unfold wt, w', subdivide_weights.
    rewrite app_nth1 by (rewrite op_set_nth_length; lia).
    rewrite op_nth_set_nth by lia. rewrite Nat.eqb_refl. reflexivity.
  Qed.

  Lemma op_sub_wt_m : wt w' (ne g) = wb.
  Proof.
    unfold wt, w', subdivide_weights. rewrite app_nth2 by (rewrite op_set_nth_length; lia).
    rewrite op_set_nth_length, Hlw, Nat.sub_diag. reflexivity.
  Qed.

  Lemma op_weight_snoc ww C k : weight ww (C ++ [k]) = (weight ww C + wt ww k)%Z.
  Proof.
    induction C as [|c C IH]; unfold weight in *; cbn [app map fold_right]; [lia|]. rewrite IH. lia.
  Qed.

  Lemma op_sub_weight C : sorted C -> (forall i, In i C -> i < ne g) -> weight w' (op_sub_phi C) = weight w C.
  Proof.
    intros HS HB.
    pose proof (op_sum_change (wt w) (wt w') e C (gl_sorted_NoDup C HS)) as Hc.
    assert (Hsame : forall i, In i C -> i <> e -> wt w' i = wt w i).
    { intros i Hi Hne. apply op_sub_wt_old; [apply HB; exact Hi|exact Hne]. }
    specialize (Hc Hsame). change (memb e C) with (mem C e) in Hc. fold (weight w' C) (weight w C) in Hc.
    unfold op_sub_phi. destruct (mem C e).
    - rewrite op_weight_snoc, op_sub_wt_m. rewrite op_sub_wt_e, Hsum in Hc. lia.
    - lia.
  Qed.

  Lemma op_is_opt_sub (opt : Z) : is_opt g w opt -> is_opt g' w' opt.
  Proof.
    apply (op_is_opt_cs_map g g' op_sub_phi op_sub_psi).
    - apply op_simple_sc_in_cs. exact Hs.
    - apply op_simple_sc_in_cs. exact op_sub_simple.
    - exact op_sub_cs_map.
    - exact op_sub_cs_map_inv.
    - intros C HC. apply op_sub_weight; [apply HC|].
      intros i Hi. eapply op_simple_cycle_edges_lt; eauto.
  Qed.
End Subdivide.

Lemma op_is_opt_subdivide : C08_subdivide_statement.
Proof.
  intros g w e a b x Hs [Hl _] He _ _ Hwt Hopt.
  destruct (ends g e) as [[s t]|] eqn:E.
  - rewrite (op_subdivide_eq g e s t E). apply (op_is_opt_sub g e s t Hs E w a b Hl Hwt x Hopt).
  - exfalso. unfold ends in E. apply nth_error_None in E. unfold ne in He. lia.
Qed.

(* subdividing keeps the exact domain *)
Lemma op_simple_subdivide g e : simple_graph g -> e < ne g -> simple_graph (subdivide e g).
Proof.
  intros Hs He. destruct (ends g e) as [[s t]|] eqn:E.
  - rewrite (op_subdivide_eq g e s t E). apply op_sub_simple; assumption.
  - exfalso. unfold ends in E. apply nth_error_None in E. unfold ne in He. lia.
Qed.
