(* OptProofs.v — lemmas for property C08 (the optimum is a function of the weighted graph), part 1:
   uniqueness, the transfer principle (two graphs with the same simple cycles and the same cycle
   space have the same cycle bases), scaling, isolated vertices, vertex renumbering.
   Pendant edges and bridges are in OptProofs2.v.  All names carry the prefix op_.  No axioms. *)
From Coq Require Import List Arith Bool ZArith Lia Sorted.
From Parmcb Require Import GraphModel GF2Model GF2Proofs GraphSpec GraphLemmas GF2Lin McbSpec OptSpec.
Import ListNotations.

(* ---- uniqueness of the optimum ----------------------------------------------------------------- *)

Lemma op_opt_unique g w x y : is_opt g w x -> is_opt g w y -> x = y.
Proof.
  intros (B & (HB & Hm) & <-) (B' & (HB' & Hm') & <-).
  pose proof (Hm B' HB'). pose proof (Hm' B HB). lia.
Qed.

(* ---- the transfer principle --------------------------------------------------------------------- *)

(* every simple cycle of g is one of g', and the cycle space of g' is inside that of g *)
Definition op_cycles_into (g g' : graph) : Prop :=
  (forall C, simple_cycle g C -> simple_cycle g' C) /\ (forall Z, in_cycle_space g' Z -> in_cycle_space g Z).

Definition op_same_cycles (g g' : graph) : Prop := op_cycles_into g g' /\ op_cycles_into g' g.

Lemma op_cycle_basis_into g g' B : op_cycles_into g g' -> cycle_basis g B -> cycle_basis g' B.
Proof.
  intros [H1 H2] (HB & Hi & Hs). split; [|split; [exact Hi|]].
  - eapply Forall_impl; [|exact HB]. exact H1.
  - intros Z HZ. apply Hs, H2, HZ.
Qed.

Lemma op_same_cycles_sym g g' : op_same_cycles g g' -> op_same_cycles g' g.
Proof. intros [H1 H2]. split; assumption. Qed.

Lemma op_same_cycles_basis g g' B : op_same_cycles g g' -> (cycle_basis g B <-> cycle_basis g' B).
Proof. intros [H1 H2]. split; apply op_cycle_basis_into; assumption. Qed.

Lemma op_is_opt_same_cycles g g' w w' x :
  op_same_cycles g g' ->
  (forall B, cycle_basis g B -> total_weight w' B = total_weight w B) ->
  is_opt g w x -> is_opt g' w' x.
Proof.
  intros [H1 H2] Hw (B & (HB & Hm) & <-). exists B. split; [split|].
  - eapply op_cycle_basis_into; eauto.
  - intros B' HB'. pose proof (op_cycle_basis_into _ _ _ H2 HB') as HB'g.
    rewrite (Hw B HB), (Hw B' HB'g). apply Hm. exact HB'g.
  - apply Hw. exact HB.
Qed.

(* ---- weights -------------------------------------------------------------------------------------- *)

Lemma op_weight_ext w w' C : (forall e, In e C -> wt w' e = wt w e) -> weight w' C = weight w C.
Proof.
  induction C as [|e C IH]; intros H; [reflexivity|].
  unfold weight in *. cbn [map fold_right]. rewrite (H e) by (left; reflexivity).
  rewrite IH; [reflexivity|]. intros e' He'. apply H. right. exact He'.
Qed.

Lemma op_total_weight_ext w w' B :
  (forall C e, In C B -> In e C -> wt w' e = wt w e) -> total_weight w' B = total_weight w B.
Proof.
  induction B as [|C B IH]; intros H; [reflexivity|].
  unfold total_weight in *. cbn [map fold_right].
  rewrite (op_weight_ext w w' C) by (intros e He; apply (H C e); [left; reflexivity|exact He]).
  rewrite IH; [reflexivity|]. intros C' e HC' He. apply (H C' e); [right; exact HC'|exact He].
Qed.

Lemma op_simple_cycle_edges_lt g C e : simple_cycle g C -> In e C -> e < ne g.
Proof.
  intros (_ & _ & x & p & Hw & _ & _ & HE) He. eapply gl_walk_edges_lt; [exact Hw|]. apply HE. exact He.
Qed.

(* weights that agree on the edge ids of g give every cycle basis of g the same total weight *)
Lemma op_total_weight_basis g w w' B :
  (forall e, e < ne g -> wt w' e = wt w e) -> cycle_basis g B -> total_weight w' B = total_weight w B.
Proof.
  intros H (HB & _). apply op_total_weight_ext. intros C e HC He. apply H.
  rewrite Forall_forall in HB. eapply op_simple_cycle_edges_lt; [apply HB; exact HC|exact He].
Qed.

(* ---- scaling ---------------------------------------------------------------------------------------- *)

Lemma op_wt_scale k w e : wt (scale_weights k w) e = (k * wt w e)%Z.
Proof.
  unfold wt, scale_weights.
  transitivity (nth e (map (Z.mul k) w) (k * 0)%Z); [f_equal; lia|apply map_nth].
Qed.

Lemma op_weight_scale k w C : weight (scale_weights k w) C = (k * weight w C)%Z.
Proof.
  induction C as [|e C IH]; unfold weight in *; cbn [map fold_right]; [lia|].
  rewrite IH, op_wt_scale. lia.
Qed.

Lemma op_total_weight_scale k w B : total_weight (scale_weights k w) B = (k * total_weight w B)%Z.
Proof.
  induction B as [|C B IH]; unfold total_weight in *; cbn [map fold_right]; [lia|].
  rewrite IH, op_weight_scale. lia.
Qed.

Lemma op_is_opt_scale g w k x : (0 <= k)%Z -> is_opt g w x -> is_opt g (scale_weights k w) (k * x)%Z.
Proof.
  intros Hk (B & (HB & Hm) & <-). exists B. split; [split; [exact HB|]|apply op_total_weight_scale].
  intros B' HB'. rewrite !op_total_weight_scale. apply Z.mul_le_mono_nonneg_l; [exact Hk|apply Hm; exact HB'].
Qed.

Lemma op_is_opt_scale_pow2 g w (j : nat) x :
  is_opt g w x -> is_opt g (map (Z.mul (2 ^ Z.of_nat j)) w) (2 ^ Z.of_nat j * x)%Z.
Proof. intros H. apply (op_is_opt_scale g w (2 ^ Z.of_nat j)%Z x); [apply Z.pow_nonneg; lia|exact H]. Qed.

(* scaling keeps the exact domain: positive weights stay positive under a positive factor *)
Lemma op_positive_scale g w k : (0 < k)%Z -> positive_weights g w -> positive_weights g (scale_weights k w).
Proof.
  intros Hk [Hl Hp]. split; [unfold scale_weights; rewrite map_length; exact Hl|].
  unfold scale_weights. rewrite Forall_forall in *. intros y Hy. apply in_map_iff in Hy as (z & <- & Hz).
  apply Hp in Hz. lia.
Qed.

(* ---- moving a simple cycle along a vertex map ----------------------------------------------------- *)

Lemma op_simple_ends_in_range g : simple_graph g -> ends_in_range g.
Proof. intros Hs e s t He. destruct (gl_simple_ends g e s t Hs He) as (H1 & H2 & _). auto. Qed.

Lemma op_joins_in_range g e a b : ends_in_range g -> joins g e a b -> a < nv g /\ b < nv g.
Proof. intros H [He|He]; apply H in He; tauto. Qed.

Definition op_mapw (phi : nat -> nat) (p : list (nat * nat)) : list (nat * nat) :=
  map (fun ey => (fst ey, phi (snd ey))) p.

Lemma op_mapw_edges phi p : wedges (op_mapw phi p) = wedges p.
Proof. unfold wedges, op_mapw. rewrite map_map. reflexivity. Qed.

Lemma op_mapw_verts phi p : wverts (op_mapw phi p) = map phi (wverts p).
Proof. unfold wverts, op_mapw. rewrite !map_map. reflexivity. Qed.

Lemma op_walk_map (phi : nat -> nat) g g' x p z :
  (forall e a b, In e (wedges p) -> joins g e a b -> joins g' e (phi a) (phi b)) ->
  phi z < nv g' -> walk g x p z -> walk g' (phi x) (op_mapw phi p) (phi z).
Proof.
  intros Hj Hz Hw. induction Hw as [x Hx|x e y p z Hxy Hw IH].
  - constructor. exact Hz.
  - cbn [op_mapw map fst snd]. econstructor.
    + apply Hj; [left; reflexivity|exact Hxy].
    + apply IH; [|exact Hz]. intros e' a b He'. apply Hj. right. exact He'.
Qed.

(* every vertex on a walk is an endpoint of one of its edges *)
Lemma op_walk_verts_endpoint g x p z : walk g x p z ->
  forall y, In y (wverts p) -> exists e a, In e (wedges p) /\ joins g e y a.
Proof.
  induction 1 as [x Hx|x e y p z Hxy Hw IH]; intros v Hv; [destruct Hv|].
  cbn [wverts map snd] in Hv. destruct Hv as [<-|Hv].
  - exists e, x. split; [left; reflexivity|apply gl_joins_sym; exact Hxy].
  - destruct (IH v Hv) as (e' & a & He' & Ha). exists e', a. split; [right; exact He'|exact Ha].
Qed.

Lemma op_walk_first g x p z : walk g x p z -> p <> [] ->
  exists e y, In e (wedges p) /\ joins g e x y.
Proof.
  intros Hw Hp. destruct Hw as [x Hx|x e y p z Hxy Hw]; [congruence|].
  exists e, y. split; [left; reflexivity|exact Hxy].
Qed.

Lemma op_NoDup_map_inj {A B} (f : A -> B) l :
  (forall a b, In a l -> In b l -> f a = f b -> a = b) -> NoDup l -> NoDup (map f l).
Proof.
  induction l as [|x l IH]; intros Hinj Hnd; [constructor|].
  inversion Hnd as [|? ? Hx Hnd']; subst. cbn [map]. constructor.
  - intros Hin. apply in_map_iff in Hin as (y & Hy & Hyl). apply Hx.
    rewrite (Hinj x y); auto; [left; reflexivity|right; exact Hyl].
  - apply IH; auto. intros a b Ha Hb. apply Hinj; right; assumption.
Qed.

(* phi maps the edges of C to edges of g' (same ids), is injective on the endpoints of C *)
Lemma op_simple_cycle_map (phi : nat -> nat) g g' C :
  (forall e a b, In e C -> joins g e a b -> joins g' e (phi a) (phi b) /\ phi a < nv g') ->
  (forall e e' a b a' b', In e C -> In e' C -> joins g e a b -> joins g e' a' b' -> phi a = phi a' -> a = a') ->
  simple_cycle g C -> simple_cycle g' C.
Proof.
  intros Hj Hinj (Hne & HS & x & p & Hw & Hnde & Hndv & HE).
  split; [exact Hne|]. split; [exact HS|].
  exists (phi x), (op_mapw phi p). rewrite op_mapw_edges, op_mapw_verts.
  assert (Hp : p <> []).
  { intros ->. destruct C as [|c C]; [congruence|]. destruct (HE c) as [H _]. apply H. left; reflexivity. }
  assert (Hx : phi x < nv g').
  { destruct (op_walk_first g x p x Hw Hp) as (e & y & He & Hxy).
    apply (Hj e x y); [apply HE; exact He|exact Hxy]. }
  split; [|split; [exact Hnde|split; [|exact HE]]].
  - apply (op_walk_map phi g g' x p x); [|exact Hx|exact Hw].
    intros e a b He Hab. apply (Hj e a b); [apply HE; exact He|exact Hab].
  - apply op_NoDup_map_inj; [|exact Hndv]. intros a b Ha Hb Hab.
    destruct (op_walk_verts_endpoint g x p x Hw a Ha) as (e & a2 & He & Hea).
    destruct (op_walk_verts_endpoint g x p x Hw b Hb) as (e' & b2 & He' & Heb).
    apply (Hinj e e' a a2 b b2); auto; apply HE; assumption.
Qed.

(* the identity map: g' has the edges of C with the same endpoints *)
Lemma op_simple_cycle_id g g' C :
  (forall e a b, In e C -> joins g e a b -> joins g' e a b /\ a < nv g') ->
  simple_cycle g C -> simple_cycle g' C.
Proof.
  intros Hj. apply (op_simple_cycle_map (fun v => v)); [exact Hj|]. intros; assumption.
Qed.

(* ---- moving an element of the cycle space when incidences agree ---------------------------------- *)

Lemma op_deg_in_ext2 g g' Z v v' :
  (forall e, In e Z -> incident g' e v' = incident g e v) -> deg_in g' Z v' = deg_in g Z v.
Proof.
  intros H. unfold deg_in. f_equal. apply filter_ext_in. exact H.
Qed.

Lemma op_deg_in_ext g g' Z v :
  (forall e, In e Z -> incident g' e v = incident g e v) -> deg_in g' Z v = deg_in g Z v.
Proof.
  intros H. unfold deg_in. f_equal. apply filter_ext_in. exact H.
Qed.

Lemma op_in_cycle_space_id g g' Z :
  (forall e, In e Z -> e < ne g -> e < ne g') ->
  (forall e v, In e Z -> e < ne g -> incident g' e v = incident g e v) ->
  in_cycle_space g Z -> in_cycle_space g' Z.
Proof.
  intros Hlt Hinc (HS & HB & HE). split; [exact HS|]. split.
  - intros e He. apply Hlt; [exact He|apply HB; exact He].
  - intros v. rewrite (op_deg_in_ext g g' Z v) by (intros e He; apply Hinc; [exact He|apply HB; exact He]). apply HE.
Qed.

(* ---- isolated vertices ------------------------------------------------------------------------------- *)

Lemma op_isolated_same_cycles k g : ends_in_range g -> op_same_cycles g (add_isolated k g).
Proof.
  intros Hr. split; split.
  - intros C. apply op_simple_cycle_id. intros e a b _ Hab. split; [exact Hab|].
    destruct (op_joins_in_range g e a b Hr Hab) as [Ha _]. cbn [add_isolated nv]. lia.
  - intros Z. apply op_in_cycle_space_id; [auto|reflexivity].
  - intros C. apply op_simple_cycle_id. intros e a b _ Hab. split; [exact Hab|].
    apply (op_joins_in_range g e a b Hr Hab).
  - intros Z. apply op_in_cycle_space_id; [auto|reflexivity].
Qed.

Lemma op_is_opt_isolated k g w x : simple_graph g -> is_opt g w x -> is_opt (add_isolated k g) w x.
Proof.
  intros Hs. apply op_is_opt_same_cycles; [|reflexivity].
  apply op_isolated_same_cycles, op_simple_ends_in_range, Hs.
Qed.

Lemma op_is_opt_isolated_inv k g w x : simple_graph g -> is_opt (add_isolated k g) w x -> is_opt g w x.
Proof.
  intros Hs. apply op_is_opt_same_cycles; [|reflexivity].
  apply op_same_cycles_sym, op_isolated_same_cycles, op_simple_ends_in_range, Hs.
Qed.

Lemma op_simple_isolated k g : simple_graph g -> simple_graph (add_isolated k g).
Proof.
  unfold simple_graph, simpleb. cbn [add_isolated nv ge]. intros H.
  apply andb_true_iff in H as [H1 H2]. apply andb_true_iff. split; [|exact H2].
  rewrite forallb_forall in *. intros e He. specialize (H1 e He).
  apply andb_true_iff in H1 as [H1 Hne]. apply andb_true_iff in H1 as [Ha Hb].
  apply Nat.ltb_lt in Ha, Hb. rewrite Hne, andb_true_r. apply andb_true_iff.
  split; apply Nat.ltb_lt; lia.
Qed.

(* ---- vertex renumbering ------------------------------------------------------------------------------ *)

Lemma op_perm_on_sym n f f' : perm_on n f f' -> perm_on n f' f.
Proof. intros H v Hv. destruct (H v Hv) as (H1 & H2 & H3 & H4). auto. Qed.

Lemma op_perm_on_inj n f f' a b : perm_on n f f' -> a < n -> b < n -> f a = f b -> a = b.
Proof.
  intros H Ha Hb E. destruct (H a Ha) as (_ & _ & Ea & _). destruct (H b Hb) as (_ & _ & Eb & _).
  rewrite <- Ea, <- Eb, E. reflexivity.
Qed.

Lemma op_relabel_ends f g e :
  ends (relabel f g) e = option_map (fun st => (f (fst st), f (snd st))) (ends g e).
Proof. unfold ends, relabel. cbn [ge]. apply nth_error_map. Qed.

Lemma op_relabel_ne f g : ne (relabel f g) = ne g.
Proof. unfold ne, relabel. cbn [ge]. apply map_length. Qed.

Lemma op_relabel_joins f g e a b : joins g e a b -> joins (relabel f g) e (f a) (f b).
Proof.
  unfold joins. rewrite op_relabel_ends. intros [H|H]; rewrite H; cbn [option_map fst snd]; auto.
Qed.

Lemma op_relabel_in_range n f f' g : nv g = n -> perm_on n f f' -> ends_in_range g -> ends_in_range (relabel f g).
Proof.
  intros Hn Hp Hr e s t He. rewrite op_relabel_ends in He.
  destruct (ends g e) as [[s0 t0]|] eqn:E; [|discriminate]. cbn [option_map fst snd] in He.
  inversion He; subst s t. destruct (Hr e s0 t0 E) as [Hs Ht]. cbn [relabel nv].
  rewrite Hn in *. split; [apply (Hp s0 Hs)|apply (Hp t0 Ht)].
Qed.

Lemma op_relabel_inverse n f f' g : nv g = n -> perm_on n f f' -> ends_in_range g ->
  relabel f' (relabel f g) = g.
Proof.
  intros Hn Hp Hr. destruct g as [n0 es]. unfold relabel. cbn [nv ge] in *. f_equal.
  rewrite map_map. rewrite <- (map_id es) at 2. apply map_ext_in. intros [s t] Hin. cbn [fst snd].
  apply In_nth_error in Hin as (e & He). destruct (Hr e s t He) as [Hs Ht]. cbn [nv] in *. subst n0.
  destruct (Hp s Hs) as (_ & _ & Es & _). destruct (Hp t Ht) as (_ & _ & Et & _). rewrite Es, Et. reflexivity.
Qed.

Lemma op_relabel_incident n f f' g e v : nv g = n -> perm_on n f f' -> ends_in_range g -> v < n ->
  incident (relabel f g) e (f v) = incident g e v.
Proof.
  intros Hn Hp Hr Hv. unfold incident. rewrite op_relabel_ends.
  destruct (ends g e) as [[s t]|] eqn:E; [|reflexivity]. cbn [option_map fst snd].
  destruct (Hr e s t E) as [Hs Ht]. rewrite Hn in *.
  f_equal.
  - destruct (Nat.eqb_spec s v) as [->|Hne]; [apply Nat.eqb_refl|].
    apply Nat.eqb_neq. intros Hc. apply Hne. eapply op_perm_on_inj; eauto.
  - destruct (Nat.eqb_spec t v) as [->|Hne]; [apply Nat.eqb_refl|].
    apply Nat.eqb_neq. intros Hc. apply Hne. eapply op_perm_on_inj; eauto.
Qed.

Lemma op_incident_out_of_range g e v : ends_in_range g -> nv g <= v -> incident g e v = false.
Proof.
  intros Hr Hv. unfold incident. destruct (ends g e) as [[s t]|] eqn:E; [|reflexivity].
  destruct (Hr e s t E) as [Hs Ht].
  destruct (Nat.eqb_spec s v); [lia|]. destruct (Nat.eqb_spec t v); [lia|]. reflexivity.
Qed.

Lemma op_deg_in_out_of_range g Z v : ends_in_range g -> nv g <= v -> deg_in g Z v = 0.
Proof.
  intros Hr Hv. unfold deg_in. induction Z as [|e Z IH]; [reflexivity|].
  cbn [filter]. rewrite (op_incident_out_of_range g e v Hr Hv). exact IH.
Qed.

Lemma op_relabel_into n f f' g : nv g = n -> perm_on n f f' -> ends_in_range g ->
  op_cycles_into g (relabel f g).
Proof.
  intros Hn Hp Hr. split.
  - intros C. apply (op_simple_cycle_map f).
    + intros e a b _ Hab. split; [apply op_relabel_joins; exact Hab|].
      destruct (op_joins_in_range g e a b Hr Hab) as [Ha _]. cbn [relabel nv]. rewrite Hn in *. apply (Hp a Ha).
    + intros e e' a b a' b' _ _ Hab Hab' E.
      destruct (op_joins_in_range g e a b Hr Hab) as [Ha _].
      destruct (op_joins_in_range g e' a' b' Hr Hab') as [Ha' _]. rewrite Hn in *.
      eapply op_perm_on_inj; eauto.
  - intros Z (HS & HB & HE). split; [exact HS|]. split.
    + intros e He. rewrite <- (op_relabel_ne f g). apply HB. exact He.
    + intros v. destruct (Nat.lt_ge_cases v (nv g)) as [Hv|Hv].
      * rewrite <- (op_deg_in_ext2 g (relabel f g) Z v (f v)); [apply HE|].
        intros e _. rewrite Hn in Hv. eapply op_relabel_incident; eauto.
      * rewrite op_deg_in_out_of_range by assumption. reflexivity.
Qed.

Lemma op_relabel_same_cycles n f f' g : nv g = n -> perm_on n f f' -> ends_in_range g ->
  op_same_cycles g (relabel f g).
Proof.
  intros Hn Hp Hr. split; [eapply op_relabel_into; eauto|].
  assert (H : op_cycles_into (relabel f g) (relabel f' (relabel f g))).
  { apply (op_relabel_into n f' f); [exact Hn|apply op_perm_on_sym; exact Hp|].
    eapply op_relabel_in_range; eauto. }
  rewrite (op_relabel_inverse n f f' g Hn Hp Hr) in H. exact H.
Qed.

Lemma op_is_opt_relabel f f' g w x : simple_graph g -> perm_on (nv g) f f' ->
  is_opt g w x -> is_opt (relabel f g) w x.
Proof.
  intros Hs Hp. apply op_is_opt_same_cycles; [|reflexivity].
  eapply op_relabel_same_cycles; [reflexivity|exact Hp|apply op_simple_ends_in_range; exact Hs].
Qed.

Lemma op_is_opt_relabel_inv f f' g w x : simple_graph g -> perm_on (nv g) f f' ->
  is_opt (relabel f g) w x -> is_opt g w x.
Proof.
  intros Hs Hp. apply op_is_opt_same_cycles; [|reflexivity].
  apply op_same_cycles_sym.
  eapply op_relabel_same_cycles; [reflexivity|exact Hp|apply op_simple_ends_in_range; exact Hs].
Qed.

(* the permutation given as a list with its inverse list *)
Lemma op_perm_listb_on n l l' : perm_listb n l l' = true -> perm_on n (perm_fun l) (perm_fun l').
Proof.
  unfold perm_listb. rewrite forallb_forall. intros H v Hv.
  assert (Hin : In v (seq 0 n)) by (apply in_seq; lia). specialize (H v Hin).
  apply andb_true_iff in H as [H H4]. apply andb_true_iff in H as [H H3]. apply andb_true_iff in H as [H1 H2].
  apply Nat.ltb_lt in H1, H2. apply Nat.eqb_eq in H3, H4. auto.
Qed.

Lemma op_is_opt_relabel_list l l' g w x : simple_graph g -> perm_listb (nv g) l l' = true ->
  is_opt g w x -> is_opt (relabel (perm_fun l) g) w x.
Proof. intros Hs Hp. apply (op_is_opt_relabel _ (perm_fun l')); [exact Hs|apply op_perm_listb_on; exact Hp]. Qed.

(* renumbering keeps the graph simple *)
Lemma op_perm_eqb n f f' a b : perm_on n f f' -> a < n -> b < n -> Nat.eqb (f a) (f b) = Nat.eqb a b.
Proof.
  intros Hp Ha Hb. destruct (Nat.eqb_spec a b) as [->|Hne]; [apply Nat.eqb_refl|].
  apply Nat.eqb_neq. intros E. apply Hne. eapply op_perm_on_inj; eauto.
Qed.

Definition op_pair_in_range (n : nat) (p : nat * nat) : Prop := fst p < n /\ snd p < n.
Definition op_map_pair (f : nat -> nat) (p : nat * nat) : nat * nat := (f (fst p), f (snd p)).

Lemma op_same_pair_map n f f' p q : perm_on n f f' -> op_pair_in_range n p -> op_pair_in_range n q ->
  same_pair (op_map_pair f p) (op_map_pair f q) = same_pair p q.
Proof.
  intros Hp [Hp1 Hp2] [Hq1 Hq2]. unfold same_pair, op_map_pair. cbn [fst snd].
  rewrite !(op_perm_eqb n f f') by assumption. reflexivity.
Qed.

Lemma op_existsb_same_pair_map n f f' p r : perm_on n f f' -> op_pair_in_range n p ->
  (forall q, In q r -> op_pair_in_range n q) ->
  existsb (same_pair (op_map_pair f p)) (map (op_map_pair f) r) = existsb (same_pair p) r.
Proof.
  intros Hp Hpr. induction r as [|q r IH]; intros Hr; [reflexivity|].
  cbn [map existsb]. rewrite (op_same_pair_map n f f' p q Hp Hpr) by (apply Hr; left; reflexivity).
  rewrite IH; [reflexivity|]. intros q' Hq'. apply Hr. right. exact Hq'.
Qed.

Lemma op_no_parallel_map n f f' es : perm_on n f f' -> (forall q, In q es -> op_pair_in_range n q) ->
  no_parallel (map (op_map_pair f) es) = no_parallel es.
Proof.
  intros Hp. induction es as [|p es IH]; intros Hr; [reflexivity|].
  cbn [map no_parallel].
  rewrite (op_existsb_same_pair_map n f f' p es Hp).
  2: apply Hr; left; reflexivity.
  2: intros q Hq; apply Hr; right; exact Hq.
  rewrite IH; [reflexivity|]. intros q Hq. apply Hr. right. exact Hq.
Qed.

Lemma op_simple_relabel f f' g : simple_graph g -> perm_on (nv g) f f' -> simple_graph (relabel f g).
Proof.
  intros Hs Hp. pose proof (op_simple_ends_in_range g Hs) as Hr.
  assert (Hin : forall q, In q (ge g) -> op_pair_in_range (nv g) q).
  { intros [s t] Hq. apply In_nth_error in Hq as (e & He). apply (Hr e s t He). }
  unfold simple_graph, simpleb in *. apply andb_true_iff in Hs as [H1 H2].
  change (ge (relabel f g)) with (map (op_map_pair f) (ge g)). change (nv (relabel f g)) with (nv g).
  apply andb_true_iff. split.
  - rewrite forallb_forall in *. intros q Hq. apply in_map_iff in Hq as (p & <- & Hp').
    specialize (H1 p Hp'). destruct (Hin p Hp') as [Hp1 Hp2]. unfold op_map_pair. cbn [fst snd].
    apply andb_true_iff in H1 as [_ Hne]. apply andb_true_iff. split.
    + apply andb_true_iff. split; apply Nat.ltb_lt; [apply (Hp _ Hp1)|apply (Hp _ Hp2)].
    + rewrite (op_perm_eqb (nv g) f f') by assumption. exact Hne.
  - rewrite (op_no_parallel_map (nv g) f f') by assumption. exact H2.
Qed.
