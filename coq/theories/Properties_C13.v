(* Properties_C13.v — parmcb::greedy_fvs emits a feedback vertex set.
   Only statements; each closed by [exact <lemma>] and followed by Print Assumptions.

   The model (FvsModel.v) abstracts the pairing heap by an oracle `picks`: the list of vertices the
   main loop actually emits, in order.  Every statement holds for EVERY oracle, i.e. for every
   priority order the heap could implement. *)
From Coq Require Import List Arith Bool.
From Parmcb Require Import GraphModel GraphSpec FvsModel FvsProofs.
Import ListNotations.

(* For a simple graph and any oracle: a complete run emits exactly the oracle's picks, they are
   vertices of the graph, no vertex is emitted twice, and deleting them leaves no non-empty
   even-degree edge set, i.e. no cycle. *)
Theorem C13_fvs :
  forall g picks out, simple_graph g -> greedy_fvs g picks = FvsOk out ->
  out = picks /\ feedback_vertex_set g out.
Proof. exact greedy_fvs_correct. Qed.
Print Assumptions C13_fvs.

(* On a forest nothing is emitted: the first clean-up removes every vertex, so a non-empty oracle
   is rejected (FvsBadPick) and the empty oracle is the complete run. *)
Theorem C13_forest :
  forall g picks out, simple_graph g -> acyclic_edges g (seq 0 (ne g)) ->
  greedy_fvs g picks = FvsOk out -> out = [].
Proof. exact greedy_fvs_forest. Qed.
Print Assumptions C13_forest.

Theorem C13_forest_run :
  forall g, simple_graph g -> acyclic_edges g (seq 0 (ne g)) -> greedy_fvs g [] = FvsOk [].
Proof. exact greedy_fvs_forest_run. Qed.
Print Assumptions C13_forest_run.

(* The fuel of the clean-up loop (2n + 2m + 2 per call) is never exhausted. *)
Theorem C13_no_fuel_error :
  forall g picks, simple_graph g -> greedy_fvs g picks <> FvsOutOfFuel.
Proof. exact greedy_fvs_no_fuel_error. Qed.
Print Assumptions C13_no_fuel_error.

(* Complete runs exist: the deterministic resolution (always the smallest existing vertex)
   terminates within its fuel and emits a feedback vertex set ... *)
Theorem C13_complete_run_exists :
  forall g, simple_graph g ->
  exists out, greedy_fvs_det g = FvsOk out /\ feedback_vertex_set g out.
Proof. exact greedy_fvs_det_fvs. Qed.
Print Assumptions C13_complete_run_exists.

(* ... and it is an instance of the nondeterministic run (oracle = its own output). *)
Theorem C13_det_is_a_run :
  forall g, simple_graph g ->
  exists out, greedy_fvs_det g = FvsOk out /\ greedy_fvs g out = FvsOk out /\ feedback_vertex_set g out.
Proof. exact greedy_fvs_det_complete. Qed.
Print Assumptions C13_det_is_a_run.

(* non-vacuity: two triangles 0-1-2 and 0-3-4 sharing vertex 0, a pendant tree 4-5, 5-6, 5-7 and
   an isolated vertex 8.  Different oracles give different complete runs; an oracle that stops early
   or names a removed vertex is rejected. *)
Example C13_nonvacuous :
  let g := {| nv := 9; ge := [(0,1); (1,2); (2,0); (0,3); (3,4); (4,0); (4,5); (6,5); (5,7)] |} in
  simple_graph g /\
  greedy_fvs g [0] = FvsOk [0] /\
  greedy_fvs g [1; 3] = FvsOk [1; 3] /\
  greedy_fvs g [4; 2] = FvsOk [4; 2] /\
  greedy_fvs g [1] = FvsIncomplete /\
  greedy_fvs g [0; 1] = FvsBadPick 1 /\
  greedy_fvs g [5] = FvsBadPick 5 /\
  greedy_fvs_det g = FvsOk [0].
Proof. vm_compute. repeat split; reflexivity. Qed.

(* non-vacuity of the forest clause: a tree on 7 vertices plus an isolated vertex is a simple graph
   whose edge set is acyclic (checked by the sound test acyclicb: all 63 non-empty edge subsets have
   an odd-degree vertex) *)
Example C13_forest_nonvacuous :
  let g := {| nv := 8; ge := [(0,1); (1,2); (1,3); (3,4); (5,3); (6,0)] |} in
  simple_graph g /\ acyclic_edges g (seq 0 (ne g)) /\
  greedy_fvs g [] = FvsOk [] /\ greedy_fvs g [1] = FvsBadPick 1.
Proof.
  split; [vm_compute; reflexivity|]. split; [|vm_compute; split; reflexivity].
  apply acyclicb_sound; [apply seq_sorted|vm_compute; reflexivity].
Qed.
