(* Properties_C04.v — C04: the MPI entry points for every rank count and memory layout.
   Only final statements (proofs: MpiProofs1-4.v; models: MpiModel.v, MpiSignedModel.v).

   Vocabulary.  `run`/`run_spmd`: P rank programs executed in lock step; `Deadlock` = the ranks are not all at
   the same collective with the same root (or some returned while others wait).  `rtree_of k`: the tree along
   which the k-th reduce combines the P contributions (any tree, any order of the ranks: the operator is declared
   commutative).  `ord fi r e`: the key by which rank r orders the signed edges (as found: pointer rank
   `eord_r`; as fixed: the forest index).  `silent`: returned without emitting a cycle.
   `signed_phase_premise`: the per-index search premise of the `_modulo_search` statements (see the head of
   MpiProofs3.v); it does not mention ranks, slices or reductions.  The statements C04c_result_fixed and
   C04c_result_orig_agreeing_orders at the END of this file carry NO search premise: they are proved from the verified
   specification of one bidirectional search (BidirProofs4.bidir_spec) with the good/done invariant of
   BidirProofsA1-A3 (MpiProofs6.v).  The `_modulo_search` versions are kept: their premise (an exact optimum per
   index, for every running best) is stronger than what bidir_spec yields, see the head of MpiProofs6.v.

   What is NOT covered by theorems: the tree variants' per-chunk lookup itself (no exact model of the candidate
   lookup exists; their collective structure is covered by C04b_no_deadlock_trees, the partition/reduction argument
   by C04c_result_trees_modulo_lookup for an abstract lookup, their answers are judged at run time), the progress of the real MPI runtime, and the double-precision computation of the stride (equal to
   the integer ceiling for total < 2^53). *)
From Coq Require Import List Arith Bool ZArith Permutation.
From Parmcb Require Import GraphSpec McbSpec SvaSpec SignedModel SignedZModel
  MpiModel MpiSignedModel MpiProofs1 MpiProofs2 MpiProofs3 MpiProofs4 MpiProofs5 MpiProofs6.
Import ListNotations.

(* C04a: the ceil-stride slices [r*s, min((r+1)*s, total)), s = ceil(total/P), partition [0,total) for every P >= 1:
   every index lies in the slice of some rank < P, in no two slices, slices lie inside the data, a slice that would
   start beyond the data is empty (P > total), and P = 1 gives the whole range *)
Theorem C04a_partition : forall total P, 1 <= P ->
  (forall i, i < total -> exists r, r < P /\ in_slice total P r i)
  /\ (forall r r' i, in_slice total P r i -> in_slice total P r' i -> r = r')
  /\ (forall r i, in_slice total P r i -> i < total)
  /\ (forall r, total <= slice_lo total P r -> slice_len total P r = 0)
  /\ (total <= P -> forall r, slice_len total P r <= 1)
  /\ (slice_lo total 1 0 = 0 /\ slice_len total 1 0 = total).
Proof.
  intros total P HP.
  exact (conj (fun i => slices_cover total P i HP)
        (conj (slices_disjoint total P)
        (conj (slices_inside total P)
        (conj (slice_beyond_empty total P)
        (conj (fun H r => slice_more_ranks total P r HP H) (slice_single_rank total)))))).
Qed.
Print Assumptions C04a_partition.

(* … as lists: the chunks rank 0 scatters / the ranks cut out for themselves, concatenated in rank order, are the
   original vector *)
Theorem C04a_partition_lists : forall (A : Type) (P : nat) (l : list A), 1 <= P ->
  concat (map (fun r => slice P r l) (seq 0 P)) = l.
Proof. exact @slices_concat. Qed.
Print Assumptions C04a_partition_lists.

(* C04b, signed variant: for every P >= 1, every graph with an index, EVERY per-rank order (all layouts), every
   weight type and every family of reduction trees over valid ranks, the P rank programs never deadlock: all
   return, the ranks other than 0 are silent, and rank 0 holds what the sequential support-vector loop computes
   with the per-phase search `glob_search` (rank 0's own search, or the reduction of the ranks' local minima) *)
Theorem C04b_no_deadlock : forall (W : Type) (w0 : W) (wadd : W -> W -> W) (wltb : W -> W -> bool)
    g wts roots P ord rtree_of fi,
  1 <= P -> (forall k r, In r (rleaves (rtree_of k)) -> r < P) ->
  create_index g roots = Some fi ->
  exists r0 rest,
    mcb_sva_signed_mpi_gen W w0 wadd wltb g wts roots P ord rtree_of = Some (Done (r0 :: rest))
    /\ length rest = P - 1 /\ Forall (silent w0 fi) rest
    /\ to_sva W r0 = sva_run W w0 wadd select_none
                       (glob_search W wltb fi (signed_act W w0 wadd wltb g wts P (ord fi) fi) P rtree_of) fi.
Proof. exact mpi_signed_no_deadlock. Qed.
Print Assumptions C04b_no_deadlock.

(* C04b, the four tree variants (one scatter of the candidate list in ceil-stride chunks, then broadcast + reduce
   per phase), for an arbitrary candidate list and an arbitrary per-chunk lookup *)
Theorem C04b_no_deadlock_trees : forall (W : Type) (w0 : W) (wadd : W -> W -> W) (wltb : W -> W -> bool)
    (fi : forest_index) (P : nat) (rtree_of : nat -> rtree)
    (cands : list (nat * nat)) (lookup : list (nat * nat) -> nat -> vec -> lres W),
  1 <= P -> (forall k r, In r (rleaves (rtree_of k)) -> r < P) ->
  exists r0 rest,
    run_spmd W wltb fi P rtree_of (spmd_trees W w0 wadd fi P cands lookup) = Done (r0 :: rest)
    /\ length rest = P - 1 /\ Forall (silent w0 fi) rest
    /\ to_sva W r0 = sva_run W w0 wadd select_none
                       (glob_search W wltb fi (trees_act W P cands lookup) P rtree_of) fi.
Proof. exact mpi_trees_no_deadlock. Qed.
Print Assumptions C04b_no_deadlock_trees.

(* C04c, the fixed code (pending/c04-fix-layout.patch: signed edges ordered by forest index): for every P >= 1 and
   all reduction trees — there is no layout parameter left — rank 0 returns a minimum cycle basis with its weight,
   m - n + c cycles, and the other ranks are silent; modulo the search premise *)
Theorem C04c_result_fixed_modulo_search : forall g wts roots P rtree_of,
  simple_graph g -> positive_weights g wts -> (forall v, v < nv g -> In v roots) ->
  1 <= P -> (forall k, rtree_ok P (rtree_of k)) ->
  (forall fi Sv, create_index g roots = Some fi -> canonical_witness fi Sv ->
     signed_phase_premise g wts fi Sv (fun e => nth e (fi_idx fi) 0)) ->
  exists fi cycles total sup rest,
    create_index g roots = Some fi
    /\ mcb_sva_signed_mpi_fixed_Z g wts roots P rtree_of = Some (Done (RankOut cycles total sup None :: rest))
    /\ length rest = P - 1 /\ Forall (silent 0%Z fi) rest
    /\ min_cycle_basis g wts cycles /\ total = total_weight wts cycles
    /\ has_cycle_space_dimension g (length cycles).
Proof. exact mpi_signed_fixed_min. Qed.
Print Assumptions C04c_result_fixed_modulo_search.

(* C04c, the code as found: the same conclusion PROVIDED the ranks' pointer orders coincide *)
Theorem C04c_result_orig_agreeing_orders_modulo_search : forall g wts roots P eords rtree_of,
  simple_graph g -> positive_weights g wts -> (forall v, v < nv g -> In v roots) ->
  1 <= P -> (forall k, rtree_ok P (rtree_of k)) ->
  (forall r, r < P -> nth r eords [] = nth 0 eords []) ->
  (forall fi Sv, create_index g roots = Some fi -> canonical_witness fi Sv ->
     signed_phase_premise g wts fi Sv (fun e => nth e (nth 0 eords []) 0)) ->
  exists fi cycles total sup rest,
    create_index g roots = Some fi
    /\ mcb_sva_signed_mpi_orig_Z g wts roots P eords rtree_of = Some (Done (RankOut cycles total sup None :: rest))
    /\ length rest = P - 1 /\ Forall (silent 0%Z fi) rest
    /\ min_cycle_basis g wts cycles /\ total = total_weight wts cycles
    /\ has_cycle_space_dimension g (length cycles).
Proof. exact mpi_signed_orig_min. Qed.
Print Assumptions C04c_result_orig_agreeing_orders_modulo_search.

(* C04c, the four tree variants, at the level of the candidate list: if the lookup built from any contiguous piece of
   rank 0's candidate list returns a minimum of that piece and the candidates cover every odd simple cycle
   (`lookup_premise`; (lo, len) = (0, all) is the sequential case), then scatter in ceil-stride chunks + per-rank
   lookup + reduce gives rank 0 a minimum cycle basis for every P >= 1 and all reduction trees *)
Theorem C04c_result_trees_modulo_lookup : forall g wts roots fi,
  simple_graph g -> positive_weights g wts -> (forall v, v < nv g -> In v roots) ->
  create_index g roots = Some fi ->
  forall P rtree_of cands lookup,
  1 <= P -> (forall k, rtree_ok P (rtree_of k)) ->
  lookup_premise g wts fi cands lookup ->
  exists cycles total sup rest,
    run_spmd Z Z.ltb fi P rtree_of (spmd_trees Z 0%Z Z.add fi P cands lookup)
    = Done (RankOut cycles total sup None :: rest)
    /\ length rest = P - 1 /\ Forall (silent 0%Z fi) rest
    /\ min_cycle_basis g wts cycles /\ total = total_weight wts cycles
    /\ has_cycle_space_dimension g (length cycles).
Proof. exact mpi_trees_min. Qed.
Print Assumptions C04c_result_trees_modulo_lookup.

(* D8: layout independence is FALSE of the code as found.  A 4-vertex graph, P = 2, two different pointer orders,
   Boost's reduction tree: rank 0 returns (without deadlock, as a basis of 2 cycles) weight 15, which is not a
   minimum cycle basis; the sequential variant returns 12 on the same graph *)
Theorem C04_layout_refuted :
  exists g wts roots eord0 eord1 cycles total sup rest,
    simple_graph g /\ positive_weights g wts /\ (forall v, v < nv g -> In v roots)
    /\ Permutation eord0 (seq 0 (ne g)) /\ Permutation eord1 (seq 0 (ne g)) /\ eord0 <> eord1
    /\ rtree_ok 2 (boost_reduce_tree 2)
    /\ mcb_sva_signed_mpi_orig_Z g wts roots 2 [eord0; eord1] (fun _ => boost_reduce_tree 2)
       = Some (Done (RankOut cycles total sup None :: rest))
    /\ ~ min_cycle_basis g wts cycles
    /\ (exists cycles' sup', mcb_sva_signed_Z g wts roots eord0 = SvaOk cycles' 12%Z sup' /\ (12 < total)%Z).
Proof. exact mpi_signed_layout_refuted. Qed.
Print Assumptions C04_layout_refuted.

(* ---- non-vacuity ------------------------------------------------------------------------------------ *)

(* the hypotheses of C04c (including the search premise) hold on the weighted triangle with 2 ranks … *)
Example C04c_nonvacuous :
  simple_graph tri_g /\ positive_weights tri_g tri_w /\ (forall v, v < nv tri_g -> In v tri_roots)
  /\ 1 <= 2 /\ (forall k : nat, rtree_ok 2 (boost_reduce_tree 2))
  /\ (forall fi Sv, create_index tri_g tri_roots = Some fi -> canonical_witness fi Sv ->
        signed_phase_premise tri_g tri_w fi Sv (fun e => nth e (fi_idx fi) 0)).
Proof.
  split; [exact tri_simple|]. split; [exact tri_pos|]. split; [exact tri_roots_cover|].
  split; [auto|]. split; [intros _; apply rtree_okb_ok; reflexivity|exact tri_premise].
Qed.

(* … so do the hypotheses of the tree-variant statement (one candidate, a lookup that reports it) … *)
Example C04c_trees_nonvacuous :
  create_index tri_g tri_roots = Some tri_fi /\ lookup_premise tri_g tri_w tri_fi tri_cands tri_lookup.
Proof. exact (conj tri_index tri_lookup_premise). Qed.

(* … and on the graph of the refutation the model computes: weight 15 with the two different orders, the minimum
   12 when both ranks use the same order and for the fixed code (hidden-edge branch, reduce over 2 ranks) *)
Example C04_fix_removes_the_witness :
  (exists cycles sup rest, mcb_sva_signed_mpi_orig_Z d8_g d8_w d8_roots 2 [d8_eord0; d8_eord0] (fun _ => boost_reduce_tree 2)
                           = Some (Done (RankOut cycles 12%Z sup None :: rest)))
  /\ (exists cycles sup rest, mcb_sva_signed_mpi_fixed_Z d8_g d8_w d8_roots 2 (fun _ => boost_reduce_tree 2)
                              = Some (Done (RankOut cycles 12%Z sup None :: rest))).
Proof. exact (conj d8_run_same_orders d8_run_fixed). Qed.

(* Boost's reduction tree is a valid tree for every communicator size used by the check *)
Example C04_boost_tree_ok : forallb (fun P => rtree_okb P (boost_reduce_tree P)) (seq 1 64) = true.
Proof. vm_compute. reflexivity. Qed.

(* slices on a small instance: total = 10, P = 3 -> stride 4, slices [0,4) [4,8) [8,10); P = 13 > total *)
Example C04a_example :
  map (fun r => (slice_lo 10 3 r, slice_len 10 3 r)) (seq 0 3) = [(0, 4); (4, 4); (8, 2)]
  /\ map (fun r => slice_len 3 13 r) (seq 0 13) = [1; 1; 1; 0; 0; 0; 0; 0; 0; 0; 0; 0; 0].
Proof. split; reflexivity. Qed.

(* ---- C04c without any search premise ------------------------------------------------------------------------ *)

(* C04c, the fixed code: for EVERY simple graph with positive integer weights, every root order of the spanning forest,
   every P >= 1 and every family of reduction trees the P rank programs end without deadlock, rank 0 returns a
   minimum cycle basis with its total weight and m - n + c cycles, and the other ranks emit nothing.  No layout
   parameter, no premise about the search. *)
Theorem C04c_result_fixed : forall g wts roots P rtree_of,
  simple_graph g -> positive_weights g wts -> (forall v, v < nv g -> In v roots) ->
  1 <= P -> (forall k, rtree_ok P (rtree_of k)) ->
  exists fi cycles total sup rest,
    create_index g roots = Some fi
    /\ mcb_sva_signed_mpi_fixed_Z g wts roots P rtree_of = Some (Done (RankOut cycles total sup None :: rest))
    /\ length rest = P - 1 /\ Forall (silent 0%Z fi) rest
    /\ min_cycle_basis g wts cycles /\ total = total_weight wts cycles
    /\ has_cycle_space_dimension g (length cycles).
Proof. exact mpi_signed_fixed_min_free. Qed.
Print Assumptions C04c_result_fixed.

(* C04c, the code as found: the same, PROVIDED the ranks' pointer orders coincide (cf. C04_layout_refuted) *)
Theorem C04c_result_orig_agreeing_orders : forall g wts roots P eords rtree_of,
  simple_graph g -> positive_weights g wts -> (forall v, v < nv g -> In v roots) ->
  1 <= P -> (forall k, rtree_ok P (rtree_of k)) ->
  (forall r, r < P -> nth r eords [] = nth 0 eords []) ->
  exists fi cycles total sup rest,
    create_index g roots = Some fi
    /\ mcb_sva_signed_mpi_orig_Z g wts roots P eords rtree_of = Some (Done (RankOut cycles total sup None :: rest))
    /\ length rest = P - 1 /\ Forall (silent 0%Z fi) rest
    /\ min_cycle_basis g wts cycles /\ total = total_weight wts cycles
    /\ has_cycle_space_dimension g (length cycles).
Proof. exact mpi_signed_orig_min_free. Qed.
Print Assumptions C04c_result_orig_agreeing_orders.

(* non-vacuity: the graph of the D8 refutation satisfies every hypothesis of C04c_result_fixed with P = 2 and Boost's tree
   (and the model indeed computes weight 12 there, C04_fix_removes_the_witness) *)
Example C04c_result_fixed_nonvacuous :
  simple_graph d8_g /\ positive_weights d8_g d8_w /\ (forall v, v < nv d8_g -> In v d8_roots)
  /\ 1 <= 2 /\ (forall k : nat, rtree_ok 2 (boost_reduce_tree 2)).
Proof.
  split; [exact d8_simple|]. split; [exact d8_pos|]. split; [exact d8_roots_cover|].
  split; [auto|]. intros _. apply rtree_okb_ok. reflexivity.
Qed.
