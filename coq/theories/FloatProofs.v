(* FloatProofs.v — what survives of "returns the sum of its cycle weights" when NOTHING is known about the
   weight arithmetic (no associativity, no commutativity, no monotonicity: in particular binary64 with rounding).
   For an arbitrary weight type W, an arbitrary `wadd` and an arbitrary comparison `wltb`:

     sva_phases_w_fst / mcb_sva_signed_w_fst
                          the weight-reporting loop of SignedFloatModel.v is the loop of SvaModel.v plus one
                          accumulator (its first component IS sva_phases / mcb_sva_signed)
     sva_phases_w_spec    on SvaOk: the reported weights are, phase by phase, what the search returned with the
                          emitted cycle, and the returned total is their LEFT-TO-RIGHT fold with wadd from w0
     follow_weight / bidir_found_weight / signed_phase_weight
                          every (cycle, weight) a phase of mcb_sva_signed reports satisfies `sum_of`: the weight is
                          the left-to-right wadd-fold, from w0, of the weights of EXACTLY the edges of the cycle,
                          each edge once, in some order (the order in which the search walked the predecessors,
                          the hidden edge last)
     mcb_sva_signed_total_is_fold
                          the two together for an SvaOk answer of mcb_sva_signed.

     d9_* (end of file)   the concrete witness of known finding D9 (4-cycle, weights 0.1 0.1 0.8 0.6), evaluated with
                          vm_compute on primitive floats: the signed model returns the cycle; the lexicographic
                          shortest-path trees of LexSPModel.v over binary64 are NOT mutually consistent (over Z, with
                          the same weights times ten, they are) — the premise detail/cycles.hpp:132-196 relies on.

   Nothing in the generic part depends on rounding; the quantitative statements of C09 (1e-9) are NOT proved.
   Axioms: none in the generic part; the d9_* facts compute with Coq's primitive floats (kernel primitives
   PrimFloat.add / ltb / of_uint63, no FloatAxioms needed). *)
From Coq Require Import List Arith Bool Lia Permutation ZArith Floats.
From Parmcb Require Import GraphModel GF2Model ForestModel HeapModel SvaModel SignedModel SignedFloatModel
     GraphSpec LexSPModel.
Import ListNotations.

(* ---- set_insert on a new element ------------------------------------------------------------------ *)

Lemma fp_memb_false_notin e l : memb e l = false -> ~ In e l.
Proof.
  unfold memb. intros H Hin.
  assert (existsb (Nat.eqb e) l = true) by (apply existsb_exists; exists e; split; [exact Hin|apply Nat.eqb_refl]).
  congruence.
Qed.

Lemma fp_set_insert_perm x s : ~ In x s -> Permutation (x :: s) (set_insert x s).
Proof.
  induction s as [|y s IH]; intros Hn; cbn [set_insert]; [apply Permutation_refl|].
  destruct (Nat.compare_spec x y) as [E|L|G].
  - exfalso. apply Hn. left. symmetry. exact E.
  - apply Permutation_refl.
  - eapply perm_trans; [apply perm_swap|]. apply perm_skip. apply IH. intros Hin. apply Hn. right. exact Hin.
Qed.

Lemma fp_fold_left_snoc {A B} (f : A -> B -> A) l x a : fold_left f (l ++ [x]) a = f (fold_left f l a) x.
Proof. rewrite fold_left_app. reflexivity. Qed.

(* ---- the loop with the extra accumulator ---------------------------------------------------------- *)
Section PhasesW.
  Variable W : Type.
  Variable w0 : W.
  Variable wadd : W -> W -> W.
  Variable select : nat -> list vec -> nat.
  Variable search : nat -> vec -> phase_result W.

  Lemma sva_phases_w_fst fi : forall ks sup acc wacc total,
    fst (sva_phases_w W wadd select search fi ks sup acc wacc total)
    = sva_phases W wadd select search fi ks sup acc total.
  Proof.
    induction ks as [|k ks IH]; intros sup acc wacc total; cbn [sva_phases_w sva_phases]; [reflexivity|].
    destruct (search k _) as [c w| |]; cbn [fst]; [apply IH|reflexivity|reflexivity].
  Qed.

  (* (c, w) was reported by some phase *)
  Definition reported (c : list nat) (w : W) : Prop := exists k S, search k S = PFound c w.

  Lemma sva_phases_w_spec fi : forall ks sup acc wacc total cycles tot supf ws,
    sva_phases_w W wadd select search fi ks sup acc wacc total = (SvaOk cycles tot supf, ws) ->
    exists cs' ws', cycles = rev acc ++ cs' /\ ws = rev wacc ++ ws'
      /\ Forall2 reported cs' ws' /\ tot = fold_left wadd ws' total.
  Proof.
    induction ks as [|k ks IH]; intros sup acc wacc total cycles tot supf ws H; cbn [sva_phases_w] in H.
    - injection H as <- <- _ <-. exists [], []. rewrite !app_nil_r. repeat split. constructor.
    - destruct (search k _) as [c w| |] eqn:Es; try discriminate.
      apply IH in H as (cs' & ws' & -> & -> & HF & ->).
      exists (c :: cs'), (w :: ws'). cbn [rev fold_left]. rewrite <- !app_assoc. cbn [app].
      repeat split. constructor; [|exact HF]. eexists _, _. exact Es.
  Qed.

  Lemma sva_run_w_spec fi cycles tot supf :
    sva_run W w0 wadd select search fi = SvaOk cycles tot supf ->
    exists ws, sva_run_w W w0 wadd select search fi = (SvaOk cycles tot supf, ws)
      /\ Forall2 reported cycles ws /\ tot = fold_left wadd ws w0.
  Proof.
    intros H. unfold sva_run in H. unfold sva_run_w.
    destruct (sva_phases_w W wadd select search fi (seq 0 (fi_csd fi))
                (map (fun i => [i]) (seq 0 (fi_csd fi))) [] [] w0) as [r ws] eqn:E.
    pose proof (sva_phases_w_fst fi (seq 0 (fi_csd fi)) (map (fun i => [i]) (seq 0 (fi_csd fi))) [] [] w0) as Hf.
    rewrite E in Hf. cbn [fst] in Hf. rewrite H in Hf. subst r.
    exists ws. split; [reflexivity|].
    apply sva_phases_w_spec in E as (cs' & ws' & -> & -> & HF & ->). cbn [rev app]. split; [exact HF|reflexivity].
  Qed.
End PhasesW.

(* ---- the weight a phase of mcb_sva_signed reports ---------------------------------------------------- *)
Section PhaseWeight.
  Variable W : Type.
  Variable w0 : W.
  Variable wadd : W -> W -> W.
  Variable wltb : W -> W -> bool.

  (* w is the left-to-right sum of the weights of exactly the edges of c (each once), in the order l *)
  Definition sum_of (wts : list W) (c : list nat) (w : W) : Prop :=
    exists l, Permutation l c /\ w = fold_left wadd (map (wtof W w0 wts) l) w0.

  Lemma sum_of_insert wts c w e : ~ In e c -> sum_of wts c w ->
    sum_of wts (set_insert e c) (wadd w (wtof W w0 wts e)).
  Proof.
    intros Hn (l & Hp & ->). exists (l ++ [e]). split.
    - eapply perm_trans; [apply Permutation_app_comm|]. cbn [app].
      eapply perm_trans; [apply perm_skip; exact Hp|]. apply fp_set_insert_perm. exact Hn.
    - rewrite map_app. cbn [map]. rewrite fp_fold_left_snoc. reflexivity.
  Qed.

  Lemma follow_weight P f : forall fuel cur cyc cw cyc' cw',
    sum_of (sp_wts W P) cyc cw ->
    follow W w0 wadd fuel P f cur cyc cw = Some (Some (cyc', cw')) ->
    sum_of (sp_wts W P) cyc' cw'.
  Proof.
    induction fuel as [|fuel IH]; intros cur cyc cw cyc' cw' Hs H; [discriminate|].
    cbn [follow] in H. destruct (Nat.eqb cur (f_src W f)).
    - injection H as <- <-. exact Hs.
    - destruct (nth cur (f_pred W f) None) as [[p e]|]; [|discriminate].
      destruct (memb e cyc) eqn:Em; [discriminate|].
      apply IH in H; [exact H|]. apply sum_of_insert; [apply fp_memb_false_notin; exact Em|exact Hs].
  Qed.

  Lemma bidir_found_weight P s spos t tpos cyc w :
    bidirectional_signed_dijkstra W w0 wadd wltb P s spos t tpos = Found W cyc w ->
    sum_of (sp_wts W P) cyc w.
  Proof.
    unfold bidirectional_signed_dijkstra. intros H.
    destruct (bidir_loop W w0 wadd wltb _ P _ _ None) as [fr other best| | |]; try discriminate.
    destruct best as [[bp common]|]; [|discriminate].
    destruct (negb (below_limit W wltb P bp)); [discriminate|].
    destruct (follow W w0 wadd _ P fr common [] w0) as [[[cyc1 cw1]|]|] eqn:F1; try discriminate.
    destruct (follow W w0 wadd _ P other common cyc1 cw1) as [[[cyc2 cw2]|]|] eqn:F2; try discriminate.
    injection H as <- <-.
    apply follow_weight in F1; [|exists []; split; [apply perm_nil|reflexivity]].
    apply follow_weight in F2; [exact F2|exact F1].
  Qed.

  Definition best_sum (wts : list W) (best : option (list nat * W)) : Prop :=
    match best with None => True | Some (c, w) => sum_of wts c w end.

  Lemma all_vertices_weight g wts signed : forall vs best res,
    best_sum wts best -> all_vertices W w0 wadd wltb g wts signed vs best = Some res -> best_sum wts res.
  Proof.
    induction vs as [|v vs IH]; intros best res Hb H; cbn [all_vertices] in H.
    - injection H as <-. exact Hb.
    - match type of H with context [bidirectional_signed_dijkstra W w0 wadd wltb ?P v true v false] =>
        destruct (bidirectional_signed_dijkstra W w0 wadd wltb P v true v false) as [c w| |] eqn:Eb end;
        [|apply IH in H; assumption|discriminate].
      apply bidir_found_weight in Eb. cbn [sp_wts] in Eb.
      apply IH in H; [exact H|]. destruct (better W wltb w best); [exact Eb|exact Hb].
  Qed.

  Lemma hidden_edges_weight g wts signed : forall ses best res,
    best_sum wts best -> hidden_edges W w0 wadd wltb g wts signed ses best = Some res -> best_sum wts res.
  Proof.
    induction ses as [|se ses IH]; intros best res Hb H; cbn [hidden_edges] in H.
    - injection H as <-. exact Hb.
    - destruct (ends g se) as [[sv su]|]; [|discriminate].
      match type of H with context [bidirectional_signed_dijkstra W w0 wadd wltb ?P sv true su true] =>
        destruct (bidirectional_signed_dijkstra W w0 wadd wltb P sv true su true) as [c w| |] eqn:Eb end;
        [|apply IH in H; assumption|discriminate].
      apply bidir_found_weight in Eb. cbn [sp_wts] in Eb.
      destruct (memb se c) eqn:Em; [apply IH in H; assumption|].
      apply IH in H; [exact H|].
      destruct (better W wltb (wadd w (wtof W w0 wts se)) best); [|exact Hb].
      cbn [best_sum]. apply sum_of_insert; [apply fp_memb_false_notin; exact Em|exact Eb].
  Qed.

  Lemma signed_phase_weight eord g wts fi k S c w :
    signed_phase W w0 wadd wltb eord g wts fi k S = PFound c w -> sum_of wts c w.
  Proof.
    unfold signed_phase. intros H.
    destruct (Nat.leb (nv g) (length (indices_to_edges fi S))).
    - destruct (all_vertices W w0 wadd wltb g wts _ _ None) as [[[c' w']|]|] eqn:E; try discriminate.
      injection H as <- <-. apply all_vertices_weight in E; [exact E|exact I].
    - destruct (hidden_edges W w0 wadd wltb g wts _ _ None) as [[[c' w']|]|] eqn:E; try discriminate.
      injection H as <- <-. apply hidden_edges_weight in E; [exact E|exact I].
  Qed.

  Lemma mcb_sva_signed_w_fst eord g wts roots :
    fst (mcb_sva_signed_w W w0 wadd wltb eord g wts roots) = mcb_sva_signed W w0 wadd wltb eord g wts roots.
  Proof.
    unfold mcb_sva_signed_w, mcb_sva_signed. destruct (create_index g roots) as [fi|]; [|reflexivity].
    unfold sva_run_w, sva_run. apply sva_phases_w_fst.
  Qed.

  (* an SvaOk answer: the returned value is the left-to-right fold of the per-cycle weights in emission order,
     and every per-cycle weight is a left-to-right sum of the weights of exactly the edges of its cycle *)
  Theorem mcb_sva_signed_total_is_fold eord g wts roots cycles total sup :
    mcb_sva_signed W w0 wadd wltb eord g wts roots = SvaOk cycles total sup ->
    exists ws, mcb_sva_signed_w W w0 wadd wltb eord g wts roots = (SvaOk cycles total sup, ws)
      /\ Forall2 (sum_of wts) cycles ws
      /\ total = fold_left wadd ws w0.
  Proof.
    unfold mcb_sva_signed, mcb_sva_signed_w. intros H.
    destruct (create_index g roots) as [fi|]; [|discriminate].
    apply sva_run_w_spec in H as (ws & E & HF & Ht). exists ws. split; [exact E|]. split; [|exact Ht].
    clear E Ht. induction HF as [|c w cs ws' (k & S & Hr) HF IH]; constructor; [|exact IH].
    eapply signed_phase_weight. exact Hr.
  Qed.
End PhaseWeight.

(* ---- the witness of known finding D9, in the models ---------------------------------------------------- *)

(* the 4-cycle 0-1-2-3-0 with the doubles nearest to 0.1, 0.1, 0.8, 0.6 (hex literals: exact) *)
Definition d9_graph : graph := {| nv := 4; ge := [(0, 1); (1, 2); (2, 3); (3, 0)] |}.
Definition d9_weights : list float :=
  [0x1.999999999999ap-4; 0x1.999999999999ap-4; 0x1.999999999999ap-1; 0x1.3333333333333p-1]%float.
Definition d9_weights_Z : list Z := [1; 1; 8; 6]%Z.       (* the same weights in units of 1/10, exact *)
Definition d9_total : float := 0x1.999999999999ap+0%float.   (* the double nearest to 1.6 *)
Definition d9_roots : list nat := [3; 0; 1; 2; 3].
Definition d9_eord : list nat := [0; 1; 2; 3].

Definition sptree_F := sptree float f64_zero f64_add f64_ltb.

Lemma d9_simple : simple_graph d9_graph.
Proof. reflexivity. Qed.

Lemma d9_roots_cover : forall v, v < nv d9_graph -> In v d9_roots.
Proof.
  intros v Hv. cbn [nv d9_graph] in Hv. unfold d9_roots.
  do 4 (destruct v as [|v]; [cbn [In]; tauto|]).
  exfalso. do 4 apply Nat.succ_lt_mono in Hv. inversion Hv.
Qed.

(* the signed variant is not affected: it returns the only cycle, with weight 0x1.999999999999ap+0 *)
Lemma d9_signed_ok :
  mcb_sva_signed_F d9_graph d9_weights d9_roots d9_eord = SvaOk [[0; 1; 2; 3]] d9_total [[0]].
Proof. vm_compute. reflexivity. Qed.

(* binary64: seen from 2 the two arcs to 3 tie (0.1+0.1+0.6 rounds to the double 0.8) and the single edge wins on the
   edge count; seen from 3 the long arc is STRICTLY shorter (0.6+0.1+0.1 rounds below 0.8): T_2 reaches 3 by the
   edge {2,3}, T_3 reaches 2 through 0 and 1.  In exact arithmetic both roots see a tie and choose the edge {2,3}. *)
Definition trees_inconsistent_on_d9 : Prop :=
  (exists t2 t3, sptree_F d9_graph d9_weights 2 = LxOk t2 /\ sptree_F d9_graph d9_weights 3 = LxOk t3
     /\ sp_parent float d9_graph t2 3 = Some 2 /\ sp_parent float d9_graph t3 2 = Some 1
     /\ sp_first float t2 3 = 3 /\ sp_first float t3 2 = 0)
  /\ (exists t2 t3, sptree_Z d9_graph d9_weights_Z 2 = LxOk t2 /\ sptree_Z d9_graph d9_weights_Z 3 = LxOk t3
     /\ sp_parent Z d9_graph t2 3 = Some 2 /\ sp_parent Z d9_graph t3 2 = Some 3
     /\ sp_first Z t2 3 = 3 /\ sp_first Z t3 2 = 2).

Lemma d9_trees_inconsistent : trees_inconsistent_on_d9.
Proof.
  split.
  - eexists; eexists; split; [vm_compute; reflexivity|split; [vm_compute; reflexivity|]].
    vm_compute. repeat split; reflexivity.
  - eexists; eexists; split; [vm_compute; reflexivity|split; [vm_compute; reflexivity|]].
    vm_compute. repeat split; reflexivity.
Qed.
