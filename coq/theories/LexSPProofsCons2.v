(* LexSPProofsCons2.v — C12 consistency, part 2: the path theory.
   In a simple graph with positive weights:
   * reversal of walks (lc_rev) preserves weight, length, vertex set, shortestness and lexicographic minimality;
   * the vertex set determines a shortest walk (lc_sh_set_unique), hence the lexicographically least shortest
     walk between two vertices is unique (lc_lexmin_unique);
   * the lexmin y-x walk is the reverse of the lexmin x-y walk (lc_lexmin_reverse);
   * every sub-walk of a lexmin walk is lexmin (lc_lexmin_sub).
   Prefix lc_. *)
From Coq Require Import List Arith Bool Lia ZArith Permutation Sorted.
From Parmcb Require Import GraphModel GF2Model GraphSpec GraphLemmas HeapModel LexSPModel LexSPProofsHeap LexSPProofs LexSPProofsDist LexSPProofsCons1.
Import ListNotations.

(* ---- small list facts ------------------------------------------------------------------------------ *)

Lemma lc_nodup_app_disj (a b : list nat) k : NoDup (a ++ b) -> In k a -> In k b -> False.
Proof.
  induction a as [|h a IH]; intros Hnd Ha Hb; [destruct Ha|].
  cbn [app] in Hnd. inversion Hnd as [|? ? Hnot Hnd']; subst.
  destruct Ha as [->|Ha].
  - apply Hnot. apply in_or_app. right; exact Hb.
  - exact (IH Hnd' Ha Hb).
Qed.

Lemma lc_nodup_app_r (a b : list nat) : NoDup (a ++ b) -> NoDup b.
Proof.
  induction a as [|h a IH]; intros Hnd; [exact Hnd|].
  cbn [app] in Hnd. inversion Hnd as [|? ? _ Hnd']; subst. exact (IH Hnd').
Qed.

Lemma lc_nodup_app3_disj(a b c : list nat) k : NoDup (a ++ b ++ c) -> In k b -> In k (a ++ c) -> False.
Proof.
  intros Hnd Hb Hac. apply in_app_or in Hac as [Ha|Hc].
  - apply (lc_nodup_app_disj a (b ++ c) k Hnd Ha). apply in_or_app. left; exact Hb.
  - apply lc_nodup_app_r in Hnd. exact (lc_nodup_app_disj b c k Hnd Hb Hc).
Qed.

(* adding a common part O that meets A only inside B *)
Lemma lc_slt_add_over A B O A' B' :
  (forall k, In k A' <-> In k A \/ In k O) -> (forall k, In k B' <-> In k B \/ In k O) ->
  (forall k, In k O -> In k A -> In k B) -> lc_slt A B -> lc_slt A' B'.
Proof.
  intros HA HB Hov [m [H1 [H2 H3]]]. exists m. split; [apply HA; left; exact H1|]. split.
  - intros Hc. apply HB in Hc as [Hc|Hc]; [contradiction|]. apply H2. exact (Hov m Hc H1).
  - intros k Hk. rewrite HA, HB, (H3 k Hk). tauto.
Qed.

Lemma lc_wverts_cons e y p : wverts ((e, y) :: p) = y :: wverts p.
Proof. reflexivity. Qed.

Lemma lc_wedges_cons e y p : wedges ((e, y) :: p) = e :: wedges p.
Proof. reflexivity. Qed.

(* the end of a walk is one of its vertices *)
Lemma lc_walk_end_in g x p y : walk g x p y -> In y (x :: wverts p).
Proof.
  induction 1 as [x Hx|x e y p z Hj Hw IH]; [left; reflexivity|].
  right. rewrite lc_wverts_cons. exact IH.
Qed.

Section PathTheory.
  Variable g : graph.
  Variable wts : list Z.
  Hypothesis Hsg : simple_graph g.
  Hypothesis Hpos : positive_weights g wts.

  (* ---- 1. reversal -------------------------------------------------------------------------------- *)

  Lemma lc_rev_walk : forall p x y, walk g x p y -> walk g y (lc_rev x p) x.
  Proof.
    induction p as [|[e a] p IH]; intros x y Hw.
    - inversion Hw; subst. cbn [lc_rev]. exact Hw.
    - inversion Hw as [|? ? ? ? ? Hj Hw']; subst. cbn [lc_rev].
      apply (lc_walk_snoc g y (lc_rev a p) a e x (IH a y Hw') (gl_joins_sym g e x a Hj)).
      apply (gl_simple_joins g e x a Hsg Hj).
  Qed.

  Lemma lc_rev_sum : forall p x, lz_sum wts (lc_rev x p) = lz_sum wts p.
  Proof.
    induction p as [|[e a] p IH]; intros x; [reflexivity|].
    cbn [lc_rev]. rewrite lc_sum_app, lc_sum_one, lc_sum_cons, IH. lia.
  Qed.

  Lemma lc_rev_length : forall p x, length (lc_rev x p) = length p.
  Proof.
    induction p as [|[e a] p IH]; intros x; [reflexivity|].
    cbn [lc_rev]. rewrite app_length, IH. cbn [length]. lia.
  Qed.

  Lemma lc_rev_wedges : forall p x, wedges (lc_rev x p) = rev (wedges p).
  Proof.
    induction p as [|[e a] p IH]; intros x; [reflexivity|].
    cbn [lc_rev]. rewrite lc_wedges_app, IH, lc_wedges_cons. reflexivity.
  Qed.

  Lemma lc_rev_verts : forall p x y, walk g x p y ->
    forall k, In k (y :: wverts (lc_rev x p)) <-> In k (x :: wverts p).
  Proof.
    induction p as [|[e a] p IH]; intros x y Hw k.
    - inversion Hw; subst. cbn [lc_rev]. tauto.
    - inversion Hw as [|? ? ? ? ? Hj Hw']; subst. cbn [lc_rev].
      rewrite lc_wverts_app. specialize (IH a y Hw' k).
      change (wverts [(e, x)]) with [x]. change (wverts ((e, a) :: p)) with (a :: wverts p).
      change (In k (y :: wverts (lc_rev a p) ++ [x])) with (In k ((y :: wverts (lc_rev a p)) ++ [x])).
      rewrite in_app_iff, IH. cbn [In]. tauto.
  Qed.

  Lemma lc_rev_snoc : forall q y a e x, walk g y q a -> lc_rev y (q ++ [(e, x)]) = (e, a) :: lc_rev y q.
  Proof.
    induction q as [|[f b] q IH]; intros y a e x Hw.
    - inversion Hw; subst. reflexivity.
    - inversion Hw as [|? ? ? ? ? Hj Hw']; subst. cbn [app lc_rev].
      rewrite (IH b a e x Hw'). reflexivity.
  Qed.

  Lemma lc_rev_invol : forall p x y, walk g x p y -> lc_rev y (lc_rev x p) = p.
  Proof.
    induction p as [|[e a] p IH]; intros x y Hw.
    - reflexivity.
    - inversion Hw as [|? ? ? ? ? Hj Hw']; subst. cbn [lc_rev].
      rewrite (lc_rev_snoc (lc_rev a p) y a e x (lc_rev_walk p a y Hw')), (IH a y Hw'). reflexivity.
  Qed.

  Lemma lc_rev_EQ : forall p x y, walk g x p y -> lc_EQ (lc_pl wts y (lc_rev x p)) (lc_pl wts x p).
  Proof.
    intros p x y Hw. unfold lc_EQ, lc_pl; cbn [l_dist l_cnt l_set].
    split; [apply lc_rev_sum|]. split; [apply lc_rev_length|].
    intros k. apply lc_rev_verts; exact Hw.
  Qed.

  Lemma lc_rev_shortest : forall p x y, lc_shortest g wts x p y -> lc_shortest g wts y (lc_rev x p) x.
  Proof.
    intros p x y [Hw Hm]. split; [apply lc_rev_walk; exact Hw|].
    intros q Hq. rewrite lc_rev_sum. specialize (Hm (lc_rev y q) (lc_rev_walk q y x Hq)).
    rewrite lc_rev_sum in Hm. exact Hm.
  Qed.

  Lemma lc_lexmin_rev : forall p x y, lc_lexmin g wts x p y -> lc_lexmin g wts y (lc_rev x p) x.
  Proof.
    intros p x y [Hsh Hmin]. split; [apply lc_rev_shortest; exact Hsh|].
    intros q Hq Hlt. apply (Hmin (lc_rev y q) (lc_rev_shortest q y x Hq)).
    apply (lc_LT_EQ_l (lc_pl wts y q)); [apply lc_EQ_sym; apply lc_rev_EQ; exact (lc_sh_walk g wts y q x Hq)|].
    apply (lc_LT_EQ_r _ (lc_pl wts y (lc_rev x p))); [apply lc_rev_EQ; exact (lc_sh_walk g wts x p y Hsh)|].
    exact Hlt.
  Qed.

  (* ---- 5. the empty walk ------------------------------------------------------------------------- *)

  Lemma lc_shortest_nil : forall x, x < nv g -> lc_shortest g wts x [] x.
  Proof.
    intros x Hx. split; [constructor; exact Hx|].
    intros q Hq. change (lz_sum wts []) with 0%Z. exact (lz_sum_nonneg g wts x q x Hpos Hq).
  Qed.

  Lemma lc_lexmin_nil : forall x, x < nv g -> lc_lexmin g wts x [] x.
  Proof.
    intros x Hx. split; [apply lc_shortest_nil; exact Hx|].
    intros q [Hq _]. pose proof (lz_sum_nonneg g wts x q x Hpos Hq) as Hnn.
    unfold lc_LT, lc_pl; cbn [l_dist l_cnt l_set]. change (lz_sum wts []) with 0%Z. cbn [length].
    intros [H|[_ [H|[H Hs]]]]; [lia|lia|].
    destruct q as [|h q]; [|discriminate]. exact (lc_slt_irrefl _ Hs).
  Qed.

  (* ---- 2. the vertex set determines a shortest walk ---------------------------------------------- *)

  (* a shortest walk from x to itself is empty *)
  Lemma lc_sh_loop_nil : forall p x, lc_shortest g wts x p x -> p = [].
  Proof.
    intros p x [Hw Hm]. destruct p as [|h p]; [reflexivity|]. exfalso.
    assert (Hx : x < nv g) by (eapply gl_walk_end_lt; eauto).
    specialize (Hm [] (walk_nil g x Hx)). change (lz_sum wts []) with 0%Z in Hm.
    pose proof (lc_sum_pos g wts Hpos x (h :: p) x Hw ltac:(discriminate)). lia.
  Qed.

  (* if the first vertex a of one shortest walk is a later vertex of another, its first edge is heavier *)
  Lemma lc_first_step_lt : forall e a p' f b q' x y,
    lc_shortest g wts x ((e, a) :: p') y -> lc_shortest g wts x ((f, b) :: q') y ->
    a <> b -> In a (x :: wverts ((f, b) :: q')) -> (wt wts f < wt wts e)%Z.
  Proof.
    intros e a p' f b q' x y Hp Hq Hab Hin.
    pose proof (lc_sh_walk g wts _ _ _ Hp) as Hwp. pose proof (lc_sh_walk g wts _ _ _ Hq) as Hwq.
    inversion Hwp as [|? ? ? ? ? Hje Hwp']; subst. inversion Hwq as [|? ? ? ? ? Hjf Hwq']; subst.
    destruct (gl_simple_joins g e x a Hsg Hje) as [_ [Ha Hxa]].
    destruct (gl_simple_joins g f x b Hsg Hjf) as [_ [Hb Hxb]].
    rewrite lc_wverts_cons in Hin. destruct Hin as [Hin|[Hin|Hin]]; [congruence|congruence|].
    destruct (lc_walk_split_at g Hsg b q' y a Hwq' Hin) as [q1 [q2 [-> [Hne [Hw1 Hw2]]]]].
    assert (H1 : walk g x [(e, a)] a) by (econstructor; [exact Hje|constructor; exact Ha]).
    assert (H2 : walk g x ((f, b) :: q1) a) by (econstructor; eauto).
    destruct (lc_sh_split g wts Hsg x [(e, a)] p' a y Hp H1) as [S1 _].
    change ((f, b) :: q1 ++ q2) with (((f, b) :: q1) ++ q2) in Hq.
    destruct (lc_sh_split g wts Hsg x ((f, b) :: q1) q2 a y Hq H2) as [S2 _].
    pose proof (lc_sh_sum_eq g wts x _ _ a S1 S2) as Heq.
    rewrite lc_sum_one, lc_sum_cons in Heq.
    pose proof (lc_sum_pos g wts Hpos b q1 a Hw1 Hne). lia.
  Qed.

  Lemma lc_sh_set_unique : forall p q x y, lc_shortest g wts x p y -> lc_shortest g wts x q y ->
    lc_seq (x :: wverts p) (x :: wverts q) -> p = q.
  Proof.
    induction p as [|[e a] p' IH]; intros q x y Hp Hq Hseq.
    - pose proof (lc_sh_walk g wts _ _ _ Hp) as Hwp. inversion Hwp; subst.
      symmetry. apply (lc_sh_loop_nil q y Hq).
    - destruct q as [|[f b] q'].
      + pose proof (lc_sh_walk g wts _ _ _ Hq) as Hwq. inversion Hwq; subst.
        apply (lc_sh_loop_nil _ y Hp).
      + assert (Hab : a = b).
        { destruct (Nat.eq_dec a b) as [E|Hne]; [exact E|]. exfalso.
          assert (Ha : In a (x :: wverts ((f, b) :: q'))).
          { apply Hseq. right. left. reflexivity. }
          assert (Hb : In b (x :: wverts ((e, a) :: p'))).
          { apply Hseq. right. left. reflexivity. }
          pose proof (lc_first_step_lt e a p' f b q' x y Hp Hq Hne Ha).
          pose proof (lc_first_step_lt f b q' e a p' x y Hq Hp (not_eq_sym Hne) Hb). lia. }
        subst b.
        pose proof (lc_sh_walk g wts _ _ _ Hp) as Hwp. pose proof (lc_sh_walk g wts _ _ _ Hq) as Hwq.
        inversion Hwp as [|? ? ? ? ? Hje Hwp']; subst. inversion Hwq as [|? ? ? ? ? Hjf Hwq']; subst.
        assert (Hef : e = f) by (eapply lc_joins_unique; eauto). subst f.
        destruct (gl_simple_joins g e x a Hsg Hje) as [_ [Ha Hxa]].
        assert (H1 : walk g x [(e, a)] a) by (econstructor; [exact Hje|constructor; exact Ha]).
        destruct (lc_sh_split g wts Hsg x [(e, a)] p' a y Hp H1) as [_ Sp].
        destruct (lc_sh_split g wts Hsg x [(e, a)] q' a y Hq H1) as [_ Sq].
        pose proof (lc_sh_simple g wts Hsg Hpos _ _ _ Hp) as Np.
        pose proof (lc_sh_simple g wts Hsg Hpos _ _ _ Hq) as Nq.
        rewrite lc_wverts_cons in Np, Nq, Hseq.
        inversion Np as [|? ? Hxp _]; subst. inversion Nq as [|? ? Hxq _]; subst.
        f_equal. apply (IH q' a y Sp Sq).
        intros k. split; intros Hk.
        * assert (Hk' : In k (x :: a :: wverts q')) by (apply Hseq; right; exact Hk).
          destruct Hk' as [<-|Hk']; [contradiction|exact Hk'].
        * assert (Hk' : In k (x :: a :: wverts p')) by (apply Hseq; right; exact Hk).
          destruct Hk' as [<-|Hk']; [contradiction|exact Hk'].
  Qed.

  Lemma lc_lexmin_unique : forall p q x y, lc_lexmin g wts x p y -> lc_lexmin g wts x q y -> p = q.
  Proof.
    intros p q x y [Sp Mp] [Sq Mq].
    destruct (lc_LT_tricho (lc_pl wts x p) (lc_pl wts x q)) as [H|[H|H]].
    - exfalso. exact (Mq p Sp H).
    - destruct H as [_ [_ H]]. apply (lc_sh_set_unique p q x y Sp Sq H).
    - exfalso. exact (Mp q Sq H).
  Qed.

  (* ---- 3. the reversal theorem --------------------------------------------------------------------- *)

  Theorem lc_lexmin_reverse : forall p q x y, lc_lexmin g wts x p y -> lc_lexmin g wts y q x ->
    q = lc_rev x p /\ wedges q = rev (wedges p).
  Proof.
    intros p q x y Hp Hq.
    assert (E : q = lc_rev x p) by (apply (lc_lexmin_unique q (lc_rev x p) y x Hq); apply lc_lexmin_rev; exact Hp).
    split; [exact E|]. rewrite E. apply lc_rev_wedges.
  Qed.

  (* ---- 4. sub-path closure --------------------------------------------------------------------------- *)

  (* the vertex set of p1 ++ r ++ p3 (p1 ending at x): the vertices of r, and the rest *)
  Lemma lc_verts_mid : forall p1 r p3 u x, walk g u p1 x -> forall k,
    In k (u :: wverts (p1 ++ r ++ p3)) <-> In k (x :: wverts r) \/ In k ((u :: wverts p1) ++ wverts p3).
  Proof.
    intros p1 r p3 u x Hw k. pose proof (lc_walk_end_in g u p1 x Hw) as Hx.
    rewrite !lc_wverts_app.
    change (u :: wverts p1 ++ wverts r ++ wverts p3) with ((u :: wverts p1) ++ wverts r ++ wverts p3).
    rewrite !in_app_iff. cbn [In]. split.
    - intros [H|[H|H]]; auto.
    - intros [[<-|H]|[H|H]]; auto.
  Qed.

  Theorem lc_lexmin_sub : forall p1 p2 p3 u x y v, lc_lexmin g wts u (p1 ++ p2 ++ p3) v ->
    walk g u p1 x -> walk g x p2 y -> lc_lexmin g wts x p2 y.
  Proof.
    intros p1 p2 p3 u x y v [Sh Min] H1 H2.
    destruct (lc_sh_split g wts Hsg u p1 (p2 ++ p3) x v Sh H1) as [S1 S23].
    destruct (lc_sh_split g wts Hsg x p2 p3 y v S23 H2) as [S2 S3].
    split; [exact S2|]. intros q Sq Hlt.
    pose proof (lc_sh_walk g wts _ _ _ Sq) as Hq. pose proof (lc_sh_walk g wts _ _ _ S3) as H3.
    assert (HwP' : walk g u (p1 ++ q ++ p3) v).
    { eapply gl_walk_app; [exact H1|]. eapply gl_walk_app; [exact Hq|exact H3]. }
    pose proof (lc_sh_sum_eq g wts x p2 q y S2 Sq) as Hsum.
    assert (Hsum' : lz_sum wts (p1 ++ q ++ p3) = lz_sum wts (p1 ++ p2 ++ p3)).
    { rewrite !lc_sum_app. lia. }
    assert (ShP' : lc_shortest g wts u (p1 ++ q ++ p3) v).
    { apply (lc_sh_of_sum g wts u (p1 ++ p2 ++ p3) _ v Sh HwP'). lia. }
    pose proof (lc_sh_simple g wts Hsg Hpos _ _ _ ShP') as ND.
    apply (Min _ ShP').
    unfold lc_LT, lc_pl in *; cbn [l_dist l_cnt l_set] in *.
    right. split; [exact Hsum'|].
    destruct Hlt as [Hlt|[_ [Hlt|[Hlen Hs]]]]; [lia| |].
    - left. rewrite !app_length. lia.
    - right. split; [rewrite !app_length; lia|].
      apply (lc_slt_add_over (x :: wverts q) (x :: wverts p2) ((u :: wverts p1) ++ wverts p3));
        [apply lc_verts_mid; exact H1|apply lc_verts_mid; exact H1| |exact Hs].
      intros k HkO [<-|Hkq]; [left; reflexivity|]. exfalso.
      rewrite !lc_wverts_app in ND.
      change (u :: wverts p1 ++ wverts q ++ wverts p3) with ((u :: wverts p1) ++ wverts q ++ wverts p3) in ND.
      exact (lc_nodup_app3_disj _ _ _ k ND Hkq HkO).
  Qed.
End PathTheory.

Print Assumptions lc_lexmin_reverse.
Print Assumptions lc_lexmin_sub.
Print Assumptions lc_lexmin_unique.
