(* SvaSpec.v — what the support-vector loop of SvaModel.v guarantees, for ANY per-phase search and ANY
   support-selection rule, stated against the specification vocabulary of McbSpec.v / DePinaSpec.v.
   Statements only (as Definitions … : Prop); proved in SvaProofs.v.  Every exact entry point, the
   verified reference algorithm and the verified basis checker are instances. *)
From Coq Require Import List Arith Bool ZArith.
From Parmcb Require Export McbSpec DePinaSpec ForestModel SvaModel.
Import ListNotations.

(* <S, C>: witness over forest-index coordinates against a cycle given as an edge set *)
Definition pairing (fi : forest_index) (S C : vec) : bool := vdot S (edges_to_indices fi C).

(* the selection rule only ever picks a later (or the same) support *)
Definition select_ok (csd : nat) (select : nat -> list vec -> nat) : Prop :=
  forall k sup, k < csd -> length sup = csd -> k <= select k sup < csd.

(* what a phase must deliver for the basis property: an element of the cycle space, odd w.r.t. S *)
Definition search_sound (g : graph) (fi : forest_index) {W} (search : nat -> vec -> phase_result W) : Prop :=
  forall k S c w, search k S = PFound c w -> in_cycle_space g c /\ pairing fi S c = true.

(* … and for minimality: a minimum-weight odd simple cycle, reported with its weight *)
Definition search_min (g : graph) (wts : list Z) (fi : forest_index) (search : nat -> vec -> phase_result Z) : Prop :=
  forall k S c w, search k S = PFound c w ->
    min_odd_cycle g wts (fun D => pairing fi S D = true) c /\ w = weight wts c.

(* … and for totality: a cycle is found for every non-zero witness inside the coordinate range *)
Definition search_total (fi : forest_index) {W} (search : nat -> vec -> phase_result W) : Prop :=
  forall k S, sorted S -> S <> [] -> (forall i, In i S -> i < fi_csd fi) ->
    exists c w, search k S = PFound c w.

Definition sva_generic_basis_stmt : Prop :=
  forall (g : graph) (roots : list nat) (fi : forest_index) (W : Type) (w0 : W) (wadd : W -> W -> W)
         (select : nat -> list vec -> nat) (search : nat -> vec -> phase_result W)
         (cycles : list (list nat)) (total : W) (sup : list vec),
    simple_graph g -> (forall v, v < nv g -> In v roots) -> create_index g roots = Some fi ->
    select_ok (fi_csd fi) select -> search_sound g fi search ->
    sva_run W w0 wadd select search fi = SvaOk cycles total sup ->
    length cycles = fi_csd fi /\ has_cycle_space_dimension g (length cycles)
    /\ Forall (in_cycle_space g) cycles
    /\ triangular (pairing fi) sup cycles
    /\ nondegenerate (in_cycle_space g) (pairing fi) sup
    /\ indep cycles /\ spans (in_cycle_space g) cycles.

Definition sva_generic_min_stmt : Prop :=
  forall (g : graph) (wts : list Z) (roots : list nat) (fi : forest_index)
         (select : nat -> list vec -> nat) (search : nat -> vec -> phase_result Z)
         (cycles : list (list nat)) (total : Z) (sup : list vec),
    simple_graph g -> positive_weights g wts ->
    (forall v, v < nv g -> In v roots) -> create_index g roots = Some fi ->
    select_ok (fi_csd fi) select -> search_min g wts fi search ->
    sva_run Z 0%Z Z.add select search fi = SvaOk cycles total sup ->
    min_cycle_basis g wts cycles /\ total = total_weight wts cycles
    /\ has_cycle_space_dimension g (length cycles).

Definition sva_generic_total_stmt : Prop :=
  forall (g : graph) (roots : list nat) (fi : forest_index) (W : Type) (w0 : W) (wadd : W -> W -> W)
         (select : nat -> list vec -> nat) (search : nat -> vec -> phase_result W),
    simple_graph g -> (forall v, v < nv g -> In v roots) -> create_index g roots = Some fi ->
    select_ok (fi_csd fi) select -> search_sound g fi search -> search_total fi search ->
    exists cycles total sup, sva_run W w0 wadd select search fi = SvaOk cycles total sup.

(* ---- the same statements with premises restricted to CANONICAL witnesses -----------------------
   Inside sva_run a search only ever sees a witness that is sorted, non-zero and inside the coordinate
   range (SvaProofs.sva_inv_row), so the per-phase guarantees are only needed for those. *)
Definition canonical_witness (fi : forest_index) (S : vec) : Prop :=
  sorted S /\ S <> [] /\ (forall i, In i S -> i < fi_csd fi).

Definition search_sound_c (g : graph) (fi : forest_index) {W} (search : nat -> vec -> phase_result W) : Prop :=
  forall k S c w, canonical_witness fi S -> search k S = PFound c w ->
    in_cycle_space g c /\ pairing fi S c = true.

Definition search_min_c (g : graph) (wts : list Z) (fi : forest_index) (search : nat -> vec -> phase_result Z) : Prop :=
  forall k S c w, canonical_witness fi S -> search k S = PFound c w ->
    min_odd_cycle g wts (fun D => pairing fi S D = true) c /\ w = weight wts c.

Definition sva_generic_basis_c_stmt : Prop :=
  forall (g : graph) (roots : list nat) (fi : forest_index) (W : Type) (w0 : W) (wadd : W -> W -> W)
         (select : nat -> list vec -> nat) (search : nat -> vec -> phase_result W)
         (cycles : list (list nat)) (total : W) (sup : list vec),
    simple_graph g -> (forall v, v < nv g -> In v roots) -> create_index g roots = Some fi ->
    select_ok (fi_csd fi) select -> search_sound_c g fi search ->
    sva_run W w0 wadd select search fi = SvaOk cycles total sup ->
    length cycles = fi_csd fi /\ has_cycle_space_dimension g (length cycles)
    /\ Forall (in_cycle_space g) cycles
    /\ triangular (pairing fi) sup cycles
    /\ nondegenerate (in_cycle_space g) (pairing fi) sup
    /\ indep cycles /\ spans (in_cycle_space g) cycles.

Definition sva_generic_min_c_stmt : Prop :=
  forall (g : graph) (wts : list Z) (roots : list nat) (fi : forest_index)
         (select : nat -> list vec -> nat) (search : nat -> vec -> phase_result Z)
         (cycles : list (list nat)) (total : Z) (sup : list vec),
    simple_graph g -> positive_weights g wts ->
    (forall v, v < nv g -> In v roots) -> create_index g roots = Some fi ->
    select_ok (fi_csd fi) select -> search_min_c g wts fi search ->
    sva_run Z 0%Z Z.add select search fi = SvaOk cycles total sup ->
    min_cycle_basis g wts cycles /\ total = total_weight wts cycles
    /\ has_cycle_space_dimension g (length cycles).

Definition sva_generic_total_c_stmt : Prop :=
  forall (g : graph) (roots : list nat) (fi : forest_index) (W : Type) (w0 : W) (wadd : W -> W -> W)
         (select : nat -> list vec -> nat) (search : nat -> vec -> phase_result W),
    simple_graph g -> (forall v, v < nv g -> In v roots) -> create_index g roots = Some fi ->
    select_ok (fi_csd fi) select -> search_sound_c g fi search -> search_total fi search ->
    exists cycles total sup, sva_run W w0 wadd select search fi = SvaOk cycles total sup.
