(* Properties_C02.v — placeholder while the C02 theorems are assembled: the abstract min theorem of de Pina's scheme. *)
From Parmcb Require Import DePinaSpec DePinaProofs.
Theorem C02_scheme_yields_min : depina_min_stmt.
Proof. exact depina_min. Qed.
Print Assumptions C02_scheme_yields_min.
