(* Properties_C02.v — C02: mcb_sva_signed returns a MINIMUM cycle basis and its weight.

   C02_scheme_yields_min       the abstract minimality theorem of de Pina's scheme (DePinaProofs.v)
   C02_signed_modulo_search    Z weights: with minimality and totality of the per-phase signed search as
                               explicit premises (SignedProofs.signed_search_min / signed_search_total),
                               the exact model mcb_sva_signed_Z answers SvaOk with a minimum cycle basis and
                               the returned number is its total weight.
   What is NOT proved: the two premises for all inputs (optimality of bidirectional_signed_dijkstra and of
   the running-best bookkeeping).  They are satisfiable: checked on K4 against the verified reference
   search (SignedProofs2.v). *)
From Coq Require Import List Arith Bool ZArith.
From Parmcb Require Import GraphModel GF2Model GraphSpec GF2Lin McbSpec DePinaSpec DePinaProofs
     ForestModel SvaModel SvaSpec SignedModel SignedZModel SignedProofs SignedProofs2.
Import ListNotations.

Theorem C02_scheme_yields_min : depina_min_stmt.
Proof. exact depina_min. Qed.
Print Assumptions C02_scheme_yields_min.

Theorem C02_signed_modulo_search :
  forall (g : graph) (wts : list Z) (roots eord : list nat),
    simple_graph g -> positive_weights g wts -> (forall v, v < nv g -> In v roots) ->
    (forall fi, create_index g roots = Some fi ->
       signed_search_min g wts (fun e => nth e eord 0) fi
       /\ signed_search_total g wts (fun e => nth e eord 0) fi) ->
    exists cycles total sup,
      mcb_sva_signed_Z g wts roots eord = SvaOk cycles total sup
      /\ min_cycle_basis g wts cycles /\ total = total_weight wts cycles.
Proof. exact C02_signed_modulo_search_lemma. Qed.
Print Assumptions C02_signed_modulo_search.

(* non-vacuity: on K4 (unit weights) every hypothesis holds — the two search premises by the certificate
   check against the verified reference search — and the run is the one of the real code: weight 9 *)
Example C02_signed_modulo_search_nonvacuous :
  simple_graph sg_k4 /\ positive_weights sg_k4 sg_k4_wts /\ (forall v, v < nv sg_k4 -> In v sg_k4_roots) /\
  (forall fi, create_index sg_k4 sg_k4_roots = Some fi ->
     signed_search_min sg_k4 sg_k4_wts (fun e => nth e sg_k4_eord 0) fi
     /\ signed_search_total sg_k4 sg_k4_wts (fun e => nth e sg_k4_eord 0) fi) /\
  mcb_sva_signed_Z sg_k4 sg_k4_wts sg_k4_roots sg_k4_eord
  = SvaOk [[0;1;3];[0;2;4];[1;2;5]] 9%Z [[0];[0;1];[1;2]] /\
  total_weight sg_k4_wts [[0;1;3];[0;2;4];[1;2;5]] = 9%Z.
Proof.
  split; [exact sg_k4_simple|]. split; [exact sg_k4_positive|]. split; [exact sg_k4_roots_cover|].
  split; [exact sg_k4_premises|]. split; [exact sg_k4_run|reflexivity].
Qed.

(* ---- C02, full strength for the signed variant (Z weights) ---------------------------------------------
   C02_signed   NO premise about the search: for every simple graph, positive integer weights, every root
                order and every edge-order oracle, the exact model mcb_sva_signed_Z answers SvaOk with a
                MINIMUM cycle basis, and the returned number is its total weight.
   The two premises of C02_signed_modulo_search are discharged by the optimality proof of the
   bidirectional signed search (BidirSpec.v, BidirProofs1–5.v, BidirProofsA1–A3.v). *)
From Parmcb Require Import BidirSpec BidirProofs5.

Theorem C02_signed :
  forall (g : graph) (wts : list Z) (roots eord : list nat),
    simple_graph g -> positive_weights g wts -> (forall v, v < nv g -> In v roots) ->
    exists cycles total sup,
      mcb_sva_signed_Z g wts roots eord = SvaOk cycles total sup
      /\ min_cycle_basis g wts cycles /\ total = total_weight wts cycles.
Proof. exact BidirProofs5.C02_signed. Qed.
Print Assumptions C02_signed.

(* what one bidirectional search returns (the main lemma behind C02_signed) *)
Theorem C02_bidirectional_search_optimal : bidir_spec_stmt.
Proof. exact BidirProofs4.bidir_spec. Qed.
Print Assumptions C02_bidirectional_search_optimal.

(* non-vacuity: K4 with unit weights satisfies the hypotheses; the run is the one of the real code: weight 9 *)
Example C02_signed_nonvacuous :
  simple_graph sg_k4 /\ positive_weights sg_k4 sg_k4_wts /\ (forall v, v < nv sg_k4 -> In v sg_k4_roots) /\
  mcb_sva_signed_Z sg_k4 sg_k4_wts sg_k4_roots sg_k4_eord
  = SvaOk [[0;1;3];[0;2;4];[1;2;5]] 9%Z [[0];[0;1];[1;2]] /\
  total_weight sg_k4_wts [[0;1;3];[0;2;4];[1;2;5]] = 9%Z.
Proof.
  split; [exact sg_k4_simple|]. split; [exact sg_k4_positive|]. split; [exact sg_k4_roots_cover|].
  split; [exact sg_k4_run|reflexivity].
Qed.

(* ---- C02, third sentence: the sorted list of emitted cycle weights is that of EVERY minimum cycle basis ---
   C02_weight_vector_unique   two minimum cycle bases of a simple graph with positive weights have the same
                              multiset of cycle weights (no dimension theory: de Pina's exchange argument
                              strengthened to an injection of positions + weight accounting, McbUniqueProofs.v)
   C02_sorted_weights_unique  … i.e. their sorted weight lists (merge sort of the cycle weights) are EQUAL
   C02_signed_sorted          the exact model mcb_sva_signed_Z answers SvaOk with a minimum cycle basis whose
                              weight multiset / sorted weight list is that of every minimum cycle basis
   C02_signed_sorted_any      the same, stated for any successful run *)
From Coq Require Import Permutation.
From Parmcb Require Import McbUniqueProofs.

(* the injection behind it: one distinct, at-least-as-heavy member of any spanning family per cycle of a run *)
Theorem C02_scheme_injection : depina_injection_stmt.
Proof. exact depina_injection. Qed.
Print Assumptions C02_scheme_injection.

(* the weight vector of a minimum cycle basis is unique up to order *)
Theorem C02_weight_vector_unique :
  forall (g : graph) (wts : list Z) (B B' : list vec),
    simple_graph g -> positive_weights g wts ->
    min_cycle_basis g wts B -> min_cycle_basis g wts B' ->
    Permutation (map (weight wts) B) (map (weight wts) B').
Proof. exact mcb_weight_multiset_unique. Qed.
Print Assumptions C02_weight_vector_unique.

(* the sorted weight lists of two minimum cycle bases are equal *)
Theorem C02_sorted_weights_unique :
  forall (g : graph) (wts : list Z) (B B' : list vec),
    simple_graph g -> positive_weights g wts ->
    min_cycle_basis g wts B -> min_cycle_basis g wts B' ->
    sorted_weights wts B = sorted_weights wts B'.
Proof. exact mcb_sorted_weights_unique. Qed.
Print Assumptions C02_sorted_weights_unique.

(* the model of the code: the emitted cycles have the sorted weight list of every minimum cycle basis *)
Theorem C02_signed_sorted :
  forall (g : graph) (wts : list Z) (roots eord : list nat),
    simple_graph g -> positive_weights g wts -> (forall v, v < nv g -> In v roots) ->
    exists cycles total sup,
      mcb_sva_signed_Z g wts roots eord = SvaOk cycles total sup
      /\ min_cycle_basis g wts cycles /\ total = total_weight wts cycles
      /\ forall B', min_cycle_basis g wts B' ->
           Permutation (map (weight wts) cycles) (map (weight wts) B')
           /\ sorted_weights wts cycles = sorted_weights wts B'.
Proof. exact C02_signed_sorted_lemma. Qed.
Print Assumptions C02_signed_sorted.

(* the same for any successful run *)
Theorem C02_signed_sorted_any :
  forall (g : graph) (wts : list Z) (roots eord : list nat) cycles total sup,
    simple_graph g -> positive_weights g wts -> (forall v, v < nv g -> In v roots) ->
    mcb_sva_signed_Z g wts roots eord = SvaOk cycles total sup ->
    forall B', min_cycle_basis g wts B' ->
      Permutation (map (weight wts) cycles) (map (weight wts) B')
      /\ sorted_weights wts cycles = sorted_weights wts B'.
Proof. exact C02_signed_sorted_any_lemma. Qed.
Print Assumptions C02_signed_sorted_any.

(* non-vacuity: on K4 with unit weights the run of the real code emits three triangles, so EVERY minimum
   cycle basis of K4 has the sorted weight list [3;3;3] *)
Example C02_signed_sorted_nonvacuous :
  sorted_weights sg_k4_wts [[0;1;3];[0;2;4];[1;2;5]] = [3; 3; 3]%Z /\
  forall B', min_cycle_basis sg_k4 sg_k4_wts B' -> sorted_weights sg_k4_wts B' = [3; 3; 3]%Z.
Proof.
  split; [reflexivity|]. intros B' HB'.
  destruct (C02_signed_sorted_any sg_k4 sg_k4_wts sg_k4_roots sg_k4_eord _ _ _
              sg_k4_simple sg_k4_positive sg_k4_roots_cover sg_k4_run B' HB') as (_ & E).
  rewrite <- E. reflexivity.
Qed.
