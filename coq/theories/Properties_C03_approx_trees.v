(* Properties_C03_approx_trees.v — C03 for the tree-based TBB approximate entry points, PREMISE-FREE
     include/parmcb/parmcb_approx_sva_trees_tbb.hpp   approx_mcb_sva_fvs_trees_tbb, approx_mcb_sva_iso_trees_tbb
   (companion of Properties_C03_approx.v, kept separate because it depends on Properties_C03_trees.v).
   Model: ApproxParTreesModel.approx_sva_trees_tbb_Z = ApproxParModel.approx_run_tbb (constructor, translation, the TBB
   dropped-edge builder modelled exactly) with the exact phase ParTreesModel.mcb_sva_trees_tbb_Z on the SPANNER graph (the TBB
   lookup: parallel_for over the trees, parallel_reduce over all candidates), all under ONE schedule stream.
   Oracles, all universally quantified: std::sort's scan order of the caller's edges, BFS root order / greedy_fvs picks /
   arrangement `arr` of the candidate collection of the spanner, the bit stream, numeric_limits::max, the insertion orders
   perm_c / perm_w of the builder's two concurrent_vectors.
   NOTE: the TBB entry point approx_mcb_sva_iso_trees_tbb runs the ISOMETRIC builder (the sequential approx_mcb_sva_iso_trees
   instantiates the FVS functor).
   Only statements; each closed by [exact <lemma>] and followed by Print Assumptions.

     C03_approx_fvs_trees_tbb / C03_approx_iso_trees_tbb
        every simple graph with positive integer weights, k >= 1: the run returns ApproxOk with m - n + c duplicate-free lists
        of the CALLER's edge ids forming a cycle basis of the caller's graph, returned value = their total weight under the
        caller's weights, a minimum cycle basis for k = 1, and for a weight-sorted scan order returned <= (2k-1) * w(B') for
        every cycle basis B' and opt <= returned <= (2k-1) * opt. *)
From Coq Require Import List Arith Bool ZArith Permutation Sorted Lia.
From Parmcb Require Import GraphModel GF2Model GraphSpec McbSpec OptSpec SpannerModel SvaModel FvsModel CandidatesModel TreesModel
  SchedModel ParTreesModel ApproxModel ApproxParModel ApproxParTreesModel ApproxTreesProofs1 ApproxParProofs3.
Import ListNotations.

Theorem C03_approx_fvs_trees_tbb :
  forall (wmax : Z) g w k scan roots picks arr (bits : list bool) (perm_c perm_w : list nat),
    simple_graph g -> positive_weights g w -> 1 <= k -> Permutation scan (seq 0 (ne g)) ->
    (forall v, v < nv g -> In v roots) ->
    (* greedy_fvs on the spanner runs to completion under the pick oracle *)
    (forall sp, construct_spanner g k scan = SpOk sp -> exists fvs, greedy_fvs (sp_graph sp) picks = FvsOk fvs) ->
    (* arr is a permutation of the positions of the spanner's candidate collection *)
    (forall sp trees cands, construct_spanner g k scan = SpOk sp ->
       tb_collection Z 0%Z Z.add Z.ltb TbFvs (sp_graph sp) (spanner_weights w sp) picks = CdOk (trees, cands) ->
       pt_valid_arr arr (length cands) = true) ->
    exists cycles total pos,
      approx_sva_trees_tbb_Z wmax TbFvs g w k scan roots picks arr bits perm_c perm_w = (TbbRun (ApproxOk cycles total), pos)
      /\ cycle_basis g (map set_of_list cycles) /\ has_cycle_space_dimension g (length cycles)
      /\ Forall (fun c => NoDup c /\ forall e, In e c -> e < ne g) cycles
      /\ total = total_weight w cycles
      /\ (k = 1 -> min_cycle_basis g w (map set_of_list cycles))
      /\ (Sorted (fun a b => (wt w a <= wt w b)%Z) scan ->
            (forall B', cycle_basis g B' -> (total <= Z.of_nat (2 * k - 1) * total_weight w B')%Z)
            /\ (forall x, is_opt g w x -> (x <= total <= Z.of_nat (2 * k - 1) * x)%Z)).
Proof. exact pa_fvs_trees_tbb_full. Qed.
Print Assumptions C03_approx_fvs_trees_tbb.

Theorem C03_approx_iso_trees_tbb :
  forall (wmax : Z) g w k scan roots picks arr (bits : list bool) (perm_c perm_w : list nat),
    simple_graph g -> positive_weights g w -> 1 <= k -> Permutation scan (seq 0 (ne g)) ->
    (forall v, v < nv g -> In v roots) ->
    (forall sp trees cands, construct_spanner g k scan = SpOk sp ->
       tb_collection Z 0%Z Z.add Z.ltb TbIso (sp_graph sp) (spanner_weights w sp) picks = CdOk (trees, cands) ->
       pt_valid_arr arr (length cands) = true) ->
    exists cycles total pos,
      approx_sva_trees_tbb_Z wmax TbIso g w k scan roots picks arr bits perm_c perm_w = (TbbRun (ApproxOk cycles total), pos)
      /\ cycle_basis g (map set_of_list cycles) /\ has_cycle_space_dimension g (length cycles)
      /\ Forall (fun c => NoDup c /\ forall e, In e c -> e < ne g) cycles
      /\ total = total_weight w cycles
      /\ (k = 1 -> min_cycle_basis g w (map set_of_list cycles))
      /\ (Sorted (fun a b => (wt w a <= wt w b)%Z) scan ->
            (forall B', cycle_basis g B' -> (total <= Z.of_nat (2 * k - 1) * total_weight w B')%Z)
            /\ (forall x, is_opt g w x -> (x <= total <= Z.of_nat (2 * k - 1) * x)%Z)).
Proof. exact pa_iso_trees_tbb_full. Qed.
Print Assumptions C03_approx_iso_trees_tbb.

(* non-vacuity: the graph of C03_approx_signed_tbb_nonvacuous, k = 2 (the spanner keeps the 5-cycle, three dropped edges),
   all-ones stream, different insertion orders for `cycles` and `cycles_weights`: FVS builder (pick 4: one tree, one candidate)
   and isometric builder (nine trees, one candidate) *)
Example C03_approx_trees_tbb_nonvacuous :
  let g := {| nv := 9; ge := [(0,1); (0,2); (0,3); (1,2); (1,3); (2,3); (3,4);
                               (4,5); (5,6); (6,7); (7,8); (8,4)] |} in
  let w := [1; 1; 2; 2; 2; 3; 1; 1; 1; 1; 1; 5]%Z in
  let scan := [6; 0; 1; 10; 7; 8; 9; 3; 2; 4; 5; 11] in
  let roots := [4; 0; 1; 2; 3; 5; 6; 7; 8] in
  simple_graph g /\ positive_weights g w /\ Permutation scan (seq 0 (ne g))
  /\ (forall v, v < nv g -> In v roots)
  /\ (forall sp, construct_spanner g 2 scan = SpOk sp -> exists fvs, greedy_fvs (sp_graph sp) [4] = FvsOk fvs)
  /\ (forall sp trees cands, construct_spanner g 2 scan = SpOk sp ->
        tb_collection Z 0%Z Z.add Z.ltb TbFvs (sp_graph sp) (spanner_weights w sp) [4] = CdOk (trees, cands) ->
        pt_valid_arr [0] (length cands) = true)
  /\ approx_sva_trees_tbb_Z 2147483647 TbFvs g w 2 scan roots [4] [0] [true] [2;0;1] [1;2;0]
     = (TbbRun (ApproxOk [[10; 7; 8; 9; 11]; [1; 0; 3]; [2; 1; 5]; [2; 0; 4]] 24%Z), 12)
  /\ fst (approx_sva_trees_tbb_Z 2147483647 TbIso g w 2 scan roots [] [0] [true] [2;0;1] [1;2;0])
     = TbbRun (ApproxOk [[10; 7; 8; 9; 11]; [1; 0; 3]; [2; 1; 5]; [2; 0; 4]] 24%Z).
Proof.
  cbv zeta. split; [vm_compute; reflexivity|]. split; [split; [reflexivity|repeat constructor]|].
  split; [apply SpannerProofs.scan_perm_check; vm_compute; reflexivity|].
  split; [intros v Hv; do 9 (destruct v as [|v]; [cbn [In]; tauto|]); exfalso; cbn [nv] in Hv; lia|].
  split; [|split; [|split; vm_compute; reflexivity]].
  - intros sp Hsp.
    match type of Hsp with ?l = _ => eassert (E : l = _) by (vm_compute; reflexivity) end.
    pose proof (eq_trans (eq_sym Hsp) E) as E1. injection E1 as ->. clear Hsp E.
    eexists. vm_compute. reflexivity.
  - intros sp trees cands Hsp Hc.
    match type of Hsp with ?l = _ => eassert (E : l = _) by (vm_compute; reflexivity) end.
    pose proof (eq_trans (eq_sym Hsp) E) as E1. injection E1 as ->. clear Hsp E.
    match type of Hc with ?l = _ => eassert (E : l = _) by (vm_compute; reflexivity) end.
    pose proof (eq_trans (eq_sym Hc) E) as E1. injection E1 as -> ->. reflexivity.
Qed.
